(* FormatParseFuncProofs.v — C06 round trip for `func` declarations and `on` handlers, against
   Parser.parse_func / parse_event_handler / program_loop (parser.go: parseFunc, parseEventHandler,
   parseProgram) and the signature pre-pass (parseFuncSignatures).
   The formatter writes blank lines around func / on (nlAfter): the tree a re-parse gives has one
   empty statement after every index of nlAfter ([prog_trees]). *)
From Coq Require Import List String NArith ZArith Bool Arith Lia.
From EvyV Require Import Base FmtAst Format FormatProofs Pratt PrattProofs Parser ParserProofs ParserRules ParserScope ParserCursor
  FormatParse FormatParseProofs FormatParseListProofs FormatParseStmtProofs FormatParseTargetProofs FormatParseBlockProofs
  FormatParsePlainProofs.
From EvyV Require FormatNlProofs.
From EvyV.Gen Require Import Prec.
Import ListNotations.
Local Open Scope nat_scope.

(* ================================================================ *)
(** * parseStatement and its callees never touch p.funcs' bodies / p.eventHandlers *)

Definition kb (s : pst) : list str * list str := (bodies s, hds s).
Definition KB {A} (s : pst) (r : PR A) : Prop := forall a s', r = Ok a s' -> kb s' = kb s.

Lemma kb_with_cs s c : kb (with_cs s c) = kb s. Proof. reflexivity. Qed.
Lemma kb_with_scs s l : kb (with_scs s l) = kb s. Proof. reflexivity. Qed.
Lemma kb_upd f s : kb (upd f s) = kb s. Proof. reflexivity. Qed.
Lemma kb_adv s : kb (adv s) = kb s. Proof. reflexivity. Qed.
Lemma kb_apnl s : kb (apnl s) = kb s. Proof. reflexivity. Qed.
Lemma kb_serr_at k n s : kb (serr_at k n s) = kb s. Proof. reflexivity. Qed.
Lemma kb_serr k s : kb (serr k s) = kb s. Proof. reflexivity. Qed.
Lemma kb_ty_err_here t s : kb (ty_err_here t s) = kb s. Proof. reflexivity. Qed.
Lemma kb_assert_eol s : kb (assert_eol s) = kb s. Proof. unfold assert_eol. destruct (is_at_eol _); reflexivity. Qed.
Lemma kb_passert t s : kb (snd (passert t s)) = kb s. Proof. unfold passert. destruct (assert_token t (cs s)); reflexivity. Qed.
Lemma kb_scope_set n p s : kb (scope_set n p s) = kb s.
Proof. unfold scope_set. destruct (str_eqb _ _); [reflexivity|]. destruct (scs s); reflexivity. Qed.
Lemma kb_mark n s : kb (mark n s) = kb s. Proof. reflexivity. Qed.
Lemma kb_fold_mark l s : kb (fold_right mark s l) = kb s.
Proof. induction l as [|n l IH]; [reflexivity|]. cbn [fold_right]. rewrite kb_mark. exact IH. Qed.
Lemma kb_collect s c : kb (collect s c) = kb s.
Proof. unfold collect. rewrite kb_upd, kb_fold_mark. reflexivity. Qed.
Lemma kb_push_scope a b c s : kb (push_scope a b c s) = kb s. Proof. reflexivity. Qed.
Lemma kb_push_inherit b s : kb (push_inherit b s) = kb s. Proof. reflexivity. Qed.
Lemma kb_pop_scope s : kb (pop_scope s) = kb s. Proof. reflexivity. Qed.
Lemma kb_fold_serr {X} (f : X -> nat) k (l : list X) : forall s, kb (fold_left (fun s v => serr_at k (f v) s) l s) = kb s.
Proof. induction l as [|x l IH]; intro s; [reflexivity|]. cbn [fold_left]. rewrite IH. reflexivity. Qed.
Lemma kb_validate_scope s : kb (validate_scope s) = kb s.
Proof. unfold validate_scope. destruct (scs s); [reflexivity|]. apply kb_fold_serr. Qed.
Lemma kb_validate_var_decl B n p a s : kb (snd (validate_var_decl B n p a s)) = kb s.
Proof. unfold validate_var_decl. repeat (destruct (_ : bool); try reflexivity). Qed.
Lemma kb_finish_end s : kb (finish_end s) = kb s.
Proof. unfold finish_end. rewrite kb_apnl, kb_assert_eol, kb_adv, kb_passert. reflexivity. Qed.
Lemma kb_upd_err e n s : kb (upd (add_err_at e n) s) = kb s. Proof. reflexivity. Qed.

#[local] Hint Rewrite kb_with_cs kb_with_scs kb_upd kb_adv kb_apnl kb_serr_at kb_serr kb_ty_err_here kb_assert_eol kb_passert
  kb_scope_set kb_mark kb_collect kb_push_scope kb_push_inherit kb_pop_scope kb_validate_scope kb_validate_var_decl
  kb_finish_end kb_upd_err : kb.

Lemma passert_kb t s ok s' : passert t s = (ok, s') -> kb s' = kb s.
Proof. intro H. pose proof (kb_passert t s) as X. rewrite H in X. exact X. Qed.
Lemma vvd_kb B n p a s ok s' : validate_var_decl B n p a s = (ok, s') -> kb s' = kb s.
Proof. intro H. pose proof (kb_validate_var_decl B n p a s) as X. rewrite H in X. exact X. Qed.
Lemma expr_call_kb B {A} (f : env -> nat -> pstate -> res A) s : KB s (expr_call B f s).
Proof.
  intros a s' H. unfold expr_call in H. destruct (f _ _ _) as [[x c]|]; [|discriminate H].
  apply Ok_inj in H as [-> ->]. apply kb_collect.
Qed.

Ltac kb_sub P := first [ apply expr_call_kb in P | apply passert_kb in P | apply vvd_kb in P ].
Ltac kb_chew H :=
  repeat (first
    [ discriminate H
    | match type of H with
      | Ok _ _ = Ok _ _ => fail 1
      | (match ?m with _ => _ end) = Ok _ _ =>
          lazymatch m with
          | context[match _ with _ => _ end] => fail
          | _ => let P := fresh "P" in first [ destruct m as [? ?| |] eqn:P | destruct m as [? ?] eqn:P | destruct m eqn:P ]; try kb_sub P
          end
      | (if ?b then _ else _) = Ok _ _ => let P := fresh "B" in destruct b eqn:P
      | (let '(_, _) := ?m in _) = Ok _ _ => let P := fresh "A" in destruct m eqn:P; try kb_sub P
      end ]).
Ltac kb_fin H :=
  apply Ok_inj in H; destruct H; subst; autorewrite with kb;
  repeat match goal with Hf : kb ?x = kb _ |- _ => rewrite Hf; clear Hf; autorewrite with kb end;
  try reflexivity; try congruence.

Section Keep.
  Variable B : benv.

  Lemma p_type_kb s : KB s (p_type B s). Proof. apply expr_call_kb. Qed.
  Lemma p_toplevel_kb s : KB s (p_toplevel B s). Proof. apply expr_call_kb. Qed.
  Lemma p_expr_list_kb s : KB s (p_expr_list B s). Proof. apply expr_call_kb. Qed.
  Lemma p_func_call_kb n s : KB s (p_func_call B n s). Proof. apply expr_call_kb. Qed.
  Lemma p_index_kb l s : KB s (p_index B l s). Proof. apply expr_call_kb. Qed.
  Lemma p_dot_kb l s : KB s (p_dot B l s). Proof. apply expr_call_kb. Qed.

  Lemma typed_decl_kb s : KB s (parse_typed_decl B s).
  Proof.
    intros a s' H. unfold parse_typed_decl in H.
    destruct (p_type B _) as [t s2| |] eqn:P; try discriminate H. apply p_type_kb in P.
    destruct t; kb_fin H.
  Qed.

  Lemma typed_decl_stmt_kb s : KB s (parse_typed_decl_stmt B s).
  Proof.
    intros a s' H. unfold parse_typed_decl_stmt in H.
    destruct (parse_typed_decl B s) as [[[n p] t] s1| |] eqn:P; try discriminate H. apply typed_decl_kb in P.
    destruct t as [t|]; [|kb_fin H].
    destruct (validate_var_decl B n p false s1) as [ok s2] eqn:V. apply vvd_kb in V. destruct ok; kb_fin H.
  Qed.

  Lemma inferred_decl_stmt_kb s : KB s (parse_inferred_decl_stmt B s).
  Proof.
    intros a s' H. unfold parse_inferred_decl_stmt in H.
    destruct (p_toplevel B _) as [v s2| |] eqn:P; try discriminate H. apply p_toplevel_kb in P.
    destruct v as [t|]; [|kb_fin H].
    destruct (tyerr_s B _ _ _); [kb_fin H|].
    destruct (validate_var_decl B _ _ false s2) as [ok s3] eqn:V. apply vvd_kb in V. destruct ok; kb_fin H.
  Qed.

  Lemma assign_target_loop_kb : forall fuel tok n s, KB s (assign_target_loop B fuel tok n s).
  Proof.
    induction fuel as [|f IH]; intros tok n s a s' H; [discriminate|]. cbn [assign_target_loop] in H.
    destruct (ct s).
    all: try (apply Ok_inj in H as [_ ->]; reflexivity).
    - destruct (tyerr_s B _ _ _); [kb_fin H|].
      destruct (p_index B n s) as [r s1| |] eqn:P; try discriminate H. apply p_index_kb in P.
      destruct r as [n'|]; [apply IH in H; congruence|kb_fin H].
    - destruct (p_dot B n s) as [r s1| |] eqn:P; try discriminate H. apply p_dot_kb in P.
      destruct r as [n'|]; [apply IH in H; congruence|kb_fin H].
  Qed.

  Lemma assign_target_kb s : KB s (parse_assign_target B s).
  Proof.
    intros a s' H. unfold parse_assign_target in H.
    destruct (str_eqb _ _); [kb_fin H|]. destruct (negb _); [kb_fin H|].
    apply assign_target_loop_kb in H. rewrite H. reflexivity.
  Qed.

  Lemma assign_stmt_kb s : KB s (parse_assign_stmt B s).
  Proof.
    intros a s' H. unfold parse_assign_stmt in H.
    destruct (is_func _ s); [kb_fin H|].
    destruct (parse_assign_target B s) as [tg s1| |] eqn:P; try discriminate H. apply assign_target_kb in P.
    destruct tg as [target|]; [|kb_fin H].
    destruct (p_toplevel B _) as [v s3| |] eqn:P2; try discriminate H. apply p_toplevel_kb in P2.
    destruct v as [value|]; [|kb_fin H].
    destruct (tyerr_s B _ _ _); kb_fin H.
  Qed.

  Lemma call_stmt_kb s : KB s (parse_call_stmt B s).
  Proof.
    intros a s' H. unfold parse_call_stmt in H.
    destruct (lookup_fn _ _) as [fi|]; [|discriminate H].
    destruct (p_func_call B (fi_nil fi) s) as [x s1| |] eqn:P; try discriminate H. apply p_func_call_kb in P.
    destruct x; [|discriminate H]. kb_fin H.
  Qed.

  Lemma return_stmt_kb s : KB s (parse_return_stmt B s).
  Proof.
    intros a s' H. unfold parse_return_stmt in H. cbv zeta in H.
    destruct (is_at_eol (cs (adv s))).
    - apply Ok_inj in H as [_ ->]. autorewrite with kb.
      destruct (negb _); [reflexivity|]. destruct (ret_value _); reflexivity.
    - destruct (p_toplevel B (adv s)) as [r s2| |] eqn:P; try discriminate H. apply p_toplevel_kb in P.
      destruct r as [t|]; apply Ok_inj in H as [_ ->]; autorewrite with kb.
      + destruct (negb _); [autorewrite with kb; exact P|]. destruct (tyerr_s B _ _ _); autorewrite with kb; exact P.
      + destruct (negb _); autorewrite with kb; exact P.
  Qed.

  Lemma break_stmt_kb s : KB s (parse_break_stmt s).
  Proof. intros a s' H. unfold parse_break_stmt in H. apply Ok_inj in H as [_ ->]. destruct (in_loop s); reflexivity || (autorewrite with kb; reflexivity). Qed.

  Lemma condition_kb s : KB s (parse_condition B s).
  Proof.
    intros a s' H. unfold parse_condition in H.
    destruct (p_toplevel B s) as [c s1| |] eqn:P; try discriminate H. apply p_toplevel_kb in P.
    destruct c as [t|]; [|kb_fin H]. destruct (tyerr_s B _ _ _); kb_fin H.
  Qed.

  Lemma empty_stmt_kb s : KB s (parse_empty_stmt s).
  Proof. intros a s' H. unfold parse_empty_stmt in H. destruct (ct s); try discriminate H; kb_fin H. Qed.

  Section KOpen.
    Variable ps : pst -> PR (option stmt).
    Hypothesis Hps : forall s, KB s (ps s).

    Lemma block_loop_kb : forall fuel els acc terms s, KB s (block_loop ps fuel els acc terms s).
    Proof.
      induction fuel as [|f IH]; intros els acc terms s a s' H; [discriminate|]. cbn [block_loop] in H.
      destruct (match ct s with T_END | T_EOF => true | T_ELSE => els | _ => false end); [kb_fin H|].
      destruct (ps s) as [r s1| |] eqn:P; try discriminate H. apply Hps in P.
      destruct r as [st|]; [|apply IH in H; congruence].
      destruct (terms && negb (is_empty_stmt st)); apply IH in H; autorewrite with kb in H; congruence.
    Qed.

    Lemma block_with_kb fuel els s : KB s (parse_block_with ps fuel els s).
    Proof.
      intros a s' H. unfold parse_block_with in H.
      destruct (block_loop ps fuel els [] false s) as [b s1| |] eqn:P; try discriminate H. apply block_loop_kb in P.
      apply Ok_inj in H as [_ ->]. rewrite kb_validate_scope. destruct b as [[|? ?] ?]; autorewrite with kb; exact P.
    Qed.

    Lemma for_stmt_kb fuel s : KB s (parse_for_stmt B ps fuel s).
    Proof.
      intros a s' H. unfold parse_for_stmt in H. cbv zeta in H.
      set (s1 := adv (push_inherit true s)) in *.
      assert (K1 : kb s1 = kb s) by reflexivity.
      match type of H with (match ?lv with _ => _ end) = _ => destruct lv as [o s4] eqn:LV end.
      assert (K4 : kb s4 = kb s).
      { destruct (ct s1).
        all: try (injection LV as _ <-; exact K1).
        destruct (validate_var_decl B _ _ false s1) as [ok s2] eqn:V. apply vvd_kb in V.
        destruct ok; injection LV as _ <-; autorewrite with kb; congruence. }
      destruct o as [v|]; [|kb_fin H].
      destruct (passert T_RANGE s4) as [ok s5] eqn:A. apply passert_kb in A.
      destruct ok; cbn [negb] in H; [|kb_fin H].
      destruct (p_expr_list B (adv s5)) as [ns s7| |] eqn:P; try discriminate H. apply p_expr_list_kb in P. autorewrite with kb in P.
      destruct (match ns with Some l => l | None => [] end) as [|n more]; [kb_fin H|].
      destruct (_ && _); [kb_fin H|].
      match type of H with (pdo (b, s10) <- ?m; _) = _ => destruct m as [b s10| |] eqn:PB end; try discriminate H.
      apply block_with_kb in PB. autorewrite with kb in PB.
      match type of PB with kb _ = kb (if ?c then _ else _) => destruct c end; autorewrite with kb in PB; kb_fin H.
    Qed.

    Lemma while_stmt_kb fuel s : KB s (parse_while_stmt B ps fuel s).
    Proof.
      intros a s' H. unfold parse_while_stmt in H.
      destruct (parse_condition B _) as [c s2| |] eqn:P; try discriminate H. apply condition_kb in P.
      destruct (parse_block_with ps fuel false (apnl s2)) as [b s3| |] eqn:PB; try discriminate H. apply block_with_kb in PB.
      autorewrite with kb in *. kb_fin H.
    Qed.

    Lemma if_cond_block_kb fuel s : KB s (parse_if_cond_block B ps fuel s).
    Proof.
      intros a s' H. unfold parse_if_cond_block in H.
      destruct (parse_condition B _) as [c s2| |] eqn:P; try discriminate H. apply condition_kb in P.
      destruct (parse_block_with ps fuel true (apnl s2)) as [b s3| |] eqn:PB; try discriminate H. apply block_with_kb in PB.
      autorewrite with kb in *. kb_fin H.
    Qed.

    Lemma else_if_loop_kb : forall fuel bfuel acc s, KB s (else_if_loop B ps fuel bfuel acc s).
    Proof.
      induction fuel as [|f IH]; intros bfuel acc s a s' H; [discriminate|]. cbn [else_if_loop] in H.
      destruct (ct s); try (apply Ok_inj in H as [_ ->]; reflexivity).
      destruct (ttype (peek (cs s))); try (apply Ok_inj in H as [_ ->]; reflexivity).
      destruct (parse_if_cond_block B ps bfuel (adv s)) as [cb s1| |] eqn:P; try discriminate H. apply if_cond_block_kb in P.
      apply IH in H. autorewrite with kb in P. congruence.
    Qed.

    Lemma if_stmt_kb fuel s : KB s (parse_if_stmt B ps fuel s).
    Proof.
      intros a s' H. unfold parse_if_stmt in H.
      destruct (parse_if_cond_block B ps fuel s) as [cb s1| |] eqn:P1; try discriminate H. apply if_cond_block_kb in P1.
      destruct (else_if_loop B ps (S (pos s1)) fuel [cb] s1) as [brs s2| |] eqn:P2; try discriminate H. apply else_if_loop_kb in P2.
      match type of H with (pdo (els, s3) <- ?m; _) = _ => destruct m as [els s3| |] eqn:P3 end; try discriminate H.
      assert (K3 : kb s3 = kb s2).
      { destruct (ct s2); try (apply Ok_inj in P3 as [_ ->]; reflexivity).
        destruct (parse_block_with ps fuel false _) as [b s4| |] eqn:PB; try discriminate P3. apply block_with_kb in PB.
        autorewrite with kb in PB. apply Ok_inj in P3 as [_ ->]. autorewrite with kb. exact PB. }
      kb_fin H.
    Qed.

    Lemma statement_body_kb fuel s : KB s (parse_statement_body B ps fuel s).
    Proof.
      intros a s' H. unfold parse_statement_body in H.
      destruct (ct s).
      all: try (apply Ok_inj in H as [_ ->]; autorewrite with kb; reflexivity).
      all: try (apply empty_stmt_kb in H; exact H).
      all: try (apply return_stmt_kb in H; exact H).
      all: try (apply break_stmt_kb in H; exact H).
      all: try (apply for_stmt_kb in H; exact H).
      all: try (apply while_stmt_kb in H; exact H).
      all: try (apply if_stmt_kb in H; exact H).
      destruct (ttype (peek (cs s))).
      all: try (apply assign_stmt_kb in H; exact H).
      all: try (apply typed_decl_stmt_kb in H; exact H).
      all: try (apply inferred_decl_stmt_kb in H; exact H).
      all: destruct (is_func _ s); try (apply call_stmt_kb in H; exact H).
      all: try (apply assign_stmt_kb in H; exact H).
      all: apply Ok_inj in H as [_ ->]; autorewrite with kb; reflexivity.
    Qed.
  End KOpen.

  Theorem stmt_kb : forall fuel s, KB s (parse_statement B fuel s).
  Proof.
    induction fuel as [|f IH]; intros s a s' H; [discriminate|]. cbn [parse_statement] in H.
    exact (statement_body_kb (parse_statement B f) IH f s a s' H).
  Qed.

  Lemma parse_block_kb fuel s : KB s (parse_block B fuel s).
  Proof. unfold parse_block. apply block_with_kb. apply stmt_kb. Qed.

  Lemma on_params_loop_kb : forall fuel acc s, KB s (on_params_loop B fuel acc s).
  Proof.
    induction fuel as [|f IH]; intros acc s a s' H; [discriminate|]. cbn [on_params_loop] in H.
    destruct (is_at_eol (cs s)); [apply Ok_inj in H as [_ ->]; reflexivity|].
    destruct (parse_typed_decl B (snd (passert T_IDENT s))) as [d s1| |] eqn:P; try discriminate H.
    apply typed_decl_kb in P. apply IH in H. rewrite kb_passert in P. congruence.
  Qed.
End Keep.

(* ================================================================ *)
(** * advancePastNL over the rest of a header line *)

Definition solid (t : token) : bool := match ttype t with T_WS | T_NL | T_EOF => false | _ => true end.
(* no NL / EOF, and every blank is followed by a token that is neither *)
Fixpoint hdr_ok (l : list token) : bool :=
  match l with
  | [] => true
  | t :: r => match ttype t with
              | T_NL | T_EOF => false
              | T_WS => match r with t2 :: _ => solid t2 | [] => false end && hdr_ok r
              | _ => hdr_ok r
              end
  end.

Lemma hdr_ok_solid w l : forallb solid w = true -> hdr_ok (w ++ l) = hdr_ok l.
Proof.
  induction w as [|t w IH]; intro H; [reflexivity|]. cbn [forallb] in H. apply andb_true_iff in H as [H1 H2].
  cbn [app hdr_ok]. unfold solid in H1. destruct (ttype t); try discriminate H1; exact (IH H2).
Qed.
Lemma hdr_ok_ws t w l : solid t = true -> forallb solid w = true -> hdr_ok (mk T_WS :: t :: w ++ l) = hdr_ok l.
Proof.
  intros H1 H2.
  assert (E : hdr_ok (mk T_WS :: t :: w ++ l) = hdr_ok ((t :: w) ++ l)).
  { change (hdr_ok (mk T_WS :: t :: w ++ l)) with (solid t && hdr_ok ((t :: w) ++ l)). rewrite H1. reflexivity. }
  rewrite E. apply hdr_ok_solid. cbn [forallb]. rewrite H1, H2. reflexivity.
Qed.

Lemma hdr_step t l' q : hdr_ok (t :: l') = true ->
  exists l'', skip1 (l' ++ mk T_NL :: q) = l'' ++ mk T_NL :: q /\ hdr_ok l'' = true /\ List.length l'' <= List.length l' /\
              is_ws (look0 (skip1 (l' ++ mk T_NL :: q))) = false.
Proof.
  intro H.
  assert (H' : hdr_ok l' = true /\ (is_ws t = true -> match l' with t2 :: _ => solid t2 = true | [] => False end)).
  { cbn [hdr_ok] in H. unfold is_ws. destruct (ttype t); try discriminate H; try (split; [exact H|intro X; discriminate X]).
    apply andb_true_iff in H as [H1 H2]. split; [exact H2|]. intros _. destruct l'; [discriminate H1|exact H1]. }
  destruct H' as [Hl _]. destruct l' as [|t2 r2].
  - exists []. cbn. auto.
  - cbn [app skip1]. destruct (is_ws t2) eqn:W.
    + cbn [hdr_ok] in Hl. unfold is_ws in W. destruct (ttype t2); try discriminate W.
      apply andb_true_iff in Hl as [H1 H2]. destruct r2 as [|t3 r3]; [discriminate H1|].
      exists (t3 :: r3). split; [reflexivity|]. split; [exact H2|]. split; [cbn; lia|].
      cbn [app look0 hd]. unfold solid in H1. unfold is_ws. destruct (ttype t3); try discriminate H1; reflexivity.
    + exists (t2 :: r2). split; [reflexivity|]. split; [exact Hl|]. split; [lia|]. cbn [app look0 hd]. exact W.
Qed.

Lemma apnl_loop_line : forall n l c q, List.length l < n -> hdr_ok l = true ->
  rest c = l ++ mk T_NL :: q -> wss c = [false] -> is_ws (look0 (skip1 q)) = false ->
  rest (apnl_loop n c) = skip1 q /\ wss (apnl_loop n c) = [false] /\ errs (apnl_loop n c) = errs c /\
  peek (apnl_loop n c) = peek_of (skip1 q).
Proof.
  induction n as [|n IH]; intros l c q Hn Hh Hr Hw Hq; [lia|].
  assert (Hw' : is_wss c = false) by (unfold is_wss; rewrite Hw; reflexivity).
  destruct l as [|t l'].
  - cbn [app] in Hr. cbn [apnl_loop]. unfold cur_t, cur. rewrite Hr. cbn [look0 hd ttype mk].
    destruct (advance_skip1 c (mk T_NL) q Hw' Hr Hq) as (A1 & A2 & A3). rewrite A1, A2, A3.
    repeat split; auto. exact (advance_peek c (mk T_NL) q Hw' Hr).
  - cbn [app] in Hr. destruct (hdr_step t l' q Hh) as (l'' & E & Hh'' & Hlen & Hws).
    destruct (advance_skip1 c t (l' ++ mk T_NL :: q) Hw' Hr Hws) as (A1 & A2 & A3).
    assert (Hstep : apnl_loop (S n) c = apnl_loop n (advance c)).
    { cbn [apnl_loop]. unfold cur_t, cur. rewrite Hr. cbn [look0 hd]. cbn [hdr_ok] in Hh.
      destruct (ttype t); try reflexivity; discriminate Hh. }
    rewrite Hstep. rewrite E in A1. rewrite Hw in A2.
    destruct (IH l'' (advance c) q ltac:(cbn [List.length] in Hn; lia) Hh'' A1 A2 Hq) as (R1 & R2 & R3 & R4).
    rewrite R1, R2, R3, R4, A3. auto.
Qed.

Section Funcs.
  Variable B : benv.
  Hypothesis BT : forall s t n, b_tyerr B s t n = false.
  Variable fx : fixes.
  Variable F : list (str * finfo).
  Let TB := tabs_of B F.

  Lemma apnl_line s l q e : at_toks s (l ++ mk T_NL :: q) e -> hdr_ok l = true -> is_ws (look0 (skip1 q)) = false ->
    at_toks (apnl s) (skip1 q) e /\ peek_ok (apnl s) (skip1 q).
  Proof.
    intros (Hr & Hw & He) Hh Hq. unfold apnl, upd, at_toks, peek_ok. cbn [with_cs cs].
    destruct (apnl_loop_line (S (here (cs s))) l (cs s) q) as (R1 & R2 & R3 & R4); auto.
    { unfold here. rewrite Hr, app_length. cbn [List.length]. lia. }
    rewrite R1, R2, R3, R4. auto.
  Qed.

  (* ---------- the tokens of a header ---------- *)
  Definition param_okb (p : str * fty) : bool :=
    ident_text (fst p) && match fty_ty (snd p) with Some _ => true | None => false end.
  Definition ty_toks (t : fty) : list token := match fty_ty t with Some ty => render_ty ty | None => [] end.
  Definition param_toks (p : str * fty) : list token := ident_tok (fst p) :: mk T_COLON :: ty_toks (snd p).
  Definition params_toks (ps : list (str * fty)) : list token := flat_map (fun p => mk T_WS :: param_toks p) ps.

  Lemma render_ty_solid ty : forallb solid (render_ty ty) = true.
  Proof. induction ty; cbn [render_ty forallb]; try reflexivity; exact IHty. Qed.
  Lemma ty_toks_solid t : forallb solid (ty_toks t) = true.
  Proof. unfold ty_toks. destruct (fty_ty t); [apply render_ty_solid|reflexivity]. Qed.

  Lemma toks_decl p : param_okb p = true -> toks_of_pieces (write_decl (fst p) (snd p)) = param_toks p.
  Proof.
    unfold param_okb. intro H. apply andb_true_iff in H as [H1 H2]. destruct (fty_ty (snd p)) as [ty|] eqn:E; [|discriminate H2].
    unfold write_decl, param_toks, ty_toks. rewrite toks_app. cbn [toks_of_pieces flat_map tok_of_piece app].
    rewrite (ident_text_spec _ H1). change (tok_of_text k_colon) with (mk T_COLON). rewrite E.
    fold (toks_of_pieces (fmt_type (snd p))). rewrite (toks_fmt_type _ ty E). reflexivity.
  Qed.

  Lemma toks_params ps : forallb param_okb ps = true -> toks_of_pieces (fmt_params ps) = params_toks ps.
  Proof.
    induction ps as [|p ps IH]; intro H; [reflexivity|]. cbn [forallb] in H. apply andb_true_iff in H as [H1 H2].
    unfold fmt_params, params_toks. cbn [flat_map]. rewrite toks_app. fold (fmt_params ps). fold (params_toks ps). rewrite (IH H2).
    change (Sp :: write_decl (fst p) (snd p)) with ([Sp] ++ write_decl (fst p) (snd p)). rewrite toks_app, (toks_decl p H1). reflexivity.
  Qed.

  Lemma hdr_ok_params ps l : hdr_ok (params_toks ps ++ l) = hdr_ok l.
  Proof.
    induction ps as [|p ps IH]; [reflexivity|]. unfold params_toks. cbn [flat_map]. fold (params_toks ps).
    rewrite <- app_assoc. unfold param_toks. cbn [app]. rewrite <- IH.
    change (mk T_COLON :: ty_toks (snd p) ++ params_toks ps ++ l) with ((mk T_COLON :: ty_toks (snd p)) ++ params_toks ps ++ l).
    apply hdr_ok_ws; [reflexivity|]. cbn [forallb]. apply ty_toks_solid.
  Qed.

  Definition rt_toks (rt : option fty) : list token := match rt with Some t => mk T_COLON :: ty_toks t | None => [] end.
  Definition var_toks (v : option (str * fty)) : list token :=
    match v with Some p => mk T_WS :: param_toks p ++ [mk T_DOT3] | None => [] end.
  Definition hdr_toks (rt : option fty) (ps : list (str * fty)) (v : option (str * fty)) : list token :=
    rt_toks rt ++ params_toks ps ++ var_toks v.

  Lemma hdr_ok_hdr n rt ps v : hdr_ok (ident_tok n :: hdr_toks rt ps v) = true.
  Proof.
    unfold hdr_toks. change (ident_tok n :: rt_toks rt ++ params_toks ps ++ var_toks v) with ((ident_tok n :: rt_toks rt) ++ params_toks ps ++ var_toks v).
    rewrite hdr_ok_solid; [|cbn [forallb]; destruct rt; [cbn [rt_toks forallb]; apply ty_toks_solid|reflexivity]].
    rewrite hdr_ok_params. destruct v as [p|]; [|reflexivity]. unfold var_toks, param_toks. cbn [app].
    pose proof (hdr_ok_ws (ident_tok (fst p)) (mk T_COLON :: ty_toks (snd p) ++ [mk T_DOT3]) [] eq_refl) as X.
    rewrite app_nil_r in X. apply X. cbn [forallb]. rewrite forallb_app, ty_toks_solid. reflexivity.
  Qed.

  Definition opt_okb {X} (f : X -> bool) (o : option X) : bool := match o with Some x => f x | None => true end.
  Definition rt_okb (t : fty) : bool := match fty_ty t with Some _ => true | None => false end.

  Lemma func_toks n rt ps v body r :
    ident_text n = true -> opt_okb rt_okb rt = true -> forallb param_okb ps = true -> opt_okb param_okb v = true ->
    toks_of_pieces (fmt_stmt fx 0 (FmtAst.SFunc n rt ps v [] body [])) ++ mk T_NL :: r
    = mk T_FUNC :: mk T_WS :: ident_tok n :: hdr_toks rt ps v ++ mk T_NL :: body_toks fx 1 false body ++ mk T_END :: mk T_NL :: r.
  Proof.
    intros Hn Hrt Hps Hv. cbn [fmt_stmt]. unfold write_comment. cbn [is_empty app]. unfold body_toks, hdr_toks.
    repeat (rewrite toks_cons || rewrite toks_app). rewrite (toks_params ps Hps).
    cbn [tok_of_piece app]. rewrite (ident_text_spec n Hn). change (tok_of_text k_func) with (mk T_FUNC).
    assert (E1 : toks_of_pieces (match rt with Some t => T k_colon :: fmt_type t | None => [] end) = rt_toks rt).
    { destruct rt as [t|]; [|reflexivity]. cbn [opt_okb] in Hrt. unfold rt_okb in Hrt. unfold rt_toks, ty_toks.
      destruct (fty_ty t) as [ty|] eqn:E; [|discriminate Hrt]. rewrite toks_cons. cbn [tok_of_piece app].
      change (tok_of_text k_colon) with (mk T_COLON). rewrite (toks_fmt_type t ty E). reflexivity. }
    assert (E2 : toks_of_pieces (match v with Some p => Sp :: write_decl (fst p) (snd p) ++ [T k_dot3] | None => [] end) = var_toks v).
    { destruct v as [p|]; [|reflexivity]. cbn [opt_okb] in Hv. unfold var_toks. rewrite toks_cons, toks_app, (toks_decl p Hv). reflexivity. }
    rewrite E1, E2. cbn [toks_of_pieces flat_map tok_of_piece app]. change (tok_of_text k_end) with (mk T_END).
    rewrite <- ?app_assoc. cbn [app]. rewrite <- ?app_assoc. cbn [app]. rewrite ?app_nil_r. reflexivity.
  Qed.

  Lemma on_toks n ps body r :
    ident_text n = true -> forallb param_okb ps = true ->
    toks_of_pieces (fmt_stmt fx 0 (FmtAst.SOn n ps [] body [])) ++ mk T_NL :: r
    = mk T_ON :: mk T_WS :: ident_tok n :: params_toks ps ++ mk T_NL :: body_toks fx 1 false body ++ mk T_END :: mk T_NL :: r.
  Proof.
    intros Hn Hps. cbn [fmt_stmt]. unfold write_comment. cbn [is_empty app]. unfold body_toks.
    repeat (rewrite toks_cons || rewrite toks_app). rewrite (toks_params ps Hps).
    cbn [tok_of_piece app]. rewrite (ident_text_spec n Hn). change (tok_of_text k_on) with (mk T_ON).
    cbn [toks_of_pieces flat_map tok_of_piece app]. change (tok_of_text k_end) with (mk T_END).
    rewrite <- ?app_assoc. cbn [app]. rewrite <- ?app_assoc. cbn [app]. rewrite ?app_nil_r. reflexivity.
  Qed.

  (* ---------- addParamsToScope on a parameter list the scope checker accepts ---------- *)
  Lemma cs_scope_set n p s : cs (scope_set n p s) = cs s.
  Proof. unfold scope_set. destruct (str_eqb _ _); [reflexivity|]. destruct (scs s); reflexivity. Qed.

  Lemma vvd_param n p s G' : fns s = F -> declare TB true n (abs s) = Some G' -> validate_var_decl B n p true s = (true, s).
  Proof.
    intros Fn H. unfold declare in H. destruct (abs s) as [|f r] eqn:A; [discriminate H|].
    destruct (mem_str n (t_globals TB)) eqn:E1; [discriminate H|].
    destruct (fhas n f) eqn:E2; [discriminate H|].
    destruct (mem_str n (t_funcs TB)) eqn:E3; [discriminate H|].
    unfold validate_var_decl. cbn [t_globals TB tabs_of] in E1. rewrite E1.
    rewrite in_local_abs, A, E2. rewrite is_func_tabs, Fn. cbn [t_funcs TB tabs_of] in E3. rewrite E3. reflexivity.
  Qed.

  Lemma add_params_ok : forall l s G1, scs s <> [] -> fns s = F ->
    declare_all TB (map fst l) (abs s) = Some G1 ->
    cs (add_params B l s) = cs s /\ abs (add_params B l s) = G1 /\ scs (add_params B l s) <> [] /\ frames (add_params B l s) = frames s /\ fns (add_params B l s) = F /\ kb (add_params B l s) = kb s /\ sused (add_params B l s) = sused s.
  Proof.
    induction l as [|[n p] l IH]; intros s G1 N Fn H.
    - cbn [map declare_all] in H. injection H as <-. unfold add_params. cbn [fold_left]. repeat split; auto.
    - cbn [map fst declare_all] in H. destruct (declare TB true n (abs s)) as [G'|] eqn:D; [|discriminate H].
      change (add_params B ((n, p) :: l) s) with (add_params B l (scope_set n p (snd (validate_var_decl B n p true s)))).
      pose proof (vvd_param n p s G' Fn D) as V. rewrite V. cbn [snd].
      pose proof (declare_sim B n p true s ltac:(rewrite V; reflexivity) N) as Ds. rewrite Fn in Ds. fold TB in Ds. rewrite D in Ds. injection Ds as Ds.
      assert (N2 : scs (scope_set n p s) <> []) by (eapply scs_of_frames; [apply frames_scope_set|exact N]).
      destruct (IH (scope_set n p s) G1 N2 ltac:(rewrite fns_scope_set; exact Fn) ltac:(rewrite <- Ds; exact H)) as (C & A & N3 & Fr & Fn3 & K & U).
      rewrite C, cs_scope_set, A, Fr, frames_scope_set, Fn3, K, kb_scope_set, U, sused_scope_set. repeat split; auto.
  Qed.

  (* ---------- parseFunc ---------- *)
  Definition pnames (ps : list (str * fty)) (v : option (str * fty)) : list str :=
    map fst ps ++ match v with Some p => [fst p] | None => [] end.
  Definition is_some {X} (o : option X) : bool := match o with Some _ => true | None => false end.

  (* the entry of p.funcs agrees with the declaration *)
  Definition sig_ok (n : str) (rt : option fty) (ps : list (str * fty)) (v : option (str * fty)) (fi : finfo) : Prop :=
    lookup_fn n F = Some fi /\ fi_ret fi = is_some rt /\ map fst (fi_params fi) = pnames ps v.

  Definition fn_fr (retv : bool) : frs := (true, retv, false) :: top_fr.

  Lemma stmt_tree_func n rt ps v ch b ce :
    stmt_tree (FmtAst.SFunc n rt ps v ch b ce) = Parser.SFunc n (is_some rt) (pnames ps v) (blk_of (body_trees false b)).
  Proof. destruct rt; reflexivity. Qed.
  Lemma stmt_tree_on n ps ch b ce :
    stmt_tree (FmtAst.SOn n ps ch b ce) = Parser.SOn n (map fst ps) (blk_of (body_trees false b)).
  Proof. reflexivity. Qed.

  Lemma sz_func n rt ps v ch b ce : sz (FmtAst.SFunc n rt ps v ch b ce) = S (S (szl b)).
  Proof. reflexivity. Qed.
  Lemma sz_on n ps ch b ce : sz (FmtAst.SOn n ps ch b ce) = S (S (szl b)).
  Proof. reflexivity. Qed.

  Lemma ST_wf s q G fr : ST F s q G fr -> WF s.
  Proof. intros (_ & _ & N & U & _). split; assumption. Qed.

  Lemma func_rt f s n rt ps v body r G fi G1 :
    ident_text n = true -> opt_okb rt_okb rt = true -> forallb param_okb ps = true -> opt_okb param_okb v = true ->
    sig_ok n rt ps v fi -> mem_str n (bodies s) = false ->
    declare_all TB (map fst (fi_params fi)) ([] :: G) = Some G1 ->
    boks B F (fn_fr (fi_ret fi)) G1 false false body -> body_trees false body <> [] ->
    (fi_ret fi = true -> existsb always_terms (body_trees false body) = true) ->
    S (szl body) <= f ->
    ST F s (toks_of_pieces (fmt_stmt fx 0 (FmtAst.SFunc n rt ps v [] body [])) ++ mk T_NL :: r) G top_fr ->
    is_ws (look0 (skip1 r)) = false ->
    exists s', parse_func B f s = Ok (Some (stmt_tree (FmtAst.SFunc n rt ps v [] body []))) s' /\ at_toks s' (skip1 r) [] /\ peek_ok s' (skip1 r) /\ kb s' = (n :: bodies s, hds s).
  Proof.
    intros Hn Hrt Hps Hv (Hfi & Hret & Hpn) Hbd Hdecl Hb Hne Hterm Hf HST Hnext.
    rewrite (func_toks n rt ps v body r Hn Hrt Hps Hv) in HST. rewrite stmt_tree_func.
    pose proof HST as (Hat & Hpk & N & U & A & Fr & Fn).
    unfold parse_func. cbv zeta.
    (* func -> name *)
    assert (A1 : at_toks (adv s) (ident_tok n :: hdr_toks rt ps v ++ mk T_NL :: body_toks fx 1 false body ++ mk T_END :: mk T_NL :: r) []).
    { apply (adv_at s (mk T_FUNC) _ [] Hat). reflexivity. }
    assert (C1 : ct (adv s) = T_IDENT) by (destruct A1 as (R1 & _); unfold ct, cur_t, cur; rewrite R1; reflexivity).
    assert (Cu : tlit (cur (cs (adv s))) = n) by (destruct A1 as (R1 & _); unfold cur; rewrite R1; reflexivity).
    rewrite C1, Cu. cbv beta iota.
    set (q := body_toks fx 1 false body ++ mk T_END :: mk T_NL :: r) in *.
    assert (Hq : is_ws (look0 (skip1 q)) = false).
    { unfold q. apply (body_no_ws B fx F 0) with (fr := fn_fr (fi_ret fi)) (G := G1) (t := false); [reflexivity|exact Hb]. }
    destruct (apnl_line (adv s) (ident_tok n :: hdr_toks rt ps v) q [] A1 (hdr_ok_hdr n rt ps v) Hq) as (A2 & P2).
    change (fns (apnl (adv s))) with (fns s). rewrite Fn, Hfi.
    set (s2 := push_scope true (fi_ret fi) false (apnl (adv s))).
    assert (N2 : scs s2 <> []) by (unfold s2, push_scope; cbn [with_scs scs]; discriminate).
    destruct (add_params_ok (fi_params fi) s2 G1 N2 Fn) as (C3 & A3 & N3 & Fr3 & Fn3 & K3 & U3).
    { unfold s2. rewrite abs_push_scope, abs_apnl, abs_adv, A. exact Hdecl. }
    set (s3 := add_params B (fi_params fi) s2) in *.
    assert (HST3 : ST F s3 (skip1 q) G1 (fn_fr (fi_ret fi))).
    { split; [unfold at_toks; rewrite C3; exact A2|]. split; [unfold peek_ok; rewrite C3; exact P2|].
      split; [exact N3|]. split; [rewrite U3; unfold s2; rewrite sused_push_scope, sused_apnl, sused_adv; exact U|].
      split; [exact A3|]. split; [|exact Fn3].
      rewrite Fr3. unfold s2. rewrite frames_push_scope, frames_apnl, frames_adv, Fr. reflexivity. }
    destruct (block_rt B fx F 0 f false s3 body (mk T_END :: mk T_NL :: r) (mk T_END) (mk T_NL :: r) G1 (fn_fr (fi_ret fi))
                Hb (body_roundtrip B BT fx F _ _ _ _ _ Hb) Hne Hf eq_refl eq_refl HST3) as (s4 & G' & PB & HST4 & _).
    unfold parse_block. rewrite PB. cbv beta iota.
    assert (K4 : kb s4 = kb s).
    { rewrite (block_with_kb (parse_statement B f) (stmt_kb B f) f false s3 _ s4 PB), K3. reflexivity. }
    assert (Hb4 : bodies s4 = bodies s) by (injection K4 as X _; exact X).
    rewrite Hb4, Hbd. cbn [negb]. cbv beta iota.
    assert (MR : fi_ret fi && negb (block_terms (blk_of (body_trees false body))) = false).
    { destruct (fi_ret fi); [|reflexivity]. cbn [blk_of block_terms andb]. rewrite (Hterm eq_refl). reflexivity. }
    rewrite MR.
    destruct (finish_end_rt F s4 r G' _ HST4 Hnext) as (A5 & P5).
    eexists. split; [rewrite Hret, Hpn; reflexivity|]. split; [exact A5|]. split; [exact P5|].
    unfold kb. cbn [pop_scope with_scs bodies hds]. f_equal; [f_equal|].
    - change (bodies (finish_end s4)) with (fst (kb (finish_end s4))). rewrite kb_finish_end, K4. reflexivity.
    - change (hds (finish_end s4)) with (snd (kb (finish_end s4))). rewrite kb_finish_end, K4. reflexivity.
  Qed.

  (* ---------- parseEventHandler ---------- *)
  Lemma ty_eqb_rfl t : ty_eqb t t = true.
  Proof. induction t; cbn [ty_eqb]; auto. Qed.

  (* name:type  as parseTypedDecl reads it (a parameter of an event handler) *)
  Lemma typed_decl_rt s x ty w rest0 e :
    at_toks s (ident_tok x :: mk T_COLON :: render_ty ty ++ wsl w ++ rest0) e -> is_ws (look0 rest0) = false ->
    exists s', parse_typed_decl B s = Ok (x, pos s, Some ty) s' /\ at_toks s' rest0 e.
  Proof.
    intros Hat Hn. pose proof Hat as (Hr & Hw & He). unfold parse_typed_decl.
    assert (Pa : passert T_IDENT s = (true, s)) by (apply passert_ok; unfold ct, cur_t, cur; rewrite Hr; reflexivity).
    rewrite Pa. cbn [snd]. unfold cur. rewrite Hr. cbn [look0 hd tlit ident_tok].
    assert (Hth : is_ws (look0 (render_ty ty ++ wsl w ++ rest0)) = false) by (destruct ty; reflexivity).
    assert (Hs : skip1 (render_ty ty ++ wsl w ++ rest0) = render_ty ty ++ wsl w ++ rest0) by (destruct ty; reflexivity).
    assert (A1 : at_toks (adv s) (mk T_COLON :: render_ty ty ++ wsl w ++ rest0) e).
    { apply (adv_at s (ident_tok x) (mk T_COLON :: render_ty ty ++ wsl w ++ rest0) e Hat). reflexivity. }
    rewrite (passert_ok T_COLON (adv s)) by (destruct A1 as (R1 & _); unfold ct, cur_t, cur; rewrite R1; reflexivity). cbn [snd].
    assert (A2 : at_toks (adv (adv s)) (render_ty ty ++ wsl w ++ rest0) e).
    { rewrite <- Hs. apply (adv_at (adv s) (mk T_COLON) (render_ty ty ++ wsl w ++ rest0) e A1). rewrite Hs. exact Hth. }
    unfold p_type, expr_call. destruct A2 as (R2 & W2 & E2).
    assert (W2' : is_wss (cs (adv (adv s))) = false) by (unfold is_wss; rewrite W2; reflexivity).
    assert (Hfu : ty_size ty <= efuel (cs (adv (adv s)))).
    { pose proof (ty_size_le ty). unfold efuel, here. rewrite R2, app_length. lia. }
    rewrite (parse_type_spec ty (cs (adv (adv s))) w rest0 _ R2 W2' Hn Hfu).
    destruct (consume_ty_spec ty (cs (adv (adv s))) w rest0 R2 W2' Hn) as (C1 & C2 & C3).
    eexists. split; [reflexivity|]. apply collect_at; auto; [rewrite C2; exact W2 | rewrite C3; exact E2].
  Qed.

  Definition param_ty (p : str * fty) : option ty := fty_ty (snd p).

  Lemma params_split ps q : exists w, params_toks ps ++ mk T_NL :: q = wsl w ++ skip1 (params_toks ps ++ mk T_NL :: q) /\
    is_ws (look0 (skip1 (params_toks ps ++ mk T_NL :: q))) = false.
  Proof.
    destruct ps as [|p ps]; [exists false; split; reflexivity|]. exists true. split; reflexivity.
  Qed.

  Lemma on_params_rt q : forall ps fuel acc s, forallb param_okb ps = true -> List.length ps < fuel ->
    at_toks s (skip1 (params_toks ps ++ mk T_NL :: q)) [] ->
    exists params s', on_params_loop B fuel acc s = Ok (rev acc ++ params) s' /\
      map (fun d : str * nat * option ty => fst (fst d)) params = map fst ps /\ map snd params = map param_ty ps /\
      at_toks s' (mk T_NL :: q) [].
  Proof.
    induction ps as [|p ps IH]; intros fuel acc s Hok Hfu Hat; (destruct fuel as [|fuel]; [cbn in Hfu; lia|]).
    - cbn [params_toks flat_map app skip1 is_ws ttype mk] in Hat. exists [], s. cbn [on_params_loop].
      assert (E : is_at_eol (cs s) = true) by (destruct Hat as (R & _); unfold is_at_eol, cur_t, cur; rewrite R; reflexivity).
      rewrite E, app_nil_r. auto.
    - cbn [forallb] in Hok. apply andb_true_iff in Hok as [Hp Hok]. unfold param_okb in Hp. apply andb_true_iff in Hp as [Hx Hty].
      destruct (fty_ty (snd p)) as [ty|] eqn:Ety; [|discriminate Hty].
      unfold params_toks in Hat. cbn [flat_map] in Hat. fold (params_toks ps) in Hat. rewrite <- app_assoc in Hat.
      unfold param_toks, ty_toks in Hat. rewrite Ety in Hat. cbn [app skip1 is_ws ttype mk] in Hat. rewrite <- ?app_assoc in Hat.
      destruct (params_split ps q) as (w & Ew & Hnw). rewrite Ew in Hat.
      destruct (typed_decl_rt s (fst p) ty w _ [] Hat Hnw) as (s1 & P & A1).
      cbn [on_params_loop].
      assert (E : is_at_eol (cs s) = false) by (destruct Hat as (R & _); unfold is_at_eol, cur_t, cur; rewrite R; reflexivity).
      rewrite E. rewrite (passert_ok T_IDENT s) by (destruct Hat as (R & _); unfold ct, cur_t, cur; rewrite R; reflexivity).
      cbn [snd]. rewrite P.
      destruct (IH fuel ((fst p, pos s, Some ty) :: acc) s1 Hok ltac:(cbn [List.length] in Hfu; lia) A1) as (params & s' & PL & M1 & M2 & A').
      exists ((fst p, pos s, Some ty) :: params), s'. split; [rewrite PL; cbn [rev]; rewrite <- app_assoc; reflexivity|].
      cbn [map fst snd]. unfold param_ty at 1. rewrite Ety, M1, M2. auto.
  Qed.

  Lemma add_event_params_ok : forall params ex s G1, scs s <> [] -> fns s = F ->
    map snd params = map Some ex ->
    declare_all TB (map (fun d : str * nat * option ty => fst (fst d)) params) (abs s) = Some G1 ->
    cs (add_event_params B params ex s) = cs s /\ abs (add_event_params B params ex s) = G1 /\
    scs (add_event_params B params ex s) <> [] /\ frames (add_event_params B params ex s) = frames s /\
    fns (add_event_params B params ex s) = F /\ kb (add_event_params B params ex s) = kb s /\
    sused (add_event_params B params ex s) = sused s.
  Proof.
    induction params as [|[[n p] t] l IH]; intros ex s G1 N Fn Hty H.
    - cbn [map declare_all] in H. injection H as <-. cbn [add_event_params]. repeat split; auto.
    - destruct ex as [|e ex]; [discriminate Hty|]. cbn [map snd] in Hty. injection Hty as Ht Hty. subst t.
      cbn [map fst declare_all] in H. destruct (declare TB true n (abs s)) as [G'|] eqn:D; [|discriminate H].
      cbn [add_event_params]. pose proof (vvd_param n p s G' Fn D) as V. rewrite V. cbn [snd]. rewrite ty_eqb_rfl.
      pose proof (declare_sim B n p true s ltac:(rewrite V; reflexivity) N) as Ds. rewrite Fn in Ds. fold TB in Ds. rewrite D in Ds. injection Ds as Ds.
      assert (N2 : scs (scope_set n p s) <> []) by (eapply scs_of_frames; [apply frames_scope_set|exact N]).
      destruct (IH ex (scope_set n p s) G1 N2 ltac:(rewrite fns_scope_set; exact Fn) Hty ltac:(rewrite <- Ds; exact H)) as (C & A & N3 & Fr & Fn3 & K & U).
      rewrite C, cs_scope_set, A, Fr, frames_scope_set, Fn3, K, kb_scope_set, U, sused_scope_set. repeat split; auto.
  Qed.

  Definition hd_fr : frs := (true, false, false) :: top_fr.

  Lemma on_rt f s n ps body r G ex G1 :
    ident_text n = true -> forallb param_okb ps = true ->
    lookup_ev n (b_events B) = Some ex -> (ps = [] \/ map param_ty ps = map Some ex) -> mem_str n (hds s) = false ->
    declare_all TB (map fst ps) ([] :: G) = Some G1 ->
    boks B F hd_fr G1 false false body -> body_trees false body <> [] ->
    S (szl body) <= f ->
    ST F s (toks_of_pieces (fmt_stmt fx 0 (FmtAst.SOn n ps [] body [])) ++ mk T_NL :: r) G top_fr ->
    is_ws (look0 (skip1 r)) = false ->
    exists s', parse_event_handler B f s = Ok (Some (stmt_tree (FmtAst.SOn n ps [] body []))) s' /\
               at_toks s' (skip1 r) [] /\ peek_ok s' (skip1 r) /\ kb s' = (bodies s, n :: hds s).
  Proof.
    intros Hn Hps Hev Hex Hhd Hdecl Hb Hne Hf HST Hnext.
    rewrite (on_toks n ps body r Hn Hps) in HST. rewrite stmt_tree_on.
    pose proof HST as (Hat & Hpk & N & U & A & Fr & Fn).
    unfold parse_event_handler. cbv zeta.
    set (q := body_toks fx 1 false body ++ mk T_END :: mk T_NL :: r) in *.
    assert (A1 : at_toks (adv s) (ident_tok n :: params_toks ps ++ mk T_NL :: q) []).
    { apply (adv_at s (mk T_ON) _ [] Hat). reflexivity. }
    rewrite (passert_ok T_IDENT (adv s)) by (destruct A1 as (R1 & _); unfold ct, cur_t, cur; rewrite R1; reflexivity).
    cbn [negb]. cbv beta iota.
    assert (Cu : tlit (cur (cs (adv s))) = n) by (destruct A1 as (R1 & _); unfold cur; rewrite R1; reflexivity).
    rewrite Cu. change (mem_str n (hds (adv s))) with (mem_str n (hds s)). rewrite Hhd, Hev. cbv beta iota.
    match goal with |- context[on_params_loop B _ [] (adv ?x)] => set (s3 := x) end.
    assert (E3 : cs s3 = cs (adv s) /\ kb s3 = (bodies s, n :: hds s) /\ abs s3 = abs s /\ fns s3 = fns s /\ sused s3 = sused (adv s) /\ frames s3 = frames s).
    { unfold s3. repeat split; reflexivity. }
    destruct E3 as (C3 & K3 & Ab3 & Fn3 & U3 & Fr3).
    destruct (params_split ps q) as (w & Ew & Hnw).
    assert (A3 : at_toks (adv s3) (skip1 (params_toks ps ++ mk T_NL :: q)) []).
    { apply (adv_at s3 (ident_tok n) _ []); [unfold at_toks; rewrite C3; exact A1|exact Hnw]. }
    assert (Hlen : List.length ps < S (pos s3)).
    { unfold pos, here. rewrite C3. destruct A1 as (R1 & _). rewrite R1. cbn [List.length]. rewrite app_length.
      unfold params_toks. clear. induction ps as [|p l IH]; [cbn; lia|]. cbn [flat_map List.length]. rewrite app_length. cbn [List.length] in *. lia. }
    destruct (on_params_rt q ps (S (pos s3)) [] (adv s3) Hps Hlen A3) as (params & s4 & PL & M1 & M2 & A4).
    rewrite PL. cbn [rev app]. cbv beta iota.
    assert (Q4 : serrs s4 = []) by (destruct A4 as (_ & _ & E); exact E).
    destruct (on_params_loop_sim B _ _ _ _ _ PL Q4 ltac:(rewrite sused_adv, U3, sused_adv; exact U)) as (Ab4 & Fn4 & U4).
    destruct (on_params_loop_sn B _ _ _ _ _ PL Q4) as (_ & Fr4).
    pose proof (on_params_loop_kb B _ _ _ _ _ PL) as K4.
    assert (Hq : is_ws (look0 (skip1 q)) = false).
    { unfold q. apply (body_no_ws B fx F 0) with (fr := hd_fr) (G := G1) (t := false); [reflexivity|exact Hb]. }
    set (s5 := push_scope true false false (apnl s4)).
    assert (N5 : scs s5 <> []) by (unfold s5, push_scope; cbn [with_scs scs]; discriminate).
    assert (Ab5 : abs s5 = [] :: G) by (unfold s5; rewrite abs_push_scope, abs_apnl, Ab4, abs_adv, Ab3, A; reflexivity).
    assert (Fn5 : fns s5 = F) by (unfold s5; rewrite fns_push_scope, fns_apnl, Fn4, fns_adv, Fn3; exact Fn).
    assert (Fr5 : frames s5 = hd_fr).
    { unfold s5. rewrite frames_push_scope, frames_apnl, Fr4, frames_adv, Fr3, Fr. reflexivity. }
    assert (U5 : sused s5 = []) by (unfold s5; rewrite sused_push_scope, sused_apnl; exact U4).
    assert (K5 : kb s5 = (bodies s, n :: hds s)) by (unfold s5; rewrite kb_push_scope, kb_apnl, K4, kb_adv; exact K3).
    assert (C5 : at_toks s5 (skip1 q) [] /\ peek_ok s5 (skip1 q)).
    { split; [exact (apnl_nl s4 q [] A4 Hq) | exact (apnl_peek s4 q [] A4)]. }
    (* the parameters *)
    set (s6 := match params, Some ex with
               | _ :: _, Some ex0 => add_event_params B params ex0 (if Nat.eqb (List.length params) (List.length ex0) then s5 else serr K_event_param_count s5)
               | _, _ => s5
               end).
    assert (H6 : cs s6 = cs s5 /\ abs s6 = G1 /\ scs s6 <> [] /\ frames s6 = frames s5 /\ fns s6 = F /\ kb s6 = kb s5 /\ sused s6 = sused s5).
    { unfold s6. destruct params as [|d ds] eqn:Ep.
      - destruct ps as [|p0 ps0]; [|discriminate M1]. cbn [map declare_all] in Hdecl. injection Hdecl as <-. repeat split; auto.
      - rewrite <- Ep in *. destruct Hex as [->|Hex]; [rewrite Ep in M1; discriminate M1|].
        assert (Hl : Nat.eqb (List.length params) (List.length ex) = true).
        { apply Nat.eqb_eq. rewrite <- (map_length snd params), M2, Hex, map_length. reflexivity. }
        rewrite Hl. apply add_event_params_ok; auto; [rewrite M2; exact Hex | rewrite M1, Ab5; exact Hdecl]. }
    destruct H6 as (C6 & Ab6 & N6 & Fr6 & Fn6 & K6 & U6).
    assert (HST6 : ST F s6 (skip1 q) G1 hd_fr).
    { destruct C5 as [C5a C5b]. split; [unfold at_toks; rewrite C6; exact C5a|]. split; [unfold peek_ok; rewrite C6; exact C5b|].
      split; [exact N6|]. split; [rewrite U6; exact U5|]. split; [exact Ab6|]. split; [rewrite Fr6; exact Fr5|exact Fn6]. }
    destruct (block_rt B fx F 0 f false s6 body (mk T_END :: mk T_NL :: r) (mk T_END) (mk T_NL :: r) G1 hd_fr
                Hb (body_roundtrip B BT fx F _ _ _ _ _ Hb) Hne Hf eq_refl eq_refl HST6) as (s7 & G' & PB & HST7 & _).
    fold s5. fold s6. unfold parse_block. rewrite PB. cbv beta iota.
    destruct (finish_end_rt F s7 r G' _ HST7 Hnext) as (A8 & P8).
    eexists. split; [rewrite M1; reflexivity|]. split; [exact A8|]. split; [exact P8|].
    rewrite kb_pop_scope, kb_finish_end, (block_with_kb (parse_statement B f) (stmt_kb B f) f false s6 _ s7 PB), K6. exact K5.
  Qed.

  (* ---------- the statements of a program with func declarations (parseProgram's loop) ---------- *)
  (* the tree of the re-parse: blank statements squeezed as the formatter squeezes them, and one empty
     statement where formatProgram inserts a blank line (after the statements whose index is in nlAfter) *)
  Fixpoint prog_trees (nl : list nat) (i : nat) (e : bool) (l : list fstmt) : list stmt :=
    match l with
    | [] => []
    | x :: t => if is_blank x then (if e then prog_trees nl (S i) true t else Parser.SEmpty :: prog_trees nl (S i) true t)
                else stmt_tree x :: (if mem_nat i nl then [Parser.SEmpty] else []) ++ prog_trees nl (S i) false t
    end.
  Definition ptoks (nl : list nat) (i : nat) (e : bool) (l : list fstmt) : list token := toks_of_pieces (prog_loop fx nl i e l).
  Fixpoint psz (nl : list nat) (i : nat) (e : bool) (l : list fstmt) : nat :=
    match l with
    | [] => 0
    | x :: t => if is_blank x then (if e then psz nl (S i) true t else S (psz nl (S i) true t))
                else S (sz x + (if mem_nat i nl then 1 else 0) + psz nl (S i) false t)
    end.

  Lemma prog_trees_plain : forall l i e, prog_trees [] i e l = body_trees e l.
  Proof.
    induction l as [|x l IH]; intros i e; [reflexivity|]. cbn [prog_trees body_trees mem_nat app].
    destruct (is_blank x); [destruct e|]; rewrite IH; reflexivity.
  Qed.

  Definition nl_toks (nl : list nat) (i : nat) : list token := if mem_nat i nl then [mk T_NL] else [].

  Lemma ptoks_blank nl i e rest : ptoks nl i e (FmtAst.SEmpty [] :: rest) = (if e then [] else [mk T_NL]) ++ ptoks nl (S i) true rest.
  Proof. unfold ptoks. cbn [prog_loop is_blank is_empty]. rewrite toks_app. destruct e; reflexivity. Qed.
  Lemma ptoks_cons nl i e st rest : is_blank st = false ->
    ptoks nl i e (st :: rest) = toks_of_pieces (fmt_stmt fx 0 st) ++ mk T_NL :: nl_toks nl i ++ ptoks nl (S i) false rest.
  Proof.
    intro Hb. unfold ptoks, nl_toks. cbn [prog_loop]. rewrite Hb. rewrite !toks_app. cbn [toks_of_pieces flat_map tok_of_piece app].
    destruct (mem_nat i nl); reflexivity.
  Qed.

  Inductive fpoks (nl : list nat) : nat -> list str -> list str -> ctx -> bool -> list fstmt -> ctx -> Prop :=
  | fp_nil i bd hs G e : fpoks nl i bd hs G e [] G
  | fp_blank i bd hs G e rest Gout : fpoks nl (S i) bd hs G true rest Gout -> fpoks nl i bd hs G e (FmtAst.SEmpty [] :: rest) Gout
  | fp_stmt i bd hs G e st rest G' Gout : is_blank st = false -> sok B F top_fr G st -> always_terms (stmt_tree st) = false ->
      scope_stmt TB (stmt_tree st) G = Some G' -> fpoks nl (S i) bd hs G' false rest Gout -> fpoks nl i bd hs G e (st :: rest) Gout
  | fp_func i bd hs G e n rt ps v body fi G1 rest G' Gout :
      ident_text n = true -> opt_okb rt_okb rt = true -> forallb param_okb ps = true -> opt_okb param_okb v = true ->
      sig_ok n rt ps v fi -> mem_str n bd = false ->
      declare_all TB (map fst (fi_params fi)) ([] :: G) = Some G1 ->
      boks B F (fn_fr (fi_ret fi)) G1 false false body -> body_trees false body <> [] ->
      (fi_ret fi = true -> existsb always_terms (body_trees false body) = true) ->
      scope_stmt TB (stmt_tree (FmtAst.SFunc n rt ps v [] body [])) G = Some G' ->
      fpoks nl (S i) (n :: bd) hs G' false rest Gout ->
      fpoks nl i bd hs G e (FmtAst.SFunc n rt ps v [] body [] :: rest) Gout
  | fp_on i bd hs G e n ps body ex G1 rest G' Gout :
      ident_text n = true -> forallb param_okb ps = true ->
      lookup_ev n (b_events B) = Some ex -> (ps = [] \/ map param_ty ps = map Some ex) -> mem_str n hs = false ->
      declare_all TB (map fst ps) ([] :: G) = Some G1 ->
      boks B F hd_fr G1 false false body -> body_trees false body <> [] ->
      scope_stmt TB (stmt_tree (FmtAst.SOn n ps [] body [])) G = Some G' ->
      fpoks nl (S i) bd (n :: hs) G' false rest Gout ->
      fpoks nl i bd hs G e (FmtAst.SOn n ps [] body [] :: rest) Gout.

  Definition top_tok (t : token) : Prop :=
    match ttype t with T_IDENT | T_RETURN | T_BREAK | T_WHILE | T_IF | T_FOR | T_FUNC | T_ON | T_NL => True | _ => False end.
  Lemma top_tok_nws t : top_tok t -> is_ws t = false.
  Proof. unfold top_tok, is_ws. destruct (ttype t); try contradiction; reflexivity. Qed.
  Lemma start_top t : start_tok t -> top_tok t.
  Proof. unfold start_tok, top_tok. destruct (ttype t); intro H; try contradiction; exact I. Qed.

  (* the token list of what remains starts with a statement keyword / identifier / newline, or is empty *)
  Lemma ptoks_head nl : forall i bd hs G e body Gout, fpoks nl i bd hs G e body Gout ->
    ptoks nl i e body = [] \/ exists t0 ts, ptoks nl i e body = t0 :: ts /\ top_tok t0.
  Proof.
    induction 1 as [i bd hs G e | i bd hs G e rest Gout Hp IH | i bd hs G e st rest G' Gout Hbl Hso Hat Hsc Hp IH
                   | i bd hs G e n rt ps v body fi G1 rest G' Gout Hn Hrt Hps Hv Hsig Hbd Hd Hb Hne Hterm Hsc Hp IH
                   | i bd hs G e n ps body ex G1 rest G' Gout Hn Hps Hev Hex Hhd Hd Hb Hne Hsc Hp IH].
    - left. reflexivity.
    - rewrite ptoks_blank. destruct e; [exact IH|]. right. eexists; eexists. split; [reflexivity|exact I].
    - right. rewrite (ptoks_cons nl i e st rest Hbl). destruct (sok_head B fx F _ _ _ 0 Hso) as (t0 & ts & -> & Hs).
      eexists; eexists. split; [reflexivity|apply start_top, Hs].
    - right. rewrite (ptoks_cons nl i e (FmtAst.SFunc n rt ps v [] body []) rest eq_refl). cbn [app].
      rewrite (func_toks n rt ps v body _ Hn Hrt Hps Hv). eexists; eexists. split; [reflexivity|exact I].
    - right. rewrite (ptoks_cons nl i e (FmtAst.SOn n ps [] body []) rest eq_refl).
      rewrite (on_toks n ps body _ Hn Hps). eexists; eexists. split; [reflexivity|exact I].
  Qed.

  Lemma ptoks_skip nl i bd hs G e body Gout : fpoks nl i bd hs G e body Gout ->
    skip1 (ptoks nl i e body) = ptoks nl i e body /\ is_ws (look0 (ptoks nl i e body)) = false.
  Proof.
    intro H. destruct (ptoks_head nl _ _ _ _ _ _ _ H) as [->|(t0 & ts & -> & Ht)]; [split; reflexivity|].
    pose proof (top_tok_nws t0 Ht) as W. cbn [skip1 look0 hd]. rewrite W. auto.
  Qed.

  (* the blank line formatProgram inserts is one empty statement *)
  Lemma nl_turn fuel acc s q G :
    ST F s (mk T_NL :: q) G top_fr -> is_ws (look0 (skip1 q)) = false ->
    program_loop B (S (S fuel)) acc false s = program_loop B (S fuel) (Parser.SEmpty :: acc) false (adv s) /\
    ST F (adv s) (skip1 q) G top_fr /\ kb (adv s) = kb s.
  Proof.
    intros HST Hq. split; [|split; [exact (ST_adv F _ _ _ _ _ HST Hq)|reflexivity]].
    cbn [program_loop]. rewrite (ST_ct F _ _ _ _ _ HST). cbn [ttype mk].
    rewrite (parse_statement_nl B (S fuel) s ltac:(lia) (ST_ct F _ _ _ _ _ HST)). reflexivity.
  Qed.

  Lemma ST_post_func f s q G st s' q' :
    ST F s q G top_fr -> parse_func B f s = Ok (Some st) s' -> at_toks s' q' [] -> peek_ok s' q' ->
    exists G', scope_stmt TB st G = Some G' /\ ST F s' q' G' top_fr.
  Proof.
    intros (A0 & _ & N & U & A & Fr & Fn) P A1 P1.
    assert (Q : serrs s' = []) by (destruct A1 as (_ & _ & E); exact E).
    destruct (func_sound B f s (Some st) s' P Q) as (_ & Fr' & _).
    destruct (func_sim' B f s (Some st) s' P Q (conj N U)) as (U' & Fn' & _ & Sc).
    exists (abs s'). rewrite Fn, A in Sc. split; [exact Sc|].
    repeat split; try (destruct A1 as (R1 & W1 & E1); assumption); auto.
    - eapply scs_of_frames; [exact Fr' | exact N].
    - rewrite Fr'. exact Fr.
    - rewrite Fn'. exact Fn.
  Qed.

  Lemma ST_post_on f s q G st s' q' :
    ST F s q G top_fr -> parse_event_handler B f s = Ok (Some st) s' -> at_toks s' q' [] -> peek_ok s' q' ->
    exists G', scope_stmt TB st G = Some G' /\ ST F s' q' G' top_fr.
  Proof.
    intros (A0 & _ & N & U & A & Fr & Fn) P A1 P1.
    assert (Q : serrs s' = []) by (destruct A1 as (_ & _ & E); exact E).
    destruct (event_handler_sound B f s (Some st) s' P Q) as (_ & Fr' & _).
    destruct (event_handler_sim B f s (Some st) s' P Q (conj N U)) as (U' & Fn' & _ & Sc).
    exists (abs s'). rewrite Fn, A in Sc. split; [exact Sc|].
    repeat split; try (destruct A1 as (R1 & W1 & E1); assumption); auto.
    - eapply scs_of_frames; [exact Fr' | exact N].
    - rewrite Fr'. exact Fr.
    - rewrite Fn'. exact Fn.
  Qed.

  Theorem program_loop_funcs nl : forall i bd hs G e body Gout, fpoks nl i bd hs G e body Gout ->
    forall fuel acc s, psz nl i e body < fuel -> ST F s (ptoks nl i e body) G top_fr -> kb s = (bd, hs) ->
    exists s', program_loop B fuel acc false s = Ok (rev acc ++ prog_trees nl i e body) s' /\ ST F s' [] Gout top_fr.
  Proof.
    induction 1 as [i bd hs G e | i bd hs G e rest Gout Hp IH | i bd hs G e st rest G' Gout Hbl Hso Hat Hsc Hp IH
                   | i bd hs G e n rt ps v body fi G1 rest G' Gout Hn Hrt Hps Hv Hsig Hbd Hd Hb Hne Hterm Hsc Hp IH
                   | i bd hs G e n ps body ex G1 rest G' Gout Hn Hps Hev Hex Hhd Hd Hb Hne Hsc Hp IH];
      intros fuel acc s Hfu HST HK.
    - destruct fuel as [|fuel]; [lia|]. change (ptoks nl i e []) with (@nil token) in HST.
      exists s. cbn [program_loop prog_trees]. rewrite app_nil_r.
      assert (Hc : ct s = T_EOF) by (destruct HST as ((Hr & _) & _); unfold ct, cur_t, cur; rewrite Hr; reflexivity).
      rewrite Hc. split; [reflexivity|exact HST].
    - rewrite ptoks_blank in HST. cbn [psz is_blank is_empty] in Hfu. cbn [prog_trees is_blank is_empty]. destruct e.
      + exact (IH fuel acc s Hfu HST HK).
      + cbn [app] in HST. destruct fuel as [|[|fuel]]; try lia.
        destruct (ptoks_skip nl _ _ _ _ _ _ _ Hp) as [Sk Nw].
        destruct (nl_turn fuel acc s _ G HST ltac:(rewrite Sk; exact Nw)) as (E & HST' & K'). rewrite Sk in HST'.
        destruct (IH (S fuel) (Parser.SEmpty :: acc) (adv s) ltac:(lia) HST' ltac:(rewrite K'; exact HK)) as (s' & P & Q).
        exists s'. split; [|exact Q]. rewrite E, P. cbn [rev]. rewrite <- app_assoc. reflexivity.
    - rewrite (ptoks_cons nl i e st rest Hbl) in HST. cbn [psz] in Hfu. rewrite Hbl in Hfu. cbn [prog_trees]. rewrite Hbl.
      destruct fuel as [|fuel]; [lia|].
      destruct (ptoks_skip nl _ _ _ _ _ _ _ Hp) as [Sk Nw].
      set (r := nl_toks nl i ++ ptoks nl (S i) false rest) in *.
      assert (Hr : is_ws (look0 (skip1 r)) = false /\ skip1 r = r).
      { unfold r, nl_toks. destruct (mem_nat i nl); cbn [app]; [split; reflexivity|]. rewrite Sk. auto. }
      destruct Hr as [Hr1 Hr2].
      destruct (stmt_roundtrip B BT fx F top_fr G st Hso 0 fuel s r ltac:(lia) HST Hr1) as (s1 & P & A1 & P1).
      destruct (ST_post B F fuel s _ G top_fr (stmt_tree st) s1 _ HST P A1 P1) as (G'' & Hsc' & HST1).
      fold TB in Hsc'. rewrite Hsc in Hsc'. injection Hsc' as <-. rewrite Hr2 in HST1.
      assert (K1 : kb s1 = (bd, hs)) by (rewrite (stmt_kb B fuel s _ s1 P); exact HK).
      destruct (sok_head B fx F top_fr G st 0 Hso) as (t0 & ts & Ht & Hs). rewrite Ht in HST. cbn [app] in HST.
      assert (E1 : program_loop B (S fuel) acc false s = program_loop B fuel (stmt_tree st :: acc) false s1).
      { cbn [program_loop]. rewrite (ST_ct F _ _ _ _ _ HST). unfold start_tok in Hs.
        destruct (ttype t0); try contradiction; rewrite P; cbv beta iota; rewrite Hat; reflexivity. }
      rewrite E1. unfold r, nl_toks in HST1. unfold nl_toks in Hfu.
      destruct (mem_nat i nl).
      + cbn [app] in HST1. destruct fuel as [|[|fuel]]; try lia.
        destruct (nl_turn fuel (stmt_tree st :: acc) s1 _ G' HST1 ltac:(rewrite Sk; exact Nw)) as (E & HST' & K'). rewrite Sk in HST'.
        destruct (IH (S fuel) (Parser.SEmpty :: stmt_tree st :: acc) (adv s1) ltac:(lia) HST' ltac:(rewrite K'; exact K1)) as (s' & P2 & Q).
        exists s'. split; [|exact Q]. rewrite E, P2. cbn [rev app]. rewrite <- !app_assoc. reflexivity.
      + cbn [app] in HST1. destruct (IH fuel (stmt_tree st :: acc) s1 ltac:(lia) HST1 K1) as (s' & P2 & Q).
        exists s'. split; [|exact Q]. rewrite P2. cbn [rev app]. rewrite <- !app_assoc. reflexivity.
    - set (st := FmtAst.SFunc n rt ps v [] body []) in *.
      rewrite (ptoks_cons nl i e st rest eq_refl) in HST. cbn [psz] in Hfu. cbn [prog_trees]. change (is_blank st) with false in *. cbv iota in Hfu |- *.
      destruct fuel as [|fuel]; [lia|].
      destruct (ptoks_skip nl _ _ _ _ _ _ _ Hp) as [Sk Nw].
      set (r := nl_toks nl i ++ ptoks nl (S i) false rest) in *.
      assert (Hr : is_ws (look0 (skip1 r)) = false /\ skip1 r = r).
      { unfold r, nl_toks. destruct (mem_nat i nl); cbn [app]; [split; reflexivity|]. rewrite Sk. auto. }
      destruct Hr as [Hr1 Hr2].
      assert (Hbd' : mem_str n (bodies s) = false) by (injection HK as -> _; exact Hbd).
      assert (Hsz : S (szl body) <= fuel) by (unfold st in Hfu; rewrite sz_func in Hfu; lia).
      destruct (func_rt fuel s n rt ps v body r G fi G1 Hn Hrt Hps Hv Hsig Hbd' Hd Hb Hne Hterm Hsz HST Hr1) as (s1 & P & A1 & P1 & K1).
      destruct (ST_post_func fuel s _ G (stmt_tree st) s1 _ HST P A1 P1) as (G'' & Hsc' & HST1).
      rewrite Hsc in Hsc'. injection Hsc' as <-. rewrite Hr2 in HST1.
      assert (K1' : kb s1 = (n :: bd, hs)) by (rewrite K1; injection HK as -> ->; reflexivity).
      unfold st in HST. rewrite (func_toks n rt ps v body r Hn Hrt Hps Hv) in HST.
      assert (E1 : program_loop B (S fuel) acc false s = program_loop B fuel (stmt_tree st :: acc) false s1).
      { cbn [program_loop]. rewrite (ST_ct F _ _ _ _ _ HST). cbn [ttype mk]. rewrite P. reflexivity. }
      rewrite E1. unfold r, nl_toks in HST1. unfold nl_toks in Hfu.
      destruct (mem_nat i nl).
      + cbn [app] in HST1. destruct fuel as [|[|fuel]]; try lia.
        destruct (nl_turn fuel (stmt_tree st :: acc) s1 _ G' HST1 ltac:(rewrite Sk; exact Nw)) as (E & HST' & K').  rewrite Sk in HST'.
        destruct (IH (S fuel) (Parser.SEmpty :: stmt_tree st :: acc) (adv s1) ltac:(lia) HST' ltac:(rewrite K'; exact K1')) as (s' & P2 & Q).
        exists s'. split; [|exact Q]. rewrite E, P2. cbn [rev app]. rewrite <- !app_assoc. reflexivity.
      + cbn [app] in HST1. destruct (IH fuel (stmt_tree st :: acc) s1 ltac:(lia) HST1 K1') as (s' & P2 & Q).
        exists s'. split; [|exact Q]. rewrite P2. cbn [rev app]. rewrite <- !app_assoc. reflexivity.
    - set (st := FmtAst.SOn n ps [] body []) in *.
      rewrite (ptoks_cons nl i e st rest eq_refl) in HST. cbn [psz] in Hfu. cbn [prog_trees]. change (is_blank st) with false in *. cbv iota in Hfu |- *.
      destruct fuel as [|fuel]; [lia|].
      destruct (ptoks_skip nl _ _ _ _ _ _ _ Hp) as [Sk Nw].
      set (r := nl_toks nl i ++ ptoks nl (S i) false rest) in *.
      assert (Hr : is_ws (look0 (skip1 r)) = false /\ skip1 r = r).
      { unfold r, nl_toks. destruct (mem_nat i nl); cbn [app]; [split; reflexivity|]. rewrite Sk. auto. }
      destruct Hr as [Hr1 Hr2].
      assert (Hhd' : mem_str n (hds s) = false) by (injection HK as _ ->; exact Hhd).
      assert (Hsz : S (szl body) <= fuel) by (unfold st in Hfu; rewrite sz_on in Hfu; lia).
      destruct (on_rt fuel s n ps body r G ex G1 Hn Hps Hev Hex Hhd' Hd Hb Hne Hsz HST Hr1) as (s1 & P & A1 & P1 & K1).
      destruct (ST_post_on fuel s _ G (stmt_tree st) s1 _ HST P A1 P1) as (G'' & Hsc' & HST1).
      rewrite Hsc in Hsc'. injection Hsc' as <-. rewrite Hr2 in HST1.
      assert (K1' : kb s1 = (bd, n :: hs)) by (rewrite K1; injection HK as -> ->; reflexivity).
      unfold st in HST. rewrite (on_toks n ps body r Hn Hps) in HST.
      assert (E1 : program_loop B (S fuel) acc false s = program_loop B fuel (stmt_tree st :: acc) false s1).
      { cbn [program_loop]. rewrite (ST_ct F _ _ _ _ _ HST). cbn [ttype mk]. rewrite P. reflexivity. }
      rewrite E1. unfold r, nl_toks in HST1. unfold nl_toks in Hfu.
      destruct (mem_nat i nl).
      + cbn [app] in HST1. destruct fuel as [|[|fuel]]; try lia.
        destruct (nl_turn fuel (stmt_tree st :: acc) s1 _ G' HST1 ltac:(rewrite Sk; exact Nw)) as (E & HST' & K').  rewrite Sk in HST'.
        destruct (IH (S fuel) (Parser.SEmpty :: stmt_tree st :: acc) (adv s1) ltac:(lia) HST' ltac:(rewrite K'; exact K1')) as (s' & P2 & Q).
        exists s'. split; [|exact Q]. rewrite E, P2. cbn [rev app]. rewrite <- !app_assoc. reflexivity.
      + cbn [app] in HST1. destruct (IH fuel (stmt_tree st :: acc) s1 ltac:(lia) HST1 K1') as (s' & P2 & Q).
        exists s'. split; [|exact Q]. rewrite P2. cbn [rev app]. rewrite <- !app_assoc. reflexivity.
  Qed.
End Funcs.

(* ================================================================ *)
(** * The statement kinds of the re-parsed tree are one step of the blank-line logic (C07) *)
Definition pkind (s : stmt) : skind :=
  match s with Parser.SEmpty => KEmpty | Parser.SFunc _ _ _ _ | Parser.SOn _ _ _ => KFunc | _ => KStmt end.

Lemma kind_blank x : stmt_kind x <> KComment -> is_blank x = skind_eqb (stmt_kind x) KEmpty.
Proof. destruct x; try reflexivity. cbn [stmt_kind is_blank]. destruct (is_empty c); [reflexivity|]. intro H. contradiction H. reflexivity. Qed.

Lemma kind_tree x : is_blank x = false -> stmt_kind x <> KComment -> pkind (stmt_tree x) = stmt_kind x.
Proof.
  destruct x; try reflexivity.
  - cbn [is_blank stmt_kind]. destruct (is_empty c); [discriminate|]. intros _ H. contradiction H. reflexivity.
  - intros _ _. destruct ifb. reflexivity.
Qed.

Lemma prog_trees_skeleton nl : forall l i e, Forall (fun x => stmt_kind x <> KComment) l ->
  map pkind (prog_trees nl i e l) = skel_step_loop nl i e (map stmt_kind l).
Proof.
  induction l as [|x l IH]; intros i e H; [reflexivity|]. inversion H as [|? ? Hx Hl]; subst.
  cbn [prog_trees map skel_step_loop]. rewrite <- (kind_blank x Hx). destruct (is_blank x) eqn:Eb.
  - destruct e; cbn [map app]; rewrite (IH _ _ Hl); reflexivity.
  - cbn [map]. rewrite map_app, (IH _ _ Hl), (kind_tree x Eb Hx). destruct (mem_nat i nl); reflexivity.
Qed.

Lemma reparse_skeleton_step (p : fprog) : p <> [] -> Forall (fun x => stmt_kind x <> KComment) p ->
  let nl := nl_after (fix_nl current_fixes) (map stmt_kind p) in
  let ks' := map pkind (prog_trees nl 0 false p) in
  ks' = skel_step (fix_nl current_fixes) (map stmt_kind p) /\
  nl_after (fix_nl current_fixes) ks' = [] /\
  skel_step (fix_nl current_fixes) ks' = ks'.
Proof.
  intros Hne Hc nl ks'.
  assert (E : ks' = skel_step (fix_nl current_fixes) (map stmt_kind p)).
  { unfold ks', nl, skel_step. rewrite (prog_trees_skeleton _ p 0 false Hc). destruct p; [contradiction|reflexivity]. }
  split; [exact E|]. rewrite E. split; [apply FormatNlProofs.skel_step_fixed_stable | apply FormatNlProofs.skel_step_fixed_idempotent].
Qed.

Lemma stmt_keeps_tables B fuel s r s' : parse_statement B fuel s = Ok r s' -> bodies s' = bodies s /\ hds s' = hds s.
Proof. intro H. pose proof (stmt_kb B fuel s r s' H) as K. unfold kb in K. injection K as K1 K2. auto. Qed.
