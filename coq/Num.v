(* Num.v — evy's num is an IEEE-754 binary64; this file models the pieces of
   Go's float64 behaviour the evaluator relies on that are not Coq primitives:
   int(f) conversion (amd64), math.Mod, and strconv.FormatFloat(f,'f',-1,64)
   on the subset where the shortest round-trip text is computable exactly. *)
From Coq Require Import ZArith NArith List String Bool Floats DecimalString.
From EvyV Require Import Base.
Import ListNotations.
Open Scope Z_scope.

Definition two63 : Z := 2^63.

(* trunc toward zero of a finite float, as an exact integer *)
Definition float_trunc (f : float) : option Z :=
  match Prim2SF f with
  | SpecFloat.S754_zero _ => Some 0
  | SpecFloat.S754_finite s m e =>
      let m := Z.pos m in
      let v := if 0 <=? e then m * 2^e else m / 2^(-e) in
      Some (if s then - v else v)
  | _ => None
  end.

(* Go: int(f) on amd64 (CVTTSD2SQ): truncation when the result fits in int64,
   otherwise the "integer indefinite" value -2^63 (NaN, ±Inf, out of range). *)
Definition go_int (f : float) : Z :=
  match float_trunc f with
  | Some z => if (- two63 <=? z) && (z <? two63) then z else - two63
  | None => - two63
  end.

(* the test `f == float64(int(f))` used by index and repetition checks:
   Some i iff f denotes an integer i in [-2^63, 2^63) *)
Definition go_int_exact (f : float) : option Z :=
  match float_to_Z f with
  | Some z => if (- two63 <=? z) && (z <? two63) then Some z else None
  | None => None
  end.

(* exact float of an integer that is representable (used for len results, etc.) *)
Definition float_of_nat (n : nat) : float := float_of_Z (Z.of_nat n).

(* ---------- math.Mod ---------- *)
Definition sf_mant_exp (f : float) : option (bool * Z * Z) :=
  match Prim2SF f with
  | SpecFloat.S754_finite s m e => Some (s, Z.pos m, e)
  | _ => None
  end.

Definition nan : float := (0 / 0)%float.

Definition fmod (x y : float) : float :=
  if is_nan x || is_nan y then nan
  else match Prim2SF x, Prim2SF y with
       | SpecFloat.S754_infinity _, _ => nan
       | _, SpecFloat.S754_zero _ => nan
       | SpecFloat.S754_zero _, _ => x
       | _, SpecFloat.S754_infinity _ => x
       | SpecFloat.S754_finite sx mx ex, SpecFloat.S754_finite _ my ey =>
           let e0 := Z.min ex ey in
           let ax := Z.pos mx * 2^(ex - e0) in
           let ay := Z.pos my * 2^(ey - e0) in
           let r := ax mod ay in
           if r =? 0 then (if sx then (-0)%float else 0%float)
           else SF2Prim (SpecFloat.binary_normalize 53 1024 (if sx then - r else r) e0 false)
       | _, _ => nan
       end.

(* ---------- number -> text ---------- *)
Definition z_dec (z : Z) : str := s_ (NilZero.string_of_int (Z.to_int z)).

(* left-pad with '0' up to [target] digits (fuel = target suffices: each round adds one digit) *)
Fixpoint pad_to (fuel target : nat) (s : str) : str :=
  match fuel with O => s | S k => if Nat.ltb (List.length s) target then pad_to k target (48%N :: s) else s end.
Definition pad_zeros (n : nat) (s : str) : str := pad_to n n s.

(* strip the factors of two common to mantissa and 2^k *)
Fixpoint reduce_frac (fuel : nat) (m k : Z) : Z * Z :=
  match fuel with
  | O => (m, k)
  | S f => if (0 <? k) && Z.even m then reduce_frac f (m / 2) (k - 1) else (m, k)
  end.

(* strconv.FormatFloat(f, 'f', -1, 64) where it can be computed exactly:
   integers below 2^53 and dyadic fractions with at most 12 fractional bits
   whose magnitude is below 2^53/10^k (there the exact decimal expansion is the
   shortest text that round-trips).  None = outside this subset (oracle). *)
Definition fmt_num (f : float) : option str :=
  match Prim2SF f with
  | SpecFloat.S754_nan => Some (s_ "NaN")
  | SpecFloat.S754_infinity s => Some (s_ (if s then "-Inf" else "+Inf"))
  | SpecFloat.S754_zero s => Some (s_ (if s then "-0" else "0"))
  | SpecFloat.S754_finite s m e =>
      let sign := if s then s_ "-" else [] in
      let m := Z.pos m in
      if 0 <=? e then
        let z := m * 2^e in
        if z <? 2^53 then Some (sign ++ z_dec z) else None
      else
        let '(m', k) := reduce_frac 1100 m (- e) in
        if k =? 0 then Some (sign ++ z_dec m')
        else if k <=? 12 then
          let ip := m' / 2^k in
          let fp := (m' mod 2^k) * 5^k in
          if ip * 10^k <? 2^53 then
            Some (sign ++ z_dec ip ++ s_ "." ++ pad_zeros (Z.to_nat k) (z_dec fp))
          else None
        else None
  end.
