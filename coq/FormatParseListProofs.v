(* FormatParseListProofs.v — C06 round trip, list level: array literals (single- and multi-line,
   with the comments and blank lines the formatter re-emits), map literals and call argument
   lists, proved directly against Pratt.parse_array_literal / parse_map_literal /
   parse_expr_list.  The items are parsed by parseExprWSS; what is proved here is the list
   step: brackets, separators, and the newline / indentation / comment tokens between items. *)
From Coq Require Import List String NArith ZArith Bool Arith Lia.
From EvyV Require Import Base FmtAst Format FormatProofs Pratt PrattProofs FormatParse FormatParseProofs.
From EvyV.Gen Require Import Prec.
Import ListNotations.
Local Open Scope nat_scope.

(* ---------- runs of white-space tokens between items ---------- *)
(* WS / NL tokens and comments, every comment directly followed by its newline *)
Fixpoint wsrun (l : list token) : bool :=
  match l with
  | [] => true
  | t :: r =>
      match ttype t with
      | T_WS | T_NL => wsrun r
      | T_COMMENT => match r with n :: r' => toktype_beq (ttype n) T_NL && wsrun r' | [] => false end
      | _ => false
      end
  end.

Lemma wsrun_app a b : wsrun a = true -> wsrun b = true -> wsrun (a ++ b) = true.
Proof.
  revert b. induction a as [a IH] using (well_founded_induction (Wf_nat.well_founded_ltof _ (@List.length token))).
  intros b Ha Hb. destruct a as [|t r]; [exact Hb|].
  cbn [wsrun app] in *. destruct (ttype t); try discriminate Ha.
  - destruct r as [|n r']; [discriminate|]. cbn [app]. apply andb_true_iff in Ha as [H1 H2]. rewrite H1. cbn [andb].
    apply IH; auto. unfold ltof. simpl. lia.
  - apply IH; auto. unfold ltof. simpl. lia.
  - apply IH; auto. unfold ltof. simpl. lia.
Qed.

Lemma rest_advance_wss st : rest (advance_wss st) = tl (rest st).
Proof. reflexivity. Qed.

(* the three fields of the parser state the list level is about *)
Definition same3 (st st' : pstate) (r : list token) : Prop :=
  rest st' = r /\ wss st' = wss st /\ errs st' = errs st.

Section Lists.
  Variable E : env.
  Hypothesis NT : no_tyerr E.

  (* parseMulitlineWS consumes a run *)
  Lemma pmw_run : forall fuel run st rest',
    wsrun run = true -> rest st = run ++ rest' -> wsish (look0 rest') = false ->
    List.length run < fuel ->
    exists st', parse_multiline_ws fuel st = Some st' /\ same3 st st' rest'.
  Proof.
    induction fuel as [|f IH]; intros run st rest' Hrun Hr Hn Hf; [lia|].
    destruct run as [|t r].
    - cbn [app] in Hr. cbn [parse_multiline_ws]. unfold cur_t, cur. rewrite Hr.
      unfold wsish in Hn. destruct (ttype (look0 rest')) eqn:T; try discriminate Hn;
        (exists st; split; [reflexivity | repeat split; exact Hr]).
    - cbn [wsrun] in Hrun. cbn [app] in Hr. cbn [parse_multiline_ws]. unfold cur_t, cur. rewrite Hr. cbn [look0 hd].
      destruct (ttype t) eqn:T; try discriminate Hrun.
      + (* comment, then its newline *)
        destruct r as [|n r']; [discriminate|]. apply andb_true_iff in Hrun as [Hn1 Hrun].
        apply toktype_beq_eq in Hn1.
        set (st1 := advance_wss st).
        assert (R1 : rest st1 = n :: r' ++ rest') by (unfold st1; rewrite rest_advance_wss, Hr; reflexivity).
        assert (A : assert_token T_NL st1 = (true, st1)).
        { unfold assert_token, cur_t, cur. rewrite R1. cbn [look0 hd]. rewrite Hn1. reflexivity. }
        rewrite A. cbn [snd].
        destruct (IH r' (advance_wss st1) rest') as (st' & P & Q1 & Q2 & Q3); auto.
        * rewrite rest_advance_wss, R1. reflexivity.
        * simpl in Hf. lia.
        * exists st'. split; [exact P|]. repeat split; auto.
      + destruct (IH r (advance_wss st) rest') as (st' & P & Q1 & Q2 & Q3); auto.
        * rewrite rest_advance_wss, Hr. reflexivity.
        * simpl in Hf. lia.
        * exists st'. split; [exact P|]. repeat split; auto.
      + destruct (IH r (advance_wss st) rest') as (st' & P & Q1 & Q2 & Q3); auto.
        * rewrite rest_advance_wss, Hr. reflexivity.
        * simpl in Hf. lia.
        * exists st'. split; [exact P|]. repeat split; auto.
  Qed.

  (* dropping leading WS tokens of a run leaves a run *)
  Lemma wsrun_tl t r : ttype t = T_WS -> wsrun (t :: r) = true -> wsrun r = true.
  Proof. intros T H. cbn [wsrun] in H. rewrite T in H. exact H. Qed.

  (* [advance] over a token that is followed by a run: what is left is a shorter run *)
  Lemma advance_run st t run rest' :
    rest st = t :: run ++ rest' -> wsrun run = true -> wsish (look0 rest') = false ->
    exists run', rest (advance st) = run' ++ rest' /\ wsrun run' = true /\ List.length run' <= List.length run
                 /\ wss (advance st) = wss st /\ errs (advance st) = errs st.
  Proof.
    intros Hr Hrun Hn. unfold advance.
    set (s1 := advance_wss st).
    assert (R1 : rest s1 = run ++ rest') by (unfold s1; rewrite rest_advance_wss, Hr; reflexivity).
    destruct (is_wss s1).
    - exists run. auto.
    - unfold advance_if_ws. destruct (is_ws (cur s1)) eqn:C.
      + destruct run as [|w r].
        * exfalso. cbn [app] in R1. unfold cur in C. rewrite R1 in C. unfold wsish in Hn. unfold is_ws in C.
          destruct (ttype (look0 rest')); discriminate.
        * assert (Tw : ttype w = T_WS).
          { unfold cur in C. rewrite R1 in C. cbn in C. unfold is_ws in C. destruct (ttype w); try discriminate; reflexivity. }
          set (s2 := advance_wss s1).
          assert (R2 : rest s2 = r ++ rest') by (unfold s2; rewrite rest_advance_wss, R1; reflexivity).
          exists r. destruct (is_ws (peek s2)); cbn [rest wss errs]; repeat split; auto; try (eapply wsrun_tl; eauto); simpl; lia.
      + exists run. destruct (is_ws (peek s1)); cbn [rest wss errs]; auto.
  Qed.

  (* popWSS in front of a run *)
  Lemma pop_wss_run st b w run rest' :
    rest st = run ++ rest' -> wss st = b :: w -> wsrun run = true -> wsish (look0 rest') = false ->
    exists run', rest (pop_wss st) = run' ++ rest' /\ wsrun run' = true /\ List.length run' <= List.length run
                 /\ wss (pop_wss st) = w /\ errs (pop_wss st) = errs st.
  Proof.
    intros Hr Hw Hrun Hn. unfold pop_wss.
    set (st1 := {| prev := prev st; rest := rest st; peek := peek st; wss := tl (wss st); errs := errs st; used := used st |}).
    assert (W1 : wss st1 = w) by (unfold st1; cbn; rewrite Hw; reflexivity).
    destruct (negb (is_wss st1) && is_ws (cur st1)) eqn:C.
    - apply andb_true_iff in C as [_ C].
      destruct run as [|t r].
      + exfalso. cbn [app] in Hr. unfold cur, st1 in C. cbn in C. rewrite Hr in C. unfold wsish in Hn. unfold is_ws in C.
        destruct (ttype (look0 rest')); discriminate.
      + destruct (advance_run st1 t r rest') as (run' & A1 & A2 & A3 & A4 & A5); auto.
        * eapply wsrun_tl; eauto. unfold cur, st1 in C. cbn in C. rewrite Hr in C. cbn in C. unfold is_ws in C.
          destruct (ttype t); try discriminate; reflexivity.
        * exists run'. rewrite A4, A5, W1. repeat split; auto. simpl. lia.
    - exists run. unfold st1; cbn. rewrite Hw. auto.
  Qed.

  (* ---------- the round-trip property of one list item ---------- *)
  (* parseExpr in a whitespace-sensitive context on the item's tokens returns tree t *)
  Definition RT (w : bool) (toks : list token) (t : tree) : Prop :=
    forall st rest0 fuel,
      is_wss st = w -> rest st = toks ++ rest0 ->
      (w = false -> is_ws (look0 rest0) = false) ->
      stop_tok w lowestPrec (look0 rest0) ->
      2 * List.length toks <= fuel ->
      exists st', parse_expr E fuel lowestPrec st = Some (Some t, st') /\ same3 st st' rest0.

  (* the first token of an item starts an expression *)
  Definition head_ok (toks : list token) : Prop :=
    match toks with
    | t :: _ => match ttype t with T_RBRACKET | T_RCURLY | T_RPAREN | T_EOF | T_WS | T_NL | T_COMMENT => False | _ => True end
    | [] => False
    end.

  (* items with the run that follows each; only the last run may be empty *)
  Fixpoint seps_ok (segs : list (list token * list token)) : Prop :=
    match segs with
    | [] => True
    | (_, sep) :: rest => wsrun sep = true /\ (rest <> [] -> sep <> []) /\ seps_ok rest
    end.

  Definition seg_toks (segs : list (list token * list token)) : list token :=
    flat_map (fun s => fst s ++ snd s) segs.

  Lemma stop_after_item sep r : wsrun sep = true -> (sep = [] -> precedences (ttype (look0 r)) <= lowestPrec) ->
    stop_tok true lowestPrec (look0 (sep ++ r)).
  Proof.
    intros Hs He. destruct sep as [|t s]; [right; right; apply He; reflexivity|].
    cbn [app look0 hd]. cbn [wsrun] in Hs. unfold stop_tok, is_ws, is_eol.
    destruct (ttype t); try discriminate Hs; auto.
  Qed.

  Lemma wsrun_head_wsish t r : wsrun (t :: r) = true -> wsish t = true.
  Proof. cbn [wsrun]. unfold wsish. destruct (ttype t); try discriminate; reflexivity. Qed.

  (* the element loop of parseArrayLiteral *)
  Lemma array_elems_loop f : forall segs trees acc st rest0 fuel,
    Forall2 (fun s t => RT true (fst s) t /\ head_ok (fst s)) segs trees ->
    seps_ok segs ->
    rest st = seg_toks segs ++ mk T_RBRACKET :: rest0 ->
    (forall s, In s segs -> 2 * List.length (fst s) <= f) ->
    List.length (seg_toks segs) < fuel ->
    exists st', parse_array_elems E (parse_expr E f) fuel acc st = Some (Some (rev acc ++ trees), st')
                /\ same3 st st' (mk T_RBRACKET :: rest0).
  Proof.
    induction segs as [|[it sep] segs IH]; intros trees acc st rest0 fuel HF Hseps Hr Hf Hfuel.
    - inversion HF; subst. cbn [seg_toks flat_map app] in Hr.
      destruct fuel as [|fu]; [simpl in Hfuel; lia|]. cbn [parse_array_elems]. unfold cur_t, cur. rewrite Hr. cbn.
      exists st. rewrite app_nil_r. split; [reflexivity | repeat split; exact Hr].
    - inversion HF as [|? t ? trees' [Hrt Hhd] HF']; subst.
      cbn [seps_ok] in Hseps. destruct Hseps as (Hsep & Hne & Hseps').
      cbn [seg_toks flat_map fst snd] in Hr. fold (seg_toks segs) in Hr.
      destruct fuel as [|fu]; [simpl in Hfuel; lia|]. cbn [parse_array_elems].
      (* the current token starts the item *)
      destruct it as [|t0 it']; [contradiction|].
      assert (Hcur : cur_t st = ttype t0) by (unfold cur_t, cur; rewrite Hr; reflexivity).
      rewrite Hcur. cbn [fst head_ok] in Hhd.
      set (rest1 := sep ++ seg_toks segs ++ mk T_RBRACKET :: rest0).
      assert (Hr' : rest (push_wss true st) = (t0 :: it') ++ rest1).
      { cbn [push_wss rest]. rewrite Hr. unfold rest1. rewrite <- !app_assoc. reflexivity. }
      assert (Hnext : wsish (look0 (seg_toks segs ++ mk T_RBRACKET :: rest0)) = false).
      { destruct segs as [|[it2 sep2] segs2]; [reflexivity|].
        inversion HF' as [|? ? ? ? [_ Hh2] _]; subst. cbn [seg_toks flat_map fst snd].
        destruct it2 as [|t2 it2']; [contradiction|]. cbn [app look0 hd head_ok fst] in *. unfold wsish.
        destruct (ttype t2); try contradiction; reflexivity. }
      destruct (Hrt (push_wss true st) rest1 f) as (st1 & P1 & Q1 & Q2 & Q3); auto.
      { intro; discriminate. }
      { unfold rest1. apply stop_after_item; auto. intros ->.
        destruct segs as [|s2 segs2]; [cbn [seg_toks flat_map app look0 hd]; change (ttype (mk T_RBRACKET)) with T_RBRACKET; rewrite rbracket_lowest; apply Nat.le_refl | exfalso; apply Hne; [discriminate | reflexivity]]. }
      { apply (Hf (t0 :: it', sep)). left. reflexivity. }
      unfold parse_expr_wss. rewrite P1. cbn [ret].
      destruct (pop_wss_run st1 true (wss st) sep (seg_toks segs ++ mk T_RBRACKET :: rest0)) as (run' & A1 & A2 & A3 & A4 & A5); auto.
      unfold tyerr. rewrite NT.
      destruct (pmw_run (S fu) run' (pop_wss st1) (seg_toks segs ++ mk T_RBRACKET :: rest0)) as (st2 & P2 & B1 & B2 & B3); auto.
      { unfold seg_toks in Hfuel |- *. cbn [flat_map fst snd] in Hfuel. rewrite !app_length in Hfuel. simpl in Hfuel. lia. }
      rewrite P2.
      destruct (IH trees' (t :: acc) st2 rest0 fu HF' Hseps' B1) as (st' & P3 & C1 & C2 & C3).
      { intros s Hs. apply Hf. right. exact Hs. }
      { unfold seg_toks in Hfuel |- *. cbn [flat_map fst snd] in Hfuel. rewrite !app_length in Hfuel. simpl in Hfuel. lia. }
      exists st'. split.
      + destruct (ttype t0); try contradiction; rewrite P3; cbn [rev]; rewrite <- app_assoc; reflexivity.
      + repeat split; auto; [rewrite C2, B2, A4 | rewrite C3, B3, A5, Q3]; reflexivity.
  Qed.

  Lemma seg_toks_len_item segs s : In s segs -> List.length (fst s) <= List.length (seg_toks segs).
  Proof.
    induction segs as [|x segs IH]; intro H; [contradiction|]. cbn [seg_toks flat_map]. rewrite !app_length.
    destruct H as [->|H]; [lia|]. specialize (IH H). unfold seg_toks in IH. lia.
  Qed.

  (* an array literal "[" w0 item sep item sep ... "]" as a whole expression, in either mode *)
  Theorem array_literal_rt w w0 segs trees :
    wsrun w0 = true ->
    Forall2 (fun s t => RT true (fst s) t /\ head_ok (fst s)) segs trees ->
    seps_ok segs ->
    RT w (mk T_LBRACKET :: w0 ++ seg_toks segs ++ [mk T_RBRACKET]) (TArr trees).
  Proof.
    intros Hw0 HF Hseps st rest0 fuel Hw Hr Hws Hstop Hfuel.
    set (body := seg_toks segs) in *.
    assert (Hlen : List.length (mk T_LBRACKET :: w0 ++ body ++ [mk T_RBRACKET]) = S (List.length w0 + List.length body + 1)).
    { cbn [List.length]. rewrite !app_length. simpl. lia. }
    rewrite Hlen in Hfuel.
    destruct fuel as [|f]; [lia|]. rewrite parse_expr_S.
    assert (Hr2 : rest st = mk T_LBRACKET :: w0 ++ (body ++ mk T_RBRACKET :: rest0)).
    { rewrite Hr. cbn [app]. rewrite <- !app_assoc. reflexivity. }
    assert (Hcur : cur_t st = T_LBRACKET) by (unfold cur_t, cur; rewrite Hr2; reflexivity).
    unfold parse_prefix. rewrite Hcur. unfold parse_literal, cur. rewrite Hr2. cbn [look0 hd ttype mk].
    unfold parse_array_literal.
    assert (Hnext : wsish (look0 (body ++ mk T_RBRACKET :: rest0)) = false).
    { unfold body. destruct segs as [|[it2 sep2] segs2]; [reflexivity|].
      inversion HF as [|? ? ? ? [_ Hh2] _]; subst. cbn [seg_toks flat_map fst snd].
      destruct it2 as [|t2 it2']; [contradiction|]. cbn [app look0 hd head_ok fst] in *. unfold wsish.
      destruct (ttype t2); try contradiction; reflexivity. }
    destruct (advance_run st (mk T_LBRACKET) w0 (body ++ mk T_RBRACKET :: rest0) Hr2 Hw0 Hnext) as (run' & A1 & A2 & A3 & A4 & A5).
    destruct (pmw_run f run' (advance st) (body ++ mk T_RBRACKET :: rest0)) as (st2 & P2 & B1 & B2 & B3); auto; [lia|].
    rewrite P2.
    destruct (array_elems_loop f segs trees [] st2 rest0 f HF Hseps B1) as (st3 & P3 & C1 & C2 & C3).
    { intros s Hs. pose proof (seg_toks_len_item segs s Hs). fold body in H. lia. }
    { fold body. lia. }
    rewrite P3. cbn [rev app].
    assert (A : assert_token T_RBRACKET st3 = (true, st3)).
    { unfold assert_token, cur_t, cur. rewrite C1. reflexivity. }
    rewrite A.
    (* advance past "]" *)
    assert (Hadv : same3 st3 (advance st3) rest0).
    { unfold advance. set (s1 := advance_wss st3).
      assert (R1 : rest s1 = rest0) by (unfold s1; rewrite rest_advance_wss, C1; reflexivity).
      assert (W1 : is_wss s1 = is_wss st) by (unfold is_wss, s1; cbn; rewrite C2, B2, A4; reflexivity).
      rewrite W1, Hw. destruct w.
      - repeat split; auto.
      - unfold advance_if_ws. assert (Cw : is_ws (cur s1) = false) by (unfold cur; rewrite R1; apply Hws; reflexivity).
        rewrite Cw. destruct (is_ws (peek s1)); repeat split; auto. }
    destruct Hadv as (D1 & D2 & D3).
    destruct f as [|k]; [lia|]. unfold ret.
    rewrite expr_loop_stop.
    - eexists. split; [reflexivity|]. repeat split; auto.
      + rewrite D2, C2, B2, A4. reflexivity.
      + rewrite D3, C3, B3, A5. reflexivity.
    - unfold cur. rewrite D1. assert (Wf : is_wss (advance st3) = w).
      { unfold is_wss. rewrite D2, C2, B2, A4. exact Hw. }
      rewrite Wf. exact Hstop.
  Qed.
End Lists.

(* ---------- the shape of what formatArrayLiteral writes ---------- *)
Definition ind_tok (b : bool) : list token := if b then [mk T_WS] else [].

(* (leading run, items with the run that follows each); [closing] is what is written before "]" *)
Fixpoint segs_of (closing : list token) (multi : list str) (els : list (list token))
  : list token * list (list token * list token) :=
  match multi with
  | [] => (closing, [])
  | m :: r =>
      if item_is_el m then
        let '(run, ss) := segs_of closing r (tl els) in
        ([], (hd [] els, ind_tok (next_not_nl r) ++ run) :: ss)
      else
        let '(run, ss) := segs_of closing r els in
        (toks_of_pieces (raw_item m) ++ ind_tok (next_not_nl r) ++ run, ss)
  end.

Lemma arr_loop_toks lvl closingP multi : forall elsP,
  (List.length (filter item_is_el multi) <= List.length elsP) ->
  toks_of_pieces (arr_loop (S lvl) multi elsP ++ closingP) =
  (let '(lead, ss) := segs_of (toks_of_pieces closingP) multi (map toks_of_pieces elsP) in lead ++ seg_toks ss).
Proof.
  induction multi as [|m r IH]; intros elsP Hlen.
  - cbn [arr_loop app segs_of seg_toks flat_map]. rewrite app_nil_r. reflexivity.
  - cbn [arr_loop segs_of]. cbn [filter] in Hlen. destruct (item_is_el m) eqn:Eel.
    + destruct elsP as [|e elsP']; [simpl in Hlen; lia|]. cbn [map tl hd].
      specialize (IH elsP'). destruct (segs_of (toks_of_pieces closingP) r (map toks_of_pieces elsP')) as [run ss] eqn:Es.
      cbn [app seg_toks flat_map fst snd]. fold (seg_toks ss).
      rewrite <- !app_assoc. rewrite (toks_app e), (toks_app (if next_not_nl r then [Sp] else [])). rewrite IH by (simpl in Hlen; lia).
      destruct (next_not_nl r); cbn [ind_tok toks_of_pieces flat_map tok_of_piece app]; rewrite <- ?app_assoc; reflexivity.
    + specialize (IH elsP). destruct (segs_of (toks_of_pieces closingP) r (map toks_of_pieces elsP)) as [run ss] eqn:Es.
      rewrite <- !app_assoc. rewrite (toks_app (raw_item m)), (toks_app (if next_not_nl r then [Ind (S lvl)] else [])). rewrite IH by exact Hlen.
      destruct (next_not_nl r); cbn [ind_tok toks_of_pieces flat_map tok_of_piece app]; rewrite <- ?app_assoc; reflexivity.
Qed.

Lemma raw_item_wsrun m : item_ws_ok m = true -> wsrun (toks_of_pieces (raw_item m)) = true.
Proof.
  unfold item_ws_ok, raw_item. intro H. destruct (item_is_nl m); [reflexivity|].
  simpl in H. apply andb_true_iff in H as [He _]. rewrite He. reflexivity.
Qed.

Lemma raw_item_nonempty m : toks_of_pieces (raw_item m) <> [].
Proof. unfold raw_item. destruct (item_is_nl m); [discriminate|]. destruct (ends_with_nl m); discriminate. Qed.

Lemma ind_tok_wsrun b : wsrun (ind_tok b) = true.
Proof. destruct b; reflexivity. Qed.

Lemma segs_of_ok closing multi : forall els,
  wsrun closing = true ->
  Forall (fun m => item_is_el m = true \/ item_ws_ok m = true) multi ->
  let '(lead, ss) := segs_of closing multi els in
  wsrun lead = true /\ seps_ok ss /\
  (* a run that follows an item and precedes another item is not empty *)
  (ss <> [] -> match multi with m :: _ => item_is_el m = false -> lead <> [] | [] => True end).
Proof.
  induction multi as [|m r IH]; intros els Hc Hm.
  - cbn [segs_of]. repeat split; auto.
  - inversion Hm as [|? ? Hm1 Hm2]; subst. cbn [segs_of]. destruct (item_is_el m) eqn:Eel.
    + specialize (IH (tl els) Hc Hm2). destruct (segs_of closing r (tl els)) as [run ss] eqn:Es.
      destruct IH as (I1 & I2 & I3). split; [reflexivity|]. split.
      * cbn [seps_ok]. split; [apply wsrun_app; [apply ind_tok_wsrun | exact I1]|]. split; [|exact I2].
        intros Hne Hsep. apply app_eq_nil in Hsep as [Hi Hrun].
        destruct r as [|m2 r2]; [cbn [segs_of] in Es; inversion Es; subst; contradiction|].
        cbn [next_not_nl] in Hi. destruct (item_is_nl m2) eqn:En; [|discriminate Hi].
        apply (I3 Hne); [|exact Hrun]. apply item_nl_not_el, En.
      * intros _ H. discriminate H.
    + destruct Hm1 as [Hm1|Hm1]; [congruence|].
      specialize (IH els Hc Hm2). destruct (segs_of closing r els) as [run ss].
      destruct IH as (I1 & I2 & I3). split; [|split; [exact I2|]].
      * apply wsrun_app; [apply raw_item_wsrun, Hm1|]. apply wsrun_app; [apply ind_tok_wsrun | exact I1].
      * intros _ _ H. apply app_eq_nil in H as [H _]. exact (raw_item_nonempty m H).
Qed.

Lemma segs_of_items closing multi : forall els,
  List.length (filter item_is_el multi) = List.length els ->
  map fst (snd (segs_of closing multi els)) = els.
Proof.
  induction multi as [|m r IH]; intros els Hlen.
  - destruct els; [reflexivity | discriminate].
  - cbn [segs_of]. cbn [filter] in Hlen. destruct (item_is_el m).
    + destruct els as [|e els']; [discriminate|]. cbn [tl hd]. specialize (IH els').
      destruct (segs_of closing r els') as [run ss]. cbn [snd map fst] in *. f_equal. apply IH. simpl in Hlen. lia.
    + specialize (IH els Hlen). destruct (segs_of closing r els) as [run ss]. exact IH.
Qed.

Section ArrayExpr.
  Variable E : env.
  Hypothesis NT : no_tyerr E.
  Variable fx : fixes.

  (* an array literal whose elements round-trip as list items round-trips as a whole *)
  Theorem array_expr_rt w lvl items els :
    wf_expr (FArr items els) = true ->
    Forall (fun e => RT E true (toks_of_pieces (fmt_expr fx (S lvl) e)) (fexpr_tree e)
                     /\ head_ok (toks_of_pieces (fmt_expr fx (S lvl) e))) els ->
    RT E w (toks_of_pieces (fmt_expr fx lvl (FArr items els))) (fexpr_tree (FArr items els)).
  Proof.
    intros Hwf Hels. cbn [wf_expr] in Hwf. apply andb_true_iff in Hwf as [Hwf _]. apply andb_true_iff in Hwf as [Hit Hlen].
    apply Nat.eqb_eq in Hlen. cbn [fmt_expr fexpr_tree]. unfold fmt_array.
    set (multi := format_multiline items).
    assert (Hit' : Forall (fun m => item_is_el m = true \/ item_ws_ok m = true) multi).
    { apply fm_loop_Forall. apply forallb_Forall in Hit. eapply Forall_impl; [|exact Hit]. intros m Hm. simpl in Hm. apply orb_true_iff in Hm. exact Hm. }
    assert (Hlen' : List.length (filter item_is_el multi) = List.length (map (fmt_expr fx (S lvl)) els)).
    { unfold multi, format_multiline. rewrite fm_loop_filter by apply item_nl_not_el. rewrite map_length. exact Hlen. }
    destruct multi as [|m0 multi'] eqn:Em.
    - (* "[]" *)
      destruct els as [|e els']; [|simpl in Hlen'; discriminate].
      change (toks_of_pieces [T k_lbr; T k_rbr]) with (mk T_LBRACKET :: [] ++ seg_toks [] ++ [mk T_RBRACKET]).
      apply (array_literal_rt E NT w [] [] []); [reflexivity | constructor | exact I].
    - rewrite <- Em in *. clear Em.
      set (closingP := if (if fix_br fx then last_is_nl_or_comment multi else last_is_nl multi) then [Ind lvl] else []).
      set (elsP := map (fmt_expr fx (S lvl)) els) in *.
      assert (Hshape : toks_of_pieces ([T k_lbr] ++ (if first_is_comment multi then [Sp] else []) ++ arr_loop (S lvl) multi elsP ++ closingP ++ [T k_rbr])
                       = mk T_LBRACKET :: (ind_tok (first_is_comment multi) ++ fst (segs_of (toks_of_pieces closingP) multi (map toks_of_pieces elsP)))
                         ++ seg_toks (snd (segs_of (toks_of_pieces closingP) multi (map toks_of_pieces elsP))) ++ [mk T_RBRACKET]).
      { rewrite app_assoc with (l := arr_loop (S lvl) multi elsP). rewrite !toks_app.
        rewrite <- (toks_app (arr_loop (S lvl) multi elsP) closingP). rewrite (arr_loop_toks lvl closingP multi elsP) by lia.
        destruct (segs_of (toks_of_pieces closingP) multi (map toks_of_pieces elsP)) as [lead ss]. cbn [fst snd].
        destruct (first_is_comment multi); cbn [ind_tok toks_of_pieces flat_map tok_of_piece app]; rewrite <- ?app_assoc; reflexivity. }
      rewrite Hshape.
      assert (Hcl : wsrun (toks_of_pieces closingP) = true).
      { unfold closingP. destruct (if fix_br fx then _ else _); [destruct lvl|]; reflexivity. }
      pose proof (segs_of_ok (toks_of_pieces closingP) multi (map toks_of_pieces elsP) Hcl Hit') as Hok.
      pose proof (segs_of_items (toks_of_pieces closingP) multi (map toks_of_pieces elsP)) as Hitems.
      rewrite map_length in Hitems. specialize (Hitems Hlen').
      destruct (segs_of (toks_of_pieces closingP) multi (map toks_of_pieces elsP)) as [lead ss]. cbn [fst snd] in *.
      destruct Hok as (O1 & O2 & _).
      apply (array_literal_rt E NT w _ ss (map fexpr_tree els)).
      + apply wsrun_app; [apply ind_tok_wsrun | exact O1].
      + (* the items are the formatted elements, in order *)
        clear - Hitems Hels. unfold elsP in Hitems. revert ss Hitems.
        induction els as [|e els IH]; intros ss Hitems.
        * destruct ss; [constructor | discriminate].
        * destruct ss as [|[it sep] ss']; [discriminate|]. cbn [map fst] in Hitems. injection Hitems as Hi Hrest.
          inversion Hels as [|? ? [H1 H2] Hels']; subst. constructor; [split; assumption|]. apply IH; auto.
      + exact O2.
  Qed.
End ArrayExpr.

(* ====================================================================== *)
(* map literals                                                            *)
(* ====================================================================== *)
Section Maps.
  Variable E : env.
  Hypothesis NT : no_tyerr E.

  (* a key token: as_ident turns it into the identifier [k] (identifiers and keywords) *)
  Definition key_tok_ok (kt : token) (k : str) : Prop :=
    ttype (as_ident kt) = T_IDENT /\ tlit (as_ident kt) = k /\ wsish kt = false /\
    ttype kt <> T_RCURLY /\ ttype kt <> T_EOF.

  Definition pair_toks (p : token * list token * list token) : list token :=
    let '(kt, v, sep) := p in kt :: mk T_COLON :: v ++ sep.
  Definition pairs_toks (ps : list (token * list token * list token)) : list token := flat_map pair_toks ps.

  Fixpoint pseps_ok (ps : list (token * list token * list token)) : Prop :=
    match ps with
    | [] => True
    | (_, _, sep) :: rest => wsrun sep = true /\ (rest <> [] -> sep <> []) /\ pseps_ok rest
    end.

  Lemma has_key_In k (acc : list (str * tree)) : has_key k acc = true -> In k (map fst acc).
  Proof.
    induction acc as [|[k' v] t IH]; simpl; [discriminate|]. intro H. apply orb_true_iff in H as [H|H].
    - left. apply str_eqb_eq in H. exact H.
    - right. auto.
  Qed.

  (* advance over a token that is directly followed by a non-blank token, outside a whitespace-sensitive context or not *)
  Lemma advance_plain st t rest' :
    rest st = t :: rest' -> wsish (look0 rest') = false ->
    rest (advance st) = rest' /\ wss (advance st) = wss st /\ errs (advance st) = errs st.
  Proof.
    intros Hr Hn. destruct (advance_run st t [] rest' Hr eq_refl Hn) as (run' & A1 & _ & A3 & A4 & A5).
    destruct run'; [|simpl in A3; lia]. auto.
  Qed.

  Lemma pop_wss_nop st b w :
    wss st = b :: w -> (hd false w = false -> is_ws (look0 (rest st)) = false) ->
    rest (pop_wss st) = rest st /\ wss (pop_wss st) = w /\ errs (pop_wss st) = errs st.
  Proof.
    intros Hw Hc. unfold pop_wss.
    set (st1 := {| prev := prev st; rest := rest st; peek := peek st; wss := tl (wss st); errs := errs st; used := used st |}).
    assert (I1 : is_wss st1 = hd false w) by (unfold is_wss, st1; cbn; rewrite Hw; reflexivity).
    rewrite I1. destruct (hd false w) eqn:Hh; cbn [negb andb].
    - unfold st1; cbn. rewrite Hw. auto.
    - assert (C : is_ws (cur st1) = false) by (unfold cur, st1; cbn; apply Hc; reflexivity).
      rewrite C. unfold st1; cbn. rewrite Hw. auto.
  Qed.

  Lemma map_pairs_loop f : forall ps trees acc st rest0 fuel outer,
    Forall2 (fun p t => let '(kt, v, _) := p in RT E true v (snd t) /\ head_ok v /\ key_tok_ok kt (fst t)) ps trees ->
    pseps_ok ps ->
    NoDup (map fst acc ++ map fst trees) ->
    rest st = pairs_toks ps ++ mk T_RCURLY :: rest0 ->
    wss st = false :: outer ->
    (forall p, In p ps -> 2 * List.length (snd (fst p)) <= f) ->
    List.length (pairs_toks ps) < fuel ->
    exists st', parse_map_pairs E (parse_expr E f) fuel acc st = Some (Some (rev acc ++ trees), st')
                /\ same3 st st' (mk T_RCURLY :: rest0).
  Proof.
    induction ps as [|[[kt v] sep] ps IH]; intros trees acc st rest0 fuel outer HF Hseps Hnd Hr Hw Hf Hfuel.
    - inversion HF; subst. cbn [pairs_toks flat_map app] in Hr.
      destruct fuel as [|fu]; [simpl in Hfuel; lia|]. cbn [parse_map_pairs]. unfold cur_t, cur. rewrite Hr. cbn.
      exists st. rewrite app_nil_r. split; [reflexivity | repeat split; exact Hr].
    - inversion HF as [|? kt' ? trees' Hp HF']; subst. destruct kt' as [k t]. cbn [fst snd] in Hp.
      unfold key_tok_ok in Hp. destruct Hp as (Hrt & Hhd & Hk1 & Hk2 & Hk3 & Hk4 & Hk5). cbn [fst snd] in *.
      cbn [pseps_ok] in Hseps. destruct Hseps as (Hsep & Hne & Hseps').
      cbn [pairs_toks flat_map pair_toks] in Hr. fold (pairs_toks ps) in Hr.
      destruct fuel as [|fu]; [simpl in Hfuel; lia|]. cbn [parse_map_pairs].
      assert (Hcur : cur st = kt) by (unfold cur; rewrite Hr; reflexivity).
      assert (Hct : cur_t st = ttype kt) by (unfold cur_t; rewrite Hcur; reflexivity).
      rewrite Hct, Hcur, Hk1, Hk2.
      set (rest1 := sep ++ pairs_toks ps ++ mk T_RCURLY :: rest0).
      assert (Hr1 : rest st = kt :: mk T_COLON :: v ++ rest1).
      { rewrite Hr. unfold rest1. cbn [app]. rewrite <- !app_assoc. reflexivity. }
      destruct (advance_plain st kt (mk T_COLON :: v ++ rest1) Hr1 eq_refl) as (A1 & A2 & A3).
      (* the key is new *)
      assert (Hnew : has_key k acc = false).
      { destruct (has_key k acc) eqn:Hh; [|reflexivity]. apply has_key_In in Hh.
        exfalso. cbn [map fst] in Hnd. apply NoDup_remove_2 in Hnd. apply Hnd. apply in_or_app. left. exact Hh. }
      rewrite Hnew.
      assert (Ac : assert_token T_COLON (advance st) = (true, advance st)).
      { unfold assert_token, cur_t, cur. rewrite A1. reflexivity. }
      rewrite Ac. cbn [snd].
      destruct v as [|v0 v']; [contradiction|].
      assert (Hv0 : wsish (look0 ((v0 :: v') ++ rest1)) = false).
      { cbn [app look0 hd]. cbn [head_ok] in Hhd. unfold wsish. destruct (ttype v0); try contradiction; reflexivity. }
      destruct (advance_plain (advance st) (mk T_COLON) ((v0 :: v') ++ rest1) A1 Hv0) as (B1 & B2 & B3).
      set (st3 := advance (advance st)) in *.
      assert (Hnext : wsish (look0 (pairs_toks ps ++ mk T_RCURLY :: rest0)) = false).
      { destruct ps as [|[[kt2 v2] sep2] ps2]; [reflexivity|].
        inversion HF' as [|? kt3 ? ? Hp2 _]; subst. destruct kt3 as [k2 t2]. cbn [fst snd] in Hp2. unfold key_tok_ok in Hp2.
        destruct Hp2 as (_ & _ & _ & _ & Hw2 & _). exact Hw2. }
      destruct (Hrt (push_wss true st3) rest1 f) as (st4 & P1 & Q1 & Q2 & Q3); auto.
      { intro; discriminate. }
      { unfold rest1. apply stop_after_item; auto. intros ->.
        destruct ps as [|p2 ps2]; [cbn [pairs_toks flat_map app look0 hd]; change (ttype (mk T_RCURLY)) with T_RCURLY; apply Nat.le_refl
                               | exfalso; apply Hne; [discriminate | reflexivity]]. }
      { apply (Hf (kt, v0 :: v', sep)). left. reflexivity. }
      unfold parse_expr_wss. rewrite P1. cbn [ret].
      destruct (pop_wss_run st4 true (wss st3) sep (pairs_toks ps ++ mk T_RCURLY :: rest0)) as (run' & C1 & C2 & C3 & C4 & C5); auto.
      unfold tyerr. rewrite NT.
      destruct (pmw_run (S fu) run' (pop_wss st4) (pairs_toks ps ++ mk T_RCURLY :: rest0)) as (st5 & P2 & D1 & D2 & D3); auto.
      { unfold pairs_toks in Hfuel. cbn [flat_map pair_toks] in Hfuel. simpl in Hfuel. rewrite !app_length in Hfuel. lia. }
      rewrite P2.
      destruct (IH trees' ((k, t) :: acc) st5 rest0 fu outer HF' Hseps') as (st' & P3 & F1 & F2 & F3); auto.
      { cbn [map fst]. cbn [map fst] in Hnd. apply NoDup_cons.
        - apply NoDup_remove_2 in Hnd. intro Hin. apply Hnd. apply in_app_or in Hin as [Hin|Hin]; apply in_or_app; auto.
        - apply NoDup_remove_1 in Hnd. exact Hnd. }
      { rewrite D2, C4, B2, A2. exact Hw. }
      { intros p Hp. apply Hf. right. exact Hp. }
      { unfold pairs_toks in Hfuel |- *. cbn [flat_map pair_toks] in Hfuel. simpl in Hfuel. rewrite !app_length in Hfuel. lia. }
      exists st'. split.
      + destruct (ttype kt); try (exfalso; auto; fail); rewrite P3; cbn [rev]; rewrite <- app_assoc; reflexivity.
      + repeat split; auto; [rewrite F2, D2, C4, B2, A2 | rewrite F3, D3, C5, Q3]; auto.
        cbn [push_wss errs]. rewrite B3, A3. reflexivity.
  Qed.

  Lemma pairs_toks_len_item ps p : In p ps -> List.length (snd (fst p)) <= List.length (pairs_toks ps).
  Proof.
    induction ps as [|x ps IH]; intro H; [contradiction|]. unfold pairs_toks. cbn [flat_map]. rewrite app_length.
    destruct H as [->|H].
    - destruct p as [[kt v] sep]. cbn [pair_toks fst snd]. simpl. rewrite app_length. lia.
    - specialize (IH H). unfold pairs_toks in IH. lia.
  Qed.

  (* a map literal "{" w0 key ":" value sep ... "}" as a whole expression, in either mode *)
  Theorem map_literal_rt w w0 ps trees :
    wsrun w0 = true ->
    Forall2 (fun p t => let '(kt, v, _) := p in RT E true v (snd t) /\ head_ok v /\ key_tok_ok kt (fst t)) ps trees ->
    pseps_ok ps -> NoDup (map fst trees) ->
    RT E w (mk T_LCURLY :: w0 ++ pairs_toks ps ++ [mk T_RCURLY]) (TMap trees).
  Proof.
    intros Hw0 HF Hseps Hnd st rest0 fuel Hw Hr Hws Hstop Hfuel.
    set (body := pairs_toks ps) in *.
    assert (Hlen : List.length (mk T_LCURLY :: w0 ++ body ++ [mk T_RCURLY]) = S (List.length w0 + List.length body + 1)).
    { cbn [List.length]. rewrite !app_length. simpl. lia. }
    rewrite Hlen in Hfuel.
    destruct fuel as [|f]; [lia|]. rewrite parse_expr_S.
    assert (Hr2 : rest st = mk T_LCURLY :: w0 ++ (body ++ mk T_RCURLY :: rest0)).
    { rewrite Hr. cbn [app]. rewrite <- !app_assoc. reflexivity. }
    assert (Hcur : cur_t st = T_LCURLY) by (unfold cur_t, cur; rewrite Hr2; reflexivity).
    unfold parse_prefix. rewrite Hcur. unfold parse_literal, cur. rewrite Hr2. cbn [look0 hd ttype mk].
    unfold parse_map_literal.
    assert (Hnext : wsish (look0 (body ++ mk T_RCURLY :: rest0)) = false).
    { unfold body. destruct ps as [|[[kt2 v2] sep2] ps2]; [reflexivity|].
      inversion HF as [|? kt3 ? ? Hp2 _]; subst. destruct kt3 as [k2 t2]. cbn [fst snd] in Hp2. unfold key_tok_ok in Hp2.
      destruct Hp2 as (_ & _ & _ & _ & Hw2 & _). exact Hw2. }
    assert (Hr3 : rest (push_wss false st) = mk T_LCURLY :: w0 ++ (body ++ mk T_RCURLY :: rest0)) by exact Hr2.
    destruct (advance_run (push_wss false st) (mk T_LCURLY) w0 _ Hr3 Hw0 Hnext) as (run' & A1 & A2 & A3 & A4 & A5).
    destruct (pmw_run f run' (advance (push_wss false st)) (body ++ mk T_RCURLY :: rest0)) as (st2 & P2 & B1 & B2 & B3); auto; [lia|].
    rewrite P2.
    destruct (map_pairs_loop f ps trees [] st2 rest0 f (wss st) HF Hseps) as (st3 & P3 & C1 & C2 & C3); auto.
    { rewrite B2, A4. reflexivity. }
    { intros p Hp. pose proof (pairs_toks_len_item ps p Hp). fold body in H. lia. }
    { fold body. lia. }
    rewrite P3. cbn [rev app].
    assert (A : assert_token T_RCURLY st3 = (true, st3)).
    { unfold assert_token, cur_t, cur. rewrite C1. reflexivity. }
    rewrite A.
    assert (W4 : wss (advance_wss st3) = false :: wss st) by (cbn; rewrite C2, B2, A4; reflexivity).
    assert (R4 : rest (advance_wss st3) = rest0) by (rewrite rest_advance_wss, C1; reflexivity).
    destruct (pop_wss_nop (advance_wss st3) false (wss st) W4) as (D1 & D2 & D3).
    { rewrite R4. intro Hh. apply Hws. unfold is_wss in Hw. rewrite Hh in Hw. symmetry. exact Hw. }
    destruct f as [|k]; [lia|]. unfold ret.
    rewrite expr_loop_stop.
    - eexists. split; [reflexivity|]. repeat split.
      + rewrite D1. exact R4.
      + exact D2.
      + rewrite D3. cbn. rewrite C3, B3, A5. reflexivity.
    - unfold cur. rewrite D1, R4. assert (Wf : is_wss (pop_wss (advance_wss st3)) = w).
      { unfold is_wss. rewrite D2. exact Hw. }
      rewrite Wf. exact Hstop.
  Qed.
End Maps.

(* ---------- the shape of what formatMapLiteral writes ---------- *)
Fixpoint psegs_of (closing : list token) (multi : list str) (kvs : list (str * list piece))
  : list token * list (token * list token * list token) :=
  match multi with
  | [] => (closing, [])
  | m :: r =>
      let '(run, ss) := psegs_of closing r kvs in
      if item_is_key m then
        ([], (tok_of_text m, toks_of_pieces (lookup_pieces m kvs), ind_tok (next_not_nl r) ++ run) :: ss)
      else (toks_of_pieces (raw_item m) ++ ind_tok (next_not_nl r) ++ run, ss)
  end.

Lemma map_loop_toks lvl closingP kvs multi :
  toks_of_pieces (map_loop (S lvl) multi kvs ++ closingP) =
  (let '(lead, ss) := psegs_of (toks_of_pieces closingP) multi kvs in lead ++ pairs_toks ss).
Proof.
  induction multi as [|m r IH].
  - cbn [map_loop app psegs_of pairs_toks flat_map]. rewrite app_nil_r. reflexivity.
  - cbn [map_loop psegs_of]. destruct (psegs_of (toks_of_pieces closingP) r kvs) as [run ss] eqn:Es.
    destruct (item_is_key m) eqn:Ek.
    + unfold pairs_toks. cbn [app flat_map pair_toks]. fold (pairs_toks ss).
      rewrite <- !app_assoc. cbn [app].
      change (T m :: T k_colon :: lookup_pieces m kvs ++ (if next_not_nl r then [Sp] else []) ++ map_loop (S lvl) r kvs ++ closingP)
        with ([T m; T k_colon] ++ lookup_pieces m kvs ++ (if next_not_nl r then [Sp] else []) ++ (map_loop (S lvl) r kvs ++ closingP)).
      rewrite (toks_app [T m; T k_colon]), (toks_app (lookup_pieces m kvs)), (toks_app (if next_not_nl r then [Sp] else [])), IH.
      destruct (next_not_nl r); cbn [ind_tok toks_of_pieces flat_map tok_of_piece app]; rewrite <- ?app_assoc; reflexivity.
    + rewrite <- !app_assoc. rewrite (toks_app (raw_item m)), (toks_app (if next_not_nl r then [Ind (S lvl)] else [])), IH.
      destruct (next_not_nl r); cbn [ind_tok toks_of_pieces flat_map tok_of_piece app]; rewrite <- ?app_assoc; reflexivity.
Qed.

Lemma psegs_of_ok closing kvs multi :
  wsrun closing = true ->
  Forall (fun m => item_is_key m = true \/ item_ws_ok m = true) multi ->
  let '(lead, ss) := psegs_of closing multi kvs in
  wsrun lead = true /\ pseps_ok ss /\
  (ss <> [] -> match multi with m :: _ => item_is_key m = false -> lead <> [] | [] => True end).
Proof.
  intros Hc. induction multi as [|m r IH]; intro Hm.
  - cbn [psegs_of]. repeat split; auto.
  - inversion Hm as [|? ? Hm1 Hm2]; subst. cbn [psegs_of]. specialize (IH Hm2).
    destruct (psegs_of closing r kvs) as [run ss] eqn:Es. destruct IH as (I1 & I2 & I3).
    destruct (item_is_key m) eqn:Ek.
    + split; [reflexivity|]. split.
      * cbn [pseps_ok]. split; [apply wsrun_app; [apply ind_tok_wsrun | exact I1]|]. split; [|exact I2].
        intros Hne Hsep. apply app_eq_nil in Hsep as [Hi Hrun].
        destruct r as [|m2 r2]; [cbn [psegs_of] in Es; inversion Es; subst; contradiction|].
        cbn [next_not_nl] in Hi. destruct (item_is_nl m2) eqn:En; [|discriminate Hi].
        apply (I3 Hne); [|exact Hrun]. apply item_nl_not_key, En.
      * intros _ H. discriminate H.
    + destruct Hm1 as [Hm1|Hm1]; [congruence|]. split; [|split; [exact I2|]].
      * apply wsrun_app; [apply raw_item_wsrun, Hm1|]. apply wsrun_app; [apply ind_tok_wsrun | exact I1].
      * intros _ _ H. apply app_eq_nil in H as [H _]. exact (raw_item_nonempty m H).
Qed.

Lemma psegs_of_keys closing kvs multi :
  map (fun p => (fst (fst p), snd (fst p))) (snd (psegs_of closing multi kvs))
  = map (fun k => (tok_of_text k, toks_of_pieces (lookup_pieces k kvs))) (filter item_is_key multi).
Proof.
  induction multi as [|m r IH]; [reflexivity|]. cbn [psegs_of filter].
  destruct (psegs_of closing r kvs) as [run ss]. cbn [snd] in IH. destruct (item_is_key m); cbn [snd map fst]; [f_equal|]; exact IH.
Qed.

Lemma lookup_pieces_combine k keys : forall (vals : list (list piece)) i v,
  NoDup keys -> nth_error keys i = Some k -> nth_error vals i = Some v ->
  lookup_pieces k (combine keys vals) = v.
Proof.
  induction keys as [|k0 keys IH]; intros vals i v Hnd Hk Hv; [destruct i; discriminate|].
  destruct vals as [|v0 vals]; [destruct i; discriminate|]. cbn [combine lookup_pieces].
  destruct i as [|i]; cbn [nth_error] in Hk, Hv.
  - inversion Hk; inversion Hv; subst. rewrite str_eqb_refl. reflexivity.
  - inversion Hnd as [|? ? Hnot Hnd']; subst.
    destruct (str_eqb k0 k) eqn:Ee.
    + apply str_eqb_eq in Ee. subst. exfalso. apply Hnot. eapply nth_error_In; eauto.
    + eapply IH; eauto.
Qed.

Lemma key_text_spec k : key_text k = true -> key_tok_ok (tok_of_text k) k.
Proof.
  unfold key_text, key_tok_ok. intro H. repeat (apply andb_true_iff in H as [H ?]).
  apply toktype_beq_eq in H. repeat split; auto.
  - match goal with H1 : str_eqb _ k = true |- _ => apply str_eqb_eq in H1; exact H1 end.
  - match goal with H1 : negb (wsish _) = true |- _ => apply negb_true_iff in H1; exact H1 end.
  - intro Hx. match goal with H1 : negb (toktype_beq _ T_RCURLY) = true |- _ => apply negb_true_iff in H1; rewrite Hx in H1; discriminate H1 end.
  - intro Hx. match goal with H1 : negb (toktype_beq _ T_EOF) = true |- _ => apply negb_true_iff in H1; rewrite Hx in H1; discriminate H1 end.
Qed.

Lemma nodup_str_NoDup l : nodup_str l = true -> NoDup l.
Proof.
  induction l as [|x t IH]; simpl; intro H; [constructor|]. apply andb_true_iff in H as [H1 H2].
  constructor; auto. intro Hin. apply mem_str_In in Hin. rewrite Hin in H1. discriminate.
Qed.

Section MapExpr.
  Variable E : env.
  Hypothesis NT : no_tyerr E.
  Variable fx : fixes.

  (* a map literal whose values round-trip as list items round-trips as a whole *)
  Theorem map_expr_rt w lvl items keys vals :
    wf_expr (FMap items keys vals) = true -> forallb key_text keys = true ->
    Forall (fun e => RT E true (toks_of_pieces (fmt_expr fx (S lvl) e)) (fexpr_tree e)
                     /\ head_ok (toks_of_pieces (fmt_expr fx (S lvl) e))) vals ->
    RT E w (toks_of_pieces (fmt_expr fx lvl (FMap items keys vals))) (fexpr_tree (FMap items keys vals)).
  Proof.
    intros Hwf Hkt Hvals. cbn [wf_expr] in Hwf. repeat (apply andb_true_iff in Hwf as [Hwf ?]).
    match goal with Hl : (_ =? _)%nat = true |- _ => apply Nat.eqb_eq in Hl; rename Hl into Hlen end.
    match goal with Hn : nodup_str keys = true |- _ => apply nodup_str_NoDup in Hn; rename Hn into Hnd end.
    destruct (list_eq_dec str_eq_dec (filter item_is_key items) keys) as [Hk|]; [|discriminate].
    cbn [fmt_expr fexpr_tree]. unfold fmt_map.
    set (multi := format_multiline items).
    set (kvs := combine keys (map (fmt_expr fx (S lvl)) vals)).
    assert (Hit' : Forall (fun m => item_is_key m = true \/ item_ws_ok m = true) multi).
    { apply fm_loop_Forall. apply forallb_Forall in Hwf. eapply Forall_impl; [|exact Hwf]. intros m Hm. simpl in Hm.
      apply orb_true_iff in Hm as [Hm|Hm]; [left; apply andb_true_iff in Hm; tauto | right; exact Hm]. }
    assert (Hkeys : filter item_is_key multi = keys).
    { unfold multi, format_multiline. rewrite fm_loop_filter by apply item_nl_not_key. exact Hk. }
    destruct multi as [|m0 multi'] eqn:Em.
    - destruct keys as [|k keys']; [|discriminate Hkeys]. destruct vals; [|discriminate Hlen].
      change (toks_of_pieces [T k_lcu; T k_rcu]) with (mk T_LCURLY :: [] ++ pairs_toks [] ++ [mk T_RCURLY]).
      apply (map_literal_rt E NT w [] [] []); [reflexivity | constructor | exact I | constructor].
    - rewrite <- Em in *. clear Em.
      set (closingP := if (if fix_br fx then last_is_nl_or_comment multi else last_is_nl multi) then [Ind lvl] else []).
      assert (Hshape : toks_of_pieces ([T k_lcu] ++ (if first_is_comment multi then [Sp] else []) ++ map_loop (S lvl) multi kvs ++ closingP ++ [T k_rcu])
                       = mk T_LCURLY :: (ind_tok (first_is_comment multi) ++ fst (psegs_of (toks_of_pieces closingP) multi kvs))
                         ++ pairs_toks (snd (psegs_of (toks_of_pieces closingP) multi kvs)) ++ [mk T_RCURLY]).
      { rewrite app_assoc with (l := map_loop (S lvl) multi kvs). rewrite !toks_app.
        rewrite <- (toks_app (map_loop (S lvl) multi kvs) closingP). rewrite (map_loop_toks lvl closingP kvs multi).
        destruct (psegs_of (toks_of_pieces closingP) multi kvs) as [lead ss]. cbn [fst snd].
        destruct (first_is_comment multi); cbn [ind_tok toks_of_pieces flat_map tok_of_piece app]; rewrite <- ?app_assoc; reflexivity. }
      rewrite Hshape.
      assert (Hcl : wsrun (toks_of_pieces closingP) = true).
      { unfold closingP. destruct (if fix_br fx then _ else _); [destruct lvl|]; reflexivity. }
      pose proof (psegs_of_ok (toks_of_pieces closingP) kvs multi Hcl Hit') as Hok.
      pose proof (psegs_of_keys (toks_of_pieces closingP) kvs multi) as Hpk. rewrite Hkeys in Hpk.
      destruct (psegs_of (toks_of_pieces closingP) multi kvs) as [lead ss]. cbn [fst snd] in *.
      destruct Hok as (O1 & O2 & _).
      apply (map_literal_rt E NT w _ ss (combine keys (map fexpr_tree vals))).
      + apply wsrun_app; [apply ind_tok_wsrun | exact O1].
      + (* the pairs are the keys with their formatted values, in order *)
        assert (Hgen : forall i k, nth_error keys i = Some k ->
                  exists e, nth_error vals i = Some e /\ lookup_pieces k kvs = fmt_expr fx (S lvl) e).
        { intros i k Hi. assert (Hlt : (i < List.length vals)%nat) by (rewrite <- Hlen; apply nth_error_Some; congruence).
          destruct (nth_error vals i) as [e|] eqn:Ev; [|apply nth_error_None in Ev; lia].
          exists e. split; [reflexivity|]. unfold kvs. eapply lookup_pieces_combine; eauto. rewrite nth_error_map, Ev. reflexivity. }
        clearbody kvs. clear - Hpk Hgen Hvals Hkt Hlen. revert ss vals Hpk Hgen Hvals Hlen.
        induction keys as [|k keys IH]; intros ss vals Hpk Hgen Hvals Hlen.
        * destruct ss; [constructor | discriminate].
        * destruct ss as [|[[kt v] sep] ss']; [discriminate|]. cbn [map fst snd] in Hpk. injection Hpk as Hkt1 Hv1 Hrest.
          destruct vals as [|e vals']; [discriminate|].
          cbn [forallb] in Hkt. apply andb_true_iff in Hkt as [Hk1 Hk2].
          inversion Hvals as [|? ? [H1 H2] Hvals']; subst.
          destruct (Hgen 0%nat k eq_refl) as (e0 & He0 & Hl0). cbn [nth_error] in He0. inversion He0; subst e0.
          cbn [combine map]. constructor.
          -- cbn [fst snd]. rewrite Hl0. split; [exact H1|]. split; [exact H2|]. apply key_text_spec, Hk1.
          -- apply (IH Hk2 ss' vals'); auto.
             intros i k' Hi. destruct (Hgen (S i) k' Hi) as (e' & He' & Hl'). exists e'. split; auto.
      + exact O2.
      + rewrite map_fst_combine by (rewrite map_length; exact Hlen). exact Hnd.
  Qed.
End MapExpr.

(* ====================================================================== *)
(* calls: name arg arg ...                                                 *)
(* ====================================================================== *)
Section Calls.
  Variable E : env.
  Hypothesis NT : no_tyerr E.

  (* what ends an argument list: ")" "]" end of line / input *)
  Definition list_end (t : token) : Prop :=
    match ttype t with T_RPAREN | T_RBRACKET | T_EOF | T_NL | T_COMMENT => True | _ => False end.

  Lemma list_end_stop t : list_end t -> stop_tok true lowestPrec t.
  Proof.
    unfold list_end, stop_tok. destruct (ttype t) eqn:T; try contradiction; intros _;
      first [right; left; reflexivity | right; right; rewrite ?rparen_lowest, ?rbracket_lowest; apply Nat.le_refl].
  Qed.

  Definition more_args (r : list (list token)) : list token := flat_map (fun x => mk T_WS :: x) r.

  Lemma pop_wss_ws st b w' rest' :
    rest st = mk T_WS :: rest' -> wss st = b :: false :: w' -> wsish (look0 rest') = false ->
    rest (pop_wss st) = rest' /\ wss (pop_wss st) = false :: w' /\ errs (pop_wss st) = errs st.
  Proof.
    intros Hr Hw Hn. unfold pop_wss.
    set (st1 := {| prev := prev st; rest := rest st; peek := peek st; wss := tl (wss st); errs := errs st; used := used st |}).
    assert (W1 : wss st1 = false :: w') by (unfold st1; cbn; rewrite Hw; reflexivity).
    assert (C : negb (is_wss st1) && is_ws (cur st1) = true).
    { unfold is_wss, cur. rewrite W1. unfold st1; cbn. rewrite Hr. reflexivity. }
    rewrite C. destruct (advance_plain st1 (mk T_WS) rest') as (A1 & A2 & A3); auto.
    rewrite A1, A2, A3, W1. auto.
  Qed.

  (* parseExprList: the cursor is at the first argument (or at the end) *)
  Lemma expr_list_loop f : forall args trees acc st rest0 fuel outer,
    Forall2 (fun a t => RT E true a t /\ head_ok a) args trees ->
    rest st = (match args with [] => [] | a :: r => a ++ more_args r end) ++ rest0 ->
    wss st = false :: outer ->
    list_end (look0 rest0) ->
    (forall a, In a args -> 2 * List.length a <= f) ->
    List.length args < fuel ->
    exists st', parse_expr_list (parse_expr E f) fuel acc st = Some (Some (rev acc ++ trees), st') /\ same3 st st' rest0.
  Proof.
    induction args as [|a r IH]; intros trees acc st rest0 fuel outer HF Hr Hw Hend Hf Hfuel.
    - inversion HF; subst. cbn [app] in Hr. destruct fuel as [|fu]; [simpl in Hfuel; lia|]. cbn [parse_expr_list].
      unfold cur_t, cur, is_at_eol, cur_t, cur. rewrite Hr. unfold list_end in Hend.
      exists st. rewrite app_nil_r.
      destruct (ttype (look0 rest0)) eqn:T; try contradiction; cbn [is_eol]; (split; [reflexivity | repeat split; exact Hr]).
    - inversion HF as [|? t ? trees' [Hrt Hhd] HF']; subst.
      destruct fuel as [|fu]; [simpl in Hfuel; lia|]. cbn [parse_expr_list].
      destruct a as [|t0 a']; [contradiction|].
      set (tail := more_args r ++ rest0).
      assert (Hr1 : rest st = (t0 :: a') ++ tail) by (rewrite Hr; unfold tail; rewrite <- app_assoc; reflexivity).
      assert (Hcur : cur_t st = ttype t0) by (unfold cur_t, cur; rewrite Hr1; reflexivity).
      assert (Heol : is_at_eol st = false).
      { unfold is_at_eol. rewrite Hcur. cbn [head_ok] in Hhd. unfold is_eol. destruct (ttype t0); try contradiction; reflexivity. }
      rewrite Hcur, Heol.
      assert (Hstop : stop_tok true lowestPrec (look0 tail)).
      { unfold tail. destruct r as [|a2 r2]; [cbn [more_args flat_map app]; apply list_end_stop, Hend|].
        cbn [more_args flat_map app look0 hd]. left. split; reflexivity. }
      destruct (Hrt (push_wss true st) tail f) as (st1 & P1 & Q1 & Q2 & Q3); auto.
      { intro; discriminate. }
      { apply (Hf (t0 :: a')). left. reflexivity. }
      unfold parse_expr_wss. rewrite P1. cbn [ret].
      (* back in the argument list: skip the separating blank *)
      assert (Hstep : exists st2, advance_if_ws (pop_wss st1) = st2 /\
                rest st2 = (match r with [] => [] | a2 :: r2 => a2 ++ more_args r2 end) ++ rest0 /\
                wss st2 = false :: outer /\ errs st2 = errs st).
      { destruct r as [|a2 r2].
        - unfold tail in Q1. cbn [more_args flat_map app] in Q1.
          destruct (pop_wss_nop st1 true (false :: outer)) as (A1 & A2 & A3).
          { rewrite Q2. cbn. rewrite Hw. reflexivity. }
          { intros _. rewrite Q1. unfold list_end in Hend. unfold is_ws. destruct (ttype (look0 rest0)); try contradiction; reflexivity. }
          exists (pop_wss st1). split.
          + unfold advance_if_ws. assert (C : is_ws (cur (pop_wss st1)) = false).
            { unfold cur. rewrite A1, Q1. unfold list_end in Hend. unfold is_ws. destruct (ttype (look0 rest0)); try contradiction; reflexivity. }
            rewrite C. reflexivity.
          + rewrite A1, A2, A3, Q1, Q3. auto.
        - inversion HF' as [|? ? ? ? [_ Hh2] _]; subst.
          unfold tail in Q1. cbn [more_args flat_map] in Q1. fold (more_args r2) in Q1. rewrite <- app_assoc in Q1. cbn [app] in Q1.
          destruct a2 as [|t2 a2']; [contradiction|].
          assert (Hn2 : wsish (look0 (((t2 :: a2') ++ more_args r2) ++ rest0)) = false).
          { cbn [app look0 hd]. cbn [head_ok] in Hh2. unfold wsish. destruct (ttype t2); try contradiction; reflexivity. }
          destruct (pop_wss_ws st1 true outer (((t2 :: a2') ++ more_args r2) ++ rest0)) as (A1 & A2 & A3); auto.
          { rewrite Q1. rewrite <- app_assoc. reflexivity. }
          { rewrite Q2. cbn. rewrite Hw. reflexivity. }
          exists (pop_wss st1). split.
          + unfold advance_if_ws. assert (C : is_ws (cur (pop_wss st1)) = false).
            { unfold cur. rewrite A1. cbn [app look0 hd]. cbn [head_ok] in Hh2. unfold is_ws. destruct (ttype t2); try contradiction; reflexivity. }
            rewrite C. reflexivity.
          + rewrite A1, A2, A3, Q3. auto. }
      destruct Hstep as (st2 & <- & R2 & W2 & E2).
      destruct (IH trees' (t :: acc) (advance_if_ws (pop_wss st1)) rest0 fu outer HF' R2 W2 Hend) as (st' & P3 & F1 & F2 & F3).
      { intros x Hx. apply Hf. right. exact Hx. }
      { simpl in Hfuel. lia. }
      exists st'. split.
      + cbn [head_ok] in Hhd. destruct (ttype t0); try contradiction; rewrite P3; cbn [rev]; rewrite <- app_assoc; reflexivity.
      + repeat split; auto; [rewrite F2, W2, Hw | rewrite F3, E2]; reflexivity.
  Qed.
End Calls.

Lemma Forall2_len {A B} (R : A -> B -> Prop) l l' : Forall2 R l l' -> List.length l = List.length l'.
Proof. induction 1; simpl; congruence. Qed.

Section Calls2.
  Variable E : env.
  Hypothesis NT : no_tyerr E.

  Lemma advance_exact st t rest' :
    rest st = t :: rest' -> (is_wss st = true \/ is_ws (look0 rest') = false) ->
    rest (advance st) = rest' /\ wss (advance st) = wss st /\ errs (advance st) = errs st.
  Proof.
    intros Hr Hc. unfold advance. set (s1 := advance_wss st).
    assert (R1 : rest s1 = rest') by (unfold s1; rewrite rest_advance_wss, Hr; reflexivity).
    assert (W1 : is_wss s1 = is_wss st) by reflexivity.
    rewrite W1. destruct (is_wss st) eqn:W; [auto|].
    destruct Hc as [Hc|Hc]; [discriminate|].
    unfold advance_if_ws. assert (C : is_ws (cur s1) = false) by (unfold cur; rewrite R1; exact Hc).
    rewrite C. destruct (is_ws (peek s1)); auto.
  Qed.

  Lemma advance_skip_ws st t rest' :
    is_wss st = false -> rest st = t :: mk T_WS :: rest' -> wsish (look0 rest') = false ->
    rest (advance st) = rest' /\ wss (advance st) = wss st /\ errs (advance st) = errs st.
  Proof.
    intros W Hr Hn. destruct (advance_run st t [mk T_WS] rest' Hr eq_refl Hn) as (run' & A1 & A2 & A3 & A4 & A5).
    (* outside a whitespace-sensitive context the blank is skipped *)
    unfold advance in *. set (s1 := advance_wss st) in *.
    assert (R1 : rest s1 = mk T_WS :: rest') by (unfold s1; rewrite rest_advance_wss, Hr; reflexivity).
    assert (W1 : is_wss s1 = false) by exact W.
    rewrite W1 in *. unfold advance_if_ws in *.
    assert (C : is_ws (cur s1) = true) by (unfold cur; rewrite R1; reflexivity).
    rewrite C in *. set (s2 := advance_wss s1) in *.
    assert (R2 : rest s2 = rest') by (unfold s2; rewrite rest_advance_wss, R1; reflexivity).
    destruct (is_ws (peek s2)); cbn [rest wss errs]; auto.
  Qed.

  (* parseFuncCall at top level: name arg arg ... up to the end of the list *)
  Lemma func_call_top f fuel name args trees st rest0 outer :
    func_of E name = Some false ->
    arity_wrong E name (List.length args) = false ->
    Forall2 (fun a t => RT E true a t /\ head_ok a) args trees ->
    rest st = ident_tok name :: more_args args ++ rest0 ->
    wss st = false :: outer ->
    list_end (look0 rest0) ->
    (forall a, In a args -> 2 * List.length a <= f) ->
    List.length args < fuel ->
    exists st', parse_toplevel E (parse_expr E f) fuel st = Some (Some (TCall name trees), st') /\ same3 st st' rest0.
  Proof.
    intros Hfn Har HF Hr Hw Hend Hf Hfuel.
    unfold parse_toplevel. unfold cur_t, cur. rewrite Hr. cbn [look0 hd ttype tlit ident_tok]. rewrite Hfn.
    unfold parse_func_call. cbn [orb]. unfold cur. rewrite Hr. cbn [look0 hd tlit ident_tok].
    assert (Hlen : List.length trees = List.length args) by (symmetry; eapply Forall2_len; eauto).
    assert (Wf : is_wss st = false) by (unfold is_wss; rewrite Hw; reflexivity).
    assert (Hadv : rest (advance st) = (match args with [] => [] | a :: r => a ++ more_args r end) ++ rest0
                   /\ wss (advance st) = wss st /\ errs (advance st) = errs st).
    { destruct args as [|a r].
      - cbn [more_args flat_map app] in Hr |- *. apply (advance_exact st _ rest0 Hr). right.
        unfold list_end in Hend. unfold is_ws. destruct (ttype (look0 rest0)); try contradiction; reflexivity.
      - inversion HF as [|? ? ? ? [_ Hh] _]; subst. cbn [more_args flat_map] in Hr. fold (more_args r) in Hr.
        destruct a as [|t0 a']; [contradiction|].
        apply (advance_skip_ws st (ident_tok name)); [exact Wf | |].
        + rewrite Hr. cbn [app]. rewrite <- !app_assoc. reflexivity.
        + cbn [app look0 hd]. cbn [head_ok] in Hh. unfold wsish. destruct (ttype t0); try contradiction; reflexivity. }
    destruct Hadv as (A1 & A2 & A3).
    destruct (expr_list_loop E f args trees [] (advance st) rest0 fuel outer HF A1) as (st' & P & Q1 & Q2 & Q3); auto; try (rewrite A2; exact Hw).
    rewrite P. cbn [rev app]. rewrite Hlen, Har. unfold tyerr. rewrite NT.
    eexists. split; [reflexivity|]. repeat split; auto; [rewrite Q2 | rewrite Q3]; auto.
  Qed.

  (* parseFuncCall as the call statement uses it (isTopLevel = true): arguments are parsed whether or
     not the function is niladic *)
  Lemma func_call_stmt f fuel niladic name args trees st rest0 outer :
    arity_wrong E name (List.length args) = false ->
    Forall2 (fun a t => RT E true a t /\ head_ok a) args trees ->
    rest st = ident_tok name :: more_args args ++ rest0 ->
    wss st = false :: outer ->
    list_end (look0 rest0) ->
    (forall a, In a args -> 2 * List.length a <= f) ->
    List.length args < fuel ->
    exists st', parse_func_call E (parse_expr E f) fuel true niladic st = Some (Some (TCall name trees), st') /\ same3 st st' rest0.
  Proof.
    intros Har HF Hr Hw Hend Hf Hfuel.
    unfold parse_func_call. cbn [orb]. unfold cur. rewrite Hr. cbn [look0 hd tlit ident_tok].
    assert (Hlen : List.length trees = List.length args) by (symmetry; eapply Forall2_len; eauto).
    assert (Wf : is_wss st = false) by (unfold is_wss; rewrite Hw; reflexivity).
    assert (Hadv : rest (advance st) = (match args with [] => [] | a :: r => a ++ more_args r end) ++ rest0
                   /\ wss (advance st) = wss st /\ errs (advance st) = errs st).
    { destruct args as [|a r].
      - cbn [more_args flat_map app] in Hr |- *. apply (advance_exact st _ rest0 Hr). right.
        unfold list_end in Hend. unfold is_ws. destruct (ttype (look0 rest0)); try contradiction; reflexivity.
      - inversion HF as [|? ? ? ? [_ Hh] _]; subst. cbn [more_args flat_map] in Hr. fold (more_args r) in Hr.
        destruct a as [|t0 a']; [contradiction|].
        apply (advance_skip_ws st (ident_tok name)); [exact Wf | |].
        + rewrite Hr. cbn [app]. rewrite <- !app_assoc. reflexivity.
        + cbn [app look0 hd]. cbn [head_ok] in Hh. unfold wsish. destruct (ttype t0); try contradiction; reflexivity. }
    destruct Hadv as (A1 & A2 & A3).
    destruct (expr_list_loop E f args trees [] (advance st) rest0 fuel outer HF A1) as (st' & P & Q1 & Q2 & Q3); auto; try (rewrite A2; exact Hw).
    rewrite P. cbn [rev app]. rewrite Hlen, Har. unfold tyerr. rewrite NT.
    eexists. split; [reflexivity|]. repeat split; auto; [rewrite Q2 | rewrite Q3]; auto.
  Qed.

  (* "(" name arg ... ")" as a whole expression *)
  Theorem group_call_rt w name args trees :
    func_of E name = Some false ->
    arity_wrong E name (List.length args) = false ->
    Forall2 (fun a t => RT E true a t /\ head_ok a) args trees ->
    RT E w (mk T_LPAREN :: ident_tok name :: more_args args ++ [mk T_RPAREN]) (TGroup (TCall name trees)).
  Proof.
    intros Hfn Har HF st rest0 fuel Hw Hr Hws Hstop Hfuel.
    assert (Hargs : forall a, In a args -> List.length a <= List.length (more_args args)).
    { clear. induction args as [|x r IH]; intros a H; [contradiction|]. cbn [more_args flat_map]. fold (more_args r).
      simpl. rewrite app_length. destruct H as [->|H]; [lia|]. specialize (IH a H). lia. }
    assert (Hn : List.length args <= List.length (more_args args)).
    { clear. induction args as [|x r IH]; [simpl; lia|]. cbn [more_args flat_map]. fold (more_args r). simpl. rewrite app_length. lia. }
    assert (Hlen : List.length (mk T_LPAREN :: ident_tok name :: more_args args ++ [mk T_RPAREN]) = S (S (List.length (more_args args) + 1))).
    { cbn [List.length]. rewrite app_length. simpl. lia. }
    rewrite Hlen in Hfuel.
    destruct fuel as [|f]; [lia|]. rewrite parse_expr_S.
    assert (Hr2 : rest st = mk T_LPAREN :: ident_tok name :: more_args args ++ mk T_RPAREN :: rest0).
    { rewrite Hr. cbn [app]. rewrite <- !app_assoc. reflexivity. }
    assert (Hcur : cur_t st = T_LPAREN) by (unfold cur_t, cur; rewrite Hr2; reflexivity).
    unfold parse_prefix. rewrite Hcur. unfold parse_grouped.
    destruct (advance_exact (push_wss false st) (mk T_LPAREN) (ident_tok name :: more_args args ++ mk T_RPAREN :: rest0)) as (A1 & A2 & A3); auto.
    destruct (func_call_top f f name args trees (advance (push_wss false st)) (mk T_RPAREN :: rest0) (wss st)) as (st2 & P & Q1 & Q2 & Q3); auto.
    { reflexivity. }
    { intros a Ha. specialize (Hargs a Ha). lia. }
    { lia. }
    rewrite P.
    assert (A : assert_token T_RPAREN st2 = (true, st2)).
    { unfold assert_token, cur_t, cur. rewrite Q1. reflexivity. }
    rewrite A.
    assert (W4 : wss (advance_wss st2) = false :: wss st) by (cbn; rewrite Q2, A2; reflexivity).
    assert (R4 : rest (advance_wss st2) = rest0) by (rewrite rest_advance_wss, Q1; reflexivity).
    destruct (pop_wss_nop (advance_wss st2) false (wss st) W4) as (D1 & D2 & D3).
    { rewrite R4. intro Hh. apply Hws. unfold is_wss in Hw. rewrite Hh in Hw. symmetry. exact Hw. }
    destruct f as [|k]; [lia|]. unfold ret.
    rewrite expr_loop_stop.
    - eexists. split; [reflexivity|]. repeat split.
      + rewrite D1. exact R4.
      + exact D2.
      + rewrite D3. cbn. rewrite Q3, A3. reflexivity.
    - unfold cur. rewrite D1, R4. assert (Wf : is_wss (pop_wss (advance_wss st2)) = w).
      { unfold is_wss. rewrite D2. exact Hw. }
      rewrite Wf. exact Hstop.
  Qed.

  (* a function without parameters, written as a bare name, as a whole expression *)
  Theorem niladic_call_rt w name :
    func_of E name = Some true ->
    RT E w [ident_tok name] (TCall name []).
  Proof.
    intros Hfn st rest0 fuel Hw Hr Hws Hstop Hfuel. cbn [List.length] in Hfuel.
    destruct fuel as [|f]; [lia|]. rewrite parse_expr_S.
    assert (Hr2 : rest st = ident_tok name :: rest0) by exact Hr.
    unfold parse_prefix, cur_t, cur. rewrite Hr2. cbn [look0 hd ttype ident_tok].
    unfold parse_ident_expr, cur. rewrite Hr2. cbn [look0 hd tlit ident_tok]. rewrite Hfn.
    unfold parse_func_call. cbn [orb negb]. unfold cur. rewrite Hr2. cbn [look0 hd tlit ident_tok].
    destruct (advance_exact st (ident_tok name) rest0 Hr2) as (A1 & A2 & A3).
    { destruct w; [left; exact Hw | right; apply Hws; reflexivity]. }
    destruct f as [|k]; [lia|]. unfold ret. rewrite expr_loop_stop.
    - eexists. split; [reflexivity|]. repeat split; auto.
    - unfold cur. rewrite A1. assert (Wf : is_wss (advance st) = w) by (unfold is_wss; rewrite A2; exact Hw).
      rewrite Wf. exact Hstop.
  Qed.
End Calls2.

(* ====================================================================== *)
(* closure: expressions built from the layered fragment, array / map       *)
(* literals, parenthesised calls and niladic calls                          *)
(* ====================================================================== *)
Section Closure.
  Variable E : env.
  Hypothesis NT : no_tyerr E.
  Hypothesis Hfix : e_fix_slice E = true.
  Variable fx : fixes.

  (* the fragment of the layered grammar, with its side conditions; [w]: in a whitespace-sensitive list *)
  Definition base_ok (w : bool) (e : fexpr) : Prop :=
    frag e = true /\ prec_ok e = true /\ lex_ok e = true /\ (w = true -> tight e = true) /\
    Forall (var_in_scope E) (vars_of e).

  (* An expression that is, as a whole,
       - an expression of the layered fragment, or
       - an array / map literal (single- or multi-line) whose items are such expressions, or
       - a parenthesised call  (f a b ...)  whose arguments are such expressions, or
       - a call of a function without parameters written as a bare name.
     Literals and calls are NOT allowed as operands of operators / index / dot here (the layered
     grammar of PrattProofs.v has no production for them). *)
  Fixpoint item_ok (w : bool) (e : fexpr) {struct e} : Prop :=
    let all := fix all (l : list fexpr) : Prop := match l with [] => True | x :: t => item_ok true x /\ all t end in
    match e with
    | FAny e' => item_ok w e'
    | FArr items els => wf_expr (FArr items els) = true /\ all els
    | FMap items keys vals => wf_expr (FMap items keys vals) = true /\ forallb key_text keys = true /\ all vals
    | FGroup (FCall n args) =>
        ident_text n = true /\ func_of E n = Some false /\ arity_wrong E n (List.length args) = false /\ all args
    | FCall n [] => ident_text n = true /\ func_of E n = Some true
    | _ => base_ok w e
    end.

  Definition RTH (w : bool) (lvl : nat) (e : fexpr) : Prop :=
    RT E w (toks_of_pieces (fmt_expr fx lvl e)) (fexpr_tree e) /\ head_ok (toks_of_pieces (fmt_expr fx lvl e)).

  Lemma all_Forall (P : fexpr -> Prop) l :
    (fix all (l : list fexpr) : Prop := match l with [] => True | x :: t => P x /\ all t end) l <-> Forall P l.
  Proof. induction l as [|x t IH]; split; intro H; [constructor | exact I | destruct H; constructor; tauto | inversion H; subst; tauto]. Qed.

  Lemma base_rt w lvl e : base_ok w e -> RTH w lvl e.
  Proof.
    intros (Hf & Hp & Hl & Ht & Hv). split.
    - intros st rest0 fuel Hw Hr Hws Hstop Hfuel.
      destruct (format_parse_roundtrip E fx lvl e st rest0 fuel Hf Hp Hl NT Hfix Hv Hr) as (st' & P & Q); auto.
      + rewrite Hw. exact Ht.
      + rewrite Hw. exact Hws.
      + rewrite Hw. exact Hstop.
      + exists st'. split; [exact P | exact Q].
    - pose proof (render_to_lexp fx e false lvl Hf Hp Hl) as Hren. cbn [wsl] in Hren. rewrite app_nil_r in Hren.
      rewrite <- Hren. destruct (render_first (to_lexp false e)) as [r ->]. cbn [head_ok].
      pose proof (first_tok_prefix (to_lexp false e)) as Hpt. unfold prefix_tt in Hpt.
      repeat (destruct Hpt as [H|Hpt]; [rewrite H; exact I|]). rewrite Hpt; exact I.
  Qed.

  Lemma toks_call lvl n args : ident_text n = true ->
    toks_of_pieces (fmt_expr fx lvl (FCall n args)) = ident_tok n :: more_args (map (fun a => toks_of_pieces (fmt_expr fx lvl a)) args).
  Proof.
    intro Hn. cbn [fmt_expr]. change (T n :: ?x) with ([T n] ++ x).
    cbn [toks_of_pieces flat_map tok_of_piece app]. rewrite (ident_text_spec n Hn). f_equal.
    induction args as [|a r IH]; [reflexivity|]. cbn [flat_map map more_args].
    fold (toks_of_pieces (flat_map (fun a0 => Sp :: fmt_expr fx lvl a0) r)).
    change (Sp :: fmt_expr fx lvl a) with ([Sp] ++ fmt_expr fx lvl a).
    rewrite <- app_assoc. unfold toks_of_pieces at 1. rewrite flat_map_app. cbn [flat_map tok_of_piece app].
    fold (toks_of_pieces (fmt_expr fx lvl a ++ flat_map (fun a0 => Sp :: fmt_expr fx lvl a0) r)).
    rewrite toks_app. unfold toks_of_pieces at 2. rewrite IH. reflexivity.
  Qed.

  Definition Pitem (e : fexpr) : Prop :=
    (forall w lvl, item_ok w e -> RTH w lvl e) /\
    match e with
    | FCall _ args => Forall (fun a => forall lvl, item_ok true a -> RTH true lvl a) args
    | _ => True
    end.

  Lemma item_rt_aux e : Pitem e.
  Proof.
    induction e as [n|b t|v q|b|e IH|items els IH|items keys vals IH|n args IH|op r IH|op w0 l r IHl IHr|l i IHl IHi|l s e IHl IHs IHe|l k IHl|l t IHl|e IH] using fexpr_ind';
      (split; [|try exact I]); try (intros w lvl Hok; apply base_rt; exact Hok).
    - (* Any *) intros w lvl Hok. cbn [item_ok] in Hok. apply (proj1 IH w lvl Hok).
    - (* array literal *)
      intros w lvl [Hwf Hall]. apply all_Forall in Hall. split.
      + apply (array_expr_rt E NT fx w lvl items els Hwf).
        apply Forall_forall. intros x Hx. apply (proj1 (proj1 (Forall_forall _ _) IH x Hx) true (S lvl)).
        apply (proj1 (Forall_forall _ _) Hall x Hx).
      + cbn [fmt_expr]. unfold fmt_array. destruct (format_multiline items); exact I.
    - (* map literal *)
      intros w lvl (Hwf & Hk & Hall). apply all_Forall in Hall. split.
      + apply (map_expr_rt E NT fx w lvl items keys vals Hwf Hk).
        apply Forall_forall. intros x Hx. apply (proj1 (proj1 (Forall_forall _ _) IH x Hx) true (S lvl)).
        apply (proj1 (Forall_forall _ _) Hall x Hx).
      + cbn [fmt_expr]. unfold fmt_map. destruct (format_multiline items); exact I.
    - (* call: only the niladic form is an item by itself *)
      intros w lvl Hok. destruct args as [|a r]; [|apply base_rt; exact Hok].
      destruct Hok as [Hn Hfn]. split.
      + rewrite (toks_call lvl n [] Hn). cbn [map more_args flat_map fexpr_tree]. apply niladic_call_rt; auto.
      + rewrite (toks_call lvl n [] Hn). exact I.
    - (* the arguments of a call *)
      apply Forall_forall. intros a Ha lvl Hok. apply (proj1 (proj1 (Forall_forall _ _) IH a Ha) true lvl Hok).
    - (* group: a parenthesised call, or the layered fragment *)
      intros w lvl Hok. destruct e as [| | | | | | |n args| | | | | | |]; try (apply base_rt; exact Hok).
      destruct Hok as (Hn & Hfn & Har & Hall). apply all_Forall in Hall. destruct IH as [_ IHargs].
      assert (Htoks : toks_of_pieces (fmt_expr fx lvl (FGroup (FCall n args)))
                      = mk T_LPAREN :: ident_tok n :: more_args (map (fun a => toks_of_pieces (fmt_expr fx lvl a)) args) ++ [mk T_RPAREN]).
      { cbn [fmt_expr]. rewrite !toks_app. change (T n :: flat_map (fun a => Sp :: fmt_expr fx lvl a) args) with (fmt_expr fx lvl (FCall n args)).
        rewrite (toks_call lvl n args Hn). reflexivity. }
      split.
      + rewrite Htoks. cbn [fexpr_tree].
        apply group_call_rt; auto.
        * rewrite map_length. exact Har.
        * clear - IHargs Hall. induction args as [|a r IHr]; [constructor|].
          inversion IHargs; inversion Hall; subst. cbn [map]. constructor; [|apply IHr; auto].
          match goal with H : forall lvl, item_ok true a -> RTH true lvl a |- _ => apply H; assumption end.
      + rewrite Htoks. exact I.
  Qed.

  (* such an expression never starts with the name of a function that takes arguments *)
  Lemma base_head_not_call w lvl e t0 ts : base_ok w e ->
    toks_of_pieces (fmt_expr fx lvl e) = t0 :: ts -> ttype t0 = T_IDENT -> func_of E (tlit t0) <> Some false.
  Proof.
    intros (Hf & Hp & Hl & _ & Hv) Ht Hid.
    pose proof (render_to_lexp fx e false lvl Hf Hp Hl) as Hren. cbn [wsl] in Hren. rewrite app_nil_r in Hren.
    rewrite <- Hren in Ht. destruct (render_first (to_lexp false e)) as [r0 Hr0]. rewrite Hr0 in Ht. inversion Ht; subst t0.
    rewrite (first_tok_not_call E _ (atoms_to_lexp E e false Hf Hp Hl Hv) Hid). discriminate.
  Qed.

  Lemma item_head_not_call e : forall w lvl t0 ts, item_ok w e ->
    toks_of_pieces (fmt_expr fx lvl e) = t0 :: ts -> ttype t0 = T_IDENT -> func_of E (tlit t0) <> Some false.
  Proof.
    induction e as [n|b t|v q|b|e IH|items els IH|items keys vals IH|n args IH|op r IH|op w0 l r IHl IHr|l i IHl IHi|l s e IHl IHs IHe|l k IHl|l t IHl|e IH] using fexpr_ind';
      intros w lvl t0 ts Hok Ht Hid; try (apply (base_head_not_call w lvl _ t0 ts Hok Ht Hid)).
    - cbn [item_ok fmt_expr] in *. eapply IH; eauto.
    - cbn [fmt_expr] in Ht. unfold fmt_array in Ht. destruct (format_multiline items); inversion Ht; subst; discriminate Hid.
    - cbn [fmt_expr] in Ht. unfold fmt_map in Ht. destruct (format_multiline items); inversion Ht; subst; discriminate Hid.
    - destruct args as [|a r].
      + destruct Hok as [Hn Hfn]. rewrite (toks_call lvl n [] Hn) in Ht. inversion Ht; subst. cbn [tlit ident_tok]. rewrite Hfn. discriminate.
      + destruct Hok as (Hf & _). discriminate Hf.
    - cbn [fmt_expr] in Ht. inversion Ht; subst. discriminate Hid.
  Qed.

  (* C06, list level: every such expression round-trips as a whole, as a list item (w = true) or not *)
  Theorem item_rt w lvl e : item_ok w e -> RTH w lvl e.
  Proof. apply (proj1 (item_rt_aux e)). Qed.

  (* expression positions parsed by parseTopLevelExpr: additionally a call with arguments
     f a b ...  up to the end of the line (or a closing bracket) *)
  Theorem toplevel_call_rt lvl n args st rest0 fuel outer :
    ident_text n = true -> func_of E n = Some false -> arity_wrong E n (List.length args) = false ->
    Forall (item_ok true) args ->
    rest st = toks_of_pieces (fmt_expr fx lvl (FCall n args)) ++ rest0 ->
    wss st = false :: outer -> list_end (look0 rest0) ->
    2 * List.length (toks_of_pieces (fmt_expr fx lvl (FCall n args))) <= fuel ->
    exists st', parse_toplevel E (parse_expr E fuel) fuel st = Some (Some (fexpr_tree (FCall n args)), st') /\ same3 st st' rest0.
  Proof.
    intros Hn Hfn Har Hall Hr Hw Hend Hfuel. rewrite (toks_call lvl n args Hn) in Hr, Hfuel. cbn [fexpr_tree].
    set (ats := map (fun a => toks_of_pieces (fmt_expr fx lvl a)) args) in *.
    assert (Hargs : forall a, In a ats -> List.length a <= List.length (more_args ats)).
    { clear. induction ats as [|x r IH]; intros a H; [contradiction|]. cbn [more_args flat_map]. fold (more_args r).
      simpl. rewrite app_length. destruct H as [->|H]; [lia|]. specialize (IH a H). lia. }
    assert (Hnn : List.length ats <= List.length (more_args ats)).
    { clear. induction ats as [|x r IH]; [simpl; lia|]. cbn [more_args flat_map]. fold (more_args r). simpl. rewrite app_length. lia. }
    cbn [List.length] in Hfuel.
    apply (func_call_top E NT fuel fuel n ats (map fexpr_tree args) st rest0 outer); auto.
    - unfold ats. rewrite map_length. exact Har.
    - unfold ats. clear - Hall NT Hfix. induction args as [|a r IH]; [constructor|]. inversion Hall; subst. cbn [map].
      constructor; [apply item_rt; assumption | apply IH; assumption].
    - intros a Ha. specialize (Hargs a Ha). lia.
    - lia.
  Qed.
End Closure.
