(* SemIsoBase.v — invariance of the evaluator of Sem.v under a renaming of heap
   locations, in the presence of garbage: the simulation relation, the
   relational Hoare judgment [sim] and the primitives of the state monad.

   [f : loc -> option loc] is a partial injection from the cells of the first
   state to the cells of the second.  Cells outside its domain / range are not
   constrained at all (garbage).  Related cells hold related values: basic
   values equal, any / array / map cells componentwise through f. *)
From Coq Require Import ZArith NArith PArith List String Bool Floats FMapPositive Lia.
From EvyV Require Import Base Num Ast Omap Sem SemStoreBase.
Import ListNotations.
Local Open Scope positive_scope.

(* ====================================================================== *)
(* 1. Location maps and the relations they induce                          *)
(* ====================================================================== *)
Definition lmap := loc -> option loc.
Definition ext (f f' : lmap) : Prop := forall a b, f a = Some b -> f' a = Some b.
Definition inj (f : lmap) : Prop := forall a a' b, f a = Some b -> f a' = Some b -> a = a'.

Lemma ext_refl f : ext f f. Proof. intros a b H; exact H. Qed.
Lemma ext_trans f g h : ext f g -> ext g h -> ext f h.
Proof. intros A B a b H. apply B, A, H. Qed.

(* relations indexed by the location map, monotone in it *)
Class Mono {A} (R : lmap -> A -> A -> Prop) : Prop :=
  mono : forall f f' a b, ext f f' -> R f a b -> R f' a b.

Definition lrel : lmap -> loc -> loc -> Prop := fun f a b => f a = Some b.
Definition eqrel (A : Type) : lmap -> A -> A -> Prop := fun _ a b => a = b.
Definition listrel {A} (R : lmap -> A -> A -> Prop) : lmap -> list A -> list A -> Prop :=
  fun f => Forall2 (R f).
Definition optrel {A} (R : lmap -> A -> A -> Prop) : lmap -> option A -> option A -> Prop :=
  fun f a b => match a, b with Some x, Some y => R f x y | None, None => True | _, _ => False end.
Definition pairrel {A B} (RA : lmap -> A -> A -> Prop) (RB : lmap -> B -> B -> Prop)
  : lmap -> A * B -> A * B -> Prop :=
  fun f p q => RA f (fst p) (fst q) /\ RB f (snd p) (snd q).

Global Instance Mono_lrel : Mono lrel.
Proof. intros f f' a b E H. apply E, H. Qed.
Global Instance Mono_eqrel A : Mono (eqrel A).
Proof. intros f f' a b E H. exact H. Qed.
Global Instance Mono_listrel {A} (R : lmap -> A -> A -> Prop) `{Mono A R} : Mono (listrel R).
Proof. intros f f' a b E F. induction F; constructor; eauto; try (eapply mono; eauto). Qed.
Global Instance Mono_optrel {A} (R : lmap -> A -> A -> Prop) `{Mono A R} : Mono (optrel R).
Proof. intros f f' [a|] [b|] E F; simpl in *; auto. eapply mono; eauto. Qed.
Global Instance Mono_pairrel {A B} (RA : lmap -> A -> A -> Prop) (RB : lmap -> B -> B -> Prop)
       `{Mono A RA} `{Mono B RB} : Mono (pairrel RA RB).
Proof. intros f f' a b E [F G]. split; eapply mono; eauto. Qed.

(* binding (name, cell) / (key, cell): same name, related cells *)
Definition bindrel : lmap -> str * loc -> str * loc -> Prop := pairrel (eqrel str) lrel.
Definition framerel : lmap -> frame -> frame -> Prop := listrel bindrel.
Definition envrel : lmap -> env -> env -> Prop := listrel framerel.
Definition lrels : lmap -> list loc -> list loc -> Prop := listrel lrel.

Global Instance Mono_bindrel : Mono bindrel. Proof. unfold bindrel; typeclasses eauto. Qed.
Global Instance Mono_framerel : Mono framerel. Proof. unfold framerel; typeclasses eauto. Qed.
Global Instance Mono_envrel : Mono envrel. Proof. unfold envrel; typeclasses eauto. Qed.
Global Instance Mono_lrels : Mono lrels. Proof. unfold lrels; typeclasses eauto. Qed.

Inductive hvrel (f : lmap) : hval -> hval -> Prop :=
| hr_num x : hvrel f (HNum x) (HNum x)
| hr_str x : hvrel f (HStr x) (HStr x)
| hr_bool x : hvrel f (HBool x) (HBool x)
| hr_any t i j : lrel f i j -> hvrel f (HAny t i) (HAny t j)
| hr_arr xs ys : lrels f xs ys -> hvrel f (HArr xs) (HArr ys)
| hr_map m1 m2 : order m1 = order m2 -> framerel f (pairs m1) (pairs m2) -> hvrel f (HMap m1) (HMap m2)
| hr_none : hvrel f HNone HNone.

Global Instance Mono_hvrel : Mono hvrel.
Proof.
  intros f f' a b E H. destruct H; constructor; auto; eapply mono; eauto.
Qed.

Inductive sigrel (f : lmap) : signal -> signal -> Prop :=
| sr_none : sigrel f SigNone SigNone
| sr_break : sigrel f SigBreak SigBreak
| sr_ret v1 v2 : optrel lrel f v1 v2 -> sigrel f (SigReturn v1) (SigReturn v2).
Global Instance Mono_sigrel : Mono sigrel.
Proof. intros f f' a b E H. destruct H; constructor. eapply mono; eauto. Qed.

Inductive rngrel (f : lmap) : ranger -> ranger -> Prop :=
| rr_step a b c : rngrel f (RgStep a b c) (RgStep a b c)
| rr_arr a1 a2 k : lrel f a1 a2 -> rngrel f (RgArr a1 k) (RgArr a2 k)
| rr_str s k : rngrel f (RgStr s k) (RgStr s k)
| rr_map m1 m2 todo : lrel f m1 m2 -> rngrel f (RgMap m1 todo) (RgMap m2 todo).
Global Instance Mono_rngrel : Mono rngrel.
Proof. intros f f' a b E H. destruct H; constructor; eapply mono; eauto. Qed.

(* ====================================================================== *)
(* 2. Isomorphic states                                                    *)
(* ====================================================================== *)
Record iso (f : lmap) (s1 s2 : state) : Prop := {
  iso_wf1 : wf s1;
  iso_wf2 : wf s2;
  iso_inj : inj f;
  iso_cells : forall a b, f a = Some b ->
              exists v1 v2, hget (st_heap s1) a = Some v1 /\ hget (st_heap s2) b = Some v2 /\ hvrel f v1 v2;
  iso_glob : framerel f (st_globals s1) (st_globals s2);
  iso_trace : st_trace s1 = st_trace s2;
  iso_stopped : st_stopped s1 = st_stopped s2;
  iso_stop_at : st_stop_at s1 = st_stop_at s2;
  (* the yield counters agree, or no stop request can ever come and they do not matter *)
  iso_yields : st_stop_at s1 = None \/ st_yields s1 = st_yields s2;
  iso_cay : st_check_after_yield s1 = st_check_after_yield s2;
  iso_input : st_input s1 = st_input s2;
  iso_total : st_total s1 = st_total s2;
  iso_fails : st_fails s1 = st_fails s2;
  iso_failfast : st_failfast s1 = st_failfast s2 }.

(* results: equal errors, related values *)
Definition rrel {A} (R : A -> A -> Prop) (r1 r2 : res A) : Prop :=
  match r1, r2 with
  | Ok a, Ok b => R a b
  | Er e1, Er e2 => e1 = e2
  | _, _ => False
  end.

(* the relational judgment: from f-isomorphic states the two computations end in
   f'-isomorphic states for an extension f' of f, with f'-related results *)
Definition sim {A} (f : lmap) (R : lmap -> A -> A -> Prop) (m1 m2 : M A) : Prop :=
  forall s1 s2, iso f s1 s2 ->
    exists f', ext f f' /\ iso f' (snd (m1 s1)) (snd (m2 s2)) /\ rrel (R f') (fst (m1 s1)) (fst (m2 s2)).

Lemma sim_ret {A} f (R : lmap -> A -> A -> Prop) a1 a2 : R f a1 a2 -> sim f R (ret a1) (ret a2).
Proof. intros H s1 s2 I. exists f. split; [apply ext_refl|]. split; auto. Qed.

Lemma sim_fail {A} f (R : lmap -> A -> A -> Prop) e : sim f R (fail e) (fail e).
Proof. intros s1 s2 I. exists f. split; [apply ext_refl|]. split; simpl; auto. Qed.
Lemma sim_crash {A} f (R : lmap -> A -> A -> Prop) w : sim f R (crash w) (crash w).
Proof. apply sim_fail. Qed.
Lemma sim_internal {A} f (R : lmap -> A -> A -> Prop) w : sim f R (internal w) (internal w).
Proof. apply sim_fail. Qed.

Lemma sim_bind {A B} f (RA : lmap -> A -> A -> Prop) (RB : lmap -> B -> B -> Prop)
      (m1 m2 : M A) (k1 k2 : A -> M B) :
  sim f RA m1 m2 ->
  (forall f' a1 a2, ext f f' -> RA f' a1 a2 -> sim f' RB (k1 a1) (k2 a2)) ->
  sim f RB (bindM m1 k1) (bindM m2 k2).
Proof.
  intros Hm Hk s1 s2 I. destruct (Hm s1 s2 I) as (f' & E & I' & Rr). unfold bindM.
  destruct (m1 s1) as [[a1|e1] t1], (m2 s2) as [[a2|e2] t2]; simpl in *; try contradiction.
  - destruct (Hk f' a1 a2 E Rr t1 t2 I') as (f'' & E' & I'' & Rr').
    exists f''. split; [eapply ext_trans; eauto|]. auto.
  - exists f'. auto.
Qed.

Lemma sim_conseq {A} f (R R' : lmap -> A -> A -> Prop) m1 m2 :
  (forall f' a b, R f' a b -> R' f' a b) -> sim f R m1 m2 -> sim f R' m1 m2.
Proof.
  intros H Hm s1 s2 I. destruct (Hm s1 s2 I) as (f' & E & I' & Rr). exists f'. split; auto. split; auto.
  destruct (fst (m1 s1)), (fst (m2 s2)); simpl in *; auto.
Qed.

(* a computation that reads only: same state, result by a function of the state *)
Lemma sim_pure {A} f (R : lmap -> A -> A -> Prop) (m1 m2 : M A) :
  (forall s1 s2, iso f s1 s2 -> snd (m1 s1) = s1 /\ snd (m2 s2) = s2 /\ rrel (R f) (fst (m1 s1)) (fst (m2 s2))) ->
  sim f R m1 m2.
Proof.
  intros H s1 s2 I. destruct (H s1 s2 I) as (E1 & E2 & Rr). exists f. split; [apply ext_refl|].
  rewrite E1, E2. auto.
Qed.

(* ---------- states that differ in fields other than heap and globals ---------- *)
Lemma iso_same_heap f s1 s2 t1 t2 :
  iso f s1 s2 ->
  st_heap t1 = st_heap s1 -> st_heap t2 = st_heap s2 ->
  st_globals t1 = st_globals s1 -> st_globals t2 = st_globals s2 ->
  st_trace t1 = st_trace t2 -> st_stopped t1 = st_stopped t2 -> st_stop_at t1 = st_stop_at t2 ->
  (st_stop_at t1 = None \/ st_yields t1 = st_yields t2) ->
  st_check_after_yield t1 = st_check_after_yield t2 -> st_input t1 = st_input t2 ->
  st_total t1 = st_total t2 -> st_fails t1 = st_fails t2 -> st_failfast t1 = st_failfast t2 ->
  iso f t1 t2.
Proof.
  intros I H1 H2 G1 G2. intros. destruct I. constructor; auto.
  - unfold wf; rewrite H1; auto.
  - unfold wf; rewrite H2; auto.
  - rewrite H1, H2; auto.
  - rewrite G1, G2; auto.
Qed.

Lemma sim_tick f : sim f (eqrel unit) tick tick.
Proof.
  intros s1 s2 I. exists f. split; [apply ext_refl|]. unfold tick.
  pose proof (iso_stopped _ _ _ I) as Hs. pose proof (iso_stop_at _ _ _ I) as Ha.
  pose proof (iso_yields _ _ _ I) as Hy. pose proof (iso_cay _ _ _ I) as Hc.
  rewrite <- Hs. destruct (st_stopped s1) eqn:S1; [simpl; split; auto|].
  rewrite <- Ha, <- Hc.
  assert (Hr : match st_stop_at s1 with Some k => Nat.eqb k (st_yields s1) | None => false end =
               match st_stop_at s1 with Some k => Nat.eqb k (st_yields s2) | None => false end).
  { destruct (st_stop_at s1); auto. destruct Hy as [Q|Q]; [discriminate | rewrite Q; auto]. }
  rewrite <- Hr.
  set (raised := match st_stop_at s1 with Some k => Nat.eqb k (st_yields s1) | None => false end).
  assert (I' : iso f (upd_yield (S (st_yields s1)) raised s1) (upd_yield (S (st_yields s2)) raised s2)).
  { eapply iso_same_heap; eauto; simpl; try (destruct I; assumption).
    destruct Hy as [Q|Q]; [left; auto | right; congruence]. }
  destruct (raised && st_check_after_yield s1); simpl; split; auto; reflexivity.
Qed.

Lemma sim_emitE f ev : sim f (eqrel unit) (emitE ev) (emitE ev).
Proof.
  intros s1 s2 I. exists f. split; [apply ext_refl|]. split; [|reflexivity]. simpl.
  eapply iso_same_heap; eauto; simpl; try (destruct I; assumption).
  f_equal. destruct I; assumption.
Qed.

Lemma sim_depth_fuel f : sim f (eqrel nat) depth_fuel depth_fuel.
Proof. apply sim_pure. intros; simpl; repeat split; reflexivity. Qed.

Lemma sim_lift {A} f (r : res A) : sim f (eqrel A) (lift r) (lift r).
Proof. apply sim_pure. intros; simpl; repeat split; auto. destruct r; reflexivity. Qed.

(* ---------- load ---------- *)
Lemma sim_load f l1 l2 : lrel f l1 l2 -> sim f hvrel (load l1) (load l2).
Proof.
  intros L. apply sim_pure. intros s1 s2 I. destruct (iso_cells _ _ _ I _ _ L) as (v1 & v2 & G1 & G2 & H).
  unfold load. rewrite G1, G2. simpl. auto.
Qed.

(* ---------- alloc ---------- *)
Definition extend (f : lmap) (a b : loc) : lmap := fun x => if Pos.eqb x a then Some b else f x.

Lemma iso_not_dom_fresh f s1 s2 : iso f s1 s2 -> f (hnext (st_heap s1)) = None.
Proof.
  intro I. destruct (f (hnext (st_heap s1))) as [b|] eqn:E; auto.
  destruct (iso_cells _ _ _ I _ _ E) as (v1 & _ & G & _). rewrite (iso_wf1 _ _ _ I) in G by lia. discriminate.
Qed.
Lemma iso_not_ran_fresh f s1 s2 a : iso f s1 s2 -> f a <> Some (hnext (st_heap s2)).
Proof.
  intros I E. destruct (iso_cells _ _ _ I _ _ E) as (_ & v2 & _ & G & _).
  rewrite (iso_wf2 _ _ _ I) in G by lia. discriminate.
Qed.

Lemma ext_extend f s1 s2 : iso f s1 s2 -> ext f (extend f (hnext (st_heap s1)) (hnext (st_heap s2))).
Proof.
  intros I a b H. unfold extend. destruct (Pos.eqb_spec a (hnext (st_heap s1))) as [->|N]; auto.
  rewrite (iso_not_dom_fresh _ _ _ I) in H. discriminate.
Qed.

Lemma alloc_run v s : alloc v s = (Ok (hnext (st_heap s)), upd_heap (snd (halloc (st_heap s) v)) s).
Proof. reflexivity. Qed.

Ltac fields := cbn [st_heap st_globals st_trace st_yields st_stop_at st_stopped st_input st_total
                    st_fails st_failfast st_check_after_yield upd_heap upd_globals upd_trace
                    upd_yield upd_input upd_tests fst snd].

Lemma sim_alloc f v1 v2 : hvrel f v1 v2 -> sim f lrel (alloc v1) (alloc v2).
Proof.
  intros V s1 s2 I. set (a := hnext (st_heap s1)). set (b := hnext (st_heap s2)).
  exists (extend f a b). pose proof (ext_extend _ _ _ I) as E. fold a b in E.
  split; [exact E|]. rewrite !alloc_run. fields. fold a b. split.
  2: { unfold rrel, lrel, extend. rewrite Pos.eqb_refl. reflexivity. }
  pose proof (iso_wf1 _ _ _ I) as W1. pose proof (iso_wf2 _ _ _ I) as W2.
  constructor; fields; try (destruct I; assumption).
  - apply fresh_ok_halloc; auto.
  - apply fresh_ok_halloc; auto.
  - intros x x' y Hx Hx'. unfold extend in *.
    destruct (Pos.eqb_spec x a) as [->|Nx], (Pos.eqb_spec x' a) as [->|Nx']; auto.
    + inversion Hx; subst y. exfalso. eapply iso_not_ran_fresh; eauto.
    + inversion Hx'; subst y. exfalso. eapply iso_not_ran_fresh; eauto.
    + eapply (iso_inj _ _ _ I); eauto.
  - intros x y Hxy. unfold extend in Hxy. destruct (Pos.eqb_spec x a) as [->|Nx].
    + inversion Hxy; subst y. exists v1, v2. unfold a, b. rewrite !hget_halloc_new.
      repeat split; auto. eapply mono; eauto.
    + destruct (iso_cells _ _ _ I _ _ Hxy) as (w1 & w2 & G1 & G2 & H).
      exists w1, w2. split; [apply hget_halloc_old; auto|]. split; [apply hget_halloc_old; auto|].
      eapply mono; eauto.
  - eapply mono; eauto. apply (iso_glob _ _ _ I).
Qed.

(* ---------- store ---------- *)
Lemma sim_store f l1 l2 v1 v2 :
  lrel f l1 l2 -> hvrel f v1 v2 -> sim f (eqrel unit) (store l1 v1) (store l2 v2).
Proof.
  intros L V s1 s2 I. exists f. split; [apply ext_refl|]. split; [|reflexivity]. simpl.
  destruct (iso_cells _ _ _ I _ _ L) as (w1 & w2 & G1 & G2 & _).
  constructor; simpl; try (destruct I; assumption).
  - eapply fresh_ok_hset; eauto. apply (iso_wf1 _ _ _ I).
  - eapply fresh_ok_hset; eauto. apply (iso_wf2 _ _ _ I).
  - intros x y Hxy. destruct (Pos.eq_dec x l1) as [->|Nx].
    + assert (y = l2) by (unfold lrel in L; congruence). subst y.
      exists v1, v2. rewrite !hget_hset_same. auto.
    + assert (y <> l2).
      { intro; subst y. apply Nx. eapply (iso_inj _ _ _ I); eauto. }
      rewrite !hget_hset_other by auto. apply (iso_cells _ _ _ I); auto.
Qed.

(* ---------- frames and environments ---------- *)
Lemma framerel_get f n fr1 fr2 : framerel f fr1 fr2 -> optrel lrel f (frame_get n fr1) (frame_get n fr2).
Proof.
  intro F. induction F as [|[k1 a1] [k2 a2] t1 t2 [K L] F IH]; simpl; auto.
  simpl in K, L. unfold eqrel in K. subst k2. destruct (str_eqb k1 n); auto.
Qed.

Lemma framerel_replace f n l1 l2 fr1 fr2 :
  lrel f l1 l2 -> framerel f fr1 fr2 -> framerel f (frame_replace n l1 fr1) (frame_replace n l2 fr2).
Proof.
  intros L F. induction F as [|[k1 a1] [k2 a2] t1 t2 [K A] F IH]; simpl; [constructor|].
  simpl in K, A. unfold eqrel in K. subst k2. destruct (str_eqb k1 n).
  - constructor; auto. split; simpl; auto. reflexivity.
  - constructor; auto. split; simpl; auto. reflexivity.
Qed.

Lemma framerel_set f n l1 l2 fr1 fr2 :
  lrel f l1 l2 -> framerel f fr1 fr2 -> framerel f (frame_set n l1 fr1) (frame_set n l2 fr2).
Proof.
  intros L F. unfold frame_set. pose proof (framerel_get f n _ _ F) as G.
  destruct (frame_get n fr1), (frame_get n fr2); simpl in G; try contradiction.
  - apply framerel_replace; auto.
  - constructor; auto. split; simpl; auto. reflexivity.
Qed.

Lemma envrel_get f n e1 e2 : envrel f e1 e2 -> optrel lrel f (env_get n e1) (env_get n e2).
Proof.
  intro E. induction E as [|f1 f2 t1 t2 F E IH]; simpl; auto.
  pose proof (framerel_get f n _ _ F) as G.
  destruct (frame_get n f1), (frame_get n f2); simpl in G; try contradiction; auto.
Qed.

Lemma envrel_update f n l1 l2 e1 e2 :
  lrel f l1 l2 -> envrel f e1 e2 -> optrel envrel f (env_update n l1 e1) (env_update n l2 e2).
Proof.
  intros L E. induction E as [|f1 f2 t1 t2 F E IH]; simpl; auto.
  pose proof (framerel_get f n _ _ F) as G.
  destruct (frame_get n f1), (frame_get n f2); simpl in G; try contradiction.
  - simpl. constructor; auto. apply framerel_replace; auto.
  - destruct (env_update n l1 t1), (env_update n l2 t2); simpl in *; try contradiction; auto.
    constructor; auto.
Qed.

Lemma sim_lookup f n e1 e2 : envrel f e1 e2 -> sim f (optrel lrel) (lookup n e1) (lookup n e2).
Proof.
  intro E. apply sim_pure. intros s1 s2 I. unfold lookup.
  destruct (str_eqb n underscore); [simpl; auto|].
  pose proof (envrel_get f n _ _ E) as G.
  destruct (env_get n e1), (env_get n e2); simpl in G; try contradiction; simpl; auto.
  repeat split; auto. apply framerel_get. apply (iso_glob _ _ _ I).
Qed.

Lemma iso_upd_globals f s1 s2 g1 g2 :
  iso f s1 s2 -> framerel f g1 g2 -> iso f (upd_globals g1 s1) (upd_globals g2 s2).
Proof. intros I G. destruct I. constructor; simpl; auto. Qed.

Lemma sim_set_var f n l1 l2 e1 e2 :
  lrel f l1 l2 -> envrel f e1 e2 -> sim f envrel (set_var n l1 e1) (set_var n l2 e2).
Proof.
  intros L E s1 s2 I. exists f. split; [apply ext_refl|]. unfold set_var.
  destruct (str_eqb n underscore); [simpl; auto|].
  inversion E as [|f1 f2 t1 t2 F E']; subst; simpl.
  - split; [|constructor]. apply iso_upd_globals; auto. apply framerel_set; auto. apply (iso_glob _ _ _ I).
  - split; auto. constructor; auto. apply framerel_set; auto.
Qed.

Lemma sim_update_var f n l1 l2 e1 e2 :
  lrel f l1 l2 -> envrel f e1 e2 -> sim f envrel (update_var n l1 e1) (update_var n l2 e2).
Proof.
  intros L E s1 s2 I. exists f. split; [apply ext_refl|]. unfold update_var.
  destruct (str_eqb n underscore); [simpl; auto|].
  pose proof (envrel_update f n _ _ _ _ L E) as U.
  destruct (env_update n l1 e1), (env_update n l2 e2); simpl in U; try contradiction; simpl; auto.
  pose proof (framerel_get f n _ _ (iso_glob _ _ _ I)) as G.
  destruct (frame_get n (st_globals s1)), (frame_get n (st_globals s2)); simpl in G; try contradiction; simpl.
  - split; auto. apply iso_upd_globals; auto. apply framerel_replace; auto. apply (iso_glob _ _ _ I).
  - split; auto.
Qed.

(* ---------- typed loads ---------- *)
Lemma sim_load_num f l1 l2 : lrel f l1 l2 -> sim f (eqrel float) (load_num l1) (load_num l2).
Proof.
  intro L. unfold load_num. eapply sim_bind; [apply sim_load; eauto|].
  intros f' v1 v2 E V. destruct V; try apply sim_crash. apply sim_ret. reflexivity.
Qed.
Lemma sim_load_str f l1 l2 : lrel f l1 l2 -> sim f (eqrel str) (load_str l1) (load_str l2).
Proof.
  intro L. unfold load_str. eapply sim_bind; [apply sim_load; eauto|].
  intros f' v1 v2 E V. destruct V; try apply sim_crash. apply sim_ret. reflexivity.
Qed.
Lemma sim_load_bool f l1 l2 : lrel f l1 l2 -> sim f (eqrel bool) (load_bool l1) (load_bool l2).
Proof.
  intro L. unfold load_bool. eapply sim_bind; [apply sim_load; eauto|].
  intros f' v1 v2 E V. destruct V; try apply sim_crash. apply sim_ret. reflexivity.
Qed.

(* ---------- mapM ---------- *)
Lemma sim_mapM {A B} (RA : lmap -> A -> A -> Prop) (RB : lmap -> B -> B -> Prop)
      `{Mono A RA} `{Mono B RB} (g1 g2 : A -> M B) f0 :
  (forall f, ext f0 f -> forall a1 a2, RA f a1 a2 -> sim f RB (g1 a1) (g2 a2)) ->
  forall l1 l2 f, ext f0 f -> listrel RA f l1 l2 -> sim f (listrel RB) (mapM g1 l1) (mapM g2 l2).
Proof.
  intros Hg l1. induction l1 as [|a1 t1 IH]; intros l2 f E0 L; inversion L as [|x a2 y t2 Ha Ht]; subst; simpl.
  - apply sim_ret. constructor.
  - eapply sim_bind; [apply Hg; [exact E0 | exact Ha]|]. intros f' b1 b2 E Hb.
    eapply sim_bind; [apply IH; [eapply ext_trans; eauto | eapply mono; eauto]|]. intros f'' r1 r2 E' Hr.
    apply sim_ret. constructor; auto. eapply mono; eauto.
Qed.

Lemma listrel_eq {A} f (l1 l2 : list A) : listrel (eqrel A) f l1 l2 -> l1 = l2.
Proof. intro F. induction F; auto. unfold eqrel in *. congruence. Qed.
Lemma listrel_eq_refl {A} f (l : list A) : listrel (eqrel A) f l l.
Proof. induction l; constructor; auto. reflexivity. Qed.
Lemma listrel_length {A} (R : lmap -> A -> A -> Prop) f l1 l2 : listrel R f l1 l2 -> List.length l1 = List.length l2.
Proof. intro F. induction F; simpl; auto. Qed.
Lemma listrel_app {A} (R : lmap -> A -> A -> Prop) f a1 a2 b1 b2 :
  listrel R f a1 a2 -> listrel R f b1 b2 -> listrel R f (a1 ++ b1) (a2 ++ b2).
Proof. intros F G. induction F; simpl; auto. constructor; auto. Qed.
Lemma listrel_nth {A} (R : lmap -> A -> A -> Prop) f l1 l2 k :
  listrel R f l1 l2 -> optrel R f (nth_error l1 k) (nth_error l2 k).
Proof. intro F. revert k. induction F; intros [|k]; simpl; auto. Qed.
Lemma listrel_firstn {A} (R : lmap -> A -> A -> Prop) f l1 l2 k :
  listrel R f l1 l2 -> listrel R f (firstn k l1) (firstn k l2).
Proof.
  intro F. revert k. induction F; intros [|k]; simpl; try constructor; auto. apply IHF.
Qed.
Lemma listrel_skipn {A} (R : lmap -> A -> A -> Prop) f l1 l2 k :
  listrel R f l1 l2 -> listrel R f (skipn k l1) (skipn k l2).
Proof.
  intro F. revert k. induction F; intros [|k]; simpl; try (constructor; auto; fail); auto.
Qed.

Lemma framerel_plookup f k p1 p2 : framerel f p1 p2 -> optrel lrel f (plookup k p1) (plookup k p2).
Proof.
  intro F. induction F as [|[k1 a1] [k2 a2] t1 t2 [K L] F IH]; simpl; auto.
  simpl in K, L. unfold eqrel in K. subst k2. destruct (str_eqb k1 k); auto.
Qed.
Lemma framerel_keys f p1 p2 : framerel f p1 p2 -> map fst p1 = map fst p2.
Proof. intro F. induction F as [|[k1 a1] [k2 a2] t1 t2 [K L] F IH]; simpl; auto. simpl in K. unfold eqrel in K. congruence. Qed.

(* ---------- tactics ---------- *)
(* carry every relation hypothesis at f over to the extension f' *)
Ltac up E :=
  repeat match goal with
         | H : Forall2 (lrel ?f) ?a ?b |- _ => change (lrels f a b) in H
         | H : Forall2 (?R ?f) ?a ?b |- _ => change (listrel R f a b) in H
         | H : ?R ?f ?a ?b |- _ =>
             match type of E with ext f ?f' => apply (mono f f' a b E) in H end
         end.

Ltac sbind tac :=
  eapply sim_bind;
  [ tac
  | let f' := fresh "f" in let a1 := fresh "a" in let a2 := fresh "b" in
    let E := fresh "E" in let H := fresh "R" in
    intros f' a1 a2 E H; up E ].
