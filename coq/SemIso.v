(* SemIso.v — the evaluator of Sem.v is invariant under a renaming of heap
   locations and under garbage: from isomorphic states and related environments
   all nine mutually recursive functions produce equal outcomes, equal traces
   and isomorphic final states (SemIsoBase.v defines the relation). *)
From Coq Require Import ZArith NArith PArith List String Bool Floats FMapPositive Lia.
From EvyV Require Import Base Num Ast Omap Sem SemStoreBase SemStore SemIsoBase SemIsoLib.
Import ListNotations.
Local Open Scope positive_scope.

(* ---------- result relations of the statement-level functions ---------- *)
Definition serel : lmap -> signal * env -> signal * env -> Prop := pairrel sigrel envrel.
Definition oserel : lmap -> option signal * env -> option signal * env -> Prop := pairrel (optrel sigrel) envrel.
Global Instance Mono_serel : Mono serel. Proof. unfold serel; typeclasses eauto. Qed.
Global Instance Mono_oserel : Mono oserel. Proof. unfold oserel; typeclasses eauto. Qed.

Lemma envrel_push f e1 e2 : envrel f e1 e2 -> envrel f ([] :: e1) ([] :: e2).
Proof. intro E. constructor; [constructor | exact E]. Qed.
Lemma envrel_tl f e1 e2 : envrel f e1 e2 -> envrel f (tl e1) (tl e2).
Proof. intro E. destruct E; simpl; [constructor | assumption]. Qed.
Lemma envrel_single f fr1 fr2 : framerel f fr1 fr2 -> envrel f [fr1] [fr2].
Proof. intro F. constructor; [exact F | constructor]. Qed.
#[export] Hint Resolve envrel_push envrel_tl envrel_single : iso.

Lemma lrels_list_set f xs ys k v1 v2 : lrels f xs ys -> lrel f v1 v2 -> lrels f (list_set xs k v1) (list_set ys k v2).
Proof.
  intros X V. revert k. induction X; intros [|k]; simpl; try constructor; auto. apply IHX.
Qed.

(* ---------- EBin in named form ---------- *)
Definition short_of (op : binop) (v : hval) : bool :=
  match op, v with
  | BAnd, HBool false => true
  | BOr, HBool true => true
  | _, _ => false
  end.
Definition bin_dispatch (op : binop) (la lb : loc) : M loc :=
  let* va := load la in
  match va with
  | HNum y => let* z := load_num lb in bin_num op y z
  | HStr y => let* z := load_str lb in bin_str op y z
  | HBool y => let* z := load_bool lb in bin_bool op y z
  | HArr xs => bin_arr op xs lb
  | _ => internal "unknown operation (binary)"
  end.
Lemma eval_expr_EBin n P e op t a b :
  eval_expr (S n) P e (EBin op t a b) =
  (let* _ := tick in
   let* la := eval_expr n P e a in
   let* va0 := load la in
   let* lb := if short_of op va0 then ret la else eval_expr n P e b in
   match op with
   | BEq => let* d := depth_fuel in let* r := equals d la lb in alloc (HBool r)
   | BNotEq => let* d := depth_fuel in let* r := equals d la lb in alloc (HBool (negb r))
   | _ => bin_dispatch op la lb
   end).
Proof. reflexivity. Qed.

Lemma short_of_rel f op v1 v2 : hvrel f v1 v2 -> short_of op v1 = short_of op v2.
Proof. intro H. destruct H; reflexivity. Qed.

Lemma sim_bin_dispatch f op la1 la2 lb1 lb2 :
  lrel f la1 la2 -> lrel f lb1 lb2 -> sim f lrel (bin_dispatch op la1 lb1) (bin_dispatch op la2 lb2).
Proof.
  intros A B. unfold bin_dispatch. sbind prim.
  match goal with H : hvrel _ _ _ |- _ => destruct H end; try prim.
  - sbind prim. deq. apply sim_bin_num.
  - sbind prim. deq. apply sim_bin_str.
  - sbind prim. deq. apply sim_bin_bool.
  - apply sim_bin_arr; assumption.
Qed.

Lemma sim_map_set_key f m1 m2 k v1 v2 :
  lrel f m1 m2 -> lrel f v1 v2 -> sim f (eqrel unit) (map_set_key m1 k v1) (map_set_key m2 k v2).
Proof.
  intros A B. unfold map_set_key. sbind prim.
  match goal with H : hvrel _ _ _ |- _ => destruct H end; try prim.
  apply sim_store; [assumption | apply oset_rel; assumption].
Qed.

Lemma sim_map_next f om1 om2 m1 m2 ks :
  framerel f (pairs om1) (pairs om2) -> lrel f m1 m2 ->
  sim f (optrel (pairrel lrel rngrel)) (map_next om1 m1 ks) (map_next om2 m2 ks).
Proof.
  intros F L. induction ks as [|k t IH]; simpl; [apply sim_ret; exact I|].
  rewrite (ohas_rel _ k _ _ F). destruct (ohas k om2); [|exact IH].
  sbind prim. apply sim_ret. split; simpl; [assumption | constructor; assumption].
Qed.

Lemma sim_ranger_next f r1 r2 :
  rngrel f r1 r2 -> sim f (optrel (pairrel lrel rngrel)) (ranger_next r1) (ranger_next r2).
Proof.
  intro H. destruct H; simpl.
  - destruct (_ || _); [apply sim_ret; exact I|].
    sbind prim. apply sim_ret. split; simpl; [assumption | constructor].
  - sbind prim. match goal with H : hvrel _ _ _ |- _ => destruct H end; try prim.
    pose proof (listrel_nth _ _ _ _ k H0) as N.
    destruct (nth_error xs k), (nth_error ys k); simpl in N; try contradiction.
    + apply sim_ret. split; simpl; [assumption | constructor; assumption].
    + apply sim_ret. exact I.
  - destruct (nth_error s k); [|apply sim_ret; exact I].
    sbind prim. apply sim_ret. split; simpl; [assumption | constructor].
  - sbind prim. match goal with H : hvrel _ _ _ |- _ => destruct H end; try prim.
    apply sim_map_next; assumption.
Qed.

(* ====================================================================== *)
(* The nine-way induction                                                  *)
(* ====================================================================== *)
Section Step.
  Variable P : program.
  Variable n : nat.
  Hypothesis IHexpr : forall f e1 e2 x, envrel f e1 e2 -> sim f lrel (eval_expr n P e1 x) (eval_expr n P e2 x).
  Hypothesis IHexprs : forall f e1 e2 l, envrel f e1 e2 -> sim f lrels (eval_exprs n P e1 l) (eval_exprs n P e2 l).
  Hypothesis IHcall : forall f e1 e2 nm args, envrel f e1 e2 ->
      sim f (optrel lrel) (eval_call n P e1 nm args) (eval_call n P e2 nm args).
  Hypothesis IHstmt : forall f e1 e2 st, envrel f e1 e2 -> sim f serel (exec_stmt n P e1 st) (exec_stmt n P e2 st).
  Hypothesis IHstmts : forall f e1 e2 l, envrel f e1 e2 -> sim f serel (exec_stmts n P e1 l) (exec_stmts n P e2 l).
  Hypothesis IHblock : forall f e1 e2 l, envrel f e1 e2 -> sim f serel (exec_block n P e1 l) (exec_block n P e2 l).
  Hypothesis IHcond : forall f e1 e2 c b, envrel f e1 e2 -> sim f oserel (exec_cond n P e1 c b) (exec_cond n P e2 c b).
  Hypothesis IHwhile : forall f e1 e2 c b, envrel f e1 e2 -> sim f serel (exec_while n P e1 c b) (exec_while n P e2 c b).
  Hypothesis IHfor : forall f e1 e2 var r1 r2 b, envrel f e1 e2 -> rngrel f r1 r2 ->
      sim f serel (exec_for n P e1 var r1 b) (exec_for n P e2 var r2 b).

  Ltac ih :=
    first [ apply IHexpr; solve [eauto with iso] | apply IHexprs; solve [eauto with iso]
          | apply IHcall; solve [eauto with iso] | apply IHstmt; solve [eauto with iso]
          | apply IHstmts; solve [eauto with iso] | apply IHblock; solve [eauto with iso]
          | apply IHcond; solve [eauto with iso] | apply IHwhile; solve [eauto with iso]
          | apply IHfor; solve [eauto with iso] ].

  Lemma sim_num f e1 e2 x : envrel f e1 e2 ->
    sim f (eqrel float)
      (let* l := eval_expr n P e1 x in let* v := load l in
       match v with HNum y => ret y | _ => internal "expected number" end)
      (let* l := eval_expr n P e2 x in let* v := load l in
       match v with HNum y => ret y | _ => internal "expected number" end).
  Proof.
    intro E. sbind ih. sbind prim. match goal with H : hvrel _ _ _ |- _ => destruct H end; prim.
  Qed.

  Lemma sim_var_init f (var : option str) (m1 m2 : M loc) e1 e2 :
    sim f lrel m1 m2 -> envrel f e1 e2 ->
    sim f envrel (match var with Some v => let* z := m1 in set_var v z e1 | None => ret e1 end)
                 (match var with Some v => let* z := m2 in set_var v z e2 | None => ret e2 end).
  Proof.
    intros Hm E. destruct var; [|apply sim_ret; assumption].
    sbind ltac:(exact Hm). apply sim_set_var; assumption.
  Qed.

  Ltac sub2 :=
    first [ sub1 | ih
          | apply sim_num; solve [eauto with iso]
          | apply sim_var_init; [first [prim | apply sim_zero_val] | solve [eauto with iso]]
          | apply sim_copy_or_ref; eassumption
          | apply sim_zero_val
          | apply sim_set_var; [eassumption | solve [eauto with iso]]
          | apply sim_update_var; [eassumption | solve [eauto with iso]]
          | apply sim_map_set_key; eassumption
          | apply sim_store; [eassumption | constructor; apply lrels_list_set; assumption]
          | apply sim_bin_dispatch; eassumption
          | apply sim_equals; eassumption
          | apply sim_ranger_next; eassumption
          | apply sim_ret; solve [split; simpl; eauto with iso; constructor; eauto with iso]
          | apply sim_ret; split; simpl; [constructor; simpl; solve [auto] | solve [eauto with iso]] ].

  Ltac dpair :=
    repeat match goal with
           | R : pairrel _ _ _ ?a ?b |- _ => destruct a, b; destruct R; simpl fst in *; simpl snd in *
           | R : serel _ ?a ?b |- _ => unfold serel in R
           | R : oserel _ ?a ?b |- _ => unfold oserel in R
           end.

  Ltac istep :=
    first
      [ sub2
      | match goal with
        | |- sim _ _ (bindM _ _) (bindM _ _) => sbind sub2; deq; dpair
        | H : hvrel _ ?v1 ?v2 |- sim _ _ (match ?v1 with _ => _ end) _ => destruct H; lens
        | H : sigrel _ ?v1 ?v2 |- sim _ _ (match ?v1 with _ => _ end) _ => destruct H
        | H : optrel _ _ ?v1 ?v2 |- sim _ _ (match ?v1 with _ => _ end) _ =>
            destruct v1, v2; simpl in H; try contradiction; dpair
        | H : lrels _ ?x1 ?x2 |- sim _ _ (match nth_error ?x1 ?k with _ => _ end) _ =>
            let N := fresh "N" in pose proof (listrel_nth _ _ _ _ k H) as N;
            destruct (nth_error x1 k), (nth_error x2 k); simpl in N; try contradiction
        | H : framerel _ (pairs ?m1) (pairs ?m2) |- sim _ _ (match oget ?k ?m1 with _ => _ end) _ =>
            let N := fresh "N" in pose proof (oget_rel _ k _ _ H) as N;
            destruct (oget k m1), (oget k m2); simpl in N; try contradiction
        | |- sim _ _ (match ?x with _ => _ end) (match ?x with _ => _ end) => destruct x
        | |- sim _ _ (if ?x then _ else _) (if ?x then _ else _) => destruct x
        | |- sim _ _ (let '(_, _) := ?x in _) (let '(_, _) := ?x in _) => destruct x
        end ].
  Ltac isolve := repeat istep.

  Lemma sim_emap_go f e1 e2 d ps : envrel f e1 e2 ->
    sim f framerel (emap_go (eval_expr n P e1) d ps) (emap_go (eval_expr n P e2) d ps).
  Proof.
    intro E. revert f E. induction ps as [|[k a] t IH]; intros f E; simpl; [apply sim_ret; constructor|].
    sbind ih. sbind sub2. sbind ltac:(apply IH; assumption).
    apply sim_ret. constructor; [split; simpl; [reflexivity | assumption] | assumption].
  Qed.

  Lemma sim_opt_eval f e1 e2 o : envrel f e1 e2 ->
    sim f (optrel lrel)
      (match o with Some y => let* l := eval_expr n P e1 y in ret (Some l) | None => ret None end)
      (match o with Some y => let* l := eval_expr n P e2 y in ret (Some l) | None => ret None end).
  Proof.
    intro E. destruct o; [|apply sim_ret; exact I]. sbind ih. apply sim_ret. assumption.
  Qed.

  Lemma step_expr f e1 e2 x : envrel f e1 e2 -> sim f lrel (eval_expr (S n) P e1 x) (eval_expr (S n) P e2 x).
  Proof.
    intro E. destruct x.
    7: { rewrite !eval_expr_EMap. sbind sub2. sbind sub2. deq.
         sbind ltac:(apply sim_emap_go; assumption). apply sim_alloc. constructor; [reflexivity | assumption]. }
    9: { rewrite !eval_expr_EBin. sbind sub2. sbind sub2. sbind sub2.
          match goal with H : hvrel _ ?v1 ?v2 |- _ => rewrite (short_of_rel _ op _ _ H) end.
          sbind ltac:(instantiate (1 := lrel); match goal with |- sim _ _ (if ?c then _ else _) _ => destruct c end; sub2).
          destruct op; isolve. }
    10: { cbn [eval_expr]. sbind sub2. sbind sub2.
          sbind ltac:(apply sim_opt_eval; assumption). sbind ltac:(apply sim_opt_eval; assumption).
          sbind sub2. match goal with H : hvrel _ _ _ |- _ => destruct H end; try prim.
          - sbind ltac:(apply sim_slice_bounds; assumption). deq.
            match goal with |- sim _ _ (let '(_, _) := ?p in _) _ => destruct p end. prim.
          - lens. sbind ltac:(apply sim_slice_bounds; assumption). deq.
            match goal with |- sim _ _ (let '(_, _) := ?p in _) _ => destruct p as [s0 e0] end.
            sbind sub2. deq.
            sbind ltac:(eapply (sim_mapM lrel lrel);
                        [intros; apply sim_copy_or_ref; eassumption | apply ext_refl
                        | apply listrel_firstn, listrel_skipn; eassumption]).
            prim. }
    all: cbn [eval_expr]; isolve.
  Qed.

  Lemma step_exprs f e1 e2 l : envrel f e1 e2 -> sim f lrels (eval_exprs (S n) P e1 l) (eval_exprs (S n) P e2 l).
  Proof.
    intro E. cbn [eval_exprs]. destruct l; [apply sim_ret; constructor|].
    sbind sub2. sbind sub2. deq. sbind sub2. sbind sub2. apply sim_ret. constructor; assumption.
  Qed.

  Lemma step_call f e1 e2 nm args : envrel f e1 e2 ->
    sim f (optrel lrel) (eval_call (S n) P e1 nm args) (eval_call (S n) P e2 nm args).
  Proof.
    intro E. cbn [eval_call]. sbind sub2.
    destruct (str_eqb nm n_test).
    { sbind ltac:(apply sim_run_test; assumption). apply sim_ret. exact I. }
    match goal with A : lrels ?g ?a ?b, E' : envrel ?g _ _ |- _ => pose proof (sim_builtin nm g _ _ _ _ E' A) as B end.
    destruct (builtin nm e1 a), (builtin nm e2 b); try contradiction; [exact B|].
    destruct (existsb _ _); [prim|].
    destruct (find_func nm (p_funcs P)) as [fd|]; [|prim].
    sbind ltac:(apply sim_bind_params; [eassumption | constructor]). dpair.
    sbind ltac:(instantiate (1 := framerel)).
    - destruct (fn_variadic fd) as [[vn vt]|]; [|apply sim_ret; assumption].
      sbind sub2. apply sim_ret. destruct (str_eqb vn underscore); [assumption | apply framerel_set; assumption].
    - isolve.
  Qed.

  Lemma sim_if_go f els conds : forall e1 e2, envrel f e1 e2 ->
    sim f serel (if_go (exec_cond n P) (exec_block n P) els conds e1)
                (if_go (exec_cond n P) (exec_block n P) els conds e2).
  Proof.
    revert f. induction conds as [|[c body] t IH]; intros f e1 e2 E; simpl.
    - destruct els; isolve.
    - sbind sub2. dpair.
      match goal with H : optrel sigrel _ ?o1 ?o2 |- _ => destruct o1, o2; simpl in H; try contradiction end.
      + apply sim_ret. split; assumption.
      + apply IH; assumption.
  Qed.

  Lemma step_stmt f e1 e2 st : envrel f e1 e2 -> sim f serel (exec_stmt (S n) P e1 st) (exec_stmt (S n) P e2 st).
  Proof.
    intro E. destruct st.
    6: { rewrite !exec_stmt_SIf. sbind sub2. apply sim_if_go; assumption. }
    7: { cbn [exec_stmt]. sbind sub2. eapply (sim_bind _ (pairrel rngrel envrel)).
         - destruct r; isolve.
         - intros f' a1 a2 E' H; up E'. dpair. isolve. }
    all: cbn [exec_stmt]; isolve.
  Qed.

  Lemma step_stmts f e1 e2 l : envrel f e1 e2 -> sim f serel (exec_stmts (S n) P e1 l) (exec_stmts (S n) P e2 l).
  Proof.
    intro E. cbn [exec_stmts]. destruct l; [isolve|].
    sbind sub2. dpair.
    match goal with H : sigrel _ ?s1 ?s2 |- _ => destruct H end; simpl; isolve.
  Qed.

  Lemma step_block f e1 e2 l : envrel f e1 e2 -> sim f serel (exec_block (S n) P e1 l) (exec_block (S n) P e2 l).
  Proof. intro E. cbn [exec_block]. isolve. Qed.

  Lemma step_cond f e1 e2 c b : envrel f e1 e2 -> sim f oserel (exec_cond (S n) P e1 c b) (exec_cond (S n) P e2 c b).
  Proof. intro E. cbn [exec_cond]. isolve. Qed.

  Lemma step_while f e1 e2 c b : envrel f e1 e2 -> sim f serel (exec_while (S n) P e1 c b) (exec_while (S n) P e2 c b).
  Proof. intro E. cbn [exec_while]. isolve. Qed.

  Lemma step_for f e1 e2 var r1 r2 b : envrel f e1 e2 -> rngrel f r1 r2 ->
    sim f serel (exec_for (S n) P e1 var r1 b) (exec_for (S n) P e2 var r2 b).
  Proof. intros E Rg. rewrite !exec_for_S. cbv zeta. isolve. Qed.
End Step.

(* all nine functions, every fuel: invariance under heap isomorphism and garbage *)
Theorem evaluator_iso P : forall n,
  (forall f e1 e2 x, envrel f e1 e2 -> sim f lrel (eval_expr n P e1 x) (eval_expr n P e2 x)) /\
  (forall f e1 e2 l, envrel f e1 e2 -> sim f lrels (eval_exprs n P e1 l) (eval_exprs n P e2 l)) /\
  (forall f e1 e2 nm args, envrel f e1 e2 ->
      sim f (optrel lrel) (eval_call n P e1 nm args) (eval_call n P e2 nm args)) /\
  (forall f e1 e2 st, envrel f e1 e2 -> sim f serel (exec_stmt n P e1 st) (exec_stmt n P e2 st)) /\
  (forall f e1 e2 l, envrel f e1 e2 -> sim f serel (exec_stmts n P e1 l) (exec_stmts n P e2 l)) /\
  (forall f e1 e2 l, envrel f e1 e2 -> sim f serel (exec_block n P e1 l) (exec_block n P e2 l)) /\
  (forall f e1 e2 c b, envrel f e1 e2 -> sim f oserel (exec_cond n P e1 c b) (exec_cond n P e2 c b)) /\
  (forall f e1 e2 c b, envrel f e1 e2 -> sim f serel (exec_while n P e1 c b) (exec_while n P e2 c b)) /\
  (forall f e1 e2 var r1 r2 b, envrel f e1 e2 -> rngrel f r1 r2 ->
      sim f serel (exec_for n P e1 var r1 b) (exec_for n P e2 var r2 b)).
Proof.
  induction n as [|n IH].
  - repeat apply conj; intros; simpl; apply sim_fail.
  - destruct IH as (I1 & I2 & I3 & I4 & I5 & I6 & I7 & I8 & I9).
    repeat apply conj; intros.
    + apply step_expr; auto.
    + apply step_exprs; auto.
    + apply step_call; auto.
    + apply step_stmt; auto.
    + apply step_stmts; auto.
    + apply step_block; auto.
    + apply step_cond; auto.
    + apply step_while; auto.
    + apply step_for; auto.
Qed.

Definition exec_block_iso P n := proj1 (proj2 (proj2 (proj2 (proj2 (proj2 (evaluator_iso P n)))))).
Definition exec_stmts_iso P n := proj1 (proj2 (proj2 (proj2 (proj2 (evaluator_iso P n))))).
Definition eval_call_iso P n := proj1 (proj2 (proj2 (evaluator_iso P n))).

(* ---------- outcomes of whole runs and events ---------- *)
(* the relational statement on (outcome, state) pairs *)
Definition run_iso (f : lmap) (r1 r2 : outcome * state) : Prop :=
  fst r1 = fst r2 /\ exists f', ext f f' /\ iso f' (snd r1) (snd r2).

Lemma iso_test_report f s1 s2 : iso f s1 s2 -> iso f (test_report s1) (test_report s2).
Proof.
  intro I. unfold test_report. rewrite <- (iso_total _ _ _ I), <- (iso_fails _ _ _ I).
  destruct (Nat.eqb (st_total s1) 0); auto.
  eapply iso_same_heap; eauto; simpl; try (destruct I; assumption).
  f_equal. destruct I; assumption.
Qed.

(* Evaluator.Eval *)
Theorem run_program_iso fuel P f s1 s2 :
  iso f s1 s2 -> run_iso f (run_program fuel P s1) (run_program fuel P s2).
Proof.
  intro I. unfold run_program.
  assert (S : sim f (eqrel unit)
                (let* _ := tick in let* _ := exec_stmts fuel P [] (p_stmts P) in ret tt)
                (let* _ := tick in let* _ := exec_stmts fuel P [] (p_stmts P) in ret tt)).
  { sbind prim. sbind ltac:(apply exec_stmts_iso; constructor). prim. }
  destruct (S s1 s2 I) as (f' & E & I' & Rr).
  destruct ((let* _ := tick in let* _ := exec_stmts fuel P [] (p_stmts P) in ret tt) s1) as [r1 t1].
  destruct ((let* _ := tick in let* _ := exec_stmts fuel P [] (p_stmts P) in ret tt) s2) as [r2 t2].
  simpl in I', Rr. pose proof (iso_test_report _ _ _ I') as IT.
  destruct r1 as [u1|er1], r2 as [u2|er2]; simpl in Rr; try contradiction.
  - rewrite <- (iso_fails _ _ _ IT). destruct (Nat.ltb 0 _); split; simpl; eauto.
  - subst er2. split; [reflexivity|]. exists f'. split; auto. simpl. destruct er1; auto.
Qed.

(* Evaluator.HandleEvent *)
Theorem handle_event_iso fuel P name args f s1 s2 :
  iso f s1 s2 -> run_iso f (handle_event fuel P name args s1) (handle_event fuel P name args s2).
Proof.
  intro I. unfold handle_event. destruct (find_handler name (p_handlers P)) as [h|].
  2: { split; [reflexivity|]. exists f. split; [apply ext_refl | exact I]. }
  assert (S : sim f (eqrel unit)
                (let* fr := bind_payload (h_params h) args [] in let* _ := exec_block fuel P [fr] (h_body h) in ret tt)
                (let* fr := bind_payload (h_params h) args [] in let* _ := exec_block fuel P [fr] (h_body h) in ret tt)).
  { sbind ltac:(apply sim_bind_payload; constructor).
    sbind ltac:(apply exec_block_iso; apply envrel_single; assumption). prim. }
  destruct (S s1 s2 I) as (f' & E & I' & Rr).
  destruct ((let* fr := bind_payload (h_params h) args [] in let* _ := exec_block fuel P [fr] (h_body h) in ret tt) s1) as [r1 t1].
  destruct ((let* fr := bind_payload (h_params h) args [] in let* _ := exec_block fuel P [fr] (h_body h) in ret tt) s2) as [r2 t2].
  simpl in I', Rr. destruct r1, r2; simpl in Rr; try contradiction; split; simpl; eauto; congruence.
Qed.
