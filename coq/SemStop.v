(* SemStop.v — proofs for C14 (interruptibility and clean stop) about the
   evaluator model Sem.v.

   Architecture.
   1. [atom m]: the computation m never touches the four "control" fields of the
      state (st_yields, st_stop_at, st_stopped, st_check_after_yield), does not
      depend on them, and only extends st_trace.  Every primitive of Sem.v other
      than [tick] is an atom, and atoms are closed under bind / match.
   2. [Built m]: m is built from atoms and [tick] by [bindM].  One induction on
      the fuel shows that all nine evaluator functions are [Built].
   3. Every generic fact (monotonicity, stop simulation, freezing, interleaved
      log) is proved once, by induction on [Built]. *)
From Coq Require Import ZArith NArith List String Bool Floats FMapPositive Lia Arith.
From EvyV Require Import Base Num Ast Omap Sem SemPure.
Import ListNotations.
Local Open Scope nat_scope.

(* ---------- control fields ---------- *)
Definition set_ctl (o : option nat) (b : bool) (y : nat) (c : bool) (s : state) : state :=
  {| st_heap := st_heap s; st_globals := st_globals s; st_trace := st_trace s; st_yields := y;
     st_stop_at := o; st_stopped := b; st_input := st_input s;
     st_total := st_total s; st_fails := st_fails s; st_failfast := st_failfast s;
     st_check_after_yield := c |}.

(* replace only the platform's plan for raising the stop flag *)
Definition set_stop (o : option nat) (s : state) : state :=
  set_ctl o (st_stopped s) (st_yields s) (st_check_after_yield s) s.

Definition ctl_eq (s s' : state) : Prop :=
  st_yields s' = st_yields s /\ st_stop_at s' = st_stop_at s /\
  st_stopped s' = st_stopped s /\ st_check_after_yield s' = st_check_after_yield s.

(* the old trace is a suffix of the new one (traces are newest first) *)
Definition suffix (old new : list event) : Prop := exists d, new = d ++ old.
(* chronological order *)
Definition prefix (l1 l2 : list event) : Prop := exists d, l2 = l1 ++ d.

Lemma suffix_refl l : suffix l l.
Proof. exists []. reflexivity. Qed.
Lemma suffix_trans a b c : suffix a b -> suffix b c -> suffix a c.
Proof. intros [d1 ->] [d2 ->]. exists (d2 ++ d1). now rewrite app_assoc. Qed.
Lemma suffix_cons x l : suffix l (x :: l).
Proof. exists [x]. reflexivity. Qed.
Lemma suffix_prefix_rev a b : suffix a b -> prefix (rev a) (rev b).
Proof. intros [d ->]. exists (rev d). apply rev_app_distr. Qed.
Lemma prefix_refl l : prefix l l.
Proof. exists []. now rewrite app_nil_r. Qed.
Lemma prefix_trans a b c : prefix a b -> prefix b c -> prefix a c.
Proof. intros [d1 ->] [d2 ->]. exists (d1 ++ d2). now rewrite app_assoc. Qed.
Lemma suffix_length a b : suffix a b -> List.length a <= List.length b.
Proof. intros [d ->]. rewrite app_length. lia. Qed.
#[global] Hint Resolve suffix_refl suffix_cons prefix_refl : core.

Lemma set_ctl_id s : set_ctl (st_stop_at s) (st_stopped s) (st_yields s) (st_check_after_yield s) s = s.
Proof. destruct s; reflexivity. Qed.
Lemma set_stop_id s : set_stop (st_stop_at s) s = s.
Proof. apply set_ctl_id. Qed.
Lemma set_ctl_set_ctl o b y c o' b' y' c' s :
  set_ctl o b y c (set_ctl o' b' y' c' s) = set_ctl o b y c s.
Proof. reflexivity. Qed.
Lemma set_stop_set_stop o o' s : set_stop o (set_stop o' s) = set_stop o s.
Proof. reflexivity. Qed.

(* ---------- atoms ---------- *)
Definition atom {A} (m : M A) : Prop :=
  forall s r s', m s = (r, s') ->
    ctl_eq s s' /\ suffix (st_trace s) (st_trace s') /\
    forall o b y c, m (set_ctl o b y c s) = (r, set_ctl o b y c s').

Lemma ctl_eq_refl s : ctl_eq s s.
Proof. repeat split. Qed.
Lemma ctl_eq_trans a b c : ctl_eq a b -> ctl_eq b c -> ctl_eq a c.
Proof. unfold ctl_eq. intuition congruence. Qed.
#[global] Hint Resolve ctl_eq_refl : core.

Lemma atom_ret A (a : A) : atom (ret a).
Proof. intros s r s' H. inversion H; subst. auto. Qed.
Lemma atom_fail A e : atom (@fail A e).
Proof. intros s r s' H. inversion H; subst. auto. Qed.
Lemma atom_crash A w : atom (@crash A w).
Proof. apply atom_fail. Qed.
Lemma atom_internal A w : atom (@internal A w).
Proof. apply atom_fail. Qed.
Lemma atom_lift A (x : res A) : atom (lift x).
Proof. intros s r s' H. inversion H; subst. auto. Qed.
Lemma atom_depth_fuel : atom depth_fuel.
Proof. intros s r s' H. inversion H; subst. auto. Qed.

Lemma atom_bind A B (m : M A) (f : A -> M B) :
  atom m -> (forall a, atom (f a)) -> atom (bindM m f).
Proof.
  intros Hm Hf s r s2 H. unfold bindM in H.
  destruct (m s) as [[a|e] s1] eqn:E.
  - destruct (Hm _ _ _ E) as (C1 & T1 & I1), (Hf a _ _ _ H) as (C2 & T2 & I2).
    split; [eapply ctl_eq_trans; eauto|]. split; [eapply suffix_trans; eauto|].
    intros. unfold bindM. rewrite I1. apply I2.
  - inversion H; subst. destruct (Hm _ _ _ E) as (C1 & T1 & I1).
    split; [auto|]. split; [auto|]. intros. unfold bindM. now rewrite I1.
Qed.

Lemma atom_ext A (m m' : M A) : (forall s, m s = m' s) -> atom m -> atom m'.
Proof. intros E H s r s' H1. rewrite <- E in H1. destruct (H _ _ _ H1) as (?&?&I). split; [auto|]. split; [auto|]. intros. rewrite <- E. apply I. Qed.

Lemma atom_emitE e : atom (emitE e).
Proof. intros s r s' H. inversion H; subst. repeat split; simpl; auto. Qed.
Lemma atom_alloc v : atom (alloc v).
Proof. intros s r s' H. inversion H; subst. repeat split; simpl; auto. Qed.
Lemma atom_store l v : atom (store l v).
Proof. intros s r s' H. inversion H; subst. repeat split; simpl; auto. Qed.
Lemma atom_load l : atom (load l).
Proof.
  intros s r s' H. unfold load in *. simpl.
  destruct (hget (st_heap s) l); inversion H; subst; auto.
Qed.
Lemma atom_lookup n e : atom (lookup n e).
Proof.
  intros s r s' H. unfold lookup in *. simpl.
  destruct (str_eqb n underscore); [inversion H; subst; auto|].
  destruct (env_get n e); inversion H; subst; auto.
Qed.
Lemma atom_set_var n l e : atom (set_var n l e).
Proof.
  intros s r s' H. unfold set_var in *. simpl.
  destruct (str_eqb n underscore); [inversion H; subst; auto|].
  destruct e; inversion H; subst; repeat split; simpl; auto.
Qed.
Lemma atom_update_var n l e : atom (update_var n l e).
Proof.
  intros s r s' H. unfold update_var in *. simpl.
  destruct (str_eqb n underscore); [inversion H; subst; auto|].
  destruct (env_update n l e); [inversion H; subst; auto|].
  destruct (frame_get n (st_globals s)); inversion H; subst; repeat split; simpl; auto.
Qed.

Create HintDb atomdb.
#[global] Hint Resolve atom_ret atom_fail atom_crash atom_internal atom_lift atom_depth_fuel
  atom_emitE atom_alloc atom_store atom_load atom_lookup atom_set_var atom_update_var : atomdb.

Ltac atom_step :=
  first
    [ assumption
    | solve [auto with atomdb]
    | match goal with |- atom (bindM _ _) => apply atom_bind; [ | intros ] end
    | match goal with |- atom (match ?x with _ => _ end) => destruct x end ].
Ltac atom_tac0 := repeat atom_step.

Lemma atom_mapM A B (f : A -> M B) l : (forall x, atom (f x)) -> atom (mapM f l).
Proof. intro H. induction l; simpl; atom_tac0. Qed.

Ltac atom_tac := repeat first [ atom_step | apply atom_mapM; intro; cbv beta ].

Lemma atom_copy_or_ref n l : atom (copy_or_ref n l).
Proof. revert l. induction n; intro l; simpl; atom_tac. Qed.
#[global] Hint Resolve atom_copy_or_ref : atomdb.

Lemma atom_deep_copy n l : atom (deep_copy n l).
Proof. revert l. induction n; intro l; simpl; atom_tac. Qed.
#[global] Hint Resolve atom_deep_copy : atomdb.

Lemma atom_show n r l : atom (show n r l).
Proof. revert l. induction n; intro l; simpl; atom_tac. Qed.
#[global] Hint Resolve atom_show : atomdb.

Lemma atom_show_str l : atom (show_str l).
Proof. unfold show_str. atom_tac. Qed.
Lemma atom_join_args a s : atom (join_args a s).
Proof. unfold join_args. atom_tac. Qed.
#[global] Hint Resolve atom_show_str atom_join_args : atomdb.

Lemma atom_equals n a b : atom (equals n a b).
Proof.
  revert a b. induction n; intros a b; simpl; [atom_tac|].
  apply atom_bind; [atom_tac|intros va]. apply atom_bind; [atom_tac|intros vb].
  destruct va, vb; try solve [atom_tac].
  - destruct (negb _); [atom_tac|]. revert els0. induction els; intros [|y yt]; atom_tac.
  - destruct (negb _); [atom_tac|]. generalize (pairs m). intro ps. induction ps as [|[k i] t]; atom_tac.
Qed.
#[global] Hint Resolve atom_equals : atomdb.

Lemma atom_same n a b : atom (same n a b).
Proof.
  revert a b. induction n; intros a b; simpl; [atom_tac|].
  apply atom_bind; [atom_tac|intros g]. apply atom_bind; [atom_tac|intros w].
  destruct g; try solve [atom_tac].
  - destruct w; try solve [atom_tac]. destruct (negb _); [atom_tac|].
    revert els. induction els0; intros [|y yt]; atom_tac.
  - destruct w; try solve [atom_tac]. destruct (negb _); [atom_tac|].
    generalize (pairs m0). intro ps. induction ps as [|[k i] t]; atom_tac.
Qed.
#[global] Hint Resolve atom_same : atomdb.

Lemma atom_load_num l : atom (load_num l).
Proof. unfold load_num. atom_tac. Qed.
Lemma atom_load_str l : atom (load_str l).
Proof. unfold load_str. atom_tac. Qed.
Lemma atom_load_bool l : atom (load_bool l).
Proof. unfold load_bool. atom_tac. Qed.
#[global] Hint Resolve atom_load_num atom_load_str atom_load_bool : atomdb.

Lemma atom_slice_bounds lo hi n : atom (slice_bounds lo hi n).
Proof. unfold slice_bounds. atom_tac. Qed.
Lemma atom_zero_val t : atom (zero_val t).
Proof. unfold zero_val. atom_tac. Qed.
Lemma atom_bin_num op x y : atom (bin_num op x y).
Proof. unfold bin_num. atom_tac. Qed.
Lemma atom_bin_str op x y : atom (bin_str op x y).
Proof. unfold bin_str. atom_tac. Qed.
Lemma atom_bin_bool op x y : atom (bin_bool op x y).
Proof. unfold bin_bool. atom_tac. Qed.
Lemma atom_bin_arr op xs r : atom (bin_arr op xs r).
Proof. unfold bin_arr. atom_tac. Qed.
#[global] Hint Resolve atom_slice_bounds atom_zero_val atom_bin_num atom_bin_str atom_bin_bool atom_bin_arr : atomdb.

Lemma atom_global_err e b msg : atom (global_err e b msg).
Proof. unfold global_err. atom_tac. Qed.
Lemma atom_unwrap_any l : atom (unwrap_any l).
Proof. unfold unwrap_any. atom_tac. Qed.
Lemma atom_none_val : atom none_val.
Proof. unfold none_val. atom_tac. Qed.
Lemma atom_map_set_key m k v : atom (map_set_key m k v).
Proof. unfold map_set_key. atom_tac. Qed.
Lemma atom_bind_params ps args fr : atom (bind_params ps args fr).
Proof. revert args fr. induction ps as [|[n t] ps]; intros; simpl; atom_tac. Qed.
Lemma atom_bind_payload ps args fr : atom (bind_payload ps args fr).
Proof. revert args fr. induction ps as [|[n t] ps]; intros; simpl; atom_tac. Qed.
#[global] Hint Resolve atom_global_err atom_unwrap_any atom_none_val atom_map_set_key atom_bind_params
  atom_bind_payload : atomdb.

(* the test builtin: validate / verdict are atoms, the bookkeeping touches only the test counters *)
Lemma atom_run_test args : atom (run_test args).
Proof.
  unfold run_test. apply atom_bind; [auto with atomdb|intro d].
  intros s r s' H. cbv zeta in H.
  match type of H with
  | (match ?v s with _ => _ end) = _ =>
      assert (Hv : atom v) by atom_tac;
      destruct (v s) as [[u|e] s1] eqn:E1; destruct (Hv _ _ _ E1) as (C1 & T1 & I1)
  end.
  - match type of H with
    | (match ?v s1 with _ => _ end) = _ =>
        assert (Hw : atom v) by atom_tac;
        destruct (v s1) as [[[|]|e] s2] eqn:E2; destruct (Hw _ _ _ E2) as (C2 & T2 & I2)
    end.
    + inversion H; subst; clear H.
      split; [eapply ctl_eq_trans; [eauto|]; eapply ctl_eq_trans; [eauto|]; repeat split|].
      split; [eapply suffix_trans; eauto|].
      intros. cbv zeta. rewrite I1, I2. reflexivity.
    + simpl in H.
      assert (ctl_eq s s2) by (eapply ctl_eq_trans; eauto).
      assert (suffix (st_trace s) (st_trace s2)) by (eapply suffix_trans; eauto).
      destruct (st_failfast s2) eqn:FF; inversion H; subst; clear H;
        (split; [eapply ctl_eq_trans; [eauto|]; repeat split|]; split; [auto|];
         intros; cbv zeta; rewrite I1, I2; simpl; rewrite FF; reflexivity).
    + inversion H; subst; clear H.
      split; [eapply ctl_eq_trans; [eauto|]; eapply ctl_eq_trans; [eauto|]; repeat split|].
      split; [eapply suffix_trans; eauto|].
      intros. cbv zeta. rewrite I1, I2. reflexivity.
  - inversion H; subst; clear H.
    split; [eapply ctl_eq_trans; [eauto|]; repeat split|]. split; [auto|].
    intros. cbv zeta. rewrite I1. reflexivity.
Qed.
#[global] Hint Resolve atom_run_test : atomdb.

Lemma atom_read :
  atom (fun s => match st_input s with
                 | [] => (let* l := alloc (HStr []) in ret (Some l)) (upd_trace (EvRead :: st_trace s) s)
                 | x :: t => (let* l := alloc (HStr x) in ret (Some l)) (upd_input t (upd_trace (EvRead :: st_trace s) s))
                 end).
Proof.
  intros s r s' H. simpl.
  destruct (st_input s); inversion H; subst; clear H; repeat split; simpl; auto.
Qed.

(* a computation that factors through the heap (SemPure: every pure built-in) is an atom *)
Lemma atom_heap_only A (m : M A) : heap_only m -> atom m.
Proof.
  intros HO s r s' H. destruct (heap_only_run m s r s' HO H) as (E & _ & T).
  rewrite E. repeat split; auto.
  intros o b y c. rewrite (T (set_ctl o b y c s) eq_refl). reflexivity.
Qed.

(* ONE lemma for the built-ins, by a uniform walk over the [if name_is ...] chain; the pure
   string and math built-ins through the generic SemPure.pure_builtin_spec *)
Lemma atom_builtin name e args m : builtin name e args = Some m -> atom m.
Proof.
  intro H. unfold builtin in H.
  repeat match type of H with
         | (if ?c then _ else _) = Some _ =>
             destruct c; [ injection H as <-; first [ apply atom_read | atom_tac ] | ]
         end.
  eapply atom_heap_only, pure_builtin_spec; exact H.
Qed.

(* ---------- computations built from atoms and ticks ---------- *)
Inductive Built : forall {A : Type}, M A -> Prop :=
| B_atom A (m : M A) : atom m -> Built m
| B_tick : Built tick
| B_bind A B (m : M A) (f : A -> M B) : Built m -> (forall a, Built (f a)) -> Built (bindM m f)
| B_ext A (m m' : M A) : (forall s, m s = m' s) -> Built m -> Built m'.

Ltac built_step :=
  first
    [ assumption
    | match goal with H : forall _, _ |- Built _ => apply H end
    | apply B_tick
    | apply B_atom; solve [auto with atomdb]
    | match goal with |- Built (bindM _ _) => apply B_bind; [ | intros ] end
    | match goal with |- Built (match ?x with _ => _ end) => destruct x end
    | apply B_atom; solve [atom_tac] ].
Ltac built_tac := repeat built_step.

Definition BuiltAll (n : nat) : Prop :=
  (forall P e x, Built (eval_expr n P e x)) /\
  (forall P e l, Built (eval_exprs n P e l)) /\
  (forall P e name args, Built (eval_call n P e name args)) /\
  (forall P e s, Built (exec_stmt n P e s)) /\
  (forall P e l, Built (exec_stmts n P e l)) /\
  (forall P e l, Built (exec_block n P e l)) /\
  (forall P e c body, Built (exec_cond n P e c body)) /\
  (forall P e c body, Built (exec_while n P e c body)) /\
  (forall P e var rg body, Built (exec_for n P e var rg body)).

Lemma built_all : forall n, BuiltAll n.
Proof.
  induction n.
  - repeat split; intros; apply B_atom; apply atom_fail.
  - destruct IHn as (IH1 & IH2 & IH3 & IH4 & IH5 & IH6 & IH7 & IH8 & IH9).
    repeat split; intros.
    + cbn [eval_expr]. apply B_bind; [apply B_tick|intros _].
      destruct x; try solve [built_tac].
      * (* EMap *)
        apply B_bind; [built_tac|intro d]. apply B_bind; [|intros; built_tac].
        induction pairs as [|[k a] ps IHps]; simpl; built_tac.
    + cbn [eval_exprs]. built_tac.
    + cbn [eval_call]. apply B_bind; [built_tac|intro vals].
      destruct (str_eqb name n_test); [built_tac|].
      destruct (builtin name e vals) eqn:Eb.
      * apply B_atom. exact (atom_builtin _ _ _ _ Eb).
      * built_tac.
    + cbn [exec_stmt]. apply B_bind; [apply B_tick|intros _].
      destruct s; try solve [built_tac].
      * (* SIf *)
        revert e. induction conds as [|[c body] cs IHcs]; intro e; simpl; built_tac.
    + cbn [exec_stmts]. built_tac.
    + cbn [exec_block]. built_tac.
    + cbn [exec_cond]. built_tac.
    + cbn [exec_while]. built_tac.
    + cbn [exec_for]. apply B_bind; [|intros; built_tac].
      destruct rg; try solve [built_tac].
      apply B_bind; [built_tac|intro v]. destruct v; try solve [built_tac].
      induction todo; simpl; built_tac.
Qed.

Lemma built_eval_expr n P e x : Built (eval_expr n P e x). Proof. apply built_all. Qed.
Lemma built_eval_exprs n P e l : Built (eval_exprs n P e l). Proof. apply built_all. Qed.
Lemma built_eval_call n P e f a : Built (eval_call n P e f a). Proof. apply built_all. Qed.
Lemma built_exec_stmt n P e s : Built (exec_stmt n P e s). Proof. apply built_all. Qed.
Lemma built_exec_stmts n P e l : Built (exec_stmts n P e l). Proof. apply built_all. Qed.
Lemma built_exec_block n P e l : Built (exec_block n P e l). Proof. apply built_all. Qed.
Lemma built_exec_cond n P e c b : Built (exec_cond n P e c b). Proof. apply built_all. Qed.
Lemma built_exec_while n P e c b : Built (exec_while n P e c b). Proof. apply built_all. Qed.
Lemma built_exec_for n P e v r b : Built (exec_for n P e v r b). Proof. apply built_all. Qed.
#[global] Hint Resolve built_eval_expr built_eval_exprs built_eval_call built_exec_stmt built_exec_stmts
  built_exec_block built_exec_cond built_exec_while built_exec_for : core.

(* ---------- monotonicity (any stop plan, either order of the stop test) ---------- *)
Definition Mono {A} (m : M A) : Prop :=
  forall s r s', m s = (r, s') ->
    st_yields s <= st_yields s' /\ suffix (st_trace s) (st_trace s') /\
    st_stop_at s' = st_stop_at s /\ st_check_after_yield s' = st_check_after_yield s /\
    (st_stopped s = true -> st_stopped s' = true /\ st_yields s' = st_yields s).

Lemma mono_tick : Mono tick.
Proof.
  intros s r s' H. unfold tick in H. destruct (st_stopped s) eqn:St.
  - inversion H; subst. repeat split; auto.
  - destruct (_ && _); inversion H; subst; simpl; repeat split; auto; discriminate.
Qed.

Theorem built_mono A (m : M A) : Built m -> Mono m.
Proof.
  induction 1.
  - intros s r s' E. destruct (H _ _ _ E) as ((Y & O & S & C) & T & _).
    repeat split; auto; try lia; congruence.
  - apply mono_tick.
  - intros s r s2 E. unfold bindM in E. destruct (m s) as [[a|e] s1] eqn:E1.
    + destruct (IHBuilt _ _ _ E1) as (Y1 & T1 & O1 & C1 & S1).
      destruct (H1 a _ _ _ E) as (Y2 & T2 & O2 & C2 & S2).
      split; [lia|]. split; [eapply suffix_trans; eauto|]. split; [congruence|]. split; [congruence|].
      intro St. destruct (S1 St) as (St1 & Ye1). destruct (S2 St1) as (St2 & Ye2). split; [auto|lia].
    + inversion E; subst. eauto.
  - intros s r s' E. rewrite <- H in E. eauto.
Qed.

(* ---------- the stop simulation ---------- *)
(* an uninterrupted run of the corrected code, not (yet) stopped *)
Definition live (s : state) : Prop :=
  st_stopped s = false /\ st_check_after_yield s = true /\ st_stop_at s = None.

(* the final state of a run stopped by the flag raised at yield k *)
Definition stopped_at (k : nat) (s : state) : Prop :=
  st_yields s = S k /\ st_stopped s = true /\ st_stop_at s = Some k /\ st_check_after_yield s = true.

Definition StopSim {A} (m : M A) : Prop :=
  forall k s r s', live s -> m s = (r, s') ->
    live s' /\ st_yields s <= st_yields s' /\ suffix (st_trace s) (st_trace s') /\
    ((st_yields s <= k < st_yields s' /\
      exists sk, m (set_stop (Some k) s) = (Er EStopped, sk) /\ stopped_at k sk /\
                 suffix (st_trace s) (st_trace sk) /\ suffix (st_trace sk) (st_trace s'))
     \/
     (~ (st_yields s <= k < st_yields s') /\ m (set_stop (Some k) s) = (r, set_stop (Some k) s'))).

Lemma set_stop_ctl_eq o s s' :
  ctl_eq s s' ->
  set_ctl o (st_stopped s) (st_yields s) (st_check_after_yield s) s' = set_stop o s'.
Proof. intros (a & b & c & d). unfold set_stop. now rewrite a, c, d. Qed.

Lemma stopsim_atom A (m : M A) : atom m -> StopSim m.
Proof.
  intros Hm k s r s' (L1 & L2 & L3) E. destruct (Hm _ _ _ E) as (C & T & I).
  pose proof C as (Cy & Co & Cs & Cc).
  split; [unfold live; repeat split; congruence|]. split; [lia|]. split; [auto|].
  right. split; [lia|]. unfold set_stop at 1. rewrite I. f_equal. now apply set_stop_ctl_eq.
Qed.

Lemma stopsim_tick : StopSim tick.
Proof.
  intros k s r s' (L1 & L2 & L3) E. unfold tick in E. rewrite L1, L3 in E. simpl in E.
  inversion E; subst; clear E. simpl.
  split; [unfold live; simpl; auto|]. split; [lia|]. split; [auto|].
  destruct (Nat.eqb k (st_yields s)) eqn:K.
  - apply Nat.eqb_eq in K. left. split; [lia|].
    exists (upd_yield (S (st_yields s)) true (set_stop (Some k) s)).
    split.
    + unfold tick. simpl. rewrite L1, L2. subst k. now rewrite Nat.eqb_refl.
    + unfold stopped_at. simpl. repeat split; auto; now subst.
  - apply Nat.eqb_neq in K. right. split; [lia|].
    unfold tick. simpl. rewrite L1. apply Nat.eqb_neq in K. rewrite K. reflexivity.
Qed.

Lemma stopsim_bind A B (m : M A) (f : A -> M B) :
  StopSim m -> (forall a, StopSim (f a)) -> StopSim (bindM m f).
Proof.
  intros Hm Hf k s r s2 L H. unfold bindM in H. destruct (m s) as [[a|e] s1] eqn:E.
  - destruct (Hm k _ _ _ L E) as (L1 & Y1 & T1 & D1).
    destruct (Hf a k _ _ _ L1 H) as (L2 & Y2 & T2 & D2).
    split; [auto|]. split; [lia|]. split; [eapply suffix_trans; eauto|].
    destruct D1 as [(R1 & sk & Ek & Sk & Ta & Tb) | (N1 & Ek)].
    + left. split; [lia|]. exists sk. unfold bindM. rewrite Ek.
      repeat split; auto; try apply Sk. eapply suffix_trans; eauto.
    + destruct D2 as [(R2 & sk & Ek2 & Sk & Ta & Tb) | (N2 & Ek2)].
      * left. split; [lia|]. exists sk. unfold bindM. rewrite Ek.
        split; [exact Ek2|]. split; [auto|]. split; [eapply suffix_trans; eauto|auto].
      * right. split; [lia|]. unfold bindM. rewrite Ek. exact Ek2.
  - inversion H; subst. destruct (Hm k _ _ _ L E) as (L1 & Y1 & T1 & D1).
    split; [auto|]. split; [auto|]. split; [auto|].
    destruct D1 as [(R1 & sk & Ek & Rest) | (N1 & Ek)].
    + left. split; [auto|]. exists sk. unfold bindM. rewrite Ek. auto.
    + right. split; [auto|]. unfold bindM. rewrite Ek. auto.
Qed.

Theorem built_stopsim A (m : M A) : Built m -> StopSim m.
Proof.
  induction 1.
  - now apply stopsim_atom.
  - apply stopsim_tick.
  - now apply stopsim_bind.
  - intros k s r s' L E. rewrite <- H in E. rewrite <- H. eauto.
Qed.

(* ---------- C14.1  stop_is_prefix ---------- *)
(* [m] run from the same state s0 (not stopped, corrected order of the stop test)
   once uninterrupted and once with the flag raised during yield number k.
   No fuel caveat: both runs have the same fuel, and the statement holds whatever
   the uninterrupted result is (including Er EOutOfFuel). *)
Definition StopPrefix {A} (m : M A) : Prop :=
  forall k s0, st_stopped s0 = false -> st_check_after_yield s0 = true ->
  forall rI sI, m (set_stop None s0) = (rI, sI) ->
  forall rk sk, m (set_stop (Some k) s0) = (rk, sk) ->
    (* the flag is never raised: yield number k does not happen in this run *)
    (~ (st_yields s0 <= k < st_yields sI) /\
     rk = rI /\ sk = set_stop (Some k) sI /\ st_stopped sk = false)
    \/
    (* the flag is raised at yield k *)
    (st_yields s0 <= k < st_yields sI /\
     rk = Er EStopped /\ st_yields sk = S k /\ st_stopped sk = true /\
     prefix (rev (st_trace s0)) (rev (st_trace sk)) /\
     prefix (rev (st_trace sk)) (rev (st_trace sI))).

Theorem built_stop_prefix A (m : M A) : Built m -> StopPrefix m.
Proof.
  intros Hb k s0 St Ck rI sI EI rk sk Ek.
  assert (L : live (set_stop None s0)) by (unfold live; simpl; auto).
  destruct (built_stopsim _ _ Hb k _ _ _ L EI) as ((L1 & L2 & L3) & Y & T & D).
  change (set_stop (Some k) (set_stop None s0)) with (set_stop (Some k) s0) in D.
  simpl in Y, T, D.
  destruct D as [(R & sk' & Ek' & (S1 & S2 & S3 & S4) & Ta & Tb) | (N & Ek')];
    rewrite Ek in Ek'; inversion Ek'; subst.
  - right. repeat split; auto using suffix_prefix_rev; lia.
  - left. repeat split; auto.
Qed.

Definition StopPrefixAll (n : nat) (P : program) : Prop :=
  (forall e x, StopPrefix (eval_expr n P e x)) /\
  (forall e l, StopPrefix (eval_exprs n P e l)) /\
  (forall e name args, StopPrefix (eval_call n P e name args)) /\
  (forall e s, StopPrefix (exec_stmt n P e s)) /\
  (forall e l, StopPrefix (exec_stmts n P e l)) /\
  (forall e l, StopPrefix (exec_block n P e l)) /\
  (forall e c body, StopPrefix (exec_cond n P e c body)) /\
  (forall e c body, StopPrefix (exec_while n P e c body)) /\
  (forall e var rg body, StopPrefix (exec_for n P e var rg body)).

Theorem stop_is_prefix : forall n P, StopPrefixAll n P.
Proof. intros. repeat split; intros; apply built_stop_prefix; auto. Qed.

(* ----- lifted to whole runs ----- *)
Definition program_m (fuel : nat) (P : program) : M unit :=
  let* _ := tick in let* _ := exec_stmts fuel P [] (p_stmts P) in ret tt.

Lemma built_program_m fuel P : Built (program_m fuel P).
Proof.
  unfold program_m. apply B_bind; [apply B_tick|intros _].
  apply B_bind; [auto|intros _]. apply B_atom, atom_ret.
Qed.

Lemma test_report_set_stop o s : test_report (set_stop o s) = set_stop o (test_report s).
Proof. unfold test_report. simpl. destruct (Nat.eqb (st_total s) 0); reflexivity. Qed.
Lemma test_report_yields s : st_yields (test_report s) = st_yields s.
Proof. unfold test_report. destruct (Nat.eqb (st_total s) 0); reflexivity. Qed.
Lemma test_report_fails s : st_fails (test_report s) = st_fails s.
Proof. unfold test_report. destruct (Nat.eqb (st_total s) 0); reflexivity. Qed.
Lemma test_report_trace s :
  st_trace (test_report s) = st_trace s \/ exists txt, st_trace (test_report s) = EvPrint [PStr txt] :: st_trace s.
Proof. unfold test_report. destruct (Nat.eqb (st_total s) 0); [auto|]. right. simpl. eauto. Qed.
Lemma test_report_no_tests s : st_total s = 0 -> test_report s = s.
Proof. unfold test_report. now intros ->. Qed.

(* the summary of the tests run so far: nothing, or one print event *)
Definition summary_tail (tail : list event) : Prop := tail = [] \/ exists txt, tail = [EvPrint [PStr txt]].

Theorem run_program_stop_prefix : forall fuel P k s0,
  st_stopped s0 = false -> st_check_after_yield s0 = true ->
  forall oI sI, run_program fuel P (set_stop None s0) = (oI, sI) ->
  forall ok sk, run_program fuel P (set_stop (Some k) s0) = (ok, sk) ->
    (~ (st_yields s0 <= k < st_yields sI) /\ ok = oI /\ sk = set_stop (Some k) sI)
    \/
    (st_yields s0 <= k < st_yields sI /\ ok = OErr EStopped /\ st_yields sk = S k /\
     exists pre tail, rev (st_trace sk) = pre ++ tail /\
                      prefix (rev (st_trace s0)) pre /\ prefix pre (rev (st_trace sI)) /\
                      summary_tail tail /\ (st_total sk = 0 -> tail = [])).
Proof.
  intros fuel P k s0 St Ck oI sI EI ok sk Ek.
  unfold run_program in EI, Ek. fold (program_m fuel P) in EI, Ek.
  destruct (program_m fuel P (set_stop None s0)) as [rI s1] eqn:E1.
  destruct (program_m fuel P (set_stop (Some k) s0)) as [rk s1k] eqn:E1k.
  destruct (built_stop_prefix _ _ (built_program_m fuel P) k s0 St Ck _ _ E1 _ _ E1k)
    as [(N & -> & -> & _) | (R & -> & Y & S & Pa & Pb)].
  - left.
    assert (st_yields sI = st_yields s1).
    { destruct rI as [|[]]; inversion EI; subst; try destruct (Nat.ltb _ _); 
        try match goal with H : (_, _) = (_, _) |- _ => inversion H; subst end;
        auto using test_report_yields. }
    split; [lia|].
    destruct rI as [u|e].
    + rewrite test_report_set_stop in Ek. simpl in Ek. 
      destruct (Nat.ltb 0 (st_fails (test_report s1))); inversion EI; inversion Ek; subst; auto.
    + destruct e; inversion EI; inversion Ek; subst; rewrite ?test_report_set_stop; auto.
  - inversion Ek; subst; clear Ek.
    assert (Ys : st_yields sI = st_yields s1 /\ suffix (st_trace s1) (st_trace sI)).
    { assert (suffix (st_trace s1) (st_trace (test_report s1))).
      { destruct (test_report_trace s1) as [->|(t & ->)]; auto. }
      destruct rI as [|[]]; inversion EI; subst; try destruct (Nat.ltb _ _);
        try match goal with H : (_, _) = (_, _) |- _ => inversion H; subst end;
        auto using test_report_yields. }
    destruct Ys as (Ys & Ts).
    right. split; [lia|]. split; [auto|]. split; [now rewrite test_report_yields|].
    exists (rev (st_trace s1k)).
    destruct (test_report_trace s1k) as [E|(txt & E)].
    + exists []. rewrite E, app_nil_r. split; [auto|]. split; [auto|].
      split; [eapply prefix_trans; [eauto|]; now apply suffix_prefix_rev|].
      split; [left; auto|auto].
    + exists [EvPrint [PStr txt]]. rewrite E. simpl. split; [auto|]. split; [auto|].
      split; [eapply prefix_trans; [eauto|]; now apply suffix_prefix_rev|].
      split; [right; eauto|].
      intro Z. exfalso.
      assert (st_total s1k = 0).
      { unfold test_report in Z. destruct (Nat.eqb (st_total s1k) 0) eqn:Q; [now apply Nat.eqb_eq|exact Z]. }
      rewrite test_report_no_tests in E by auto.
      apply (f_equal (@List.length _)) in E. simpl in E. lia.
Qed.

Definition handler_m (fuel : nat) (P : program) (h : handler) (args : list payload) : M unit :=
  let* fr := bind_payload (h_params h) args [] in
  let* _ := exec_block fuel P [fr] (h_body h) in ret tt.

Lemma built_handler_m fuel P h args : Built (handler_m fuel P h args).
Proof.
  unfold handler_m. apply B_bind; [apply B_atom; auto with atomdb|intro fr].
  apply B_bind; [auto|intros _]. apply B_atom, atom_ret.
Qed.

Theorem handle_event_stop_prefix : forall fuel P name args k s0,
  st_stopped s0 = false -> st_check_after_yield s0 = true ->
  forall oI sI, handle_event fuel P name args (set_stop None s0) = (oI, sI) ->
  forall ok sk, handle_event fuel P name args (set_stop (Some k) s0) = (ok, sk) ->
    (~ (st_yields s0 <= k < st_yields sI) /\ ok = oI /\ sk = set_stop (Some k) sI)
    \/
    (st_yields s0 <= k < st_yields sI /\ ok = OErr EStopped /\ st_yields sk = S k /\ st_stopped sk = true /\
     prefix (rev (st_trace s0)) (rev (st_trace sk)) /\ prefix (rev (st_trace sk)) (rev (st_trace sI))).
Proof.
  intros fuel P name args k s0 St Ck oI sI EI ok sk Ek.
  unfold handle_event in EI, Ek. destruct (find_handler name (p_handlers P)) as [h|].
  - fold (handler_m fuel P h args) in EI, Ek.
    destruct (handler_m fuel P h args (set_stop None s0)) as [rI s1] eqn:E1.
    destruct (handler_m fuel P h args (set_stop (Some k) s0)) as [rk s1k] eqn:E1k.
    destruct (built_stop_prefix _ _ (built_handler_m fuel P h args) k s0 St Ck _ _ E1 _ _ E1k)
      as [(N & -> & -> & _) | (R & -> & Y & S & Pa & Pb)].
    + left. destruct rI; inversion EI; inversion Ek; subst; auto.
    + right. inversion Ek; subst. destruct rI; inversion EI; subst; auto 10.
  - left. inversion EI; inversion Ek; subst. simpl. split; [lia|auto].
Qed.

(* ---------- nothing runs once the flag is up ---------- *)
Definition stopped_err (n : nat) : err := match n with O => EOutOfFuel | S _ => EStopped end.

(* the three functions that model Evaluator.eval (they tick first): no state change at all *)
Lemma frozen_eval_expr n P e x s : st_stopped s = true -> eval_expr n P e x s = (Er (stopped_err n), s).
Proof. intro H. destruct n; [reflexivity|]. cbn [eval_expr]. unfold bindM, tick. now rewrite H. Qed.
Lemma frozen_exec_stmt n P e x s : st_stopped s = true -> exec_stmt n P e x s = (Er (stopped_err n), s).
Proof. intro H. destruct n; [reflexivity|]. cbn [exec_stmt]. unfold bindM, tick. now rewrite H. Qed.
Lemma frozen_exec_block n P e l s : st_stopped s = true -> exec_block n P e l s = (Er (stopped_err n), s).
Proof. intro H. destruct n; [reflexivity|]. cbn [exec_block]. unfold bindM, tick. now rewrite H. Qed.

(* the helpers that do not tick themselves: whatever they evaluate first does *)
Lemma frozen_eval_exprs n P e l s : st_stopped s = true ->
  exists r, eval_exprs n P e l s = (r, s) /\ (forall v, r = Ok v -> l = [] /\ v = []).
Proof.
  intro H. destruct n; [eexists; split; [reflexivity|discriminate]|]. cbn [eval_exprs].
  destruct l as [|x t].
  - eexists; split; [reflexivity|]. intros v E. inversion E; auto.
  - unfold bindM. rewrite frozen_eval_expr by auto. eexists; split; [reflexivity|discriminate].
Qed.
Lemma frozen_exec_stmts n P e l s : st_stopped s = true ->
  exists r, exec_stmts n P e l s = (r, s) /\ (forall v, r = Ok v -> l = []).
Proof.
  intro H. destruct n; [eexists; split; [reflexivity|discriminate]|]. cbn [exec_stmts].
  destruct l as [|x t].
  - eexists; split; [reflexivity|auto].
  - unfold bindM. rewrite frozen_exec_stmt by auto. eexists; split; [reflexivity|discriminate].
Qed.
Lemma frozen_exec_cond n P e c b s : st_stopped s = true ->
  exists err, exec_cond n P e c b s = (Er err, s).
Proof.
  intro H. destruct n; [eexists; reflexivity|]. cbn [exec_cond]. unfold bindM.
  rewrite frozen_eval_expr by auto. eauto.
Qed.
Lemma frozen_exec_while n P e c b s : st_stopped s = true ->
  exists err, exec_while n P e c b s = (Er err, s).
Proof.
  intro H. destruct n; [eexists; reflexivity|]. cbn [exec_while]. unfold bindM.
  destruct (frozen_exec_cond n P e c b s H) as (err & ->). eauto.
Qed.
Lemma frozen_eval_call n P e name x t s : st_stopped s = true ->
  exists err, eval_call n P e name (x :: t) s = (Er err, s).
Proof.
  intro H. destruct n; [eexists; reflexivity|]. cbn [eval_call]. unfold bindM.
  destruct (frozen_eval_exprs n P e (x :: t) s H) as ([v|err] & -> & Hv); [|eauto].
  destruct (Hv v eq_refl). discriminate.
Qed.

(* every Built computation (in particular exec_for, whose ranger may still allocate
   the next element, and eval_call on an empty argument list): no yield, flag stays up *)
Lemma frozen_built A (m : M A) s r s' : Built m -> st_stopped s = true -> m s = (r, s') ->
  st_stopped s' = true /\ st_yields s' = st_yields s.
Proof. intros Hb St E. apply (built_mono _ _ Hb _ _ _ E). auto. Qed.

(* ---------- C14.2  nothing_after_stop, on final states ---------- *)
(* the raising tick cuts every continuation: with the corrected order, whatever [f]
   is, it is not run; the state differs from the one the tick was entered with only
   in the yield counter and the flag *)
Lemma tick_raise_cuts B (f : unit -> M B) s :
  st_stopped s = false -> st_check_after_yield s = true -> st_stop_at s = Some (st_yields s) ->
  bindM tick f s = (Er EStopped, upd_yield (S (st_yields s)) true s).
Proof. intros St Ck At. unfold bindM, tick. now rewrite St, At, Ck, Nat.eqb_refl. Qed.

(* a run with the flag raised at yield k (alone, no reference run): as soon as the
   flag is up at the end, the result is "stopped" and the raising yield was the
   last one: the evaluator never reached another eval prologue *)
Theorem stop_is_immediate A (m : M A) : Built m ->
  forall k s r s', st_stopped s = false -> st_check_after_yield s = true -> st_stop_at s = Some k ->
  m s = (r, s') ->
  (st_stopped s' = false /\ ~ (st_yields s <= k < st_yields s'))
  \/ (st_stopped s' = true /\ r = Er EStopped /\ st_yields s' = S k /\ st_yields s <= k).
Proof.
  intros Hb k s r s' St Ck At E.
  destruct (m (set_stop None s)) as [rI sI] eqn:EI.
  assert (Es : set_stop (Some k) s = s) by (rewrite <- At; apply set_stop_id).
  rewrite <- Es in E.
  destruct (built_stop_prefix _ _ Hb k s St Ck _ _ EI _ _ E) as [(N & -> & -> & S0) | (R & -> & Y & S1 & _)].
  - left. split; [auto|]. simpl. exact N.
  - right. repeat split; auto; lia.
Qed.

(* ---------- C14.3  a yield per loop iteration, call and event ---------- *)
(* one-step unfoldings (all by computation) *)
Lemma exec_block_unfold f P e l : exec_block (S f) P e l = (let* _ := tick in exec_stmts f P e l).
Proof. reflexivity. Qed.
Lemma exec_stmts_unfold f P e s t :
  exec_stmts (S f) P e (s :: t) =
  (let* (sig, e1) := exec_stmt f P e s in if is_ctl sig then ret (sig, e1) else exec_stmts f P e1 t).
Proof. reflexivity. Qed.
Lemma exec_cond_unfold f P e c body :
  exec_cond (S f) P e c body =
  (let* l := eval_expr f P ([] :: e) c in
   let* v := load l in
   match v with
   | HBool true => let* (sig, e2) := exec_block f P ([] :: e) body in ret (Some sig, tl e2)
   | HBool false => ret (None, e)
   | _ => internal "conditional not a bool"
   end).
Proof. reflexivity. Qed.
Lemma exec_while_unfold f P e c body :
  exec_while (S f) P e c body =
  (let* (r, e1) := exec_cond f P e c body in
   match r with
   | None => ret (SigNone, e1)
   | Some SigBreak => ret (SigNone, e1)
   | Some (SigReturn v) => ret (SigReturn v, e1)
   | Some SigNone => exec_while f P e1 c body
   end).
Proof. reflexivity. Qed.

(* ranger.next, named (it is an atom: it never ticks) *)
Definition ranger_next (rg : ranger) : M (option (loc * ranger)) :=
  match rg with
  | RgStep cur stop step =>
      if (PrimFloat.ltb 0 step && PrimFloat.leb stop cur) || (PrimFloat.ltb step 0 && PrimFloat.leb cur stop)
      then ret None
      else let* l := alloc (HNum cur) in ret (Some (l, RgStep (cur + step)%float stop step))
  | RgArr a cur =>
      let* v := load a in
      match v with
      | HArr els => match nth_error els cur with
                    | Some l => ret (Some (l, RgArr a (S cur)))
                    | None => ret None end
      | _ => crash "range over non-array"
      end
  | RgStr s cur =>
      match nth_error s cur with
      | Some c => let* l := alloc (HStr [c]) in ret (Some (l, RgStr s (S cur)))
      | None => ret None
      end
  | RgMap m todo =>
      let* v := load m in
      match v with
      | HMap om =>
          (fix next (ks : list str) : M (option (loc * ranger)) :=
             match ks with
             | [] => ret None
             | k :: t => if ohas k om then let* l := alloc (HStr k) in ret (Some (l, RgMap m t))
                         else next t
             end) todo
      | _ => crash "range over non-map"
      end
  end.

Lemma exec_for_unfold f P e var rg body :
  exec_for (S f) P e var rg body =
  (let* nx := ranger_next rg in
   match nx with
   | None => ret (SigNone, e)
   | Some (l, rg') =>
       let* e1 := update_var var l e in
       let* (sig, e2') := exec_block f P ([] :: e1) body in
       let e2 := tl e2' in
       match sig with
       | SigBreak => ret (SigNone, e2)
       | SigReturn v => ret (SigReturn v, e2)
       | SigNone => exec_for f P e2 var rg' body
       end
   end).
Proof. reflexivity. Qed.

Lemma atom_ranger_next rg : atom (ranger_next rg).
Proof.
  destruct rg; simpl; try solve [atom_tac].
  apply atom_bind; [atom_tac|intro v]. destruct v; try solve [atom_tac].
  induction todo; simpl; atom_tac.
Qed.
#[global] Hint Resolve atom_ranger_next : atomdb.

(* a computation that starts with the eval prologue *)
Definition TickFirst {A} (m : M A) : Prop :=
  exists K, Built K /\ forall s, m s = bindM tick (fun _ => K) s.

Lemma tick_counts s r s' : tick s = (r, s') ->
  (st_stopped s = true /\ r = Er EStopped /\ s' = s) \/ (st_stopped s = false /\ st_yields s' = S (st_yields s)).
Proof.
  unfold tick. destruct (st_stopped s); intro H.
  - left. inversion H; auto.
  - right. destruct (_ && _); inversion H; subst; auto.
Qed.

Lemma tick_first_yields A (m : M A) s r s' : TickFirst m -> m s = (r, s') ->
  (st_stopped s = true /\ r = Er EStopped /\ s' = s) \/ (st_stopped s = false /\ S (st_yields s) <= st_yields s').
Proof.
  intros (K & HK & E) H. rewrite E in H. unfold bindM in H.
  destruct (tick s) as [[u|e] s1] eqn:T; destruct (tick_counts _ _ _ T) as [(St & Hr & Hs) | (St & Y)];
    try discriminate.
  - right. split; [auto|]. apply (built_mono _ _ HK) in H. lia.
  - left. inversion H; inversion Hr; subst; auto.
  - right. inversion H; subst. split; [auto|lia].
Qed.

Lemma tick_first_ok A (m : M A) s a s' : TickFirst m -> m s = (Ok a, s') -> S (st_yields s) <= st_yields s'.
Proof. intros T H. destruct (tick_first_yields _ _ _ _ _ T H) as [(_ & ? & _)|(_ & ?)]; [discriminate|auto]. Qed.

Lemma exec_block_tick_first f P e l : TickFirst (exec_block (S f) P e l).
Proof. exists (exec_stmts f P e l). split; [auto|]. intro s. reflexivity. Qed.

Lemma eval_expr_tick_first f P e x : TickFirst (eval_expr (S f) P e x).
Proof.
  eexists. split. 2:{ intro s. cbn [eval_expr]. reflexivity. }
  destruct (built_all f) as (IH1 & IH2 & IH3 & IH4 & IH5 & IH6 & IH7 & IH8 & IH9).
  destruct x; try solve [built_tac].
  apply B_bind; [built_tac|intro d]. apply B_bind; [|intros; built_tac].
  induction pairs as [|[k a] ps IHps]; simpl; built_tac.
Qed.

Lemma exec_stmt_tick_first f P e x : TickFirst (exec_stmt (S f) P e x).
Proof.
  eexists. split. 2:{ intro s. cbn [exec_stmt]. reflexivity. }
  destruct (built_all f) as (IH1 & IH2 & IH3 & IH4 & IH5 & IH6 & IH7 & IH8 & IH9).
  destruct x; try solve [built_tac].
  revert e. induction conds as [|[c body] cs IHcs]; intro e; simpl; built_tac.
Qed.

(* every completed evaluation of an expression, a statement or a block yielded at least once *)
Theorem eval_expr_yields n P e x s a s' : eval_expr n P e x s = (Ok a, s') -> S (st_yields s) <= st_yields s'.
Proof. destruct n; [discriminate|]. apply tick_first_ok, eval_expr_tick_first. Qed.
Theorem exec_stmt_yields n P e x s a s' : exec_stmt n P e x s = (Ok a, s') -> S (st_yields s) <= st_yields s'.
Proof. destruct n; [discriminate|]. apply tick_first_ok, exec_stmt_tick_first. Qed.
Theorem exec_block_yields n P e body s a s' :
  exec_block n P e body s = (Ok a, s') -> S (st_yields s) <= st_yields s'.
Proof. destruct n; [discriminate|]. apply tick_first_ok, exec_block_tick_first. Qed.

(* ... and a block that is entered while the flag is down yields before its first statement,
   however it ends (normally, with an error, stopped, or out of fuel further down) *)
Theorem exec_block_yields_first f P e body s :
  exec_block (S f) P e body s =
  if st_stopped s then (Er EStopped, s)
  else
    let raised := match st_stop_at s with Some k => Nat.eqb k (st_yields s) | None => false end in
    let s1 := upd_yield (S (st_yields s)) raised s in
    if raised && st_check_after_yield s then (Er EStopped, s1) else exec_stmts f P e body s1.
Proof.
  rewrite exec_block_unfold. unfold bindM, tick. destruct (st_stopped s); [reflexivity|].
  cbv zeta. destruct (_ && _); reflexivity.
Qed.

Lemma mono_yields A (m : M A) s r s' : Built m -> m s = (r, s') -> st_yields s <= st_yields s'.
Proof. intros Hb E. apply (built_mono _ _ Hb _ _ _ E). Qed.

(* one iteration of a while loop: the condition and the body block each yield *)
Theorem while_iteration_yields f P e c body s e1 s1 :
  exec_cond f P e c body s = (Ok (Some SigNone, e1), s1) ->
  exec_while (S f) P e c body s = exec_while f P e1 c body s1 /\ st_yields s + 2 <= st_yields s1.
Proof.
  intro H. split.
  - rewrite exec_while_unfold. unfold bindM. now rewrite H.
  - destruct f; [discriminate|]. rewrite exec_cond_unfold in H. unfold bindM in H.
    destruct (eval_expr f P ([] :: e) c s) as [[l|?] s2] eqn:E1; [|discriminate].
    apply eval_expr_yields in E1.
    destruct (load l s2) as [[v|?] s3] eqn:E2; [|discriminate].
    assert (st_yields s2 <= st_yields s3) by (eapply mono_yields; [|eauto]; apply B_atom; auto with atomdb).
    destruct v as [| |[|]| | | |]; try discriminate.
    destruct (exec_block f P ([] :: e) body s3) as [[[sig e2]|?] s4] eqn:E3; [|discriminate].
    apply exec_block_yields in E3. inversion H; subst. lia.
Qed.

(* one iteration of a for loop *)
Theorem for_iteration_yields f P e var rg body s l rg' s1 e1 s2 e2 s3 :
  ranger_next rg s = (Ok (Some (l, rg')), s1) ->
  update_var var l e s1 = (Ok e1, s2) ->
  exec_block f P ([] :: e1) body s2 = (Ok (SigNone, e2), s3) ->
  exec_for (S f) P e var rg body s = exec_for f P (tl e2) var rg' body s3 /\ S (st_yields s) <= st_yields s3.
Proof.
  intros H1 H2 H3. split.
  - rewrite exec_for_unfold. unfold bindM. now rewrite H1, H2, H3.
  - apply exec_block_yields in H3.
    assert (st_yields s <= st_yields s1) by (eapply mono_yields; [|eauto]; apply B_atom; auto with atomdb).
    assert (st_yields s1 <= st_yields s2) by (eapply mono_yields; [|eauto]; apply B_atom; auto with atomdb).
    lia.
Qed.

(* a completed call of a user-defined function (the name is neither `test` nor a built-in) *)
Theorem call_yields n P e name args s r s' :
  str_eqb name n_test = false -> (forall vals, builtin name e vals = None) ->
  eval_call n P e name args s = (Ok r, s') -> S (st_yields s) <= st_yields s'.
Proof.
  intros Nt Nb H. destruct n; [discriminate|]. cbn [eval_call] in H. unfold bindM at 1 in H.
  destruct (eval_exprs n P e args s) as [[vals|?] s1] eqn:E1; [|discriminate].
  apply (mono_yields _ _ _ _ _ (built_eval_exprs _ _ _ _)) in E1.
  rewrite Nt, Nb in H.
  destruct (existsb _ _); [discriminate|].
  destruct (find_func name (p_funcs P)) as [fd|]; [|discriminate].
  unfold bindM at 1 in H.
  destruct (bind_params (fn_params fd) vals [] s1) as [[[fr rest]|?] s2] eqn:E2; [|discriminate].
  assert (st_yields s1 <= st_yields s2) by (eapply mono_yields; [|eauto]; apply B_atom; auto with atomdb).
  unfold bindM at 1 in H.
  match type of H with (let (_, _) := ?m s2 in _) = _ =>
    assert (Hm : atom m) by atom_tac; destruct (m s2) as [[fr'|?] s3] eqn:E3; [|discriminate] end.
  assert (st_yields s2 <= st_yields s3) by (eapply mono_yields; [|eauto]; apply B_atom; auto).
  unfold bindM at 1 in H.
  destruct (exec_block n P [fr'] (fn_body fd) s3) as [[[sig e2]|?] s4] eqn:E4; [|discriminate].
  apply exec_block_yields in E4.
  assert (st_yields s4 <= st_yields s').
  { destruct sig; [| |inversion H; subst; lia];
      (eapply mono_yields; [|exact H]; apply B_atom; atom_tac). }
  lia.
Qed.

(* a completed event handler *)
Theorem handle_event_yields fuel P name args s s' :
  handle_event fuel P name args s = (ODone, s') -> S (st_yields s) <= st_yields s'.
Proof.
  unfold handle_event. destruct (find_handler name (p_handlers P)) as [h|]; [|discriminate].
  unfold bindM at 1.
  destruct (bind_payload (h_params h) args [] s) as [[fr|?] s1] eqn:E1; [|discriminate].
  assert (st_yields s <= st_yields s1) by (eapply mono_yields; [|eauto]; apply B_atom; auto with atomdb).
  unfold bindM.
  destruct (exec_block fuel P [fr] (h_body h) s1) as [[?|?] s2] eqn:E2; [|discriminate].
  apply exec_block_yields in E2. intro H'. inversion H'; subst. lia.
Qed.

(* ---------- the endless loop `while true` with an empty body ---------- *)
Definition machinery_off (s : state) : Prop := st_stopped s = false /\ st_stop_at s = None.

Lemma tick_off s : machinery_off s ->
  tick s = (Ok tt, upd_yield (S (st_yields s)) false s).
Proof. intros (St & At). unfold tick. now rewrite St, At. Qed.

Lemma hget_halloc h v : hget (snd (halloc h v)) (fst (halloc h v)) = Some v.
Proof. unfold hget, halloc. simpl. apply PositiveMap.gss. Qed.

(* one full iteration: exactly two yields (condition node, body block), same env *)
Lemma endless_cond g P e s : machinery_off s ->
  exists s1, exec_cond (S (S (S g))) P e (EBool true) [] s = (Ok (Some SigNone, e), s1) /\
             machinery_off s1 /\ st_yields s1 = st_yields s + 2.
Proof.
  intro Off. rewrite exec_cond_unfold. cbn [eval_expr]. unfold bindM at 1 2. rewrite tick_off by auto.
  set (s1 := upd_yield (S (st_yields s)) false s).
  unfold alloc. destruct (halloc (st_heap s1) (HBool true)) as [l h] eqn:Eh.
  unfold bindM at 1. unfold load at 1. cbn [st_heap upd_heap].
  assert (Hg : hget h l = Some (HBool true)).
  { pose proof (hget_halloc (st_heap s1) (HBool true)) as G. now rewrite Eh in G. }
  rewrite Hg. rewrite exec_block_unfold. unfold bindM at 1 2.
  assert (Off2 : machinery_off (upd_heap h s1)) by (destruct Off; split; auto).
  rewrite tick_off by auto. cbn [exec_stmts]. unfold ret.
  eexists. split; [reflexivity|]. destruct Off. split; [split; auto|]. simpl. lia.
Qed.

Lemma endless_cond_short P e s : machinery_off s ->
  exists s1, exec_cond 2 P e (EBool true) [] s = (Er EOutOfFuel, s1) /\ st_yields s1 = st_yields s + 2.
Proof.
  intro Off. rewrite exec_cond_unfold. cbn [eval_expr]. unfold bindM at 1 2. rewrite tick_off by auto.
  set (s1 := upd_yield (S (st_yields s)) false s).
  unfold alloc. destruct (halloc (st_heap s1) (HBool true)) as [l h] eqn:Eh.
  unfold bindM at 1. unfold load at 1. cbn [st_heap upd_heap].
  assert (Hg : hget h l = Some (HBool true)).
  { pose proof (hget_halloc (st_heap s1) (HBool true)) as G. now rewrite Eh in G. }
  rewrite Hg. rewrite exec_block_unfold. unfold bindM at 1 2.
  assert (Off2 : machinery_off (upd_heap h s1)) by (destruct Off; split; auto).
  rewrite tick_off by auto. cbn [exec_stmts]. unfold fail.
  eexists. split; [reflexivity|]. simpl. lia.
Qed.

Lemma endless_while_step g P e s : machinery_off s ->
  exists s1, exec_while (S (S (S (S g)))) P e (EBool true) [] s = exec_while (S (S (S g))) P e (EBool true) [] s1 /\
             machinery_off s1 /\ st_yields s1 = st_yields s + 2.
Proof.
  intro Off. destruct (endless_cond g P e s Off) as (s1 & E & Off1 & Y).
  exists s1. split; [|auto]. rewrite exec_while_unfold. unfold bindM. now rewrite E.
Qed.

(* with fuel n the loop runs out of fuel after exactly 2*(n-2) yields *)
Theorem endless_while_yields n P e s : machinery_off s ->
  exists s', exec_while n P e (EBool true) [] s = (Er EOutOfFuel, s') /\
             st_yields s' = st_yields s + 2 * (n - 2).
Proof.
  revert s. induction n as [|n IH]; intros s Off.
  - eexists. split; [reflexivity|]. simpl. lia.
  - destruct n as [|[|[|g]]].
    + eexists. split; [reflexivity|]. simpl. lia.
    + eexists. split; [reflexivity|]. simpl. lia.
    + (* fuel 3: the condition and the block tick, then the statement list has no fuel *)
      destruct (endless_cond_short P e s Off) as (s1 & E & Y).
      exists s1. rewrite exec_while_unfold. unfold bindM. rewrite E. split; [reflexivity|]. lia.
    + destruct (endless_while_step g P e s Off) as (s1 & E & Off1 & Y).
      destruct (IH s1 Off1) as (s' & E' & Y'). exists s'. rewrite E. split; [exact E'|]. lia.
Qed.

Definition endless_program : program :=
  {| p_funcs := []; p_handlers := []; p_stmts := [SWhile (EBool true) []] |}.

(* the whole run: out of fuel, after 2*fuel - 6 yields (so >= fuel yields once fuel >= 6) *)
Theorem endless_run_yields n s : machinery_off s -> 4 <= n ->
  exists s', run_program n endless_program s = (OErr EOutOfFuel, s') /\
             st_yields s' = st_yields s + 2 * n - 6.
Proof.
  intros Off Hn. destruct n as [|[|n]]; try lia.
  unfold run_program. unfold bindM at 1. rewrite tick_off by auto.
  set (s1 := upd_yield (S (st_yields s)) false s).
  assert (Off1 : machinery_off s1) by (destruct Off; split; auto).
  simpl p_stmts. rewrite exec_stmts_unfold. cbn [exec_stmt]. unfold bindM at 1 2 3. rewrite tick_off by auto.
  set (s2 := upd_yield (S (st_yields s1)) false s1).
  assert (Off2 : machinery_off s2) by (destruct Off1; split; auto).
  destruct (endless_while_yields n endless_program [] s2 Off2) as (s' & E & Y).
  rewrite E. eexists. split; [reflexivity|]. rewrite Y. simpl. lia.
Qed.

(* ---------- C14.2  nothing_after_stop, on the interleaved platform log ---------- *)
(* The state only counts yields; to speak about "after the raise" the calls the
   platform sees are interleaved in a log: the Yielder calls (numbered), the
   moment the flag goes up, and the effects.  [Run m s r s' l]: m, decomposed
   into atoms (which by definition can neither yield nor see the flag), eval
   prologues and binds, goes from s to (r, s') and the platform sees l. *)
Inductive item := IYield (n : nat) | IRaise | IEffect (e : event).

Inductive Run : forall {A : Type}, M A -> state -> res A -> state -> list item -> Prop :=
| R_atom A (m : M A) s r s' d :
    atom m -> m s = (r, s') -> st_trace s' = d ++ st_trace s -> Run m s r s' (map IEffect (rev d))
| R_tick_refused s :
    st_stopped s = true -> Run tick s (Er EStopped) s []
| R_tick s r s' :
    st_stopped s = false -> tick s = (r, s') ->
    Run tick s r s' (IYield (st_yields s) :: if st_stopped s' then [IRaise] else [])
| R_bind_ok A B (m : M A) (f : A -> M B) s a s1 l1 r s2 l2 :
    Run m s (Ok a) s1 l1 -> Run (f a) s1 r s2 l2 -> Run (bindM m f) s r s2 (l1 ++ l2)
| R_bind_er A B (m : M A) (f : A -> M B) s e s1 l1 :
    Run m s (Er e) s1 l1 -> Run (bindM m f) s (Er e) s1 l1
| R_ext A (m m' : M A) s r s' l :
    (forall s, m s = m' s) -> Run m s r s' l -> Run m' s r s' l.

Fixpoint effects (l : list item) : list event :=
  match l with [] => [] | IEffect e :: t => e :: effects t | _ :: t => effects t end.
Fixpoint yields_of (l : list item) : list nat :=
  match l with [] => [] | IYield n :: t => n :: yields_of t | _ :: t => yields_of t end.

Lemma effects_app a b : effects (a ++ b) = effects a ++ effects b.
Proof. induction a as [|[]]; simpl; congruence. Qed.
Lemma yields_of_app a b : yields_of (a ++ b) = yields_of a ++ yields_of b.
Proof. induction a as [|[]]; simpl; congruence. Qed.
Lemma effects_map d : effects (map IEffect d) = d.
Proof. induction d; simpl; congruence. Qed.
Lemma yields_of_map d : yields_of (map IEffect d) = [].
Proof. induction d; simpl; congruence. Qed.
Lemma no_raise_map d : ~ In IRaise (map IEffect d).
Proof. induction d; simpl; [tauto|]. intros [?|?]; [discriminate|auto]. Qed.

(* every run of a Built computation (so of every evaluator function) has a log *)
Theorem run_exists A (m : M A) : Built m -> forall s r s', m s = (r, s') -> exists l, Run m s r s' l.
Proof.
  induction 1; intros s r s' E.
  - destruct (H _ _ _ E) as (_ & (d & Hd) & _). eexists. eapply R_atom; eauto.
  - destruct (st_stopped s) eqn:St.
    + assert (tick s = (Er EStopped, s)) by (unfold tick; now rewrite St).
      rewrite E in H. inversion H; subst. eexists. now apply R_tick_refused.
    + eexists. now apply R_tick.
  - unfold bindM in E. destruct (m s) as [[a|e] s1] eqn:E1.
    + destruct (IHBuilt _ _ _ E1) as (l1 & R1). destruct (H1 a _ _ _ E) as (l2 & R2).
      eexists. eapply R_bind_ok; eauto.
    + inversion E; subst. destruct (IHBuilt _ _ _ E1) as (l1 & R1). eexists. eapply R_bind_er; eauto.
  - rewrite <- H in E. destruct (IHBuilt _ _ _ E) as (l & R). eexists. eapply R_ext; eauto.
Qed.

(* the log is faithful: it is a log of THIS run; its effects are exactly the events
   appended to the trace, in order; its yields are exactly the yields counted *)
Theorem run_sound A (m : M A) s r s' l : Run m s r s' l ->
  m s = (r, s') /\
  st_trace s' = rev (effects l) ++ st_trace s /\
  st_yields s <= st_yields s' /\
  yields_of l = seq (st_yields s) (st_yields s' - st_yields s) /\
  st_check_after_yield s' = st_check_after_yield s.
Proof.
  induction 1.
  - destruct (H _ _ _ H0) as ((Y & _ & _ & C) & _).
    rewrite effects_map, yields_of_map, rev_involutive, Y, Nat.sub_diag. auto 6.
  - split; [unfold tick; now rewrite H|]. rewrite Nat.sub_diag. auto.
  - split; [auto|].
    assert (E : effects (if st_stopped s' then [IRaise] else []) = [] /\
                yields_of (if st_stopped s' then [IRaise] else []) = []) by (destruct (st_stopped s'); auto).
    destruct E as (E1 & E2). simpl. rewrite E1, E2.
    unfold tick in H0. rewrite H in H0. destruct (_ && _); inversion H0; subst;
      cbn [upd_yield st_yields st_trace st_check_after_yield app rev];
      replace (S (st_yields s) - st_yields s) with 1 by lia; simpl; auto 6.
  - destruct IHRun1 as (E1 & T1 & Y1 & L1 & C1), IHRun2 as (E2 & T2 & Y2 & L2 & C2).
    split; [unfold bindM; now rewrite E1|].
    rewrite effects_app, yields_of_app, rev_app_distr, <- app_assoc, <- T1, T2, L1, L2.
    split; [auto|]. split; [lia|]. split; [|congruence].
    replace (st_yields s2 - st_yields s) with ((st_yields s1 - st_yields s) + (st_yields s2 - st_yields s1)) by lia.
    rewrite seq_app. do 2 f_equal. lia.
  - destruct IHRun as (E1 & Rest). split; [unfold bindM; now rewrite E1|auto].
  - destruct IHRun as (E1 & Rest). split; [now rewrite <- H|auto].
Qed.

(* with the corrected order of the stop test: in EVERY log of a run that starts with
   the flag down, the raise (if any) is the last entry — no effect and no yield
   follows it — and the run then ends with the "stopped" result *)
Theorem run_nothing_after_raise A (m : M A) s r s' l : Run m s r s' l ->
  st_check_after_yield s = true -> st_stopped s = false ->
  (st_stopped s' = false /\ ~ In IRaise l)
  \/ (st_stopped s' = true /\ r = Er EStopped /\ exists l0, l = l0 ++ [IRaise] /\ ~ In IRaise l0).
Proof.
  induction 1; intros Ck St.
  - left. destruct (H _ _ _ H0) as ((_ & _ & S & _) & _). split; [congruence|apply no_raise_map].
  - congruence.
  - unfold tick in H0. rewrite H, Ck, andb_true_r in H0.
    destruct (match st_stop_at s with Some k => Nat.eqb k (st_yields s) | None => false end);
      inversion H0; subst; simpl.
    + right. split; [auto|]. split; [auto|]. exists [IYield (st_yields s)]. split; [auto|].
      simpl. intros [?|[]]. discriminate.
    + left. split; [auto|]. simpl. intros [?|[]]. discriminate.
  - destruct (IHRun1 Ck St) as [(S1 & N1) | (_ & Hr & _)]; [|discriminate].
    assert (Ck1 : st_check_after_yield s1 = true).
    { apply run_sound in H. destruct H as (_ & _ & _ & _ & C). congruence. }
    destruct (IHRun2 Ck1 S1) as [(S2 & N2) | (S2 & Hr & l0 & -> & N0)].
    + left. split; [auto|]. rewrite in_app_iff. tauto.
    + right. split; [auto|]. split; [auto|]. exists (l1 ++ l0). split; [now rewrite app_assoc|].
      rewrite in_app_iff. tauto.
  - destruct (IHRun Ck St) as [?|(S1 & Hr & Rest)]; [auto|]. right. inversion Hr; subst. auto.
  - auto.
Qed.

(* both together, for any Built computation / any evaluator function *)
Corollary nothing_after_stop_log A (m : M A) : Built m ->
  forall s r s', st_check_after_yield s = true -> st_stopped s = false -> m s = (r, s') ->
  exists l, Run m s r s' l /\
    st_trace s' = rev (effects l) ++ st_trace s /\
    yields_of l = seq (st_yields s) (st_yields s' - st_yields s) /\
    ((st_stopped s' = false /\ ~ In IRaise l)
     \/ (st_stopped s' = true /\ r = Er EStopped /\ exists l0, l = l0 ++ [IRaise] /\ ~ In IRaise l0)).
Proof.
  intros Hb s r s' Ck St E. destruct (run_exists _ _ Hb _ _ _ E) as (l & R).
  exists l. split; [auto|]. destruct (run_sound _ _ _ _ _ _ R) as (_ & T & _ & Y & _).
  split; [auto|]. split; [auto|]. eapply run_nothing_after_raise; eauto.
Qed.

(* the whole program: the platform log of the evaluation, then at most the test summary *)
Lemma test_report_stopped s : st_stopped (test_report s) = st_stopped s.
Proof. unfold test_report. destruct (Nat.eqb (st_total s) 0); reflexivity. Qed.

Theorem run_program_nothing_after_stop fuel P s o s2 :
  st_check_after_yield s = true -> st_stopped s = false -> run_program fuel P s = (o, s2) ->
  exists r s1 l tail,
    Run (program_m fuel P) s r s1 l /\
    st_trace s2 = tail ++ rev (effects l) ++ st_trace s /\ summary_tail tail /\
    yields_of l = seq (st_yields s) (st_yields s2 - st_yields s) /\
    ((st_stopped s2 = false /\ ~ In IRaise l)
     \/ (st_stopped s2 = true /\ o = OErr EStopped /\ exists l0, l = l0 ++ [IRaise] /\ ~ In IRaise l0)).
Proof.
  intros Ck St E. unfold run_program in E. fold (program_m fuel P) in E.
  destruct (program_m fuel P s) as [r s1] eqn:E1.
  destruct (nothing_after_stop_log _ _ (built_program_m fuel P) _ _ _ Ck St E1) as (l & HR & T & Y & D).
  exists r, s1, l.
  assert (Hs2 : (s2 = s1 \/ s2 = test_report s1) /\ o = match r with Er e => OErr e | Ok _ => o end).
  { destruct r as [u|e]; [destruct (Nat.ltb _ _)|destruct e]; inversion E; subst; auto. }
  destruct Hs2 as (Hs2 & Ho).
  assert (Hf : st_stopped s2 = st_stopped s1 /\ st_yields s2 = st_yields s1 /\
               exists tail, st_trace s2 = tail ++ st_trace s1 /\ summary_tail tail).
  { destruct Hs2 as [->| ->].
    - repeat split; auto. exists []. split; [reflexivity|left; reflexivity].
    - rewrite test_report_stopped, test_report_yields. repeat split; auto.
      destruct (test_report_trace s1) as [->|(txt & ->)].
      + exists []. split; [reflexivity|left; reflexivity].
      + exists [EvPrint [PStr txt]]. split; [reflexivity|right; eauto]. }
  destruct Hf as (Hst & Hy & tail & Ht & Hsum).
  exists tail. rewrite Ht, T, Hst, Hy. split; [exact HR|]. repeat split; auto.
  destruct D as [?|(S1 & -> & Rest)]; [left; auto|right]. split; [auto|]. split; [exact Ho|exact Rest].
Qed.

(* ---------- the flag raised in the first yield of a node ---------- *)
(* Every yield of a run is the prologue of some node (eval_expr / exec_stmt /
   exec_block / the program node).  With the corrected order the node entered
   while the flag goes up does nothing: the state it leaves is the state it was
   entered with, plus the yield count and the flag. *)
Definition raise_now (s : state) : Prop :=
  st_stopped s = false /\ st_stop_at s = Some (st_yields s).

Theorem raise_at_entry_freezes n P e s :
  raise_now s -> st_check_after_yield s = true ->
  let s' := upd_yield (S (st_yields s)) true s in
  (forall x, eval_expr (S n) P e x s = (Er EStopped, s')) /\
  (forall x, exec_stmt (S n) P e x s = (Er EStopped, s')) /\
  (forall l, exec_block (S n) P e l s = (Er EStopped, s')) /\
  run_program n P s = (OErr EStopped, test_report s').
Proof.
  intros (St & At) Ck s'. repeat split; intros.
  - cbn [eval_expr]. now apply tick_raise_cuts.
  - cbn [exec_stmt]. now apply tick_raise_cuts.
  - cbn [exec_block]. now apply tick_raise_cuts.
  - unfold run_program. rewrite tick_raise_cuts by auto. reflexivity.
Qed.

(* ---------- the OLD order (flag tested only before the yield): refutations ---------- *)
Definition cls_stmt : stmt := SCallStmt (s_ "cls") [].
Definition empty_program : program := {| p_funcs := []; p_handlers := []; p_stmts := [] |}.

(* the node entered while the flag goes up still runs: one more effect *)
Theorem raise_at_entry_freezes_refuted_old :
  exists n P e x s, raise_now s /\ st_check_after_yield s = false /\
    exists r s', exec_stmt (S n) P e x s = (r, s') /\ st_trace s' = EvCls :: st_trace s.
Proof.
  exists 2, empty_program, [], cls_stmt, (init_state (Some 0) [] false false).
  split; [split; reflexivity|]. split; [reflexivity|].
  eexists. eexists. split; [vm_compute; reflexivity|reflexivity].
Qed.

Definition two_prints : program :=
  {| p_funcs := []; p_handlers := [];
     p_stmts := [SCallStmt (s_ "print") [ENum 1]; SCallStmt (s_ "print") [ENum 2]] |}.
Definition one_print : program :=
  {| p_funcs := []; p_handlers := []; p_stmts := [SCallStmt (s_ "print") [ENum 1]] |}.

(* `print 1` `print 2`, flag raised at yield 2 (entering the argument of the first
   print): both orders make no further yield, the old one still prints *)
Theorem stop_one_more_effect_refuted_old :
  exists fuel P k,
    let s_old := snd (run_program fuel P (init_state (Some k) [] false false)) in
    let s_new := snd (run_program fuel P (init_state (Some k) [] false true)) in
    st_stopped s_old = true /\ st_yields s_old = S k /\
    st_stopped s_new = true /\ st_yields s_new = S k /\
    st_trace s_new = [] /\
    st_trace s_old = [EvPrint [PStr (s_ "1"); PStr [10%N]]].
Proof. exists 10, two_prints, 2. vm_compute. repeat split; reflexivity. Qed.

(* `print 1`, flag raised at its last yield: the old order reports success although the flag is up *)
Theorem stopped_result_refuted_old :
  exists fuel P k s, run_program fuel P (init_state (Some k) [] false false) = (ODone, s) /\
                     st_stopped s = true /\ st_yields s = S k.
Proof. exists 10, one_print, 2. eexists. split; [vm_compute; reflexivity|]. split; reflexivity. Qed.

(* eval_call is not an eval node: it does not test the flag itself (it is only ever
   reached through eval_expr / exec_stmt, which do) *)
Example eval_call_alone_not_frozen :
  exists s r s', st_stopped s = true /\
    eval_call 2 empty_program [] (s_ "cls") [] s = (r, s') /\ st_trace s' = EvCls :: st_trace s.
Proof.
  exists (set_ctl None true 0 true (init_state None [] false true)).
  eexists. eexists. split; [reflexivity|]. split; [vm_compute; reflexivity|reflexivity].
Qed.

(* ---------- summaries over the nine functions ---------- *)
Definition MonoAll (n : nat) (P : program) : Prop :=
  (forall e x, Mono (eval_expr n P e x)) /\
  (forall e l, Mono (eval_exprs n P e l)) /\
  (forall e name args, Mono (eval_call n P e name args)) /\
  (forall e s, Mono (exec_stmt n P e s)) /\
  (forall e l, Mono (exec_stmts n P e l)) /\
  (forall e l, Mono (exec_block n P e l)) /\
  (forall e c body, Mono (exec_cond n P e c body)) /\
  (forall e c body, Mono (exec_while n P e c body)) /\
  (forall e var rg body, Mono (exec_for n P e var rg body)).

Theorem mono_all n P : MonoAll n P.
Proof. unfold MonoAll. repeat match goal with |- _ /\ _ => split end; intros; apply built_mono; auto. Qed.

(* every primitive of the state monad except [tick] is independent of the stop machinery *)
Theorem primitives_stop_independent :
  (forall e, atom (emitE e)) /\ (forall v, atom (alloc v)) /\ (forall l, atom (load l)) /\
  (forall l v, atom (store l v)) /\ (forall n e, atom (lookup n e)) /\
  (forall n l e, atom (set_var n l e)) /\ (forall n l e, atom (update_var n l e)) /\
  (forall n l, atom (copy_or_ref n l)) /\ (forall n l, atom (deep_copy n l)) /\
  (forall n r l, atom (show n r l)) /\ (forall n a b, atom (equals n a b)) /\
  (forall n a b, atom (same n a b)) /\ (forall t, atom (zero_val t)) /\
  (forall op xs r, atom (bin_arr op xs r)) /\ (forall e b msg, atom (global_err e b msg)) /\
  (forall args, atom (run_test args)) /\ (forall rg, atom (ranger_next rg)) /\
  (forall ps args fr, atom (bind_params ps args fr)) /\ (forall ps args fr, atom (bind_payload ps args fr)) /\
  (forall name e args m, builtin name e args = Some m -> atom m).
Proof.
  repeat match goal with |- _ /\ _ => split end; intros; auto with atomdb.
  eapply atom_builtin; eauto.
Qed.

(* an endless program stays interruptible: whatever the yield k at which the
   platform raises the flag, with enough fuel to get there the run ends "stopped"
   right at that yield *)
Theorem endless_is_interruptible k n ff :
  k + 7 <= 2 * n ->
  exists s, run_program n endless_program (init_state (Some k) [] ff true) = (OErr EStopped, s) /\
            st_yields s = S k.
Proof.
  intro Hn. set (s0 := init_state (Some k) [] ff true).
  assert (Off : machinery_off (set_stop None s0)) by (split; reflexivity).
  destruct (endless_run_yields n _ Off ltac:(lia)) as (sI & EI & YI).
  destruct (run_program n endless_program s0) as [ok sk] eqn:Ek.
  assert (Ek' : run_program n endless_program (set_stop (Some k) s0) = (ok, sk)) by exact Ek.
  destruct (run_program_stop_prefix n endless_program k s0 eq_refl eq_refl _ _ EI _ _ Ek')
    as [(N & _) | (R & -> & Y & _)].
  - exfalso. apply N. simpl in *. lia.
  - exists sk. auto.
Qed.

(* ---------- example programs used by Props/C14.v ---------- *)
Definition f_def : funcdef :=
  {| fn_name := s_ "f"; fn_params := [(s_ "n", TNum)]; fn_variadic := None; fn_ret := TNone;
     fn_body := [SCallStmt (s_ "print") [EVar (s_ "n") TNum]] |}.
Definition demo : program :=
  {| p_funcs := [f_def]; p_handlers := [];
     p_stmts := [SFor (Some (s_ "i")) TNum (RStep None (ENum 2) None)
                   [SFor (Some (s_ "j")) TNum (RStep None (ENum 2) None)
                      [SCallStmt (s_ "f") [EBin BPlus TNum (EVar (s_ "i") TNum) (EVar (s_ "j") TNum)]]];
                 SCallStmt (s_ "print") [EStr (s_ "done")]] |}.
Definition demo_run (k : option nat) := run_program 100 demo (init_state k [] false true).

Definition tests_prog : program :=
  {| p_funcs := []; p_handlers := [];
     p_stmts := [SCallStmt (s_ "test") [EAny (EBool true) TBool]; SCallStmt (s_ "print") [ENum 1]] |}.

Definition ev_prog : program :=
  {| p_funcs := [];
     p_handlers := [{| h_name := s_ "key"; h_params := [(s_ "k", TStr)];
                       h_body := [SCallStmt (s_ "print") [EVar (s_ "k") TStr]] |}];
     p_stmts := [] |}.

Definition ex_seven : expr := ENum 7.
Definition ex_ranger : ranger := RgStep 0 2 1.
