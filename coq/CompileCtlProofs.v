(* CompileCtlProofs.v — compile_wf for code with jumps: what the compiler
   emits for assignments, if / else-if / else chains, while, break and the
   for-range forms (without loop variable) satisfies the premises of bok_WF:
   every jump operand the compiler patches lands on an instruction boundary
   inside the program and the stack states agree at every join. *)
From Coq Require Import ZArith NArith List Bool Lia ZifyBool ZifyNat ZifyN Floats.
From EvyV Require Import Base Bytecode BytecodeProofs SymTab SymTabProofs Vm VmProofs Compile CompileSem CompileProofs CompileWfProofs CompileJumpProofs CompileHoleProofs CompileSymProofs.
Require Import EvyV.Gen.Opcodes.
Import ListNotations.
Open Scope N_scope.

(* ---------- more about fill / hole_at ---------- *)
Lemma fill_nil T : forall ops pc, fill [] T ops pc = ops.
Proof. intros. apply fill_above. intros q []. Qed.

Lemma fill_ext s1 s2 T : (forall q, In q s1 <-> In q s2) -> forall ops pc, fill s1 T ops pc = fill s2 T ops pc.
Proof.
  intros HE. induction ops as [|[h x] t IH]; intros pc; [reflexivity|]. cbn [fill].
  assert (existsb (N.eqb pc) s1 = existsb (N.eqb pc) s2).
  { destruct (existsb (N.eqb pc) s1) eqn:E1; destruct (existsb (N.eqb pc) s2) eqn:E2; auto.
    - apply existsb_exists in E1. destruct E1 as (q & Hq & Eq). apply HE in Hq.
      assert (existsb (N.eqb pc) s2 = true) by (apply existsb_exists; eauto). congruence.
    - apply existsb_exists in E2. destruct E2 as (q & Hq & Eq). apply HE in Hq.
      assert (existsb (N.eqb pc) s1 = true) by (apply existsb_exists; eauto). congruence. }
  rewrite H, IH. reflexivity.
Qed.

Lemma fill_fill s1 s2 T : forall ops pc, fill s1 T (fill s2 T ops pc) pc = fill (s1 ++ s2) T ops pc.
Proof.
  induction ops as [|[h x] t IH]; intros pc; [reflexivity|]. cbn [fill]. rewrite existsb_app.
  destruct (h && is_jump (fst x)) eqn:EJ.
  - destruct (existsb (N.eqb pc) s2) eqn:E2.
    + rewrite orb_true_r. cbn [andb fill fst snd]. f_equal. apply IH.
    + rewrite orb_false_r. cbn [andb fill]. rewrite EJ. cbn [andb].
      destruct (existsb (N.eqb pc) s1); f_equal; apply IH.
  - cbn [andb fill]. rewrite EJ. cbn [andb]. f_equal. apply IH.
Qed.

Lemma total_len_cons x t : total_len (x :: t) = ilen_of x + total_len t.
Proof. reflexivity. Qed.
Lemma strip_cons h x t : strip ((h, x) :: t) = x :: strip t.
Proof. reflexivity. Qed.

Lemma hole_at_range ops : forall pc p, hole_at ops pc p -> pc <= p < pc + total_len (strip ops).
Proof.
  induction ops as [|[h x] t IH]; intros pc p H; [destruct H|]. cbn [hole_at] in H.
  rewrite strip_cons, total_len_cons. pose proof (ilen_pos x).
  destruct H as [(E & _)|(HL & H)]; [lia|]. apply IH in H. lia.
Qed.

Lemma hole_at_app_l a b : forall pc p, hole_at a pc p -> hole_at (a ++ b) pc p.
Proof.
  induction a as [|[h x] t IH]; intros pc p H; [destruct H|]. cbn [app hole_at] in *.
  destruct H as [H|(HL & H)]; [left; exact H|right; split; auto].
Qed.

Lemma hole_at_app_r a b : forall pc p, hole_at b (pc + total_len (strip a)) p -> hole_at (a ++ b) pc p.
Proof.
  induction a as [|[h x] t IH]; intros pc p H.
  - unfold total_len in H. simpl in H. rewrite N.add_0_r in H. exact H.
  - cbn [app hole_at]. right. pose proof (hole_at_range _ _ _ H) as HR. pose proof (ilen_pos x).
    rewrite strip_cons, total_len_cons in *. split; [lia|].
    apply IH. replace (pc + ilen_of x + total_len (strip t)) with (pc + (ilen_of x + total_len (strip t))) by lia.
    exact H.
Qed.

Lemma hole_at_fill_sel sel T : forall ops pc p, ~ In p sel -> hole_at ops pc p -> hole_at (fill sel T ops pc) pc p.
Proof.
  induction ops as [|[h x] t IH]; intros pc p NI HH; [destruct HH|]. cbn [fill hole_at] in *.
  destruct HH as [(E1 & E2 & HJ)|(HLt & HH)].
  - subst pc h. assert (existsb (N.eqb p) sel = false).
    { destruct (existsb (N.eqb p) sel) eqn:E; [|reflexivity]. apply existsb_exists in E.
      destruct E as (q & Hq & Eq). apply N.eqb_eq in Eq. subst q. contradiction. }
    rewrite H, andb_false_r. left. auto.
  - destruct (h && is_jump (fst x) && existsb (N.eqb pc) sel); cbn [fst snd]; right; split; auto;
      destruct x; apply IH; auto.
Qed.

(* ---------- the compiler's patching in terms of fill ---------- *)
Lemma fold_cerr l T e : fold_left (fun r p => r >>= patch true p T) l (CErr e) = CErr e.
Proof. induction l; simpl; auto. Qed.

Lemma patch_fill nc gc p T st st' ops prefix a aend :
  ccode st = prefix ++ encode (strip ops) ->
  jruns nc gc (strip ops) a = Some aend ->
  hole_at ops (N.of_nat (List.length prefix)) p ->
  patch true (Z.of_N p) T st = COk st' ->
  (0 <= T < 65536)%Z /\
  st' = {| ccode := prefix ++ encode (strip (fill [p] (Z.to_N T) ops (N.of_nat (List.length prefix))));
           cconsts := cconsts st; csym := csym st; cbreaks := cbreaks st |}.
Proof.
  intros HC HR HH HP. unfold patch, change_operand in HP. destruct (fits16 T) eqn:HF; [|discriminate].
  inversion HP; subst st'; clear HP. unfold fits16 in HF. split; [lia|]. f_equal.
  rewrite HC, N2Z.id. rewrite <- (Z2N.id T) at 1 by lia.
  assert (HTN : Z.to_N T < 65536) by lia.
  apply (encode_fill_one nc gc (Z.to_N T) p HTN ops _ a aend prefix HR HH eq_refl).
Qed.

Lemma patch_all_fill nc gc T : forall l st st' ops prefix a aend,
  NoDup l ->
  ccode st = prefix ++ encode (strip ops) ->
  jruns nc gc (strip ops) a = Some aend ->
  (forall p, In p l -> hole_at ops (N.of_nat (List.length prefix)) p) ->
  patch_all true (map Z.of_N l) T st = COk st' ->
  (l <> [] -> (0 <= T < 65536)%Z) /\
  st' = {| ccode := prefix ++ encode (strip (fill l (Z.to_N T) ops (N.of_nat (List.length prefix))));
           cconsts := cconsts st; csym := csym st; cbreaks := cbreaks st |}.
Proof.
  unfold patch_all. induction l as [|p l IH]; intros st st' ops prefix a aend ND HC HR HH HP.
  - simpl in HP. inversion HP; subst st'. split; [congruence|]. rewrite fill_nil, <- HC. destruct st; reflexivity.
  - cbn [map fold_left bind] in HP.
    destruct (patch true (Z.of_N p) T st) as [st1|e] eqn:E1; [|rewrite fold_cerr in HP; discriminate].
    destruct (patch_fill nc gc p T st st1 ops prefix a aend HC HR (HH p (or_introl eq_refl)) E1) as [HT ->].
    inversion ND; subst. assert (HTN : Z.to_N T < 65536) by lia.
    destruct (fill_frame nc gc [p] (Z.to_N T) HTN ops (N.of_nat (List.length prefix)) a aend HR) as (R1 & _ & _).
    eapply (IH _ st' (fill [p] (Z.to_N T) ops (N.of_nat (List.length prefix))) prefix a aend H2) in HP;
      [|reflexivity|exact R1|].
    + destruct HP as [_ ->]. split; [intros _; exact HT|]. cbn [cconsts csym cbreaks]. f_equal. f_equal. f_equal. f_equal.
      rewrite fill_fill. apply fill_ext. intro q. rewrite in_app_iff. simpl. tauto.
    + intros q Hq. apply hole_at_fill_sel; [intros [<-|[]]; contradiction|]. apply HH. right. exact Hq.
Qed.

(* ---------- the symbol table in the fragment: only empty scopes are pushed ---------- *)
Definition gsym (s : symtab) : Prop := nmax (cur s) = 0 /\ (outers s <> [] -> index (cur s) = 0).

Lemma gsym_push s : gsym s -> gsym (st_push s).
Proof.
  intros [H1 H2]. unfold gsym, st_push. cbn [cur outers nmax index]. split; [reflexivity|].
  intros _. destruct (outers s); [reflexivity|]. apply H2. discriminate.
Qed.

Lemma pop_push_id s : gsym s -> st_pop (st_push s) = s.
Proof.
  intros [H1 H2]. unfold st_pop, st_push. cbn [cur outers nmax index store].
  destruct s as [[st idx nm] os]. cbn [cur outers nmax index store] in *. subst nm.
  assert (N.max 0 (0 + match os with [] => 0 | _ :: _ => idx end) = 0).
  { destruct os; [reflexivity|]. rewrite H2 by discriminate. reflexivity. }
  rewrite H. reflexivity.
Qed.

Lemma resolve_push n s : st_resolve n (st_push s) = st_resolve n s.
Proof. unfold st_resolve, st_push. reflexivity. Qed.

Lemma globals_below_push s gc : globals_below s gc -> globals_below (st_push s) gc.
Proof. intros H n y HR. rewrite resolve_push in HR. apply (H n y HR). Qed.

(* ---------- expressions do not touch the break list ---------- *)
Lemma emit_breaks o ops st st' : emit true o ops st = COk st' -> cbreaks st' = cbreaks st.
Proof. intro H. apply emit_ok in H. destruct H as (? & _ & ->). reflexivity. Qed.

Lemma efrag_breaks_all :
  (forall e, efrag e = true -> forall st st', compile_expr true e st = COk st' -> cbreaks st' = cbreaks st) /\
  (forall l, efrag_list l = true -> forall st st', compile_elist true l st = COk st' -> cbreaks st' = cbreaks st) /\
  (forall l, efrag_pairs l = true -> forall st st', compile_pairs true l st = COk st' -> cbreaks st' = cbreaks st) /\
  (forall o, efrag_o o = true -> forall st st', compile_oexpr true o st = COk st' -> cbreaks st' = cbreaks st).
Proof.
  apply expr_mutind; try (intros; exact I).
  - intros f HF st st' HC; simpl in HC. unfold emit_const in HC. apply emit_breaks in HC. exact HC.
  - intros b HF st st' HC; simpl in HC. apply emit_breaks in HC. exact HC.
  - intros s HF st st' HC; simpl in HC. unfold emit_const in HC. apply emit_breaks in HC. exact HC.
  - intros n HF st st' HC; simpl in HC. unfold compile_var in HC. destruct (st_resolve n (csym st)); [|discriminate]. destruct (sscp s); apply emit_breaks in HC; exact HC.
  - intros l IHl HF st st' HC; simpl in HC. cbn [efrag] in HF. bind_inv HC. rewrite <- (IHl HF _ _ H). apply emit_breaks in HC. exact HC.
  - intros kvs IHl np HF st st' HC; simpl in HC. cbn [efrag] in HF. apply andb_true_iff in HF. destruct HF as [_ HF].
    bind_inv HC. rewrite <- (IHl HF _ _ H). apply emit_breaks in HC. exact HC.
  - intros op e IHe HF st st' HC; simpl in HC. assert (HF1 : efrag e = true) by (destruct op; simpl in HF; congruence).
    bind_inv HC. rewrite <- (IHe HF1 _ _ H). destruct op; try discriminate HC; apply emit_breaks in HC; exact HC.
  - intros op lt rt e1 IHe1 e2 IHe2 HF st st' HC; simpl in HC.
    simpl in HF. apply andb_true_iff in HF. destruct HF as [HF1 HF2]. bind_inv HC. bind_inv H.
    rewrite <- (IHe1 HF1 _ _ H0), <- (IHe2 HF2 _ _ H).
    destruct (binop_opc _ _ _ _ _ HC) as (o & HE & _). apply emit_breaks in HE. exact HE.
  - intros e1 IHe1 e2 IHe2 HF st st' HC; simpl in HC.
    simpl in HF. apply andb_true_iff in HF. destruct HF as [HF1 HF2]. bind_inv HC. bind_inv H.
    rewrite <- (IHe1 HF1 _ _ H0), <- (IHe2 HF2 _ _ H). apply emit_breaks in HC. exact HC.
  - intros l IHl a IHa b IHb HF st st' HC. cbn [efrag] in HF.
    apply andb_true_iff in HF. destruct HF as [HF HF3]. apply andb_true_iff in HF. destruct HF as [HF1 HF2].
    cbn [compile_expr] in HC.
    apply bind_ok in HC; destruct HC as (c3 & HC3 & HC). apply bind_ok in HC3; destruct HC3 as (c2 & HC2 & HCb).
    apply bind_ok in HC2; destruct HC2 as (c1 & HCl & HCa).
    apply emit_breaks in HC. rewrite HC, (IHb HF3 _ _ HCb), (IHa HF2 _ _ HCa). apply (IHl HF1 _ _ HCl).
  - intros e IHe HF st st' HC; simpl in HC. apply (IHe HF _ _ HC).
  - intros w HF. discriminate HF.
  - intros _ st st' HC. simpl in HC. inversion HC; reflexivity.
  - intros e IHe t IHt HF st st' HC. cbn [efrag_list] in HF. apply andb_true_iff in HF. destruct HF as [HF1 HF2].
    simpl in HC. bind_inv HC. rewrite <- (IHe HF1 _ _ H). apply (IHt HF2 _ _ HC).
  - intros _ st st' HC. simpl in HC. inversion HC; reflexivity.
  - intros k e IHe t IHt HF st st' HC. cbn [efrag_pairs] in HF. apply andb_true_iff in HF. destruct HF as [HF1 HF2].
    cbn [compile_pairs] in HC. bind_inv HC. bind_inv H. unfold emit_const in H0. apply emit_breaks in H0. cbn [cbreaks] in H0.
    rewrite (IHt HF2 _ _ HC), (IHe HF1 _ _ H). exact H0.
  - intros _ st st' HC. cbn [compile_oexpr] in HC. apply emit_breaks in HC. exact HC.
  - intros e IHe HF st st' HC. cbn [efrag_o] in HF. cbn [compile_oexpr] in HC. apply (IHe HF _ _ HC).
Qed.

Lemma efrag_breaks : forall e, efrag e = true -> forall st st', compile_expr true e st = COk st' -> cbreaks st' = cbreaks st.
Proof. exact (proj1 efrag_breaks_all). Qed.

(* ---------- operands that fit, unconditionally ---------- *)
Definition AOK (ops : list hop) : Prop := Forall (fun hx => snd (snd hx) < 65536) ops.

Lemma aok_len ops : AOK ops -> N.of_nat (List.length (encode (strip ops))) = total_len (strip ops).
Proof.
  induction 1 as [|[h x] t HA _ IH]; [reflexivity|].
  rewrite strip_cons, total_len_cons. unfold encode. cbn [flat_map]. fold (encode (strip t)).
  rewrite app_length, Nat2N.inj_add, IH. f_equal. apply (decode1_enc1' x [] HA).
Qed.

Lemma aok_app a b : AOK a -> AOK b -> AOK (a ++ b).
Proof. apply Forall_app_intro || (intros; apply Forall_app; split; assumption). Qed.

Lemma aok_fill sel T : T < 65536 -> forall ops pc, AOK ops -> AOK (fill sel T ops pc).
Proof.
  intros HT. induction ops as [|[h x] t IH]; intros pc H; [constructor|]. inversion H; subst. cbn [fill].
  constructor; [|apply IH; assumption].
  destruct (h && is_jump (fst x) && existsb (N.eqb pc) sel); cbn [snd]; assumption.
Qed.

Lemma runs_aok nc gc ops : forall k k', runs nc gc ops k = Some k' -> AOK (solid ops).
Proof.
  induction ops as [|x t IH]; simpl; intros k k' H; [constructor|].
  destruct (sop_ok nc gc x k) as [k1|] eqn:E; [|discriminate]. constructor; [|eapply IH; eauto]. cbn [snd].
  destruct (sop_ok_jop _ _ _ _ _ E) as [J _]. apply (jop_step_arg _ _ _ _ _ J).
Qed.

Lemma runs_nonempty nc gc ops k : runs nc gc ops k = Some (k + 1) -> ops <> [].
Proof. intros H E. subst. simpl in H. inversion H. lia. Qed.

Definition pcof (st : cstate) : N := N.of_nat (List.length (ccode st)).

(* ---------- the expression piece ---------- *)
Definition has_gb (s : symtab) : Prop := exists gc0, globals_below s gc0.

(* the weak form used once blocks declare locals *)
Definition has_gbw (s : symtab) : Prop := exists gc0, gbw s gc0.
Lemma has_gbw_push s : has_gbw s -> has_gbw (st_push s).
Proof. intros (g & H). exists g. apply gbw_push. exact H. Qed.
Lemma sx_has_gbw s s' : SX s s' -> has_gbw s -> has_gbw s'.
Proof. intros X (g & H). exists g. apply (sx_gbw _ _ X). exact H. Qed.

Lemma expr_piece e st st1 : efrag e = true -> compile_expr true e st = COk st1 -> has_gbw (csym st) ->
  csym st1 = csym st /\ cbreaks st1 = cbreaks st /\
  exists ops newc, ops <> [] /\ AOK (solid ops) /\
    ccode st1 = ccode st ++ encode ops /\ cconsts st1 = cconsts st ++ newc /\
    (forall nc gc k, N.of_nat (List.length (cconsts st1)) <= nc -> gbw (csym st) gc ->
                    runs nc gc ops k = Some (k + 1)) /\
    (forall lc, lbw (csym st) lc -> Forall (lopk lc) ops).
Proof.
  intros HF HC (gc0 & HG). destruct (efrag_sl2 e HF st st1 HC) as (A & ops & newc & B & C & D & L).
  split; [exact A|]. split; [apply (efrag_breaks e HF _ _ HC)|].
  exists ops, newc. pose proof (D (N.of_nat (List.length (cconsts st1))) gc0 0 (N.le_refl _) HG) as R0.
  split; [apply (runs_nonempty _ _ _ _ R0)|]. split; [apply (runs_aok _ _ _ _ _ R0)|]. auto.
Qed.

(* the store of a variable, global or local *)
Definition setop (y : symbol) : opc := match sscp y with GlobalScope => SetGlobal | LocalScope => SetLocal end.

Lemma set_var_sl y st1 st' : emit_set_var true y st1 = COk st' ->
  csym st' = csym st1 /\ cconsts st' = cconsts st1 /\ cbreaks st' = cbreaks st1 /\
  ccode st' = ccode st1 ++ encode [(setop y, sidx y)] /\ sidx y < 65536.
Proof.
  unfold emit_set_var, setop. intro H. destruct (sscp y); apply emit_enc1 in H; try reflexivity; destruct H as [HR ->];
    cbn [csym ccode cconsts cbreaks]; rewrite N2Z.id, encode_one; repeat split; lia.
Qed.

Lemma sop_ok_setvar nc gc y k : (sscp y = GlobalScope -> sidx y < gc) -> sidx y < 65536 ->
  sop_ok nc gc (setop y, sidx y) (k + 1) = Some k.
Proof.
  intros H1 H2. unfold setop. destruct (sscp y); [apply sop_ok_setglobal; auto|].
  unfold sop_ok. cbn [is_sl negb has_operand andb simple_effect].
  destruct (sidx y <? 65536) eqn:E; [|apply N.ltb_ge in E; lia]. cbn [negb].
  destruct (k + 1 <? 1) eqn:E0; [apply N.ltb_lt in E0; lia|]. f_equal. lia.
Qed.

Lemma lopk_setvar lc y : (sscp y = LocalScope -> sidx y < lc) -> lopk lc (setop y, sidx y).
Proof. unfold lopk, setop. cbn [fst snd]. destruct (sscp y); intros H X; [discriminate X|apply H; reflexivity]. Qed.

(* ---------- single instructions ---------- *)
Lemma step_jof nc gc T k : T < 65536 -> jop_step nc gc (JumpOnFalse, T) (AH (k + 1)) = Some (AH k).
Proof.
  intro HT. unfold jop_step. cbn [fst snd]. destruct (T <? 65536) eqn:E0; [|apply N.ltb_ge in E0; lia]. cbn [negb].
  destruct (1 <=? k + 1) eqn:E; [|apply N.leb_gt in E; lia]. f_equal. f_equal. lia.
Qed.
Lemma step_jump nc gc T a : T < 65536 -> jop_step nc gc (Jump, T) a = match a with AH k => Some (AH k) | ACond _ => None end.
Proof.
  intro HT. unfold jop_step. cbn [fst snd]. destruct (T <? 65536) eqn:E0; [|apply N.ltb_ge in E0; lia]. reflexivity.
Qed.

Lemma bok_hole_jof nc gc pc k :
  BOK nc gc [(true, (JumpOnFalse, 9999))] pc (AH (k + 1)) (AH k) /\
  holes nc gc [(true, (JumpOnFalse, 9999))] pc (AH (k + 1)) = [(pc, AH k)].
Proof.
  unfold BOK. cbn [strip map snd jruns jannot htgt holes]. rewrite (step_jof nc gc 9999 k) by lia.
  unfold jop_req. cbn [fst snd]. replace (k + 1 - 1) with k by lia. repeat split.
Qed.

Lemma bok_hole_jump nc gc pc k :
  BOK nc gc [(true, (Jump, 9999))] pc (AH k) (AH k) /\
  holes nc gc [(true, (Jump, 9999))] pc (AH k) = [(pc, AH k)].
Proof.
  unfold BOK. cbn [strip map snd jruns jannot htgt holes]. rewrite (step_jump nc gc 9999 (AH k)) by lia.
  unfold jop_req. cbn [fst snd]. repeat split.
Qed.

(* a resolved backward jump closing a loop *)
Lemma bok_snoc_back nc gc pre pc0 a0 k T :
  BOK nc gc pre pc0 a0 (AH k) -> In (T, AH k) (jannot nc gc (strip pre) pc0 a0) -> T < 65536 ->
  BOK nc gc (pre ++ [(false, (Jump, T))]) pc0 a0 (AH k) /\
  holes nc gc (pre ++ [(false, (Jump, T))]) pc0 a0 = holes nc gc pre pc0 a0.
Proof.
  intros [R Tg] HI HT.
  assert (RJ : jruns nc gc (strip [(false, (Jump, T))]) (AH k) = Some (AH k)).
  { cbn [strip map snd jruns]. rewrite (step_jump nc gc T (AH k) HT). reflexivity. }
  split.
  - unfold BOK. rewrite strip_app. split; [eapply jruns_app; eauto|].
    rewrite (jannot_app nc gc (strip pre) _ pc0 a0 (AH k) R).
    apply (htgt_app nc gc _ _ _ pre _ a0 (AH k) R). split.
    + eapply htgt_weaken; [exact Tg|]. intros T0 ra [[E1 E2]|HI0].
      * right. apply in_or_app. right. subst. cbn [strip map snd jannot]. left. reflexivity.
      * right. apply in_or_app. left. exact HI0.
    + cbn [htgt jop_req fst snd]. split; [right; apply in_or_app; left; exact HI|].
      destruct (jop_step nc gc (Jump, T) (AH k)); exact I.
  - rewrite (holes_app nc gc pre _ pc0 a0 (AH k) R). cbn [holes].
    destruct (jop_step nc gc (Jump, T) (AH k)); rewrite ?app_nil_r; reflexivity.
Qed.

(* ---------- the statement-level judgment ---------- *)
Definition CTL (st st' : cstate) : Prop :=
  SX (csym st) (csym st') /\
  exists new newc newb,
    AOK new /\
    ccode st' = ccode st ++ encode (strip new) /\
    cconsts st' = cconsts st ++ newc /\
    cbreaks st' = cbreaks st ++ map Z.of_N newb /\
    NoDup newb /\
    (forall p, In p newb -> hole_at new (pcof st) p) /\
    (* the local accesses stay below whatever LocalCount the table ends with *)
    (forall lc, bound (csym st') <= lc -> LOK lc new) /\
    forall nc gc k, N.of_nat (List.length (cconsts st')) <= nc -> gbw (csym st) gc ->
      BOK nc gc new (pcof st) (AH k) (AH k) /\
      forall p ra, In (p, ra) (holes nc gc new (pcof st) (AH k)) -> ra = AH k /\ In p newb.

Lemma nodup_app {A} (a b : list A) : NoDup a -> NoDup b -> (forall x, In x a -> ~ In x b) -> NoDup (a ++ b).
Proof.
  induction a as [|x t IH]; intros Ha Hb HD; [exact Hb|]. inversion Ha; subst. simpl. constructor.
  - intro HI. apply in_app_or in HI. destruct HI as [HI|HI]; [contradiction|]. apply (HD x (or_introl eq_refl) HI).
  - apply IH; auto. intros y Hy. apply HD. right. exact Hy.
Qed.

Lemma pcof_app st st1 new : ccode st1 = ccode st ++ encode (strip new) -> AOK new ->
  pcof st1 = pcof st + total_len (strip new).
Proof. intros H HA. unfold pcof. rewrite H, app_length, Nat2N.inj_add, (aok_len new HA). reflexivity. Qed.

Lemma CTL_refl st : CTL st st.
Proof.
  split; [apply SX_refl|]. exists [], [], []. split; [constructor|]. split; [simpl; rewrite app_nil_r; reflexivity|].
  split; [rewrite app_nil_r; reflexivity|]. split; [simpl; rewrite app_nil_r; reflexivity|]. split; [constructor|].
  split; [intros p []|]. split; [intros; apply lok_nil|]. intros nc gc k _ _. split; [split; simpl; auto|intros p ra []].
Qed.

Lemma CTL_trans st st1 st2 : CTL st st1 -> CTL st1 st2 -> CTL st st2.
Proof.
  intros (S1 & n1 & c1 & b1 & A1 & C1 & K1 & B1 & ND1 & H1 & L1 & D1) (S2 & n2 & c2 & b2 & A2 & C2 & K2 & B2 & ND2 & H2 & L2 & D2).
  pose proof (pcof_app st st1 n1 C1 A1) as HP.
  split; [eapply SX_trans; eauto|]. exists (n1 ++ n2), (c1 ++ c2), (b1 ++ b2).
  split; [apply aok_app; assumption|].
  split; [rewrite C2, C1, strip_app; unfold encode; rewrite flat_map_app, app_assoc; reflexivity|].
  split; [rewrite K2, K1, app_assoc; reflexivity|].
  split; [rewrite B2, B1, map_app, app_assoc; reflexivity|].
  split.
  { apply nodup_app; auto. intros p Hp1 Hp2.
    apply H1 in Hp1. apply H2 in Hp2. apply hole_at_range in Hp1. apply hole_at_range in Hp2. lia. }
  split.
  { intros p Hp. apply in_app_or in Hp. destruct Hp as [Hp|Hp].
    - apply hole_at_app_l. apply H1. exact Hp.
    - apply hole_at_app_r. rewrite <- HP. apply H2. exact Hp. }
  split.
  { intros lc HLc. pose proof (sx_bound _ _ S2). apply lok_app; [apply L1; lia|apply L2; exact HLc]. }
  intros nc gc k Hnc HG.
  assert (Hnc1 : N.of_nat (List.length (cconsts st1)) <= nc) by (rewrite K2, app_length in Hnc; lia).
  destruct (D1 nc gc k Hnc1 HG) as [BK1 HL1].
  assert (HG1 : gbw (csym st1) gc) by (apply (sx_gbw _ _ S1); exact HG).
  destruct (D2 nc gc k Hnc HG1) as [BK2 HL2]. rewrite HP in BK2, HL2.
  split; [eapply bok_app; eauto|].
  intros p ra Hin. rewrite (holes_app nc gc n1 n2 (pcof st) (AH k) (AH k) (proj1 BK1)) in Hin.
  apply in_app_or in Hin. destruct Hin as [Hin|Hin].
  - destruct (HL1 _ _ Hin). split; [assumption|apply in_or_app; left; assumption].
  - destruct (HL2 _ _ Hin). split; [assumption|apply in_or_app; right; assumption].
Qed.

(* a straight-line piece as a CTL step *)
Lemma CTL_straight st st' ops newc :
  SX (csym st) (csym st') -> cbreaks st' = cbreaks st -> AOK (solid ops) ->
  ccode st' = ccode st ++ encode ops -> cconsts st' = cconsts st ++ newc ->
  (forall lc, bound (csym st') <= lc -> Forall (lopk lc) ops) ->
  (forall nc gc k, N.of_nat (List.length (cconsts st')) <= nc -> gbw (csym st) gc -> runs nc gc ops k = Some k) ->
  CTL st st'.
Proof.
  intros S B A C K L R. split; [exact S|]. exists (solid ops), newc, [].
  split; [exact A|]. split; [rewrite strip_solid; exact C|]. split; [exact K|].
  split; [simpl; rewrite app_nil_r; exact B|]. split; [constructor|]. split; [intros p []|].
  split; [intros lc HLc; apply lok_solid, L, HLc|].
  intros nc gc k Hnc HG. destruct (runs_bok nc gc ops (pcof st) k k (R nc gc k Hnc HG)) as [BK HH].
  split; [exact BK|]. rewrite HH. intros p ra [].
Qed.

Lemma has_gb_push s : has_gb s -> has_gb (st_push s).
Proof. intros (g & H). exists g. apply globals_below_push. exact H. Qed.

(* a block: enterScope; statements; leaveScope *)
Lemma CTL_block st st3 :
  CTL (with_sym (st_push (csym st)) st) st3 ->
  CTL st (with_sym (st_pop (csym st3)) st3).
Proof.
  intros (S & new & newc & newb & A & C & K & B & ND & HH & L & D).
  cbn [with_sym csym ccode cconsts cbreaks] in *.
  split; [cbn [with_sym csym]; apply SX_block; exact S|].
  exists new, newc, newb. cbn [with_sym ccode cconsts cbreaks csym]. repeat (split; [assumption|]).
  split.
  { intros lc HLc. apply L. pose proof (bound_step SPop (csym st3)) as X. cbn [st_step fst] in X. lia. }
  intros nc gc k Hnc HB. apply (D nc gc k Hnc). apply gbw_push. exact HB.
Qed.

(* ---------- emitting jumps ---------- *)
Lemma emit_hole o st st' : is_jump o = true -> emit true o [JumpPlaceholderZ] st = COk st' ->
  st' = {| ccode := ccode st ++ encode (strip [(true, (o, 9999))]); cconsts := cconsts st; csym := csym st; cbreaks := cbreaks st |}.
Proof.
  intros HJ H. assert (HO : has_operand o = true) by (destruct o; try discriminate HJ; reflexivity).
  apply emit_enc1 in H; [|exact HO]. destruct H as [_ ->]. cbn [strip map snd]. rewrite encode_one. reflexivity.
Qed.

Lemma emit_jump_to T st st' : emit true Jump [T] st = COk st' ->
  (0 <= T < 65536)%Z /\
  st' = {| ccode := ccode st ++ encode (strip [(false, (Jump, Z.to_N T))]); cconsts := cconsts st; csym := csym st; cbreaks := cbreaks st |}.
Proof.
  intro H. apply emit_enc1 in H; [|reflexivity]. destruct H as [HR ->]. split; [exact HR|].
  cbn [strip map snd]. rewrite encode_one. reflexivity.
Qed.

Definition slist_ctl (l : slist) : Prop :=
  forall st st', body_of true l st = COk st' -> outers (csym st) <> [] -> Inv (csym st) -> has_gbw (csym st) -> CTL st st'.

Lemma compile_block_body b st : compile_block true b st =
  body_of true b (with_sym (st_push (csym st)) st) >>= fun st1 => COk (with_sym (st_pop (csym st1)) st1).
Proof. destruct b; reflexivity. Qed.

Lemma ctl_block b st st' : slist_ctl b -> compile_block true b st = COk st' ->
  Inv (csym st) -> has_gbw (csym st) -> CTL st st'.
Proof.
  intros HB HC HG HGB. rewrite compile_block_body in HC.
  destruct (body_of true b (with_sym (st_push (csym st)) st)) as [st3|] eqn:E; [|discriminate].
  cbn [bind] in HC. inversion HC; subst st'. apply CTL_block.
  apply (HB _ _ E); cbn [with_sym csym]; [discriminate|apply inv_push; exact HG|apply has_gbw_push; exact HGB].
Qed.

Lemma encode_strip_app a b : encode (strip (a ++ b)) = encode (strip a) ++ encode (strip b).
Proof. rewrite strip_app. apply encode_app. Qed.

Lemma ctl_break st st' : compile_stmt true SBreak st = COk st' -> CTL st st'.
Proof.
  cbn [compile_stmt]. intro HC.
  destruct (emit true Jump [JumpPlaceholderZ] st) as [st1|] eqn:E1; [|discriminate]. cbn [bind] in HC.
  inversion HC; subst st'; clear HC. apply emit_hole in E1; [|reflexivity]. subst st1.
  split; [apply SX_refl|]. exists [(true, (Jump, 9999))], [], [pcof st]. cbn [with_breaks ccode cconsts csym cbreaks].
  split; [constructor; [cbn; lia|constructor]|]. split; [reflexivity|]. split; [rewrite app_nil_r; reflexivity|].
  split; [cbn [map]; unfold pos_of, pcof; rewrite nat_N_Z; reflexivity|].
  split; [constructor; [intros []|constructor]|].
  split; [intros p [<-|[]]; cbn [hole_at]; left; auto|].
  split; [intros; apply lok_one; reflexivity|].
  intros nc gc k _ _. destruct (bok_hole_jump nc gc (pcof st) k) as [BK HH]. split; [exact BK|].
  rewrite HH. intros p ra [Eq|[]]. inversion Eq; subst. split; [reflexivity|left; reflexivity].
Qed.

(* x = e for a global or local x *)
Lemma ctl_assign n e st st' : efrag e = true ->
  compile_stmt true (SAssign (EVar n) e) st = COk st' -> Inv (csym st) -> has_gbw (csym st) -> CTL st st'.
Proof.
  intros HF HC HI HGB. cbn [compile_stmt] in HC.
  destruct (compile_expr true e st) as [st1|] eqn:E1; [|discriminate]. cbn [bind] in HC.
  destruct (expr_piece e st st1 HF E1 HGB) as (S1 & B1 & ops & newc & NE & A & C & K & R & L).
  destruct (st_resolve n (csym st1)) as [y|] eqn:ER; [|discriminate]. rewrite S1 in ER.
  destruct (set_var_sl y st1 st' HC) as (E1' & E2' & E4' & E3' & HRng).
  apply (CTL_straight st st' (ops ++ [(setop y, sidx y)]) newc).
  - apply SX_eq. congruence.
  - congruence.
  - unfold solid. rewrite map_app. apply aok_app; [exact A|]. constructor; [cbn; exact HRng|constructor].
  - rewrite E3', C, encode_app, app_assoc. reflexivity.
  - rewrite E2'. exact K.
  - intros lc HLc. rewrite E1', S1 in HLc. pose proof (inv_lbw _ _ HI HLc) as HLB.
    apply Forall_app. split; [apply L; exact HLB|]. constructor; [|constructor].
    apply lopk_setvar. intro HS. apply (HLB n y ER HS).
  - intros nc gc k Hnc HG. eapply runs_app; [apply (R nc gc k); [rewrite <- E2'; exact Hnc|exact HG]|].
    cbn [runs]. rewrite sop_ok_setvar; [reflexivity| |exact HRng]. intro HS. apply (HG n y ER HS).
Qed.

(* l[i] = e: the value, the container, the index, OpSetIndex (pops three) *)
Lemma sop_ok_setindex nc gc k : sop_ok nc gc (SetIndex, 0) (k + 3) = Some k.
Proof.
  unfold sop_ok. cbn [is_sl negb has_operand andb simple_effect].
  change (0 <? 65536) with true. change (0 =? 0) with true. cbn [negb andb].
  destruct (k + 3 <? 3) eqn:E0; [apply N.ltb_lt in E0; lia|]. f_equal. lia.
Qed.

Lemma ctl_store l i e st st' : efrag l = true -> efrag i = true -> efrag e = true ->
  compile_stmt true (SAssign (EIndex l i) e) st = COk st' -> Inv (csym st) -> has_gbw (csym st) -> CTL st st'.
Proof.
  intros HFl HFi HFe HC HI HGB. cbn [compile_stmt] in HC.
  destruct (compile_expr true e st) as [st1|] eqn:E1; [|discriminate]. cbn [bind] in HC.
  apply bind_ok in HC. destruct HC as (st3 & HC3 & HC). apply bind_ok in HC3. destruct HC3 as (st2 & E2 & E3).
  destruct (expr_piece e st st1 HFe E1 HGB) as (S1 & B1 & ops1 & newc1 & NE1 & A1 & C1 & K1 & R1 & L1).
  assert (HGB1 : has_gbw (csym st1)) by (rewrite S1; exact HGB).
  destruct (expr_piece l st1 st2 HFl E2 HGB1) as (S2 & B2 & ops2 & newc2 & NE2 & A2 & C2 & K2 & R2 & L2).
  assert (HGB2 : has_gbw (csym st2)) by (rewrite S2; exact HGB1).
  destruct (expr_piece i st2 st3 HFi E3 HGB2) as (S3 & B3 & ops3 & newc3 & NE3 & A3 & C3 & K3 & R3 & L3).
  pose proof (emit_enc0 SetIndex _ _ eq_refl HC) as ->. cbn [csym ccode cconsts cbreaks].
  apply (CTL_straight st _ (ops1 ++ ops2 ++ ops3 ++ [(SetIndex, 0)]) (newc1 ++ newc2 ++ newc3)); cbn [csym ccode cconsts cbreaks].
  - apply SX_eq. congruence.
  - congruence.
  - unfold solid. rewrite !map_app. apply aok_app; [exact A1|]. apply aok_app; [exact A2|]. apply aok_app; [exact A3|].
    constructor; [cbn; lia|constructor].
  - rewrite !encode_app, encode_one, C3, C2, C1, <- !app_assoc. reflexivity.
  - rewrite K3, K2, K1, <- !app_assoc. reflexivity.
  - intros lc HLc. rewrite S3, S2, S1 in HLc. pose proof (inv_lbw _ _ HI HLc) as HLB.
    apply Forall_app. split; [apply L1; exact HLB|]. apply Forall_app. split; [apply L2; rewrite S1; exact HLB|].
    apply Forall_app. split; [apply L3; rewrite S2, S1; exact HLB|].
    constructor; [apply lopk_nonlocal; reflexivity|constructor].
  - intros nc gc k Hnc HG. rewrite K3, K2, !app_length in Hnc.
    eapply runs_app; [apply (R1 nc gc k); [lia|exact HG]|].
    eapply runs_app; [apply (R2 nc gc (k + 1)); [rewrite K2, app_length; lia|rewrite S1; exact HG]|].
    eapply runs_app; [apply (R3 nc gc (k + 1 + 1)); [rewrite K3, K2, !app_length; lia|rewrite S2, S1; exact HG]|].
    cbn [runs]. replace (k + 1 + 1 + 1) with (k + 3) by lia. rewrite sop_ok_setindex. reflexivity.
Qed.

(* x := e inside a block: x becomes a local of the block's scope *)
Lemma ctl_decl n e st st' : efrag e = true ->
  compile_stmt true (SDecl n e) st = COk st' -> outers (csym st) <> [] -> Inv (csym st) -> has_gbw (csym st) -> CTL st st'.
Proof.
  intros HF HC HO HI HGB. cbn [compile_stmt] in HC.
  destruct (compile_expr true e st) as [st1|] eqn:E1; [|discriminate]. cbn [bind] in HC.
  destruct (expr_piece e st st1 HF E1 HGB) as (S1 & B1 & ops & newc & NE & A & C & K & R & L).
  destruct (st_define n (csym st1)) as [sym' y] eqn:ED. rewrite S1 in ED.
  assert (HD1 : fst (st_define n (csym st)) = sym') by (rewrite ED; reflexivity).
  assert (HD2 : snd (st_define n (csym st)) = y) by (rewrite ED; reflexivity).
  pose proof (define_local n (csym st) HO HI) as HLoc. rewrite HD2 in HLoc.
  pose proof (define_below n (csym st) HI) as HBel. rewrite HD1, HD2 in HBel. specialize (HBel HLoc).
  pose proof (SX_define n (csym st) HO HI) as SXd. rewrite HD1 in SXd.
  destruct (set_var_sl y (with_sym sym' st1) st' HC) as (E1' & E2' & E4' & E3' & HRng).
  cbn [with_sym csym ccode cconsts cbreaks] in E1', E2', E3', E4'.
  apply (CTL_straight st st' (ops ++ [(setop y, sidx y)]) newc).
  - rewrite E1'. exact SXd.
  - congruence.
  - unfold solid. rewrite map_app. apply aok_app; [exact A|]. constructor; [cbn; exact HRng|constructor].
  - rewrite E3', C, encode_app, app_assoc. reflexivity.
  - rewrite E2'. exact K.
  - intros lc HLc. rewrite E1' in HLc. pose proof (sx_bound _ _ SXd) as HB2.
    apply Forall_app. split; [apply L, inv_lbw; [exact HI|lia]|]. constructor; [|constructor].
    apply lopk_setvar. intros _. lia.
  - intros nc gc k Hnc HG. eapply runs_app; [apply (R nc gc k); [rewrite <- E2'; exact Hnc|exact HG]|].
    cbn [runs]. rewrite sop_ok_setvar; [reflexivity| |exact HRng]. intro HS. congruence.
Qed.

Lemma pos_pcof st : pos_of st = Z.of_N (pcof st).
Proof. unfold pos_of, pcof. rewrite nat_N_Z. reflexivity. Qed.

Lemma holes_solid nc gc ops pc k k' : runs nc gc ops k = Some k' -> holes nc gc (solid ops) pc (AH k) = [].
Proof. intro H. apply (runs_bok nc gc ops pc k k' H). Qed.

(* while c / body / end *)
Lemma ctl_while c b st st' : efrag c = true -> slist_ctl b ->
  compile_stmt true (SWhile c b) st = COk st' -> Inv (csym st) -> has_gbw (csym st) -> CTL st st'.
Proof.
  intros HF HB HC HI HGB. cbn [compile_stmt] in HC.
  destruct (compile_expr true c st) as [st1|] eqn:E1; [|discriminate]. cbn [bind] in HC.
  destruct (emit true JumpOnFalse [JumpPlaceholderZ] st1) as [st2|] eqn:E2; [|discriminate]. cbn [bind] in HC.
  destruct (compile_block true b (with_breaks [] st2)) as [stb|] eqn:E3; [|discriminate]. cbn [bind] in HC.
  destruct (emit true Jump [pos_of st] stb) as [st3|] eqn:E4; [|discriminate]. cbn [bind] in HC.
  destruct (patch true (pos_of st1) (pos_of st3) st3) as [st4|] eqn:E5; [|discriminate]. cbn [bind] in HC.
  destruct (patch_all true (cbreaks st3) (pos_of st3) st4) as [st5|] eqn:E6; [|discriminate]. cbn [bind] in HC.
  inversion HC; subst st'; clear HC.
  (* the pieces *)
  destruct (expr_piece c st st1 HF E1 HGB) as (S1 & B1 & ops & newc & NE & A & C & K & R & L).
  apply emit_hole in E2; [|reflexivity]. subst st2.
  assert (HG2 : Inv (csym st1)) by (rewrite S1; exact HI).
  assert (HGB2 : has_gbw (csym st1)) by (rewrite S1; exact HGB).
  pose proof (ctl_block b _ _ HB E3 HG2 HGB2) as (Sb & nb & cb & bb & Ab & Cb & Kb & Bb & NDb & Hb & Lb & Db).
  cbn [with_breaks ccode cconsts csym cbreaks app] in Sb, Cb, Kb, Bb.
  apply emit_jump_to in E4. destruct E4 as [HRs ->].
  set (W := solid ops ++ ((true, (JumpOnFalse, 9999)) :: (nb ++ [(false, (Jump, pcof st))]))) in *.
  assert (AW : AOK W).
  { unfold W. apply aok_app; [exact A|]. constructor; [cbn; lia|]. apply aok_app; [exact Ab|].
    constructor; [cbn; rewrite pos_pcof in HRs; lia|constructor]. }
  assert (P1 : pcof st1 = pcof st + total_len ops).
  { pose proof (pcof_app st st1 (solid ops)) as X. rewrite strip_solid in X. apply X; [exact C|exact A]. }
  set (jof := pcof st + total_len ops) in *.
  set (bstart := jof + 3).
  assert (Pb : pcof {| ccode := ccode st1 ++ encode (strip [(true, (JumpOnFalse, 9999))]); cconsts := cconsts st1; csym := csym st1; cbreaks := [] |} = bstart).
  { unfold pcof, bstart. cbn [ccode]. rewrite app_length, Nat2N.inj_add. fold (pcof st1). rewrite P1.
    rewrite (aok_len [(true, (JumpOnFalse, 9999))]) by (constructor; [cbn; lia|constructor]). reflexivity. }
  unfold with_breaks in Hb, Db. cbn [ccode cconsts csym cbreaks] in Hb, Db. rewrite Pb in Hb, Db.
  assert (CW : ccode stb ++ encode (strip [(false, (Jump, Z.to_N (pos_of st)))]) = ccode st ++ encode (strip W)).
  { rewrite Cb, C. unfold W. rewrite !encode_strip_app, strip_solid.
    change ((true, (JumpOnFalse, 9999)) :: nb ++ [(false, (Jump, pcof st))]) with ([(true, (JumpOnFalse, 9999))] ++ nb ++ [(false, (Jump, pcof st))]).
    rewrite !encode_strip_app, <- !app_assoc. rewrite pos_pcof, N2Z.id. reflexivity. }
  assert (TW : total_len (strip W) = total_len ops + 3 + total_len (strip nb) + 3).
  { unfold W. rewrite strip_app, total_len_app, strip_solid, strip_cons, total_len_cons, strip_app, total_len_app.
    change (ilen_of (JumpOnFalse, 9999)) with 3. change (total_len (strip [(false, (Jump, pcof st))])) with (3 + 0). lia. }
  (* BOK of the unpatched loop, for all parameters *)
  assert (BW : forall nc gc k, N.of_nat (List.length (cconsts stb)) <= nc -> gbw (csym st) gc ->
            BOK nc gc W (pcof st) (AH k) (AH k) /\
            forall p ra, In (p, ra) (holes nc gc W (pcof st) (AH k)) -> ra = AH k /\ (p = jof \/ In p bb)).
  { intros nc gc k Hnc HGl.
    assert (Hnc1 : N.of_nat (List.length (cconsts st1)) <= nc) by (rewrite Kb, app_length in Hnc; lia).
    pose proof (R nc gc k Hnc1 HGl) as Rc.
    destruct (runs_bok nc gc ops (pcof st) k (k + 1) Rc) as [BKc HHc].
    destruct (bok_hole_jof nc gc jof k) as [BKj HHj].
    assert (HGl1 : gbw (csym st1) gc) by (rewrite S1; exact HGl).
    destruct (Db nc gc k Hnc HGl1) as [BKb HLb].
    assert (BK3 : BOK nc gc (solid ops ++ [(true, (JumpOnFalse, 9999))] ++ nb) (pcof st) (AH k) (AH k)).
    { eapply bok_app; [exact BKc|]. rewrite strip_solid. fold jof.
      eapply bok_app; [exact BKj|]. cbn [strip map snd]. rewrite total_len_cons. unfold total_len at 1. simpl fold_right.
      replace (jof + (ilen_of (JumpOnFalse, 9999) + 0)) with bstart by (unfold bstart, ilen_of; simpl; lia). exact BKb. }
    assert (HIN : In (pcof st, AH k) (jannot nc gc (strip (solid ops ++ [(true, (JumpOnFalse, 9999))] ++ nb)) (pcof st) (AH k))).
    { apply jannot_head. rewrite strip_app, strip_solid. destruct ops; [congruence|discriminate]. }
    destruct (bok_snoc_back nc gc _ (pcof st) (AH k) k (pcof st) BK3 HIN) as [BK4 HH4]; [rewrite pos_pcof in HRs; lia|].
    assert (EW : (solid ops ++ [(true, (JumpOnFalse, 9999))] ++ nb) ++ [(false, (Jump, pcof st))] = W).
    { unfold W. rewrite <- !app_assoc. reflexivity. }
    rewrite EW in BK4, HH4. split; [exact BK4|].
    intros p ra Hin. rewrite HH4 in Hin.
    rewrite (holes_app nc gc (solid ops) _ (pcof st) (AH k) (AH (k + 1)) (proj1 BKc)) in Hin.
    rewrite HHc in Hin. rewrite app_nil_l in Hin. rewrite strip_solid in Hin. fold jof in Hin.
    erewrite holes_app in Hin; [|exact (proj1 BKj)].
    rewrite HHj in Hin. cbn [app] in Hin. destruct Hin as [Eq|Hin].
    - inversion Eq; subst. split; [reflexivity|left; reflexivity].
    - cbn [strip map snd] in Hin. rewrite total_len_cons in Hin. unfold total_len at 1 in Hin. simpl fold_right in Hin.
      replace (jof + (ilen_of (JumpOnFalse, 9999) + 0)) with bstart in Hin by (unfold bstart, ilen_of; simpl; lia).
      destruct (HLb _ _ Hin). split; [assumption|right; assumption]. }
  (* the holes are where the compiler patches *)
  assert (HJ : hole_at W (pcof st) jof).
  { unfold W. apply hole_at_app_r. rewrite strip_solid. fold jof. cbn [hole_at]. left. auto. }
  assert (HBs : forall p, In p bb -> hole_at W (pcof st) p).
  { intros p Hp. unfold W. apply hole_at_app_r. rewrite strip_solid. fold jof. cbn [hole_at]. right.
    pose proof (hole_at_range _ _ _ (Hb p Hp)) as HR. split; [unfold bstart in HR; lia|].
    apply hole_at_app_l. replace (jof + ilen_of (JumpOnFalse, 9999)) with bstart by (unfold bstart, ilen_of; simpl; lia).
    apply Hb. exact Hp. }
  (* instantiate once to run the patch lemmas *)
  destruct HGB as (gc0 & HG0).
  destruct (BW (N.of_nat (List.length (cconsts stb))) gc0 0 (N.le_refl _) HG0) as [[RW _] _].
  assert (EJ : pos_of st1 = Z.of_N jof) by (rewrite pos_pcof, P1; reflexivity). rewrite EJ in E5.
  match type of E5 with patch _ _ ?T0 ?s0 = _ => set (TZ := T0) in *;
    destruct (patch_fill _ _ jof TZ s0 st4 W (ccode st) (AH 0) (AH 0) CW RW HJ E5) as [HT ->] end.
  cbn [cbreaks] in E6. rewrite Bb in E6. cbn [app] in E6.
  set (T := Z.to_N TZ) in *.
  assert (HTN : T < 65536) by (unfold T; lia).
  destruct (fill_frame _ _ [jof] T HTN W (pcof st) (AH 0) (AH 0) RW) as (RW1 & _ & _).
  eapply (patch_all_fill _ _ _ bb _ st5 (fill [jof] T W (pcof st)) (ccode st) (AH 0) (AH 0) NDb) in E6;
    [|reflexivity|exact RW1|].
  2:{ intros p Hp. apply hole_at_fill_sel; [|apply HBs; exact Hp].
      intros [<-|[]]. pose proof (hole_at_range _ _ _ (Hb _ Hp)). unfold bstart in *. lia. }
  destruct E6 as [_ ->]. cbn [with_breaks ccode cconsts csym cbreaks].
  rewrite fill_fill.
  assert (ET : T = pcof st + total_len (strip W)).
  { unfold T, TZ. rewrite pos_pcof, N2Z.id. unfold pcof at 1. cbn [ccode]. rewrite CW, app_length, Nat2N.inj_add, (aok_len W AW). reflexivity. }
  (* assemble *)
  unfold CTL. cbn [with_breaks ccode cconsts csym cbreaks].
  split; [rewrite <- S1; exact Sb|].
  exists (fill (bb ++ [jof]) T W (pcof st)), (newc ++ cb), [].
  split; [apply aok_fill; assumption|]. split; [reflexivity|]. split; [rewrite Kb, K, app_assoc; reflexivity|].
  split; [cbn [map]; rewrite app_nil_r; exact B1|]. split; [constructor|]. split; [intros p []|].
  split.
  { intros lc HLc. apply lok_fill. unfold W. pose proof (sx_bound _ _ Sb) as HB2. rewrite S1 in HB2.
    apply lok_app; [apply lok_solid, L, inv_lbw; [exact HI|lia]|].
    apply lok_cons; [reflexivity|]. apply lok_app; [apply Lb; exact HLc|apply lok_one; reflexivity]. }
  intros nc gc k Hnc HGl. cbn [cconsts] in Hnc. destruct (BW nc gc k Hnc HGl) as [BKW HLW].
  assert (BF : BOK nc gc (fill (bb ++ [jof]) T W (pcof st)) (pcof st) (AH k) (AH k)).
  { apply bok_fill; [exact HTN|exact BKW|]. intros p ra Hin _. left. destruct (HLW _ _ Hin). split; [exact ET|assumption]. }
  split; [exact BF|].
  intros p ra Hin. exfalso.
  destruct (holes_fill nc gc (bb ++ [jof]) T HTN W (pcof st) (AH k) (AH k) (proj1 BKW) p ra Hin) as [Hin0 HN].
  destruct (HLW _ _ Hin0) as [_ [->|Hp]]; apply HN; apply in_or_app; [right; left; reflexivity|left; exact Hp].
Qed.

(* ---------- for loops without a loop variable ---------- *)
Definition LOOPOK (S : N) (st st' : cstate) : Prop :=
  SX (csym st) (csym st') /\ cbreaks st' = cbreaks st /\
  exists new newc,
    AOK new /\
    ccode st' = ccode st ++ encode (strip new) /\
    cconsts st' = cconsts st ++ newc /\
    (forall lc, bound (csym st') <= lc -> LOK lc new) /\
    forall nc gc k, N.of_nat (List.length (cconsts st')) <= nc -> gbw (csym st) gc ->
      BOK nc gc new (pcof st) (AH (k + S)) (AH k) /\ holes nc gc new (pcof st) (AH (k + S)) = [].

Definition range_op (rop : opc) (S : N) : Prop := (rop = StepRange /\ S = 3) \/ (rop = IterRange /\ S = 2).

Lemma step_range_op nc gc rop S k : range_op rop S ->
  jop_step nc gc (rop, 0) (AH (k + S)) = Some (AH (k + S + 1)) /\ jop_req (rop, 0) (AH (k + S)) = None /\
  has_operand rop = true /\ is_jump rop = false.
Proof.
  intros [[-> ->]|[-> ->]]; unfold jop_step, jop_req; cbn [fst snd]; change (0 <? 65536) with true; cbn [negb].
  - destruct (3 <=? k + 3) eqn:E; [|apply N.leb_gt in E; lia]. auto.
  - destruct (2 <=? k + 2) eqn:E; [|apply N.leb_gt in E; lia]. auto.
Qed.

Lemma sop_ok_drop nc gc S k : S < 65536 -> sop_ok nc gc (Drop, S) (k + S) = Some k.
Proof.
  intro HS. unfold sop_ok. cbn [is_sl negb has_operand andb simple_effect].
  destruct (S <? 65536) eqn:E; [|apply N.ltb_ge in E; lia]. cbn [negb].
  destruct (k + S <? S) eqn:E1; [apply N.ltb_lt in E1; lia|]. f_equal. lia.
Qed.

Lemma for_loop_ok rop S b st st' : range_op rop S -> slist_ctl b ->
  for_loop true None rop (Z.of_N S) b st = COk st' -> Inv (csym st) -> has_gbw (csym st) -> LOOPOK S st st'.
Proof.
  intros HRO HB HC HI HGB.
  assert (HS : S < 65536) by (destruct HRO as [[_ ->]|[_ ->]]; lia).
  assert (HCb : for_loop true None rop (Z.of_N S) b st =
    (emit true rop [0%Z] st >>= fun st2 =>
     emit true JumpOnFalse [JumpPlaceholderZ] st2 >>= fun st3 =>
     body_of true b (with_sym (st_push (csym st3)) (with_breaks [] st3)) >>= fun st4 =>
     emit true Jump [pos_of st] (with_sym (st_pop (csym st4)) st4) >>= fun st5 =>
     emit true Drop [Z.of_N S] st5 >>= fun st6 =>
     patch true (pos_of st2) (pos_of st5) st6 >>= patch_all true (cbreaks st6) (pos_of st5) >>= fun st7 =>
     COk (with_breaks (cbreaks st3) st7))).
  { destruct b; cbn [for_loop for_declare for_assign bind body_of];
      destruct (emit true rop [0%Z] st); cbn [bind]; try reflexivity;
      destruct (emit true JumpOnFalse [JumpPlaceholderZ] c); cbn [bind]; reflexivity. }
  rewrite HCb in HC. clear HCb.
  destruct (emit true rop [0%Z] st) as [st2|] eqn:E1; [|discriminate]. cbn [bind] in HC.
  destruct (emit true JumpOnFalse [JumpPlaceholderZ] st2) as [st3|] eqn:E2; [|discriminate]. cbn [bind] in HC.
  destruct (body_of true b (with_sym (st_push (csym st3)) (with_breaks [] st3))) as [st4|] eqn:E3; [|discriminate]. cbn [bind] in HC.
  destruct (emit true Jump [pos_of st] (with_sym (st_pop (csym st4)) st4)) as [st5|] eqn:E4; [|discriminate]. cbn [bind] in HC.
  destruct (emit true Drop [Z.of_N S] st5) as [st6|] eqn:E5; [|discriminate]. cbn [bind] in HC.
  destruct (patch true (pos_of st2) (pos_of st5) st6) as [st7|] eqn:E6; [|discriminate]. cbn [bind] in HC.
  destruct (patch_all true (cbreaks st6) (pos_of st5) st7) as [st8|] eqn:E7; [|discriminate]. cbn [bind] in HC.
  inversion HC; subst st'; clear HC.
  destruct (step_range_op 0 0 rop S 0 HRO) as (_ & _ & HOr & HJr).
  apply emit_enc1 in E1; [|exact HOr]. destruct E1 as [_ ->]. change (Z.to_N 0) with 0 in *.
  apply emit_hole in E2; [|reflexivity]. subst st3. cbn [ccode cconsts csym cbreaks] in *.
  assert (HG3 : Inv (st_push (csym st))) by (apply inv_push; exact HI).
  assert (HGB3 : has_gbw (st_push (csym st))) by (apply has_gbw_push; exact HGB).
  assert (HO3 : outers (st_push (csym st)) <> []) by discriminate.
  pose proof (HB _ _ E3 HO3 HG3 HGB3) as (Sb & nb & cb & bb & Ab & Cb & Kb & Bb & NDb & Hb & Lb & Db).
  unfold with_sym, with_breaks in Sb, Cb, Kb, Bb, Hb, Lb, Db. cbn [ccode cconsts csym cbreaks app] in Sb, Cb, Kb, Bb, Hb, Lb, Db.
  apply emit_jump_to in E4. destruct E4 as [HRs ->]. unfold with_sym in E5, E6, E7. cbn [ccode cconsts csym cbreaks] in E5, E6, E7.
  apply emit_enc1 in E5; [|reflexivity]. destruct E5 as [_ ->]. rewrite N2Z.id in *. cbn [ccode cconsts csym cbreaks] in E6, E7.
  set (pc0 := pcof st) in *.
  set (W0 := (false, (rop, 0)) :: (true, (JumpOnFalse, 9999)) :: (nb ++ [(false, (Jump, pc0))])).
  set (W := W0 ++ [(false, (Drop, S))]).
  assert (AW0 : AOK W0).
  { unfold W0. constructor; [cbn; lia|]. constructor; [cbn; lia|]. apply aok_app; [exact Ab|].
    constructor; [cbn; unfold pc0; rewrite pos_pcof in HRs; lia|constructor]. }
  assert (AW : AOK W) by (unfold W; apply aok_app; [exact AW0|constructor; [cbn; exact HS|constructor]]).
  set (jof := pc0 + 3). set (bstart := pc0 + 6).
  assert (Pb : pcof {| ccode := (ccode st ++ enc1 (rop, 0)) ++ encode (strip [(true, (JumpOnFalse, 9999))]);
                       cconsts := cconsts st; csym := st_push (csym st); cbreaks := [] |} = bstart).
  { unfold pcof, bstart, pc0, pcof. cbn [ccode]. rewrite !app_length, !Nat2N.inj_add.
    rewrite (aok_len [(true, (JumpOnFalse, 9999))]) by (constructor; [cbn; lia|constructor]).
    replace (N.of_nat (List.length (enc1 (rop, 0)))) with 3.
    - cbn [strip map snd]. rewrite total_len_cons. unfold total_len, ilen_of. simpl. lia.
    - symmetry. pose proof (decode1_enc1' (rop, 0) [] ltac:(cbn; lia)) as [_ HL]. rewrite HL. unfold ilen_of. cbn [fst]. rewrite HOr. reflexivity. }
  rewrite Pb in Hb, Db.
  assert (TW0 : total_len (strip W0) = 3 + (3 + (total_len (strip nb) + 3))).
  { unfold W0. rewrite !strip_cons, !total_len_cons, strip_app, total_len_app. unfold ilen_of. cbn [fst]. rewrite HOr.
    change (total_len (strip [(false, (Jump, pc0))])) with (3 + 0). cbn [has_operand]. lia. }
  assert (CW : ((ccode st4 ++ encode (strip [(false, (Jump, Z.to_N (pos_of st)))])) ++ enc1 (Drop, S)) = ccode st ++ encode (strip W)).
  { rewrite Cb. unfold W, W0. rewrite pos_pcof, N2Z.id. fold pc0.
    change ((false, (rop, 0)) :: (true, (JumpOnFalse, 9999)) :: nb ++ [(false, (Jump, pc0))])
      with ([(false, (rop, 0))] ++ [(true, (JumpOnFalse, 9999))] ++ nb ++ [(false, (Jump, pc0))]).
    rewrite !encode_strip_app. cbn [strip map snd]. rewrite !encode_one, <- !app_assoc. reflexivity. }
  set (endp := pc0 + total_len (strip W0)).
  (* BOK of the unpatched loop *)
  assert (BW : forall nc gc k, N.of_nat (List.length (cconsts st4)) <= nc -> gbw (csym st) gc ->
            BOK nc gc W pc0 (AH (k + S)) (AH k) /\
            In (endp, AH (k + S)) (jannot nc gc (strip W) pc0 (AH (k + S))) /\
            forall p ra, In (p, ra) (holes nc gc W pc0 (AH (k + S))) -> ra = AH (k + S) /\ (p = jof \/ In p bb)).
  { intros nc gc k Hnc HGl.
    destruct (step_range_op nc gc rop S k HRO) as (ST1 & RQ1 & _ & _).
    assert (BK1 : BOK nc gc [(false, (rop, 0))] pc0 (AH (k + S)) (AH (k + S + 1))).
    { unfold BOK. cbn [strip map snd jruns jannot htgt]. rewrite ST1, RQ1. repeat split. }
    assert (HH1 : holes nc gc [(false, (rop, 0))] pc0 (AH (k + S)) = []).
    { cbn [holes]. rewrite ST1. reflexivity. }
    destruct (bok_hole_jof nc gc jof (k + S)) as [BKj HHj].
    assert (HGl3 : gbw (st_push (csym st)) gc) by (apply gbw_push; exact HGl).
    destruct (Db nc gc (k + S) Hnc HGl3) as [BKb HLb].
    assert (L1 : pc0 + total_len (strip [(false, (rop, 0))]) = jof).
    { cbn [strip map snd]. rewrite total_len_cons. unfold total_len, ilen_of, jof. cbn [fst fold_right]. rewrite HOr. lia. }
    assert (BK3 : BOK nc gc ([(false, (rop, 0))] ++ [(true, (JumpOnFalse, 9999))] ++ nb) pc0 (AH (k + S)) (AH (k + S))).
    { eapply bok_app; [exact BK1|]. rewrite L1.
      eapply bok_app; [exact BKj|]. cbn [strip map snd]. rewrite total_len_cons. unfold total_len at 1. simpl fold_right.
      replace (jof + (ilen_of (JumpOnFalse, 9999) + 0)) with bstart by (unfold bstart, jof, ilen_of; simpl; lia). exact BKb. }
    assert (HIN : In (pc0, AH (k + S)) (jannot nc gc (strip ([(false, (rop, 0))] ++ [(true, (JumpOnFalse, 9999))] ++ nb)) pc0 (AH (k + S)))).
    { apply jannot_head. discriminate. }
    destruct (bok_snoc_back nc gc _ pc0 (AH (k + S)) (k + S) pc0 BK3 HIN) as [BK4 HH4]; [unfold pc0; rewrite pos_pcof in HRs; lia|].
    assert (BK4' : BOK nc gc W0 pc0 (AH (k + S)) (AH (k + S))) by exact BK4.
    assert (HH4' : holes nc gc W0 pc0 (AH (k + S)) =
                   holes nc gc ([(false, (rop, 0))] ++ [(true, (JumpOnFalse, 9999))] ++ nb) pc0 (AH (k + S))) by exact HH4.
    clear BK4 HH4. rename BK4' into BK4. rename HH4' into HH4.
    destruct (runs_bok nc gc [(Drop, S)] endp (k + S) k) as [BKd HHd].
    { cbn [runs]. rewrite (sop_ok_drop nc gc S k HS). reflexivity. }
    split; [|split].
    - unfold W. eapply bok_app; [exact BK4|exact BKd].
    - unfold W. rewrite strip_app, (jannot_app nc gc (strip W0) _ pc0 _ _ (proj1 BK4)).
      apply in_or_app. right. fold endp. cbn [strip map snd jannot]. left. reflexivity.
    - intros p ra Hin. unfold W in Hin. rewrite (holes_app nc gc W0 _ pc0 _ _ (proj1 BK4)) in Hin.
      apply in_app_or in Hin. destruct Hin as [Hin|Hin];
        [|exfalso; revert Hin; change (In (p, ra) (holes nc gc (solid [(Drop, S)]) endp (AH (k + S))) -> False); rewrite HHd; intros []].
      rewrite HH4 in Hin.
      rewrite (holes_app nc gc [(false, (rop, 0))] _ pc0 _ _ (proj1 BK1)), HH1, app_nil_l, L1 in Hin.
      erewrite holes_app in Hin; [|exact (proj1 BKj)]. rewrite HHj in Hin. cbn [app] in Hin. destruct Hin as [Eq|Hin].
      + inversion Eq; subst. split; [reflexivity|left; reflexivity].
      + cbn [strip map snd] in Hin. rewrite total_len_cons in Hin. unfold total_len at 1 in Hin. simpl fold_right in Hin.
        replace (jof + (ilen_of (JumpOnFalse, 9999) + 0)) with bstart in Hin by (unfold bstart, jof, ilen_of; simpl; lia).
        destruct (HLb _ _ Hin). split; [assumption|right; assumption]. }
  assert (HIL : ilen_of (rop, 0) = 3) by (unfold ilen_of; cbn [fst]; rewrite HOr; reflexivity).
  assert (HJ : hole_at W pc0 jof).
  { unfold W, W0. apply hole_at_app_l. cbn [hole_at]. right. rewrite HIL.
    split; [unfold jof; lia|]. left. unfold jof. auto. }
  assert (HBs : forall p, In p bb -> hole_at W pc0 p).
  { intros p Hp. unfold W, W0. apply hole_at_app_l. pose proof (hole_at_range _ _ _ (Hb p Hp)) as HR.
    cbn [hole_at]. right. rewrite !HIL. split; [unfold bstart in HR; lia|].
    right. split; [unfold bstart in HR; lia|]. apply hole_at_app_l.
    replace (pc0 + 3 + ilen_of (JumpOnFalse, 9999)) with bstart by (unfold bstart, ilen_of; simpl; lia).
    apply Hb. exact Hp. }
  destruct HGB as (gc0 & HG0).
  destruct (BW (N.of_nat (List.length (cconsts st4))) gc0 0 (N.le_refl _) HG0) as [[RW _] _].
  assert (EJ : pos_of {| ccode := ccode st ++ enc1 (rop, 0); cconsts := cconsts st; csym := csym st; cbreaks := cbreaks st |} = Z.of_N jof).
  { rewrite pos_pcof. f_equal. unfold pcof, jof, pc0, pcof. cbn [ccode]. rewrite app_length, Nat2N.inj_add. f_equal.
    pose proof (decode1_enc1' (rop, 0) [] ltac:(cbn; lia)) as [_ HL]. rewrite HL. unfold ilen_of. cbn [fst]. rewrite HOr. reflexivity. }
  rewrite EJ in E6.
  match type of E6 with patch _ _ ?T0 ?s0 = _ => set (TZ := T0) in *;
    destruct (patch_fill _ _ jof TZ s0 st7 W (ccode st) (AH (0 + S)) (AH 0) CW RW HJ E6) as [HT ->] end.
  cbn [cbreaks] in E7. rewrite Bb in E7. cbn [app] in E7.
  set (T := Z.to_N TZ) in *.
  assert (HTN : T < 65536) by (unfold T; lia).
  destruct (fill_frame _ _ [jof] T HTN W pc0 (AH (0 + S)) (AH 0) RW) as (RW1 & _ & _).
  eapply (patch_all_fill _ _ _ bb _ st8 (fill [jof] T W pc0) (ccode st) (AH (0 + S)) (AH 0) NDb) in E7;
    [|reflexivity|exact RW1|].
  2:{ intros p Hp. apply hole_at_fill_sel; [|apply HBs; exact Hp].
      intros [<-|[]]. pose proof (hole_at_range _ _ _ (Hb _ Hp)). unfold bstart, jof in *. lia. }
  destruct E7 as [_ ->]. rewrite fill_fill.
  assert (ET : T = endp).
  { unfold T, TZ. rewrite pos_pcof, N2Z.id. unfold pcof. cbn [ccode]. unfold endp.
    assert (X : ccode st4 ++ encode (strip [(false, (Jump, Z.to_N (pos_of st)))]) = ccode st ++ encode (strip W0)).
    { rewrite Cb. unfold W0. rewrite pos_pcof, N2Z.id. fold pc0.
      change ((false, (rop, 0)) :: (true, (JumpOnFalse, 9999)) :: nb ++ [(false, (Jump, pc0))])
        with ([(false, (rop, 0))] ++ [(true, (JumpOnFalse, 9999))] ++ nb ++ [(false, (Jump, pc0))]).
      rewrite !encode_strip_app. cbn [strip map snd]. rewrite !encode_one, <- !app_assoc. reflexivity. }
    rewrite X, app_length, Nat2N.inj_add, (aok_len W0 AW0). reflexivity. }
  unfold LOOPOK. cbn [with_breaks ccode cconsts csym cbreaks]. fold pc0.
  split; [apply SX_block; exact Sb|]. split; [reflexivity|].
  exists (fill (bb ++ [jof]) T W pc0), cb.
  split; [apply aok_fill; assumption|]. split; [reflexivity|]. split; [exact Kb|].
  split.
  { intros lc HLc. pose proof (bound_step SPop (csym st4)) as X. cbn [st_step fst] in X.
    apply lok_fill. unfold W, W0. apply lok_app; [|apply lok_one; reflexivity].
    apply lok_cons; [destruct HRO as [[-> _]|[-> _]]; reflexivity|]. apply lok_cons; [reflexivity|].
    apply lok_app; [apply Lb; lia|apply lok_one; reflexivity]. }
  intros nc gc k Hnc HGl. destruct (BW nc gc k Hnc HGl) as (BKW & HEND & HLW).
  split.
  - apply bok_fill; [exact HTN|exact BKW|]. intros p ra Hin _. right. destruct (HLW _ _ Hin) as [-> _]. rewrite ET. exact HEND.
  - destruct (holes nc gc (fill (bb ++ [jof]) T W pc0) pc0 (AH (k + S))) as [|[p ra] r] eqn:EH; [reflexivity|exfalso].
    assert (Hin : In (p, ra) (holes nc gc (fill (bb ++ [jof]) T W pc0) pc0 (AH (k + S)))) by (rewrite EH; left; reflexivity).
    destruct (holes_fill nc gc (bb ++ [jof]) T HTN W pc0 _ _ (proj1 BKW) p ra Hin) as [Hin0 HN].
    destruct (HLW _ _ Hin0) as [_ [->|Hp]]; apply HN; apply in_or_app; [right; left; reflexivity|left; exact Hp].
Qed.

(* ---------- if / else-if / else: pending end-of-if jumps besides the breaks ---------- *)
Definition CTLx (xs : list N) (st st' : cstate) : Prop :=
  SX (csym st) (csym st') /\
  exists new newc newb,
    AOK new /\
    ccode st' = ccode st ++ encode (strip new) /\
    cconsts st' = cconsts st ++ newc /\
    cbreaks st' = cbreaks st ++ map Z.of_N newb /\
    NoDup newb /\ NoDup xs /\ (forall p, In p newb -> ~ In p xs) /\
    (forall p, In p (newb ++ xs) -> hole_at new (pcof st) p) /\
    (forall lc, bound (csym st') <= lc -> LOK lc new) /\
    forall nc gc k, N.of_nat (List.length (cconsts st')) <= nc -> gbw (csym st) gc ->
      BOK nc gc new (pcof st) (AH k) (AH k) /\
      forall p ra, In (p, ra) (holes nc gc new (pcof st) (AH k)) -> ra = AH k /\ In p (newb ++ xs).

Lemma ctlx_of_ctl st st' : CTL st st' -> CTLx [] st st'.
Proof.
  intros (S & new & newc & newb & A & C & K & B & ND & H & L & D). split; [exact S|].
  exists new, newc, newb. repeat (split; [assumption|]). split; [constructor|]. split; [intros p _ []|].
  split; [intros p Hp; rewrite app_nil_r in Hp; auto|]. split; [exact L|].
  intros nc gc k Hnc HG. destruct (D nc gc k Hnc HG) as [BK HL]. split; [exact BK|].
  intros p ra Hin. rewrite app_nil_r. auto.
Qed.

Lemma ctlx_trans x1 x2 st st1 st2 : CTLx x1 st st1 -> CTLx x2 st1 st2 -> CTLx (x1 ++ x2) st st2.
Proof.
  intros (S1 & n1 & c1 & b1 & A1 & C1 & K1 & B1 & ND1 & NX1 & DJ1 & H1 & L1 & D1)
         (S2 & n2 & c2 & b2 & A2 & C2 & K2 & B2 & ND2 & NX2 & DJ2 & H2 & L2 & D2).
  pose proof (pcof_app st st1 n1 C1 A1) as HP.
  assert (R1 : forall p, In p (b1 ++ x1) -> pcof st <= p < pcof st1).
  { intros p Hp. apply H1 in Hp. apply hole_at_range in Hp. lia. }
  assert (R2 : forall p, In p (b2 ++ x2) -> pcof st1 <= p).
  { intros p Hp. apply H2 in Hp. apply hole_at_range in Hp. lia. }
  split; [eapply SX_trans; eauto|]. exists (n1 ++ n2), (c1 ++ c2), (b1 ++ b2).
  split; [apply aok_app; assumption|].
  split; [rewrite C2, C1, strip_app; unfold encode; rewrite flat_map_app, app_assoc; reflexivity|].
  split; [rewrite K2, K1, app_assoc; reflexivity|].
  split; [rewrite B2, B1, map_app, app_assoc; reflexivity|].
  split.
  { apply nodup_app; auto. intros p Hp1 Hp2.
    specialize (R1 p (in_or_app _ _ _ (or_introl Hp1))). specialize (R2 p (in_or_app _ _ _ (or_introl Hp2))). lia. }
  split.
  { apply nodup_app; auto. intros p Hp1 Hp2.
    specialize (R1 p (in_or_app _ _ _ (or_intror Hp1))). specialize (R2 p (in_or_app _ _ _ (or_intror Hp2))). lia. }
  split.
  { intros p Hb Hx. apply in_app_or in Hb. apply in_app_or in Hx. destruct Hb as [Hb|Hb]; destruct Hx as [Hx|Hx].
    - apply (DJ1 p Hb Hx).
    - specialize (R1 p (in_or_app _ _ _ (or_introl Hb))). specialize (R2 p (in_or_app _ _ _ (or_intror Hx))). lia.
    - specialize (R1 p (in_or_app _ _ _ (or_intror Hx))). specialize (R2 p (in_or_app _ _ _ (or_introl Hb))). lia.
    - apply (DJ2 p Hb Hx). }
  split.
  { intros p Hp.
    assert (In p (b1 ++ x1) \/ In p (b2 ++ x2)) as [Hq|Hq].
    { apply in_app_or in Hp. destruct Hp as [Hp|Hp]; apply in_app_or in Hp; destruct Hp as [Hp|Hp];
        [left|right|left|right]; apply in_or_app; auto. }
    - apply hole_at_app_l. apply H1. exact Hq.
    - apply hole_at_app_r. rewrite <- HP. apply H2. exact Hq. }
  split.
  { intros lc HLc. pose proof (sx_bound _ _ S2). apply lok_app; [apply L1; lia|apply L2; exact HLc]. }
  intros nc gc k Hnc HG.
  assert (Hnc1 : N.of_nat (List.length (cconsts st1)) <= nc) by (rewrite K2, app_length in Hnc; lia).
  destruct (D1 nc gc k Hnc1 HG) as [BK1 HL1].
  assert (HG1 : gbw (csym st1) gc) by (apply (sx_gbw _ _ S1); exact HG).
  destruct (D2 nc gc k Hnc HG1) as [BK2 HL2]. rewrite HP in BK2, HL2.
  split; [eapply bok_app; eauto|].
  intros p ra Hin. rewrite (holes_app nc gc n1 n2 (pcof st) (AH k) (AH k) (proj1 BK1)) in Hin.
  apply in_app_or in Hin. destruct Hin as [Hin|Hin].
  - destruct (HL1 _ _ Hin) as [E Hq]. split; [assumption|].
    apply in_app_or in Hq. destruct Hq; apply in_or_app; [left|right]; apply in_or_app; left; assumption.
  - destruct (HL2 _ _ Hin) as [E Hq]. split; [assumption|].
    apply in_app_or in Hq. destruct Hq; apply in_or_app; [left|right]; apply in_or_app; right; assumption.
Qed.

(* closing the if: all end jumps are patched to the end of the statement *)
Lemma ctlx_close xs st st3 st' : has_gbw (csym st) -> CTLx xs st st3 ->
  patch_all true (map Z.of_N xs) (pos_of st3) st3 = COk st' -> CTL st st'.
Proof.
  intros (gc0 & HG0) (S & new & newc & newb & A & C & K & B & ND & NX & DJ & H & L & D) HP.
  destruct (D (N.of_nat (List.length (cconsts st3))) gc0 0 (N.le_refl _) HG0) as [[RW _] _].
  eapply (patch_all_fill _ _ _ xs _ st' new (ccode st) (AH 0) (AH 0) NX C RW) in HP.
  2:{ intros p Hp. apply H. apply in_or_app. right. exact Hp. }
  destruct HP as [HT ->]. fold (pcof st).
  set (T := Z.to_N (pos_of st3)).
  assert (ET : T = pcof st + total_len (strip new)).
  { unfold T. rewrite pos_pcof, N2Z.id. apply pcof_app; assumption. }
  unfold CTL. cbn [ccode cconsts csym cbreaks]. split; [exact S|].
  destruct xs as [|x0 xs'].
  - rewrite fill_nil. exists new, newc, newb.
    split; [exact A|]. split; [reflexivity|]. split; [exact K|]. split; [exact B|]. split; [exact ND|].
    split; [intros p Hp; apply H; apply in_or_app; left; exact Hp|]. split; [exact L|].
    intros nc gc k Hnc HG. destruct (D nc gc k Hnc HG) as [BK HL]. split; [exact BK|].
    intros p ra Hin. destruct (HL _ _ Hin) as [E Hq]. rewrite app_nil_r in Hq. auto.
  - assert (HTN : T < 65536) by (unfold T; specialize (HT ltac:(discriminate)); lia).
    exists (fill (x0 :: xs') T new (pcof st)), newc, newb.
    split; [apply aok_fill; assumption|]. split; [reflexivity|]. split; [exact K|]. split; [exact B|]. split; [exact ND|].
    split.
    { intros p Hp. apply hole_at_fill_sel; [apply DJ; exact Hp|]. apply H. apply in_or_app. left. exact Hp. }
    split; [intros lc HLc; apply lok_fill, L, HLc|].
    intros nc gc k Hnc HG. destruct (D nc gc k Hnc HG) as [BK HL]. split.
    + apply bok_fill; [exact HTN|exact BK|]. intros p ra Hin _. left. destruct (HL _ _ Hin). split; [exact ET|assumption].
    + intros p ra Hin.
      destruct (holes_fill nc gc (x0 :: xs') T HTN new (pcof st) _ _ (proj1 BK) p ra Hin) as [Hin0 HN].
      destruct (HL _ _ Hin0) as [E Hq]. split; [exact E|]. apply in_app_or in Hq. destruct Hq; [assumption|contradiction].
Qed.

Lemma holes_app_in nc gc a b pc s s1 x : jruns nc gc (strip a) s = Some s1 ->
  In x (holes nc gc (a ++ b) pc s) ->
  In x (holes nc gc a pc s) \/ In x (holes nc gc b (pc + total_len (strip a)) s1).
Proof. intros H Hin. rewrite (holes_app nc gc a b pc s s1 H) in Hin. apply in_app_or. exact Hin. Qed.

Lemma compile_cond_body c b st : compile_cond true c b st =
  compile_expr true c st >>= fun st1 =>
  emit true JumpOnFalse [JumpPlaceholderZ] st1 >>= fun st2 =>
  body_of true b (with_sym (st_push (csym st2)) st2) >>= fun st3 =>
  emit true Jump [JumpPlaceholderZ] (with_sym (st_pop (csym st3)) st3) >>= fun st4 =>
  patch true (pos_of st1) (pos_of st4) st4.
Proof. destruct b; reflexivity. Qed.

(* one `cond / block` of an if statement: leaves its end jump pending *)
Lemma ctl_cond c b st st' : efrag c = true -> slist_ctl b ->
  compile_cond true c b st = COk st' -> Inv (csym st) -> has_gbw (csym st) ->
  exists ej, Z.of_N ej = (pos_of st' - 3)%Z /\ CTLx [ej] st st'.
Proof.
  intros HF HB HC HI HGB. rewrite compile_cond_body in HC.
  destruct (compile_expr true c st) as [st1|] eqn:E1; [|discriminate]. cbn [bind] in HC.
  destruct (emit true JumpOnFalse [JumpPlaceholderZ] st1) as [st2|] eqn:E2; [|discriminate]. cbn [bind] in HC.
  destruct (body_of true b (with_sym (st_push (csym st2)) st2)) as [st3|] eqn:E3; [|discriminate]. cbn [bind] in HC.
  destruct (emit true Jump [JumpPlaceholderZ] (with_sym (st_pop (csym st3)) st3)) as [st4|] eqn:E4; [|discriminate]. cbn [bind] in HC.
  destruct (expr_piece c st st1 HF E1 HGB) as (S1 & B1 & ops & newc & NE & A & C & K & R & L).
  apply emit_hole in E2; [|reflexivity]. subst st2. cbn [csym] in E3.
  assert (HG3 : Inv (st_push (csym st1))) by (apply inv_push; rewrite S1; exact HI).
  assert (HGB3 : has_gbw (st_push (csym st1))) by (apply has_gbw_push; rewrite S1; exact HGB).
  assert (HO3 : outers (st_push (csym st1)) <> []) by discriminate.
  pose proof (HB _ _ E3 HO3 HG3 HGB3) as (Sb & nb & cb & bb & Ab & Cb & Kb & Bb & NDb & Hb & Lb & Db).
  unfold with_sym in Sb, Cb, Kb, Bb, Hb, Lb, Db. cbn [ccode cconsts csym cbreaks] in Sb, Cb, Kb, Bb, Hb, Lb, Db.
  apply emit_hole in E4; [|reflexivity]. subst st4. unfold with_sym in HC. cbn [ccode cconsts csym cbreaks] in HC.
  set (pc0 := pcof st) in *.
  set (W := solid ops ++ ((true, (JumpOnFalse, 9999)) :: (nb ++ [(true, (Jump, 9999))]))) in *.
  assert (AW : AOK W).
  { unfold W. apply aok_app; [exact A|]. constructor; [cbn; lia|]. apply aok_app; [exact Ab|].
    constructor; [cbn; lia|constructor]. }
  assert (P1 : pcof st1 = pc0 + total_len ops).
  { pose proof (pcof_app st st1 (solid ops)) as X. rewrite strip_solid in X. apply X; [first [exact C|rewrite strip_solid; exact C]|exact A]. }
  set (jof := pc0 + total_len ops) in *. set (bstart := jof + 3).
  assert (Pb : pcof {| ccode := ccode st1 ++ encode (strip [(true, (JumpOnFalse, 9999))]); cconsts := cconsts st1;
                       csym := st_push (csym st1); cbreaks := cbreaks st1 |} = bstart).
  { unfold pcof, bstart. cbn [ccode]. rewrite app_length, Nat2N.inj_add. fold (pcof st1). rewrite P1.
    rewrite (aok_len [(true, (JumpOnFalse, 9999))]) by (constructor; [cbn; lia|constructor]). reflexivity. }
  rewrite Pb in Hb, Db.
  set (ej := bstart + total_len (strip nb)).
  assert (CW : ccode st3 ++ encode (strip [(true, (Jump, 9999))]) = ccode st ++ encode (strip W)).
  { rewrite Cb, C. unfold W. rewrite !encode_strip_app, strip_solid.
    change ((true, (JumpOnFalse, 9999)) :: nb ++ [(true, (Jump, 9999))]) with ([(true, (JumpOnFalse, 9999))] ++ nb ++ [(true, (Jump, 9999))]).
    rewrite !encode_strip_app, <- !app_assoc. reflexivity. }
  assert (TW : total_len (strip W) = total_len ops + 3 + total_len (strip nb) + 3).
  { unfold W. rewrite strip_app, total_len_app, strip_solid, strip_cons, total_len_cons, strip_app, total_len_app.
    change (ilen_of (JumpOnFalse, 9999)) with 3. change (total_len (strip [(true, (Jump, 9999))])) with (3 + 0). lia. }
  assert (BW : forall nc gc k, N.of_nat (List.length (cconsts st3)) <= nc -> gbw (csym st) gc ->
            BOK nc gc W pc0 (AH k) (AH k) /\
            forall p ra, In (p, ra) (holes nc gc W pc0 (AH k)) -> ra = AH k /\ (p = jof \/ In p bb \/ p = ej)).
  { intros nc gc k Hnc HGl.
    assert (Hnc1 : N.of_nat (List.length (cconsts st1)) <= nc) by (rewrite Kb, app_length in Hnc; lia).
    pose proof (R nc gc k Hnc1 HGl) as Rc.
    destruct (runs_bok nc gc ops pc0 k (k + 1) Rc) as [BKc HHc].
    destruct (bok_hole_jof nc gc jof k) as [BKj HHj].
    assert (HGl3 : gbw (st_push (csym st1)) gc) by (apply gbw_push; rewrite S1; exact HGl).
    destruct (Db nc gc k Hnc HGl3) as [BKb HLb].
    destruct (bok_hole_jump nc gc ej k) as [BKe HHe].
    assert (L2 : jof + total_len (strip [(true, (JumpOnFalse, 9999))]) = bstart).
    { cbn [strip map snd]. rewrite total_len_cons. unfold total_len, bstart, ilen_of. simpl. lia. }
    assert (BK2 : BOK nc gc ([(true, (JumpOnFalse, 9999))] ++ nb ++ [(true, (Jump, 9999))]) jof (AH (k + 1)) (AH k)).
    { eapply bok_app; [exact BKj|]. rewrite L2. eapply bok_app; [exact BKb|]. exact BKe. }
    split.
    - unfold W. eapply bok_app; [exact BKc|]. rewrite strip_solid. exact BK2.
    - intros p ra Hin. unfold W in Hin.
      apply (holes_app_in nc gc (solid ops) _ pc0 (AH k) (AH (k + 1)) _ (proj1 BKc)) in Hin.
      destruct Hin as [Hin|Hin]; [rewrite HHc in Hin; destruct Hin|]. rewrite strip_solid in Hin. fold jof in Hin.
      apply (holes_app_in nc gc [(true, (JumpOnFalse, 9999))] (nb ++ [(true, (Jump, 9999))]) jof (AH (k + 1)) (AH k) _ (proj1 BKj)) in Hin.
      destruct Hin as [Hin|Hin].
      { assert (X : In (p, ra) [(jof, AH k)]) by (rewrite <- HHj; exact Hin).
        destruct X as [Eq|[]]. inversion Eq; subst. split; [reflexivity|left; reflexivity]. }
      rewrite L2 in Hin.
      apply (holes_app_in nc gc nb [(true, (Jump, 9999))] bstart (AH k) (AH k) _ (proj1 BKb)) in Hin.
      destruct Hin as [Hin|Hin].
      + destruct (HLb _ _ Hin). split; [assumption|right; left; assumption].
      + fold ej in Hin. assert (X : In (p, ra) [(ej, AH k)]) by (rewrite <- HHe; exact Hin).
        destruct X as [Eq|[]]. inversion Eq; subst. split; [reflexivity|right; right; reflexivity]. }
  assert (HJ : hole_at W pc0 jof).
  { unfold W. apply hole_at_app_r. rewrite strip_solid. fold jof. cbn [hole_at]. left. auto. }
  assert (HBs : forall p, In p bb -> hole_at W pc0 p).
  { intros p Hp. unfold W. apply hole_at_app_r. rewrite strip_solid. fold jof. cbn [hole_at]. right.
    pose proof (hole_at_range _ _ _ (Hb p Hp)) as HR. split; [unfold bstart in HR; lia|].
    apply hole_at_app_l. replace (jof + ilen_of (JumpOnFalse, 9999)) with bstart by (unfold bstart, ilen_of; simpl; lia).
    apply Hb. exact Hp. }
  assert (HE : hole_at W pc0 ej).
  { unfold W. apply hole_at_app_r. rewrite strip_solid. fold jof. cbn [hole_at]. right.
    split; [unfold ej, bstart; lia|]. apply hole_at_app_r.
    replace (jof + ilen_of (JumpOnFalse, 9999)) with bstart by (unfold bstart, ilen_of; simpl; lia). fold ej.
    cbn [hole_at]. left. auto. }
  destruct HGB as (gc0 & HG0).
  destruct (BW (N.of_nat (List.length (cconsts st3))) gc0 0 (N.le_refl _) HG0) as [[RW _] _].
  assert (EJ : pos_of st1 = Z.of_N jof) by (rewrite pos_pcof, P1; reflexivity). rewrite EJ in HC.
  match type of HC with patch _ _ ?T0 ?s0 = _ => set (TZ := T0) in *;
    destruct (patch_fill _ _ jof TZ s0 st' W (ccode st) (AH 0) (AH 0) CW RW HJ HC) as [HT ->] end.
  set (T := Z.to_N TZ) in *.
  assert (HTN : T < 65536) by (unfold T; lia).
  assert (ET : T = pc0 + total_len (strip W)).
  { unfold T, TZ. rewrite pos_pcof, N2Z.id. unfold pcof at 1. cbn [ccode]. rewrite CW, app_length, Nat2N.inj_add, (aok_len W AW). reflexivity. }
  exists ej. split.
  - rewrite pos_pcof. unfold pcof. cbn [ccode]. rewrite app_length, Nat2N.inj_add.
    fold (pcof st). fold pc0.
    destruct (fill_frame _ _ [jof] T HTN W pc0 (AH 0) (AH 0) RW) as (_ & _ & TL).
    rewrite (aok_len _ (aok_fill [jof] T HTN W pc0 AW)), TL, TW. unfold ej, bstart, jof. lia.
  - unfold CTLx. cbn [ccode cconsts csym cbreaks]. fold pc0.
    split; [rewrite <- S1; apply SX_block; exact Sb|].
    exists (fill [jof] T W pc0), (newc ++ cb), bb.
    split; [apply aok_fill; assumption|]. split; [reflexivity|]. split; [rewrite Kb, K, app_assoc; reflexivity|].
    split; [rewrite Bb, B1; reflexivity|]. split; [exact NDb|]. split; [constructor; [intros []|constructor]|].
    split.
    { intros p Hp [<-|[]]. pose proof (hole_at_range _ _ _ (Hb _ Hp)). unfold ej in *. lia. }
    split.
    { intros p Hp. apply hole_at_fill_sel.
      - intros [<-|[]]. apply in_app_or in Hp. destruct Hp as [Hp|[Eq|[]]].
        + pose proof (hole_at_range _ _ _ (Hb _ Hp)). unfold bstart in *. lia.
        + unfold ej, bstart in Eq. lia.
      - apply in_app_or in Hp. destruct Hp as [Hp|[<-|[]]]; [apply HBs; exact Hp|exact HE]. }
    split.
    { intros lc HLc. pose proof (bound_step SPop (csym st3)) as X. cbn [st_step fst] in X.
      pose proof (sx_bound _ _ Sb) as X2. pose proof (bound_step SPush (csym st1)) as X3. cbn [st_step fst] in X3.
      apply lok_fill. unfold W. apply lok_app; [apply lok_solid, L, inv_lbw; [exact HI|rewrite <- S1; lia]|].
      apply lok_cons; [reflexivity|]. apply lok_app; [apply Lb; lia|apply lok_one; reflexivity]. }
    intros nc gc k Hnc HGl. destruct (BW nc gc k Hnc HGl) as [BKW HLW]. split.
    + apply bok_fill; [exact HTN|exact BKW|]. intros p ra Hin _. left. destruct (HLW _ _ Hin). split; [exact ET|assumption].
    + intros p ra Hin.
      destruct (holes_fill nc gc [jof] T HTN W pc0 _ _ (proj1 BKW) p ra Hin) as [Hin0 HN].
      destruct (HLW _ _ Hin0) as [E [-> | [Hp | ->]]]; [exfalso; apply HN; left; reflexivity| |];
        (split; [exact E|apply in_or_app]); [left; exact Hp|right; left; reflexivity].
Qed.

(* ---------- for loops WITH a loop variable ---------- *)
Lemma step_range_op_lv nc gc rop S k : range_op rop S ->
  jop_step nc gc (rop, 1) (AH (k + S)) = Some (ACond (k + S)) /\ jop_req (rop, 1) (AH (k + S)) = None.
Proof.
  intros [[-> ->]|[-> ->]]; unfold jop_step, jop_req; cbn [fst snd]; change (1 <? 65536) with true; cbn [negb].
  - destruct (3 <=? k + 3) eqn:E; [|apply N.leb_gt in E; lia]. auto.
  - destruct (2 <=? k + 2) eqn:E; [|apply N.leb_gt in E; lia]. auto.
Qed.

Lemma bok_hole_jof_cond nc gc pc k :
  BOK nc gc [(true, (JumpOnFalse, 9999))] pc (ACond k) (AH (k + 1)) /\
  holes nc gc [(true, (JumpOnFalse, 9999))] pc (ACond k) = [(pc, AH k)].
Proof.
  assert (ST : jop_step nc gc (JumpOnFalse, 9999) (ACond k) = Some (AH (k + 1))).
  { unfold jop_step. cbn [fst snd]. change (9999 <? 65536) with true. reflexivity. }
  unfold BOK. cbn [strip map snd jruns jannot htgt holes]. rewrite ST. unfold jop_req. cbn [fst snd]. repeat split.
Qed.

Lemma sop_ok_onone nc gc k : sop_ok nc gc (ONone, 0) k = Some (k + 1).
Proof.
  unfold sop_ok. cbn [is_sl negb has_operand andb simple_effect]. change (0 <? 65536) with true. change (0 =? 0) with true.
  cbn [negb andb]. destruct (k <? 0) eqn:E; [apply N.ltb_lt in E; lia|]. f_equal. lia.
Qed.

Lemma set_var_rec y st1 st' : emit_set_var true y st1 = COk st' ->
  sidx y < 65536 /\
  st' = {| ccode := ccode st1 ++ enc1 (setop y, sidx y); cconsts := cconsts st1; csym := csym st1; cbreaks := cbreaks st1 |}.
Proof.
  unfold emit_set_var, setop. intro H. destruct (sscp y); apply emit_enc1 in H; try reflexivity; destruct H as [HR ->];
    rewrite N2Z.id; split; [lia|reflexivity|lia|reflexivity].
Qed.

Lemma setop_facts y : has_operand (setop y) = true /\ is_local (setop y) = match sscp y with GlobalScope => false | LocalScope => true end.
Proof. unfold setop. destruct (sscp y); split; reflexivity. Qed.

(* a for loop WITH a loop variable: the variable is defined in the scope the
   statement is in (a global at top level, a local inside a block); from there
   on the loop is a LOOPOK *)
Lemma for_loop_lv_ok rop S n b st st' : range_op rop S -> slist_ctl b ->
  for_loop true (Some n) rop (Z.of_N S) b st = COk st' -> Inv (csym st) ->
  has_gbw (fst (st_define n (csym st))) ->
  LOOPOK S (with_sym (fst (st_define n (csym st))) st) st'.
Proof.
  intros HRO HB HC HI HGBW.
  assert (HS : S < 65536) by (destruct HRO as [[_ ->]|[_ ->]]; lia).
  destruct (st_define n (csym st)) as [sym' y] eqn:ED.
  assert (HD1 : fst (st_define n (csym st)) = sym') by (rewrite ED; reflexivity).
  assert (HD2 : snd (st_define n (csym st)) = y) by (rewrite ED; reflexivity).
  destruct (define_frame n (csym st)) as (F1 & F2 & F3). rewrite HD1 in F1, F2, F3.
  pose proof (inv_define n (csym st) HI) as HI'. rewrite HD1 in HI'.
  pose proof (define_then_resolve (csym st) n) as DR. rewrite HD1, HD2 in DR.
  cbn [fst] in HGBW |- *.
  destruct (setop_facts y) as [HSO HSLoc].
  assert (HCb : for_loop true (Some n) rop (Z.of_N S) b st =
    (emit true ONone [] (with_sym sym' st) >>= emit_set_var true y >>= fun st1 =>
     emit true rop [1%Z] st1 >>= fun st2 =>
     emit true JumpOnFalse [JumpPlaceholderZ] st2 >>= for_assign true (Some n) >>= fun st3 =>
     body_of true b (with_sym (st_push (csym st3)) (with_breaks [] st3)) >>= fun st4 =>
     emit true Jump [pos_of st1] (with_sym (st_pop (csym st4)) st4) >>= fun st5 =>
     emit true Drop [Z.of_N S] st5 >>= fun st6 =>
     patch true (pos_of st2) (pos_of st5) st6 >>= patch_all true (cbreaks st6) (pos_of st5) >>= fun st7 =>
     COk (with_breaks (cbreaks st3) st7))).
  { destruct b; cbn [for_loop for_declare bind body_of]; rewrite ED; reflexivity. }
  rewrite HCb in HC. clear HCb.
  destruct (emit true ONone [] (with_sym sym' st)) as [sa|] eqn:Ea; [|discriminate]. cbn [bind] in HC.
  destruct (emit_set_var true y sa) as [st1|] eqn:Eb; [|discriminate]. cbn [bind] in HC.
  destruct (emit true rop [1%Z] st1) as [st2|] eqn:E1; [|discriminate]. cbn [bind] in HC.
  destruct (emit true JumpOnFalse [JumpPlaceholderZ] st2) as [st2'|] eqn:E2; [|discriminate]. cbn [bind] in HC.
  destruct (for_assign true (Some n) st2') as [st3|] eqn:E2a; [|discriminate]. cbn [bind] in HC.
  destruct (body_of true b (with_sym (st_push (csym st3)) (with_breaks [] st3))) as [st4|] eqn:E3; [|discriminate]. cbn [bind] in HC.
  destruct (emit true Jump [pos_of st1] (with_sym (st_pop (csym st4)) st4)) as [st5|] eqn:E4; [|discriminate]. cbn [bind] in HC.
  destruct (emit true Drop [Z.of_N S] st5) as [st6|] eqn:E5; [|discriminate]. cbn [bind] in HC.
  destruct (patch true (pos_of st2) (pos_of st5) st6) as [st7|] eqn:E6; [|discriminate]. cbn [bind] in HC.
  destruct (patch_all true (cbreaks st6) (pos_of st5) st7) as [st8|] eqn:E7; [|discriminate]. cbn [bind] in HC.
  inversion HC; subst st'; clear HC.
  destruct (step_range_op 0 0 rop S 0 HRO) as (_ & _ & HOr & HJr).
  apply emit_enc0 in Ea; [|reflexivity]. subst sa.
  pose proof Eb as Eb'. apply set_var_rec in Eb'.
  destruct Eb' as [HRy ->]. cbn [with_sym ccode cconsts csym cbreaks] in *.
  apply emit_enc1 in E1; [|exact HOr]. destruct E1 as [_ ->]. change (Z.to_N 1) with 1 in *.
  apply emit_hole in E2; [|reflexivity]. subst st2'.
  unfold for_assign in E2a. cbn [csym] in E2a. rewrite DR in E2a.
  apply set_var_rec in E2a. destruct E2a as [_ ->]. cbn [ccode cconsts csym cbreaks] in *.
  assert (HG3 : Inv (st_push sym')) by (apply inv_push; exact HI').
  assert (HGB3 : has_gbw (st_push sym')) by (apply has_gbw_push; exact HGBW).
  assert (HO3 : outers (st_push sym') <> []) by discriminate.
  pose proof (HB _ _ E3 HO3 HG3 HGB3) as (Sb & nb & cb & bb & Ab & Cb & Kb & Bb & NDb & Hb & Lb & Db).
  unfold with_sym, with_breaks in Sb, Cb, Kb, Bb, Hb, Lb, Db. cbn [ccode cconsts csym cbreaks app] in Sb, Cb, Kb, Bb, Hb, Lb, Db.
  apply emit_jump_to in E4. destruct E4 as [HRs ->]. unfold with_sym in E5, E6, E7. cbn [ccode cconsts csym cbreaks] in E5, E6, E7.
  apply emit_enc1 in E5; [|reflexivity]. destruct E5 as [_ ->]. rewrite N2Z.id in *. cbn [ccode cconsts csym cbreaks] in E6, E7.
  set (pc0 := pcof st) in *. set (idx := sidx y) in *.
  set (top := pc0 + 4). set (jof := pc0 + 7). set (bstart := pc0 + 13).
  set (PRE := [(false, (ONone, 0)); (false, (setop y, idx))] : list hop).
  set (W0 := PRE ++ (false, (rop, 1)) :: (true, (JumpOnFalse, 9999)) :: (false, (setop y, idx)) :: (nb ++ [(false, (Jump, top))])).
  set (W := W0 ++ [(false, (Drop, S))]).
  assert (HIL : ilen_of (rop, 1) = 3) by (unfold ilen_of; cbn [fst]; rewrite HOr; reflexivity).
  assert (HIS : ilen_of (setop y, idx) = 3) by (unfold ilen_of; cbn [fst]; rewrite HSO; reflexivity).
  assert (Hidx : idx < 65536) by (unfold idx; lia).
  assert (ETop : Z.to_N (pos_of {| ccode := (ccode st ++ enc1 (ONone, 0)) ++ enc1 (setop y, idx); cconsts := cconsts st; csym := sym'; cbreaks := cbreaks st |}) = top).
  { rewrite pos_pcof, N2Z.id. unfold pcof, top, pc0, pcof. cbn [ccode]. rewrite !app_length, !Nat2N.inj_add.
    pose proof (decode1_enc1' (ONone, 0) [] ltac:(cbn; lia)) as [_ L1]. pose proof (decode1_enc1' (setop y, idx) [] Hidx) as [_ L2].
    rewrite L1, L2, HIS. unfold ilen_of. simpl. lia. }
  assert (AW0 : AOK W0).
  { unfold W0, PRE. repeat (constructor; [cbn; lia|]). apply aok_app; [exact Ab|].
    constructor; [cbn; rewrite <- ETop; lia|constructor]. }
  assert (AW : AOK W) by (unfold W; apply aok_app; [exact AW0|constructor; [cbn; exact HS|constructor]]).
  assert (Pb : pcof {| ccode := (((((ccode st ++ enc1 (ONone, 0)) ++ enc1 (setop y, idx)) ++ enc1 (rop, 1)) ++
                                  encode (strip [(true, (JumpOnFalse, 9999))])) ++ enc1 (setop y, idx));
                       cconsts := cconsts st; csym := st_push sym'; cbreaks := [] |} = bstart).
  { unfold pcof, bstart, pc0, pcof. cbn [ccode]. rewrite !app_length, !Nat2N.inj_add.
    pose proof (decode1_enc1' (ONone, 0) [] ltac:(cbn; lia)) as [_ L1]. pose proof (decode1_enc1' (setop y, idx) [] Hidx) as [_ L2].
    pose proof (decode1_enc1' (rop, 1) [] ltac:(cbn; lia)) as [_ L3].
    rewrite (aok_len [(true, (JumpOnFalse, 9999))]) by (constructor; [cbn; lia|constructor]).
    rewrite L1, L2, L3, HIL, ?HIS. cbn [strip map snd]. rewrite total_len_cons. unfold total_len, ilen_of. simpl. lia. }
  rewrite Pb in Hb, Db.
  assert (EW0 : encode (strip W0) = enc1 (ONone, 0) ++ enc1 (setop y, idx) ++ enc1 (rop, 1) ++
                                    encode (strip [(true, (JumpOnFalse, 9999))]) ++ enc1 (setop y, idx) ++ encode (strip nb) ++ enc1 (Jump, top)).
  { unfold W0, PRE.
    change ([(false, (ONone, 0)); (false, (setop y, idx))] ++ (false, (rop, 1)) :: (true, (JumpOnFalse, 9999)) :: (false, (setop y, idx)) :: nb ++ [(false, (Jump, top))])
      with ([(false, (ONone, 0))] ++ [(false, (setop y, idx))] ++ [(false, (rop, 1))] ++ [(true, (JumpOnFalse, 9999))] ++ [(false, (setop y, idx))] ++ nb ++ [(false, (Jump, top))]).
    rewrite !encode_strip_app. cbn [strip map snd]. rewrite !encode_one. reflexivity. }
  assert (C5 : ccode st4 ++ encode (strip [(false, (Jump, Z.to_N (pos_of {| ccode := (ccode st ++ enc1 (ONone, 0)) ++ enc1 (setop y, idx); cconsts := cconsts st; csym := sym'; cbreaks := cbreaks st |})))])
               = ccode st ++ encode (strip W0)).
  { rewrite Cb, ETop, EW0. cbn [strip map snd]. rewrite !encode_one, <- !app_assoc. reflexivity. }
  assert (CW : (ccode st4 ++ encode (strip [(false, (Jump, Z.to_N (pos_of {| ccode := (ccode st ++ enc1 (ONone, 0)) ++ enc1 (setop y, idx); cconsts := cconsts st; csym := sym'; cbreaks := cbreaks st |})))])) ++ enc1 (Drop, S)
               = ccode st ++ encode (strip W)).
  { rewrite C5. unfold W. rewrite encode_strip_app. cbn [strip map snd]. rewrite encode_one, <- app_assoc. reflexivity. }
  set (endp := pc0 + total_len (strip W0)).
  assert (BW : forall nc gc k, N.of_nat (List.length (cconsts st4)) <= nc -> gbw sym' gc ->
            BOK nc gc W pc0 (AH (k + S)) (AH k) /\
            In (endp, AH (k + S)) (jannot nc gc (strip W) pc0 (AH (k + S))) /\
            forall p ra, In (p, ra) (holes nc gc W pc0 (AH (k + S))) -> ra = AH (k + S) /\ (p = jof \/ In p bb)).
  { intros nc gc k Hnc HGl.
    assert (Hidg : sscp y = GlobalScope -> idx < gc) by (intro X; apply (HGl n y DR X)).
    (* the prologue: None; setop y idx *)
    destruct (runs_bok nc gc [(ONone, 0); (setop y, idx)] pc0 (k + S) (k + S)) as [BKp HHp].
    { cbn [runs]. rewrite sop_ok_onone, sop_ok_setvar by assumption. reflexivity. }
    destruct (step_range_op_lv nc gc rop S k HRO) as (ST1 & RQ1).
    assert (BK1 : BOK nc gc [(false, (rop, 1))] top (AH (k + S)) (ACond (k + S))).
    { unfold BOK. cbn [strip map snd jruns jannot htgt]. rewrite ST1, RQ1. repeat split. }
    assert (HH1 : holes nc gc [(false, (rop, 1))] top (AH (k + S)) = []) by (cbn [holes]; rewrite ST1; reflexivity).
    destruct (bok_hole_jof_cond nc gc jof (k + S)) as [BKj HHj].
    destruct (runs_bok nc gc [(setop y, idx)] (pc0 + 10) (k + S + 1) (k + S)) as [BKs HHs].
    { cbn [runs]. rewrite sop_ok_setvar by assumption. reflexivity. }
    destruct (Db nc gc (k + S) Hnc (gbw_push _ _ HGl)) as [BKb HLb].
    assert (Lp : pc0 + total_len (strip (solid [(ONone, 0); (setop y, idx)])) = top).
    { rewrite strip_solid. unfold total_len, top. cbn [fold_right]. rewrite HIS. unfold ilen_of. simpl. lia. }
    assert (L1 : top + total_len (strip [(false, (rop, 1))]) = jof).
    { cbn [strip map snd]. rewrite total_len_cons, HIL. unfold total_len, top, jof. simpl. lia. }
    assert (L2 : jof + total_len (strip [(true, (JumpOnFalse, 9999))]) = pc0 + 10).
    { cbn [strip map snd]. rewrite total_len_cons. unfold total_len, jof, ilen_of. simpl. lia. }
    assert (L3 : pc0 + 10 + total_len (strip (solid [(setop y, idx)])) = bstart).
    { rewrite strip_solid. unfold total_len, bstart. cbn [fold_right]. rewrite HIS. lia. }
    assert (BK3 : BOK nc gc ([(false, (rop, 1))] ++ [(true, (JumpOnFalse, 9999))] ++ solid [(setop y, idx)] ++ nb) top (AH (k + S)) (AH (k + S))).
    { eapply bok_app; [exact BK1|]. rewrite L1. eapply bok_app; [exact BKj|]. rewrite L2.
      eapply bok_app; [exact BKs|]. rewrite L3. exact BKb. }
    assert (HIN : In (top, AH (k + S)) (jannot nc gc (strip ([(false, (rop, 1))] ++ [(true, (JumpOnFalse, 9999))] ++ solid [(setop y, idx)] ++ nb)) top (AH (k + S)))).
    { apply jannot_head. discriminate. }
    destruct (bok_snoc_back nc gc _ top (AH (k + S)) (k + S) top BK3 HIN) as [BK4 HH4]; [rewrite <- ETop; lia|].
    assert (BK5 : BOK nc gc W0 pc0 (AH (k + S)) (AH (k + S))).
    { assert (X : BOK nc gc (solid [(ONone, 0); (setop y, idx)] ++
                              (([(false, (rop, 1))] ++ [(true, (JumpOnFalse, 9999))] ++ solid [(setop y, idx)] ++ nb) ++ [(false, (Jump, top))]))
                         pc0 (AH (k + S)) (AH (k + S))).
      { eapply bok_app; [exact BKp|]. rewrite Lp. exact BK4. }
      exact X. }
    destruct (runs_bok nc gc [(Drop, S)] endp (k + S) k) as [BKd HHd].
    { cbn [runs]. rewrite (sop_ok_drop nc gc S k HS). reflexivity. }
    split; [|split].
    - unfold W. eapply bok_app; [exact BK5|exact BKd].
    - unfold W. rewrite strip_app, (jannot_app nc gc (strip W0) _ pc0 _ _ (proj1 BK5)).
      apply in_or_app. right. fold endp. cbn [strip map snd jannot]. left. reflexivity.
    - intros p ra Hin. unfold W in Hin.
      apply (holes_app_in nc gc W0 _ pc0 _ _ _ (proj1 BK5)) in Hin. destruct Hin as [Hin|Hin];
        [|exfalso; revert Hin; change (In (p, ra) (holes nc gc (solid [(Drop, S)]) endp (AH (k + S))) -> False); rewrite HHd; intros []].
      change W0 with (solid [(ONone, 0); (setop y, idx)] ++
                      (([(false, (rop, 1))] ++ [(true, (JumpOnFalse, 9999))] ++ solid [(setop y, idx)] ++ nb) ++ [(false, (Jump, top))])) in Hin.
      apply (holes_app_in nc gc _ _ pc0 _ _ _ (proj1 BKp)) in Hin. destruct Hin as [Hin|Hin]; [rewrite HHp in Hin; destruct Hin|].
      rewrite Lp in Hin.
      assert (Hin' : In (p, ra) (holes nc gc ([(false, (rop, 1))] ++ [(true, (JumpOnFalse, 9999))] ++ solid [(setop y, idx)] ++ nb) top (AH (k + S))))
        by (rewrite <- HH4; exact Hin).
      clear Hin. rename Hin' into Hin.
      apply (holes_app_in nc gc [(false, (rop, 1))] _ top _ _ _ (proj1 BK1)) in Hin. destruct Hin as [Hin|Hin]; [rewrite HH1 in Hin; destruct Hin|].
      rewrite L1 in Hin.
      apply (holes_app_in nc gc [(true, (JumpOnFalse, 9999))] _ jof _ _ _ (proj1 BKj)) in Hin. destruct Hin as [Hin|Hin].
      { assert (X : In (p, ra) [(jof, AH (k + S))]) by (rewrite <- HHj; exact Hin).
        destruct X as [Eq|[]]. inversion Eq; subst. split; [reflexivity|left; reflexivity]. }
      rewrite L2 in Hin.
      apply (holes_app_in nc gc (solid [(setop y, idx)]) nb (pc0 + 10) _ _ _ (proj1 BKs)) in Hin.
      destruct Hin as [Hin|Hin]; [rewrite HHs in Hin; destruct Hin|].
      rewrite L3 in Hin. destruct (HLb _ _ Hin). split; [assumption|right; assumption]. }
  assert (HJ : hole_at W pc0 jof).
  { unfold W, W0, PRE. apply hole_at_app_l. cbn [app hole_at]. right. split; [rewrite ?HIS; unfold jof, ilen_of; simpl; lia|].
    right. split; [rewrite ?HIS; unfold jof, ilen_of; simpl; lia|]. right. rewrite HIL. split; [rewrite ?HIS; unfold jof, ilen_of; simpl; lia|].
    left. rewrite ?HIS. unfold jof, ilen_of. simpl. split; [lia|auto]. }
  assert (HBs : forall p, In p bb -> hole_at W pc0 p).
  { intros p Hp. unfold W, W0, PRE. apply hole_at_app_l. pose proof (hole_at_range _ _ _ (Hb p Hp)) as HR. unfold bstart in HR.
    cbn [app hole_at]. right. split; [rewrite ?HIS; unfold ilen_of; simpl; lia|].
    right. split; [rewrite ?HIS; unfold ilen_of; simpl; lia|]. right. rewrite HIL. split; [rewrite ?HIS; unfold ilen_of; simpl; lia|].
    right. split; [rewrite ?HIS; unfold ilen_of; simpl; lia|]. right. split; [rewrite ?HIS; unfold ilen_of; simpl; lia|].
    apply hole_at_app_l.
    replace (pc0 + ilen_of (ONone, 0) + ilen_of (setop y, idx) + 3 + ilen_of (JumpOnFalse, 9999) + ilen_of (setop y, idx)) with bstart
      by (rewrite ?HIS; unfold bstart, ilen_of; simpl; lia).
    apply Hb. exact Hp. }
  destruct HGBW as (gc0 & HG0).
  destruct (BW (N.of_nat (List.length (cconsts st4))) gc0 0 (N.le_refl _) HG0) as [[RW _] _].
  assert (EJ : pos_of {| ccode := ((ccode st ++ enc1 (ONone, 0)) ++ enc1 (setop y, idx)) ++ enc1 (rop, 1); cconsts := cconsts st; csym := sym'; cbreaks := cbreaks st |} = Z.of_N jof).
  { rewrite pos_pcof. f_equal. unfold pcof, jof, pc0, pcof. cbn [ccode]. rewrite !app_length, !Nat2N.inj_add.
    pose proof (decode1_enc1' (ONone, 0) [] ltac:(cbn; lia)) as [_ L1]. pose proof (decode1_enc1' (setop y, idx) [] Hidx) as [_ L2].
    pose proof (decode1_enc1' (rop, 1) [] ltac:(cbn; lia)) as [_ L3]. rewrite L1, L2, L3, HIL, ?HIS. unfold ilen_of. simpl. lia. }
  rewrite EJ in E6.
  match type of E6 with patch _ _ ?T0 ?s0 = _ => set (TZ := T0) in *;
    destruct (patch_fill _ _ jof TZ s0 st7 W (ccode st) (AH (0 + S)) (AH 0) CW RW HJ E6) as [HTz ->] end.
  cbn [cbreaks] in E7. rewrite Bb in E7. cbn [app] in E7.
  set (T := Z.to_N TZ) in *.
  assert (HTN : T < 65536) by (unfold T; lia).
  destruct (fill_frame _ _ [jof] T HTN W pc0 (AH (0 + S)) (AH 0) RW) as (RW1 & _ & _).
  eapply (patch_all_fill _ _ _ bb _ st8 (fill [jof] T W pc0) (ccode st) (AH (0 + S)) (AH 0) NDb) in E7;
    [|reflexivity|exact RW1|].
  2:{ intros p Hp. apply hole_at_fill_sel; [|apply HBs; exact Hp].
      intros [<-|[]]. pose proof (hole_at_range _ _ _ (Hb _ Hp)). unfold bstart, jof in *. lia. }
  destruct E7 as [_ ->]. rewrite fill_fill.
  assert (ET : T = endp).
  { unfold T, TZ. rewrite pos_pcof, N2Z.id. unfold pcof. cbn [ccode]. unfold endp.
    rewrite C5, app_length, Nat2N.inj_add, (aok_len W0 AW0). reflexivity. }
  unfold LOOPOK, with_breaks, with_sym. cbn [ccode cconsts csym cbreaks].
  change (pcof {| ccode := ccode st; cconsts := cconsts st; csym := sym'; cbreaks := cbreaks st |}) with pc0.
  split; [apply SX_block; exact Sb|]. split; [reflexivity|].
  exists (fill (bb ++ [jof]) T W pc0), cb.
  split; [apply aok_fill; assumption|]. split; [reflexivity|]. split; [exact Kb|].
  split.
  { intros lc HLc. pose proof (bound_step SPop (csym st4)) as X. cbn [st_step fst] in X.
    pose proof (sx_bound _ _ Sb) as X2. pose proof (bound_step SPush sym') as X3. cbn [st_step fst] in X3.
    assert (HLy : lopk lc (setop y, idx)).
    { apply lopk_setvar. intro HS'. pose proof (define_below n (csym st) HI) as X4. rewrite HD1, HD2 in X4. specialize (X4 HS'). unfold idx. lia. }
    assert (HLr : is_local rop = false) by (destruct HRO as [[-> _]|[-> _]]; reflexivity).
    apply lok_fill. unfold W, W0, PRE. apply lok_app; [|apply lok_one; reflexivity].
    unfold LOK. cbn [strip map snd app]. constructor; [apply lopk_nonlocal; reflexivity|]. constructor; [exact HLy|].
    constructor; [apply lopk_nonlocal; exact HLr|]. constructor; [apply lopk_nonlocal; reflexivity|]. constructor; [exact HLy|].
    rewrite map_app. apply Forall_app. split; [apply Lb; lia|]. constructor; [apply lopk_nonlocal; reflexivity|constructor]. }
  intros nc gc k Hnc Hgc. destruct (BW nc gc k Hnc Hgc) as (BKW & HEND & HLW).
  split.
  - apply bok_fill; [exact HTN|exact BKW|]. intros p ra Hin _. right. destruct (HLW _ _ Hin) as [-> _]. rewrite ET. exact HEND.
  - destruct (holes nc gc (fill (bb ++ [jof]) T W pc0) pc0 (AH (k + S))) as [|[p ra] r] eqn:EH; [reflexivity|exfalso].
    assert (Hin : In (p, ra) (holes nc gc (fill (bb ++ [jof]) T W pc0) pc0 (AH (k + S)))) by (rewrite EH; left; reflexivity).
    destruct (holes_fill nc gc (bb ++ [jof]) T HTN W pc0 _ _ (proj1 BKW) p ra Hin) as [Hin0 HNs].
    destruct (HLW _ _ Hin0) as [_ [->|Hp]]; apply HNs; apply in_or_app; [right; left; reflexivity|left; exact Hp].
Qed.

(* ---------- a straight-line prefix followed by a loop ---------- *)
Lemma CTL_of_loop S st st1 st' ops newc :
  SX (csym st) (csym st1) -> cbreaks st1 = cbreaks st -> AOK (solid ops) ->
  ccode st1 = ccode st ++ encode ops -> cconsts st1 = cconsts st ++ newc ->
  (forall lc, lbw (csym st) lc -> Forall (lopk lc) ops) -> Inv (csym st) ->
  (forall nc gc k, N.of_nat (List.length (cconsts st1)) <= nc -> gbw (csym st) gc -> runs nc gc ops k = Some (k + S)) ->
  LOOPOK S st1 st' -> CTL st st'.
Proof.
  intros S1 B1 A C K L HI R (S2 & B2 & new & newc2 & A2 & C2 & K2 & L2 & D2).
  pose proof (pcof_app st st1 (solid ops)) as HP. rewrite strip_solid in HP. specialize (HP C A).
  split; [eapply SX_trans; eauto|]. exists (solid ops ++ new), (newc ++ newc2), [].
  split; [apply aok_app; assumption|].
  split; [rewrite C2, C, encode_strip_app, strip_solid, app_assoc; reflexivity|].
  split; [rewrite K2, K, app_assoc; reflexivity|].
  split; [cbn [map]; rewrite app_nil_r; congruence|]. split; [constructor|]. split; [intros p []|].
  split.
  { intros lc HLc. pose proof (sx_bound _ _ S2) as X. pose proof (sx_bound _ _ S1) as X1.
    apply lok_app; [apply lok_solid, L, inv_lbw; [exact HI|lia]|apply L2; exact HLc]. }
  intros nc gc k Hnc HG.
  assert (Hnc1 : N.of_nat (List.length (cconsts st1)) <= nc) by (rewrite K2, app_length in Hnc; lia).
  destruct (runs_bok nc gc ops (pcof st) k (k + S) (R nc gc k Hnc1 HG)) as [BK1 HH1].
  assert (HG1 : gbw (csym st1) gc) by (apply (sx_gbw _ _ S1); exact HG).
  destruct (D2 nc gc k Hnc HG1) as [BK2 HH2]. rewrite HP in BK2, HH2.
  split.
  - eapply bok_app; [exact BK1|]. rewrite strip_solid. exact BK2.
  - intros p ra Hin. apply (holes_app_in nc gc (solid ops) new (pcof st) _ _ _ (proj1 BK1)) in Hin.
    rewrite HH1, strip_solid, HH2 in Hin. destruct Hin as [[]|[]].
Qed.

(* ---------- the fragment ---------- *)
(* statements that define a symbol in the current scope: inside a block it is
   a local; at top level (a global) they are treated apart (TL) *)
Definition needs_scope (s : stmt) : bool :=
  match s with SDecl _ _ | SForStep (Some _) _ _ _ _ | SForIter (Some _) _ _ _ => true | _ => false end.

Fixpoint cfrag_stmt (s : stmt) : bool :=
  match s with
  | SDecl _ e => efrag e
  | SAssign (EVar _) e => efrag e
  | SAssign (EIndex l i) e => efrag l && efrag i && efrag e     (* element stores: a[i] = e, m[k] = e *)
  | SEmpty | SBreak => true
  | SIf c b elifs els =>
      efrag c && cfrag_slist b && cfrag_clist elifs &&
      match els with NoElse => true | Else eb => cfrag_slist eb end
  | SWhile c b => efrag c && cfrag_slist b
  | SForStep _ start stop step b => ofrag start && efrag stop && ofrag step && cfrag_slist b
  | SForIter _ t e b => match t with TStr | TArr | TMap => efrag e && cfrag_slist b | _ => false end
  | _ => false
  end
with cfrag_slist (l : slist) : bool :=
  match l with SNil => true | SCons s t => cfrag_stmt s && cfrag_slist t end
with cfrag_clist (l : clist) : bool :=
  match l with CNil => true | CCons c b t => efrag c && cfrag_slist b && cfrag_clist t end.

Lemma ofrag_expr o d : ofrag o = true -> efrag (match o with OSome e => e | ONoneE => ENum d end) = true.
Proof. destruct o; simpl; auto. Qed.

(* the operands a for loop is entered with *)
Definition PREFIX (S : N) (st s3 : cstate) : Prop :=
  csym s3 = csym st /\ cbreaks s3 = cbreaks st /\
  exists ops newc, AOK (solid ops) /\ ccode s3 = ccode st ++ encode ops /\ cconsts s3 = cconsts st ++ newc /\
    (forall lc, lbw (csym st) lc -> Forall (lopk lc) ops) /\
    (forall nc gc k, N.of_nat (List.length (cconsts s3)) <= nc -> gbw (csym st) gc -> runs nc gc ops k = Some (k + S)).

Lemma forstep_prefix start stop step st s1 s2 s3 :
  ofrag start = true -> efrag stop = true -> ofrag step = true -> has_gbw (csym st) ->
  compile_expr true stop st = COk s1 ->
  compile_expr true (match step with OSome e => e | ONoneE => ENum 1 end) s1 = COk s2 ->
  compile_expr true (match start with OSome e => e | ONoneE => ENum 0 end) s2 = COk s3 ->
  PREFIX 3 st s3.
Proof.
  intros F1 F2 F3 HGB E1 E2 E3.
  destruct (expr_piece _ _ _ F2 E1 HGB) as (S1 & B1 & o1 & c1 & _ & A1 & C1 & K1 & R1 & L1).
  assert (HGB1 : has_gbw (csym s1)) by (rewrite S1; exact HGB).
  destruct (expr_piece _ _ _ (ofrag_expr step 1 F3) E2 HGB1) as (S2 & B2 & o2 & c2 & _ & A2 & C2 & K2 & R2 & L2).
  assert (HGB2 : has_gbw (csym s2)) by (rewrite S2, S1; exact HGB).
  destruct (expr_piece _ _ _ (ofrag_expr start 0 F1) E3 HGB2) as (S3 & B3 & o3 & c3 & _ & A3 & C3 & K3 & R3 & L3).
  split; [congruence|]. split; [congruence|]. exists (o1 ++ o2 ++ o3), (c1 ++ c2 ++ c3).
  split; [unfold solid; rewrite !map_app; apply aok_app; [exact A1|]; apply aok_app; [exact A2|exact A3]|].
  split; [rewrite C3, C2, C1, !encode_app, <- !app_assoc; reflexivity|].
  split; [rewrite K3, K2, K1, <- !app_assoc; reflexivity|]. split.
  - intros lc HLc. apply Forall_app. split; [apply L1; exact HLc|]. apply Forall_app.
    split; [apply L2; rewrite S1; exact HLc|apply L3; rewrite S2, S1; exact HLc].
  - intros nc gc k Hnc HGl.
    assert (N1 : N.of_nat (List.length (cconsts s1)) <= nc) by (rewrite K3, K2, !app_length in Hnc; lia).
    assert (N2 : N.of_nat (List.length (cconsts s2)) <= nc) by (rewrite K3, !app_length in Hnc; lia).
    eapply runs_app; [apply (R1 nc gc k N1 HGl)|].
    eapply runs_app; [apply (R2 nc gc (k + 1) N2); rewrite S1; exact HGl|].
    replace (k + 3) with (k + 1 + 1 + 1) by lia. apply (R3 nc gc (k + 1 + 1) Hnc). rewrite S2, S1. exact HGl.
Qed.

Lemma foriter_prefix e st s1 s2 : efrag e = true -> has_gbw (csym st) ->
  compile_expr true e st = COk s1 -> emit_const true (KNum 0) s1 = COk s2 -> PREFIX 2 st s2.
Proof.
  intros F HGB E1 E2.
  destruct (expr_piece _ _ _ F E1 HGB) as (S1 & B1 & o1 & c1 & _ & A1 & C1 & K1 & R1 & L1).
  destruct (const_sl _ _ _ E2) as (RI & S2 & C2 & K2).
  assert (B2 : cbreaks s2 = cbreaks s1) by (unfold emit_const in E2; apply emit_breaks in E2; exact E2).
  split; [congruence|]. split; [congruence|].
  exists (o1 ++ [(Constant, N.of_nat (List.length (cconsts s1)))]), (c1 ++ [KNum 0]).
  split; [unfold solid; rewrite map_app; apply aok_app; [exact A1|]; constructor; [cbn; exact RI|constructor]|].
  split; [rewrite C2, C1, !encode_app, <- !app_assoc; reflexivity|].
  split; [rewrite K2, K1, <- !app_assoc; reflexivity|]. split.
  - intros lc HLc. apply Forall_app. split; [apply L1; exact HLc|]. constructor; [apply lopk_nonlocal; reflexivity|constructor].
  - intros nc gc k Hnc HGl.
    assert (N1 : N.of_nat (List.length (cconsts s1)) <= nc) by (rewrite K2, !app_length in Hnc; lia).
    eapply runs_app; [apply (R1 nc gc k N1 HGl)|]. cbn [runs].
    rewrite sop_ok_const; [f_equal; lia| |exact RI]. rewrite K2, app_length in Hnc. simpl in Hnc. lia.
Qed.

(* a for loop inside the fragment: without a loop variable anywhere; with one
   (a local of the enclosing block) only inside a block *)
Lemma ctl_loop rop S lv b st s3 st' : range_op rop S -> slist_ctl b -> PREFIX S st s3 ->
  for_loop true lv rop (Z.of_N S) b s3 = COk st' ->
  (lv <> None -> outers (csym st) <> []) -> Inv (csym st) -> has_gbw (csym st) -> CTL st st'.
Proof.
  intros HRO HB (S3 & B3 & ops & newc & A & C & K & L & R) HC HO HI HGB.
  destruct lv as [n|].
  - specialize (HO ltac:(discriminate)).
    pose proof (SX_define n (csym st) HO HI) as SXd.
    assert (HI3 : Inv (csym s3)) by (rewrite S3; exact HI).
    assert (HGB' : has_gbw (fst (st_define n (csym s3)))) by (rewrite S3; apply (sx_has_gbw _ _ SXd HGB)).
    pose proof (for_loop_lv_ok rop S n b s3 st' HRO HB HC HI3 HGB') as HL. rewrite S3 in HL.
    apply (CTL_of_loop S st (with_sym (fst (st_define n (csym st))) s3) st' ops newc); auto.
  - assert (HI3 : Inv (csym s3)) by (rewrite S3; exact HI).
    assert (HGB3 : has_gbw (csym s3)) by (rewrite S3; exact HGB).
    pose proof (for_loop_ok rop S b s3 st' HRO HB HC HI3 HGB3) as HL.
    apply (CTL_of_loop S st s3 st' ops newc); auto. apply SX_eq. exact S3.
Qed.

Lemma ctl_forstep lv start stop step b st st' :
  ofrag start = true -> efrag stop = true -> ofrag step = true -> slist_ctl b ->
  compile_stmt true (SForStep lv start stop step b) st = COk st' ->
  (lv <> None -> outers (csym st) <> []) -> Inv (csym st) -> has_gbw (csym st) -> CTL st st'.
Proof.
  intros F1 F2 F3 HB HC HO HI HGB. cbn [compile_stmt] in HC.
  destruct (compile_expr true stop st) as [s1|] eqn:E1; [|discriminate]. cbn [bind] in HC.
  destruct (compile_expr true (match step with OSome e => e | ONoneE => ENum 1 end) s1) as [s2|] eqn:E2; [|discriminate]. cbn [bind] in HC.
  destruct (compile_expr true (match start with OSome e => e | ONoneE => ENum 0 end) s2) as [s3|] eqn:E3; [|discriminate]. cbn [bind] in HC.
  apply (ctl_loop StepRange 3 lv b st s3 st' (or_introl (conj eq_refl eq_refl)) HB
           (forstep_prefix start stop step st s1 s2 s3 F1 F2 F3 HGB E1 E2 E3) HC HO HI HGB).
Qed.

Lemma ctl_foriter lv t e b st st' :
  (t = TStr \/ t = TArr \/ t = TMap) -> efrag e = true -> slist_ctl b ->
  compile_stmt true (SForIter lv t e b) st = COk st' ->
  (lv <> None -> outers (csym st) <> []) -> Inv (csym st) -> has_gbw (csym st) -> CTL st st'.
Proof.
  intros Ht F HB HC HO HI HGB. cbn [compile_stmt] in HC.
  assert (HC' : compile_expr true e st >>= emit_const true (KNum 0) >>= for_loop true lv IterRange 2 b = COk st')
    by (destruct Ht as [->|[->| ->]]; exact HC). clear HC.
  destruct (compile_expr true e st) as [s1|] eqn:E1; [|discriminate]. cbn [bind] in HC'.
  destruct (emit_const true (KNum 0) s1) as [s2|] eqn:E2; [|discriminate]. cbn [bind] in HC'.
  apply (ctl_loop IterRange 2 lv b st s2 st' (or_intror (conj eq_refl eq_refl)) HB
           (foriter_prefix e st s1 s2 F HGB E1 E2) HC' HO HI HGB).
Qed.

(* ---------- the mutual induction ---------- *)
Definition clist_ctl (l : clist) : Prop :=
  forall jumps st st' jumps', compile_elifs true l jumps st = (COk st', jumps') ->
    Inv (csym st) -> has_gbw (csym st) ->
    exists xs, jumps' = jumps ++ map Z.of_N xs /\ CTLx xs st st'.

Lemma ctl_if c b elifs els st st' :
  efrag c = true -> slist_ctl b -> clist_ctl elifs ->
  (match els with NoElse => True | Else eb => slist_ctl eb end) ->
  compile_stmt true (SIf c b elifs els) st = COk st' -> Inv (csym st) -> has_gbw (csym st) -> CTL st st'.
Proof.
  intros F HB HE HL HC HG HGB. cbn [compile_stmt] in HC.
  destruct (compile_cond true c b st) as [st1|] eqn:E1; [|discriminate]. cbn [bind] in HC.
  destruct (ctl_cond c b st st1 F HB E1 HG HGB) as (ej & Eej & X1).
  destruct (compile_elifs true elifs [(pos_of st1 - 3)%Z] st1) as [r jumps] eqn:E2.
  destruct r as [st2|]; [|discriminate]. cbn [bind] in HC.
  assert (HG1 : Inv (csym st1)) by (apply (sx_inv _ _ (proj1 X1)); exact HG).
  assert (HGB1 : has_gbw (csym st1)) by (apply (sx_has_gbw _ _ (proj1 X1)); exact HGB).
  destruct (HE _ _ _ _ E2 HG1 HGB1) as (xs & EJ & X2).
  assert (HG2 : Inv (csym st2)) by (apply (sx_inv _ _ (proj1 X2)); exact HG1).
  assert (HGB2 : has_gbw (csym st2)) by (apply (sx_has_gbw _ _ (proj1 X2)); exact HGB1).
  assert (X3 : exists st3, (match els with NoElse => COk st2 | Else eb => compile_block true eb st2 end) = COk st3 /\
                           CTL st2 st3 /\ patch_all true jumps (pos_of st3) st3 = COk st').
  { destruct els as [|eb].
    - cbn [bind] in HC. exists st2. split; [reflexivity|]. split; [apply CTL_refl|exact HC].
    - destruct (compile_block true eb st2) as [st3|] eqn:E3; [|discriminate]. cbn [bind] in HC.
      exists st3. split; [reflexivity|]. split; [apply (ctl_block eb st2 st3 HL E3 HG2 HGB2)|exact HC]. }
  destruct X3 as (st3 & _ & X3 & HP).
  pose proof (ctlx_trans _ _ _ _ _ X1 (ctlx_trans _ _ _ _ _ X2 (ctlx_of_ctl _ _ X3))) as XA.
  eapply (ctlx_close _ st st3 st' HGB XA).
  rewrite EJ, <- Eej in HP. rewrite app_nil_r. exact HP.
Qed.

Theorem ctl_all :
  (forall s, cfrag_stmt s = true -> forall st st', compile_stmt true s st = COk st' ->
             (needs_scope s = true -> outers (csym st) <> []) ->
             Inv (csym st) -> has_gbw (csym st) -> CTL st st') /\
  (forall l, cfrag_slist l = true -> slist_ctl l) /\
  (forall l, cfrag_clist l = true -> clist_ctl l) /\
  (forall o, match o with NoElse => True | Else b => cfrag_slist b = true -> slist_ctl b end).
Proof.
  apply stmt_mutind.
  - (* SDecl *) intros n e HF st st' HC HO HG HGB. apply (ctl_decl n e st st' HF HC (HO eq_refl) HG HGB).
  - (* SAssign *) intros target e HF st st' HC _ HG HGB. destruct target; try discriminate HF.
    + apply (ctl_assign n e st st' HF HC HG HGB).
    + cbn [cfrag_stmt] in HF. apply andb_true_iff in HF. destruct HF as [HF F3]. apply andb_true_iff in HF. destruct HF as [F1 F2].
      apply (ctl_store target1 target2 e st st' F1 F2 F3 HC HG HGB).
  - (* SIf *) intros c b Hb elifs He els Ho HF st st' HC _ HG HGB. cbn [cfrag_stmt] in HF.
    apply andb_true_iff in HF. destruct HF as [HF F4]. apply andb_true_iff in HF. destruct HF as [HF F3].
    apply andb_true_iff in HF. destruct HF as [F1 F2].
    apply (ctl_if c b elifs els st st' F1 (Hb F2) (He F3)); auto.
    destruct els; [exact I|apply Ho; exact F4].
  - (* SWhile *) intros c b Hb HF st st' HC _ HG HGB. cbn [cfrag_stmt] in HF. apply andb_true_iff in HF. destruct HF as [F1 F2].
    apply (ctl_while c b st st' F1 (Hb F2) HC HG HGB).
  - (* SForStep *) intros lv start stop step b Hb HF st st' HC HO HG HGB. cbn [cfrag_stmt] in HF.
    apply andb_true_iff in HF. destruct HF as [HF F4]. apply andb_true_iff in HF. destruct HF as [HF F3].
    apply andb_true_iff in HF. destruct HF as [F1 F2].
    apply (ctl_forstep lv start stop step b st st' F1 F2 F3 (Hb F4) HC); auto.
    intro NE. apply HO. destruct lv; [reflexivity|congruence].
  - (* SForIter *) intros lv t e b Hb HF st st' HC HO HG HGB. cbn [cfrag_stmt] in HF.
    assert (Ht : t = TStr \/ t = TArr \/ t = TMap) by (destruct t; try discriminate HF; auto).
    assert (HF' : efrag e && cfrag_slist b = true) by (destruct t; try discriminate HF; exact HF).
    apply andb_true_iff in HF'. destruct HF' as [F1 F2].
    apply (ctl_foriter lv t e b st st' Ht F1 (Hb F2) HC); auto.
    intro NE. apply HO. destruct lv; [reflexivity|congruence].
  - (* SBreak *) intros _ st st' HC _ _ _. apply (ctl_break st st' HC).
  - (* SEmpty *) intros _ st st' HC _ _ _. cbn [compile_stmt] in HC. inversion HC; subst. apply CTL_refl.
  - (* SBlock *) intros b _ HF. discriminate.
  - (* SUnsupported *) intros w HF. discriminate.
  - (* SNil *) intros _ st st' HC _ _ _. cbn [body_of] in HC. inversion HC; subst. apply CTL_refl.
  - (* SCons *) intros s Hs t Ht HF st st' HC HO HG HGB. cbn [cfrag_slist] in HF. apply andb_true_iff in HF. destruct HF as [F1 F2].
    cbn [body_of] in HC. destruct (compile_stmt true s st) as [st1|] eqn:E1; [|discriminate]. cbn [bind] in HC.
    pose proof (Hs F1 st st1 E1 (fun _ => HO) HG HGB) as X1. rewrite compile_slist_body in HC.
    assert (HO1 : outers (csym st1) <> []) by (rewrite (sx_out _ _ (proj1 X1)); exact HO).
    assert (HG1 : Inv (csym st1)) by (apply (sx_inv _ _ (proj1 X1)); exact HG).
    assert (HGB1 : has_gbw (csym st1)) by (apply (sx_has_gbw _ _ (proj1 X1)); exact HGB).
    apply (CTL_trans st st1 st' X1 (Ht F2 st1 st' HC HO1 HG1 HGB1)).
  - (* CNil *) intros _ jumps st st' jumps' HC _ _. cbn [compile_elifs] in HC. inversion HC; subst.
    exists []. split; [cbn [map]; rewrite app_nil_r; reflexivity|apply ctlx_of_ctl; apply CTL_refl].
  - (* CCons *) intros c b Hb t Ht HF jumps st st' jumps' HC HG HGB. cbn [cfrag_clist] in HF.
    apply andb_true_iff in HF. destruct HF as [HF F3]. apply andb_true_iff in HF. destruct HF as [F1 F2].
    cbn [compile_elifs] in HC. destruct (compile_cond true c b st) as [st1|] eqn:E1; [|inversion HC].
    destruct (ctl_cond c b st st1 F1 (Hb F2) E1 HG HGB) as (ej & Eej & X1).
    assert (HG1 : Inv (csym st1)) by (apply (sx_inv _ _ (proj1 X1)); exact HG).
    assert (HGB1 : has_gbw (csym st1)) by (apply (sx_has_gbw _ _ (proj1 X1)); exact HGB).
    destruct (Ht F3 _ _ _ _ HC HG1 HGB1) as (xs & EJ & X2).
    exists (ej :: xs). split; [rewrite EJ, <- Eej, <- app_assoc; reflexivity|].
    apply (ctlx_trans [ej] xs st st1 st' X1 X2).
  - (* NoElse *) exact I.
  - (* Else *) intros b Hb. exact Hb.
Qed.

(* ====================================================================== *)
(* whole programs: top-level declarations and the control-flow fragment    *)
(* ====================================================================== *)
(* the top level: the global scope is the current one; blocks may have left a
   LocalCount (nmax) behind *)
Definition top_ok2 (st : cstate) : Prop := outers (csym st) = [] /\ Inv (csym st).

Lemma top_ok_top_ok2 st : top_ok st -> top_ok2 st.
Proof. intros (A & B & _). split; assumption. Qed.

Lemma top_gbw st gc : top_ok2 st -> index (cur (csym st)) <= gc -> gbw (csym st) gc.
Proof. intros (HO & HI) HL n y HR _. destruct (sym_top_globals _ HO HI n y HR) as [_ R]. lia. Qed.

Lemma top_lbw2 st lc : top_ok2 st -> lbw (csym st) lc.
Proof. intros (HO & HI) n y HR HS. destruct (sym_top_globals _ HO HI n y HR) as [S _]. congruence. Qed.

Definition TL (st st' : cstate) : Prop :=
  top_ok2 st' /\ index (cur (csym st)) <= index (cur (csym st')) /\ bound (csym st) <= bound (csym st') /\
  exists new newc newb,
    AOK new /\
    ccode st' = ccode st ++ encode (strip new) /\
    cconsts st' = cconsts st ++ newc /\
    cbreaks st' = cbreaks st ++ map Z.of_N newb /\
    (forall p, In p newb -> hole_at new (pcof st) p) /\
    (forall lc, bound (csym st') <= lc -> LOK lc new) /\
    forall nc gc, N.of_nat (List.length (cconsts st')) <= nc -> index (cur (csym st')) <= gc ->
      BOK nc gc new (pcof st) (AH 0) (AH 0) /\
      forall p ra, In (p, ra) (holes nc gc new (pcof st) (AH 0)) -> In p newb.

Lemma TL_refl st : top_ok2 st -> TL st st.
Proof.
  intro HT. split; [exact HT|]. split; [lia|]. split; [lia|]. exists [], [], []. split; [constructor|].
  split; [simpl; rewrite app_nil_r; reflexivity|]. split; [rewrite app_nil_r; reflexivity|].
  split; [simpl; rewrite app_nil_r; reflexivity|]. split; [intros p []|]. split; [intros; apply lok_nil|].
  intros nc gc _ _. split; [split; simpl; auto|intros p ra []].
Qed.

Lemma TL_trans st st1 st2 : TL st st1 -> TL st1 st2 -> TL st st2.
Proof.
  intros (T1 & M1 & N1 & n1 & c1 & b1 & A1 & C1 & K1 & B1 & H1 & L1 & D1) (T2 & M2 & N2 & n2 & c2 & b2 & A2 & C2 & K2 & B2 & H2 & L2 & D2).
  pose proof (pcof_app st st1 n1 C1 A1) as HP.
  split; [exact T2|]. split; [lia|]. split; [lia|]. exists (n1 ++ n2), (c1 ++ c2), (b1 ++ b2).
  split; [apply aok_app; assumption|].
  split; [rewrite C2, C1, strip_app; unfold encode; rewrite flat_map_app, app_assoc; reflexivity|].
  split; [rewrite K2, K1, app_assoc; reflexivity|].
  split; [rewrite B2, B1, map_app, app_assoc; reflexivity|].
  split.
  { intros p Hp. apply in_app_or in Hp. destruct Hp as [Hp|Hp].
    - apply hole_at_app_l. apply H1. exact Hp.
    - apply hole_at_app_r. rewrite <- HP. apply H2. exact Hp. }
  split; [intros lc HLc; apply lok_app; [apply L1; lia|apply L2; exact HLc]|].
  intros nc gc Hnc Hgc.
  assert (Hnc1 : N.of_nat (List.length (cconsts st1)) <= nc) by (rewrite K2, app_length in Hnc; lia).
  destruct (D1 nc gc Hnc1 ltac:(lia)) as [BK1 HL1].
  destruct (D2 nc gc Hnc Hgc) as [BK2 HL2]. rewrite HP in BK2, HL2.
  split; [eapply bok_app; eauto|].
  intros p ra Hin. apply (holes_app_in nc gc n1 n2 (pcof st) _ _ _ (proj1 BK1)) in Hin.
  destruct Hin as [Hin|Hin]; apply in_or_app; [left; apply (HL1 _ _ Hin)|right; apply (HL2 _ _ Hin)].
Qed.

Lemma TL_of_CTL st st' : top_ok2 st -> CTL st st' -> TL st st'.
Proof.
  intros HT (S & new & newc & newb & A & C & K & B & ND & H & L & D). pose proof HT as (HO & HI).
  destruct (sx_top _ _ S HO) as [ES EI].
  assert (HT' : top_ok2 st') by (split; [rewrite (sx_out _ _ S); exact HO|apply (sx_inv _ _ S); exact HI]).
  split; [exact HT'|]. split; [lia|]. split; [apply (sx_bound _ _ S)|].
  exists new, newc, newb. repeat (split; [assumption|]).
  intros nc gc Hnc Hgc. rewrite EI in Hgc.
  destruct (D nc gc 0 Hnc (top_gbw st gc HT Hgc)) as [BK HL]. split; [exact BK|]. intros p ra Hin. apply (HL _ _ Hin).
Qed.

(* a top-level declaration defines a global *)
Lemma TL_of_decl n e st st' : efrag e = true -> top_ok2 st ->
  compile_stmt true (SDecl n e) st = COk st' -> TL st st'.
Proof.
  intros HF HT HC. pose proof HT as (HO & HI). cbn [compile_stmt] in HC.
  destruct (compile_expr true e st) as [st1|] eqn:E1; [|discriminate]. cbn [bind] in HC.
  assert (HGB : has_gbw (csym st)) by (exists (index (cur (csym st))); apply top_gbw; [exact HT|lia]).
  destruct (expr_piece e st st1 HF E1 HGB) as (S1 & B1 & ops & newc & NE & A & C & K & R & L).
  destruct (st_define n (csym st1)) as [sym' y] eqn:ED. rewrite S1 in ED.
  assert (HD1 : fst (st_define n (csym st)) = sym') by (rewrite ED; reflexivity).
  assert (HD2 : snd (st_define n (csym st)) = y) by (rewrite ED; reflexivity).
  destruct (define_frame n (csym st)) as (F1 & F2 & F3). rewrite HD1 in F1, F2, F3.
  pose proof (inv_define n (csym st) HI) as HI'. rewrite HD1 in HI'.
  pose proof (define_then_resolve (csym st) n) as DR. rewrite HD1, HD2 in DR.
  assert (HO' : outers sym' = []) by congruence.
  destruct (sym_top_globals _ HO' HI' _ _ DR) as [SG RG].
  pose proof (bound_step (SDefine n) (csym st)) as HBd. cbn [st_step] in HBd. rewrite ED in HBd. cbn [fst] in HBd.
  destruct (set_var_sl y (with_sym sym' st1) st' HC) as (E1' & E2' & E4' & E3' & HRng).
  cbn [with_sym csym ccode cconsts cbreaks] in E1', E2', E3', E4'.
  split; [split; rewrite E1'; assumption|]. split; [rewrite E1'; exact F3|]. split; [rewrite E1'; exact HBd|].
  exists (solid (ops ++ [(setop y, sidx y)])), newc, [].
  split; [unfold solid; rewrite map_app; apply aok_app; [exact A|]; constructor; [cbn; exact HRng|constructor]|].
  split; [rewrite strip_solid, E3', C, encode_app, app_assoc; reflexivity|]. split; [rewrite E2'; exact K|].
  split; [cbn [map]; rewrite app_nil_r; congruence|]. split; [intros p []|].
  split.
  { intros lc _. apply lok_solid, Forall_app. split; [apply L, top_lbw2, HT|]. constructor; [|constructor].
    apply lopk_setvar. intro X. congruence. }
  intros nc gc Hnc Hgc. rewrite E1' in Hgc.
  assert (RR : runs nc gc (ops ++ [(setop y, sidx y)]) 0 = Some 0).
  { eapply runs_app; [apply (R nc gc 0); [rewrite <- E2'; exact Hnc|apply top_gbw; [exact HT|lia]]|].
    cbn [runs]. rewrite sop_ok_setvar; [reflexivity|intros _; lia|exact HRng]. }
  destruct (runs_bok nc gc _ (pcof st) 0 0 RR) as [BK HH]. split; [exact BK|]. rewrite HH. intros p ra [].
Qed.

Lemma top_gsym st : top_ok st -> gsym (csym st) /\ has_gb (csym st).
Proof.
  intros HT. pose proof HT as (HO & HI & HN). split.
  - split; [exact HN|]. rewrite HO. congruence.
  - exists (index (cur (csym st))). apply top_globals. exact HT.
Qed.

Lemma top_has_gbw st : top_ok2 st -> has_gbw (csym st).
Proof. intro HT. exists (index (cur (csym st))). apply top_gbw; [exact HT|lia]. Qed.

(* a top-level for loop WITH a loop variable: the variable is a global (see
   finding vm-loopvar-global) *)
Lemma tl_loop rop S n b st s3 st' : range_op rop S -> slist_ctl b -> PREFIX S st s3 ->
  for_loop true (Some n) rop (Z.of_N S) b s3 = COk st' -> top_ok2 st -> TL st st'.
Proof.
  intros HRO HB (S3 & B3 & ops & newc & A & C & K & L & R) HC HT. pose proof HT as (HO & HI).
  set (sym' := fst (st_define n (csym st))).
  destruct (define_frame n (csym st)) as (F1 & F2 & F3). fold sym' in F1, F2, F3.
  pose proof (inv_define n (csym st) HI) as HI'. fold sym' in HI'.
  assert (HT1 : top_ok2 (with_sym sym' s3)) by (split; cbn [with_sym csym]; [congruence|exact HI']).
  assert (HI3 : Inv (csym s3)) by (rewrite S3; exact HI).
  assert (HGB' : has_gbw (fst (st_define n (csym s3)))) by (rewrite S3; apply (top_has_gbw _ HT1)).
  pose proof (for_loop_lv_ok rop S n b s3 st' HRO HB HC HI3 HGB') as HL. rewrite S3 in HL. fold sym' in HL.
  destruct HL as (S2 & B2 & new & newc2 & A2 & C2 & K2 & L2 & D2). cbn [with_sym csym ccode cconsts cbreaks] in S2, B2, C2, K2, L2, D2.
  assert (HO' : outers sym' = []) by congruence.
  destruct (sx_top _ _ S2 HO') as [_ EI].
  pose proof (bound_step (SDefine n) (csym st)) as HBd. cbn [st_step] in HBd.
  assert (HBd' : bound (csym st) <= bound sym') by (unfold sym'; destruct (st_define n (csym st)); exact HBd).
  pose proof (pcof_app st s3 (solid ops)) as HP. rewrite strip_solid in HP. specialize (HP C A).
  split; [split; [rewrite (sx_out _ _ S2); exact HO'|apply (sx_inv _ _ S2); exact HI']|].
  split; [lia|]. split; [pose proof (sx_bound _ _ S2); lia|].
  exists (solid ops ++ new), (newc ++ newc2), [].
  split; [apply aok_app; assumption|].
  split; [rewrite C2, C, encode_strip_app, strip_solid, app_assoc; reflexivity|].
  split; [rewrite K2, K, app_assoc; reflexivity|].
  split; [cbn [map]; rewrite app_nil_r; congruence|]. split; [intros p []|].
  split; [intros lc HLc; apply lok_app; [apply lok_solid, L, top_lbw2, HT|apply L2; exact HLc]|].
  intros nc gc Hnc Hgc.
  assert (Hnc1 : N.of_nat (List.length (cconsts s3)) <= nc) by (rewrite K2, app_length in Hnc; lia).
  assert (HG : gbw (csym st) gc) by (apply top_gbw; [exact HT|lia]).
  assert (HG' : gbw sym' gc) by (apply (top_gbw (with_sym sym' s3)); [exact HT1|cbn [with_sym csym]; lia]).
  destruct (runs_bok nc gc ops (pcof st) 0 (0 + S) (R nc gc 0 Hnc1 HG)) as [BK1 HH1].
  destruct (D2 nc gc 0 Hnc HG') as [BK2 HH2].
  change (pcof (with_sym sym' s3)) with (pcof s3) in BK2, HH2. rewrite HP in BK2, HH2.
  split.
  - eapply bok_app; [exact BK1|]. rewrite strip_solid. exact BK2.
  - intros p ra Hin. apply (holes_app_in nc gc (solid ops) new (pcof st) _ _ _ (proj1 BK1)) in Hin.
    rewrite HH1, strip_solid, HH2 in Hin. destruct Hin as [[]|[]].
Qed.

Lemma tl_forstep_lv n start stop step b st st' :
  ofrag start = true -> efrag stop = true -> ofrag step = true -> slist_ctl b ->
  compile_stmt true (SForStep (Some n) start stop step b) st = COk st' -> top_ok2 st -> TL st st'.
Proof.
  intros F1 F2 F3 HB HC HT. cbn [compile_stmt] in HC.
  destruct (compile_expr true stop st) as [s1|] eqn:E1; [|discriminate]. cbn [bind] in HC.
  destruct (compile_expr true (match step with OSome e => e | ONoneE => ENum 1 end) s1) as [s2|] eqn:E2; [|discriminate]. cbn [bind] in HC.
  destruct (compile_expr true (match start with OSome e => e | ONoneE => ENum 0 end) s2) as [s3|] eqn:E3; [|discriminate]. cbn [bind] in HC.
  apply (tl_loop StepRange 3 n b st s3 st' (or_introl (conj eq_refl eq_refl)) HB
           (forstep_prefix start stop step st s1 s2 s3 F1 F2 F3 (top_has_gbw st HT) E1 E2 E3) HC HT).
Qed.

Lemma tl_foriter_lv n t e b st st' :
  (t = TStr \/ t = TArr \/ t = TMap) -> efrag e = true -> slist_ctl b ->
  compile_stmt true (SForIter (Some n) t e b) st = COk st' -> top_ok2 st -> TL st st'.
Proof.
  intros Ht F HB HC HT. cbn [compile_stmt] in HC.
  assert (HC' : compile_expr true e st >>= emit_const true (KNum 0) >>= for_loop true (Some n) IterRange 2 b = COk st')
    by (destruct Ht as [->|[->| ->]]; exact HC). clear HC.
  destruct (compile_expr true e st) as [s1|] eqn:E1; [|discriminate]. cbn [bind] in HC'.
  destruct (emit_const true (KNum 0) s1) as [s2|] eqn:E2; [|discriminate]. cbn [bind] in HC'.
  apply (tl_loop IterRange 2 n b st s2 st' (or_intror (conj eq_refl eq_refl)) HB
           (foriter_prefix e st s1 s2 F (top_has_gbw st HT) E1 E2) HC' HT).
Qed.

(* the program fragment: at top level, declarations and for loops with a loop
   variable define globals; everything else, and everything inside blocks, is
   the control-flow fragment cfrag (which has declarations and loop variables
   of its own: locals) *)
Definition pfrag_stmt2 (s : stmt) : bool := cfrag_stmt s.
Fixpoint pfrag2 (p : slist) : bool :=
  match p with SNil => true | SCons s t => pfrag_stmt2 s && pfrag2 t end.

Lemma pfrag2_TL p : forall st st', pfrag2 p = true -> compile_slist true p st = COk st' -> top_ok2 st -> TL st st'.
Proof.
  induction p as [|s t IH]; intros st st' HF HC HT.
  - simpl in HC. inversion HC; subst. apply TL_refl. exact HT.
  - cbn [pfrag2] in HF. apply andb_true_iff in HF. destruct HF as [F1 F2]. cbn [compile_slist] in HC.
    destruct (compile_stmt true s st) as [st1|] eqn:E1; [|discriminate]. cbn [bind] in HC.
    assert (X1 : TL st st1).
    { unfold pfrag_stmt2 in F1.
      assert (GEN : needs_scope s = false -> TL st st1).
      { intro NS. apply TL_of_CTL; [exact HT|].
        apply (proj1 ctl_all _ F1 st st1 E1 ltac:(intro X; congruence) (proj2 HT) (top_has_gbw st HT)). }
      destruct s; try (apply GEN; reflexivity).
      - apply (TL_of_decl n e st st1 F1 HT E1).
      - destruct lv as [n|]; [|apply GEN; reflexivity].
        cbn [cfrag_stmt] in F1. apply andb_true_iff in F1. destruct F1 as [F1 G4]. apply andb_true_iff in F1. destruct F1 as [F1 G3].
        apply andb_true_iff in F1. destruct F1 as [G1 G2].
        apply (tl_forstep_lv n start stop step b st st1 G1 G2 G3 (proj1 (proj2 ctl_all) b G4) E1 HT).
      - destruct lv as [n|]; [|apply GEN; reflexivity].
        cbn [cfrag_stmt] in F1.
        assert (Ht : t0 = TStr \/ t0 = TArr \/ t0 = TMap) by (destruct t0; try discriminate F1; auto).
        assert (HF' : efrag e && cfrag_slist b = true) by (destruct t0; try discriminate F1; exact F1).
        apply andb_true_iff in HF'. destruct HF' as [G1 G2].
        apply (tl_foriter_lv n t0 e b st st1 Ht G1 (proj1 (proj2 ctl_all) b G2) E1 HT). }
    apply (TL_trans st st1 st' X1). apply (IH st1 st' F2 HC). apply X1.
Qed.

(* the end of a program: no open scope, so the bound is LocalCount *)
Lemma TL_WF st : TL cinit st -> cbreaks st = [] ->
  WF {| bcode := out_code (bytecode_of st); nconsts := N.of_nat (List.length (out_consts (bytecode_of st)));
        gcount := out_gcount (bytecode_of st); lcount := out_lcount (bytecode_of st) |}.
Proof.
  intros ((T1 & T2) & _ & _ & new & newc & newb & A & C & K & B & H & L & D) HB.
  simpl in C, K, B. rewrite HB in B. assert (newb = []) by (destruct newb; [reflexivity|discriminate]). subst newb.
  unfold bytecode_of. cbn [out_code out_consts out_gcount out_lcount]. unfold st_local_count, st_global_count.
  rewrite C.
  destruct (D (N.of_nat (List.length (cconsts st))) (index (cur (csym st))) (N.le_refl _) (N.le_refl _)) as [BK HL].
  change (pcof cinit) with 0 in BK, HL.
  apply bok_WF; [exact BK| |apply L; rewrite (bound_top _ T1); lia].
  destruct (holes _ _ new 0 (AH 0)) as [|[q ra] r] eqn:EH; [reflexivity|].
  exfalso. apply (HL q ra). left. reflexivity.
Qed.

Lemma top_ok2_init : top_ok2 cinit.
Proof. split; [reflexivity|apply inv_new]. Qed.

(* compile_wf: declarations and for loops with a loop variable at top level
   (globals) and inside blocks (locals), assignments to globals and locals,
   if / else-if / else, while, break, for over step ranges and iterables
   without loop variable — nested arbitrarily.  If the compiler succeeds (and
   no break is left outside a loop, which the parser guarantees), its output
   satisfies WF; in particular every OpGetLocal / OpSetLocal operand is below
   the LocalCount of the emitted program (SymTabProofs.bound along the
   compilation).  No size guard: out-of-range operands and jump targets are
   compile errors at HEAD. *)
Theorem compile_wf_ctl2 : forall (p : slist) (st : cstate),
  pfrag2 p = true -> compile p = COk st -> cbreaks st = [] ->
  WF {| bcode := out_code (bytecode_of st); nconsts := N.of_nat (List.length (out_consts (bytecode_of st)));
        gcount := out_gcount (bytecode_of st); lcount := out_lcount (bytecode_of st) |}.
Proof.
  intros p st HF HC HB. unfold compile, compile_program in HC.
  apply TL_WF; [|exact HB]. apply (pfrag2_TL p cinit st HF HC top_ok2_init).
Qed.

(* what WF says about the local accesses, spelled out: every OpGetLocal /
   OpSetLocal of the emitted code addresses a slot below LocalCount *)
Theorem compile_local_operands : forall (p : slist) (st : cstate),
  pfrag2 p = true -> compile p = COk st -> cbreaks st = [] ->
  forall instrs pc i, decode_all (ccode st) = Some instrs -> In (pc, i) instrs ->
    (opc_of_N (iop i) = Some GetLocal \/ opc_of_N (iop i) = Some SetLocal) ->
    arg0 i < st_local_count (csym st).
Proof.
  intros p st HF HC HB instrs pc i HD HI HO.
  destruct (compile_wf_ctl2 p st HF HC HB) as (instrs' & h & D & O & _).
  unfold bytecode_of in D, O. cbn [bcode out_code] in D. rewrite HD in D. inversion D; subst instrs'.
  destruct (O pc i HI) as [OK _]. unfold operand_ok in OK. cbn [lcount out_lcount] in OK.
  destruct HO as [E|E]; rewrite E in OK; apply N.ltb_lt in OK; exact OK.
Qed.

(* every statement of the fragment, compiled inside a block, keeps the
   symbol-table invariant (hence: names visible at the same time have
   different slots, visible_no_sharing), leaves the enclosing scopes alone and
   never lowers the bound that becomes LocalCount *)
Theorem compile_stmt_table : forall s st st',
  cfrag_stmt s = true -> compile_stmt true s st = COk st' ->
  outers (csym st) <> [] -> Inv (csym st) -> has_gbw (csym st) ->
  Inv (csym st') /\ outers (csym st') = outers (csym st) /\ bound (csym st) <= bound (csym st').
Proof.
  intros s st st' HF HC HO HI HGB.
  destruct (proj1 ctl_all s HF st st' HC (fun _ => HO) HI HGB) as [S _].
  split; [apply (sx_inv _ _ S HI)|]. split; [apply (sx_out _ _ S)|apply (sx_bound _ _ S)].
Qed.
