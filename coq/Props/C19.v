(* C19 — SVG output is well formed and shows exactly what was drawn.
   Property theorems only; every proof is [exact <lemma of SvgProofs>].

   [run fx fuel pre_init (program l)] is the model of svg.GraphicsPlatform
   executing NewGraphicsPlatform (which itself calls Clear("white")) followed by
   the calls l; [render] is what WriteSVG encodes (after its final Push);
   [flatten] resolves the attributes inherited from <g> and <svg> (and SVG's
   initial values) to one (geometry, paint, font) triple per leaf shape;
   [spec fx fuel] pairs each drawing call, in order, with its geometry and the
   pen / font in force when it was issued.  fx = false is the code as it is,
   fx = true the code with the proposed fixes.  [None] = a gridn loop did not
   end within [fuel] rounds (OutOfFuel), which no theorem treats as success. *)
(* Floats is deliberately not imported before the theorems, so that Print
   Assumptions names the kernel's float primitives with their module prefix. *)
From Coq Require Import ZArith List String.
From Coq Require Floats.
From EvyV Require Import Base Svg SvgProofs.
From EvyV.Gen Require Import SvgConsts.
Import ListNotations.

(* ---- the property, full strength, for the model with the proposed fixes ---- *)
Theorem C19_svg_shows_what_was_drawn_fixed : forall (fuel : nat) (l : list cmd) (st : state),
  run true fuel pre_init (program l) = Some st ->
  spec true fuel (program l) = Some (flatten (render true st)).
Proof. exact shows_what_was_drawn_fixed. Qed.
Print Assumptions C19_svg_shows_what_was_drawn_fixed.

(* ---- the code as it is: over all histories that satisfy [guard] (no `clear`
   rectangle / gridn group pushed alone under a non-default pen, no text pushed
   alone with an unset stroke and a set fill colour), the document shows what
   [spec false] says: the intended meaning except for four local deviations
   (ellipse y, text paint, baseline names, default family), each refuted below *)
Theorem C19_svg_shows_what_was_drawn_asis : forall (fuel : nat) (l : list cmd) (st : state),
  run false fuel pre_init (program l) = Some st ->
  guard fuel pre_init (program l) = true ->
  spec false fuel (program l) = Some (flatten (render false st)).
Proof. exact shows_what_was_drawn_asis. Qed.
Print Assumptions C19_svg_shows_what_was_drawn_asis.

(* ---- the code as it is against the INTENDED meaning, with the guards that
   exclude exactly the defective classes: [guard] and no ellipse / text call ---- *)
Theorem C19_svg_shows_what_was_drawn_guarded : forall (fuel : nat) (l : list cmd) (st : state),
  run false fuel pre_init (program l) = Some st ->
  guard fuel pre_init (program l) = true ->
  forallb no_dev l = true ->
  spec true fuel (program l) = Some (flatten (render false st)).
Proof. exact shows_what_was_drawn_guarded. Qed.
Print Assumptions C19_svg_shows_what_was_drawn_guarded.

(* no document is written exactly when the specification has no value (a gridn
   loop that does not end), for both models *)
Theorem C19_hangs_iff_spec_undefined : forall (fx : bool) (fuel : nat) (l : list cmd),
  run fx fuel pre_init (program l) = None <-> spec fx fuel (program l) = None.
Proof. exact hangs_iff_spec_undefined. Qed.
Print Assumptions C19_hangs_iff_spec_undefined.

(* one shape per drawing call, in order: [spec] is the concatenation, in call
   order, of one singleton per drawing call other than gridn (and the grid lines
   of each gridn); so without gridn there are exactly as many shapes as drawing calls *)
Theorem C19_one_shape_per_drawing_call : forall (fx : bool) (fuel : nat) (kk : core) (c : cmd),
  (is_draw c = true -> is_gridn c = false -> exists sh, spec_shapes fx fuel kk c = Some [sh]) /\
  (is_draw c = false -> spec_shapes fx fuel kk c = Some []).
Proof. intros. split; [apply spec_one_shape | apply spec_no_shape]. Qed.
Print Assumptions C19_one_shape_per_drawing_call.

Theorem C19_shape_count : forall (fx : bool) (fuel : nat) (l : list cmd) (kk : core) (out : list fshape),
  forallb (fun c => negb (is_gridn c)) l = true ->
  spec_from fx fuel kk l = Some out ->
  List.length out = List.length (filter is_draw l).
Proof. exact spec_count. Qed.
Print Assumptions C19_shape_count.

(* ---- gridn ---- *)
(* Termination is proved over the ABSTRACT condition that a natural-number
   measure of the loop variable strictly decreases in every round entered (over
   binary64, "unit > 0" does not imply it: i + unit = i for tiny units). *)
Theorem C19_gridn_terminates_partial : forall (unit : PrimFloat.float) (m : PrimFloat.float -> nat),
  (forall i, PrimFloat.leb i grid_bound = true -> (m (fadd i (tx unit)) < m i)%nat) ->
  exists fuel l, grid_lines fuel unit = Some l.
Proof. exact gridn_terminates_if_measure. Qed.
Print Assumptions C19_gridn_terminates_partial.

(* "gridn terminates for every unit" is false: for unit = 0 (and -infinity) no
   amount of fuel suffices *)
Theorem C19_gridn_terminates_refuted :
  exists unit : PrimFloat.float, PrimFloat.leb unit PrimFloat.zero = true /\ forall fuel, grid_lines fuel unit = None.
Proof. exists PrimFloat.zero. split; [reflexivity | exact gridn_zero_never_ends]. Qed.
Print Assumptions C19_gridn_terminates_refuted.

Theorem C19_gridn_terminates_refuted_negative :
  exists unit : PrimFloat.float, PrimFloat.ltb unit PrimFloat.zero = true /\ forall fuel, grid_lines fuel unit = None.
Proof. exists PrimFloat.neg_infinity. split; [reflexivity | exact gridn_neg_infinity_never_ends]. Qed.
Print Assumptions C19_gridn_terminates_refuted_negative.

(* ---------- refutations of the unguarded statement for the code as it is ---------- *)
Import Floats.
Definition shows (fx_model fx_spec : bool) (fuel : nat) (l : list cmd) : Prop :=
  exists st, run fx_model fuel pre_init (program l) = Some st /\
             spec fx_spec fuel (program l) = Some (flatten (render fx_model st)).
Definition refutes (fx_spec : bool) (l : list cmd) : Prop :=
  exists st, run false 100 pre_init (program l) = Some st /\
             spec fx_spec 100 (program l) <> Some (flatten (render false st)).

Local Open Scope string_scope.
Ltac refute := eexists; split; [vm_compute; reflexivity | vm_compute; let H := fresh in (intro H; discriminate H)].

(* `ellipse 50 20 10`: cy = 200 instead of 800 (guard holds: against the intended meaning) *)
Definition second_cy (o : option (list fshape)) : float :=
  match o with Some (_ :: (GEllipse _ y _ _ _, _, _) :: _) => y | _ => 0%float end.
Example C19_refuted_ellipse_cy_not_flipped :
  refutes true [CEllipse 50 20 10 10 0] /\ guard 100 pre_init (program [CEllipse 50 20 10 10 0]) = true.
Proof.
  split; [|vm_compute; reflexivity].
  eexists; split; [vm_compute; reflexivity|]. intro H.
  apply (f_equal second_cy) in H. apply (f_equal (fun x => PrimFloat.eqb x 800)) in H.
  vm_compute in H. discriminate H.
Qed.

(* `color "red"` / `clear "blue"` / `width 2` / `circle 1`: the lone clear is written fill="red"
   (guard fails: refutes even the specification with the four deviations) *)
Example C19_refuted_lone_clear_fill_overwritten :
  refutes false [CColor (s_ "red"); CClear (s_ "blue"); CWidth 2; CCircle 1].
Proof. refute. Qed.

(* `width 0.1` / `clear "blue"`: value equal to the default, pointer not: all attributes wiped *)
Example C19_refuted_lone_clear_after_width :
  refutes false [CWidth 0.1; CClear (s_ "blue")].
Proof. refute. Qed.

(* `color "red"` / `gridn 50 "green"` / `color "blue"` *)
Example C19_refuted_lone_grid_stroke_overwritten :
  refutes false [CColor (s_ "red"); CGridn 50 (s_ "green"); CColor (s_ "blue")].
Proof. refute. Qed.

(* `stroke ""` / `fill "red"` / `text "x"`: lone text (second clause of the guard) *)
Example C19_refuted_lone_text_stroke_unset :
  refutes false [CStroke []; CFill (s_ "red"); CText (s_ "x")].
Proof. refute. Qed.

(* `stroke "blue"` / `fill "red"` / `text "x"`: filled and stroked blue *)
Example C19_refuted_text_painted_with_stroke_colour :
  refutes true [CStroke (s_ "blue"); CFill (s_ "red"); CText (s_ "x")].
Proof. refute. Qed.

(* `font {baseline:"top"}` / `text "x"`: dominant-baseline="top" *)
Example C19_refuted_font_baseline_not_mapped :
  refutes true [CFont (mkFP None None None None (Some (s_ "top")) None None); CText (s_ "x")].
Proof. refute. Qed.

(* ---------- non-vacuity ---------- *)
Definition sample : list cmd :=
  [CMove 20 0; CRect 10 30; CColor (s_ "red"); CCircle 10; CGridn 50 (s_ "gray");
   CWidth 2; CDash [5%float; 3%float]; CLine 50 50; CPoly [(10%float, 20%float); (30%float, 40%float)];
   CFill (s_ "none"); CFont (mkFP (Some (s_ "serif")) (Some 4%float) None None None (Some (s_ "center")) None);
   CClear (s_ "blue"); CRect 1 1; CStroke (s_ "blue"); CText (s_ "<b>&")].

(* hypotheses of the as-is theorem hold on a history with groups, a grid, text *)
Example C19_ex_asis_hypotheses :
  guard 100 pre_init (program sample) = true /\ shows false false 100 sample /\
  (exists out, spec false 100 (program sample) = Some out /\ List.length out = 14%nat).
Proof.
  split; [vm_compute; reflexivity|].
  split; (eexists; split; [vm_compute; reflexivity | vm_compute; reflexivity]).
Qed.

Example C19_ex_fixed : shows true true 100 sample.
Proof. eexists; split; [vm_compute; reflexivity | vm_compute; reflexivity]. Qed.

(* hypotheses of the guarded theorem *)
Example C19_ex_guarded_hypotheses :
  let l := [CMove 20 0; CRect 10 30; CColor (s_ "red"); CCircle 10; CGridn 50 (s_ "gray"); CWidth 2; CLine 1 1] in
  guard 100 pre_init (program l) = true /\ forallb no_dev l = true /\ shows false true 100 l.
Proof.
  split; [vm_compute; reflexivity|]. split; [vm_compute; reflexivity|].
  eexists; split; [vm_compute; reflexivity | vm_compute; reflexivity].
Qed.

(* the measure hypothesis is satisfiable: gridn (0/0) *)
Example C19_ex_gridn_nan_terminates : exists fuel l, grid_lines fuel nan = Some l.
Proof.
  apply (gridn_terminates_if_measure nan (fun x => if PrimFloat.leb x grid_bound then 1 else 0)%nat).
  exact nan_measure.
Qed.

(* bounded facts (not theorems about all fuel): the usual units end, a negative finite unit does not end within 2000 rounds *)
Example C19_ex_grid_default : exists l, grid_lines 102 10 = Some l /\ List.length l = 22%nat.
Proof. eexists; split; [vm_compute; reflexivity | vm_compute; reflexivity]. Qed.
Example C19_ex_grid_negative_bounded : grid_lines 2000 (-1) = None.
Proof. vm_compute. reflexivity. Qed.
