(* C19 — SVG output is well formed and shows exactly what was drawn.
   Property theorems only; every proof is [exact <lemma of SvgProofs>].

   [run fx fuel pre_init (program l)] is the model of svg.GraphicsPlatform
   executing NewGraphicsPlatform (which itself calls Clear("white")) followed by
   the calls l; [render] is what WriteSVG encodes (after its final Push);
   [flatten] resolves the attributes inherited from <g> and <svg> (and SVG's
   initial values) to one (geometry, paint, font) triple per leaf shape;
   [spec fx fuel] pairs each drawing call, in order, with its geometry and the
   pen / font in force when it was issued.  [fx : fixes] has one switch per
   recorded defect: [cur] is /repo HEAD (lone-element fix 7a67899 and gridn
   check 292a02f are in), [all] has every proposed fix, [none] is the code
   before the fix commits.  [spec all] is the intended meaning.  [None] = a
   gridn loop did not end within [fuel] rounds (OutOfFuel), which no theorem
   treats as success. *)
(* Floats is deliberately not imported before the theorems, so that Print
   Assumptions names the kernel's float primitives with their module prefix. *)
From Coq Require Import ZArith List String.
From Coq Require Floats.
From EvyV Require Import Base Svg SvgProofs.
From EvyV.Gen Require Import SvgConsts.
Import ListNotations.

(* ---- the model in force (HEAD) ---- *)
(* Over all histories: the document shows [spec cur], i.e. the intended meaning
   except for the four remaining local deviations (ellipse y, text paint,
   baseline names, default family), each refuted below.  The only guard left is
   the text-paint one: no text pushed alone with an unset stroke colour and a
   set, non-default fill colour (guard cur checks nothing else: fx_lone is on). *)
Theorem C19_svg_shows_what_was_drawn : forall (fuel : nat) (l : list cmd) (st : state),
  run cur fuel pre_init (program l) = Some st ->
  guard cur fuel pre_init (program l) = true ->
  spec cur fuel (program l) = Some (flatten (render cur st)).
Proof. intros fuel l. exact (shows_what_was_drawn cur fuel (program l)). Qed.
Print Assumptions C19_svg_shows_what_was_drawn.

(* the model in force against the INTENDED meaning ([intended b]: every switch
   about what is shown is on; b says which grid loop computes the positions —
   the one the model in force runs); the guard excludes exactly the calls the
   remaining deviations are about: no ellipse, no text *)
Theorem C19_svg_shows_what_was_drawn_guarded : forall (fuel : nat) (l : list cmd) (st : state),
  run cur fuel pre_init (program l) = Some st ->
  forallb no_dev l = true ->
  spec (intended (fx_gridn_bound cur)) fuel (program l) = Some (flatten (render cur st)).
Proof. intros fuel l st. exact (shows_what_was_drawn_guarded cur fuel l st eq_refl). Qed.
Print Assumptions C19_svg_shows_what_was_drawn_guarded.

(* ---- full strength, no guard, for the model with every proposed fix ---- *)
Theorem C19_svg_shows_what_was_drawn_fixed : forall (fuel : nat) (l : list cmd) (st : state),
  run all fuel pre_init (program l) = Some st ->
  spec all fuel (program l) = Some (flatten (render all st)).
Proof. intros fuel l. exact (shows_what_was_drawn_fixed fuel (program l)). Qed.
Print Assumptions C19_svg_shows_what_was_drawn_fixed.

(* ---- regression: the code before 7a67899 needed the lone clear / lone grid guard ---- *)
Theorem C19_svg_shows_what_was_drawn_before_fix : forall (fuel : nat) (l : list cmd) (st : state),
  run none fuel pre_init (program l) = Some st ->
  guard none fuel pre_init (program l) = true ->
  spec none fuel (program l) = Some (flatten (render none st)).
Proof. intros fuel l. exact (shows_what_was_drawn none fuel (program l)). Qed.
Print Assumptions C19_svg_shows_what_was_drawn_before_fix.

(* no document is written exactly when the specification has no value (a gridn
   loop that does not end), for every variant *)
Theorem C19_hangs_iff_spec_undefined : forall (fx : fixes) (fuel : nat) (l : list cmd),
  run fx fuel pre_init l = None <-> spec fx fuel l = None.
Proof. exact hangs_iff_spec_undefined. Qed.
Print Assumptions C19_hangs_iff_spec_undefined.

(* one shape per drawing call, in order *)
Theorem C19_one_shape_per_drawing_call : forall (fx : fixes) (fuel : nat) (kk : core) (c : cmd),
  (is_draw c = true -> is_gridn c = false -> exists sh, spec_shapes fx fuel kk c = Some [sh]) /\
  (is_draw c = false -> spec_shapes fx fuel kk c = Some []).
Proof. intros. split; [apply spec_one_shape | apply spec_no_shape]. Qed.
Print Assumptions C19_one_shape_per_drawing_call.

Theorem C19_shape_count : forall (fx : fixes) (fuel : nat) (l : list cmd) (kk : core) (out : list fshape),
  forallb (fun c => negb (is_gridn c)) l = true ->
  spec_from fx fuel kk l = Some out ->
  List.length out = List.length (filter is_draw l).
Proof. exact spec_count. Qed.
Print Assumptions C19_shape_count.

(* ---- gridn: termination ---- *)
(* With the bound (proposed_fixes/C19-gridn-tiny-unit.diff: gridnFunc rejects
   units below minGridUnit = 0.01 and NaN; Gridn counts its rounds with an
   integer, at most maxGridRounds + 1 of them) termination is UNCONDITIONAL:
   for every binary64 unit whatsoever and every fuel the loop ends, with at most
   2 * (maxGridRounds + 1) = 2 * (100/0.01 + 1) lines.  No measure hypothesis. *)
Theorem C19_gridn_terminates : forall (fx : fixes) (fuel : nat) (unit : PrimFloat.float),
  fx_gridn_bound fx = true ->
  exists l, grid_lines fx fuel unit = Some l /\ (List.length l <= 2 * Z.to_nat (grid_max_rounds + 1))%nat.
Proof. exact gridn_terminates_bounded. Qed.
Print Assumptions C19_gridn_terminates.

(* … hence a document is written for EVERY history (the `terminates` half of the property) *)
Theorem C19_never_hangs : forall (fx : fixes) (fuel : nat) (l : list cmd),
  fx_gridn_bound fx = true -> exists st, run fx fuel pre_init l = Some st.
Proof. intros fx fuel l H. exact (never_hangs fx fuel l H pre_init). Qed.
Print Assumptions C19_never_hangs.

(* … and every gridn call that reaches the platform has a unit >= minGridUnit (so not NaN, not tiny) *)
Theorem C19_gridn_unit_at_least_min : forall (fx : fixes) (l : list cmd) (u : PrimFloat.float) (c : str),
  fx_gridn_bound fx = true -> In (CGridn u c) (effective fx l) -> PrimFloat.leb grid_min_unit u = true.
Proof. exact effective_units_at_least_min. Qed.
Print Assumptions C19_gridn_unit_at_least_min.

(* the check of 292a02f (unit <= 0), for any variant that has it and not yet the bound *)
Theorem C19_gridn_nonpositive_unit_rejected : forall (fx : fixes) (l : list cmd) (u : PrimFloat.float) (c : str),
  fx_gridn fx = true -> fx_gridn_bound fx = false ->
  (PrimFloat.leb u PrimFloat.zero = true -> wrapper_accepts fx (CGridn u c) = false) /\
  (In (CGridn u c) (effective fx l) -> PrimFloat.leb u PrimFloat.zero = false).
Proof.
  intros fx l u c G B. split.
  - exact (gridn_nonpositive_rejected fx u c G B).
  - exact (effective_units_positive fx l u c G B).
Qed.
Print Assumptions C19_gridn_nonpositive_unit_rejected.

(* ---- gridn: the accumulating loop `for i := 0.0; i <= 1000; i += unit` (before the bound) ---- *)
(* all that can be said of it: it ends under the ABSTRACT condition that a
   natural-number measure of the loop variable strictly decreases in every round entered *)
Theorem C19_gridn_terminates_partial_before_fix : forall (unit : PrimFloat.float) (m : PrimFloat.float -> nat),
  (forall i, PrimFloat.leb i grid_bound = true -> (m (fadd i (tx unit)) < m i)%nat) ->
  exists fuel l, old_loop fuel unit = Some l.
Proof. exact gridn_terminates_if_measure. Qed.
Print Assumptions C19_gridn_terminates_partial_before_fix.

(* "it terminates for every positive unit" is false: with unit 1e-17 (which the
   check unit <= 0 lets through) the loop variable stalls at 1: 1 + 10*1e-17 = 1
   in binary64 and 1 <= 1000, so from there the loop never ends, whatever the fuel *)
(* [float_of_bits 4352464011485697175] is the binary64 number 1e-17 (see C19_refuted_gridn_tiny_unit) *)
Theorem C19_gridn_stalls_before_fix :
  fadd PrimFloat.one (tx (float_of_bits 4352464011485697175%Z)) = PrimFloat.one /\
  (forall fuel cnt, grid_loop fuel PrimFloat.one (tx (float_of_bits 4352464011485697175%Z)) cnt = None).
Proof.
  assert (E : fadd PrimFloat.one (tx (float_of_bits 4352464011485697175%Z)) = PrimFloat.one) by (vm_compute; reflexivity).
  split; [exact E|]. apply grid_loop_stuck; [vm_compute; reflexivity | exact E].
Qed.
Print Assumptions C19_gridn_stalls_before_fix.

(* regression (before 292a02f): units 0 and -infinity reached the loop, which
   then never ends, whatever the fuel *)
Theorem C19_gridn_never_ends_before_fix :
  (forall c, wrapper_accepts none (CGridn PrimFloat.zero c) = true) /\
  (forall fuel, old_loop fuel PrimFloat.zero = None) /\
  (forall c, wrapper_accepts none (CGridn PrimFloat.neg_infinity c) = true) /\
  (forall fuel, old_loop fuel PrimFloat.neg_infinity = None).
Proof.
  split; [reflexivity|]. split; [exact gridn_zero_never_ends|].
  split; [reflexivity | exact gridn_neg_infinity_never_ends].
Qed.
Print Assumptions C19_gridn_never_ends_before_fix.

(* ---------- refutations ---------- *)
Import Floats.
Definition shows (fx_model fx_spec : fixes) (fuel : nat) (l : list cmd) : Prop :=
  exists st, run fx_model fuel pre_init (program l) = Some st /\
             spec fx_spec fuel (program l) = Some (flatten (render fx_model st)).
Definition refutes (fx_model fx_spec : fixes) (l : list cmd) : Prop :=
  exists st, run fx_model 100 pre_init (program l) = Some st /\
             spec fx_spec 100 (program l) <> Some (flatten (render fx_model st)).

Local Open Scope string_scope.
Ltac refute := eexists; split; [vm_compute; reflexivity | vm_compute; let H := fresh in (intro H; discriminate H)].
Ltac holds := eexists; split; [vm_compute; reflexivity | vm_compute; reflexivity].

(* [cur] with exactly one more switch on: what the document would have to show
   if only that deviation were repaired *)
Definition cur_ellipse : fixes := mkFx true true true (fx_gridn_bound cur) false false false.
Definition cur_text : fixes := mkFx false true true (fx_gridn_bound cur) true false false.
Definition cur_baseline : fixes := mkFx false true true (fx_gridn_bound cur) false true false.
Definition cur_family : fixes := mkFx false true true (fx_gridn_bound cur) false false true.
(* the code with the unit <= 0 check but without the bound (HEAD until the bound lands) *)
Definition unbounded : fixes := mkFx false true true false false false false.

(* [cur] says of the gridn bound what the translator found in the source *)
Example C19_cur_mirrors_source : fx_gridn_bound cur = grid_bound_in_source.
Proof. reflexivity. Qed.

(* remaining deviation 5 (finding gridn-tiny-unit-does-not-terminate) — `gridn 0.00000000000000001 "red"`:
   accepted by the check unit <= 0, and the loop stalls (theorem above with the
   exact literal; here the decimal one); the bound rejects it, as it rejects NaN *)
Example C19_refuted_gridn_tiny_unit :
  wrapper_accepts unbounded (CGridn 1e-17 (s_ "red")) = true /\
  float_of_bits 4352464011485697175%Z = 1e-17%float /\
  fadd 1 (tx 1e-17) = 1%float /\ old_loop 2000 1e-17 = None /\
  wrapper_accepts all (CGridn 1e-17 (s_ "red")) = false /\
  wrapper_accepts all (CGridn nan (s_ "red")) = false /\
  wrapper_accepts all (CGridn 0.01 (s_ "red")) = true.
Proof. vm_compute. repeat split; reflexivity. Qed.

(* remaining deviation 1 — `ellipse 50 20 10`: cy = 200 instead of 800 *)
Definition second_cy (o : option (list fshape)) : float :=
  match o with Some (_ :: (GEllipse _ y _ _ _, _, _) :: _) => y | _ => 0%float end.
Example C19_refuted_ellipse_cy_not_flipped :
  refutes cur cur_ellipse [CEllipse 50 20 10 10 0] /\ guard cur 100 pre_init (program [CEllipse 50 20 10 10 0]) = true.
Proof.
  split; [|vm_compute; reflexivity].
  eexists; split; [vm_compute; reflexivity|]. intro H.
  apply (f_equal second_cy) in H. apply (f_equal (fun x => PrimFloat.eqb x 800)) in H.
  vm_compute in H. discriminate H.
Qed.

(* remaining deviation 2 — `stroke "blue"` / `fill "red"` / `text "x"`: filled and stroked blue *)
Example C19_refuted_text_painted_with_stroke_colour :
  refutes cur cur_text [CStroke (s_ "blue"); CFill (s_ "red"); CText (s_ "x")].
Proof. refute. Qed.
(* … and its guard clause: `stroke ""` / `fill "red"` / `text "x"`, the text pushed alone *)
Example C19_refuted_lone_text_stroke_unset :
  refutes cur cur [CStroke []; CFill (s_ "red"); CText (s_ "x")] /\
  guard cur 100 pre_init (program [CStroke []; CFill (s_ "red"); CText (s_ "x")]) = false.
Proof. split; [refute | vm_compute; reflexivity]. Qed.

(* remaining deviation 3 — `font {baseline:"top"}` / `text "x"`: dominant-baseline="top" *)
Example C19_refuted_font_baseline_not_mapped :
  refutes cur cur_baseline [CFont (mkFP None None None None (Some (s_ "top")) None None); CText (s_ "x")].
Proof. refute. Qed.

(* remaining deviation 4 — `text "x"`: no font-family anywhere *)
Example C19_refuted_default_font_family_not_written :
  refutes cur cur_family [CText (s_ "x")].
Proof. refute. Qed.

(* ---------- regression lemmas for the repaired defects ---------- *)
(* `color "red"` / `clear "blue"` / `width 2` / `circle 1`: before 7a67899 the lone clear was written fill="red" *)
Example C19_lone_clear_before_fix :
  refutes none none [CColor (s_ "red"); CClear (s_ "blue"); CWidth 2; CCircle 1] /\
  shows cur cur 100 [CColor (s_ "red"); CClear (s_ "blue"); CWidth 2; CCircle 1].
Proof. split; [refute | holds]. Qed.

(* `width 0.1` / `clear "blue"`: value equal to the default, pointer not: all attributes were wiped *)
Example C19_lone_clear_after_width_before_fix :
  refutes none none [CWidth 0.1; CClear (s_ "blue")] /\ shows cur cur 100 [CWidth 0.1; CClear (s_ "blue")].
Proof. split; [refute | holds]. Qed.

(* `color "red"` / `gridn 50 "green"` / `color "blue"` *)
Example C19_lone_grid_before_fix :
  refutes none none [CColor (s_ "red"); CGridn 50 (s_ "green"); CColor (s_ "blue")] /\
  shows cur cur 100 [CColor (s_ "red"); CGridn 50 (s_ "green"); CColor (s_ "blue")].
Proof. split; [refute | holds]. Qed.

(* `circle 1` / `gridn 0 "red"` / `circle 2`: with the check in force only the first circle reaches the platform *)
Example C19_gridn_zero_rejected :
  effective cur [CCircle 1; CGridn 0 (s_ "red"); CCircle 2] = [CCircle 1] /\
  rejected cur [CCircle 1; CGridn 0 (s_ "red"); CCircle 2] = true /\
  effective none [CCircle 1; CGridn 0 (s_ "red"); CCircle 2] = [CCircle 1; CGridn 0 (s_ "red"); CCircle 2].
Proof. vm_compute. repeat split; reflexivity. Qed.

(* ---------- non-vacuity ---------- *)
Definition sample : list cmd :=
  [CMove 20 0; CRect 10 30; CColor (s_ "red"); CCircle 10; CGridn 50 (s_ "gray");
   CWidth 2; CDash [5%float; 3%float]; CLine 50 50; CPoly [(10%float, 20%float); (30%float, 40%float)];
   CFill (s_ "none"); CFont (mkFP (Some (s_ "serif")) (Some 4%float) None None None (Some (s_ "center")) None);
   CClear (s_ "blue"); CRect 1 1; CStroke (s_ "blue"); CText (s_ "<b>&")].

Example C19_ex_hypotheses :
  guard cur 100 pre_init (program sample) = true /\ shows cur cur 100 sample /\
  (exists out, spec cur 100 (program sample) = Some out /\ List.length out = 14%nat).
Proof.
  split; [vm_compute; reflexivity|].
  split; (eexists; split; [vm_compute; reflexivity | vm_compute; reflexivity]).
Qed.

Example C19_ex_fixed : shows all all 100 sample.
Proof. holds. Qed.

Example C19_ex_before_fix_hypotheses : guard none 100 pre_init (program sample) = true /\ shows none none 100 sample.
Proof. split; [vm_compute; reflexivity | holds]. Qed.

Example C19_ex_guarded_hypotheses :
  let l := [CMove 20 0; CRect 10 30; CColor (s_ "red"); CClear (s_ "blue"); CWidth 2; CGridn 50 (s_ "gray"); CStroke (s_ "x"); CLine 1 1] in
  forallb no_dev l = true /\ shows cur (intended (fx_gridn_bound cur)) 100 l.
Proof. split; [vm_compute; reflexivity | holds]. Qed.

(* the measure hypothesis is satisfiable: gridn (0/0) and gridn (1/0) *)
Example C19_ex_gridn_nan_terminates : exists fuel l, old_loop fuel nan = Some l.
Proof.
  apply (gridn_terminates_if_measure nan (fun x => if PrimFloat.leb x grid_bound then 1 else 0)%nat).
  exact nan_measure.
Qed.
Example C19_ex_gridn_infinity_terminates : exists fuel l, old_loop fuel infinity = Some l.
Proof.
  apply (gridn_terminates_if_measure infinity (fun x => if PrimFloat.leb x grid_bound then 1 else 0)%nat).
  exact infinity_measure.
Qed.

(* bounded facts: both loops draw the same 22 lines for the default grid; the
   smallest accepted unit 0.01 draws 20002 lines, within the bound 2 * 10001 *)
Example C19_ex_grid_default :
  (exists l, old_loop 102 10 = Some l /\ List.length l = 22%nat /\ grid_lines all 0 10 = Some l) /\
  (exists l, grid_lines all 0 0.01 = Some l /\ Z.of_nat (List.length l) = 20002%Z).
Proof.
  split.
  - eexists; split; [vm_compute; reflexivity | split; vm_compute; reflexivity].
  - eexists; split; [vm_compute; reflexivity | vm_compute; reflexivity].
Qed.
