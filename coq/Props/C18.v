(* C18 — `evy fmt` never damages a source file and --check tells the truth.
   Property theorems only; every proof is [exact <lemma of FmtCmdProofs>].

   All theorems quantify over: the formatter (fmt1 : parse + format of one evy
   source, None = does not parse; parts/join : how a file is split into evy
   sources and put together again — identity for x.evy, txtar for x.txtar),
   the initial file system, the target and temp paths, EVERY schedule of call
   outcomes (any number of failing or short reads/writes/closes/renames…, not
   only single failures) and EVERY kill point. *)
From Coq Require Import ZArith NArith List.
From EvyV Require Import Base FmtCmd FmtCmdProofs.
Import ListNotations.

(* the run never ends by exhausting the model's fuel (termination of the read and write loops) *)
Theorem C18_run_never_out_of_fuel : forall fmt1 parts join v c target tmp fs sched kill,
  r_status (run fmt1 parts join v c target tmp fs sched kill) <> OutOfFuel.
Proof. exact run_no_fuel. Qed.
Print Assumptions C18_run_never_out_of_fuel.

(* fmt -w (protocol in force and the one before the fix alike): in every reachable final state the target holds what it
   held before (bytes AND mode) or the complete formatted text; and exit status 0
   implies the latter *)
Theorem C18_fmt_w_atomic : forall fmt1 parts join v target tmp fs sched kill,
  let r := run fmt1 parts join v CmdWrite target tmp fs sched kill in
  (files (r_fs r) target = files fs target \/
   exists f0 out m, files fs target = Some f0 /\ fmt_all fmt1 parts join (f_data f0) = Some out /\
                    files (r_fs r) target = Some {| f_data := out; f_mode := m |}) /\
  (r_status r = Exit 0 ->
   exists f0 out m, files fs target = Some f0 /\ fmt_all fmt1 parts join (f_data f0) = Some out /\
                    files (r_fs r) target = Some {| f_data := out; f_mode := m |}).
Proof. exact fmt_w_atomic. Qed.
Print Assumptions C18_fmt_w_atomic.

(* what may remain after a kill or a failure: every other path is untouched, except
   the temp path, which did not exist before and holds a prefix of the formatted text *)
Theorem C18_fmt_w_leftover_only_temp : forall fmt1 parts join v target tmp fs sched kill q,
  let r := run fmt1 parts join v CmdWrite target tmp fs sched kill in
  q <> target ->
  files (r_fs r) q = files fs q \/
  (q = tmp /\ files fs tmp = None /\
   exists f0 out f rest, files fs target = Some f0 /\ fmt_all fmt1 parts join (f_data f0) = Some out /\
                         files (r_fs r) tmp = Some f /\ out = f_data f ++ rest).
Proof. exact fmt_w_leftover. Qed.
Print Assumptions C18_fmt_w_leftover_only_temp.

(* permission bits are preserved — unguarded, for the protocol in force (main.go since
   commit c62275b: stat; fchmod the temp file to the target's bits before the rename) *)
Theorem C18_fmt_w_mode_preserved : forall fmt1 parts join target tmp fs sched kill f,
  files (r_fs (run fmt1 parts join Current CmdWrite target tmp fs sched kill)) target = Some f ->
  exists f0, files fs target = Some f0 /\ f_mode f = f_mode f0.
Proof. exact fmt_w_mode_preserved. Qed.
Print Assumptions C18_fmt_w_mode_preserved.

(* the protocol in force cleans up: when the process has exited (was not killed), the temp path
   holds what it held before (nothing, if the temp file had been created), unless the clean-up
   unlink itself failed *)
Theorem C18_fmt_w_no_temp_left : forall fmt1 parts join target tmp fs sched kill n,
  let r := run fmt1 parts join Current CmdWrite target tmp fs sched kill in
  r_status r = Exit n ->
  files (r_fs r) tmp = files fs tmp \/ exists e, In (CUnlink tmp, RErr e) (r_trace r).
Proof. exact fmt_w_no_temp_left. Qed.
Print Assumptions C18_fmt_w_no_temp_left.

(* ---- regression lemmas about the protocol before the fix (write_atomically_before_fix) ---- *)
(* it did NOT preserve the mode: a 0644 file ends with 0600 ... *)
Theorem C18_fmt_w_mode_preserved_before_fix_refuted :
  exists fs target tmp sched kill f0 f,
    files fs target = Some f0 /\
    files (r_fs (run (fun b => Some b) evy_parts evy_join BeforeFix CmdWrite target tmp fs sched kill)) target = Some f /\
    f_mode f <> f_mode f0.
Proof.
  exists {| files := fun q => if str_eqb q [97; 46; 101; 118; 121]%N
                              then Some {| f_data := [120; 10]%N; f_mode := 420 |} else None;
            dirw := true |}.
  exists [97; 46; 101; 118; 121]%N, [101; 118; 121; 49]%N, [], 100%nat.
  exists {| f_data := [120; 10]%N; f_mode := 420 |}, {| f_data := [120; 10]%N; f_mode := 384 |}.
  vm_compute. repeat split; try reflexivity. discriminate.
Qed.
Print Assumptions C18_fmt_w_mode_preserved_before_fix_refuted.

(* ... in fact every successful run of it left mode 0600 ... *)
Theorem C18_fmt_w_before_fix_success_sets_0600 : forall fmt1 parts join target tmp fs sched kill,
  let r := run fmt1 parts join BeforeFix CmdWrite target tmp fs sched kill in
  r_status r = Exit 0 -> exists f, files (r_fs r) target = Some f /\ f_mode f = mode0600.
Proof. exact fmt_w_before_fix_success_mode. Qed.
Print Assumptions C18_fmt_w_before_fix_success_sets_0600.

(* ... and preserved it only under the guard "it was 0600 already" *)
Theorem C18_fmt_w_mode_preserved_before_fix_partial : forall fmt1 parts join target tmp fs sched kill f f0,
  files fs target = Some f0 -> f_mode f0 = mode0600 ->
  files (r_fs (run fmt1 parts join BeforeFix CmdWrite target tmp fs sched kill)) target = Some f ->
  f_mode f = f_mode f0.
Proof. exact fmt_w_mode_preserved_before_fix_guarded. Qed.
Print Assumptions C18_fmt_w_mode_preserved_before_fix_partial.

(* a file that does not parse: the only system calls are the reads of the target
   (open/fstat/read/close), the file system is unchanged, the status is not 0 —
   for -w, -c and plain fmt alike *)
Theorem C18_unparsable_untouched : forall fmt1 parts join v c target tmp fs sched kill f0,
  files fs target = Some f0 -> fmt_all fmt1 parts join (f_data f0) = None ->
  let r := run fmt1 parts join v c target tmp fs sched kill in
  r_fs r = fs /\ Forall (fun e => is_read_call target (fst e)) (r_trace r) /\ r_status r <> Exit 0.
Proof. exact unparsable_untouched. Qed.
Print Assumptions C18_unparsable_untouched.

(* fmt -c performs no write under any schedule, and status 0 is never a lie *)
Theorem C18_check_no_write_and_sound : forall fmt1 parts join v target tmp fs sched kill,
  let r := run fmt1 parts join v CmdCheck target tmp fs sched kill in
  r_fs r = fs /\ Forall (fun e => is_read_call target (fst e)) (r_trace r) /\
  (r_status r = Exit 0 -> exists f0, files fs target = Some f0 /\ check_ok fmt1 parts (f_data f0) = true).
Proof. exact check_no_write. Qed.
Print Assumptions C18_check_no_write_and_sound.

(* without faults the status is 0 exactly for formatted input ... *)
Theorem C18_check_truth : forall fmt1 parts join v target tmp fs k f0,
  files fs target = Some f0 ->
  r_status (run fmt1 parts join v CmdCheck target tmp fs [] (5 + k)) =
  if check_ok fmt1 parts (f_data f0) then Exit 0 else Exit 1.
Proof. exact check_truth_nofault. Qed.
Print Assumptions C18_check_truth.

(* ... where, for a plain .evy file, "formatted" is  src = format src *)
Theorem C18_check_ok_is_fixpoint_of_format : forall fmt1 src,
  check_ok fmt1 evy_parts src = true <-> fmt_all fmt1 evy_parts evy_join src = Some src.
Proof. exact evy_check_ok_iff. Qed.
Print Assumptions C18_check_ok_is_fixpoint_of_format.

(* ---------- several files in one invocation: evy fmt -c|-w f1 … fn ---------- *)
(* fmt -c f1 … fn: no write under any schedule; only reads of listed files; status 0 is never a
   lie about ANY of the files *)
Theorem C18_check_multi_no_write_and_sound : forall fmt1 parts join v fl fs sched kill,
  let r := run_files fmt1 parts join v CmdCheck fl fs sched kill in
  r_fs r = fs /\
  Forall (fun e => exists t, In t (map fst fl) /\ is_read_call t (fst e)) (r_trace r) /\
  (r_status r = Exit 0 ->
   Forall (fun t => exists f0, files fs t = Some f0 /\ check_ok fmt1 parts (f_data f0) = true) (map fst fl)).
Proof. exact check_multi_no_write. Qed.
Print Assumptions C18_check_multi_no_write_and_sound.

(* without faults: status 0 iff EVERY file is formatted (whatever the order of the files) *)
Theorem C18_check_truth_multi : forall fmt1 parts join v fl fs k,
  (forall t, In t (map fst fl) -> files fs t <> None) ->
  r_status (run_files fmt1 parts join v CmdCheck fl fs [] (5 * List.length fl + k)) =
  if all_ok fmt1 parts fs fl then Exit 0 else Exit 1.
Proof. exact check_truth_multi. Qed.
Print Assumptions C18_check_truth_multi.

(* fmt -w f1 … fn (distinct targets, temp names that are not targets): under every schedule and
   kill point a prefix of the targets holds the complete formatted text (with the protocol's final
   mode), at most one target is "old or formatted", every later target and every other path that
   is not a temp name is untouched; status 0 implies all are formatted *)
Theorem C18_fmt_w_multi_atomic : forall fmt1 parts join v fl fs sched kill,
  NoDup (map fst fl) -> (forall p, In p fl -> ~ In (snd p) (map fst fl)) ->
  let r := run_files fmt1 parts join v CmdWrite fl fs sched kill in
  progress fmt1 parts join v fs (r_fs r) (map fst fl) /\ frame fl fs (r_fs r) /\
  (r_status r = Exit 0 -> Forall (formatted_to fmt1 parts join v fs (r_fs r)) (map fst fl)) /\
  r_status r <> OutOfFuel.
Proof. exact fmt_w_multi_atomic. Qed.
Print Assumptions C18_fmt_w_multi_atomic.

(* read pointwise: each target independently holds its old entry or the formatted text *)
Theorem C18_fmt_w_multi_each : forall fmt1 parts join v fs fs' ts t,
  progress fmt1 parts join v fs fs' ts -> In t ts ->
  files fs' t = files fs t \/ formatted_to fmt1 parts join v fs fs' t.
Proof. exact progress_each. Qed.
Print Assumptions C18_fmt_w_multi_each.

(* an unparsable file among several: it and every file after it are untouched *)
Theorem C18_multi_unparsable_untouched : forall fmt1 parts join v fs fs' pre t post f0,
  progress fmt1 parts join v fs fs' (pre ++ t :: post) ->
  files fs t = Some f0 -> fmt_all fmt1 parts join (f_data f0) = None ->
  files fs' t = files fs t /\ forall t', In t' post -> files fs' t' = files fs t'.
Proof. exact progress_unparsable. Qed.
Print Assumptions C18_multi_unparsable_untouched.

(* stdin mode (no files): -w is refused; -c exits 0 iff stdin = format stdin; plain fmt exits 0 iff
   stdin parses and then prints exactly the formatted text *)
Theorem C18_stdin_truth : forall fmt1 c input,
  (fst (fmt_stdin fmt1 c input) = Exit 0 <->
   match c with
   | CmdWrite => False
   | CmdCheck => fmt1 input = Some input
   | CmdPlain => fmt1 input <> None
   end) /\
  (c = CmdPlain -> forall o, fmt1 input = Some o -> snd (fmt_stdin fmt1 c input) = o).
Proof. intro fmt1. exact (stdin_truth fmt1 (fun _ => []) (fun _ _ => [])). Qed.
Print Assumptions C18_stdin_truth.

(* ---------- non-vacuity: concrete runs ---------- *)
Definition ex_target : path := [97; 46; 101; 118; 121]%N.          (* a.evy *)
Definition ex_tmp : path := [101; 118; 121; 49]%N.                  (* evy1 *)
Definition ex_fs (d : bytes) : fsys :=
  {| files := fun q => if str_eqb q ex_target then Some {| f_data := d; f_mode := 420 |} else None; dirw := true |}.
(* a toy formatter: drops every space (32); input containing 63 '?' does not parse *)
Definition ex_fmt (b : bytes) : option bytes :=
  if existsb (N.eqb 63) b then None else Some (filter (fun c => negb (N.eqb c 32)) b).

(* killed during the write after a short write of 1 byte: target intact, temp holds a 1-byte prefix *)
Example C18_ex_kill_mid_write :
  let r := run ex_fmt evy_parts evy_join Current CmdWrite ex_target ex_tmp (ex_fs [120; 32; 121; 10]%N)
               [OOk; OOk; OOk; OOk; OOk; OOk; OOk; OCount 1] 8 in
  files (r_fs r) ex_target = Some {| f_data := [120; 32; 121; 10]%N; f_mode := 420 |} /\
  files (r_fs r) ex_tmp = Some {| f_data := [120]%N; f_mode := 384 |} /\ r_status r = Killed.
Proof. vm_compute. repeat split; reflexivity. Qed.

(* before the fix: ENOSPC from the second write after a short first one: exit 1, target intact, temp file left behind *)
Example C18_ex_enospc_before_fix :
  let r := run ex_fmt evy_parts evy_join BeforeFix CmdWrite ex_target ex_tmp (ex_fs [120; 32; 121; 10]%N)
               [OOk; OOk; OOk; OOk; OOk; OOk; OCount 2; OErr ENOSPC] 100 in
  files (r_fs r) ex_target = Some {| f_data := [120; 32; 121; 10]%N; f_mode := 420 |} /\
  files (r_fs r) ex_tmp = Some {| f_data := [120; 121]%N; f_mode := 384 |} /\ r_status r = Exit 1.
Proof. vm_compute. repeat split; reflexivity. Qed.

(* the same under the protocol in force: temp file removed *)
Example C18_ex_enospc :
  let r := run ex_fmt evy_parts evy_join Current CmdWrite ex_target ex_tmp (ex_fs [120; 32; 121; 10]%N)
               [OOk; OOk; OOk; OOk; OOk; OOk; OOk; OCount 2; OErr ENOSPC] 100 in
  files (r_fs r) ex_target = Some {| f_data := [120; 32; 121; 10]%N; f_mode := 420 |} /\
  files (r_fs r) ex_tmp = None /\ r_status r = Exit 1.
Proof. vm_compute. repeat split; reflexivity. Qed.

(* fault-free: formatted text; mode 0600 before the fix, 0644 kept now *)
Example C18_ex_success :
  files (r_fs (run ex_fmt evy_parts evy_join BeforeFix CmdWrite ex_target ex_tmp (ex_fs [120; 32; 121; 10]%N) [] 100)) ex_target
    = Some {| f_data := [120; 121; 10]%N; f_mode := 384 |} /\
  files (r_fs (run ex_fmt evy_parts evy_join Current CmdWrite ex_target ex_tmp (ex_fs [120; 32; 121; 10]%N) [] 100)) ex_target
    = Some {| f_data := [120; 121; 10]%N; f_mode := 420 |}.
Proof. vm_compute. split; reflexivity. Qed.

(* unparsable: five read calls, exit 1 *)
Example C18_ex_unparsable :
  let r := run ex_fmt evy_parts evy_join Current CmdWrite ex_target ex_tmp (ex_fs [63; 10]%N) [] 100 in
  List.length (r_trace r) = 5%nat /\ r_status r = Exit 1 /\ fmt_all ex_fmt evy_parts evy_join [63; 10]%N = None.
Proof. vm_compute. repeat split; reflexivity. Qed.

(* check mode: 0 for formatted, 1 for unformatted *)
Example C18_ex_check :
  r_status (run ex_fmt evy_parts evy_join Current CmdCheck ex_target ex_tmp (ex_fs [120; 121; 10]%N) [] 100) = Exit 0 /\
  r_status (run ex_fmt evy_parts evy_join Current CmdCheck ex_target ex_tmp (ex_fs [120; 32; 121; 10]%N) [] 100) = Exit 1.
Proof. vm_compute. split; reflexivity. Qed.

(* regression: before the fix an ENOSPC left the temp file behind although the process exited normally *)
Theorem C18_fmt_w_no_temp_left_before_fix_refuted :
  exists sched kill,
    let r := run ex_fmt evy_parts evy_join BeforeFix CmdWrite ex_target ex_tmp (ex_fs [120; 32; 121; 10]%N) sched kill in
    r_status r = Exit 1 /\ files (ex_fs [120; 32; 121; 10]%N) ex_tmp = None /\ files (r_fs r) ex_tmp <> None /\
    forall e, ~ In (CUnlink ex_tmp, RErr e) (r_trace r).
Proof.
  exists [OOk; OOk; OOk; OOk; OOk; OOk; OCount 2; OErr ENOSPC], 100%nat.
  vm_compute. repeat split; try discriminate.
  intros e H. repeat (destruct H as [H|H]; [discriminate|]). exact H.
Qed.
Print Assumptions C18_fmt_w_no_temp_left_before_fix_refuted.

(* two files, the unformatted one FIRST: check must say 1 (the order must not matter) *)
Definition ex_t2 : path := [98; 46; 101; 118; 121]%N.                  (* b.evy *)
Definition ex_fs2 (d1 d2 : bytes) : fsys :=
  {| files := fun q => if str_eqb q ex_target then Some {| f_data := d1; f_mode := 420 |}
                       else if str_eqb q ex_t2 then Some {| f_data := d2; f_mode := 384 |} else None;
     dirw := true |}.
Example C18_ex_check_two_files :
  r_status (run_files ex_fmt evy_parts evy_join Current CmdCheck [(ex_target, ex_tmp); (ex_t2, ex_tmp)]
              (ex_fs2 [120; 32; 121; 10]%N [120; 10]%N) [] 100) = Exit 1 /\
  r_status (run_files ex_fmt evy_parts evy_join Current CmdCheck [(ex_target, ex_tmp); (ex_t2, ex_tmp)]
              (ex_fs2 [120; 10]%N [120; 32; 121; 10]%N) [] 100) = Exit 1 /\
  r_status (run_files ex_fmt evy_parts evy_join Current CmdCheck [(ex_target, ex_tmp); (ex_t2, ex_tmp)]
              (ex_fs2 [120; 10]%N [121; 10]%N) [] 100) = Exit 0.
Proof. vm_compute. repeat split; reflexivity. Qed.

(* -w over [unparsable; unformatted]: exit 1 and the second file is not touched *)
Example C18_ex_write_two_files :
  let r := run_files ex_fmt evy_parts evy_join Current CmdWrite [(ex_target, ex_tmp); (ex_t2, ex_tmp)]
             (ex_fs2 [63; 10]%N [120; 32; 121; 10]%N) [] 100 in
  r_status r = Exit 1 /\ files (r_fs r) ex_t2 = Some {| f_data := [120; 32; 121; 10]%N; f_mode := 384 |}.
Proof. vm_compute. split; reflexivity. Qed.

(* the formatter is a function of the BYTES: with a formatter that rejects byte 13 (CR, as evy's
   lexer does), a file that is formatted except for CRLF line endings is NOT reported as formatted
   and is left untouched by -w *)
Definition ex_fmt_cr (b : bytes) : option bytes :=
  if existsb (N.eqb 13) b then None else Some (filter (fun c => negb (N.eqb c 32)) b).
Example C18_ex_crlf :
  let crlf := [120; 13; 10]%N in
  r_status (run ex_fmt_cr evy_parts evy_join Current CmdCheck ex_target ex_tmp (ex_fs crlf) [] 100) = Exit 1 /\
  (let r := run ex_fmt_cr evy_parts evy_join Current CmdWrite ex_target ex_tmp (ex_fs crlf) [] 100 in
   r_status r = Exit 1 /\ files (r_fs r) ex_target = Some {| f_data := crlf; f_mode := 420 |} /\
   List.length (r_trace r) = 5%nat) /\
  fst (fmt_stdin ex_fmt_cr CmdCheck crlf) = Exit 1.
Proof. vm_compute. repeat split; reflexivity. Qed.
