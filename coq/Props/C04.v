(* C04 — Static typing rules are exactly those of the specification.
   Property theorems only; every proof is [exact <lemma>].  The model is
   Types.v (pkg/parser/type.go, ast.go: wrapAny, expression.go, parser.go), the
   specification TypesSpec.v (docs/spec.md prose).  [erase] drops the Fixed
   flags; [spec_ty] excludes the parser-internal NONE/GENERIC shapes;
   [pure_ty] = the value kinds the specification names: constants and empty
   literals (no Fixed flag) and variables (Fixed at the top, no empty leaf). *)
From Coq Require Import List Bool String.
From EvyV Require Import Base TypesSyntax Types TypesOld TypesSpec TypesSpecProofs TypesProofs TypesBuiltin TypesBuiltinProofs.
Import ListNotations.

(* assignability, all types at any depth *)
Theorem C04_accepts_iff_assignable : forall t t2,
  spec_ty t = true -> pure_ty t2 = true ->
  (accepts t t2 = true <-> Assignable (kind_of t2) (erase t) (erase t2)).
Proof. exact accepts_iff_assignable. Qed.
Print Assumptions C04_accepts_iff_assignable.

(* a literal directly containing a composite variable is "treated like a variable" *)
Theorem C04_accepts_literal_of_variable : forall t f s,
  spec_ty t = true -> var_ty s = true ->
  (accepts t (TArr f s) = true <-> Assignable KVar (erase t) (erase (TArr f s))) /\
  (accepts t (TMap f s) = true <-> Assignable KVar (erase t) (erase (TMap f s))).
Proof. exact accepts_literal_of_variable. Qed.
Print Assumptions C04_accepts_literal_of_variable.

(* … but not one level deeper: REFUTED (witness  t:[]any ; t = [{k:x}]  with x:[]num) *)
Theorem C04_accepts_nested_variable_refuted :
  exists t t2, spec_ty t = true /\ spec_ty t2 = true /\ has_empty t2 = false /\
    kind_of t2 = KVar /\ accepts t t2 = true /\ ~ Assignable (kind_of t2) (erase t) (erase t2).
Proof. exact accepts_nested_variable_refuted. Qed.
Print Assumptions C04_accepts_nested_variable_refuted.

(* operand compatibility *)
Theorem C04_matches_iff_operand_compatible : forall l r,
  spec_ty l = true -> spec_ty r = true ->
  (matches l r = true <-> exists u, Unify (erase l) (erase r) u).
Proof. exact matches_iff_operand_compatible. Qed.
Print Assumptions C04_matches_iff_operand_compatible.

(* operator table: acceptance … *)
Theorem C04_binop_accept_iff : forall op lt rt,
  spec_ty lt = true -> spec_ty rt = true ->
  (validate_binary op lt rt = true <-> exists r, OpType op (erase lt) (erase rt) r).
Proof. exact binop_accept_iff. Qed.
Print Assumptions C04_binop_accept_iff.

(* … and result type, [] * n included (left operand: the empty array literal, or no untyped empty leaf) *)
Theorem C04_binop_result_type : forall op lt rt,
  spec_ty lt = true -> spec_ty rt = true -> validate_binary op lt rt = true ->
  (has_empty lt = false \/ lt = TEmptyArr) ->
  OpType op (erase lt) (erase rt) (erase (binary_node_type op lt rt)).
Proof. exact binop_result_type. Qed.
Print Assumptions C04_binop_result_type.

(* regression, about parseBinaryExpr before commit f8788c6 *)
Theorem C04_binop_result_type_before_fix_refuted :
  exists op lt rt, spec_ty lt = true /\ spec_ty rt = true /\ validate_binary op lt rt = true /\
    ~ OpType op (erase lt) (erase rt) (erase (binary_node_type_old op lt rt)).
Proof. exact binop_result_type_before_fix_refuted. Qed.
Print Assumptions C04_binop_result_type_before_fix_refuted.

Theorem C04_unop_type_table : forall op t,
  spec_ty t = true -> (validate_unary op t = true <-> UnOpType op (erase t) (erase t)).
Proof. exact unop_type_table. Qed.
Print Assumptions C04_unop_type_table.

(* index / slice / dot / type assertion *)
Theorem C04_index_rule : forall lt it s,
  spec_ty lt = true -> spec_ty it = true -> is_empty lt = false ->
  (IndexType (erase lt) (erase it) s <-> exists t, index_type lt it = Some t /\ erase t = s).
Proof. exact index_rule. Qed.
Print Assumptions C04_index_rule.

Theorem C04_slice_rule : forall lt st et,
  spec_ty lt = true ->
  slice_type lt st et =
    if bound_ok st && bound_ok et && is_array_b (erase lt) || bound_ok st && bound_ok et && sty_eqb (erase lt) SString
    then Some lt else None.
Proof. exact slice_rule. Qed.
Print Assumptions C04_slice_rule.

Theorem C04_dot_rule : forall lt s,
  spec_ty lt = true -> is_empty lt = false ->
  (DotType (erase lt) s <-> exists t, dot_type lt = Some t /\ erase t = s).
Proof. exact dot_rule. Qed.
Print Assumptions C04_dot_rule.

Theorem C04_assert_rule : forall lt s,
  spec_ty lt = true -> closed s = true ->
  (validate_assert lt (embed s) = true <-> AssertOk (erase lt) s).
Proof. exact assert_rule. Qed.
Print Assumptions C04_assert_rule.

(* assignment targets (spec.md "Assignments"): a variable, an indexed array, a map field — for all root
   types and all chains; never a character of a string, a slice or a type assertion; no panic *)
Theorem C04_target_ok_iff : forall ks t,
  spec_ty t = true -> has_empty t = false -> forallb spec_step ks = true ->
  forall s, (TargetChain (erase t) (map erase_step ks) s <->
             exists T, target_chain t ks = Some (Some T) /\ erase T = s).
Proof. exact target_ok_iff. Qed.
Print Assumptions C04_target_ok_iff.

Theorem C04_target_chain_no_crash : forall ks t,
  spec_ty t = true -> has_empty t = false -> forallb spec_step ks = true -> target_chain t ks <> None.
Proof. exact target_chain_no_crash. Qed.
Print Assumptions C04_target_chain_no_crash.

Theorem C04_target_string_char_rejected : forall ks t it rest,
  spec_ty t = true -> has_empty t = false -> forallb spec_step ks = true ->
  target_chain t ks = Some (Some TString) -> target_chain t (ks ++ KIdx it :: rest) = Some None.
Proof. exact target_string_char_rejected. Qed.
Print Assumptions C04_target_string_char_rejected.

(* inference replaces exactly the empty leaves by any and keeps the Fixed flags *)
Theorem C04_infer_spec : forall t, spec_ty t = true ->
  exists t', infer t = Some t' /\ Defaults (erase t) (erase t') /\
             spec_ty t' = true /\ has_empty t' = false /\
             fixed t' = fixed t /\ has_fixed t' = has_fixed t.
Proof. exact infer_spec. Qed.
Print Assumptions C04_infer_spec.

(* strictest common type: variables, constants and empty literals, any number, any types, any depth *)
Theorem C04_combine_strictest : forall ts,
  ts <> [] -> Forall (fun t => pure_ty t = true) ts ->
  exists r, combine ts = Some r /\ pure_ty r = true /\ Strictest (map abs ts) (erase r).
Proof. exact combine_strictest. Qed.
Print Assumptions C04_combine_strictest.

(* every element is accepted by the element type (what wrapAny relies on) *)
Theorem C04_combine_upper_bound : forall ts r,
  Forall (fun t => pure_ty t = true) ts -> combine ts = Some r ->
  forall t, In t ts -> accepts r t = true.
Proof. exact combine_upper_bound. Qed.
Print Assumptions C04_combine_upper_bound.

(* independent of the order of the elements *)
Theorem C04_combine_perm : forall ts ts' r r',
  (forall t, In t ts <-> In t ts') ->
  Forall (fun t => pure_ty t = true) ts -> Forall (fun t => pure_ty t = true) ts' ->
  combine ts = Some r -> combine ts' = Some r' -> erase r = erase r'.
Proof. exact combine_perm. Qed.
Print Assumptions C04_combine_perm.

(* regression, about combineTypes before commit 0e214ac *)
Theorem C04_combine_strictest_before_fix_refuted :
  exists ts r, Forall (fun t => pure_ty t = true) ts /\ combine_old ts = Some r /\
    exists t, In t ts /\ accepts r t = false.
Proof. exact combine_strictest_before_fix_refuted. Qed.
Print Assumptions C04_combine_strictest_before_fix_refuted.

Theorem C04_combine_perm_before_fix_refuted :
  exists ts ts' r r', (forall t, In t ts <-> In t ts') /\
    Forall (fun t => pure_ty t = true) ts /\
    combine_old ts = Some r /\ combine_old ts' = Some r' /\ erase r <> erase r'.
Proof. exact combine_perm_before_fix_refuted. Qed.
Print Assumptions C04_combine_perm_before_fix_refuted.

Theorem C04_combine_not_strictest_before_fix_refuted :
  exists ts r, Forall (fun t => pure_ty t = true) ts /\ combine_old ts = Some r /\
    ~ Strictest (map abs ts) (erase r).
Proof. exact combine_not_strictest_before_fix_refuted. Qed.
Print Assumptions C04_combine_not_strictest_before_fix_refuted.

(* wrapAny on HEAD 3a7bc1f: still not total — smallest remaining witness
   t:[][]string ; t = [[]]+[[1]]   (finding concat-left-biased-type) *)
Theorem C04_wrap_total_refuted :
  exists e n target, tc e = ONode n false /\ accepts target (node_type n) = true /\ wrap_any n target = None.
Proof. exact wrap_total_refuted. Qed.
Print Assumptions C04_wrap_total_refuted.

(* regression, about parseBinaryExpr before commit 6b5553c:  nums := [1] ; a:[][]any ; a = [[1]] + [nums] *)
Theorem C04_concat_inner_fixed_before_fix_refuted :
  exists lt rt target, validate_binary OpPlus lt rt = true /\ has_empty lt = false /\ has_empty rt = false /\
    accepts target (binary_node_type_pre_6b5553c OpPlus lt rt) = true /\ accepts target rt = false.
Proof. exact concat_inner_fixed_before_fix_refuted. Qed.
Print Assumptions C04_concat_inner_fixed_before_fix_refuted.

(* … and on the current tree: the node carries the variable's flag, the program is a type error *)
Theorem C04_concat_inner_fixed_now :
  binary_node_type OpPlus (TArr false (TArr false TNum)) (TArr false (TArr true TNum)) = TArr false (TArr true TNum) /\
  check (CAssign (SArr (SArr SAny))) (EBin OpPlus (EArr [EArr [ELitNum]]) (EArr [EVar (SArr SNum)])) = Reject /\
  check (CAssign (SArr SAny)) (EBin OpPlus (EArr [EArr [ELitNum]]) (EArr [EVar (SArr SNum)])) = Reject /\
  check (CAssign (SArr (SArr SNum))) (EBin OpPlus (EArr [EArr [ELitNum]]) (EArr [EVar (SArr SNum)])) =
    Accept (TArr true (TArr false TNum)) (TArr false (TArr true TNum)).
Proof. exact concat_inner_fixed_now. Qed.
Print Assumptions C04_concat_inner_fixed_now.

(* the range clause: one iterable operand, or two or three num operands (from, to, step); never four *)
Theorem C04_range_operands_ok_iff : forall ts,
  forallb spec_ty ts = true -> (range_operands_ok ts = true <-> RangeOperands (map erase ts)).
Proof. exact range_operands_ok_iff. Qed.
Print Assumptions C04_range_operands_ok_iff.

(* loop variables: typed with the element type for exactly the iterable operand types … *)
Theorem C04_range_var_spec : forall t,
  spec_ty t = true ->
  match range_elem_s (erase t) with
  | Some s => exists vt, range_var_type t = Some (Some vt) /\ erase vt = s /\ spec_ty vt = true
  | None => range_var_type t = None
  end.
Proof. exact range_var_spec. Qed.
Print Assumptions C04_range_var_spec.

(* … and as a VARIABLE: assignable to the identical type or any only *)
Theorem C04_range_var_is_variable : forall t vt,
  pure_ty t = true -> range_var_type t = Some (Some vt) ->
  (rigid vt = true /\ has_empty vt = false) /\
  (forall T, spec_ty T = true -> is_array_name vt || is_map_name vt = true ->
             (accepts T vt = true <-> Assignable KVar (erase T) (erase vt))).
Proof. exact range_var_is_variable. Qed.
Print Assumptions C04_range_var_is_variable.

(* every index / field / call / assertion / unary / variable / loop-variable / basic literal node has a rigid type … *)
Theorem C04_tc_leaf_rigid : forall e t err,
  annot_closed e = true -> tc e = ONode (NLeaf t) err -> rigid t = true /\ has_empty t = false.
Proof. exact tc_leaf_rigid. Qed.
Print Assumptions C04_tc_leaf_rigid.

(* a call result is a variable-like value whatever declares the function: for every result type that can be
   written, and so for every row of the built-in table regenerated from evaluator.BuiltinDecls() (Gen/BuiltinSigs.v,
   resolved by name in TypesBuiltin.v): the node is a rigid leaf of the result type, the specification classes it
   as a variable, and a composite result ([]string of split) is accepted by the identical type and any only *)
Theorem C04_call_result_is_variable : forall t,
  closed t = true ->
  tc (ECall t) = ONode (NLeaf (fixed_type (embed t))) false /\
  spec_tc (ECall t) = Some (KVar, t) /\
  (composite t = true -> forall T, spec_ty T = true ->
     (accepts T (fixed_type (embed t)) = true <-> Assignable KVar (erase T) t)).
Proof. exact call_result_is_variable. Qed.
Print Assumptions C04_call_result_is_variable.

Theorem C04_builtin_call_result_is_variable : forall name t,
  builtin_ret name = Some t ->
  closed t = true /\
  tc (ECall t) = ONode (NLeaf (fixed_type (embed t))) false /\
  spec_tc (ECall t) = Some (KVar, t) /\
  (composite t = true -> forall T, spec_ty T = true ->
     (accepts T (fixed_type (embed t)) = true <-> erase T = t \/ erase T = SAny)).
Proof. exact builtin_call_result_is_variable. Qed.
Print Assumptions C04_builtin_call_result_is_variable.

(* … so the former witnesses are type errors or accepted now *)
Theorem C04_wrap_former_witnesses_ok :
  check (CAssign (SArr SAny)) (ECall (SArr SNum)) = Reject /\
  check (CAssign (SArr SAny)) (EIndex (EVar (SArr (SArr SNum))) ELitNum) = Reject /\
  check CDecl (ESlice (EArr []) None None) = Accept (TArr true TAny) (TArr true TAny) /\
  check CDecl (EBin OpPlus (EMap []) ELitNum) = Reject.
Proof. exact wrap_former_witnesses_ok. Qed.
Print Assumptions C04_wrap_former_witnesses_ok.

(* the part that holds: values of rigid type (basic, any, variables, anything Fixed) *)
Theorem C04_wrap_total_rigid_partial : forall t target,
  rigid t = true -> has_empty t = false -> has_generic target = false \/ is_generic target = true ->
  accepts target t = true -> exists n', wrap_any (NLeaf t) target = Some n'.
Proof. exact wrap_total_rigid. Qed.
Print Assumptions C04_wrap_total_rigid_partial.

(* the specification's own function computes the Strictest type, which is unique *)
Theorem C04_spec_strictest_sound : forall els e, strictest els = Some e -> Strictest els (snd e).
Proof. exact strictest_is_Strictest. Qed.
Print Assumptions C04_spec_strictest_sound.

Theorem C04_spec_strictest_unique : forall els t1 t2, Strictest els t1 -> Strictest els t2 -> t1 = t2.
Proof. exact Strictest_unique. Qed.
Print Assumptions C04_spec_strictest_unique.

(* ---------- non-vacuity ---------- *)
(* []{}any accepts the constant [{a:1} {b:[1 2 {}]} {}] (type []{}any) and the
   constant [{a:1}] (type []{}num), but not a variable of type []{}num *)
Example C04_ex_assignable :
  pure_ty (TArr false (TMap false TNum)) = true /\ pure_ty (TArr true (TMap false TNum)) = true /\
  accepts (TArr true (TMap false TAny)) (TArr false (TMap false TNum)) = true /\
  accepts (TArr true (TMap false TAny)) (TArr true (TMap false TNum)) = false /\
  accepts (TArr true (TArr false TNum)) (TArr false TEmptyArr) = true.
Proof. vm_compute. repeat split; reflexivity. Qed.

Example C04_ex_combine :
  combine [TArr false TNum; TEmptyArr; TArr false TString] = Some (TArr false TAny) /\
  combine [TArr false TEmptyArr; TArr false (TArr false TNum)] = Some (TArr false (TArr false TNum)) /\
  Forall (fun t => const_ty t = true) [TArr false TNum; TEmptyArr; TArr false TString].
Proof. vm_compute. repeat split; repeat constructor. Qed.

Example C04_ex_ops :
  validate_binary OpPlus (TArr false TNum) TEmptyArr = true /\
  validate_binary OpPlus (TArr false TNum) (TArr false TString) = false /\
  validate_binary OpAsterisk (TArr true TNum) TNum = true /\
  validate_binary OpEq (TMap true TNum) TEmptyMap = true /\
  validate_binary OpLt TBool TBool = false.
Proof. vm_compute. repeat split; reflexivity. Qed.

(* the former defect witnesses on the expression-level model of the current tree *)
Example C04_ex_fixed_combine :               (* x := [1] ; arr := [[2] x ["a"]]  is now [](any) *)
  check CDecl (EArr [EArr [ELitNum]; EVar (SArr SNum); EArr [ELitStr]]) = Accept (TArr true TAny) (TArr false TAny).
Proof. vm_compute. reflexivity. Qed.

Example C04_ex_fixed_concat :                (* a:[]any ; a = [1] + [2] *)
  check (CAssign (SArr SAny)) (EBin OpPlus (EArr [ELitNum]) (EArr [ELitNum])) = Accept (TArr true TAny) (TArr true TAny).
Proof. vm_compute. reflexivity. Qed.

Example C04_ex_fixed_empty_repeat :          (* x := [] * 3  is []any *)
  check CDecl (EBin OpAsterisk (EArr []) ELitNum) = Accept (TArr true TAny) (TArr true TAny).
Proof. vm_compute. reflexivity. Qed.

(* the remaining defect: the harness replays it on the implementation *)
Example C04_ex_defect_concat_nested_empty_panics :   (* t:[][]string ; t = [[]]+[[1]] *)
  check (CAssign (SArr (SArr SString))) (EBin OpPlus (EArr [EArr []]) (EArr [EArr [ELitNum]])) = Crash.
Proof. vm_compute. reflexivity. Qed.

Example C04_ex_combine_pure_nonvacuous :
  Forall (fun t => pure_ty t = true) [TArr false TNum; TArr true TNum; TEmptyArr] /\
  combine [TArr false TNum; TArr true TNum; TEmptyArr] = Some (TArr true TNum) /\
  combine [TArr true TAny; TArr false TNum; TArr false TString] = Some (TArr true TAny) /\
  combine [TArr false TNum; TArr false TString; TArr true TAny] = Some (TArr true TAny).
Proof. vm_compute. repeat split; repeat constructor. Qed.

(* targets: people[1].name is a target of type string, people[1].name[0] is not a target *)
Example C04_ex_targets :
  target_chain (TArr true (TMap false TString)) [KIdx TNum; KDot] = Some (Some TString) /\
  target_chain (TArr true (TMap false TString)) [KIdx TNum; KDot; KIdx TNum] = Some None /\
  check (CAssignTo (SArr (SMap SString)) [TIdx ELitNum; TDot; TIdx ELitNum]) ELitStr = Reject /\
  check (CAssignTo (SArr (SMap SString)) [TIdx ELitNum; TDot]) ELitStr = Accept TString TString.
Proof. vm_compute. repeat split; reflexivity. Qed.

(* loop variable over rows:[][]num is a variable of type []num: [row] is not assignable to []any *)
Example C04_ex_loop_variable :
  range_var_type (TArr true (TArr false TNum)) = Some (Some (TArr true TNum)) /\
  check (CAssign (SArr SAny)) (EArr [ELoopVar (EVar (SArr (SArr SNum)))]) = Reject /\
  check (CAssign (SArr SAny)) (ELoopVar (EVar (SArr (SArr SNum)))) = Reject /\
  check CDecl (EArr [ELoopVar (EVar (SArr (SArr SNum))); EArr [ELitStr]]) = Accept (TArr true TAny) (TArr false TAny).
Proof. vm_compute. repeat split; reflexivity. Qed.

(* split is a row of the regenerated table with a composite result: a:[]any / a = split "a b" " " is a type error,
   [(split …)] is not assignable to []any either, and [(split …) [1]] is inferred as []any *)
Local Open Scope string_scope.
Example C04_ex_builtin_call :
  builtin_ret (s_ "split") = Some (SArr SString) /\
  check (CAssign (SArr SAny)) (ECall (SArr SString)) = Reject /\
  check (CAssign (SArr SAny)) (EArr [EGroup (ECall (SArr SString))]) = Reject /\
  check (CAssign (SArr SString)) (ECall (SArr SString)) = Accept (TArr true TString) (TArr true TString) /\
  check CDecl (EArr [EGroup (ECall (SArr SString)); EArr [ELitNum]]) = Accept (TArr true TAny) (TArr false TAny).
Proof. vm_compute. repeat split; reflexivity. Qed.

(* range 0 6 "2" is rejected; range 0 6 2 accepted; four operands rejected; a none-typed operand of == rejected *)
Example C04_ex_range_operands :
  range_operands_ok [TNum; TNum; TString] = false /\ range_operands_ok [TNum; TNum; TNum] = true /\
  range_operands_ok [TNum; TNum; TNum; TNum] = false /\ range_operands_ok [TArr true TNum; TNum] = false /\
  check (CRangeMore [ELitNum; ELitStr]) ELitNum = Reject /\
  check (CRangeMore [ELitNum; EVar SNum]) ELitNum = Accept TNum TNum /\
  validate_binary OpEq TNone TNone = false.
Proof. vm_compute. repeat split; reflexivity. Qed.
