(* C01 (part) — operator precedence, left-to-right associativity and
   independence of the optional whitespace layout.
   Property theorems only; every proof is [exact <lemma of PrattProofs>].

   Model: Pratt.v (pkg/parser/expression.go + the token cursor / whitespace-
   sensitivity stack of parser.go), binding powers from the regenerated
   Gen/Prec.v.  Specification: PrattProofs.v §"The specification" (operator
   table, levels and layered grammar written from docs/spec.md). *)
From Coq Require Import List NArith ZArith Bool Arith String.
From EvyV Require Import Base Pratt PrattProofs.
From EvyV.Gen Require Import Prec.
Import ListNotations.
Local Open Scope nat_scope.

(* The binding-power table regenerated from expression.go IS the order of
   docs/spec.md §Precedence:  or < and < ==,!= < <,<=,>,>= < +,- < *,/,% <
   unary < index/dot, equal powers within a level, no other token has a power,
   and the recursive calls are made so that equal powers associate to the left. *)
Theorem C01_prec_table_is_spec : prec_table_spec.
Proof. exact prec_table_spec_holds. Qed.
Print Assumptions C01_prec_table_is_spec.

(* For EVERY derivation l of the stratified, left-associative grammar — atoms,
   parenthesised groups (incl. redundant ones), unary - and !, the six binary
   levels, and the postfix forms a[i], a[i:j] (all four shapes), m.k, x.(type),
   arbitrarily nested — and EVERY legal layout of it (arbitrary optional
   whitespace in a free context: statement level, inside ( ) and [ ]; none
   outside brackets in a tight context: call argument, array element, map value;
   never after a unary operator, before "[" or around "."), the parser model,
   started on the tokens of l followed by anything that can follow an
   expression, returns exactly the tree the grammar prescribes, consumes exactly
   l's tokens, records no error and leaves the whitespace-sensitivity stack as it
   found it; the fuel the model's entry point uses (2 x tokens + 10) suffices.

   slice_guard is the explicit guard excluding exactly the class on which the
   code is defective (C01_prec_slice_refuted): as parseSlice is written, an
   expression that ENDS in a slice must not be followed by whitespace; for the
   corrected parseSlice the theorem holds without it (…_fixed below).

   Round 8: the grammar now contains calls in parentheses "(f a1 ... an)",
   array literals "[e1 ... en]" and map literals "{k1:v1 ... kn:vn}" with
   distinct keys (Lay_call, Lay_arr, Lay_map): arguments / elements / values are
   derivations themselves (arbitrarily nested), separated by whitespace and
   rendered tight, with optional whitespace just inside the brackets and after
   the colon of a pair.

   _partial — still outside the grammar this theorem quantifies over (all in
   the model and in the correspondence run): array / map literals spread over
   several lines (newlines / comments between elements), calls of functions
   without parameters written as a bare name, keywords used as map keys / after
   ".", whitespace between a map key and its colon; and, not an expression of
   the grammar at all, the call statement "f a b" without parentheses. *)
Theorem C01_prec_pratt_parses_layered_grammar_partial :
  forall E l st rest0 fuel,
  no_tyerr E -> Lay 0 l -> atoms_ok E l -> layout_ok l = true ->
  rest st = render l ++ rest0 ->
  (is_wss st = true -> tight_ok l = true) ->
  (is_wss st = false -> is_ws (look0 rest0) = false) ->
  slice_guard E l rest0 ->
  stop_tok (is_wss st) lowestPrec (look0 rest0) ->
  2 * List.length (render l) <= fuel ->
  parse_expr E fuel lowestPrec st = Some (Some (tree_of l), consume E l st) /\
  rest (consume E l st) = rest0 /\ wss (consume E l st) = wss st /\ errs (consume E l st) = errs st.
Proof. exact pratt_layered. Qed.
Print Assumptions C01_prec_pratt_parses_layered_grammar_partial.

(* the same for the model with the corrected parseSlice (proposed_fixes/C01-slice-rbracket-ws.diff): no guard *)
Theorem C01_prec_pratt_parses_layered_grammar_fixed_partial :
  forall E l st rest0 fuel,
  e_fix_slice E = true ->
  no_tyerr E -> Lay 0 l -> atoms_ok E l -> layout_ok l = true ->
  rest st = render l ++ rest0 ->
  (is_wss st = true -> tight_ok l = true) ->
  (is_wss st = false -> is_ws (look0 rest0) = false) ->
  stop_tok (is_wss st) lowestPrec (look0 rest0) ->
  2 * List.length (render l) <= fuel ->
  parse_expr E fuel lowestPrec st = Some (Some (tree_of l), consume E l st) /\
  rest (consume E l st) = rest0 /\ wss (consume E l st) = wss st /\ errs (consume E l st) = errs st.
Proof. exact pratt_layered_fixed. Qed.
Print Assumptions C01_prec_pratt_parses_layered_grammar_fixed_partial.

(* a op1 b op2 c with op1, op2 of the same level is (a op1 b) op2 c — at every level, under every legal layout *)
Theorem C01_prec_left_assoc :
  forall E o1 o2 a b c w1 w2 wa wb wc st rest0 fuel,
  rank o1 = rank o2 ->
  let l := LBin o2 (LBin o1 (LAtom a wa) w1 (LAtom b wb)) w2 (LAtom c wc) in
  no_tyerr E -> atoms_ok E l ->
  rest st = render l ++ rest0 ->
  (is_wss st = true -> tight_ok l = true) ->
  (is_wss st = false -> is_ws (look0 rest0) = false) ->
  stop_tok (is_wss st) lowestPrec (look0 rest0) ->
  2 * List.length (render l) <= fuel ->
  exists st', parse_expr E fuel lowestPrec st =
    Some (Some (TBin (binop_tok o2) (TBin (binop_tok o1) (atom_tree a) (atom_tree b)) (atom_tree c)), st')
    /\ rest st' = rest0.
Proof. exact left_assoc. Qed.
Print Assumptions C01_prec_left_assoc.

(* a op1 b op2 c with op2 of a tighter level is a op1 (b op2 c) *)
Theorem C01_prec_tighter_binds_first :
  forall E o1 o2 a b c w1 w2 wa wb wc st rest0 fuel,
  rank o1 < rank o2 ->
  let l := LBin o1 (LAtom a wa) w1 (LBin o2 (LAtom b wb) w2 (LAtom c wc)) in
  no_tyerr E -> atoms_ok E l ->
  rest st = render l ++ rest0 ->
  (is_wss st = true -> tight_ok l = true) ->
  (is_wss st = false -> is_ws (look0 rest0) = false) ->
  stop_tok (is_wss st) lowestPrec (look0 rest0) ->
  2 * List.length (render l) <= fuel ->
  exists st', parse_expr E fuel lowestPrec st =
    Some (Some (TBin (binop_tok o1) (atom_tree a) (TBin (binop_tok o2) (atom_tree b) (atom_tree c))), st')
    /\ rest st' = rest0.
Proof. exact tighter_binds_first. Qed.
Print Assumptions C01_prec_tighter_binds_first.

(* unary operators bind tighter than every binary operator and looser than indexing:  -a[i] op b = (-(a[i])) op b *)
Theorem C01_prec_unary_between :
  forall E u o a i b w1 w2 w3 wi wb st rest0 fuel,
  let l := LBin o (LUn u (LIndex (LAtom a false) w1 (LAtom i wi) w2)) w3 (LAtom b wb) in
  no_tyerr E -> atoms_ok E l ->
  rest st = render l ++ rest0 ->
  (is_wss st = true -> tight_ok l = true) ->
  (is_wss st = false -> is_ws (look0 rest0) = false) ->
  stop_tok (is_wss st) lowestPrec (look0 rest0) ->
  2 * List.length (render l) <= fuel ->
  exists st', parse_expr E fuel lowestPrec st =
    Some (Some (TBin (binop_tok o) (TUn (unop_tok u) (TIndex (atom_tree a) (atom_tree i))) (atom_tree b)), st')
    /\ rest st' = rest0.
Proof. exact unary_between. Qed.
Print Assumptions C01_prec_unary_between.

(* two legal layouts of the same derivation (possibly in different contexts:
   one at statement level, one as a call argument) give the same tree *)
Theorem C01_prec_layout_irrelevant :
  forall E l1 l2 st1 st2 r1 r2 fuel1 fuel2,
  erase l1 = erase l2 ->
  no_tyerr E -> Lay 0 l1 -> Lay 0 l2 -> atoms_ok E l1 -> atoms_ok E l2 -> layout_ok l1 = true -> layout_ok l2 = true ->
  rest st1 = render l1 ++ r1 -> rest st2 = render l2 ++ r2 ->
  (is_wss st1 = true -> tight_ok l1 = true) -> (is_wss st2 = true -> tight_ok l2 = true) ->
  (is_wss st1 = false -> is_ws (look0 r1) = false) -> (is_wss st2 = false -> is_ws (look0 r2) = false) ->
  slice_guard E l1 r1 -> slice_guard E l2 r2 ->
  stop_tok (is_wss st1) lowestPrec (look0 r1) -> stop_tok (is_wss st2) lowestPrec (look0 r2) ->
  2 * List.length (render l1) <= fuel1 -> 2 * List.length (render l2) <= fuel2 ->
  exists t s1 s2,
    parse_expr E fuel1 lowestPrec st1 = Some (Some t, s1) /\ rest s1 = r1 /\
    parse_expr E fuel2 lowestPrec st2 = Some (Some t, s2) /\ rest s2 = r2 /\ t = stree (erase l1).
Proof. exact layout_irrelevant. Qed.
Print Assumptions C01_prec_layout_irrelevant.

(* end to end through the statement wrapper:  x := e NL  with any whitespace
   around ":=" is accepted with the prescribed tree, all tokens of e consumed,
   the cursor at the end of line, no error *)
Theorem C01_prec_decl_stmt_parses :
  forall E x w0 w1 l fuel,
  no_tyerr E -> Lay 0 l -> atoms_ok E l -> layout_ok l = true ->
  let toks := {| ttype := T_IDENT; tlit := x |} :: wsl w0 ++ mk T_DECLARE :: wsl w1 ++ render l ++ [mk T_NL] in
  2 * List.length toks <= fuel ->
  exists st', parse_stmt_expr E fuel 2 toks = Some (Some (tree_of l), st') /\
              rest st' = [mk T_NL] /\ is_at_eol st' = true /\ errs st' = [].
Proof. exact decl_stmt_parses. Qed.
Print Assumptions C01_prec_decl_stmt_parses.

(* end to end through the statement wrapper, the call statement (no parentheses):
   f a1 ... an NL  with arguments that are derivations of the grammar (nested
   arbitrarily, calls / array / map literals included), separated by whitespace
   and rendered tight, is parsed to the call of f on the arguments' trees, all
   tokens consumed, the cursor at the end of line, no error *)
Theorem C01_prec_call_stmt_parses :
  forall E f args wz fuel,
  no_tyerr E -> func_of E f = Some false -> arity_wrong E f (List.length args) = false ->
  (forall a, In a args -> Lay 0 a) -> args_ok E (atoms_ok E) wz args ->
  forallb (fun a => layout_ok a && tight_ok a) args = true ->
  let toks := ident_tok f :: wsl (seq_flag args wz) ++ render_seq render args wz ++ [mk T_NL] in
  2 * List.length toks <= fuel ->
  exists st', parse_stmt_expr E fuel 0 toks = Some (Some (TCall f (map tree_of args)), st') /\
              rest st' = [mk T_NL] /\ is_at_eol st' = true /\ errs st' = [].
Proof. exact call_stmt_parses. Qed.
Print Assumptions C01_prec_call_stmt_parses.

(* ---------- the parseSlice defect (fixed in /repo by commit 16971a1; e_fix_slice = false is the code before it) ---------- *)
Definition env_code : env :=
  {| e_funcs := [(s_ "print", false)]; e_vars := [s_ "arr"; s_ "a"; s_ "b"; s_ "c"];
     e_arity := []; e_tyerr := fun _ _ _ => false; e_fix_slice := false |}.
Definition env_fixed : env :=
  {| e_funcs := e_funcs env_code; e_vars := e_vars env_code; e_arity := []; e_tyerr := fun _ _ _ => false; e_fix_slice := true |}.
Definition tk (t : toktype) (s : string) : token := {| ttype := t; tlit := s_ s |}.

(* print arr[0:1] -3 *)
Definition slice_witness : list token :=
  [tk T_IDENT "print"; mk T_WS; tk T_IDENT "arr"; mk T_LBRACKET; tk T_NUM_LIT "0"; mk T_COLON; tk T_NUM_LIT "1";
   mk T_RBRACKET; mk T_WS; mk T_MINUS; tk T_NUM_LIT "3"].
Definition slice_tree : tree := TSlice (TVar (s_ "arr")) (Some (TNum (s_ "0"))) (Some (TNum (s_ "1"))).

(* Before commit 16971a1 (e_fix_slice = false), whitespace after a slice did not end a call argument
   (§Horizontal Whitespace: WS separates arguments; rule 9 allows WS only
   WITHIN the slice brackets): `print arr[0:1] -3` becomes ONE argument
   arr[0:1] - 3 (then rejected by the type checker) instead of two.  With the
   proposed one-word fix (advanceWSS for "]") it is the two arguments of the
   specification.  The witness is replayed on the implementation by the harness
   (key slice-rbracket-skips-ws). *)
Theorem C01_prec_slice_refuted :
  exists toks,
    option_map fst (parse_stmt_expr env_code 40 0 toks) =
      Some (Some (TCall (s_ "print") [TBin T_MINUS slice_tree (TNum (s_ "3"))])) /\
    option_map fst (parse_stmt_expr env_fixed 40 0 toks) =
      Some (Some (TCall (s_ "print") [slice_tree; TUn T_MINUS (TNum (s_ "3"))])).
Proof. exists slice_witness. vm_compute. split; reflexivity. Qed.
Print Assumptions C01_prec_slice_refuted.

(* the corrected parseSlice leaves the whitespace for the enclosing context to
   see (for every state), the code as it is swallows it *)
Theorem C01_prec_slice_fixed_keeps_ws :
  forall E st t r, e_fix_slice E = true -> rest st = t :: mk T_WS :: r -> cur (slice_close E st) = mk T_WS.
Proof. exact slice_close_fixed_keeps_ws. Qed.
Print Assumptions C01_prec_slice_fixed_keeps_ws.

Theorem C01_prec_slice_code_swallows_ws :
  forall E st t t2 r b w,
  e_fix_slice E = false -> rest st = t :: mk T_WS :: t2 :: r -> wss st = false :: b :: w -> is_ws t2 = false ->
  cur (slice_close E st) = t2.
Proof. exact slice_close_swallows_ws. Qed.
Print Assumptions C01_prec_slice_code_swallows_ws.

(* ---------- non-vacuity ---------- *)
(* free context:  a - b - ( c + 1 ) * -2 == 7 and !true   with assorted whitespace *)
Definition ex_free : lexp :=
  LBin BAnd
    (LBin BEq
      (LBin BSub (LBin BSub (LAtom (AVar (s_ "a")) true) true (LAtom (AVar (s_ "b")) false)) false
        (LBin BMul (LGroup true (LBin BAdd (LAtom (AVar (s_ "c")) false) true (LAtom (ANum (s_ "1")) true)) true) false
                   (LUn UNeg (LAtom (ANum (s_ "2")) true))))
      true (LAtom (ANum (s_ "7")) true))
    true (LUn UNot (LAtom (ABool true) false)).

Example C01_prec_ex_free_hyps :
  tight_ok ex_free = false /\
  (forall st, is_wss st = false -> rest st = render ex_free ++ [mk T_NL] ->
     (is_wss st = true -> tight_ok ex_free = true) /\ (is_wss st = false -> is_ws (look0 [mk T_NL]) = false)).
Proof. split; [reflexivity|]. intros st W _. split; [rewrite W; discriminate|reflexivity]. Qed.

Example C01_prec_ex_free_lay : Lay 0 ex_free /\ atoms_ok env_code ex_free /\ layout_ok ex_free = true.
Proof.
  split.
  - unfold ex_free.
    apply (Lay_0_of 2). apply (Lay_bin BAnd).
    + apply (Lay_up 2). apply (Lay_bin BEq).
      * apply (Lay_le 3 5); [repeat constructor|]. apply (Lay_bin BSub).
        -- apply (Lay_bin BSub); [apply Lay_atom_any; repeat constructor|apply Lay_atom_any; repeat constructor].
        -- apply (Lay_bin BMul).
           ++ apply (Lay_le 6 8); [repeat constructor|]. apply Lay_group. apply (Lay_0_of 5).
              apply (Lay_bin BAdd); apply Lay_atom_any; repeat constructor.
           ++ apply (Lay_un UNeg). apply Lay_atom_any; repeat constructor.
      * apply Lay_atom_any; repeat constructor.
    + apply (Lay_le 3 7); [repeat constructor|]. apply (Lay_un UNot). apply Lay_atom_any; repeat constructor.
  - vm_compute. repeat split.
Qed.

Example C01_prec_ex_free_parse :
  let toks := tk T_IDENT "x" :: mk T_WS :: mk T_DECLARE :: mk T_WS :: render ex_free ++ [mk T_NL] in
  option_map fst (parse_stmt_expr env_code (2 * List.length toks + 10) 2 toks) = Some (Some (tree_of ex_free)) /\
  tree_of ex_free =
    TBin T_AND
      (TBin T_EQ
        (TBin T_MINUS (TBin T_MINUS (TVar (s_ "a")) (TVar (s_ "b")))
           (TBin T_ASTERISK (TGroup (TBin T_PLUS (TVar (s_ "c")) (TNum (s_ "1")))) (TUn T_MINUS (TNum (s_ "2")))))
        (TNum (s_ "7")))
      (TUn T_BANG (TBool true)).
Proof. vm_compute. split; reflexivity. Qed.

(* tight context: print a-b-c (a - b)*c   — two arguments *)
Definition ex_tight1 : lexp :=
  LBin BSub (LBin BSub (LAtom (AVar (s_ "a")) false) false (LAtom (AVar (s_ "b")) false)) false (LAtom (AVar (s_ "c")) false).
Definition ex_tight2 : lexp :=
  LBin BMul (LGroup true (LBin BSub (LAtom (AVar (s_ "a")) true) true (LAtom (AVar (s_ "b")) true)) false) false
            (LAtom (AVar (s_ "c")) false).

Example C01_prec_ex_tight :
  tight_ok ex_tight1 = true /\ tight_ok ex_tight2 = true /\
  let toks := tk T_IDENT "print" :: mk T_WS :: render ex_tight1 ++ mk T_WS :: render ex_tight2 ++ [mk T_NL] in
  option_map fst (parse_stmt_expr env_code (2 * List.length toks + 10) 0 toks) =
    Some (Some (TCall (s_ "print") [tree_of ex_tight1; tree_of ex_tight2])).
Proof. vm_compute. repeat split; reflexivity. Qed.

(* an illegal layout is rejected:  print a - b  (whitespace around a binary operator in an argument) *)
Example C01_prec_ex_tight_illegal :
  let toks := [tk T_IDENT "print"; mk T_WS; tk T_IDENT "a"; mk T_WS; mk T_MINUS; mk T_WS; tk T_IDENT "b"; mk T_NL] in
  match parse_stmt_expr env_code 40 0 toks with
  | Some (_, st) => negb (Nat.eqb (List.length (errs st)) 0)
  | None => false
  end = true.
Proof. vm_compute. reflexivity. Qed.

(* postfix forms in a tight context:  print -arr[ a + 1 ]*b.k c.( []num )[:1]  *)
Definition ex_post1 : lexp :=
  LBin BMul
    (LUn UNeg (LIndex (LAtom (AVar (s_ "arr")) false) true
                 (LBin BAdd (LAtom (AVar (s_ "a")) true) true (LAtom (ANum (s_ "1")) true)) false))
    false (LDot (LAtom (AVar (s_ "b")) false) (s_ "k") false).
Definition ex_post2 : lexp :=
  LSlice (LAssert (LAtom (AVar (s_ "c")) false) true (TyArr TyNum) true false) false None false
         (Some (LAtom (ANum (s_ "1")) false)) false.

Example C01_prec_ex_postfix_lay :
  Lay 0 ex_post1 /\ Lay 0 ex_post2 /\
  atoms_ok env_code ex_post1 /\ atoms_ok env_code ex_post2 /\
  layout_ok ex_post1 = true /\ layout_ok ex_post2 = true /\ tight_ok ex_post1 = true /\ tight_ok ex_post2 = true /\
  slice_guard env_code ex_post2 [mk T_NL].
Proof.
  split; [|split].
  - apply (Lay_0_of 6). apply (Lay_bin BMul).
    + apply (Lay_up 6). apply (Lay_un UNeg). apply (Lay_up 7). apply Lay_index.
      * apply Lay_atom.
      * apply (Lay_0_of 5). apply (Lay_bin BAdd); apply Lay_atom_any; repeat constructor.
    + apply (Lay_up 7). apply Lay_dot. apply Lay_atom.
  - apply (Lay_0_of 8). apply Lay_slice.
    + apply Lay_assert. apply Lay_atom.
    + intros x H. discriminate H.
    + intros x H. inversion H; subst. apply Lay_atom_any. repeat constructor.
  - vm_compute. repeat split; try discriminate.
Qed.

Example C01_prec_ex_postfix_parse :
  let toks := tk T_IDENT "print" :: mk T_WS :: render ex_post1 ++ mk T_WS :: render ex_post2 ++ [mk T_NL] in
  option_map fst (parse_stmt_expr env_code (2 * List.length toks + 10) 0 toks) =
    Some (Some (TCall (s_ "print") [tree_of ex_post1; tree_of ex_post2])) /\
  tree_of ex_post1 =
    TBin T_ASTERISK (TUn T_MINUS (TIndex (TVar (s_ "arr")) (TBin T_PLUS (TVar (s_ "a")) (TNum (s_ "1")))))
                    (TDot (TVar (s_ "b")) (s_ "k")) /\
  tree_of ex_post2 = TSlice (TAssert (TVar (s_ "c")) (Some (TyArr TyNum))) None (Some (TNum (s_ "1"))).
Proof. vm_compute. repeat split; reflexivity. Qed.

(* ---------- round 8: calls in parentheses and array literals inside derivations ---------- *)
Definition env_calls : env :=
  {| e_funcs := [(s_ "f", false); (s_ "g", false); (s_ "print", false)]; e_vars := [s_ "a"; s_ "b"];
     e_arity := [(s_ "f", Some 2); (s_ "g", Some 1)]; e_tyerr := fun _ _ _ => false; e_fix_slice := true |}.

(*  (f a[0] -b)*[1 (g 2)][0]   with w = false (a tight layout), and
    ( f a[0] -b ) * [ 1 (g 2 ) ][ 0 ]   with w = true (a free layout) *)
Definition ex_args : list lexp :=
  [LIndex (LAtom (AVar (s_ "a")) false) false (LAtom (ANum (s_ "0")) false) false; LUn UNeg (LAtom (AVar (s_ "b")) false)].
Definition ex_arr (w : bool) : lexp :=
  LArr w [LAtom (ANum (s_ "1")) false; LCall false (s_ "g") [LAtom (ANum (s_ "2")) false] w false] w false.
Definition ex_cl (w : bool) : lexp :=
  LBin BMul (LCall w (s_ "f") ex_args w w) w (LIndex (ex_arr w) w (LAtom (ANum (s_ "0")) w) false).

Example C01_prec_ex_call_lay :
  forall w, Lay 0 (ex_cl w) /\ atoms_ok env_calls (ex_cl w) /\ layout_ok (ex_cl w) = true.
Proof.
  intro w. split; [|split].
  - apply (Lay_0_of 6). apply (Lay_bin BMul).
    + apply (Lay_le 6 8); [repeat constructor|]. apply Lay_call. intros a [<-|[<-|[]]].
      * apply (Lay_0_of 8). apply Lay_index; [apply Lay_atom|apply Lay_atom_any; repeat constructor].
      * apply (Lay_0_of 7). apply Lay_un. apply Lay_atom_any; repeat constructor.
    + apply (Lay_up 7). apply Lay_index.
      * apply Lay_arr. intros a [<-|[<-|[]]].
        -- apply Lay_atom_any; repeat constructor.
        -- apply (Lay_0_of 8). apply Lay_call. intros a [<-|[]]. apply Lay_atom_any; repeat constructor.
      * apply Lay_atom_any; repeat constructor.
  - destruct w; vm_compute; repeat split; intros; try discriminate; auto.
  - destruct w; reflexivity.
Qed.

Example C01_prec_ex_call_parse :
  tight_ok (ex_cl false) = true /\ tight_ok (ex_cl true) = false /\
  (* free: x := ( f a[0] -b ) * [ 1 (g 2 ) ][ 0 ] *)
  (let toks := tk T_IDENT "x" :: mk T_WS :: mk T_DECLARE :: mk T_WS :: render (ex_cl true) ++ [mk T_NL] in
   option_map fst (parse_stmt_expr env_calls (2 * List.length toks + 10) 2 toks) = Some (Some (tree_of (ex_cl true)))) /\
  (* tight: print (f a[0] -b)*[1 (g 2)][0] (f a[0] -b)*[1 (g 2)][0] — two arguments *)
  (let toks := tk T_IDENT "print" :: mk T_WS :: render (ex_cl false) ++ mk T_WS :: render (ex_cl false) ++ [mk T_NL] in
   option_map fst (parse_stmt_expr env_calls (2 * List.length toks + 10) 0 toks) =
     Some (Some (TCall (s_ "print") [tree_of (ex_cl false); tree_of (ex_cl false)]))) /\
  tree_of (ex_cl true) = tree_of (ex_cl false) /\
  tree_of (ex_cl false) =
    TBin T_ASTERISK
      (TGroup (TCall (s_ "f") [TIndex (TVar (s_ "a")) (TNum (s_ "0")); TUn T_MINUS (TVar (s_ "b"))]))
      (TIndex (TArr [TNum (s_ "1"); TGroup (TCall (s_ "g") [TNum (s_ "2")])]) (TNum (s_ "0"))).
Proof. vm_compute. repeat split; reflexivity. Qed.

(*  {a:1 b:[2 (g 3)]}.b[0]   (w = false, tight)   /   { a: 1 b: [ 2 (g 3 ) ] }.b[ 0 ]   (w = true) *)
Definition ex_map (w : bool) : lexp :=
  LIndex
    (LDot (LMap w [(s_ "a", w, LAtom (ANum (s_ "1")) false);
                   (s_ "b", w, LArr w [LAtom (ANum (s_ "2")) false; LCall false (s_ "g") [LAtom (ANum (s_ "3")) false] w false] w false)]
                w false)
          (s_ "b") false)
    w (LAtom (ANum (s_ "0")) w) false.

Example C01_prec_ex_map_lay :
  forall w, Lay 0 (ex_map w) /\ atoms_ok env_calls (ex_map w) /\ layout_ok (ex_map w) = true /\ tight_ok (ex_map w) = true.
Proof.
  intro w. split; [|split; [|split]].
  - apply (Lay_0_of 8). apply Lay_index; [|apply Lay_atom_any; repeat constructor].
    apply Lay_dot. apply Lay_map. intros p [<-|[<-|[]]]; cbn [snd].
    + apply Lay_atom_any; repeat constructor.
    + apply (Lay_0_of 8). apply Lay_arr. intros a [<-|[<-|[]]].
      * apply Lay_atom_any; repeat constructor.
      * apply (Lay_0_of 8). apply Lay_call. intros a [<-|[]]. apply Lay_atom_any; repeat constructor.
  - destruct w; vm_compute; repeat split; intros; try discriminate; auto.
  - destruct w; reflexivity.
  - destruct w; reflexivity.
Qed.

Example C01_prec_ex_map_parse :
  (let toks := tk T_IDENT "x" :: mk T_WS :: mk T_DECLARE :: mk T_WS :: render (ex_map true) ++ [mk T_NL] in
   option_map fst (parse_stmt_expr env_calls (2 * List.length toks + 10) 2 toks) = Some (Some (tree_of (ex_map true)))) /\
  (let toks := tk T_IDENT "print" :: mk T_WS :: render (ex_map false) ++ mk T_WS :: render (ex_map true) ++ [mk T_NL] in
   option_map fst (parse_stmt_expr env_calls (2 * List.length toks + 10) 0 toks) =
     Some (Some (TCall (s_ "print") [tree_of (ex_map false); tree_of (ex_map true)]))) /\
  tree_of (ex_map true) =
    TIndex (TDot (TMap [(s_ "a", TNum (s_ "1")); (s_ "b", TArr [TNum (s_ "2"); TGroup (TCall (s_ "g") [TNum (s_ "3")])])]) (s_ "b"))
           (TNum (s_ "0")).
Proof. vm_compute. repeat split; reflexivity. Qed.

(* the hypotheses of C01_prec_call_stmt_parses are satisfiable:  print (f a[0] -b)*[1 (g 2)][0] {a:1 b:[2 (g 3)]}.b[0]  *)
Example C01_prec_ex_call_stmt_hyps :
  let args := [ex_cl false; ex_map false] in
  func_of env_calls (s_ "print") = Some false /\ arity_wrong env_calls (s_ "print") (List.length args) = false /\
  (forall a, In a args -> Lay 0 a) /\ args_ok env_calls (atoms_ok env_calls) false args /\
  forallb (fun a => layout_ok a && tight_ok a) args = true.
Proof.
  split; [reflexivity|split; [reflexivity|split; [|split]]].
  - intros a [<-|[<-|[]]]; [exact (proj1 (C01_prec_ex_call_lay false))|exact (proj1 (C01_prec_ex_map_lay false))].
  - vm_compute; repeat split; intros; try discriminate; auto.
  - reflexivity.
Qed.
