(* C17 — Emitted bytecode is well formed and the VM cannot be crashed.
   Property theorems only; proofs are [exact <lemma>]. *)
From Coq Require Import ZArith NArith List String.
From EvyV Require Import Base SymTab SymTabProofs Bytecode BytecodeProofs Vm VmProofs VmHeap VmHeapProofs Compile CompileSem CompileWfProofs CompileSymProofs CompileCtlProofs CompileCoverProofs LocalInit LocalInitProofs CompileInitProofs.
Require Import EvyV.Gen.Opcodes.
Import ListNotations.
Open Scope N_scope.

(* The full statement for the compiler is proved for a fragment of the language
   (C16_compile_wf_ctl_partial; the parts about locals are repeated below:
   C17_compile_local_operands_partial, C17_compile_stmt_table_partial).  For
   everything else C17 provides the verified validator below, run on every
   bytecode the REAL compiler emits. *)

(* The validator is sound: every bytecode it accepts decodes completely into
   defined instructions, has all constant/global/local operands in range, all
   jumps on instruction boundaries (or at the end), and admits a stack-height
   assignment consistent along every edge, never below LocalCount and equal to
   LocalCount at the end. *)
Theorem C17_wf_check_sound : forall bc : bcinfo, wf_check bc = true -> WF bc.
Proof. exact wf_check_sound. Qed.
Print Assumptions C17_wf_check_sound.

(* A well-formed program cannot crash the VM model through the stack, an
   operand or a jump: in every state reachable from NewVM by Run's loop the
   stack pointer is >= LocalCount, the only possible crash is a type-directed
   one (unchecked type assertion — needs the typed simulation of C16, hence
   _partial), and when the loop ends the instruction pointer is exactly at the
   end of the code and sp = LocalCount.  (OpArrayRepeat: since 208ef1c a count
   no array can have is ErrBadRepetition, Vm.repeat_guarded = true; before it
   was a host crash, C17_vm_repeat_host_crash_before_fix.) *)
Theorem C17_wf_vm_safe_partial : forall (p : program), WF (info_of p) ->
  forall s, reachable p s ->
    plcount p <= sp_of s /\
    match vm_step p s with
    | Running _ | Failed _ => True
    | Halted s' => ip s' = N.of_nat (List.length (pcode p)) /\ sp_of s' = plcount p
    | Crashed c => c = CType
    end.
Proof. exact wf_vm_safe_partial. Qed.
Print Assumptions C17_wf_vm_safe_partial.

(* The model Vm.v has value semantics for arrays and maps: its OpSetIndex pops
   and checks, the store itself — visible on the real VM through every alias
   of the array / map object — is not performed.  So that the safety theorem
   does not silently depend on that, here it is with the effect
   over-approximated: reachable_h lets the CONTENTS of every array and map in
   the machine state (operand stack, locals, globals) change arbitrarily
   between any two steps (VmProofs.perturbed: ip, the positions of all values,
   and all numbers, booleans and strings stay).  The intended reading — an
   argument, not a theorem, the real VM has no formal heap here —: every state
   of the real VM, read as values, is such a state.  The conclusion is the
   same: the safety argument never looks into an array or a map. *)
Theorem C17_wf_vm_safe_heap_partial : forall (p : program), WF (info_of p) ->
  forall s, reachable_h p s ->
    plcount p <= sp_of s /\
    match vm_step p s with
    | Running _ | Failed _ => True
    | Halted s' => ip s' = N.of_nat (List.length (pcode p)) /\ sp_of s' = plcount p
    | Crashed c => c = CType
    end.
Proof. exact wf_vm_safe_heap_partial. Qed.
Print Assumptions C17_wf_vm_safe_heap_partial.

(* … and a theorem about a VM model that HAS the heap: VmHeap.v models arrays
   and maps the way vm.go has them — an arrayVal is a reference to its backing
   array, a mapVal carries its own copy of `order` and a reference to the
   shared Go map — and its OpSetIndex performs the store (array element; map
   value, inserting a new key into m but into no stored `order`), visible
   through every alias on the stack, in locals, globals and inside other
   arrays and maps.  The extracted hvm_step is compared with the real VM on
   generated programs with element stores and aliasing (C16, stream keys
   vm-heap-model-compared, vm-heap-model-differs).  For every well-formed program, in every state reachable
   by that VM: sp >= LocalCount; the loop ends exactly at the end of the code
   with sp = LocalCount; no underflow, no out-of-range operand, no bad fetch.
   Partial: CType (unchecked type assertion — needs typing) and CHost are not
   excluded; CHost is only the unbounded recursion of Equals / deepCopy through
   a CYCLIC heap, which well-formed but ill-typed bytecode can build (a[0] = a;
   the host dies on the real VM as well). *)
Theorem C17_wf_vm_safe_store_partial : forall (p : program), WF (info_of p) ->
  forall s, hreachable p s ->
    plcount p <= hsp_of s /\
    match hvm_step p s with
    | HRunning _ | HFailed _ => True
    | HHalted s' => hip s' = N.of_nat (List.length (pcode p)) /\ hsp_of s' = plcount p
    | HCrashed c => c = CType \/ c = CHost
    end.
Proof. exact wf_hvm_safe_store_partial. Qed.
Print Assumptions C17_wf_vm_safe_store_partial.

(* ---------- definite initialisation of local slots ---------- *)
(* WF bounds the operand of OpGetLocal / OpSetLocal by LocalCount; it does not
   say that a slot is written before it is read.  A read of a slot nothing has
   written yields the nil the VM created the slot with, and the next pop
   dereferences it: a host crash (in the model: VNil, then the type-directed
   crash C17_wf_vm_safe_partial leaves open).  linit_check (LocalInit.v) is a
   second validator for exactly that: it accepts a program only if on every
   static path from the entry to an OpGetLocal a an OpSetLocal a has been
   executed.  Sound against the VM model: on a well-formed program it accepts,
   in every run (reach_w carries the operands of the OpSetLocal executed so
   far) the machine never is about to execute an OpGetLocal whose slot is not
   among them.  The C17 harness runs it on every program the real compiler
   emits.  (Not proved: that the compiler's output always passes — established
   per emitted program by this validator, like WF before compile_wf_all.) *)
Theorem C17_linit_safe : forall (p : program), WF (info_of p) -> linit_check (info_of p) = true ->
  forall s w, reach_w p s w ->
  forall i, fetch p s = Some i -> ip s < N.of_nat (List.length (pcode p)) ->
            opc_of_N (iop i) = Some GetLocal -> In (arg0 i) w.
Proof. exact linit_safe. Qed.
Print Assumptions C17_linit_safe.

(* Before 208ef1c `executing well-formed bytecode never crashes the host` was
   false: `a := [1 2] * 1000000000000000000` compiles to bytecode the validator
   accepts; OpArrayRepeat computed make([]value, 0, 2*10^18) and the Go runtime
   panicked (makeslice: cap out of range; reproduced on the real VM by the C17
   harness, stream repeat-count).  The model of that tree (arr_repeat false)
   crashes with CHost on the very operands the compiled program (which runs
   to ErrBadRepetition now) feeds to OpArrayRepeat. *)
Definition ex_repeat_huge : slist :=
  SCons (SDecl (s_ "a") (EBin BStar TArr TNum
           (EArr (ECons (ENum (float_of_Z 1)) (ECons (ENum (float_of_Z 2)) ENil)))
           (ENum (float_of_Z 1000000000000000000)))) SNil.

Theorem C17_vm_repeat_host_crash_before_fix :
  match compile ex_repeat_huge with
  | COk st =>
      let bc := bytecode_of st in
      wf_check {| bcode := out_code bc; nconsts := N.of_nat (List.length (out_consts bc));
                  gcount := out_gcount bc; lcount := out_lcount bc |} = true /\
      vm_run 100 (program_of bc) (vm_init (program_of bc)) = FFailed EBadRepetition
  | CErr _ => False
  end /\
  arr_repeat false (float_of_Z 1000000000000000000) [VNum (float_of_Z 1); VNum (float_of_Z 2)] = PCrash CHost /\
  arr_repeat true (float_of_Z 1000000000000000000) [VNum (float_of_Z 1); VNum (float_of_Z 2)] = PErr EBadRepetition.
Proof. vm_compute. repeat split; reflexivity. Qed.
Print Assumptions C17_vm_repeat_host_crash_before_fix.

(* Over EVERY history of Push/Pop/Define/Resolve: two symbols that are alive
   at the same time (stored in any table of the current chain, shadowed or not)
   never share (scope, index). *)
Theorem C17_symtab_no_sharing : forall (h : list SymTab.sop),
  let s := fst (st_run h new_symtab) in
  forall d1 d2 n1 n2 y1 y2, live_at d1 n1 y1 s -> live_at d2 n2 y2 s ->
    sscp y1 = sscp y2 -> sidx y1 = sidx y2 -> d1 = d2 /\ n1 = n2.
Proof. exact symtab_no_sharing. Qed.
Print Assumptions C17_symtab_no_sharing.

(* … in particular two names the compiler can resolve at the same moment never
   get the same (scope, slot): for every table satisfying the invariant Inv that
   all histories maintain (inv_run) and that the compiler maintains
   (C17_compile_stmt_table_partial below). *)
Theorem C17_visible_no_sharing : forall (s : symtab) (n1 n2 : str) (y1 y2 : symbol), Inv s ->
  st_resolve n1 s = Some y1 -> st_resolve n2 s = Some y2 -> sscp y1 = sscp y2 -> sidx y1 = sidx y2 -> n1 = n2.
Proof. exact visible_no_sharing. Qed.
Print Assumptions C17_visible_no_sharing.

(* The compiler model itself (Compile.v, compared with the real compiler byte
   for byte by C16): every statement of the fragment cfrag (declarations,
   assignments, if / else-if / else, while, break, for loops with and without
   loop variable, nested; expressions in efrag — _partial) compiled inside a
   block keeps Inv, leaves the enclosing scopes alone and never lowers the
   bound that ends as LocalCount. *)
Theorem C17_compile_stmt_table_partial : forall s st st',
  cfrag_stmt s = true -> compile_stmt true s st = COk st' ->
  outers (csym st) <> [] -> Inv (csym st) -> has_gbw (csym st) ->
  Inv (csym st') /\ outers (csym st') = outers (csym st) /\ bound (csym st) <= bound (csym st').
Proof. exact compile_stmt_table. Qed.
Print Assumptions C17_compile_stmt_table_partial.

(* … and for whole programs of the fragment pfrag2 (see C16_compile_wf_ctl_partial,
   which gives the full WF): every OpGetLocal / OpSetLocal the compiler emits
   addresses a slot below the LocalCount of the emitted program. *)
Theorem C17_compile_local_operands_partial : forall (p : slist) (st : cstate),
  pfrag2 p = true -> compile p = COk st -> cbreaks st = [] ->
  forall instrs pc i, decode_all (ccode st) = Some instrs -> In (pc, i) instrs ->
    (opc_of_N (iop i) = Some GetLocal \/ opc_of_N (iop i) = Some SetLocal) ->
    arg0 i < st_local_count (csym st).
Proof. exact compile_local_operands. Qed.
Print Assumptions C17_compile_local_operands_partial.

(* ---------- everything the compiler emits ---------- *)
(* THE first half of C17, for EVERY program the compiler accepts — element
   stores `a[i] = e` / `m[k] = e` included: the emitted bytecode satisfies WF
   (every operand in range, every jump — back-patched ones included — on an
   instruction boundary inside the code, the stack heights agree at every
   join, never below LocalCount, every local operand below LocalCount, sp =
   LocalCount at the end).  The two side conditions are guaranteed by the
   parser, not by the compiler, and are stated because the model's AST type is
   wider than what the parser builds: wplain_slist (CompileSem.v) — no map
   literal whose len(Pairs) differs from len(Order) ("duplicated map key" is
   a parse error; OpMap's operand is len(Pairs) while 2*len(Order) values are
   pushed) and no block as a statement of its own (BlockStatement only occurs
   as a body) — and nb_slist — no break outside a loop ("break is not in a
   loop" is a parse error; such a break would leave an unpatched jump
   placeholder; compile_no_pending_break: without one the compiler ends with
   an empty break list). *)
Theorem C17_compile_wf_all : forall (p : slist) (st : cstate),
  compile p = COk st -> wplain_slist p = true -> nb_slist p = true ->
  WF {| bcode := out_code (bytecode_of st); nconsts := N.of_nat (List.length (out_consts (bytecode_of st)));
        gcount := out_gcount (bytecode_of st); lcount := out_lcount (bytecode_of st) |}.
Proof. exact compile_wf_total. Qed.
Print Assumptions C17_compile_wf_all.

(* … and the second half on top of it: the VM model cannot be crashed through
   the stack, an operand or a jump by anything the compiler emits (_partial as
   C17_wf_vm_safe_partial: a type-directed crash is excluded only by the typed
   simulation of C16) — stated over reachable_h, i.e. with the heap effect of
   the element stores the program may contain over-approximated. *)
Theorem C17_compile_vm_safe_all_partial : forall (p : slist) (st : cstate),
  compile p = COk st -> wplain_slist p = true -> nb_slist p = true ->
  let prog := program_of (bytecode_of st) in
  forall s, reachable_h prog s ->
    plcount prog <= sp_of s /\
    match vm_step prog s with
    | Running _ | Failed _ => True
    | Halted s' => ip s' = N.of_nat (List.length (pcode prog)) /\ sp_of s' = plcount prog
    | Crashed c => c = CType
    end.
Proof.
  intros p st HC HP HB prog. apply wf_vm_safe_heap_partial.
  unfold prog, info_of, program_of. cbn [pcode pconsts pgcount plcount]. rewrite map_length.
  apply (compile_wf_total p st HC HP HB).
Qed.
Print Assumptions C17_compile_vm_safe_all_partial.

(* The compile side of definite initialisation, for EVERY program the compiler
   accepts (element stores, loops, breaks, if chains, nested blocks, loop
   variables; side conditions as in C17_compile_wf_all): in every run of the VM
   model on the emitted code — reach_w: steps of the machine, and between them
   arbitrary changes of the contents of arrays and maps as in reachable_h; w
   collects the operands of the OpSetLocal executed so far — an OpGetLocal
   about to execute reads a slot that an executed OpSetLocal has written.  No
   validator run is involved: the certificate is built from the compilation
   itself (CompileInitProofs.v) — one number per instruction, the count k of
   live locals of the compiler's symbol table when the instruction was
   emitted; live locals occupy the slots 0 .. k-1 (kof_resolve), so every
   OpGetLocal the compiler emits for a resolved name is below k; a declaration
   compiles its initialiser BEFORE it defines the symbol (the order the
   round-4 seed reversed), and its OpSetLocal writes exactly slot k
   (kof_define); loop variables are set (OpNone; OpSetLocal) before the range
   instruction; leaving a block only lowers k; jumps back to a loop head and
   break jumps arrive with at least the k of the loop head.  LINITK is the
   judgment, linitk_safe its soundness against the VM model (it does not need
   WF), p_all the induction over the layout LY of compiled statements. *)
Theorem C17_compile_linit_safe_all : forall (p : slist) (st : cstate),
  compile p = COk st -> wplain_slist p = true -> nb_slist p = true ->
  let prog := program_of (bytecode_of st) in
  forall s w, reach_w prog s w ->
  forall i, fetch prog s = Some i -> ip s < N.of_nat (List.length (pcode prog)) ->
            opc_of_N (iop i) = Some GetLocal -> In (arg0 i) w.
Proof. exact compile_linit_safe_all. Qed.
Print Assumptions C17_compile_linit_safe_all.

(* both halves together, for everything the compiler emits: the stack / operand
   / jump safety of C17_compile_vm_safe_all_partial and no read of an unwritten
   local slot, in every state of every run *)
Theorem C17_compile_vm_safe_init_all_partial : forall (p : slist) (st : cstate),
  compile p = COk st -> wplain_slist p = true -> nb_slist p = true ->
  let prog := program_of (bytecode_of st) in
  forall s w, reach_w prog s w ->
    plcount prog <= sp_of s /\
    match vm_step prog s with
    | Running _ | Failed _ => True
    | Halted s' => ip s' = N.of_nat (List.length (pcode prog)) /\ sp_of s' = plcount prog
    | Crashed c => c = CType
    end /\
    forall i, fetch prog s = Some i -> ip s < N.of_nat (List.length (pcode prog)) ->
              opc_of_N (iop i) = Some GetLocal -> In (arg0 i) w.
Proof.
  intros p st HC HP HN prog s w HR.
  destruct (C17_compile_vm_safe_all_partial p st HC HP HN s (reach_w_reachable_h _ _ _ HR)) as [A B].
  split; [exact A|]. split; [exact B|]. apply (compile_linit_safe_all p st HC HP HN s w HR).
Qed.
Print Assumptions C17_compile_vm_safe_init_all_partial.

(* Every LOCAL symbol any Define/Resolve of the history returned has an index
   below the root's nestedMaxIndex once all open scopes are popped, i.e. below
   Bytecode.LocalCount: the VM's local area is large enough. *)
Theorem C17_symtab_locals_below_localcount : forall (h : list SymTab.sop) (y : symbol),
  In (RSym y) (snd (st_run h new_symtab)) -> sscp y = LocalScope ->
  sidx y < nmax (st_pop_all (fst (st_run h new_symtab))).
Proof. exact symtab_locals_below_localcount. Qed.
Print Assumptions C17_symtab_locals_below_localcount.

Theorem C17_symtab_locals_below_localcount_closed : forall (h : list SymTab.sop) (y : symbol),
  outers (fst (st_run h new_symtab)) = [] ->
  In (RSym y) (snd (st_run h new_symtab)) -> sscp y = LocalScope ->
  sidx y < st_local_count (fst (st_run h new_symtab)).
Proof. exact symtab_locals_below_localcount_closed. Qed.
Print Assumptions C17_symtab_locals_below_localcount_closed.

(* Resolve returns the innermost definition (in any state). *)
Theorem C17_resolve_innermost : forall (s : symtab) (n : str),
  match st_resolve n s with
  | Some y => exists d, live_at d n y s /\ forall d' y', (d' < d)%nat -> ~ live_at d' n y' s
  | None => forall d y, ~ live_at d n y s
  end.
Proof. exact resolve_innermost. Qed.
Print Assumptions C17_resolve_innermost.

Theorem C17_define_then_resolve : forall (s : symtab) (n : str),
  st_resolve n (fst (st_define n s)) = Some (snd (st_define n s)).
Proof. exact define_then_resolve. Qed.
Print Assumptions C17_define_then_resolve.

(* Block structure: whatever is defined inside a (well-nested) block is gone
   when the block is closed. *)
Theorem C17_block_is_transparent : forall (h : list SymTab.sop) (s : symtab) (n : str),
  wellnested h ->
  st_resolve n (fst (st_run (SPush :: h ++ [SPop]) s)) = st_resolve n s.
Proof. exact block_is_transparent. Qed.
Print Assumptions C17_block_is_transparent.

(* The opcode table regenerated from code.go: the constants are pairwise
   distinct and every opcode's definition has the operand width vm.go's switch
   hard-codes (none, or one 16-bit operand). *)
Theorem C17_opcode_table : forall o : opc,
  opc_of_N (N_of_opc o) = Some o /\
  lookup_def (N_of_opc o) = Some (if vm_has_operand o then [2] else []).
Proof.
  intro o. split; [apply opc_of_N_of_opc|]. rewrite has_operand_vm. apply lookup_def_opc.
Qed.
Print Assumptions C17_opcode_table.

(* Make followed by decoding gives the operand back — when it fits 16 bits. *)
Theorem C17_make_decode_16bit : forall (o : opc) (z : Z) (rest : list N),
  has_operand o = true -> (0 <= z < 65536)%Z ->
  exists bs, make (N_of_opc o) [z] = Some bs /\
             decode1 (bs ++ rest) = Some ({| iop := N_of_opc o; iargs := [Z.to_N z]; ilen := 3 |}, rest).
Proof. exact make_decode. Qed.
Print Assumptions C17_make_decode_16bit.

(* … and beyond 16 bits Make fails (code.go after e351c68: ErrOperandRange):
   the compiler can no longer write an instruction other than the one it means. *)
Theorem C17_make_rejects_out_of_range : forall (o : opc) (z : Z),
  has_operand o = true -> (z < 0 \/ 65535 < z)%Z -> make (N_of_opc o) [z] = None.
Proof. exact make_rejects_out_of_range. Qed.
Print Assumptions C17_make_rejects_out_of_range.

(* Regression lemma: Make as it was before e351c68 truncated silently
   (uint16(o)); the witness is the one the harness used to replay. *)
Theorem C17_make_truncates_before_fix : exists (z : Z) (bs : list N) (i : instr),
  make_before_fix OpJump [z] = Some bs /\ decode1 bs = Some (i, []) /\ arg0 i <> Z.to_N z.
Proof.
  exists 65541%Z. eexists. eexists. split; [vm_compute; reflexivity|]. split; [vm_compute; reflexivity|].
  vm_compute. discriminate.
Qed.
Print Assumptions C17_make_truncates_before_fix.

(* ---------- non-vacuity ---------- *)
(* a 40+-byte program with a conditional, a loop with break and a range loop
   with a loop variable is accepted by the validator (so WF holds of it) *)
Definition ex_code : list N :=
  [ 0;0;0; 2;0;0;                  (*  0 x := c0 *)
    11; 35;0;26;                   (*  6 while true            (exit: 26) *)
    1;0;0; 0;0;1; 19; 35;0;23;     (* 10   if x > c1           (else: 23) *)
    34;0;26;                       (* 20     break             (patched to 26) *)
    34;0;6;                        (* 23   jump back to 6 *)
    0;0;2; 0;0;3; 0;0;4;           (* 26 stop step start *)
    33; 5;0;0;                     (* 35 None; SetLocal 0 *)
    36;0;1; 35;0;57;               (* 39 StepRange 1; JumpOnFalse 57 *)
    5;0;0; 4;0;0; 2;0;0;           (* 45 SetLocal 0; GetLocal 0; SetGlobal 0 *)
    34;0;39;                       (* 54 Jump 39 *)
    3;0;3 ].                       (* 57 Drop 3 *)

Example C17_ex_wf : wf_check {| bcode := ex_code; nconsts := 5; gcount := 1; lcount := 1 |} = true.
Proof. vm_compute. reflexivity. Qed.

(* the same code with the break patched one byte off, or with the final
   Drop taking one value too few, is rejected *)
Example C17_ex_bad_jump :
  wf_check {| bcode := [11; 35;0;8; 34;0;2; 11]; nconsts := 0; gcount := 0; lcount := 0 |} = false.
Proof. vm_compute. reflexivity. Qed.

Example C17_ex_unbalanced :
  wf_check {| bcode := [0;0;0]; nconsts := 1; gcount := 0; lcount := 0 |} = false.
Proof. vm_compute. reflexivity. Qed.

(* the VM model really runs it: halts with sp = LocalCount *)
Example C17_ex_runs :
  match vm_run 200 {| pcode := ex_code;
                      pconsts := (map (fun z => VNum (float_of_Z z)) [5; 2; 3; 1; 0]%Z);
                      pgcount := 1; plcount := 1 |}
               (vm_init {| pcode := ex_code; pconsts := (map (fun z => VNum (float_of_Z z)) [5; 2; 3; 1; 0]%Z);
                           pgcount := 1; plcount := 1 |}) with
  | FHalted s => sp_of s = 1 /\ ip s = 60
  | _ => False
  end.
Proof. vm_compute. split; reflexivity. Qed.

(* slot reuse after a closed block, no sharing while alive *)
Example C17_ex_symtab :
  let '(s, rs) := st_run [SPush; SDefine (s_ "a"); SPush; SDefine (s_ "b"); SPop; SDefine (s_ "c"); SPop] new_symtab in
  map (fun r => match r with RSym y => Some (sidx y) | _ => None end) rs
    = [None; Some 0; None; Some 1; None; Some 1; None] /\ st_local_count s = 4.
Proof. vm_compute. split; reflexivity. Qed.

(* a := [1 2 3]; m := {k:a}; i := 0
   while i < 3: a[i] = a[i] * 2; m["k"][i] = i; if i == 1: break end; i = i + 1 end
   -- element stores, a nested store, a break: accepted, wplain, WF, and the model runs to the end *)
Definition ex_stores : slist :=
  let num k := ENum (float_of_Z k) in
  let v x := EVar (s_ x) in
  SCons (SDecl (s_ "a") (EArr (ECons (num 1%Z) (ECons (num 2%Z) (ECons (num 3%Z) ENil)))))
 (SCons (SDecl (s_ "m") (EMap (PCons (s_ "k") (v "a") PNil) 1%Z))
 (SCons (SDecl (s_ "i") (num 0%Z))
 (SCons (SWhile (EBin BLt TNum TNum (v "i") (num 3%Z))
          (SCons (SAssign (EIndex (v "a") (v "i")) (EBin BStar TNum TNum (EIndex (v "a") (v "i")) (num 2%Z)))
          (SCons (SAssign (EIndex (EIndex (v "m") (EStr (s_ "k"))) (v "i")) (v "i"))
          (SCons (SIf (EBin BEq TNum TNum (v "i") (num 1%Z)) (SCons SBreak SNil) CNil NoElse)
          (SCons (SAssign (v "i") (EBin BPlus TNum TNum (v "i") (num 1%Z))) SNil))))) SNil))).

Example C17_ex_stores :
  wplain_slist ex_stores = true /\ nb_slist ex_stores = true /\ plain_slist ex_stores = false /\
  match compile ex_stores with
  | COk st => cbreaks st = [] /\
      (let bc := bytecode_of st in
       wf_check {| bcode := out_code bc; nconsts := N.of_nat (List.length (out_consts bc));
                   gcount := out_gcount bc; lcount := out_lcount bc |} = true) /\
      match vm_run 2000 (program_of (bytecode_of st)) (vm_init (program_of (bytecode_of st))) with
      | FHalted s => ostack s = [] /\ nth_error (globals s) 2 = Some (VNum (float_of_Z 1))
      | _ => False
      end
  | CErr _ => False
  end.
Proof. vm_compute. repeat split; reflexivity. Qed.


(* read before write: OpGetLocal 0; OpSetLocal 0 with LocalCount 1 is well formed and fails linit_check;
   the compiled examples pass it *)
Example C17_ex_linit :
  let bad := {| bcode := [N_of_opc GetLocal; 0; 0; N_of_opc SetLocal; 0; 0]; nconsts := 0; gcount := 0; lcount := 1 |} in
  wf_check bad = true /\ linit_check bad = false /\
  match compile ex_stores with
  | COk st => let bc := bytecode_of st in
              linit_check {| bcode := out_code bc; nconsts := N.of_nat (List.length (out_consts bc));
                             gcount := out_gcount bc; lcount := out_lcount bc |} = true
  | CErr _ => False
  end.
Proof. vm_compute. repeat split; reflexivity. Qed.

(* the VM with the store on a program with aliasing:
     a := [1 2 3]; b := a; b[0] = 9; m := {k:1}; n := m; n["z"] = 5; r := m["z"]; c := [a] + []; a[1] = 7
   WF, runs to the end with sp = LocalCount; afterwards a (through b) is [9 7 3], c = [[9 7 3]] (the
   concatenation copied the reference), r = 5 (the inserted key is in the shared Go map) while m still
   reads back {k:1} (no stored `order` got the key: vm-map-insert-lost) *)
Definition ex_alias : slist :=
  let num k := ENum (float_of_Z k) in
  let v x := EVar (s_ x) in
  SCons (SDecl (s_ "a") (EArr (ECons (num 1%Z) (ECons (num 2%Z) (ECons (num 3%Z) ENil)))))
 (SCons (SDecl (s_ "b") (v "a"))
 (SCons (SAssign (EIndex (v "b") (num 0%Z)) (num 9%Z))
 (SCons (SDecl (s_ "m") (EMap (PCons (s_ "k") (num 1%Z) PNil) 1%Z))
 (SCons (SDecl (s_ "n") (v "m"))
 (SCons (SAssign (EIndex (v "n") (EStr (s_ "z"))) (num 5%Z))
 (SCons (SDecl (s_ "r") (EIndex (v "m") (EStr (s_ "z"))))
 (SCons (SDecl (s_ "c") (EBin BPlus TArr TArr (EArr (ECons (v "a") ENil)) (EArr ENil)))
 (SCons (SAssign (EIndex (v "a") (num 1%Z)) (num 7%Z)) SNil)))))))).

Example C17_ex_store_aliasing :
  match compile ex_alias with
  | COk st =>
      let p := program_of (bytecode_of st) in
      wf_check (info_of p) = true /\
      match hvm_run 2000 p (hvm_init p) with
      | HFHalted s =>
          let arr l := VArr (map (fun z => VNum (float_of_Z z)) l) in
          hsp_of s = plcount p /\
          map (resolve 10 (hheap s)) (hglobals s)
          = [arr [9; 7; 3]%Z; arr [9; 7; 3]%Z; VMap [(s_ "k", VNum (float_of_Z 1))]; VMap [(s_ "k", VNum (float_of_Z 1))];
             VNum (float_of_Z 5); VArr [arr [9; 7; 3]%Z]]
      | _ => False
      end
  | CErr _ => False
  end.
Proof. vm_compute. repeat split; reflexivity. Qed.
