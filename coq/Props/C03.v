(* C03 - Parsing is total and every diagnostic is located: the lexer part.
   Property theorems only; every proof is [exact <lemma of LexerProofs>].

   [lex L D input] is the model (coq/Lexer.v) of the token stream
   lexer.New(input).Next() ... up to the first EOF, for the rune list
   input = []rune(source), with unicode.IsLetter = L and unicode.IsDigit = D.
   It is the lexer as it is since commit d745e6e (lookAt returns a sentinel
   that is not a rune beyond the end of the input).  All theorems hold for
   EVERY rune list (no validity, size or alphabet restriction) and EVERY oracle
   pair (L, D), without any hypothesis on the oracles.

   [lex_before_fix] is the lexer before that commit, in which a U+0000 of the
   source was taken for the end of the input; it is kept with its refuting
   witness as regression lemmas (C03_*_before_fix), the witness is replayed on
   the implementation by harness/c03.go on every run.

   The parser part of C03 (parse_total, errors_located) has no Gallina model
   at this stage: it is checked by the property oracle of harness/c03.go on
   the real parser.Parse (see claims.d/C03.json). *)
From Coq Require Import NArith List Bool.
From EvyV Require Import Base Lexer LexerSpec LexerProofs.
From EvyV.Gen Require Import TokenTypes Keywords.
Import ListNotations.
Open Scope N_scope.

(* lexing terminates (lex is a structural Fixpoint on the rune list, one step
   per rune, no fuel) with at least the EOF token and at most one token per
   rune plus EOF *)
Theorem C03_lex_total : forall L D (input : list N),
  lex L D input <> [] /\ (List.length (lex L D input) <= S (List.length input))%nat.
Proof. intros L D. exact (lex_gen_total L D false). Qed.
Print Assumptions C03_lex_total.

(* every token (EOF included): its Offset is an offset of the input, and its
   (Line, Col) is the position of that offset, i.e. 1 + the number of newlines
   before it and 1 + the number of runes since the last newline before it *)
Theorem C03_lex_positions : forall L D (input : list N),
  Forall (fun t => exists k : nat,
            t_off t = N.of_nat k /\ (k <= List.length input)%nat /\
            (t_line t, t_col t) = pos_of_offset input k)
         (lex L D input).
Proof. intros L D. exact (lex_gen_positions L D false). Qed.
Print Assumptions C03_lex_positions.

(* the token spans tile the WHOLE input: cutting the input at the Offsets of
   consecutive tokens gives non-empty lexemes whose concatenation is the input,
   the Offsets are the running sums of the lexeme lengths starting at 0 (so
   every rune belongs to exactly one token: the lexer skips nothing,
   whitespace, comments and illegal runes are tokens), and every token
   describes its lexeme ([lexeme_ok]: an operator / delimiter / NL / keyword
   token's lexeme is the format string of its type; IDENT, NUM_LIT and COMMENT
   carry the lexeme as literal; STRING_LIT carries strconv.Unquote of it;
   ILLEGAL is one rune that is no letter, digit or operator, or a quoted lexeme
   that Unquote rejects; WS is a blank or tab followed by blanks, tabs and
   carriage returns). *)
Theorem C03_lex_partition : forall L D (input : list N),
  let toks := lex L D input in
  let lx := lexemes_of input toks in
  concat lx = input /\
  Forall (fun x => x <> []) lx /\
  map t_off toks = 0 :: ends 0 lx /\
  Forall2 (lexeme_ok L D false) (removelast toks) lx.
Proof.
  intros L D input.
  exact (lex_gen_partition4 L D false input (fun H => False_ind _ (Bool.diff_false_true H))).
Qed.
Print Assumptions C03_lex_partition.

(* maximal munch: in the input, the rune that follows the lexeme of a WS token
   is no blank, tab or CR; after a NUM_LIT no digit or '.'; after an IDENT or
   keyword no letter, '_' or Unicode digit; after a COMMENT a newline or the
   end of the input ([rests input lx] lists what follows each lexeme) *)
Theorem C03_lex_maximal_munch : forall L D (input : list N),
  let toks := lex L D input in
  Forall2 (maximal_munch L D false) (removelast toks) (rests input (lexemes_of input toks)).
Proof.
  intros L D input.
  exact (lex_gen_maximal_munch L D false input (fun H => False_ind _ (Bool.diff_false_true H))).
Qed.
Print Assumptions C03_lex_maximal_munch.

(* the stream ends with the only EOF token, whose Offset is the length of the input *)
Theorem C03_lex_ends_with_eof : forall L D (input : list N),
  exists ts e, lex L D input = ts ++ [e] /\ t_type e = T_EOF /\
               Forall (fun t => t_type t <> T_EOF) ts /\
               t_off e = N.of_nat (List.length input).
Proof.
  intros L D input.
  exact (lex_gen_ends_with_eof L D false input (fun H => False_ind _ (Bool.diff_false_true H))).
Qed.
Print Assumptions C03_lex_ends_with_eof.

(* an identifier-shaped lexeme is a keyword token iff it is in the keyword
   table regenerated from token.go: for a token t with lexeme x (as in
   C03_lex_partition) where x is a letter or '_' followed by letters, '_' and
   Unicode digits: if the table maps x to k then t has type k (and no literal);
   if x is not in the table then t is IDENT with literal x; and if t's type is
   a keyword type at all then the table maps x to it *)
Theorem C03_keyword_iff : forall L D (t : token) (x : list N),
  lexeme_ok L D false t x -> ident_shaped L D false x ->
  (forall k, In (x, k) keywords -> t_type t = k /\ t_lit t = []) /\
  ((forall k, ~ In (x, k) keywords) -> t_type t = T_IDENT /\ t_lit t = x) /\
  (is_keyword_type (t_type t) = true -> In (x, t_type t) keywords).
Proof. intros L D. exact (keyword_iff_lexeme L D false). Qed.
Print Assumptions C03_keyword_iff.

(* facts about the regenerated table itself: distinct keys; every keyword's
   token type is a plain type (not EOF/IDENT/literal/layout) whose format
   string in tokenStrings is the keyword *)
Theorem C03_keyword_table : NoDup (map fst keywords) /\
  Forall (fun p => plain_type (snd p) = true /\ tt_format (snd p) = fst p) keywords.
Proof. exact (conj keywords_nodup keywords_table_ok). Qed.
Print Assumptions C03_keyword_table.

(* two facts that pin the strconv.Unquote model down on the common cases (the
   escape sequences are tied to Go by the string-escape stream of the harness):
   a quoted lexeme without backslash, quote or newline inside unquotes to its
   body; a lexeme without closing quote is rejected, i.e. is an ILLEGAL
   "invalid string" token *)
Theorem C03_unquote_plain : forall body : list N,
  Forall (fun c => c <> 34 /\ c <> 92 /\ c <> 10) body ->
  unquote (34 :: body ++ [34]) = Some body.
Proof. exact unquote_plain. Qed.
Print Assumptions C03_unquote_plain.

Theorem C03_unquote_unterminated : forall body : list N,
  Forall (fun c => c <> 34 /\ c <> 92) body -> unquote (34 :: body) = None.
Proof. exact unquote_unterminated. Qed.
Print Assumptions C03_unquote_unterminated.

(* ---------- regression lemmas: the lexer before commit d745e6e ---------- *)

Definition ascii_letter (c : N) : bool := ((65 <=? c) && (c <=? 90)) || ((97 <=? c) && (c <=? 122)).
Definition ascii_digit (c : N) : bool := (48 <=? c) && (c <=? 57).

(* before the fix the lexer did NOT tile every input: a U+0000 was taken for
   the end of the input and what followed was never tokenised (a, NUL, b: one
   IDENT and EOF at offset 1).  harness/c03.go replays the witness on
   lexer.New on every run and reports lex-nul-truncates-input if it reproduces. *)
Theorem C03_lex_before_fix_tiles_whole_input_refuted : exists L D input,
  oracle_ok L D /\ concat (lexemes_of input (lex_before_fix L D input)) <> input /\
  map (fun t => (tt_name (t_type t), t_off t)) (lex_before_fix L D input) =
    [(tt_name T_IDENT, 0); (tt_name T_EOF, 1)].
Proof.
  exists ascii_letter, ascii_digit, [97; 0; 98]. split; [split; reflexivity|].
  split; [vm_compute; discriminate | vm_compute; reflexivity].
Qed.
Print Assumptions C03_lex_before_fix_tiles_whole_input_refuted.

(* what did hold before the fix: the tiling of the input up to the first
   U+0000, provided U+0000 is neither a letter nor a digit for the oracles *)
Theorem C03_lex_before_fix_partition : forall L D (input : list N),
  oracle_ok L D ->
  let toks := lex_before_fix L D input in
  let lx := lexemes_of input toks in
  concat lx = upto_nul input /\
  Forall (fun x => x <> []) lx /\
  map t_off toks = 0 :: ends 0 lx /\
  Forall2 (lexeme_ok L D true) (removelast toks) lx.
Proof. intros L D input Ho. exact (lex_gen_partition4 L D true input (fun _ => Ho)). Qed.
Print Assumptions C03_lex_before_fix_partition.

(* the fix changed nothing for sources without U+0000 *)
Theorem C03_lex_before_fix_agrees_without_nul : forall L D (input : list N),
  Forall (fun c => c <> 0) input -> lex_before_fix L D input = lex L D input.
Proof. exact lex_before_fix_agrees. Qed.
Print Assumptions C03_lex_before_fix_agrees_without_nul.

(* ---------- non-vacuity ---------- *)

(* the model computes:
   x := "a\n" // c <newline> if   lexes to IDENT WS DECLARE WS STRING_LIT WS COMMENT NL IF EOF
   with the string unquoted and line/col advancing over the newline *)
Example C03_ex_lex :
  map (fun t => (tt_name (t_type t), t_lit t, (t_off t, t_line t, t_col t)))
      (lex ascii_letter ascii_digit
           [120; 32; 58; 61; 32; 34; 97; 92; 110; 34; 32; 47; 47; 32; 99; 10; 105; 102]) =
  [(tt_name T_IDENT, [120], (0, 1, 1)); (tt_name T_WS, [], (1, 1, 2)); (tt_name T_DECLARE, [], (2, 1, 3));
   (tt_name T_WS, [], (4, 1, 5)); (tt_name T_STRING_LIT, [97; 10], (5, 1, 6)); (tt_name T_WS, [], (10, 1, 11));
   (tt_name T_COMMENT, [47; 47; 32; 99], (11, 1, 12)); (tt_name T_NL, [], (15, 1, 16));
   (tt_name T_IF, [], (16, 2, 1)); (tt_name T_EOF, [], (18, 2, 3))].
Proof. vm_compute. reflexivity. Qed.

(* an unterminated string is one ILLEGAL token spanning the rest of the line;
   a raw byte escape is kept as a raw byte (0x110000 + 0xff) *)
Example C03_ex_bad_string :
  map (fun t => (tt_name (t_type t), t_lit t, t_off t))
      (lex ascii_letter ascii_digit [34; 97; 98; 10; 34; 92; 120; 102; 102; 34]) =
  [(tt_name T_ILLEGAL, invalid_string, 0); (tt_name T_NL, [], 3);
   (tt_name T_STRING_LIT, [1114367], 4); (tt_name T_EOF, [], 10)].
Proof. vm_compute. reflexivity. Qed.

(* keyword_iff is not vacuous: "if" is identifier-shaped and in the table *)
Example C03_ex_keyword : ident_shaped ascii_letter ascii_digit false [105; 102] /\ In ([105; 102], T_IF) keywords.
Proof.
  split.
  - exists 105, [102]. repeat split; try reflexivity. repeat constructor.
  - unfold keywords. simpl. tauto.
Qed.

(* the lexer on the witness that refuted its predecessor: IDENT a, ILLEGAL NUL, IDENT b, EOF at 3;
   a NUL inside a comment or a string literal is an ordinary rune *)
Example C03_ex_nul :
  map (fun t => (tt_name (t_type t), t_off t)) (lex ascii_letter ascii_digit [97; 0; 98]) =
  [(tt_name T_IDENT, 0); (tt_name T_ILLEGAL, 1); (tt_name T_IDENT, 2); (tt_name T_EOF, 3)] /\
  map (fun t => (tt_name (t_type t), t_lit t)) (lex ascii_letter ascii_digit [34; 0; 34; 47; 47; 0]) =
  [(tt_name T_STRING_LIT, [0]); (tt_name T_COMMENT, [47; 47; 0]); (tt_name T_EOF, [])].
Proof. split; vm_compute; reflexivity. Qed.

(* the hypotheses of the before-fix lemmas are satisfiable *)
Example C03_ex_oracle_ok : oracle_ok ascii_letter ascii_digit /\ Forall (fun c => c <> 0) [97; 32; 98].
Proof. split; [split; reflexivity | repeat constructor; discriminate]. Qed.

(* maximal munch is not vacuous: in "ab1 12.5x" the IDENT ab1 is followed by a blank, the
   WS by a digit, the NUM_LIT 12.5 by the letter x *)
Example C03_ex_munch :
  let input := [97; 98; 49; 32; 49; 50; 46; 53; 120] in
  map (fun t => tt_name (t_type t)) (lex ascii_letter ascii_digit input) =
    [tt_name T_IDENT; tt_name T_WS; tt_name T_NUM_LIT; tt_name T_IDENT; tt_name T_EOF] /\
  rests input (lexemes_of input (lex ascii_letter ascii_digit input)) =
    [[32; 49; 50; 46; 53; 120]; [49; 50; 46; 53; 120]; [120]; []].
Proof. split; vm_compute; reflexivity. Qed.

(* C03_unquote_plain / C03_unquote_unterminated are not vacuous *)
Example C03_ex_unquote_hyps :
  Forall (fun c => c <> 34 /\ c <> 92 /\ c <> 10) [97; 233; 128512] /\
  unquote [34; 97; 233; 128512; 34] = Some [97; 233; 128512] /\
  unquote [34; 97; 98] = None.
Proof. split; [repeat constructor; discriminate | split; reflexivity]. Qed.
