(* C06, round trip at program level (FormatParseProgProofs.v), against Parser.parse = parser.Parse:
   signature pre-pass, parseProgram's statement loop, final validateScope, error report.

   C06_roundtrip_program_partial: for every non-empty program p without func / on that satisfies
   [poks] (each top-level statement satisfies [sok] of Props/C06_block.v in the context the scope
   checker computes from the statements before it; no top-level statement always terminates) and
   whose global scope ends with every declared variable used,
       parse (tokens of format p, with any positions) = Accept (body_trees false p):
   the parser model accepts the formatter's tokens and returns p's own tree, with runs of blank
   statements squeezed into one empty statement as the formatter squeezes them (the stated
   normalisation; comments are outside the fragment because Parser.v's trees do not carry them).
   _partial — fragment: the statements of [sok] (declarations, assignment to a variable or an index / dot target, calls,
   while, for, if / else if / else, break / return inside them), no func, no on.
   No lexical hypothesis: that no formatted token is ILLEGAL or the keyword func (the pre-pass scans
   the raw token list for `func`) is proved from the fragment (FormatParsePlainProofs.v; the fragment's
   map keys exclude the text func, which parser.Parse cannot accept as a key for the same reason). *)
From Coq Require Import List String NArith ZArith Bool Arith.
From EvyV Require Import Base FmtAst Format Pratt Parser ParserRules ParserScope ParserCursor FormatParse FormatParseListProofs
  FormatParseStmtProofs FormatParseBlockProofs FormatParseProgProofs FormatParseAcceptProofs FormatParseSqueezeProofs.
From EvyV.Gen Require Import Prec.
Import ListNotations.
Local Open Scope nat_scope.

Theorem C06_roundtrip_program_partial :
  forall (B : benv), (forall s t n, b_tyerr B s t n = false) ->
  forall (fixed : fixes) (p : list fstmt) (Gout : ctx) (poss : list position) (eof : position),
  p <> [] ->
  poks B (builtin_table B) (G0 B) false p Gout -> frame_used Gout ->
  List.length poss = List.length (toks_of_pieces (fmt_prog fixed p)) ->
  parse B (combine (toks_of_pieces (fmt_prog fixed p)) poss) eof = Accept (body_trees false p).
Proof. exact program_roundtrip. Qed.
Print Assumptions C06_roundtrip_program_partial.

(* The same with the scoping and control side conditions DERIVED from the judgements b-pratt proves
   for every accepted program (FormatParseAcceptProofs.v): if some token list raw - the source, say -
   is accepted by the parser model with p's tree and defines no function, then the formatter's
   tokens for p are accepted with the same tree.  Used: C05_scope_accept_static (call rules), C05_scope_accept_scoped (the declarative scope
   checker passes: every declare / visibility / every-variable-used condition of [sok] and [poks],
   the contexts threaded through blocks and else-if chains) and accept_structure (break / return
   placement, no dead code; no top-level statement always terminates).
   What remains a hypothesis is per expression, [eokb]: names are identifiers,
   the statement forms are those of the fragment (no comments, no func / on), blocks are not empty, and every expression is in the round-trip fragment of
   C06_roundtrip.v ([top_ok] / [item_ok]) in the context the scope checker computes for its position.
   That the callee of a call statement is in the function table with a matching argument count is
   derived from C05_scope_accept_static, given that the builtin table is consistent ([tbl_ok]: a
   builtin without parameters has arity 0).
   The tree is the squeezed one (body_trees): the hypothesis fits sources without runs of blank
   lines, e.g. already formatted sources - for those this is idempotence of format at the level of
   the parser model's trees. *)
Theorem C06_roundtrip_accepted_program_partial :
  forall (B : benv), (forall s t n, b_tyerr B s t n = false) ->
  forall (fixed : fixes), tbl_ok (builtin_table B) ->
  forall (p : list fstmt) (raw : list (token * position)) (eof0 : position) (poss : list position) (eof : position),
  parse B raw eof0 = Accept (body_trees false p) -> fn_table B raw = builtin_table B ->
  p <> [] -> eokb B (builtin_table B) (G0 B) p ->
  List.length poss = List.length (toks_of_pieces (fmt_prog fixed p)) ->
  parse B (combine (toks_of_pieces (fmt_prog fixed p)) poss) eof = Accept (body_trees false p).
Proof. exact program_roundtrip_accepted. Qed.
Print Assumptions C06_roundtrip_accepted_program_partial.

(* ... and for ARBITRARY comment-free sources: [raw_trees p] is the tree parser.Parse builds for the
   source the formatter tree p was exported from - one empty statement per blank line, anywhere, in any
   number.  The judgements of the accepted parse do not look at empty statements
   (FormatParseSqueezeProofs.raw_same: scope checker, structure rules, termination and return flags
   agree on the raw and on the squeezed tree, for every statement form including func / on), so
       the source is accepted with tree [raw_trees p]   ==>
       the formatted text is accepted with tree [body_trees false p] = the raw tree with every run of
       empty statements squeezed into one. *)
Theorem C06_roundtrip_source_program_partial :
  forall (B : benv), (forall s t n, b_tyerr B s t n = false) ->
  forall (fixed : fixes), tbl_ok (builtin_table B) ->
  forall (p : list fstmt) (raw : list (token * position)) (eof0 : position) (poss : list position) (eof : position),
  parse B raw eof0 = Accept (raw_trees p) -> fn_table B raw = builtin_table B ->
  p <> [] -> eokb B (builtin_table B) (G0 B) p ->
  List.length poss = List.length (toks_of_pieces (fmt_prog fixed p)) ->
  parse B (combine (toks_of_pieces (fmt_prog fixed p)) poss) eof = Accept (body_trees false p).
Proof. exact program_roundtrip_source. Qed.
Print Assumptions C06_roundtrip_source_program_partial.

Theorem C06_judgements_ignore_empty_statements :
  forall p : list fstmt,
  structure_ok (raw_trees p) = structure_ok (body_trees false p) /\
  (forall T, scope_prog T (raw_trees p) = scope_prog T (body_trees false p)) /\
  (forall B F, stmts_sok B F (raw_trees p) <-> stmts_sok B F (body_trees false p)).
Proof. exact prog_same. Qed.
Print Assumptions C06_judgements_ignore_empty_statements.

(* the derivation on its own: per-expression conditions + the two judgements give [poks] *)
Theorem C06_side_conditions_from_judgements :
  forall (B : benv) (F : list (str * finfo)), tbl_ok F ->
  forall (body : list fstmt) (G : ctx) (blank : bool) (Gout : ctx),
  eokb B F G body ->
  forallb (stmt_ok KTop false) (body_trees blank body) = true ->
  Forall (stmt_sok B F) (body_trees blank body) ->
  scope_stmts (tabs_of B F) (body_trees blank body) G = Some Gout ->
  poks B F G blank body Gout.
Proof. exact poks_derive. Qed.
Print Assumptions C06_side_conditions_from_judgements.

(* the statement loop alone, from any state between statements *)
Theorem C06_roundtrip_program_loop_partial :
  forall (B : benv), (forall s t n, b_tyerr B s t n = false) ->
  forall (fixed : fixes) (F : list (str * finfo)) (G : ctx) (blank : bool) (body : list fstmt) (Gout : ctx),
  poks B F G blank body Gout ->
  forall (fuel : nat) (acc : list stmt) (s : pst),
  szb blank body < fuel -> ST F s (skip1 (body_toks fixed 0 blank body)) G top_fr ->
  exists s', program_loop B fuel acc false s = Ok (rev acc ++ body_trees blank body) s' /\ ST F s' [] Gout top_fr.
Proof. exact program_loop_roundtrip. Qed.
Print Assumptions C06_roundtrip_program_loop_partial.

(* non-vacuity: the model runs.   i := 0 / (blank) / while i < 3 / i = i + 1 / end /
   for k := range 1 i 2 / print k i / end / for range 2 / print i / end / print i *)
Definition C06_prog_B : benv :=
  {| b_funcs := [(s_ "print"%string, false)]; b_arity := []; b_globals := []; b_events := []; b_tyerr := fun _ _ _ => false |}.
Example C06_program_example :
  let i := FVar (s_ "i"%string) in
  let num := fun n : string => FNum 0%Z (s_ n) in
  let p := [FmtAst.SInferredDecl (s_ "i"%string) (num "0"%string) [];
            FmtAst.SEmpty []; FmtAst.SEmpty [];
            FmtAst.SWhile (FBin OpLt false i (num "3"%string)) [] [FmtAst.SAssign i (FBin OpPlus false i (num "1"%string)) []] [];
            FmtAst.SFor (Some (s_ "k"%string)) (RStep (Some (num "1"%string)) i (Some (num "2"%string))) []
              [FmtAst.SCall (s_ "print"%string) [FVar (s_ "k"%string); i] []] [];
            FmtAst.SFor None (RExpr (num "2"%string)) [] [FmtAst.SCall (s_ "print"%string) [i] []] [];
            FmtAst.SInferredDecl (s_ "m"%string) (FMap [] [] []) [];
            FmtAst.SAssign (FDot (FVar (s_ "m"%string)) (s_ "k"%string)) (FArr [k_el] [i]) [];
            FmtAst.SAssign (FIdx (FDot (FVar (s_ "m"%string)) (s_ "k"%string)) (num "0"%string)) (FBin OpPlus false i (num "1"%string)) [];
            FmtAst.SCall (s_ "print"%string) [i; FVar (s_ "m"%string)] []] in
  let toks := toks_of_pieces (fmt_prog current_fixes p) in
  parse C06_prog_B (combine toks (map (fun _ => (0, 0)) toks)) (0, 0) = Accept (body_trees false p).
Proof. vm_compute. reflexivity. Qed.
