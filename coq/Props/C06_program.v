(* C06, round trip at program level (FormatParseProgProofs.v), against Parser.parse = parser.Parse:
   signature pre-pass, parseProgram's statement loop, final validateScope, error report.

   C06_roundtrip_program_partial: for every non-empty program p without func / on that satisfies
   [poks] (each top-level statement satisfies [sok] of Props/C06_block.v in the context the scope
   checker computes from the statements before it; no top-level statement always terminates) and
   whose global scope ends with every declared variable used,
       parse (tokens of format p, with any positions) = Accept (body_trees false p):
   the parser model accepts the formatter's tokens and returns p's own tree, with runs of blank
   statements squeezed into one empty statement as the formatter squeezes them (the stated
   normalisation; comments are outside the fragment because Parser.v's trees do not carry them).
   _partial — fragment: the statements of [sok] (declarations, assignment to a variable, calls,
   while, if / else if / else, break / return inside them), no func, no on, no for, no a[i] = v;
   lexical hypothesis, decidable, not yet proved from the fragment: no formatted token is ILLEGAL
   or the keyword func (the pre-pass scans the raw token list for `func`). *)
From Coq Require Import List String NArith ZArith Bool Arith.
From EvyV Require Import Base FmtAst Format Pratt Parser ParserRules ParserScope ParserCursor FormatParse FormatParseListProofs
  FormatParseStmtProofs FormatParseBlockProofs FormatParseProgProofs.
From EvyV.Gen Require Import Prec.
Import ListNotations.
Local Open Scope nat_scope.

Theorem C06_roundtrip_program_partial :
  forall (B : benv), (forall s t n, b_tyerr B s t n = false) ->
  forall (fixed : fixes) (p : list fstmt) (Gout : ctx) (poss : list position) (eof : position),
  p <> [] ->
  poks B (builtin_table B) (G0 B) false p Gout -> frame_used Gout ->
  Forall (fun t => ttype t <> T_ILLEGAL /\ ttype t <> T_FUNC) (toks_of_pieces (fmt_prog fixed p)) ->
  List.length poss = List.length (toks_of_pieces (fmt_prog fixed p)) ->
  parse B (combine (toks_of_pieces (fmt_prog fixed p)) poss) eof = Accept (body_trees false p).
Proof. exact program_roundtrip. Qed.
Print Assumptions C06_roundtrip_program_partial.

(* the statement loop alone, from any state between statements *)
Theorem C06_roundtrip_program_loop_partial :
  forall (B : benv), (forall s t n, b_tyerr B s t n = false) ->
  forall (fixed : fixes) (F : list (str * finfo)) (G : ctx) (blank : bool) (body : list fstmt) (Gout : ctx),
  poks B F G blank body Gout ->
  forall (fuel : nat) (acc : list stmt) (s : pst),
  szb blank body < fuel -> ST F s (skip1 (body_toks fixed 0 blank body)) G top_fr ->
  exists s', program_loop B fuel acc false s = Ok (rev acc ++ body_trees blank body) s' /\ ST F s' [] Gout top_fr.
Proof. exact program_loop_roundtrip. Qed.
Print Assumptions C06_roundtrip_program_loop_partial.

(* non-vacuity: the model runs.   i := 0 / (blank) / while i < 3 / i = i + 1 / end / print i *)
Definition C06_prog_B : benv :=
  {| b_funcs := [(s_ "print"%string, false)]; b_arity := []; b_globals := []; b_events := []; b_tyerr := fun _ _ _ => false |}.
Example C06_program_example :
  let i := FVar (s_ "i"%string) in
  let num := fun n : string => FNum 0%Z (s_ n) in
  let p := [FmtAst.SInferredDecl (s_ "i"%string) (num "0"%string) [];
            FmtAst.SEmpty []; FmtAst.SEmpty [];
            FmtAst.SWhile (FBin OpLt false i (num "3"%string)) [] [FmtAst.SAssign i (FBin OpPlus false i (num "1"%string)) []] [];
            FmtAst.SCall (s_ "print"%string) [i] []] in
  let toks := toks_of_pieces (fmt_prog current_fixes p) in
  parse C06_prog_B (combine toks (map (fun _ => (0, 0)) toks)) (0, 0) = Accept (body_trees false p).
Proof. vm_compute. reflexivity. Qed.
