(* placeholder, replaced below *)
From EvyV Require Import Base FmtAst Format.
