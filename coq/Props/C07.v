(* C07 — Formatting is canonical and idempotent.
   Property theorems only; every proof is [exact <lemma>] (or a two-line
   instantiation of one).

   Model: Format.v (format.go + multiline.go).  [current_fixes] = [all_fixes] is the
   code as it is now (/repo 6dbe4ed: nlAfter marks the statement directly before
   the comment run; c2656fe: the closing bracket of a multi-line literal is indented
   also after a trailing comment item); [no_fixes] / [nl_after false] / [skel_step false]
   are the code before those commits, kept for the regression lemmas.

   Proved for ALL formatter trees + side tables satisfying wf_prog:
     - shape: every line is 4k spaces followed by text without white space at
       either end, or is empty; never two consecutive empty lines; no line of
       blanks ([shape_lines], a scanner over the code points defined in
       Format.v next to the model; the examples below show what it rejects);
     - the text ends with a newline; it ends with EXACTLY one when the last
       top-level statement is not a blank line — and with two when it is
       (refuted: the code keeps one trailing blank line, as format_test.go expects).
   Proved for ALL statement-kind skeletons (blank / comment / statement / func):
     - a statement that nlAfter marks is always followed by a non-blank one
       (so the inserted blank line never doubles an existing one), both variants;
     - one formatting pass of the model in force is idempotent on the skeleton and
       leaves nothing marked;
     - nlAfter as it was before 6dbe4ed is NOT idempotent (regression lemma; the witness
       is still replayed on the implementation by harness/c07.go, which now must pass).
   `evy fmt -c`: the model of main.go's check accepts t iff t = format (parse t);
   it accepts the formatter's own output iff formatting that output again
   changes nothing.

   Not proved here (needs the parser model, route A): the text-level statement
   format (parse (format (parse src))) = format (parse src) and insensitivity
   to white-space variants; both are decided on the implementation by
   harness/c07.go.  The tie between [skel_step] and the real re-parse is checked
   there too (skeleton-step-differs). *)
From Coq Require Import ZArith NArith List Bool String.
From EvyV Require Import Base FmtAst Format FormatProofs FormatNlProofs FormatShapeProofs FormatSpecProofs FormatDepthProofs FmtCheckProofs.
From EvyV Require FormatParseFuncProofs.
Import ListNotations.
Open Scope N_scope.

Theorem C07_format_shape : forall (fixed : fixes) (p : fprog),
  wf_prog p = true -> shape_lines (format fixed p) = true.
Proof. exact format_shape. Qed.
Print Assumptions C07_format_shape.

(* the same, read line by line: every newline-terminated line of the output is empty or
   4k spaces followed by a non-empty text with no white space at either end, and no two
   consecutive lines are empty ([lines_of], [line_ok], [nde] are defined in FormatSpecProofs.v) *)
Theorem C07_format_lines : forall (fixed : fixes) (p : fprog),
  wf_prog p = true ->
  Forall line_ok (lines_of (format fixed p)) /\ nde false (lines_of (format fixed p)).
Proof. exact format_lines_ok. Qed.
Print Assumptions C07_format_lines.

(* the scanner used above means what it should, for every text *)
Theorem C07_shape_lines_meaning : forall s : str,
  shape_lines s = true -> Forall line_ok (lines_of s) /\ nde false (lines_of s).
Proof. exact shape_lines_spec. Qed.
Print Assumptions C07_shape_lines_meaning.

Theorem C07_ends_one_nl_meaning : forall s : str,
  ends_one_nl s = true -> s = [10] \/ exists t c, s = t ++ [c; 10] /\ c <> 10.
Proof. exact ends_one_nl_spec. Qed.
Print Assumptions C07_ends_one_nl_meaning.

Theorem C07_format_single_final_newline : forall (fixed : fixes) (p : fprog),
  wf_prog p = true -> p <> [] -> is_blank (last p (SEmpty [])) = false ->
  ends_one_nl (format fixed p) = true.
Proof. exact format_single_final_newline. Qed.
Print Assumptions C07_format_single_final_newline.

(* the code keeps a trailing blank line: `print 1` followed by blank lines *)
Theorem C07_single_final_newline_refuted : exists p : fprog,
  wf_prog p = true /\ ends_one_nl (format no_fixes p) = false /\ ends_one_nl (format all_fixes p) = false.
Proof.
  exists [SCall (s_ "print") [FNum 0 (s_ "1")] []; SEmpty []; SEmpty []].
  vm_compute. repeat split; reflexivity.
Qed.
Print Assumptions C07_single_final_newline_refuted.

(* nlAfter never asks for a blank line in front of a blank line (all skeletons, both variants) *)
Theorem C07_marked_statement_is_followed_by_nonblank : forall (fixed : bool) (ks : list skind) (i : nat),
  mem_nat i (nl_after fixed ks) = true ->
  exists k, nth_error ks (S i) = Some k /\ k <> KEmpty.
Proof. exact nl_after_next_nonblank. Qed.
Print Assumptions C07_marked_statement_is_followed_by_nonblank.

(* idempotence of the blank-line logic (nlAfter after blank-run squeezing) of the model in
   force ([current_fixes]: nlAfter as repaired by /repo 6dbe4ed), for every skeleton *)
Theorem C07_blank_line_logic_idempotent : forall ks : list skind,
  skel_step (fix_nl current_fixes) (skel_step (fix_nl current_fixes) ks) = skel_step (fix_nl current_fixes) ks.
Proof. exact skel_step_fixed_idempotent. Qed.
Print Assumptions C07_blank_line_logic_idempotent.

Theorem C07_blank_line_logic_stable : forall ks : list skind,
  nl_after (fix_nl current_fixes) (skel_step (fix_nl current_fixes) ks) = [].
Proof. exact skel_step_fixed_stable. Qed.
Print Assumptions C07_blank_line_logic_stable.

(* regression lemma about nlAfter as it was before 6dbe4ed (it marked the FIRST statement of
   the run): not idempotent.  a := 1 / b := 2 / // c / func f *)
Theorem C07_format_idempotent_before_fix_refuted : exists ks : list skind,
  skel_step false (skel_step false ks) <> skel_step false ks.
Proof. exists [KStmt; KStmt; KComment; KFunc]. vm_compute. discriminate. Qed.
Print Assumptions C07_format_idempotent_before_fix_refuted.

(* exact indentation: a non-blank statement at block depth d ([at_depth], defined in
   FormatDepthProofs.v from the tree: 0 at top level, +1 per enclosing if/else/while/for/func/on
   body) is written at the beginning of a line behind exactly 4*d spaces, and its own text
   starts with a non-blank character *)
Theorem C07_statement_at_exact_depth : forall (fixed : fixes) (p : fprog) (d : nat) (s : fstmt),
  at_depth p d s -> is_blank s = false -> wf_stmt s = true ->
  exists pre post,
    format fixed p = pre ++ spaces (4 * d) ++ render (fmt_stmt fixed d s) ++ [10] ++ post
    /\ (pre = [] \/ exists q, pre = q ++ [10])
    /\ exists c r, render (fmt_stmt fixed d s) = c :: r /\ is_space c = false.
Proof. exact stmt_at_exact_depth. Qed.
Print Assumptions C07_statement_at_exact_depth.

(* the output skeleton of one pass never has two consecutive blank lines *)
Theorem C07_output_skeleton_has_no_adjacent_blank_lines : forall ks : list skind,
  no_adj_empty (skel_step (fix_nl current_fixes) ks) = true.
Proof. exact skel_step_no_adj_empty. Qed.
Print Assumptions C07_output_skeleton_has_no_adjacent_blank_lines.

(* idempotence of the formatter model at top level, as far as it can be said without a parser
   model: ANY tree whose top-level statement kinds are the skeleton of a formatter output is
   written statement by statement — the second pass inserts no blank line and squeezes none
   (the harness checks that the kinds of the real re-parse are that skeleton) *)
Theorem C07_second_pass_is_plain : forall (p : fprog) (ks : list skind),
  map stmt_kind p = skel_step (fix_nl current_fixes) ks ->
  fmt_prog current_fixes p = flat_map (plain_line current_fixes) p.
Proof. intros p ks H. exact (second_pass_is_plain current_fixes p ks eq_refl H). Qed.
Print Assumptions C07_second_pass_is_plain.

(* Tie to the parser model (round trip of C06_funcs.v): the tree [prog_trees nl 0 false p] that
   Parser.program_loop returns for the formatter's tokens of a comment-free p has, as its top-level statement
   kinds, exactly one step of the blank-line logic on p's kinds.  With C07_blank_line_logic_idempotent /
   C07_blank_line_logic_stable: on the re-parsed tree a second pass marks nothing and squeezes nothing.
   _partial: this is idempotence of the blank-line structure on the fragment of
   C06_roundtrip_program_loop_funcs_partial, not of the text - Parser.v's trees do not carry the types and
   literal texts the formatter prints, so format (parse (format p)) is not a function of them. *)
Theorem C07_format_idempotent_fragment_partial : forall (p : fprog), p <> [] ->
  Forall (fun x => stmt_kind x <> KComment) p ->
  let nl := nl_after (fix_nl current_fixes) (map stmt_kind p) in
  let ks' := map FormatParseFuncProofs.pkind (FormatParseFuncProofs.prog_trees nl 0%nat false p) in
  ks' = skel_step (fix_nl current_fixes) (map stmt_kind p) /\
  nl_after (fix_nl current_fixes) ks' = [] /\
  skel_step (fix_nl current_fixes) ks' = ks'.
Proof. exact FormatParseFuncProofs.reparse_skeleton_step. Qed.
Print Assumptions C07_format_idempotent_fragment_partial.

(* `evy fmt -c` *)
Theorem C07_check_accepts_iff_formatted : forall (parse : str -> option fprog) (fixed : fixes) (t : str),
  fmt_check parse fixed t = true <-> exists p, parse t = Some p /\ t = format fixed p.
Proof. exact fmt_check_iff. Qed.
Print Assumptions C07_check_accepts_iff_formatted.

(* what --check accepts has the shape of the formatter's output, on the bytes of the text: so no white space of any
   kind (blank, tab, the CR of a CRLF line ending, FF, VT, NBSP ...) directly before a newline is ever accepted
   (the parser is a parameter that yields well-formed trees; harness/c07.go runs byte-level variants of texts
   through the real binary against this) *)
Theorem C07_check_accepted_text_is_shaped : forall (parse : str -> option fprog) (fixed : fixes) (t : str),
  (forall p, parse t = Some p -> wf_prog p = true) ->
  fmt_check parse fixed t = true -> shape_lines t = true.
Proof. exact check_accepted_is_shaped. Qed.
Print Assumptions C07_check_accepted_text_is_shaped.

Theorem C07_check_rejects_space_before_newline : forall (parse : str -> option fprog) (fixed : fixes) (a b : str) (w : N),
  (forall p, parse (a ++ w :: 10 :: b) = Some p -> wf_prog p = true) ->
  is_space w = true -> w <> 10 ->
  fmt_check parse fixed (a ++ w :: 10 :: b) = false.
Proof. exact check_rejects_space_before_newline. Qed.
Print Assumptions C07_check_rejects_space_before_newline.

Theorem C07_check_rejects_crlf : forall (parse : str -> option fprog) (fixed : fixes) (a b : str),
  (forall p, parse (a ++ 13 :: 10 :: b) = Some p -> wf_prog p = true) ->
  fmt_check parse fixed (a ++ 13 :: 10 :: b) = false.
Proof. exact check_rejects_crlf. Qed.
Print Assumptions C07_check_rejects_crlf.

Theorem C07_check_accepts_own_output : forall (parse : str -> option fprog) (fixed : fixes) (p p' : fprog),
  parse (format fixed p) = Some p' ->
  (fmt_check parse fixed (format fixed p) = true <-> format fixed p' = format fixed p).
Proof. exact check_accepts_own_output. Qed.
Print Assumptions C07_check_accepts_own_output.

(* ---------- non-vacuity, witnesses ---------- *)
Definition C07_asg (n v : string) : fstmt := SInferredDecl (s_ n) (FNum 0 (s_ v)) [].
Definition C07_func : fstmt := SFunc (s_ "f") None [] None [] [SCall (s_ "print") [FVar (s_ "a"); FVar (s_ "b")] []] [].

(* the tree of `a := 1 / b := 2 / // c / func f ...` and the tree of the re-parse of its formatted text *)
Definition C07_witness : fprog := [C07_asg "a" "1"; C07_asg "b" "2"; SEmpty (s_ "// c"); C07_func].
Definition C07_witness_reparsed : fprog :=
  [C07_asg "a" "1"; SEmpty []; C07_asg "b" "2"; SEmpty (s_ "// c"); C07_func].
(* the tree of the re-parse of the REPAIRED formatter's output *)
Definition C07_witness_reparsed_fixed : fprog :=
  [C07_asg "a" "1"; C07_asg "b" "2"; SEmpty []; SEmpty (s_ "// c"); C07_func].

Example C07_witness_text :
  wf_prog C07_witness = true /\
  format no_fixes C07_witness =
    s_ "a := 1" ++ k_nl ++ k_nl ++ s_ "b := 2" ++ k_nl ++ s_ "// c" ++ k_nl ++ s_ "func f" ++ k_nl ++ s_ "    print a b" ++ k_nl ++ s_ "end" ++ k_nl /\
  format no_fixes C07_witness_reparsed <> format no_fixes C07_witness /\
  format all_fixes C07_witness_reparsed_fixed = format all_fixes C07_witness /\
  format all_fixes C07_witness =
    s_ "a := 1" ++ k_nl ++ s_ "b := 2" ++ k_nl ++ k_nl ++ s_ "// c" ++ k_nl ++ s_ "func f" ++ k_nl ++ s_ "    print a b" ++ k_nl ++ s_ "end" ++ k_nl.
Proof. vm_compute. repeat split; try reflexivity; discriminate. Qed.

(* the shape predicate is not trivially true *)
Example C07_shape_rejects :
  shape_lines (s_ "x := 1  " ++ k_nl) = false /\          (* trailing blanks *)
  shape_lines (s_ "x" ++ k_nl ++ k_nl ++ k_nl) = false /\  (* two empty lines *)
  shape_lines (s_ "  x" ++ k_nl) = false /\                (* indentation not a multiple of 4 *)
  shape_lines (s_ "    " ++ k_nl) = false /\               (* a line of blanks *)
  shape_lines (s_ "if true" ++ k_nl ++ s_ "    x := [1 // c" ++ k_nl ++ s_ "    ]" ++ k_nl ++ s_ "end" ++ k_nl) = true.
Proof. vm_compute. repeat split; reflexivity. Qed.

(* the closing bracket after a trailing comment item: column 0 inside a block as the code is, indented when repaired *)
Example C07_close_bracket_after_comment :
  let p := [SIf (CBlock (FBool true) [] [SInferredDecl (s_ "x") (FArr [k_el; s_ "// c" ++ k_nl] [FNum 0 (s_ "1")]) []]) [] None []] in
  wf_prog p = true /\
  format no_fixes p = s_ "if true" ++ k_nl ++ s_ "    x := [1 // c" ++ k_nl ++ s_ "]" ++ k_nl ++ s_ "end" ++ k_nl /\
  format all_fixes p = s_ "if true" ++ k_nl ++ s_ "    x := [1 // c" ++ k_nl ++ s_ "    ]" ++ k_nl ++ s_ "end" ++ k_nl.
Proof. vm_compute. repeat split; reflexivity. Qed.

(* a statement three blocks deep *)
Example C07_depth_example :
  let inner := SCall (s_ "print") [FNum 0 (s_ "1")] [] in
  let p := [SFunc (s_ "f") None [] None []
              [SWhile (FBool true) [] [SEmpty []; SIf (CBlock (FBool true) [] [inner]) [] None []] []] []] in
  at_depth p 3 inner.
Proof.
  right. eexists. split; [left; reflexivity|].
  eapply nested_step; [left; reflexivity | left; reflexivity|].
  eapply nested_step; [left; reflexivity | right; left; reflexivity|].
  eapply nested_direct; [left; reflexivity | left; reflexivity].
Qed.

