(* C08 — Parsing, formatting and running are deterministic.
   Property theorems only.  One theorem per loop that ranges over a Go map
   (the sites are regenerated from /repo into Gen/MapSites.v): the iteration
   order is an explicit argument and the theorem quantifies over ALL
   permutations.  Sites at which the order does reach an observable carry a
   _refuted witness (replayed on the real code by harness/c08.go), the guarded
   theorem that does hold, and the theorem for the proposed fix. *)
From Coq Require Import ZArith NArith List String Bool Permutation.
From EvyV Require Import Base Perm PermProofs PermCombineProofs.
From EvyV.Gen Require Import MapSites.
Import ListNotations.

(* ------------------------------------------------------------------ *)
(* order-independent sites                                              *)

(* parser.newParser: for name, funcDef := range builtins.Funcs { fd := *funcDef; p.funcs[name] = &fd } *)
Theorem C08_newParser_copy : forall F (pi1 pi2 : list (str * F)),
  Permutation pi1 pi2 -> NoDup (map fst pi1) -> forall k, newParser_copy pi1 k = newParser_copy pi2 k.
Proof. exact @newParser_copy_perm. Qed.
Print Assumptions C08_newParser_copy.

(* evaluator.builtinsDeclsFromBuiltins (both loops) *)
Theorem C08_builtinsDecls_copy : forall B D (decl : B -> D) (pi1 pi2 : list (str * B)),
  Permutation pi1 pi2 -> NoDup (map fst pi1) -> forall k, builtinsDecls_copy decl pi1 k = builtinsDecls_copy decl pi2 k.
Proof. exact @builtinsDecls_copy_perm. Qed.
Print Assumptions C08_builtinsDecls_copy.

(* parser.parseProgram: for _, global := range p.builtins.Globals { global.isUsed = true; p.scope.set(global.Name, global) } *)
Theorem C08_parseProgram_globals : forall pi1 pi2,
  Permutation pi1 pi2 -> NoDup (map (fun kv => v_name (snd kv)) pi1) ->
  forall k, parseProgram_globals pi1 k = parseProgram_globals pi2 k.
Proof. exact parseProgram_globals_perm. Qed.
Print Assumptions C08_parseProgram_globals.

(* evaluator.NewEvaluator: for _, global := range builtins.Globals { scope.set(global.parserVar.Name, global.val) } *)
Theorem C08_newEvaluator_globals : forall G Vl (name : G -> str) (gval : G -> Vl) (pi1 pi2 : list (str * G)),
  Permutation pi1 pi2 -> NoDup (map (fun kv => name (snd kv)) pi1) ->
  forall k, newEvaluator_globals name gval pi1 k = newEvaluator_globals name gval pi2 k.
Proof. exact @newEvaluator_globals_perm. Qed.
Print Assumptions C08_newEvaluator_globals.

(* the hypothesis of the last two, checked on the table regenerated from the code:
   the Name fields of the built-in globals are pairwise distinct *)
Theorem C08_builtin_global_names_distinct : NoDup (map snd builtin_globals).
Proof. repeat (constructor; [simpl; intuition discriminate|]). constructor. Qed.
Print Assumptions C08_builtin_global_names_distinct.

(* parser.MapLiteral.infer: for _, val := range m.Pairs { val.infer() } *)
Theorem C08_mapLiteral_infer : forall V (inf : V -> V) (pi1 pi2 : list (str * V)) m,
  Permutation pi1 pi2 -> NoDup (map fst pi1) -> forall k, infer_loop inf pi1 m k = infer_loop inf pi2 m k.
Proof. exact @infer_loop_perm. Qed.
Print Assumptions C08_mapLiteral_infer.

(* parser.wrapAny (map case) and parseMapLiteral's second loop: whether it
   panics, and the rewritten map when it does not, are independent of the order *)
Theorem C08_wrapAny_pairs : forall V (w : V -> option V) (pi1 pi2 : list (str * V)) m,
  Permutation pi1 pi2 -> NoDup (map fst pi1) ->
  wrap_panics (wrap_loop w pi1 m) = wrap_panics (wrap_loop w pi2 m) /\
  (forall m1, wrap_loop w pi1 m = WrapOk m1 -> exists m2, wrap_loop w pi2 m = WrapOk m2 /\ forall k, m1 k = m2 k).
Proof.
  intros V w pi1 pi2 m P ND. split.
  - apply wrap_loop_panics_perm. exact P.
  - intros m1 H. exact (wrap_loop_ok_perm w pi1 pi2 m m1 P ND H).
Qed.
Print Assumptions C08_wrapAny_pairs.

(* … but WHICH value's location ends up in the crash message is not: with two
   values on which wrapAny panics ("internal error: line l column c incompatible
   types", the C03/C04 defect) the reported location follows the iteration order *)
Theorem C08_wrapAny_panic_location_refuted : exists pi1 pi2, Permutation pi1 pi2 /\
  wrap_loop wrap_w pi1 fempty = WrapPanic (s_ "a") /\ wrap_loop wrap_w pi2 fempty = WrapPanic (s_ "b").
Proof.
  exists [(s_ "a", false); (s_ "b", false)], [(s_ "b", false); (s_ "a", false)].
  split; [apply perm_swap | vm_compute; split; reflexivity].
Qed.
Print Assumptions C08_wrapAny_panic_location_refuted.

(* evaluator.sameMap (used by `test`): `same` cannot panic, so unconditionally *)
Theorem C08_sameMap : forall V (same : V -> option V -> bool) (pi1 pi2 : list (str * V)) len2 got,
  Permutation pi1 pi2 -> sameMap same pi1 len2 got = sameMap same pi2 len2 got.
Proof. exact @sameMap_perm. Qed.
Print Assumptions C08_sameMap.

(* ------------------------------------------------------------------ *)
(* parser.validateScope — order independent since /repo af9ee3d (C08_validateScope_fixed);
   the loop before the fix is kept as regression model (_partial, _before_fix_refuted) *)

(* what holds: the same errors are reported, in some order; a single unused
   variable cannot vary *)
Theorem C08_validateScope_partial : forall pi1 pi2, Permutation pi1 pi2 ->
  Permutation (validateScope pi1) (validateScope pi2) /\
  ((List.length (filter (fun kv => negb (v_used (snd kv))) pi1) <= 1)%nat -> validateScope pi1 = validateScope pi2).
Proof. intros pi1 pi2 P. split; [apply validateScope_same_errors | apply validateScope_le1]; exact P. Qed.
Print Assumptions C08_validateScope_partial.

Definition vs_a : str * var := (s_ "a", {| v_name := s_ "a"; v_line := 1; v_col := 1; v_used := false |}).
Definition vs_b : str * var := (s_ "b", {| v_name := s_ "b"; v_line := 2; v_col := 1; v_used := false |}).
Theorem C08_validateScope_before_fix_refuted : exists pi1 pi2, Permutation pi1 pi2 /\ validateScope pi1 <> validateScope pi2.
Proof. exists [vs_a; vs_b], [vs_b; vs_a]. split; [apply perm_swap | vm_compute; discriminate]. Qed.
Print Assumptions C08_validateScope_before_fix_refuted.

(* the code since af9ee3d (sort the collected errors by token position) *)
Theorem C08_validateScope_fixed : forall pi1 pi2, Permutation pi1 pi2 ->
  NoDup (map fst (validateScope pi1)) -> validateScope_fixed pi1 = validateScope_fixed pi2.
Proof. exact validateScope_fixed_perm. Qed.
Print Assumptions C08_validateScope_fixed.

(* ------------------------------------------------------------------ *)
(* evaluator.evalMapLiteral — since /repo 7307e12 the loop ranges over the
   slice m.Order, it is no map-range site any more (Gen/MapSites.v does not
   list it) and the model in force (Perm.evalMapLiteral_cur) has no iteration
   order left.  What is proved about it: *)

(* effects happen in source order *)
Theorem C08_evalMapLiteral_source_order : forall order s,
  (forall kn, In kn order -> snd kn <> MPanic) ->
  fst (evalMapLiteral_fixed mev order s) = s ++ flat_map mnode_effects order.
Proof. intros order s H. exact (evalMapLiteral_loop_source_order order s fempty H). Qed.
Print Assumptions C08_evalMapLiteral_source_order.

(* and on every literal whose values are pure it computes what the loop over
   m.Pairs computed for whatever iteration order (the fix changed nothing there) *)
Theorem C08_evalMapLiteral_fixed : forall S Nd Vl E (ev : Nd -> S -> S * (E + Vl)) (pv : Nd -> Vl) order pi s,
  Permutation order pi -> NoDup (map fst order) -> Forall (pure_entry ev pv) order ->
  exists m1 m2, evalMapLiteral_fixed ev order s = (s, inr m1) /\ evalMapLiteral ev pi s = (s, inr m2) /\ forall k, m1 k = m2 k.
Proof. exact @evalMapLiteral_pure_perm. Qed.
Print Assumptions C08_evalMapLiteral_fixed.

(* the loop over m.Pairs that was there before 7307e12 did depend on the order
   (kept as the regression witness: harness corpus "corpus-evalMapLiteral") *)
Theorem C08_evalMapLiteral_before_fix_refuted : exists pi1 pi2, Permutation pi1 pi2 /\
  fst (evalMapLiteral mev pi1 []) <> fst (evalMapLiteral mev pi2 []).
Proof.
  exists [(s_ "a", MPrint 1); (s_ "b", MPrint 2)], [(s_ "b", MPrint 2); (s_ "a", MPrint 1)].
  split; [apply perm_swap | vm_compute; discriminate].
Qed.
Print Assumptions C08_evalMapLiteral_before_fix_refuted.

(* ------------------------------------------------------------------ *)
(* evaluator.parseFontProps — since /repo 62da4a1 a loop over the slice arg.Order (no map-range site);
   _partial / _before_fix_refuted are about the loop over arg.Pairs it replaced *)
Theorem C08_parseFontProps_partial : forall pi1 pi2,
  Permutation pi1 pi2 -> NoDup (map fst pi1) ->
  (forall x y e1 e2, In x pi1 -> In y pi1 -> font_body x = Some e1 -> font_body y = Some e2 -> e1 = e2) ->
  fres_eq (parseFontProps pi1) (parseFontProps pi2).
Proof. exact parseFontProps_perm. Qed.
Print Assumptions C08_parseFontProps_partial.

Theorem C08_parseFontProps_before_fix_refuted : exists pi1 pi2, Permutation pi1 pi2 /\
  match parseFontProps pi1, parseFontProps pi2 with inl e1, inl e2 => e1 <> e2 | _, _ => False end.
Proof.
  exists [(s_ "size", FStr (s_ "a")); (s_ "style", FNum true)], [(s_ "style", FNum true); (s_ "size", FStr (s_ "a"))].
  split; [apply perm_swap | vm_compute; discriminate].
Qed.
Print Assumptions C08_parseFontProps_before_fix_refuted.

(* the code since 62da4a1 (iterate arg.Order): agrees with the old loop whenever that was deterministic *)
Theorem C08_parseFontProps_fixed : forall order pi,
  Permutation order pi -> NoDup (map fst order) ->
  (forall x y e1 e2, In x order -> In y order -> font_body x = Some e1 -> font_body y = Some e2 -> e1 = e2) ->
  fres_eq (parseFontProps_fixed order) (parseFontProps pi).
Proof. exact parseFontProps_perm. Qed.
Print Assumptions C08_parseFontProps_fixed.

(* ------------------------------------------------------------------ *)
(* mapVal.Equals — since /repo abeb6de a loop over the slice m.Order (no map-range site);
   _partial / _before_fix_refuted are about the loop over m.Pairs it replaced *)
Theorem C08_mapVal_Equals_partial : forall V (eqv : V -> V -> tri) (pi1 pi2 : list (str * V)) len2 m2,
  Permutation pi1 pi2 -> (forall kv, In kv pi1 -> equals_body eqv m2 kv <> PP) ->
  mapVal_Equals eqv pi1 len2 m2 = mapVal_Equals eqv pi2 len2 m2.
Proof. exact @mapVal_Equals_perm. Qed.
Print Assumptions C08_mapVal_Equals_partial.

Definition eq_m2 : fmap val := fun k => if str_eqb k (s_ "a") then Some (VNum 2) else if str_eqb k (s_ "b") then Some (VNum 3) else None.
Theorem C08_mapVal_Equals_before_fix_refuted : exists pi1 pi2, Permutation pi1 pi2 /\
  mapVal_Equals veq pi1 2 eq_m2 = PP /\ mapVal_Equals veq pi2 2 eq_m2 = FF.
Proof.
  exists [(s_ "a", VArr []); (s_ "b", VNum 1)], [(s_ "b", VNum 1); (s_ "a", VArr [])].
  split; [apply perm_swap | vm_compute; split; reflexivity].
Qed.
Print Assumptions C08_mapVal_Equals_before_fix_refuted.

(* ------------------------------------------------------------------ *)
(* name lists: same set, order follows the iteration                    *)
Theorem C08_name_lists_partial :
  (forall isb pi1 pi2, Permutation pi1 pi2 -> Permutation (calledBuiltinFuncs isb pi1) (calledBuiltinFuncs isb pi2)) /\
  (forall H (pi1 pi2 : list (str * H)), Permutation pi1 pi2 -> Permutation (eventHandlerNames pi1) (eventHandlerNames pi2)).
Proof. split; [exact calledBuiltinFuncs_set | exact @eventHandlerNames_set]. Qed.
Print Assumptions C08_name_lists_partial.

Theorem C08_name_lists_refuted : exists (pi1 pi2 : list (str * unit)), Permutation pi1 pi2 /\ eventHandlerNames pi1 <> eventHandlerNames pi2.
Proof. exists [(s_ "down", tt); (s_ "up", tt)], [(s_ "up", tt); (s_ "down", tt)]. split; [apply perm_swap | vm_compute; discriminate]. Qed.
Print Assumptions C08_name_lists_refuted.

(* ------------------------------------------------------------------ *)
(* parseMapLiteral: combineTypes over the value types in iteration order *)

(* order dependent as soon as a Fixed (variable) composite type takes part:
   x := [1] / {a:[2] b:x c:["a"]} — the element type is []any (then wrapAny
   panics on x) or any (accepted), depending on the order *)
Definition ct_lit_num := TComp true false (TBase BNum).
Definition ct_var_num := TComp true true (TBase BNum).
Definition ct_lit_str := TComp true false (TBase BStr).
Theorem C08_parseMapLiteral_combine_before_fix_refuted : exists pi1 pi2, Permutation pi1 pi2 /\
  parseMapLiteral_sub pi1 = TComp true false TAny /\ parseMapLiteral_sub pi2 = TAny.
Proof.
  exists [(s_ "a", ct_lit_num); (s_ "b", ct_var_num); (s_ "c", ct_lit_str)],
         [(s_ "b", ct_var_num); (s_ "a", ct_lit_num); (s_ "c", ct_lit_str)].
  split; [apply perm_swap | vm_compute; split; reflexivity].
Qed.
Print Assumptions C08_parseMapLiteral_combine_before_fix_refuted.

(* what holds: as long as no value has a Fixed type (no variable of array/map
   type among the values: literals, basic values, calls), combineTypes is the
   join of a semilattice and the element type does not depend on the order *)
Theorem C08_parseMapLiteral_combine_partial : forall pi1 pi2,
  Permutation pi1 pi2 -> Forall (fun kv => clean (snd kv) = true) pi1 -> parseMapLiteral_sub pi1 = parseMapLiteral_sub pi2.
Proof. exact parseMapLiteral_sub_clean_perm. Qed.
Print Assumptions C08_parseMapLiteral_combine_partial.

(* ================================================================== *)
(* Registry: every site regenerated from the code has a classification
   and carries its theorem(s)                                           *)
Inductive cls := OrderIndependent | OrderDependent | OrderLeaksIntoNameListOnly.
Record cert := { c_id : string; c_cls : cls; c_stmt : Prop; c_proof : c_stmt }.
Local Open Scope string_scope.

Definition registry : list cert := [
  {| c_id := "pkg/parser.MapLiteral.infer#1"; c_cls := OrderIndependent; c_proof := C08_mapLiteral_infer |};
  (* observable result (crash or not, rewritten map) order independent; the only thing that follows the order is
     which location a wrapAny internal-error CRASH names when two or more values trigger it
     (C08_wrapAny_panic_location_refuted) — a crash is C03's violation, and since /repo 0e214ac no input is known
     that makes wrapAny crash at all; harness key wrapAny-panic-location-order, a VIOLATION if it ever shows up *)
  {| c_id := "pkg/parser.wrapAny#1"; c_cls := OrderIndependent;
     c_proof := conj C08_wrapAny_pairs C08_wrapAny_panic_location_refuted |};
  (* the only map range left in parseMapLiteral (since e6ebb6a): Pairs[key] = wrapAny(val, sub) *)
  {| c_id := "pkg/parser.parser.parseMapLiteral#1"; c_cls := OrderIndependent;
     c_proof := conj C08_wrapAny_pairs C08_wrapAny_panic_location_refuted |};
  {| c_id := "pkg/parser.newParser#1"; c_cls := OrderIndependent; c_proof := C08_newParser_copy |};
  {| c_id := "pkg/parser.parser.parseProgram#1"; c_cls := OrderIndependent;
     c_proof := conj C08_parseProgram_globals C08_builtin_global_names_distinct |};
  (* still ranges over scope.vars, but sorts what it collected (since af9ee3d) *)
  {| c_id := "pkg/parser.parser.validateScope#1"; c_cls := OrderIndependent; c_proof := C08_validateScope_fixed |};
  {| c_id := "pkg/parser.parser.calledBuiltinFuncs#1"; c_cls := OrderLeaksIntoNameListOnly;
     c_proof := conj C08_name_lists_refuted C08_name_lists_partial |};
  {| c_id := "pkg/evaluator.builtinsDeclsFromBuiltins#1"; c_cls := OrderIndependent; c_proof := C08_builtinsDecls_copy |};
  {| c_id := "pkg/evaluator.builtinsDeclsFromBuiltins#2"; c_cls := OrderIndependent; c_proof := C08_builtinsDecls_copy |};
  {| c_id := "pkg/evaluator.sameMap#1"; c_cls := OrderIndependent; c_proof := C08_sameMap |};
  {| c_id := "pkg/evaluator.NewEvaluator#1"; c_cls := OrderIndependent;
     c_proof := conj C08_newEvaluator_globals C08_builtin_global_names_distinct |};
  {| c_id := "pkg/evaluator.Evaluator.evalProgram#1"; c_cls := OrderLeaksIntoNameListOnly;
     c_proof := conj C08_name_lists_refuted C08_name_lists_partial |}
].

(* other sources of run-to-run variation found by the translator, with the
   reason each is harmless: the only one is the default seed of
   evaluator.RandSource (time.Now().UnixNano()), which `evy run --rand-seed`
   and the harness replace — the property is stated relative to the seed *)
Definition other_registry : list (string * string) := [
  ("pkg/evaluator.var#time:1", "default seed of RandSource; replaced by --rand-seed (main.go) and by the harness")
].

(* ================================================================== *)
(* Package-level variables (regenerated from /repo): state that outlives a
   run.  Every variable of reference type, and every other variable that is
   assigned after its declaration, must be registered here with the SAME
   usage flags and a reason why it carries nothing from one run to the next
   in the same process; a new variable, or a variable that starts to be
   written, breaks C08_all_sites_covered.  (The reasons are prose, the flags
   are what go/types sees of direct stores; aliases are not followed — the
   harness's pristine-process comparison is the dynamic counterpart.) *)
Definition state_registry : list (string * string * string) := [
  ("pkg/lexer.keywords", "ref", "lookup table, filled by its declaration, only read");
  ("pkg/lexer.tokenStrings", "ref", "lookup table, filled by its declaration, only read");
  ("pkg/parser.ANY_TYPE", "ref", "type constant compared by identity; never stored through (no written flag)");
  ("pkg/parser.BOOL_TYPE", "ref", "type constant compared by identity; never stored through (no written flag)");
  ("pkg/parser.EMPTY_ARRAY", "ref", "type constant compared by identity; never stored through (no written flag)");
  ("pkg/parser.EMPTY_MAP", "ref", "type constant compared by identity; never stored through (no written flag)");
  ("pkg/parser.GENERIC_ARRAY", "ref", "type constant compared by identity; never stored through (no written flag)");
  ("pkg/parser.GENERIC_MAP", "ref", "type constant compared by identity; never stored through (no written flag)");
  ("pkg/parser.NONE_TYPE", "ref", "type constant compared by identity; never stored through (no written flag)");
  ("pkg/parser.NUM_TYPE", "ref", "type constant compared by identity; never stored through (no written flag)");
  ("pkg/parser.STRING_TYPE", "ref", "type constant compared by identity; never stored through (no written flag)");
  ("pkg/parser.operatorStrings", "ref", "lookup table, filled by its declaration, only read");
  ("pkg/parser.precedences", "ref", "lookup table, filled by its declaration, only read");
  ("pkg/parser.typeNameStrings", "ref", "lookup table, filled by its declaration, only read");
  ("pkg/evaluator.ErrAnyConversion", "ref", "error sentinel, never reassigned, compared with errors.Is");
  ("pkg/evaluator.ErrAssignmentTarget", "ref", "error sentinel, never reassigned, compared with errors.Is");
  ("pkg/evaluator.ErrBadArguments", "ref", "error sentinel, never reassigned, compared with errors.Is");
  ("pkg/evaluator.ErrBadRepetition", "ref", "error sentinel, never reassigned, compared with errors.Is");
  ("pkg/evaluator.ErrCallDepth", "ref", "error sentinel (call depth limit, fix 05fc82e), never reassigned, compared with errors.Is");
  ("pkg/evaluator.ErrBounds", "ref", "error sentinel, never reassigned, compared with errors.Is");
  ("pkg/evaluator.ErrIndexValue", "ref", "error sentinel, never reassigned, compared with errors.Is");
  ("pkg/evaluator.ErrInternal", "ref", "error sentinel, never reassigned, compared with errors.Is");
  ("pkg/evaluator.ErrMapKey", "ref", "error sentinel, never reassigned, compared with errors.Is");
  ("pkg/evaluator.ErrOperation", "ref", "error sentinel, never reassigned, compared with errors.Is");
  ("pkg/evaluator.ErrPanic", "ref", "error sentinel, never reassigned, compared with errors.Is");
  ("pkg/evaluator.ErrRangeType", "ref", "error sentinel, never reassigned, compared with errors.Is");
  ("pkg/evaluator.ErrRangevalue", "ref", "error sentinel, never reassigned, compared with errors.Is");
  ("pkg/evaluator.ErrSlice", "ref", "error sentinel, never reassigned, compared with errors.Is");
  ("pkg/evaluator.ErrStopped", "ref", "error sentinel, never reassigned, compared with errors.Is");
  ("pkg/evaluator.ErrTest", "ref", "error sentinel, never reassigned, compared with errors.Is");
  ("pkg/evaluator.ErrType", "ref", "error sentinel, never reassigned, compared with errors.Is");
  ("pkg/evaluator.ErrUnknownNode", "ref", "error sentinel, never reassigned, compared with errors.Is");
  ("pkg/evaluator.ErrVarNotSet", "ref", "error sentinel, never reassigned, compared with errors.Is");
  ("pkg/evaluator.RandSource", "ref,written", "the PRNG: the property is stated relative to its seed; written only by main.go (--rand-seed) and by the harness before every run");
  ("pkg/evaluator.clearDecl", "ref", "built-in signature; parser.newParser copies each FuncDefStmt (fd := *funcDef) before it marks isCalled");
  ("pkg/evaluator.dashDecl", "ref", "built-in signature; parser.newParser copies each FuncDefStmt (fd := *funcDef) before it marks isCalled");
  ("pkg/evaluator.delDecl", "ref", "built-in signature; parser.newParser copies each FuncDefStmt (fd := *funcDef) before it marks isCalled");
  ("pkg/evaluator.ellipseDecl", "ref", "built-in signature; parser.newParser copies each FuncDefStmt (fd := *funcDef) before it marks isCalled");
  ("pkg/evaluator.endswithDecl", "ref", "built-in signature; parser.newParser copies each FuncDefStmt (fd := *funcDef) before it marks isCalled");
  ("pkg/evaluator.fontDecl", "ref", "built-in signature; parser.newParser copies each FuncDefStmt (fd := *funcDef) before it marks isCalled");
  ("pkg/evaluator.gridnDecl", "ref", "built-in signature; parser.newParser copies each FuncDefStmt (fd := *funcDef) before it marks isCalled");
  ("pkg/evaluator.hasDecl", "ref", "built-in signature; parser.newParser copies each FuncDefStmt (fd := *funcDef) before it marks isCalled");
  ("pkg/evaluator.hslDecl", "ref", "built-in signature; parser.newParser copies each FuncDefStmt (fd := *funcDef) before it marks isCalled");
  ("pkg/evaluator.indexDecl", "ref", "built-in signature; parser.newParser copies each FuncDefStmt (fd := *funcDef) before it marks isCalled");
  ("pkg/evaluator.joinDecl", "ref", "built-in signature; parser.newParser copies each FuncDefStmt (fd := *funcDef) before it marks isCalled");
  ("pkg/evaluator.lenDecl", "ref", "built-in signature; parser.newParser copies each FuncDefStmt (fd := *funcDef) before it marks isCalled");
  ("pkg/evaluator.lowerDecl", "ref", "built-in signature; parser.newParser copies each FuncDefStmt (fd := *funcDef) before it marks isCalled");
  ("pkg/evaluator.numArrayType", "ref", "type constant compared by identity; never stored through (no written flag)");
  ("pkg/evaluator.polyDecl", "ref", "built-in signature; parser.newParser copies each FuncDefStmt (fd := *funcDef) before it marks isCalled");
  ("pkg/evaluator.printDecl", "ref", "built-in signature; parser.newParser copies each FuncDefStmt (fd := *funcDef) before it marks isCalled");
  ("pkg/evaluator.rand1Decl", "ref", "built-in signature; parser.newParser copies each FuncDefStmt (fd := *funcDef) before it marks isCalled");
  ("pkg/evaluator.randDecl", "ref", "built-in signature; parser.newParser copies each FuncDefStmt (fd := *funcDef) before it marks isCalled");
  ("pkg/evaluator.readDecl", "ref", "built-in signature; parser.newParser copies each FuncDefStmt (fd := *funcDef) before it marks isCalled");
  ("pkg/evaluator.replaceDecl", "ref", "built-in signature; parser.newParser copies each FuncDefStmt (fd := *funcDef) before it marks isCalled");
  ("pkg/evaluator.reprDecl", "ref", "built-in signature; parser.newParser copies each FuncDefStmt (fd := *funcDef) before it marks isCalled");
  ("pkg/evaluator.sleepDecl", "ref", "built-in signature; parser.newParser copies each FuncDefStmt (fd := *funcDef) before it marks isCalled");
  ("pkg/evaluator.splitDecl", "ref", "built-in signature; parser.newParser copies each FuncDefStmt (fd := *funcDef) before it marks isCalled");
  ("pkg/evaluator.sprintDecl", "ref", "built-in signature; parser.newParser copies each FuncDefStmt (fd := *funcDef) before it marks isCalled");
  ("pkg/evaluator.startswithDecl", "ref", "built-in signature; parser.newParser copies each FuncDefStmt (fd := *funcDef) before it marks isCalled");
  ("pkg/evaluator.str2boolDecl", "ref", "built-in signature; parser.newParser copies each FuncDefStmt (fd := *funcDef) before it marks isCalled");
  ("pkg/evaluator.str2numDecl", "ref", "built-in signature; parser.newParser copies each FuncDefStmt (fd := *funcDef) before it marks isCalled");
  ("pkg/evaluator.stringArrayType", "ref", "type constant compared by identity; never stored through (no written flag)");
  ("pkg/evaluator.testDecl", "ref", "built-in signature; parser.newParser copies each FuncDefStmt (fd := *funcDef) before it marks isCalled");
  ("pkg/evaluator.trimDecl", "ref", "built-in signature; parser.newParser copies each FuncDefStmt (fd := *funcDef) before it marks isCalled");
  ("pkg/evaluator.typeofDecl", "ref", "built-in signature; parser.newParser copies each FuncDefStmt (fd := *funcDef) before it marks isCalled");
  ("pkg/evaluator.upperDecl", "ref", "built-in signature; parser.newParser copies each FuncDefStmt (fd := *funcDef) before it marks isCalled");
  ("pkg/cli/svg.defaultAttr", "ref", "default attribute values, only compared against");
  ("pkg/cli/svg.defaultTextAttr", "ref", "default attribute values, only compared against");
  ("main.content", "ref", "command-line plumbing outside a run");
  ("main.errBadWriteFlag", "ref", "error sentinel, never reassigned, compared with errors.Is");
  ("main.errNotFormatted", "ref", "error sentinel, never reassigned, compared with errors.Is");
  ("main.errParse", "ref", "error sentinel, never reassigned, compared with errors.Is");
  ("main.version", "value,written", "build version string, set once at start-up from the build info; printed by --version only")
].

Definition state_covered (s : string * string) : bool :=
  existsb (fun r => String.eqb (fst (fst r)) (fst s) && String.eqb (snd (fst r)) (snd s)) state_registry.
Definition state_still_there (r : string * string * string) : bool :=
  existsb (fun s => String.eqb (fst (fst r)) (fst s)) package_state_sites.

Definition site_ids : list string := map (fun s => fst (fst s)) map_range_sites.
Definition reg_ids : list string := map c_id registry.
Definition mem_id (l : list string) (id : string) : bool := existsb (String.eqb id) l.

(* every `for … range <map>` of the anchored packages (as regenerated from
   /repo) is registered — a new site breaks this proof *)
Theorem C08_all_sites_covered :
  forallb (mem_id reg_ids) site_ids = true /\
  forallb (mem_id (map fst other_registry)) (map fst other_nondet_sites) = true /\
  forallb state_covered package_state_sites = true.
Proof. vm_compute. repeat split; reflexivity. Qed.
Print Assumptions C08_all_sites_covered.

(* … and no registered site has disappeared (stale theorems are noticed) *)
Theorem C08_registry_not_stale :
  forallb (mem_id site_ids) reg_ids = true /\ forallb state_still_there state_registry = true /\ NoDup reg_ids.
Proof.
  split; [vm_compute; reflexivity|]. split; [vm_compute; reflexivity|].
  unfold reg_ids, registry. cbn [map c_id].
  repeat (constructor; [cbn [In]; intuition discriminate|]). constructor.
Qed.
Print Assumptions C08_registry_not_stale.

(* the sites at which the iteration order can reach an observable of C08: none
   (since /repo 7307e12 af9ee3d 62da4a1 e6ebb6a abeb6de) *)
Theorem C08_order_dependent_sites :
  map c_id (filter (fun c => match c_cls c with OrderDependent => true | _ => false end) registry) = [].
Proof. reflexivity. Qed.
Print Assumptions C08_order_dependent_sites.

(* ================================================================== *)
(* non-vacuity of the hypothesis-carrying theorems                      *)
Example C08_ex_combine_clean_nontrivial :
  Forall (fun kv : str * ty => clean (snd kv) = true)
         [(s_ "a", TComp true false (TBase BNum)); (s_ "b", TEmpty true); (s_ "c", TComp true false (TBase BStr))] /\
  parseMapLiteral_sub [(s_ "a", TComp true false (TBase BNum)); (s_ "b", TEmpty true); (s_ "c", TComp true false (TBase BStr))]
    = TComp true false TAny /\
  parseMapLiteral_sub [(s_ "c", TComp true false (TBase BStr)); (s_ "b", TEmpty true); (s_ "a", TComp true false (TBase BNum))]
    = TComp true false TAny.
Proof. split; [repeat constructor | vm_compute; split; reflexivity]. Qed.

Example C08_ex_validateScope_fixed_nontrivial :
  NoDup (map fst (validateScope [vs_a; vs_b])) /\
  validateScope_fixed [vs_b; vs_a] = [(1%N, 1%N, s_ "a"); (2%N, 1%N, s_ "b")] /\
  validateScope_fixed [vs_a; vs_b] = [(1%N, 1%N, s_ "a"); (2%N, 1%N, s_ "b")].
Proof.
  split; [|vm_compute; split; reflexivity].
  vm_compute. repeat (constructor; [simpl; intuition discriminate|]). constructor.
Qed.

Example C08_ex_fontProps_single_error :
  parseFontProps [(s_ "size", FStr (s_ "a")); (s_ "style", FStr (s_ "x"))] = inl (EType (s_ "size")) /\
  parseFontProps [(s_ "style", FStr (s_ "x")); (s_ "size", FStr (s_ "a"))] = inl (EType (s_ "size")).
Proof. vm_compute. split; reflexivity. Qed.

Example C08_ex_evalMapLiteral_pure :
  Forall (pure_entry mev (fun n => match n with MPure z | MPrint z => z | MPanic => 0%Z end))
         [(s_ "a", MPure 1); (s_ "b", MPure 2)].
Proof. repeat constructor. Qed.

Example C08_ex_equals_no_panic :
  (forall kv, In kv [(s_ "a", VNum 2); (s_ "b", VNum 1)] -> equals_body veq eq_m2 kv <> PP) /\
  mapVal_Equals veq [(s_ "a", VNum 2); (s_ "b", VNum 1)] 2 eq_m2 = FF.
Proof.
  split; [|vm_compute; reflexivity].
  intros kv [<-|[<-|[]]]; vm_compute; discriminate.
Qed.

Example C08_ex_wrap_panic_key_varies :
  let w := fun v : Z => if (v <? 0)%Z then None else Some v in
  wrap_loop w [(s_ "a", (-1)%Z); (s_ "b", (-2)%Z)] fempty = WrapPanic (s_ "a") /\
  wrap_loop w [(s_ "b", (-2)%Z); (s_ "a", (-1)%Z)] fempty = WrapPanic (s_ "b").
Proof. vm_compute. split; reflexivity. Qed.
