(* C16 — the source semantics of compile_correct tied to the evaluator model.
   Property theorems only; proofs are [exact <lemma>] of CompileSemTie / CompileSemTieVm.

   compile_correct_* (Props/C16.v) relate the VM model to CompileSem.lx_l, a big-step semantics
   over VALUE environments; every evaluator check of the development runs against coq/Sem.v,
   where every value is a heap cell.  Here: on the fragment [tfrag_l] (number / bool / ASCII
   string literals, variables, groups, unary - !, + - * / % and the comparisons on numbers, + and
   the comparisons on strings, array literals, a[i] on arrays and strings, + on arrays, == != when
   one operand is manifestly a number, string or bool ([scalar_valued]); declarations anywhere,
   assignments to variables, if / else if / else, while, break, the empty statement), whenever
   lx_l is defined the Sem.v run of the same program ends normally, prints nothing, and every
   variable of lx_l's final environment is a global of the final Sem state whose cell reads
   back ([holds]; [reify] for basic cells) as that value.  _partial: maps, slices, array
   repetition, == on arrays, non-ASCII strings and the for loops are not covered (see the report in CompileSemTie.v). *)
From Coq Require Import ZArith NArith List String Bool Floats.
From EvyV Require Import Base Num Ast Omap Sem CompileSemTie CompileSemTieVm.
From EvyV Require Bytecode SymTab Vm VmProofs Compile CompileSem CompileStmtProofs.
Require EvyV.Gen.Opcodes.
Import ListNotations.


(* expressions: from related environments the Sem evaluation succeeds with a cell holding
   the value of Compile.eval_expr, only allocating and yielding *)
Theorem C16_tie_expr_partial : forall P e x, xrel e x -> forall lenv E s v,
  tfrag_e e = true -> Compile.eval_expr (fun n => CompileSem.slook n lenv) e = Some v ->
  envrel lenv E s -> good s -> ev_ok P E x s v.
Proof. exact tie_expr. Qed.
Print Assumptions C16_tie_expr_partial.

(* statements, statement lists, condition chains and while loops, for every fuel of lx *)
Theorem C16_tie_statements_partial : forall P f,
  stmt_tie P f /\ list_tie P f /\ conds_tie P f /\ while_tie P f.
Proof. exact tie_all. Qed.
Print Assumptions C16_tie_statements_partial.

(* whole programs: P is any Ast program whose statements are p with arbitrary type annotations *)
Theorem C16_tie_program_partial : forall (P : program) (p : Compile.slist) fuel env' s0,
  CompileSem.lx_l fuel p [[]] = Some (env', false) ->
  lrel p (p_stmts P) -> tfrag_l p = true ->
  good s0 -> st_total s0 = 0%nat -> st_fails s0 = 0%nat ->
  exists N s1, (forall n, (N <= n)%nat -> run_program n P s0 = (ODone, s1)) /\
               st_trace s1 = st_trace s0 /\
               forall n v, CompileSem.slook n env' = Some v -> sem_global s1 n v.
Proof. exact tie_program. Qed.
Print Assumptions C16_tie_program_partial.

(* the canonical translation is related to its source on the fragment *)
Theorem C16_tie_translation : forall l, tfrag_l l = true -> lrel l (tr_l l).
Proof. exact (proj1 (proj2 tr_rel)). Qed.
Print Assumptions C16_tie_translation.

(* reading back is the relation used in the proofs *)
Theorem C16_tie_reify : forall h l v,
  (reify h l = Some v -> holds h l v) /\ (scalar v -> holds h l v -> reify h l = Some v).
Proof. intros h l v. split; [apply reify_holds | apply holds_reify]. Qed.
Print Assumptions C16_tie_reify.

(* the expression lists of array literals *)
Theorem C16_tie_expr_list_partial : forall P l xl, xlrel l xl -> forall lenv E s vs,
  tfrag_el l = true -> Compile.eval_list (fun n => CompileSem.slook n lenv) l = Some vs ->
  envrel lenv E s -> good s -> evs_ok P E xl s vs.
Proof. exact (fun P => proj2 (tie_expr_all P)). Qed.
Print Assumptions C16_tie_expr_list_partial.

(* VM model = evaluator model: compile_correct_locals composed with the tie *)
Theorem C16_vm_equals_evaluator_model_partial :
  forall (P : program) (p : Compile.slist) (st : Compile.cstate) (fuel : nat) (env' : CompileSem.senv) input ff ay,
  tfrag_l p = true -> lrel p (p_stmts P) ->
  CompileSem.lpfrag p = true -> Compile.compile p = Compile.COk st ->
  CompileSem.lx_l fuel p [[]] = Some (env', false) ->
  (SymTab.st_local_count (Compile.csym st) + CompileSem.ldepth p <= Gen.Opcodes.StackSize)%N ->
  let prog := Compile.program_of (Compile.bytecode_of st) in
  exists sv N s1,
    CompileStmtProofs.reaches prog (Vm.vm_init prog) sv /\ Vm.vm_step prog sv = Vm.Halted sv /\
    Vm.ostack sv = [] /\
    (forall n, (N <= n)%nat -> run_program n P (init_state None input ff ay) = (ODone, s1)) /\
    st_trace s1 = [] /\
    forall n y v, SymTab.st_resolve n (Compile.csym st) = Some y -> CompileSem.slook n env' = Some v ->
                  nth_error (Vm.globals sv) (N.to_nat (SymTab.sidx y)) = Some v /\
                  sem_global s1 n v.
Proof. exact vm_equals_evaluator_model_partial. Qed.
Print Assumptions C16_vm_equals_evaluator_model_partial.

(* ---------- Example: the hypotheses hold on a concrete program, and the conclusion is what
   both sides compute ---------- *)
(* x := 1
   s := "a"
   while x < 4
       x = x + 1
       if x == 3
           t := s + "b"
           s = t
       end
   end *)
Definition ex_p : Compile.slist :=
  Compile.SCons (Compile.SDecl (s_ "x") (Compile.ENum 1%float))
  (Compile.SCons (Compile.SDecl (s_ "s") (Compile.EStr (s_ "a")))
  (Compile.SCons (Compile.SWhile (Compile.EBin Compile.BLt Compile.TNum Compile.TNum (Compile.EVar (s_ "x")) (Compile.ENum 4%float))
     (Compile.SCons (Compile.SAssign (Compile.EVar (s_ "x")) (Compile.EBin Compile.BPlus Compile.TNum Compile.TNum (Compile.EVar (s_ "x")) (Compile.ENum 1%float)))
     (Compile.SCons (Compile.SIf (Compile.EBin Compile.BEq Compile.TNum Compile.TNum (Compile.EVar (s_ "x")) (Compile.ENum 3%float))
                 (Compile.SCons (Compile.SDecl (s_ "t") (Compile.EBin Compile.BPlus Compile.TStr Compile.TStr (Compile.EVar (s_ "s")) (Compile.EStr (s_ "b"))))
                 (Compile.SCons (Compile.SAssign (Compile.EVar (s_ "s")) (Compile.EVar (s_ "t"))) Compile.SNil))
                 Compile.CNil Compile.NoElse)
      Compile.SNil)))
   Compile.SNil)).
Definition ex_P : program := {| p_funcs := []; p_handlers := []; p_stmts := tr_l ex_p |}.

Example C16_tie_ex_hyps :
  tfrag_l ex_p = true /\ CompileSem.lpfrag ex_p = true /\
  (exists st, Compile.compile ex_p = Compile.COk st) /\
  (exists env', CompileSem.lx_l 40 ex_p [[]] = Some (env', false) /\
                CompileSem.slook (s_ "x") env' = Some (Vm.VNum 4%float) /\
                CompileSem.slook (s_ "s") env' = Some (Vm.VStr (s_ "ab"))).
Proof.
  split; [reflexivity|]. split; [reflexivity|]. split.
  - destruct (Compile.compile ex_p) eqn:Q; [eexists; reflexivity|]. vm_compute in Q. discriminate Q.
  - eexists. split; [vm_compute; reflexivity|]. split; vm_compute; reflexivity.
Qed.

Example C16_tie_ex_sem :
  let r := run_program 200 ex_P (init_state None [] false false) in
  fst r = ODone /\
  option_map (reify (st_heap (snd r))) (frame_get (s_ "x") (st_globals (snd r))) = Some (Some (Vm.VNum 4%float)) /\
  option_map (reify (st_heap (snd r))) (frame_get (s_ "s") (st_globals (snd r))) = Some (Some (Vm.VStr (s_ "ab"))).
Proof. vm_compute. repeat split; reflexivity. Qed.

(* arrays, indexing, concatenation, string indexing:
   a := [1 2]
   b := a + [3]
   x := b[2]
   s := "hey"
   c := s[1]
   e := a[0] == 1 *)
Definition ex_q : Compile.slist :=
  Compile.SCons (Compile.SDecl (s_ "a") (Compile.EArr (Compile.ECons (Compile.ENum 1%float) (Compile.ECons (Compile.ENum 2%float) Compile.ENil))))
  (Compile.SCons (Compile.SDecl (s_ "b") (Compile.EBin Compile.BPlus Compile.TArr Compile.TArr (Compile.EVar (s_ "a")) (Compile.EArr (Compile.ECons (Compile.ENum 3%float) Compile.ENil))))
  (Compile.SCons (Compile.SDecl (s_ "x") (Compile.EIndex (Compile.EVar (s_ "b")) (Compile.ENum 2%float)))
  (Compile.SCons (Compile.SDecl (s_ "s") (Compile.EStr (s_ "hey")))
  (Compile.SCons (Compile.SDecl (s_ "c") (Compile.EIndex (Compile.EVar (s_ "s")) (Compile.ENum 1%float)))
  (Compile.SCons (Compile.SDecl (s_ "e") (Compile.EBin Compile.BEq Compile.TNum Compile.TNum (Compile.EIndex (Compile.EVar (s_ "a")) (Compile.ENum 0%float)) (Compile.ENum 1%float)))
   Compile.SNil))))).
Definition ex_Q : program := {| p_funcs := []; p_handlers := []; p_stmts := tr_l ex_q |}.

Example C16_tie_ex_arrays :
  tfrag_l ex_q = true /\ CompileSem.lpfrag ex_q = true /\
  (exists env', CompileSem.lx_l 40 ex_q [[]] = Some (env', false) /\
                CompileSem.slook (s_ "x") env' = Some (Vm.VNum 3%float) /\
                CompileSem.slook (s_ "c") env' = Some (Vm.VStr (s_ "e")) /\
                CompileSem.slook (s_ "e") env' = Some (Vm.VBool true) /\
                CompileSem.slook (s_ "b") env' = Some (Vm.VArr [Vm.VNum 1%float; Vm.VNum 2%float; Vm.VNum 3%float])) /\
  (let r := run_program 200 ex_Q (init_state None [] false false) in
   fst r = ODone /\
   option_map (reify (st_heap (snd r))) (frame_get (s_ "x") (st_globals (snd r))) = Some (Some (Vm.VNum 3%float)) /\
   option_map (reify (st_heap (snd r))) (frame_get (s_ "c") (st_globals (snd r))) = Some (Some (Vm.VStr (s_ "e"))) /\
   option_map (reify (st_heap (snd r))) (frame_get (s_ "e") (st_globals (snd r))) = Some (Some (Vm.VBool true))).
Proof.
  split; [reflexivity|]. split; [reflexivity|]. split.
  - eexists. split; [vm_compute; reflexivity|]. repeat split; vm_compute; reflexivity.
  - vm_compute. repeat split; reflexivity.
Qed.
