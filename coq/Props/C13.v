(* C13 — Built-in functions do what their documentation says.
   Property theorems only; proofs are [exact <lemma of BuiltinsProofs>] or
   closed computations on the regenerated signature table. *)
From Coq Require Import ZArith NArith List Bool.
From Coq Require Floats.
From Coq Require Strings.String.
Import Coq.Strings.String.StringSyntax.
From EvyV Require Import Base BuiltinTy Builtins BuiltinsSpec BuiltinsProofs.
From EvyV.Gen Require Import BuiltinSigs DocLiterals.
Import ListNotations.
Local Open Scope string_scope.
Local Open Scope list_scope.

(* ---------- the declaration table (regenerated from evaluator.BuiltinDecls()) is the documented one ---------- *)
(* the entries of the code's table that differ from docs/builtins.md are exactly
   join, printf, sprintf (see BuiltinsSpec.known_sig_deviations); nothing is
   missing on either side; events and predefined globals as documented *)
Theorem C13_builtin_table_documented :
  sig_diffs builtin_sigs documented_impl = known_sig_deviations /\
  (forall n, In n (sig_diffs documented_impl builtin_sigs) -> In n known_sig_deviations) /\
  List.length builtin_sigs = List.length documented_impl /\
  event_sigs = [("animate", [TNum]); ("down", [TNum; TNum]); ("input", [TStr; TStr]);
                ("key", [TStr]); ("move", [TNum; TNum]); ("up", [TNum; TNum])] /\
  global_sigs = [("err", TBool); ("errmsg", TStr); ("pi", TNum)].
Proof.
  split; [vm_compute; reflexivity|]. split.
  - intros n H. vm_compute in H. vm_compute. tauto.
  - repeat split; vm_compute; reflexivity.
Qed.
Print Assumptions C13_builtin_table_documented.

(* every declared built-in is either modelled by the dispatcher call_builtin (42:
   all of "Input and Output", "Types", "Map", "Program control", "Conversion",
   "String", "Random", "Math" of docs/builtins.md, plus hsl and clear's argument
   check) or one of the 17 canvas drawing commands that belong to C19 *)
Theorem C13_builtin_coverage :
  forallb (fun sg => Bool.eqb (dispatched sg) (negb (existsb (String.eqb (b_name sg)) canvas_builtins))) builtin_sigs = true /\
  List.length (filter dispatched builtin_sigs) = 42%nat /\
  List.length canvas_builtins = 17%nat.
Proof. vm_compute. repeat split; reflexivity. Qed.
Print Assumptions C13_builtin_coverage.

(* ---------- len ---------- *)
Theorem C13_len_codepoints : forall s a b,
  len_str s = List.length s /\
  len_str (a ++ b) = (len_str a + len_str b)%nat /\
  List.length (split s []) = len_str s /\
  (len_str s <= utf8_len s)%nat /\
  (utf8_len s = len_str s <-> Forall (fun c => (c < 128)%N) s).
Proof.
  intros s a b. split; [reflexivity|]. split; [apply len_str_app|]. split; [apply len_split_chars|].
  split; [apply utf8_len_ge | apply utf8_len_ascii].
Qed.
Print Assumptions C13_len_codepoints.

(* ---------- split / join ---------- *)
Theorem C13_split_join : forall s sep, join (split s sep) sep = s.
Proof. exact split_join. Qed.
Print Assumptions C13_split_join.

Theorem C13_split_spec : forall s sep, sep <> [] ->
  SplitSpec sep s (split s sep) /\ (forall ps, SplitSpec sep s ps -> ps = split s sep).
Proof.
  intros s sep H. split; [apply split_spec, H|]. intros ps Hp.
  eapply split_spec_unique; [exact H | exact Hp | apply split_spec, H].
Qed.
Print Assumptions C13_split_spec.

Theorem C13_split_empty_cases : forall s sep,
  split s [] = map (fun c => [c]) s /\ split [] [] = [] /\ (sep <> [] -> split [] sep = [[]]).
Proof. intros s sep. split; [reflexivity|]. split; [reflexivity | apply split_empty_string]. Qed.
Print Assumptions C13_split_empty_cases.

(* ---------- index / startswith / endswith / trim / replace ---------- *)
(* index (the model in force, mirroring indexFunc since 79c1bbb): the position
   in characters of the first occurrence, -1 exactly when there is none *)
Theorem C13_index_spec : forall s sub,
  (forall i, index_chars s sub = Z.of_nat i <-> FirstOcc sub s i) /\
  (index_chars s sub = (-1)%Z <-> NoOcc sub s).
Proof. exact index_chars_spec. Qed.
Print Assumptions C13_index_spec.

(* regression (fixed by 79c1bbb): the old byte-offset index found the same
   occurrence but agreed with the documented position only behind ASCII prefixes *)
Theorem C13_index_bytes_before_fix_refuted :
  (exists s sub i, FirstOcc sub s i /\ index_bytes_before_fix s sub <> Z.of_nat i) /\
  (forall s sub i, FirstOcc sub s i ->
     (index_bytes_before_fix s sub = index_chars s sub <-> Forall (fun c => (c < 128)%N) (firstn i s))).
Proof.
  split.
  - exists [228%N; 98%N], [98%N], 1%nat. split.
    + apply index_cp_some_iff. vm_compute. reflexivity.
    + vm_compute. discriminate.
  - intros s sub i. apply index_bytes_before_fix_eq_iff.
Qed.
Print Assumptions C13_index_bytes_before_fix_refuted.

Theorem C13_startswith_endswith : forall s p,
  (startswith s p = true <-> IsPrefix p s) /\ (endswith s p = true <-> IsSuffix p s).
Proof. intros s p. split; [apply startswith_spec | apply endswith_spec]. Qed.
Print Assumptions C13_startswith_endswith.

Theorem C13_trim_spec : forall s cut,
  exists l r, s = l ++ trim s cut ++ r /\ Forall (InCut cut) l /\ Forall (InCut cut) r /\
              match trim s cut with [] => True | c :: _ => ~ In c cut end /\
              match last_opt (trim s cut) with None => True | Some c => ~ In c cut end.
Proof. exact trim_spec. Qed.
Print Assumptions C13_trim_spec.

Theorem C13_replace_spec : forall s old new, old <> [] ->
  ReplSpec old new s (replace s old new) /\
  (forall r, ReplSpec old new s r -> r = replace s old new) /\
  replace s old new = join (split s old) new.
Proof.
  intros s old new H. split; [apply replace_spec, H|]. split.
  - intros r Hr. eapply repl_spec_unique; [exact H | exact Hr | apply replace_spec, H].
  - apply replace_is_join_split, H.
Qed.
Print Assumptions C13_replace_spec.

Theorem C13_replace_empty_old : forall s new, new <> [] ->
  replace s [] new = new ++ flat_map (fun c => c :: new) s.
Proof. exact replace_empty_old. Qed.
Print Assumptions C13_replace_empty_old.

(* ---------- err / errmsg ---------- *)
Theorem C13_err_protocol : forall (o : oracles) (h : list hcall) (st : errst),
  hrun o st h = match last_conv h with Some c => documented_state o c | None => st end.
Proof. exact err_protocol. Qed.
Print Assumptions C13_err_protocol.

(* … and the same for real programs: in ANY sequence of calls of ANY built-ins
   with ANY arguments (run through the dispatcher call_builtin and evalFunccall's
   bookkeeping), err/errmsg observed after the i-th executed call describe the
   last str2num/str2bool call among the first i+1 calls; no other built-in
   touches them *)
Theorem C13_err_protocol_programs : forall o ff calls st t i cr,
  nth_error (fst (fst (fst (run_calls o ff calls st t)))) i = Some cr ->
  c_err cr = match last_conv (firstn (S i) (calls_hist calls)) with
             | Some c => documented_state o c
             | None => b_err st
             end.
Proof. exact run_calls_err_protocol. Qed.
Print Assumptions C13_err_protocol_programs.

Theorem C13_str2bool_literals : forall s,
  (parse_bool s = Some true <-> In s true_literals) /\
  (parse_bool s = Some false <-> In s false_literals) /\
  (parse_bool s = None <-> ~ In s (true_literals ++ false_literals)).
Proof. intros s. split; [apply parse_bool_true|]. split; [apply parse_bool_false | apply parse_bool_none]. Qed.
Print Assumptions C13_str2bool_literals.

(* str2bool accepts exactly the literals docs/builtins.md documents — the
   documented lists are REGENERATED from docs/builtins.md (Gen/DocLiterals.v), so
   a drift between the documentation and strconv.ParseBool's literal set breaks
   this obligation *)
Theorem C13_str2bool_documented_literals : forall s,
  (parse_bool s = Some true <-> In s (map s_ doc_true_literals)) /\
  (parse_bool s = Some false <-> In s (map s_ doc_false_literals)) /\
  (parse_bool s = None <-> ~ In s (map s_ (doc_true_literals ++ doc_false_literals))).
Proof.
  assert (T1 : forallb (fun x => mem_str x true_literals) (map s_ doc_true_literals) = true) by (vm_compute; reflexivity).
  assert (T2 : forallb (fun x => mem_str x (map s_ doc_true_literals)) true_literals = true) by (vm_compute; reflexivity).
  assert (F1 : forallb (fun x => mem_str x false_literals) (map s_ doc_false_literals) = true) by (vm_compute; reflexivity).
  assert (F2 : forallb (fun x => mem_str x (map s_ doc_false_literals)) false_literals = true) by (vm_compute; reflexivity).
  rewrite forallb_forall in T1, T2, F1, F2.
  assert (TT : forall s, In s (map s_ doc_true_literals) <-> In s true_literals).
  { intros s. split; intros H; [apply T1 in H | apply T2 in H]; apply mem_str_In in H; exact H. }
  assert (FF : forall s, In s (map s_ doc_false_literals) <-> In s false_literals).
  { intros s. split; intros H; [apply F1 in H | apply F2 in H]; apply mem_str_In in H; exact H. }
  intros s. rewrite TT, FF. split; [apply parse_bool_true|]. split; [apply parse_bool_false|].
  rewrite parse_bool_none, map_app, !in_app_iff, TT, FF. reflexivity.
Qed.
Print Assumptions C13_str2bool_documented_literals.

(* regression (docs fixed by 3dac639): docs/builtins.md used to list only
   true True TRUE 1 / false False FALSE 0 *)
Definition documented_bool_literals_before_fix : list str :=
  [s_ "true"; s_ "True"; s_ "TRUE"; s_ "1"; s_ "false"; s_ "False"; s_ "FALSE"; s_ "0"].
Theorem C13_str2bool_doc_literals_before_fix_refuted :
  exists s, ~ In s documented_bool_literals_before_fix /\ parse_bool s = Some true.
Proof.
  exists (s_ "t"). split; [|vm_compute; reflexivity].
  intros H. apply mem_str_In in H. vm_compute in H. discriminate.
Qed.
Print Assumptions C13_str2bool_doc_literals_before_fix_refuted.

(* "Otherwise, the function returns 0 and sets err" (model in force, since e40074a):
   whenever str2num sets err the result is 0 and errmsg names the input *)
Theorem C13_str2num_failure_zero : forall o s st,
  (forall f, o_parse_float o s <> PFOk f) ->
  str2num o s st = (fc_zero, {| e_err := true; e_msg := s_ "str2num: cannot parse " ++ quote o s |}).
Proof.
  intros o s st H. unfold str2num. destruct (o_parse_float o s) as [f| |f]; [exfalso; exact (H f eq_refl) | reflexivity | reflexivity].
Qed.
Print Assumptions C13_str2num_failure_zero.

Theorem C13_str2num_success : forall o s st f,
  o_parse_float o s = PFOk f -> str2num o s st = (f, {| e_err := false; e_msg := [] |}).
Proof. intros o s st f H. unfold str2num. rewrite H. reflexivity. Qed.
Print Assumptions C13_str2num_success.

Definition const_oracles (pf : parse_res) : oracles :=
  {| o_num_str := fun _ => []; o_fmt_float := fun _ _ => []; o_upper := fun c => c; o_lower := fun c => c;
     o_is_letter := fun c => ((65 <=? c) && (c <=? 90) || (97 <=? c) && (c <=? 122))%N;
     o_is_print := fun c => ((32 <=? c) && (c <? 127))%N;
     o_parse_float := fun _ => pf; o_math := fun _ _ => fc_zero; o_rand := fun _ => 0%Z; o_rand1 := fc_zero |}.

(* regression (fixed by e40074a): ParseFloat's ±Inf for a range error was returned with err set *)
Theorem C13_str2num_before_fix_refuted :
  exists o s st, e_err (snd (str2num_before_fix o s st)) = true /\ fst (str2num_before_fix o s st) <> fc_zero.
Proof.
  exists (const_oracles (PFRange fc_inf)), (s_ "1e999"), err_init. split; [reflexivity|].
  intros H. apply (f_equal (fun x => PrimFloat.eqb x fc_zero)) in H. vm_compute in H. discriminate.
Qed.
Print Assumptions C13_str2num_before_fix_refuted.

(* ---------- rand ---------- *)
(* model in force (randFunc since 30a294b), under the PRNG contract 0 <= r < n:
   for 1 <= n <= 2^31-1 the result is an integer in [0, int32(n)) with
   1 <= int32(n) < 2^31; for EVERY other n — NaN, ±Inf, 0, negative, 2^31 … —
   the documented panic; the host crash (Int31n with n <= 0) is unreachable *)
Theorem C13_rand_range : forall (o : oracles),
  (forall n, (0 < n)%Z -> (0 <= o_rand o n < n)%Z) ->
  forall upper,
  if PrimFloat.leb fc_one upper && PrimFloat.leb upper fc_int31max
  then exists z, rand_model o upper = ORet (VNum (float_of_Z z)) /\ (0 <= z < go_int32 upper)%Z /\ (1 <= go_int32 upper < 2 ^ 31)%Z
  else rand_model o upper = OPanic BadArguments.
Proof. exact rand_range. Qed.
Print Assumptions C13_rand_range.

Theorem C13_rand_no_host_crash : forall o upper, rand_model o upper <> OHostCrash.
Proof. exact rand_no_host_crash. Qed.
Print Assumptions C13_rand_no_host_crash.

Theorem C13_rand_nan_panics : forall o, rand_model o fc_nan = OPanic BadArguments.
Proof. intros o. vm_compute. reflexivity. Qed.
Print Assumptions C13_rand_nan_panics.

(* regression (fixed by 30a294b): `upper < 1 || upper > 2147483647` let NaN through to Int31n *)
Theorem C13_rand_nan_before_fix_refuted : forall o, rand_model_before_fix o fc_nan = OHostCrash.
Proof. intros o. vm_compute. reflexivity. Qed.
Print Assumptions C13_rand_nan_before_fix_refuted.

(* ---------- hsl ---------- *)
(* docs/builtins.md: hsl:string hue:num [saturation:num [lightness:num [alpha:num]]];
   "hue must be between 0 and 360", the others "between 0 and 100", defaults
   100 / 50 / 100, result a CSS hsl function string. The model in force
   (hslFunc since 1433667): the documented panic for 0 or >= 5 arguments and for
   any value outside its range — NaN included; otherwise the documented text *)
Theorem C13_hsl_spec : forall o nums,
  ((List.length nums = 0 \/ 5 <= List.length nums)%nat -> hsl_model o nums = OPanic BadArguments) /\
  ((1 <= List.length nums <= 4)%nat ->
   hsl_model o nums =
   if hsl_args_ok nums
   then ORet (VStr (hsl_text o (nth 0 nums fc_zero) (nth 1 nums fc_100) (nth 2 nums fc_50) (nth 3 nums fc_100)))
   else OPanic BadArguments).
Proof. intros o nums. split; [apply hsl_arg_count | apply hsl_model_spec]. Qed.
Print Assumptions C13_hsl_spec.

Theorem C13_hsl_defaults : forall o h sa l,
  hsl_model o [h] = hsl_model o [h; fc_100; fc_50; fc_100] /\
  hsl_model o [h; sa] = hsl_model o [h; sa; fc_50; fc_100] /\
  hsl_model o [h; sa; l] = hsl_model o [h; sa; l; fc_100].
Proof. exact hsl_defaults. Qed.
Print Assumptions C13_hsl_defaults.

Theorem C13_hsl_nan_panics : forall o, hsl_in_range fc_nan fc_360 = false /\ hsl_model o [fc_nan] = OPanic BadArguments.
Proof. intros o. vm_compute. split; reflexivity. Qed.
Print Assumptions C13_hsl_nan_panics.

(* regression (fixed by 1433667): the old tests `x < 0 || x > max` let NaN pass —
   and differed from the model in force ONLY there *)
Theorem C13_hsl_nan_before_fix_refuted : forall o,
  hsl_before_fix o [fc_nan] = ORet (VStr (hsl_text o fc_nan fc_100 fc_50 fc_100)) /\
  (forall nums, Forall (fun x => is_nan x = false) nums -> hsl_before_fix o nums = hsl_model o nums).
Proof. intros o. split; [vm_compute; reflexivity | apply hsl_before_fix_agrees]. Qed.
Print Assumptions C13_hsl_nan_before_fix_refuted.

(* ---------- repr: keys ---------- *)
(* model in force (lexer.IsIdent since 09cb4c8): a key is printed bare iff it is
   an identifier (letter/underscore, then letters, digits, underscores), quoted otherwise *)
Theorem C13_repr_keys : forall o k,
  (is_ident o k = true <-> IdentSpec o k) /\
  (key_repr o k = k <-> IdentSpec o k) /\ (key_repr o k = quote o k <-> ~ IdentSpec o k).
Proof. intros o k. split; [apply is_ident_spec | apply key_repr_spec]. Qed.
Print Assumptions C13_repr_keys.

(* regression (fixed by 09cb4c8): the first character was never examined *)
Theorem C13_repr_keys_before_fix_refuted :
  (exists o k, ~ IdentSpec o k /\ key_repr_before_fix o k = k) /\
  (forall o c t, is_ident_before_fix o (c :: t) = ident_rest o t).
Proof.
  split.
  - exists (const_oracles PFSyntax), (s_ "1a"). split; [|vm_compute; reflexivity].
    intros H. apply is_ident_spec in H. vm_compute in H. discriminate.
  - intros o c t. apply (is_ident_before_fix_unfold o (c :: t)).
Qed.
Print Assumptions C13_repr_keys_before_fix_refuted.

(* ---------- printf: a mismatched verb does not panic ---------- *)
Theorem C13_printf_mismatch_refuted :
  exists o, fst (fst (call_builtin o (s_ "sprintf") [VStr (s_ "%s"); VNum fc_one] {| b_err := err_init; b_inputs := [] |}))
            = ORet (VStr (o_fmt_float o {| f_sharp := false; f_zero := false; f_plus := false; f_minus := false;
                                           f_space := false; f_wid := None; f_prec := None; f_verb := 115%N |} fc_one)).
Proof. exists (const_oracles PFSyntax). vm_compute. reflexivity. Qed.
Print Assumptions C13_printf_mismatch_refuted.

(* ---------- test bookkeeping ---------- *)
Theorem C13_test_bookkeeping : forall ff outs,
  let '(t, stop) := run_tests ff outs ti_init in
  let ex := executed ff outs in
  t_total t = List.length ex /\
  fail_count t = List.length (filter is_fail ex) /\
  (success_count t + fail_count t = t_total t)%nat /\
  t_errors t = fail_msgs ex /\
  (stop = None <-> forallb (fun r => negb (ends_run ff r)) outs = true) /\
  (classify stop t = RcOk <-> stop = None /\ fail_count t = 0%nat).
Proof. exact test_bookkeeping. Qed.
Print Assumptions C13_test_bookkeeping.

(* … and the same for real programs: any sequence of `test` calls with any
   arguments, run through the dispatcher and evalFunccall's bookkeeping; the
   outcomes are those of testFunc on the any-wrapped arguments *)
Theorem C13_test_bookkeeping_programs : forall o ff argss st,
  let outs := map (fun a => test_func o (map wrap_any a)) argss in
  let '(_, _, t, stop) := run_calls o ff (test_calls argss) st ti_init in
  let ex := executed ff outs in
  t_total t = List.length ex /\
  fail_count t = List.length (filter is_fail ex) /\
  (success_count t + fail_count t = t_total t)%nat /\
  t_errors t = fail_msgs ex /\
  (stop = None <-> forallb (fun r => negb (ends_run ff r)) outs = true) /\
  (classify stop t = RcOk <-> stop = None /\ fail_count t = 0%nat).
Proof. exact test_bookkeeping_programs. Qed.
Print Assumptions C13_test_bookkeeping_programs.

(* the message of a failed test: none with <= 2 arguments; with exactly 3 the
   third argument verbatim — whatever characters it contains, no oracle, no
   formatting; with >= 4 sprintf of the third argument over the rest
   (docs: "test 1 val "val is %v" val" = "test 1 val (sprintf "val is %v" val)");
   and the failure text is "want != got: <repr want> != <repr got>" + that part *)
Theorem C13_test_message : forall o a b m msg,
  any_inner m = VStr msg ->
  (forall args, (List.length args <= 2)%nat -> test_message o args = Some []) /\
  test_message o [a; b; m] = Some (s_ " (" ++ msg ++ s_ ")") /\
  (forall x rest, test_message o (a :: b :: m :: x :: rest)
                  = option_map (fun r => s_ " (" ++ r ++ s_ ")") (sprintf o msg (x :: rest))) /\
  (same a b = false ->
   test_func o [a; b] = OTestFail (s_ "want != got: " ++ vrepr o a ++ s_ " != " ++ vrepr o b) /\
   test_func o [a; b; m] = OTestFail (s_ "want != got: " ++ vrepr o a ++ s_ " != " ++ vrepr o b ++ s_ " (" ++ msg ++ s_ ")")).
Proof.
  intros o a b m msg H. split; [intros args; apply test_message_none|].
  split; [apply test_message_three, H|]. split; [intros x rest; apply test_message_format, H|].
  intros S. split.
  - rewrite (test_func_failure o a b [] [] S I eq_refl). rewrite app_nil_r. reflexivity.
  - apply test_func_failure; [exact S | exists msg; exact H | apply test_message_three, H].
Qed.
Print Assumptions C13_test_message.

Theorem C13_test_summary : forall ns t,
  report ns t =
  if ns || Nat.eqb (t_total t) 0 then None
  else if Nat.eqb (fail_count t) 0
       then Some (green_mark ++ nat_str (success_count t) ++ s_ " passed test" ++ plural_suffix (success_count t) ++ [10%N])
       else Some (cross_mark ++ nat_str (fail_count t) ++ s_ " failed test" ++ plural_suffix (fail_count t) ++ [10%N]
                  ++ check_mark ++ nat_str (success_count t) ++ s_ " passed test" ++ plural_suffix (success_count t) ++ [10%N]).
Proof. exact report_spec. Qed.
Print Assumptions C13_test_summary.

(* ---------- exit status ---------- *)
Theorem C13_exit_status : forall f,
  (0 <= exit_status f < 256)%Z /\
  (forall z, float_to_Z f = Some z -> (- 2 ^ 63 <= z < 2 ^ 63)%Z -> exit_status f = (z mod 256)%Z) /\
  (forall z, float_to_Z f = Some z -> (0 <= z < 256)%Z -> exit_status f = z) /\
  (float_trunc f = None -> exit_status f = 0%Z).
Proof.
  intros f. split; [apply exit_status_range|]. split; [apply exit_status_int|].
  split; [apply exit_status_small | apply exit_status_nonfinite].
Qed.
Print Assumptions C13_exit_status.

(* ---------- non-vacuity and concrete instances ---------- *)
Example C13_ex_split : split (s_ "a,b,,c") (s_ ",") = [s_ "a"; s_ "b"; []; s_ "c"]
  /\ split (s_ "abcabc") (s_ "bc") = [s_ "a"; s_ "a"; []] /\ split (s_ "aaa") (s_ "aa") = [[]; s_ "a"].
Proof. vm_compute. repeat split; reflexivity. Qed.

Example C13_ex_replace : replace (s_ "abc123xyzabc abc") (s_ "abc") (s_ "ABC") = s_ "ABC123xyzABC ABC"
  /\ replace (s_ "aaa") (s_ "aa") (s_ "b") = s_ "ba" /\ replace (s_ "ab") [] (s_ "-") = s_ "-a-b-".
Proof. vm_compute. repeat split; reflexivity. Qed.

Example C13_ex_trim : trim (s_ ".,..abc.de.") (s_ ".,") = s_ "abc.de" /\ trim (s_ "...") (s_ ".") = [].
Proof. vm_compute. split; reflexivity. Qed.

Example C13_ex_first_occ : FirstOcc (s_ "de") (s_ "abcde") 3.
Proof. apply index_cp_some_iff. vm_compute. reflexivity. Qed.

(* the oracle contract of C13_rand_range is satisfiable, and the theorem's ORet case is inhabited *)
Example C13_ex_rand : (forall n, (0 < n)%Z -> (0 <= o_rand (const_oracles PFSyntax) n < n)%Z)
  /\ rand_model (const_oracles PFSyntax) (fc_lit 3) = ORet (VNum fc_zero)
  /\ rand_model (const_oracles PFSyntax) fc_zero = OPanic BadArguments
  /\ rand_model (const_oracles PFSyntax) (fc_lit 2147483648) = OPanic BadArguments
  /\ rand_model (const_oracles PFSyntax) fc_inf = OPanic BadArguments
  /\ PrimFloat.leb fc_one (fc_lit 3) && PrimFloat.leb (fc_lit 3) fc_int31max = true.
Proof. split; [intros n H; simpl; split; [apply Z.le_refl | exact H] | vm_compute; repeat split; reflexivity]. Qed.

Example C13_ex_err_history :
  let o := const_oracles PFSyntax in
  hrun o err_init [HStr2Num (s_ "x"); HOther; HStr2Bool (s_ "true"); HOther] = {| e_err := false; e_msg := [] |}
  /\ e_err (hrun o err_init [HStr2Bool (s_ "true"); HStr2Num (s_ "x"); HOther]) = true.
Proof. vm_compute. split; reflexivity. Qed.

Example C13_ex_keys :
  let o := const_oracles PFSyntax in
  key_repr o (s_ "ok_1") = s_ "ok_1" /\ key_repr o (s_ "a b") = s_ """a b""" /\ key_repr o (s_ "1a") = s_ """1a"""
  /\ key_repr_before_fix o (s_ "1a") = s_ "1a".
Proof. vm_compute. repeat split; reflexivity. Qed.

Example C13_ex_tests :
  run_tests false [ORet VNone; OTestFail (s_ "m"); ORet VNone; OPanic BadArguments; ORet VNone] ti_init
    = ({| t_total := 4; t_errors := [s_ "m"] |}, Some (OPanic BadArguments))
  /\ run_tests true [ORet VNone; OTestFail (s_ "m"); ORet VNone] ti_init
    = ({| t_total := 2; t_errors := [s_ "m"] |}, Some (OTestFail (s_ "m"))).
Proof. vm_compute. split; reflexivity. Qed.

(* a '%' in a plain three-argument message is just a character; with a fourth
   argument the same text is a format string *)
Example C13_ex_test_message :
  let o := const_oracles PFSyntax in
  test_func o [VAny TBool (VBool true); VAny TBool (VBool false); VAny TStr (VStr (s_ "below 100% of target"))]
    = OTestFail (s_ "want != got: true != false (below 100% of target)")
  /\ test_func o [VAny TBool (VBool true); VAny TBool (VBool false); VAny TStr (VStr (s_ "is %v%%")); VAny TStr (VStr (s_ "x"))]
    = OTestFail (s_ "want != got: true != false (is x%)")
  /\ test_func o [VAny TBool (VBool true); VAny TBool (VBool false); VAny TStr (VStr (s_ "is %v%%"))]
    = OTestFail (s_ "want != got: true != false (is %v%%)").
Proof. vm_compute. repeat split; reflexivity. Qed.

(* hsl: integer arguments are printed as their digits (no oracle involved);
   the accepted range is inhabited and has both kinds of neighbours *)
Example C13_ex_hsl :
  let o := const_oracles PFSyntax in
  hsl_model o [fc_lit 120] = ORet (VStr (s_ "hsl(120deg 100% 50% / 100%)"))
  /\ hsl_model o [fc_lit 360; fc_zero; fc_lit 100; fc_lit 7] = ORet (VStr (s_ "hsl(360deg 0% 100% / 7%)"))
  /\ hsl_model o [fc_lit 361] = OPanic BadArguments /\ hsl_model o [fc_lit 1; fc_lit 101] = OPanic BadArguments
  /\ hsl_model o [fc_lit (-1)] = OPanic BadArguments /\ hsl_model o [] = OPanic BadArguments
  /\ hsl_model o [fc_one; fc_one; fc_one; fc_one; fc_one] = OPanic BadArguments
  /\ hsl_args_ok [fc_lit 120; fc_half] = true /\ Forall (fun x => is_nan x = false) [fc_lit 120; fc_half].
Proof. vm_compute. repeat split; try reflexivity. repeat constructor. Qed.

Example C13_ex_exit :
  exit_status (fc_lit 256) = 0%Z /\ exit_status (fc_lit (-1)) = 255%Z /\ exit_status fc_half = 0%Z /\ exit_status (fc_lit 3) = 3%Z
  /\ exit_status fc_nan = 0%Z /\ exit_status fc_inf = 0%Z /\ float_to_Z (fc_lit 257) = Some 257%Z.
Proof. vm_compute. repeat split; reflexivity. Qed.

Example C13_ex_math :
  go_floor (fc_frac (-1) 2) = fc_lit (-1) /\ go_ceil (fc_frac 21 10) = fc_lit 3 /\ go_round (fc_frac 5 2) = fc_lit 3
  /\ go_round (fc_frac (-5) 2) = fc_lit (-3) /\ go_min (fc_lit 3) fc_one = fc_one /\ go_max (fc_lit 3) fc_one = fc_lit 3.
Proof. vm_compute. repeat split; reflexivity. Qed.
