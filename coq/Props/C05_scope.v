(* C05 (part) — the scoping rules, the call rules at program level, and "each statement ends
   at the end of a line": the parser model.
   Property theorems only; proofs are [exact <lemma of ParserScope>].

   The rules are declarative functions on the tree (ParserScope.v: stmt_sok, scope_prog); they
   do not look at the parser's bookkeeping.  scope_prog walks the program with a stack of
   frames (declared name, used flag), innermost scope first:
     (f) every variable occurrence of an expression (tvars) must be declared in some enclosing
         frame at that point of the walk (cvisible); it then marks the innermost declaration
         of that name as used.  The target of an assignment counts as a use.  "_" is never
         visible.
     (g) a declaration (x := e, x:T, a loop variable, a parameter) fails if the name is a
         builtin variable, is already in the innermost frame, or is a function name; "_" is
         allowed for parameters only and declares nothing.
     (h) when a block ends (close_scope) every name of its frame must be marked used;
         the same at the end of the program for the top-level frame.
   Frames: one per if / else-if / else branch and while (condition inside), one per for (loop
   variable, range expression and body share it), one per func / on (parameters and body). *)
From Coq Require Import List NArith ZArith Bool Arith String.
From EvyV Require Import Base Pratt Parser ParserProofs ParserRules ParserScope ParserCursor.
From EvyV.Gen Require Import Prec.
Import ListNotations.
Local Open Scope nat_scope.

(* (e) + type mismatch, at program level.  For every token list, builtin table and typing
   oracle: every expression of an accepted program satisfies tree_ok (ParserRules: every call
   names a function of the table with a matching argument count; every typing site was silent)
   w.r.t. the function table fixed by the signature pre-pass (fn_table: builtins plus one entry
   per `func` signature), and the statement-level typing sites (x := e of type none, assignment,
   return value, condition, range expression) were silent. *)
Theorem C05_scope_accept_static : forall B raw eof p,
  parse B raw eof = Accept p -> stmts_sok B (fn_table B raw) p.
Proof. exact accept_static. Qed.
Print Assumptions C05_scope_accept_static.

(* (f) (g) (h).  For every token list, builtin table and typing oracle: an accepted program
   passes the scope checker.
   Proof: the statement-by-statement simulation below, plus (ParserCursor.v) the fact that
   the statement loop never stands on a `func` keyword whose next token is not an identifier
   (there parseFunc parses the body in a scope of its own, returns nil and records no error —
   "already reported by parseFuncSignatures" — so uses inside the dropped body would mark outer
   variables that the tree does not show).  That fact is derived from the signature pre-pass
   having ended without error (Parse stops after a pre-pass with errors): the pre-pass visits
   every `func` token of the list with a whitespace-insensitive cursor and reports a missing
   name; the cursor of the statement pass is always a suffix of the same token list and every
   parser function restores the whitespace-sensitivity stack (a pass over all expression and
   statement functions of the model). *)
Theorem C05_scope_accept_scoped : forall B raw eof p,
  parse B raw eof = Accept p -> scope_prog (tabs_of B (fn_table B raw)) p = true.
Proof. exact accept_scoped. Qed.
Print Assumptions C05_scope_accept_scoped.

(* the fact used above, on its own *)
Theorem C05_scope_accept_funcs_named : forall B raw eof p,
  parse B raw eof = Accept p -> funcs_named B raw = true.
Proof. exact accept_funcs_named. Qed.
Print Assumptions C05_scope_accept_funcs_named.

(* the function table of an accepted parse (the table the static rules above refer to): the
   builtins, preceded by one entry per `func` keyword of the token list, latest first, each named
   by the identifier that follows the keyword (func_names), niladic iff its parsed parameter list
   is empty, with arity = the number of parsed parameters, or variadic for a single `p:T...`.
   (Not stated: that the names are distinct and differ from builtins - the pre-pass reports
   redeclaration and overriding; that the parameter list is what a reader of the source would
   call the parameters - it is what parseFuncDefSignature's loop consumed.) *)
Theorem C05_scope_fn_table_shape : forall B raw eof p,
  parse B raw eof = Accept p ->
  exists sigs, fn_table B raw = sigs ++ builtin_table B /\
               map fst sigs = rev (func_names (legal_toks raw)) /\ Forall (fun nf => fi_wf (snd nf)) sigs.
Proof. exact fn_table_shape. Qed.
Print Assumptions C05_scope_fn_table_shape.

(* the simulation itself, one statement: on an error-free run from a state with a non-empty
   scope chain and an empty read log, the scope checker maps the abstraction of the chain
   before the statement to the abstraction after it, the function table does not change and
   the statement satisfies the static rules *)
Theorem C05_scope_statement_simulation : forall B fuel s st s',
  parse_statement B fuel s = Ok (Some st) s' -> serrs s' = [] -> scs s <> [] -> sused s = [] ->
  stmt_sok B (fns s) st /\ scope_stmt (tabs_of B (fns s)) st (abs s) = Some (abs s') /\ fns s' = fns s.
Proof.
  intros B fuel s st s' H Q N U. destruct (stmt_sim B fuel s (Some st) s' H Q (conj N U)) as (_ & F & S1 & S2). auto.
Qed.
Print Assumptions C05_scope_statement_simulation.

(* (i) each statement ends at the end of a line, on the consumed tokens: after a statement that
   was parsed without error the cursor is advancePastNL of a cursor that stood on a newline, a
   comment or the end of input (blank lines / comment lines are the SEmpty statement).
   _partial: stated for every call of parseStatement / parseFunc / parseEventHandler (every
   statement of the tree, nested ones included, is the result of such a call) rather than as a
   predicate on the tree, which has no positions; the header lines `for ... range e` and `else`
   are checked by assertEOL in the model but have no theorem (the headers `while c`, `if c`,
   `else if c` have: C05_scope_condition_eol); the `func` / `on` header lines are consumed by
   advancePastNL without a check in parseFunc (the signature pre-pass checks them). *)
Theorem C05_scope_stmt_ends_line_partial : forall B fuel s st s',
  parse_statement B fuel s = Ok (Some st) s' -> serrs s' = [] -> st = SEmpty \/ ends_line s'.
Proof. exact stmt_ends_line. Qed.
Print Assumptions C05_scope_stmt_ends_line_partial.
Theorem C05_scope_func_ends_line : forall B fuel s st s',
  parse_func B fuel s = Ok (Some st) s' -> serrs s' = [] -> ends_line s'.
Proof. exact func_ends_line. Qed.
Print Assumptions C05_scope_func_ends_line.
Theorem C05_scope_on_ends_line : forall B fuel s st s',
  parse_event_handler B fuel s = Ok (Some st) s' -> serrs s' = [] -> ends_line s'.
Proof. exact on_ends_line. Qed.
Print Assumptions C05_scope_on_ends_line.
Theorem C05_scope_condition_eol : forall B s c s',
  parse_condition B s = Ok (Some c) s' -> serrs s' = [] -> is_at_eol (cs s') = true.
Proof. exact condition_eol. Qed.
Print Assumptions C05_scope_condition_eol.

(* ---------- non-vacuity ---------- *)
Fixpoint line_from (l c : nat) (ts : list (toktype * string)) : list (token * position) :=
  match ts with
  | [] => []
  | (t, s) :: r => ({| ttype := t; tlit := s_ s |}, (l, c)) :: line_from l (S c) r
  end.
Fixpoint lines_from (l : nat) (ls : list (list (toktype * string))) : list (token * position) :=
  match ls with
  | [] => []
  | x :: r => line_from l 1 (x ++ [(T_NL, ""%string)]) ++ lines_from (S l) r
  end.
Definition prog (ls : list (list (toktype * string))) : list (token * position) := lines_from 1 ls.
Definition i_ (s : string) := (T_IDENT, s).
Definition n_ (s : string) := (T_NUM_LIT, s).
Definition k_ (t : toktype) := (t, ""%string).

Definition B1 : benv :=
  {| b_funcs := [(s_ "print", false); (s_ "len", false)]; b_arity := [(s_ "print", None); (s_ "len", Some 1)]; b_globals := [s_ "err"];
     b_events := [(s_ "key", [TyStr])]; b_tyerr := fun _ _ _ => false |}.
Definition run (ls : list (list (toktype * string))) : outcome := parse B1 (prog ls) (List.length ls + 1, 1).
Definition rejected (o : outcome) : bool := match o with Reject (_ :: _) => true | _ => false end.

(* x := 1
   func f:num n:num / while true / if n > x / break / end / return 1 / end / return 2 / end
   on key k:string / print k / return / end
   for i := range 3 / x := 2 (shadows) / print (f i) x / end *)
Definition ex_ok : list (list (toktype * string)) :=
  [ [i_ "x"; k_ T_DECLARE; n_ "1"];
    [k_ T_FUNC; i_ "f"; k_ T_COLON; k_ T_NUM; i_ "n"; k_ T_COLON; k_ T_NUM];
    [k_ T_WHILE; k_ T_TRUE];
    [k_ T_IF; i_ "n"; k_ T_GT; i_ "x"];
    [k_ T_BREAK];
    [k_ T_END];
    [k_ T_RETURN; n_ "1"];
    [k_ T_END];
    [k_ T_RETURN; n_ "2"];
    [k_ T_END];
    [k_ T_ON; i_ "key"; i_ "k"; k_ T_COLON; k_ T_STRING];
    [i_ "print"; i_ "k"];
    [k_ T_RETURN];
    [k_ T_END];
    [k_ T_FOR; i_ "i"; k_ T_DECLARE; k_ T_RANGE; n_ "3"];
    [i_ "x"; k_ T_DECLARE; n_ "2"];
    [i_ "print"; k_ T_LPAREN; i_ "f"; i_ "i"; k_ T_RPAREN; i_ "x"];
    [k_ T_END] ].

Example C05_scope_ex_accepted :
  exists p, run ex_ok = Accept p /\ funcs_named B1 (prog ex_ok) = true /\
            scope_prog (tabs_of B1 (fn_table B1 (prog ex_ok))) p = true /\ List.length p = 4 /\
            map fst (fn_table B1 (prog ex_ok)) = [s_ "f"; s_ "print"; s_ "len"] /\
            func_names (legal_toks (prog ex_ok)) = [s_ "f"] /\
            option_map fi_arity (lookup_fn (s_ "f") (fn_table B1 (prog ex_ok))) = Some (Some 1).
Proof. vm_compute. eexists. repeat split. Qed.

(* funcs_named is false on `func` without a name; the pre-pass rejects that input *)
Example C05_scope_ex_nameless_func :
  funcs_named B1 (prog [[k_ T_FUNC]; [i_ "print"; n_ "1"]; [k_ T_END]]) = false /\
  rejected (run [[k_ T_FUNC]; [i_ "print"; n_ "1"]; [k_ T_END]]) = true.
Proof. vm_compute. split; reflexivity. Qed.

(* the checker rejects: one tree per rule (these trees are what the parser would build) *)
Definition T1 : tabs := {| t_globals := [s_ "err"]; t_funcs := [s_ "print"; s_ "len"]; t_events := [(s_ "key", 1)] |}.
Definition pr (args : list tree) : stmt := SCallStmt (TCall (s_ "print") args).
Definition decl (x : string) : stmt := SInferredDecl (s_ x) (TNum (s_ "1")).
Definition v (x : string) : tree := TVar (s_ x).

Example C05_scope_ex_checker_accepts :
  scope_prog T1 [decl "x"; pr [v "x"]] = true /\
  (* an inner block may shadow; both declarations must be used *)
  scope_prog T1 [decl "x"; SWhile (Some (TBool true)) (Block [decl "x"; pr [v "x"]] false); pr [v "x"]] = true /\
  (* assignment counts as use; builtin variables need no use *)
  scope_prog T1 [decl "x"; SAssign (v "x") (v "err")] = true.
Proof. vm_compute. repeat split. Qed.
Example C05_scope_ex_checker_undeclared :                                        (* (f) *)
  scope_prog T1 [pr [v "x"]] = false /\
  scope_prog T1 [pr [v "x"]; decl "x"] = false /\                                (* use before declaration *)
  scope_prog T1 [SWhile (Some (TBool true)) (Block [decl "x"; pr [v "x"]] false); pr [v "x"]] = false /\  (* out of its block *)
  scope_prog T1 [SFunc (s_ "g") false [s_ "q"] (Block [pr [v "q"]] false); pr [v "q"]] = false /\       (* parameter outside *)
  scope_prog T1 [pr [v "_"]] = false.
Proof. vm_compute. repeat split. Qed.
Example C05_scope_ex_checker_redeclared :                                        (* (g) *)
  scope_prog T1 [decl "x"; decl "x"; pr [v "x"]] = false /\
  scope_prog T1 [decl "err"; pr [v "err"]] = false /\                            (* builtin variable *)
  scope_prog T1 [decl "len"; pr [v "len"]] = false /\                            (* function name *)
  (* the loop variable and a declaration in the body share one scope *)
  scope_prog T1 [SFor (Some (s_ "i")) [TNum (s_ "3")] (Block [decl "i"; pr [v "i"]] false)] = false /\
  scope_prog T1 [SFunc (s_ "g") false [s_ "q"; s_ "q"] (Block [pr [v "q"]] false)] = false.
Proof. vm_compute. repeat split. Qed.
Example C05_scope_ex_checker_unused :                                            (* (h) *)
  scope_prog T1 [decl "x"] = false /\
  scope_prog T1 [decl "x"; SWhile (Some (TBool true)) (Block [decl "x"; pr [v "x"]] false)] = false /\   (* the outer x *)
  scope_prog T1 [SFor (Some (s_ "i")) [TNum (s_ "3")] (Block [pr []] false)] = false /\                  (* loop variable *)
  scope_prog T1 [SFunc (s_ "g") false [s_ "q"] (Block [pr []] false)] = false /\                         (* parameter *)
  scope_prog T1 [SOn (s_ "key") [s_ "k"] (Block [pr []] false)] = false /\
  scope_prog T1 [SOn (s_ "key") [] (Block [pr []] false)] = true /\              (* handler without parameters *)
  scope_prog T1 [SOn (s_ "key") [s_ "a"; s_ "b"] (Block [pr [v "a"; v "b"]] false)] = false.            (* parameter count *)
Proof. vm_compute. repeat split. Qed.

(* and the parser rejects the corresponding sources (same witnesses as C05_parse, plus binder positions) *)
Example C05_scope_ex_parser_rejects :
  rejected (run [[i_ "print"; i_ "x"]]) = true /\
  rejected (run [[i_ "print"; i_ "x"]; [i_ "x"; k_ T_DECLARE; n_ "1"]]) = true /\
  rejected (run [[i_ "x"; k_ T_DECLARE; n_ "1"]]) = true /\
  rejected (run [[i_ "x"; k_ T_DECLARE; n_ "1"]; [i_ "x"; k_ T_DECLARE; n_ "2"]; [i_ "print"; i_ "x"]]) = true /\
  rejected (run [[k_ T_FOR; i_ "i"; k_ T_DECLARE; k_ T_RANGE; n_ "3"]; [i_ "i"; k_ T_DECLARE; n_ "1"]; [i_ "print"; i_ "i"]; [k_ T_END]]) = true /\
  rejected (run [[k_ T_FOR; i_ "i"; k_ T_DECLARE; k_ T_RANGE; n_ "3"]; [i_ "print"; n_ "1"]; [k_ T_END]]) = true /\
  rejected (run [[k_ T_FUNC; i_ "g"; i_ "q"; k_ T_COLON; k_ T_NUM]; [i_ "print"; n_ "1"]; [k_ T_END]]) = true.
Proof. vm_compute. repeat split. Qed.

(* (i): a second statement on the same line *)
Example C05_scope_ex_two_statements_on_a_line :
  rejected (run [[i_ "x"; k_ T_DECLARE; n_ "1"; i_ "print"; i_ "x"]]) = true /\
  rejected (run [[k_ T_WHILE; k_ T_TRUE; i_ "print"; n_ "1"]; [k_ T_END]]) = true.
Proof. vm_compute. repeat split. Qed.
