(* C15 — Events run their handlers in order, isolated, on shared globals (first instalment). *)
From Coq Require Import List.
From EvyV Require Import Base Ast Sem SemBasics.
Import ListNotations.

(* an event is: bind the payload to the declared parameters in a fresh frame,
   run the handler body over the SAME state (heap + globals); the handler's
   environment is discarded, the state carries on to the next event *)
Theorem C15_handle_event_unfold : forall n P name args s h,
  find_handler name (p_handlers P) = Some h ->
  handle_event n P name args s =
  match (let* fr := bind_payload (h_params h) args [] in
         let* _ := exec_block n P [fr] (h_body h) in ret tt) s with
  | (Er e, s1) => (OErr e, s1)
  | (Ok _, s1) => (ODone, s1)
  end.
Proof. exact handle_event_unfold. Qed.
Print Assumptions C15_handle_event_unfold.
