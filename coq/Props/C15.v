(* C15 — Events run their handlers in order, isolated, on shared globals.
   Property theorems only; every proof is [exact <lemma of SemEvents>].

   Reading guide.  [payload_vals ps args] says how binding the payload [args]
   to the declared parameters [ps] ends (all bound / payload too short / a value
   of the wrong kind) and which values were put into fresh cells;
   [bind_frame ps ls fr] is the frame obtained by binding the parameters, in
   order, to the cells [ls] ("_" binds nothing, a repeated name replaces);
   [loc_seq p n] are the n consecutive fresh addresses from p;
   [halloc_list h vs] is the heap after allocating vs one after the other. *)
From Coq Require Import ZArith NArith PArith List String Bool Floats.
From EvyV Require Import Base Num Ast Omap Sem SemEvents.
Import ListNotations.

(* ---------------------------------------------------------------------- *)
(* C1. one event                                                           *)
(* ---------------------------------------------------------------------- *)

(* COMPLETE.  Delivering an event: no handler -> host crash, state untouched;
   otherwise the payload prefix is converted and allocated into fresh cells,
   then the body is run EXACTLY ONCE by one [exec_block], in an environment
   consisting of one frame that binds only the declared parameters, from the
   incoming state (same globals, trace, ...) extended by those cells; the
   signal and the final environment of the body are dropped. *)
Theorem C15_handle_event_unfold : forall fuel P name args s,
  handle_event fuel P name args s =
  match find_handler name (p_handlers P) with
  | None => (OErr err_no_handler, s)
  | Some h =>
      match payload_vals (h_params h) args with
      | PvOk vs =>
          event_outcome
            (exec_block fuel P [bind_frame (h_params h) (loc_seq (hnext (st_heap s)) (List.length vs)) []]
                        (h_body h) (upd_heap (halloc_list (st_heap s) vs) s))
      | PvMissing vs => (OErr err_missing_payload, upd_heap (halloc_list (st_heap s) vs) s)
      | PvMismatch vs => (OErr (EPanic PkAnyConversion), upd_heap (halloc_list (st_heap s) vs) s)
      end
  end.
Proof. exact handle_event_unfold. Qed.
Print Assumptions C15_handle_event_unfold.

(* COMPLETE.  bind_payload is exactly the pure description. *)
Theorem C15_bind_payload_exact : forall ps args fr s,
  bind_payload ps args fr s = bind_payload_result ps args fr s.
Proof. exact bind_payload_exact. Qed.
Print Assumptions C15_bind_payload_exact.

(* COMPLETE.  What a successful binding leaves behind: one fresh cell per
   declared parameter (also for "_"), at the consecutive addresses from hnext,
   holding the payload prefix; globals, trace, yields and all old cells are
   untouched. *)
Theorem C15_bind_payload_ok : forall ps args fr s fr1 s1,
  bind_payload ps args fr s = (Ok fr1, s1) ->
  let vs := map hval_of_payload (firstn (List.length ps) args) in
  let ls := loc_seq (hnext (st_heap s)) (List.length ps) in
  payload_vals ps args = PvOk vs /\
  fr1 = bind_frame ps ls fr /\
  s1 = upd_heap (halloc_list (st_heap s) vs) s /\
  st_globals s1 = st_globals s /\ st_trace s1 = st_trace s /\ st_yields s1 = st_yields s /\
  Forall2 (fun l v => hget (st_heap s1) l = Some v) ls vs /\
  (forall l, (l < hnext (st_heap s))%positive -> hget (st_heap s1) l = hget (st_heap s) l).
Proof. exact bind_payload_ok. Qed.
Print Assumptions C15_bind_payload_ok.

(* COMPLETE.  When binding succeeds: exactly when there are enough values and
   each has the declared kind (num / string / bool). *)
Theorem C15_payload_binds_iff_typed : forall ps args,
  (exists vs, payload_vals ps args = PvOk vs) <->
  ((List.length ps <= List.length args)%nat /\
   Forall2 (fun p a => snd p = payload_ty a) ps (firstn (List.length ps) args)).
Proof. exact payload_binds_iff_typed. Qed.
Print Assumptions C15_payload_binds_iff_typed.

(* COMPLETE.  The payload beyond the declared parameters is ignored. *)
Theorem C15_bind_payload_firstn : forall ps args fr s,
  bind_payload ps args fr s = bind_payload ps (firstn (List.length ps) args) fr s.
Proof. exact bind_payload_firstn. Qed.
Print Assumptions C15_bind_payload_firstn.

Theorem C15_handle_event_extra_ignored : forall fuel P name args extra s h,
  find_handler name (p_handlers P) = Some h ->
  (List.length (h_params h) <= List.length args)%nat ->
  handle_event fuel P name (args ++ extra) s = handle_event fuel P name args s.
Proof. exact handle_event_extra_ignored. Qed.
Print Assumptions C15_handle_event_extra_ignored.

(* COMPLETE.  A handler declared without parameters ignores the whole payload. *)
Theorem C15_handle_event_no_params : forall fuel P name args s h,
  find_handler name (p_handlers P) = Some h -> h_params h = [] ->
  handle_event fuel P name args s = event_outcome (exec_block fuel P [[]] (h_body h) s).
Proof. exact handle_event_no_params. Qed.
Print Assumptions C15_handle_event_no_params.

(* COMPLETE.  "_" consumes (and converts) its value, allocates it, binds nothing. *)
Theorem C15_bind_payload_underscore : forall t rest a more fr s,
  bind_payload ((underscore, t) :: rest) (a :: more) fr s =
  match payload_hval t a with
  | Some v => bind_payload rest more fr (upd_heap (snd (halloc (st_heap s) v)) s)
  | None => (Er (EPanic PkAnyConversion), s)
  end.
Proof. exact bind_payload_underscore. Qed.
Print Assumptions C15_bind_payload_underscore.

(* COMPLETE.  handler_locals_do_not_survive: handle_event takes and returns no
   environment (by its type), and the frame each body starts in names nothing
   but that handler's own named parameters. *)
Theorem C15_handler_scope_is_fresh : forall ps ls n,
  In n (map fst (bind_frame ps ls [])) -> In n (map fst ps) /\ n <> underscore.
Proof. exact handler_scope_is_fresh. Qed.
Print Assumptions C15_handler_scope_is_fresh.

(* ---------------------------------------------------------------------- *)
(* C1. sequences of events                                                 *)
(* ---------------------------------------------------------------------- *)
Theorem C15_handle_events_cons : forall fuel P e es s,
  handle_events fuel P (e :: es) s =
  let '(o, s1) := handle_event fuel P (fst e) (snd e) s in
  let '(os, s2) := handle_events fuel P es s1 in (o :: os, s2).
Proof. exact handle_events_cons. Qed.
Print Assumptions C15_handle_events_cons.

Theorem C15_handle_events_app : forall fuel P es1 es2 s,
  handle_events fuel P (es1 ++ es2) s =
  let '(os1, s1) := handle_events fuel P es1 s in
  let '(os2, s2) := handle_events fuel P es2 s1 in (os1 ++ os2, s2).
Proof. exact handle_events_app. Qed.
Print Assumptions C15_handle_events_app.

(* COMPLETE.  globals_persist: event i+1 starts in exactly the state (heap,
   globals, trace, input, test counters) event i ended in, whatever its
   outcome; every entry is one handle_event. *)
Theorem C15_globals_persist : forall fuel P es s,
  chained s (event_runs fuel P es s) (snd (handle_events fuel P es s)) /\
  Forall2 (fun e r => handle_event fuel P (fst e) (snd e) (fst (fst r)) = (snd (fst r), snd r))
          es (event_runs fuel P es s).
Proof. exact globals_persist. Qed.
Print Assumptions C15_globals_persist.

(* COMPLETE.  This sequence is what the correspondence entry point sem_case
   runs after the top-level code. *)
Theorem C15_sem_case_events : forall p stop inp ff ay fuel evs P input events,
  dec_program p = Some P -> dec_strs inp = Some input -> dec_list dec_event evs = Some events ->
  sem_case (Lst [p; stop; Lst inp; Sym ff; Sym ay; Int fuel; Lst evs]) =
  let stop_at := match stop with Int k => Some (Z.to_nat k) | _ => None end in
  let fl := Z.to_nat fuel in
  let s0 := init_state stop_at input (str_eqb ff sy_true) (str_eqb ay sy_true) in
  let '(o, s1) := run_program fl P s0 in
  Lst (enc_result o s1 0 :: map enc_run (event_runs fl P events s1)).
Proof. exact sem_case_events. Qed.
Print Assumptions C15_sem_case_events.

(* ---------------------------------------------------------------------- *)
(* C2. events and calls                                                    *)
(* ---------------------------------------------------------------------- *)
(* COMPLETE.  Binding call arguments: no allocation, no state change. *)
Theorem C15_bind_params_exact : forall ps vals fr s,
  bind_params ps vals fr s =
  if Nat.leb (List.length ps) (List.length vals)
  then (Ok (bind_frame ps vals fr, skipn (List.length ps) vals), s)
  else (Er err_missing_arg, s).
Proof. exact bind_params_exact. Qed.
Print Assumptions C15_bind_params_exact.

(* COMPLETE.  The user-function branch of evalFunccall. *)
Theorem C15_eval_call_user_unfold : forall f P e name args fd s,
  user_fn_name name -> find_func name (p_funcs P) = Some fd ->
  eval_call (S f) P e name args s =
  match eval_exprs f P e args s with
  | (Ok vals, s') => call_user f P fd vals s'
  | (Er er, s') => (Er er, s')
  end.
Proof. exact eval_call_user_unfold. Qed.
Print Assumptions C15_eval_call_user_unfold.

Theorem C15_call_user_unfold : forall f P fd vals s,
  fn_variadic fd = None ->
  call_user f P fd vals s =
  if Nat.leb (List.length (fn_params fd)) (List.length vals)
  then call_outcome (exec_block f P [bind_frame (fn_params fd) vals []] (fn_body fd) s)
  else (Er err_missing_arg, s).
Proof. exact call_user_unfold. Qed.
Print Assumptions C15_call_user_unfold.

(* COMPLETE (exact form of events-as-calls for one event).  Delivering an
   event IS calling the twin procedure on fresh cells holding the payload
   prefix: both run the same exec_block from the same environment and state;
   outcomes agree and the final states are equal except for the HNone result
   cell a call allocates when the body ends without `return`. *)
Theorem C15_event_is_call_on_fresh_cells : forall fuel P name args s h fname fd vs,
  find_handler name (p_handlers P) = Some h ->
  find_func fname (p_funcs P) = Some fd ->
  fn_params fd = h_params h -> fn_variadic fd = None -> fn_body fd = h_body h ->
  payload_vals (h_params h) args = PvOk vs ->
  let s1 := upd_heap (halloc_list (st_heap s) vs) s in
  let ls := loc_seq (hnext (st_heap s)) (List.length vs) in
  let fr := bind_frame (h_params h) ls [] in
  handle_event fuel P name args s = event_outcome (exec_block fuel P [fr] (h_body h) s1) /\
  call_user fuel P fd ls s1 = call_outcome (exec_block fuel P [fr] (h_body h) s1) /\
  (let '(o, s') := handle_event fuel P name args s in
   let '(r, s'') := call_user fuel P fd ls s1 in
   o = outcome_of_call r /\
   (s'' = s' \/ s'' = upd_heap (snd (halloc (st_heap s') HNone)) s')).
Proof. exact event_is_call_on_fresh_cells. Qed.
Print Assumptions C15_event_is_call_on_fresh_cells.

(* PARTIAL (events_as_calls for arbitrary argument cells).  With argument cells
   [vals] that merely HOLD the payload values (in any state s'), event and call
   reduce to one exec_block of the same body from frames with the same names
   in the same order whose cells hold equal values; the event has only added
   fresh cells.
   Missing for [events_as_calls_full]: invariance of the nine evaluator
   functions and of every builtin under a renaming of cells (heap isomorphism
   on the part reachable from globals and the frame), under unreachable garbage
   cells and under the yield count. *)
Theorem C15_events_as_calls_partial : forall fuel P name args s s' h fname fd vals fr1 s1,
  find_handler name (p_handlers P) = Some h ->
  find_func fname (p_funcs P) = Some fd ->
  fn_params fd = h_params h -> fn_variadic fd = None -> fn_body fd = h_body h ->
  bind_payload (h_params h) args [] s = (Ok fr1, s1) ->
  Forall2 (holds (st_heap s')) vals args ->
  let fr2 := bind_frame (h_params h) vals [] in
  handle_event fuel P name args s = event_outcome (exec_block fuel P [fr1] (h_body h) s1) /\
  call_user fuel P fd vals s' = call_outcome (exec_block fuel P [fr2] (h_body h) s') /\
  frame_sim (same_value (st_heap s1) (st_heap s')) fr1 fr2 /\
  st_globals s1 = st_globals s /\ st_trace s1 = st_trace s /\ st_yields s1 = st_yields s /\
  (forall l, (l < hnext (st_heap s))%positive -> hget (st_heap s1) l = hget (st_heap s) l).
Proof. exact events_as_calls_partial. Qed.
Print Assumptions C15_events_as_calls_partial.

Theorem C15_event_and_call_frames : forall ps args vals s s' fr1 s1,
  bind_payload ps args [] s = (Ok fr1, s1) ->
  Forall2 (holds (st_heap s')) vals args ->
  exists fr2,
    bind_params ps vals [] s' = (Ok (fr2, skipn (List.length ps) vals), s') /\
    fr1 = bind_frame ps (loc_seq (hnext (st_heap s)) (List.length ps)) [] /\
    fr2 = bind_frame ps vals [] /\
    frame_sim (same_value (st_heap s1) (st_heap s')) fr1 fr2 /\
    map fst fr1 = map fst fr2 /\
    (forall n l1, frame_get n fr1 = Some l1 ->
       exists l2 v, frame_get n fr2 = Some l2 /\ hget (st_heap s1) l1 = Some v /\ hget (st_heap s') l2 = Some v) /\
    st_globals s1 = st_globals s /\ st_trace s1 = st_trace s /\ st_yields s1 = st_yields s /\
    (forall l, (l < hnext (st_heap s))%positive -> hget (st_heap s1) l = hget (st_heap s) l).
Proof. exact event_and_call_frames. Qed.
Print Assumptions C15_event_and_call_frames.

(* COMPLETE.  Evaluating literal arguments (no stop pending, enough fuel): per
   argument one yield, the literal's cell and its copy; the copies are the
   argument cells. *)
Theorem C15_eval_exprs_literals : forall P e args f s,
  tick_ok s -> (List.length args < f)%nat ->
  eval_exprs f P e (map payload_expr args) s = (Ok (fst (lit_run args s)), snd (lit_run args s)).
Proof. exact eval_exprs_literals. Qed.
Print Assumptions C15_eval_exprs_literals.

(* PARTIAL (same gap as above), with the call as evy source writes it:
   `fname lit1 lit2 ...` against the event with payload lit1 lit2 ... *)
Theorem C15_event_vs_literal_call : forall fuel P e name args s h fname fd vs,
  find_handler name (p_handlers P) = Some h ->
  user_fn_name fname -> find_func fname (p_funcs P) = Some fd ->
  fn_params fd = h_params h -> fn_variadic fd = None -> fn_body fd = h_body h ->
  payload_vals (h_params h) args = PvOk vs ->
  tick_ok s -> (List.length args < fuel)%nat ->
  let s1 := upd_heap (halloc_list (st_heap s) vs) s in
  let fr1 := bind_frame (h_params h) (loc_seq (hnext (st_heap s)) (List.length vs)) [] in
  let vals := fst (lit_run args s) in
  let s2 := snd (lit_run args s) in
  let fr2 := bind_frame (h_params h) vals [] in
  handle_event fuel P name args s = event_outcome (exec_block fuel P [fr1] (h_body h) s1) /\
  eval_call (S fuel) P e fname (map payload_expr args) s = call_outcome (exec_block fuel P [fr2] (h_body h) s2) /\
  frame_sim (same_value (st_heap s1) (st_heap s2)) fr1 fr2 /\
  st_globals s1 = st_globals s2 /\ st_trace s1 = st_trace s2 /\
  st_yields s2 = (st_yields s1 + List.length args)%nat /\
  (forall l, (l < hnext (st_heap s))%positive -> hget (st_heap s1) l = hget (st_heap s2) l).
Proof. exact event_vs_literal_call. Qed.
Print Assumptions C15_event_vs_literal_call.

(* COMPLETE.  Sequences: every event of every sequence is, from the state the
   previous event left, a call of its twin procedure on fresh cells holding the
   payload: same outcome, same final state up to the HNone result cell. *)
Theorem C15_event_runs_are_calls : forall fuel P pn es s,
  procs_mirror_handlers P pn ->
  (forall e, In e es -> exists h vs, find_handler (fst e) (p_handlers P) = Some h /\
                                     payload_vals (h_params h) (snd e) = PvOk vs) ->
  Forall2 (run_is_call fuel P pn) es (event_runs fuel P es s).
Proof. exact event_runs_are_calls. Qed.
Print Assumptions C15_event_runs_are_calls.

(* The full statement, NOT proved: SemEvents.events_as_calls_full *)
Definition C15_events_as_calls_full : Prop := events_as_calls_full.

(* ---------------------------------------------------------------------- *)
(* Examples (non-vacuity), by computation                                  *)
(* ---------------------------------------------------------------------- *)
Definition P3 (s : string) : piece := PStr (s_ s).

(* a global updated by one event is read by the next: prints 1 then 2
   (the trace is newest first); the third payload value of the second event is
   ignored *)
Example C15_ex_globals_persist :
  let es := [(s_ "down", [PvNum 3%float; PvNum 4%float]);
             (s_ "down", [PvNum 5%float; PvNum 6%float; PvStr (s_ "extra")])] in
  fst (run_program 100 ex_counter ex_s0) = ODone /\
  (let '(os, s2) := handle_events 100 ex_counter es (ex_after ex_counter) in
   os = [ODone; ODone] /\
   st_trace s2 = [EvPrint [P3 "2"; P3 " "; P3 "5"; P3 " "; P3 "6"; nl];
                  EvPrint [P3 "1"; P3 " "; P3 "3"; P3 " "; P3 "4"; nl]]).
Proof. vm_compute. repeat split; reflexivity. Qed.

(* locals and parameters of one event are not visible in the next; "_" binds
   nothing but its value is converted; short payload; `return` is ignored; no
   handler *)
Example C15_ex_locals_do_not_survive :
  let es := [(s_ "down", [PvNum 1%float]);                 (* t := 7  print t x  -> "7 1" *)
             (s_ "up", [PvNum 1%float]);                   (* print t            -> not set; payload ignored *)
             (s_ "key", [PvStr (s_ "a")]);                 (* print x            -> not set *)
             (s_ "move", [PvNum 1%float; PvNum 2%float]);  (* on move _:num y:num  print y -> "2" *)
             (s_ "move", [PvStr []; PvNum 2%float]);       (* the "_" value has the wrong kind *)
             (s_ "move", [PvNum 2%float]);                 (* too short *)
             (s_ "input", [PvStr []]);                     (* return *)
             (s_ "nosuch", [])] in
  let '(os, s2) := handle_events 100 ex_locals es (ex_after ex_locals) in
  os = [ODone; OErr (EPanic PkVarNotSet); OErr (EPanic PkVarNotSet); ODone;
        OErr (EPanic PkAnyConversion); OErr err_missing_payload; ODone; OErr err_no_handler] /\
  st_trace s2 = [EvPrint [P3 "2"; nl]; EvPrint [P3 "7"; P3 " "; P3 "1"; nl]] /\
  st_globals s2 = st_globals ex_s0.
Proof. vm_compute. repeat split; reflexivity. Qed.

(* instance of the hypotheses of C15_handle_event_extra_ignored / _no_params *)
Example C15_ex_extra_ignored_hyps :
  exists h, find_handler (s_ "down") (p_handlers ex_counter) = Some h /\
            (List.length (h_params h) <= List.length [PvNum 3%float; PvNum 4%float])%nat.
Proof. eexists; split; [reflexivity | vm_compute; repeat constructor]. Qed.

Example C15_ex_no_params_hyps :
  exists h, find_handler (s_ "up") (p_handlers ex_locals) = Some h /\ h_params h = [].
Proof. eexists; split; reflexivity. Qed.

(* instance of C15_payload_binds_iff_typed and of the fresh consecutive cells *)
Example C15_ex_bind_payload :
  let s := ex_after ex_twin in
  payload_vals ex_twin_params [PvNum 3%float; PvStr (s_ "a"); PvBool true] = PvOk [HNum 3%float; HStr (s_ "a")] /\
  hnext (st_heap s) = 6%positive /\
  (exists s1, bind_payload ex_twin_params [PvNum 3%float; PvStr (s_ "a"); PvBool true] [] s
              = (Ok [(s_ "s", 7%positive); (s_ "x", 6%positive)], s1) /\
              hget (st_heap s1) 6%positive = Some (HNum 3%float) /\
              hget (st_heap s1) 7%positive = Some (HStr (s_ "a")) /\
              hnext (st_heap s1) = 8%positive).
Proof. vm_compute. repeat split; try reflexivity. eexists; repeat split; reflexivity. Qed.

(* instance of the hypotheses of C15_event_is_call_on_fresh_cells and
   C15_events_as_calls_partial: handler `down` and its twin procedure `down_` *)
Example C15_ex_twin_hyps :
  user_fn_name (s_ "down_") /\
  find_handler (s_ "down") (p_handlers ex_twin) = Some ex_twin_h /\
  find_func (s_ "down_") (p_funcs ex_twin) = Some ex_twin_fd /\
  fn_params ex_twin_fd = h_params ex_twin_h /\ fn_variadic ex_twin_fd = None /\
  fn_body ex_twin_fd = h_body ex_twin_h /\
  payload_vals (h_params ex_twin_h) [PvNum 3%float; PvStr (s_ "a")] = PvOk [HNum 3%float; HStr (s_ "a")] /\
  (* argument cells 1 (err: a bool) do not hold the payload, cells allocated for it do *)
  (let s := upd_heap (halloc_list (st_heap (ex_after ex_twin)) [HStr (s_ "a"); HNum 3%float]) (ex_after ex_twin) in
   Forall2 (holds (st_heap s)) [7%positive; 6%positive] [PvNum 3%float; PvStr (s_ "a")] /\
   exists fr1 s1, bind_payload (h_params ex_twin_h) [PvNum 3%float; PvStr (s_ "a")] [] s = (Ok fr1, s1)).
Proof.
  vm_compute. repeat split; try reflexivity.
  - repeat constructor.
  - do 2 eexists; reflexivity.
Qed.

(* an instance of events_as_calls_full, by computation: two events against the
   two calls `down_ 3 "a"`, `down_ 5 "b"`: same outcomes, traces and global
   dumps; the yield counts differ (argument evaluation yields) *)
Example C15_ex_events_as_calls :
  let es := [(s_ "down", [PvNum 3%float; PvStr (s_ "a")]);
             (s_ "down", [PvNum 5%float; PvStr (s_ "b"); PvBool true])] in
  let pn := fun n : str => n ++ s_ "_" in
  let '(os1, s1) := handle_events 100 ex_twin es (ex_after ex_twin) in
  let '(os2, s2) := call_events 100 ex_twin pn es (ex_after ex_twin) in
  os1 = [ODone; ODone] /\ os1 = os2 /\ same_observables s1 s2 /\
  st_trace s1 = [EvPrint [P3 "2"; P3 " "; P3 "5"; P3 " "; P3 "b"; nl];
                 EvPrint [P3 "1"; P3 " "; P3 "3"; P3 " "; P3 "a"; nl]] /\
  st_yields s1 = 21%nat /\ st_yields s2 = 25%nat.
Proof. vm_compute. repeat split; reflexivity. Qed.

(* instance of the hypotheses of C15_event_vs_literal_call /
   C15_event_runs_are_calls *)
Example C15_ex_literal_call_hyps :
  tick_ok (ex_after ex_twin) /\
  procs_mirror_handlers ex_twin (fun n : str => n ++ s_ "_") /\
  (forall e, In e [(s_ "down", [PvNum 3%float; PvStr (s_ "a")]);
                   (s_ "down", [PvNum 5%float; PvStr (s_ "b"); PvBool true])] ->
     exists h vs, find_handler (fst e) (p_handlers ex_twin) = Some h /\
                  payload_vals (h_params h) (snd e) = PvOk vs).
Proof.
  split; [split; reflexivity|]. split.
  - intros h [<-|[]]. split; [vm_compute; repeat split|].
    exists ex_twin_fd. repeat split; reflexivity.
  - intros e [<-|[<-|[]]]; do 2 eexists; split; reflexivity.
Qed.

(* differences between events and calls *)
Example C15_ex_missing_value_errors_differ : err_missing_payload <> err_missing_arg.
Proof. exact missing_payload_vs_missing_arg. Qed.

(* a call does not check kinds: the procedure runs with x bound to a string *)
Example C15_ex_call_does_not_check_kinds :
  let s := ex_after ex_twin in
  fst (handle_event 100 ex_twin (s_ "down") [PvStr (s_ "a"); PvStr (s_ "b")] s) = OErr (EPanic PkAnyConversion) /\
  (exists l, fst (eval_call 100 ex_twin [] (s_ "down_") [EStr (s_ "a"); EStr (s_ "b")] s) = Ok (Some l)).
Proof. vm_compute. split; [reflexivity | eexists; reflexivity]. Qed.

(* MODEL vs GO (reported): Go's HandleEvent checks the payload length before
   converting anything and would panic "not enough arguments" here *)
Example C15_ex_short_payload_wrong_kind :
  fst (handle_event 100 ex_counter (s_ "down") [PvStr (s_ "a")] (ex_after ex_counter))
  = OErr (EPanic PkAnyConversion).
Proof. vm_compute. reflexivity. Qed.

(* a repeated parameter name: the later binding replaces (both for events and
   for calls, through bind_frame); "_" binds nothing *)
Example C15_ex_duplicate_and_underscore :
  bind_frame [(s_ "x", TNum); (underscore, TNum); (s_ "x", TNum); (s_ "y", TStr)]
             [10%positive; 11%positive; 12%positive; 13%positive; 14%positive] []
  = [(s_ "y", 13%positive); (s_ "x", 12%positive)].
Proof. vm_compute. reflexivity. Qed.
