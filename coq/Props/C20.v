(* C20 — Sealed answers round-trip and answer verification is exact.
   Property theorems only; every proof is [exact <lemma of SealProofs>].

   The cryptographic primitives are universally quantified function
   parameters; what is assumed about them is written out in each statement:
   - functional correctness (documented by the Go libraries):
       KeyPair, RsaLen, GcmRoundtrip, B64Roundtrip, B64NonNil
   - two CRYPTOGRAPHIC IDEALISATIONS (true only up to negligible probability,
     and only against alterations made without running Encrypt afresh — the
     public key is public, so anybody can seal a different answer):
       IdealGcmIntegrity, IdealOaepIntegrity
     They appear only in C20_tamper_safe. *)
From Coq Require Import ZArith NArith List Bool String.
From EvyV Require Import Base Seal SealProofs.
Import ListNotations.
Open Scope N_scope.

(* ---------- framing ---------- *)

(* for every RSA part shorter than 2^16 bytes and every AES part *)
Theorem C20_frame_roundtrip : forall r a : bytes,
  N.of_nat (List.length r) < 65536 -> unframe (frame r a) = Some (r, a).
Proof. exact frame_roundtrip. Qed.
Print Assumptions C20_frame_roundtrip.

(* unframe accepts exactly version || hi || lo || r || a with |r| = hi*256+lo,
   and returns exactly (r, a) *)
Theorem C20_unframe_exact : forall (c r a : bytes),
  unframe c = Some (r, a) <->
  exists v hi lo, c = v :: hi :: lo :: r ++ a /\ N.of_nat (List.length r) = hi * 256 + lo.
Proof. exact unframe_exact. Qed.
Print Assumptions C20_unframe_exact.

(* it rejects anything shorter than its own length field says *)
Theorem C20_unframe_rejects_short : forall (c : bytes),
  ((List.length c < 3)%nat -> unframe c = None) /\
  (forall v hi lo rest, c = v :: hi :: lo :: rest ->
                        N.of_nat (List.length rest) < hi * 256 + lo -> unframe c = None).
Proof.
  intro c. split; [apply unframe_too_short|].
  intros v hi lo rest -> H. apply unframe_shorter_than_declared. exact H.
Qed.
Print Assumptions C20_unframe_rejects_short.

(* ---------- Encrypt / Decrypt ---------- *)

Theorem C20_seal_unseal :
  forall (PK SK RND : Type) (parse_pub : str -> option PK) (parse_priv : str -> option SK)
         (rsa_enc : PK -> RND -> bytes -> option bytes) (rsa_dec : SK -> bytes -> option bytes)
         (gcm_seal : bytes -> bytes -> bytes) (gcm_open : bytes -> bytes -> option bytes)
         (b64_enc : bytes -> str) (b64_dec : str -> option bytes)
         (pubs privs : str) (pk : PK) (sk : SK),
    parse_pub pubs = Some pk -> parse_priv privs = Some sk ->
    KeyPair PK SK RND rsa_enc rsa_dec pk sk ->
    RsaLen PK RND rsa_enc -> GcmRoundtrip gcm_seal gcm_open -> B64Roundtrip b64_enc b64_dec ->
    forall (k : bytes) (rnd : RND) (p c : str),
      encrypt PK RND parse_pub rsa_enc gcm_seal b64_enc pubs k rnd p = Ok c ->
      decrypt SK parse_priv rsa_dec gcm_open b64_dec privs c = Ok p.
Proof. exact encrypt_decrypt. Qed.
Print Assumptions C20_seal_unseal.

(* Encrypt does succeed (the previous theorem is not about an empty set) *)
Theorem C20_encrypt_succeeds :
  forall (PK RND : Type) (parse_pub : str -> option PK)
         (rsa_enc : PK -> RND -> bytes -> option bytes)
         (gcm_seal : bytes -> bytes -> bytes) (b64_enc : bytes -> str)
         (pubs : str) (pk : PK) (k : bytes) (rnd : RND) (p : str),
    parse_pub pubs = Some pk -> List.length k = session_key_bytes -> rsa_enc pk rnd k <> None ->
    exists c, encrypt PK RND parse_pub rsa_enc gcm_seal b64_enc pubs k rnd p = Ok c.
Proof. exact encrypt_succeeds. Qed.
Print Assumptions C20_encrypt_succeeds.

(* Relative to one genuine envelope (session key k, plaintext p, RSA part rc
   for private key sk): WHATEVER string is presented to Decrypt, with WHATEVER
   private-key string, the result is a rejection or p.  Covers every
   corruption, every truncation and every other key at once. *)
Theorem C20_tamper_safe :
  forall (SK : Type) (parse_priv : str -> option SK)
         (rsa_dec : SK -> bytes -> option bytes)
         (gcm_seal : bytes -> bytes -> bytes) (gcm_open : bytes -> bytes -> option bytes)
         (b64_dec : str -> option bytes)
         (sk : SK) (k rc p : bytes),
    rsa_dec sk rc = Some k -> gcm_open k (gcm_seal k p) = Some p ->
    IdealGcmIntegrity gcm_seal gcm_open k p ->          (* idealisation 1 *)
    IdealOaepIntegrity SK rsa_dec gcm_open sk rc ->     (* idealisation 2 *)
    forall (privs' c' p' : str),
      decrypt SK parse_priv rsa_dec gcm_open b64_dec privs' c' = Ok p' -> p' = p.
Proof. exact tamper_safe. Qed.
Print Assumptions C20_tamper_safe.

(* ---------- front matter ---------- *)

(* Unseal (Seal fm) = fm for an unsealed front matter; after Seal exactly the
   sealed field is set *)
Theorem C20_frontmatter_seal_unseal :
  forall (PK SK RND : Type) (parse_pub : str -> option PK) (parse_priv : str -> option SK)
         (rsa_enc : PK -> RND -> bytes -> option bytes) (rsa_dec : SK -> bytes -> option bytes)
         (gcm_seal : bytes -> bytes -> bytes) (gcm_open : bytes -> bytes -> option bytes)
         (b64_enc : bytes -> str) (b64_dec : str -> option bytes)
         (pubs privs : str) (pk : PK) (sk : SK),
    parse_pub pubs = Some pk -> parse_priv privs = Some sk ->
    KeyPair PK SK RND rsa_enc rsa_dec pk sk ->
    RsaLen PK RND rsa_enc -> GcmRoundtrip gcm_seal gcm_open -> B64Roundtrip b64_enc b64_dec ->
    B64NonNil b64_enc ->
    forall (k : bytes) (rnd : RND) (f f' : fm),
      sealed f = [] ->
      seal_fm PK RND parse_pub rsa_enc gcm_seal b64_enc pubs k rnd f = Ok f' ->
      unseal_fm SK parse_priv rsa_dec gcm_open b64_dec privs f' = Ok f /\
      answer f' = [] /\ sealed f' <> [].
Proof. exact seal_unseal_fm. Qed.
Print Assumptions C20_frontmatter_seal_unseal.

(* Seal is idempotent (whatever randomness the second call would use) *)
Theorem C20_seal_idempotent :
  forall (PK RND : Type) (parse_pub : str -> option PK)
         (rsa_enc : PK -> RND -> bytes -> option bytes)
         (gcm_seal : bytes -> bytes -> bytes) (b64_enc : bytes -> str) (pubs : str),
    B64NonNil b64_enc ->
    forall (k : bytes) (rnd : RND) (f f' : fm),
      seal_fm PK RND parse_pub rsa_enc gcm_seal b64_enc pubs k rnd f = Ok f' ->
      forall k' rnd', seal_fm PK RND parse_pub rsa_enc gcm_seal b64_enc pubs k' rnd' f' = Ok f'.
Proof. exact seal_fm_idempotent. Qed.
Print Assumptions C20_seal_idempotent.

(* Unseal is idempotent — when the unsealed answer is not empty (Seal never
   seals an empty answer; see C20_unseal_empty_not_idempotent) *)
Theorem C20_unseal_idempotent :
  forall (SK : Type) (parse_priv : str -> option SK) (rsa_dec : SK -> bytes -> option bytes)
         (gcm_open : bytes -> bytes -> option bytes) (b64_dec : str -> option bytes)
         (privs : str) (f f' : fm),
    unseal_fm SK parse_priv rsa_dec gcm_open b64_dec privs f = Ok f' -> answer f' <> [] ->
    unseal_fm SK parse_priv rsa_dec gcm_open b64_dec privs f' = Ok f'.
Proof. exact unseal_fm_idempotent. Qed.
Print Assumptions C20_unseal_idempotent.

(* never both fields set, from ANY front matter (also an invalid one with both) *)
Theorem C20_never_both_fields :
  forall (PK SK RND : Type) (parse_pub : str -> option PK) (parse_priv : str -> option SK)
         (rsa_enc : PK -> RND -> bytes -> option bytes) (rsa_dec : SK -> bytes -> option bytes)
         (gcm_seal : bytes -> bytes -> bytes) (gcm_open : bytes -> bytes -> option bytes)
         (b64_enc : bytes -> str) (b64_dec : str -> option bytes)
         (pubs privs : str) (k : bytes) (rnd : RND) (f f' : fm),
    (seal_fm PK RND parse_pub rsa_enc gcm_seal b64_enc pubs k rnd f = Ok f' -> answer f' = []) /\
    (unseal_fm SK parse_priv rsa_dec gcm_open b64_dec privs f = Ok f' -> sealed f' = []).
Proof.
  intros. split; [apply seal_fm_never_both|apply unseal_fm_never_both].
Qed.
Print Assumptions C20_never_both_fields.

(* ---------- answer verification ---------- *)

(* verifyChoiceMatch (HEAD, with verifyAnswerInRange of commit 1e7a3a9) accepts
   exactly when the marked choices are PRECISELY the choices whose output equals
   the question's output — the property's statement, unguarded *)
Theorem C20_verify_choice_iff : forall (marks : list nat) (outs : list str) (gen : str),
  verify_choice marks outs gen = Ok tt <-> marks_exact marks outs gen.
Proof. exact verify_choice_iff. Qed.
Print Assumptions C20_verify_choice_iff.

(* … and otherwise the result is ErrWrongAnswer *)
Theorem C20_verify_choice_result : forall (marks : list nat) (outs : list str) (gen : str),
  verify_choice marks outs gen = Ok tt \/ verify_choice marks outs gen = Err EWrongAnswer.
Proof. exact verify_choice_result. Qed.
Print Assumptions C20_verify_choice_result.

(* verifyAnswerInRange decides "every mark names an existing choice" *)
Theorem C20_marks_in_range_spec : forall (marks : list nat) (n : nat),
  marks_in_range marks n = true <-> (forall m, In m marks -> (m < n)%nat).
Proof. exact marks_in_range_spec. Qed.
Print Assumptions C20_marks_in_range_spec.

(* verification modes parse-error (want = true) and no-parse-error (want =
   false) on a txtar archive: accepted exactly when the marked files are
   PRECISELY the files that have / do not have a parse error.  [perrs] has one
   flag per file of the archive, so the number of choices is the number of
   files (as for verify_choice, which is stated over the list of outputs,
   whatever produced that list: one renderer per list item or one per file). *)
Theorem C20_verify_parse_flags_iff : forall (want : bool) (marks : list nat) (perrs : list bool),
  verify_parse_flags want marks perrs = Ok tt <->
  (forall j, In j marks <-> nth_error perrs j = Some want).
Proof. exact verify_parse_flags_iff. Qed.
Print Assumptions C20_verify_parse_flags_iff.

(* ---------- verification modes and the whole of Verify ---------- *)

(* an absent verification field and the explicit, documented value "match" are
   the same mode *)
Theorem C20_verify_default_is_match :
  load_verification None = Ok VMatch /\ load_verification (Some (s_ "match")) = Ok VMatch.
Proof. exact verify_default_is_match. Qed.
Print Assumptions C20_verify_default_is_match.

(* exactly the four documented values (and absence) load; everything else is
   rejected when the front matter is loaded *)
Theorem C20_load_verification_spec : forall (v : option str) (m : vmode),
  load_verification v = Ok m <->
  (v = None /\ m = VMatch) \/ (v = Some (s_ "match") /\ m = VMatch) \/ (v = Some (s_ "none") /\ m = VNone) \/
  (v = Some (s_ "parse-error") /\ m = VParseError) \/ (v = Some (s_ "no-parse-error") /\ m = VNoParseError).
Proof. exact load_verification_spec. Qed.
Print Assumptions C20_load_verification_spec.

Theorem C20_load_verification_result : forall v : option str,
  (exists m, load_verification v = Ok m) \/ load_verification v = Err EInvalidFm.
Proof. exact load_verification_result. Qed.
Print Assumptions C20_load_verification_result.

(* Verify of an unsealed choice question under match verification (either
   spelling, by the two theorems above): accepted exactly when the answer
   denotes marks and the marked choices are PRECISELY the matching choices *)
Theorem C20_question_verify_match_choice_iff :
  forall (SK : Type) (parse_priv : str -> option SK) (rsa_dec : SK -> bytes -> option bytes)
         (gcm_open : bytes -> bytes -> option bytes) (b64_dec : str -> option bytes) (run : str -> str)
         (ignore : bool) (privs : str) (f : fm) (is_src : bool) (outs : list str) (gen : str) (perrs : list bool),
    sealed f = [] -> choice_type (fm_type f) ->
    (question_verify SK parse_priv rsa_dec gcm_open b64_dec run verify_choice
       ignore privs VMatch f is_src outs gen perrs = Ok tt <->
     answer f <> [] /\ exists marks, answer_marks (fm_type f) (answer f) = Ok marks /\ marks_exact marks outs gen).
Proof. exact question_verify_match_choice_iff. Qed.
Print Assumptions C20_question_verify_match_choice_iff.

(* verification: none is, by the code's design, no verification: every
   unsealed question with a well-formed answer is accepted (the property's
   "exactly when" clause is about match verification) *)
Theorem C20_question_verify_none_iff :
  forall (SK : Type) (parse_priv : str -> option SK) (rsa_dec : SK -> bytes -> option bytes)
         (gcm_open : bytes -> bytes -> option bytes) (b64_dec : str -> option bytes) (run : str -> str)
         (ignore : bool) (privs : str) (f : fm) (is_src : bool) (outs : list str) (gen : str) (perrs : list bool),
    sealed f = [] ->
    (question_verify SK parse_priv rsa_dec gcm_open b64_dec run verify_choice
       ignore privs VNone f is_src outs gen perrs = Ok tt <->
     answer f <> [] /\ exists marks, answer_marks (fm_type f) (answer f) = Ok marks).
Proof. exact question_verify_none_iff. Qed.
Print Assumptions C20_question_verify_none_iff.

(* Verify is a function of the question: in a history of verifications done
   by one process (the model of the sequential loop threads only the list of
   verdicts) every question gets the verdict it gets when verified alone,
   wherever and however often it occurs.  The model has no process-wide state
   because the Go code has none; the harness checks exactly this on question
   sequences sharing program texts across result types. *)
Theorem C20_verify_history_is_map :
  forall (SK : Type) (parse_priv : str -> option SK) (rsa_dec : SK -> bytes -> option bytes)
         (gcm_open : bytes -> bytes -> option bytes) (b64_dec : str -> option bytes) (run : str -> str)
         (qs : list question),
    verify_history SK parse_priv rsa_dec gcm_open b64_dec run qs =
    map (verify_one SK parse_priv rsa_dec gcm_open b64_dec run) qs.
Proof. exact verify_history_is_map. Qed.
Print Assumptions C20_verify_history_is_map.

Theorem C20_verify_history_position :
  forall (SK : Type) (parse_priv : str -> option SK) (rsa_dec : SK -> bytes -> option bytes)
         (gcm_open : bytes -> bytes -> option bytes) (b64_dec : str -> option bytes) (run : str -> str)
         (pre : list question) (q : question) (post : list question),
    nth_error (verify_history SK parse_priv rsa_dec gcm_open b64_dec run (pre ++ q :: post)) (List.length pre)
      = Some (verify_one SK parse_priv rsa_dec gcm_open b64_dec run q) /\
    verify_history SK parse_priv rsa_dec gcm_open b64_dec run [q]
      = [verify_one SK parse_priv rsa_dec gcm_open b64_dec run q].
Proof. exact verify_history_position. Qed.
Print Assumptions C20_verify_history_position.

(* ---------- regression: the function before commit 1e7a3a9 ---------- *)

(* the walk alone decides the statement only among the EXISTING choices … *)
Theorem C20_verify_choice_iff_before_fix : forall (marks : list nat) (outs : list str) (gen : str),
  verify_choice_before_fix marks outs gen = Ok tt <->
  (forall j o, nth_error outs j = Some o -> (In j marks <-> o = gen)).
Proof. exact verify_choice_before_fix_iff. Qed.
Print Assumptions C20_verify_choice_iff_before_fix.

(* … hence the full statement only under the guard that every mark names an
   existing choice … *)
Theorem C20_verify_choice_full_guarded_before_fix : forall (marks : list nat) (outs : list str) (gen : str),
  (forall m, In m marks -> (m < List.length outs)%nat) ->
  (verify_choice_before_fix marks outs gen = Ok tt <-> marks_exact marks outs gen).
Proof. exact verify_choice_before_fix_guarded. Qed.
Print Assumptions C20_verify_choice_full_guarded_before_fix.

(* … and the unguarded statement was FALSE of it (DESIGN §7 row 22): answer
   "c, e" on four choices of which only c matches was accepted *)
Theorem C20_verify_choice_full_refuted_before_fix :
  exists marks outs gen,
    verify_choice_before_fix marks outs gen = Ok tt /\ ~ marks_exact marks outs gen /\
    verify_choice marks outs gen = Err EWrongAnswer.
Proof.
  exists [2%nat; 4%nat], [s_ "w"; s_ "x"; s_ "g"; s_ "y"], (s_ "g"). split; [|split].
  - vm_compute. reflexivity.
  - intro H. assert (I : In 4%nat [2%nat; 4%nat]) by (right; left; reflexivity).
    apply H in I. vm_compute in I. discriminate.
  - vm_compute. reflexivity.
Qed.
Print Assumptions C20_verify_choice_full_refuted_before_fix.

(* the same class through a single-choice answer: "e" on four choices none of
   which matches was accepted *)
Theorem C20_verify_single_beyond_refuted_before_fix :
  exists marks outs gen,
    answer_marks SingleChoice (s_ "e") = Ok marks /\
    verify_choice_before_fix marks outs gen = Ok tt /\ ~ marks_exact marks outs gen /\
    verify_choice marks outs gen = Err EWrongAnswer.
Proof.
  exists [4%nat], [s_ "w"; s_ "x"; s_ "z"; s_ "y"], (s_ "g"). split; [vm_compute; reflexivity|]. split; [|split].
  - vm_compute. reflexivity.
  - intro H. assert (I : In 4%nat [4%nat]) by (left; reflexivity).
    apply H in I. vm_compute in I. discriminate.
  - vm_compute. reflexivity.
Qed.
Print Assumptions C20_verify_single_beyond_refuted_before_fix.

(* the fix changed nothing where the guard holds *)
Theorem C20_verify_choice_agrees_before_fix : forall (marks : list nat) (outs : list str) (gen : str),
  (forall m, In m marks -> (m < List.length outs)%nat) ->
  verify_choice marks outs gen = verify_choice_before_fix marks outs gen.
Proof. exact verify_choice_agrees_before_fix. Qed.
Print Assumptions C20_verify_choice_agrees_before_fix.

(* text answers: accepted exactly when the question's output and the answer
   (its output, if the answer is a program) are equal up to leading and
   trailing white space; [run] is the evy interpreter *)
Theorem C20_verify_text_iff : forall (run : str -> str) (is_src : bool) (qout atext : str),
  verify_text run is_src qout atext = Ok tt <->
  same_mod_space qout (if is_src then run (trim atext) else atext).
Proof. exact verify_text_iff. Qed.
Print Assumptions C20_verify_text_iff.

(* strings.TrimSpace is characterised, not just named *)
Theorem C20_trim_spec : forall s : str,
  (exists l r, s = l ++ trim s ++ r /\ all_space l /\ all_space r /\ tight (trim s)) /\
  (forall l core r, s = l ++ core ++ r -> all_space l -> all_space r -> tight core -> trim s = core).
Proof.
  intro s. split; [apply trim_decomp|]. intros l core r -> Hl Hr T. apply trim_unique; assumption.
Qed.
Print Assumptions C20_trim_spec.

(* a single-choice answer text yields exactly one mark: its letter *)
Theorem C20_answer_marks_single : forall (text : str) (marks : list nat),
  answer_marks SingleChoice text = Ok marks <->
  exists c, text = [c] /\ 97 <= c <= 122 /\ marks = [N.to_nat (c - 97)].
Proof. exact answer_marks_single. Qed.
Print Assumptions C20_answer_marks_single.

(* ---------- non-vacuity ---------- *)

(* the toy primitives satisfy every functional-correctness hypothesis … *)
Example C20_ex_toy_hypotheses :
  toy_parse (s_ "K") = Some (s_ "K") /\
  KeyPair bytes bytes unit toy_rsa_enc toy_rsa_dec (s_ "K") (s_ "K") /\
  GcmRoundtrip toy_gcm_seal toy_gcm_open /\ B64Roundtrip toy_b64_enc toy_b64_dec /\
  B64NonNil toy_b64_enc.
Proof.
  assert (SP : forall p s, strip_prefix p (p ++ s) = Some s).
  { induction p as [|x p IH]; intro s; cbn; [reflexivity|]. rewrite N.eqb_refl. apply IH. }
  split; [reflexivity|]. split; [|split; [|split]].
  - intros rnd k rc E. unfold toy_rsa_enc in E. inversion E. apply (SP (s_ "K") k).
  - intros k p _. apply (SP k p).
  - intro b. reflexivity.
  - intros b E. discriminate.
Qed.

(* … and a sealed front matter really is produced and unsealed *)
Example C20_ex_toy_seal_unseal :
  let f := mkFm MultipleChoice (s_ "a, c") [] in
  exists f', toy_seal_fm (s_ "K") toy_key tt f = Ok f' /\ sealed f' <> [] /\ answer f' = [] /\
             toy_unseal_fm (s_ "K") f' = Ok f /\
             toy_unseal_fm (s_ "W") f' = Err ERsa.
Proof. vm_compute. eexists. repeat split; try reflexivity. discriminate. Qed.

(* the ideal functionality for the envelope (r0 = 1 2 3, a0 = 9 9, p0 = "hi")
   satisfies all four hypotheses of C20_tamper_safe *)
Example C20_ex_ideal_hypotheses :
  let r0 := [1; 2; 3] in let a0 := [9; 9] in let p0 := s_ "hi" in
  let gseal := fun (_ _ : bytes) => a0 in
  ideal_rsa_dec r0 0%nat r0 = Some ideal_key /\
  ideal_gcm_open a0 p0 ideal_key (gseal ideal_key p0) = Some p0 /\
  IdealGcmIntegrity gseal (ideal_gcm_open a0 p0) ideal_key p0 /\
  IdealOaepIntegrity nat (ideal_rsa_dec r0) (ideal_gcm_open a0 p0) 0%nat r0.
Proof.
  cbv zeta. split; [vm_compute; reflexivity|]. split; [vm_compute; reflexivity|]. split.
  - intros a' p'. unfold ideal_gcm_open.
    destruct (bytes_eqb ideal_key ideal_key); [|discriminate].
    destruct (bytes_eqb a' [9; 9]) eqn:E; [|discriminate].
    intros _. apply str_eqb_eq in E. exact E.
  - intros sk' r' k'. unfold ideal_rsa_dec.
    destruct (Nat.eqb sk' 0) eqn:E1; [|discriminate].
    destruct (bytes_eqb r' [1; 2; 3]) eqn:E2; [|discriminate].
    intros _. left. apply Nat.eqb_eq in E1. apply str_eqb_eq in E2. split; assumption.
Qed.

(* under the ideal functionality a genuine envelope opens, every one of three
   kinds of alteration is rejected at the stage the model predicts *)
Example C20_ex_ideal_classes :
  let c0 := frame [1; 2; 3] [9; 9] in
  let dec := ideal_hybrid_decrypt [1; 2; 3] [9; 9] (s_ "hi") in
  dec 0%nat c0 = Ok (s_ "hi") /\
  dec 0%nat (set_nth 0 77 c0) = Ok (s_ "hi") /\      (* the version byte is not checked *)
  dec 0%nat (set_nth 2 6 c0) = Err EShort /\
  dec 0%nat (set_nth 2 2 c0) = Err ERsa /\
  dec 0%nat (set_nth 4 0 c0) = Err ERsa /\
  dec 0%nat (set_nth 7 0 c0) = Err EGcm /\
  dec 0%nat (firstn 7 c0) = Err EGcm /\ dec 0%nat (firstn 5 c0) = Err EShort /\
  dec 1%nat c0 = Err ERsa.
Proof. vm_compute. repeat split; reflexivity. Qed.

(* the guard of C20_frame_roundtrip is needed: a 65536-byte RSA part does not
   come back (uint16 truncation in hybridEncrypt) *)
Example C20_ex_frame_guard_needed : forall r a : bytes,
  N.of_nat (List.length r) = 65536 -> unframe (frame r a) = Some ([], r ++ a).
Proof.
  intros r a H. unfold frame. rewrite H. change (be16 65536) with [0; 0].
  apply (unframe_layout 1 0 0 [] (r ++ a)). reflexivity.
Qed.

(* Unseal of a (hand-made) sealed EMPTY answer leaves neither field set, and a
   second Unseal then fails: the guard of C20_unseal_idempotent is needed *)
Example C20_unseal_empty_not_idempotent :
  exists c f', toy_encrypt (s_ "K") toy_key tt [] = Ok c /\
               toy_unseal_fm (s_ "K") (mkFm TextAnswer [] c) = Ok f' /\
               answer f' = [] /\ sealed f' = [] /\
               toy_unseal_fm (s_ "K") f' = Err ENoAnswer.
Proof. vm_compute. eexists. eexists. repeat split; reflexivity. Qed.

(* verification examples *)
Example C20_ex_verify :
  verify_choice [2%nat] [s_ "w"; s_ "x"; s_ "g"; s_ "y"] (s_ "g") = Ok tt /\
  verify_choice [1%nat] [s_ "w"; s_ "x"; s_ "g"; s_ "y"] (s_ "g") = Err EWrongAnswer /\
  verify_choice [0%nat; 2%nat] [s_ "g"; s_ "x"; s_ "g"] (s_ "g") = Ok tt /\
  verify_choice [2%nat; 4%nat] [s_ "w"; s_ "x"; s_ "g"; s_ "y"] (s_ "g") = Err EWrongAnswer /\
  verify_choice [] [s_ "w"; s_ "x"] (s_ "g") = Ok tt /\
  answer_marks MultipleChoice (s_ " c ,e") = Ok [2%nat; 4%nat] /\
  answer_marks MultipleChoice (s_ "c,,e") = Err ESingleChoice /\
  verify_text (fun _ => s_ "hi there
") true (s_ "  hi there
") (s_ "print ""hi there""") = Ok tt.
Proof. vm_compute. repeat split; reflexivity. Qed.
