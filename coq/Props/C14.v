(* C14 — Running programs stay interruptible and stop cleanly (first instalment;
   the trace-prefix theorems are in SemStop.v when present). *)
From Coq Require Import List.
From EvyV Require Import Base Ast Sem SemBasics.

(* once the stop flag is set, Eval evaluates nothing more: it reports "stopped"
   and the only effect that may follow is the test summary *)
Theorem C14_stopped_run_evaluates_nothing : forall n P s,
  st_stopped s = true -> run_program n P s = (OErr EStopped, test_report s).
Proof. exact run_program_stopped. Qed.
Print Assumptions C14_stopped_run_evaluates_nothing.

Theorem C14_stopped_statement_evaluates_nothing : forall n P e x s,
  st_stopped s = true -> exec_stmt (S n) P e x s = (Er EStopped, s).
Proof. exact exec_stmt_stopped. Qed.
Print Assumptions C14_stopped_statement_evaluates_nothing.

Theorem C14_stopped_expression_evaluates_nothing : forall n P e x s,
  st_stopped s = true -> eval_expr (S n) P e x s = (Er EStopped, s).
Proof. exact eval_expr_stopped. Qed.
Print Assumptions C14_stopped_expression_evaluates_nothing.

(* the yield during which the platform raises the flag is the last step: the
   node being entered is not evaluated, no effect is added *)
Theorem C14_raise_ends_evaluation : forall s k,
  st_stopped s = false -> st_stop_at s = Some k -> st_yields s = k -> st_check_after_yield s = true ->
  exists s', tick s = (Er EStopped, s') /\ st_stopped s' = true /\ st_trace s' = st_trace s /\ st_yields s' = S k.
Proof. exact tick_raise. Qed.
Print Assumptions C14_raise_ends_evaluation.

(* every evaluation step that is not stopped hands control to the yielder once *)
Theorem C14_every_step_yields : forall s s',
  tick s = (Ok tt, s') -> st_yields s' = S (st_yields s) /\ st_trace s' = st_trace s.
Proof. exact tick_ok_yields. Qed.
Print Assumptions C14_every_step_yields.
