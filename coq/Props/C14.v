(* C14 — Running programs stay interruptible and stop cleanly.
   Property theorems only; every proof is [exact <lemma of SemStop>].

   Vocabulary (SemStop.v):
   - [set_stop o s]       : s with the platform's plan st_stop_at := o
                            (Some k = raise the stop flag during yield number k; None = never)
   - [suffix old new]     : new = d ++ old (traces are newest first)
   - [prefix l1 l2]       : l2 = l1 ++ d   (chronological order)
   - [atom m]             : m neither reads nor writes st_yields / st_stop_at / st_stopped /
                            st_check_after_yield, and only extends st_trace
   - [Built m]            : m is built from atoms and [tick] (the prologue of Evaluator.eval) by bindM
   All theorems about st_check_after_yield = true concern the corrected order of the
   stop test (after fix 654c89e); the [_refuted_old] theorems are witnesses for the
   old order (st_check_after_yield = false). *)
From Coq Require Import ZArith NArith List String Bool Lia Arith.
From EvyV Require Import Base Num Ast Omap Sem SemStop.
Import ListNotations.
Local Open Scope nat_scope.

(* ================= structure of the evaluator ================= *)

(* all nine mutually recursive evaluator functions, for every fuel, program and
   argument, are built from stop-independent atoms and eval prologues *)
Theorem C14_evaluator_is_built : forall n,
  (forall P e x, Built (eval_expr n P e x)) /\
  (forall P e l, Built (eval_exprs n P e l)) /\
  (forall P e name args, Built (eval_call n P e name args)) /\
  (forall P e s, Built (exec_stmt n P e s)) /\
  (forall P e l, Built (exec_stmts n P e l)) /\
  (forall P e l, Built (exec_block n P e l)) /\
  (forall P e c body, Built (exec_cond n P e c body)) /\
  (forall P e c body, Built (exec_while n P e c body)) /\
  (forall P e var rg body, Built (exec_for n P e var rg body)).
Proof. exact built_all. Qed.
Print Assumptions C14_evaluator_is_built.

(* independence of the stop fields for every primitive except tick *)
Theorem C14_primitives_stop_independent :
  (forall e, atom (emitE e)) /\ (forall v, atom (alloc v)) /\ (forall l, atom (load l)) /\
  (forall l v, atom (store l v)) /\ (forall n e, atom (lookup n e)) /\
  (forall n l e, atom (set_var n l e)) /\ (forall n l e, atom (update_var n l e)) /\
  (forall n l, atom (copy_or_ref n l)) /\ (forall n l, atom (deep_copy n l)) /\
  (forall n r l, atom (show n r l)) /\ (forall n a b, atom (equals n a b)) /\
  (forall n a b, atom (same n a b)) /\ (forall t, atom (zero_val t)) /\
  (forall op xs r, atom (bin_arr op xs r)) /\ (forall e b msg, atom (global_err e b msg)) /\
  (forall args, atom (run_test args)) /\ (forall rg, atom (ranger_next rg)) /\
  (forall ps args fr, atom (bind_params ps args fr)) /\ (forall ps args fr, atom (bind_payload ps args fr)) /\
  (forall name e args m, builtin name e args = Some m -> atom m).
Proof. exact primitives_stop_independent. Qed.
Print Assumptions C14_primitives_stop_independent.

(* trace and yield monotonicity: every evaluator function only extends st_trace and
   only increases st_yields; it never changes the plan nor the order flag; once the
   flag is up it stays up and no further yield happens (any plan, either order) *)
Theorem C14_trace_and_yields_monotone : forall n P,
  (forall e x, Mono (eval_expr n P e x)) /\
  (forall e l, Mono (eval_exprs n P e l)) /\
  (forall e name args, Mono (eval_call n P e name args)) /\
  (forall e s, Mono (exec_stmt n P e s)) /\
  (forall e l, Mono (exec_stmts n P e l)) /\
  (forall e l, Mono (exec_block n P e l)) /\
  (forall e c body, Mono (exec_cond n P e c body)) /\
  (forall e c body, Mono (exec_while n P e c body)) /\
  (forall e var rg body, Mono (exec_for n P e var rg body)).
Proof. exact mono_all. Qed.
Print Assumptions C14_trace_and_yields_monotone.

(* ================= 1. stop_is_prefix ================= *)

(* For each of the nine functions [m], every state s0 (flag down, corrected order) and
   every k: comparing  m (set_stop None s0) = (rI, sI)  with  m (set_stop (Some k) s0) = (rk, sk),
     EITHER yield number k does not happen (not (st_yields s0 <= k < st_yields sI)) and the
            runs agree: rk = rI, sk = set_stop (Some k) sI, flag still down,
     OR     st_yields s0 <= k < st_yields sI, rk = Er EStopped, st_yields sk = S k, the flag is up,
            and rev (st_trace s0) is a prefix of rev (st_trace sk), which is a prefix of rev (st_trace sI).
   Same fuel in both runs, so no out-of-fuel caveat: it holds also when rI = Er EOutOfFuel. *)
Theorem C14_stop_is_prefix : forall n P,
  (forall e x, StopPrefix (eval_expr n P e x)) /\
  (forall e l, StopPrefix (eval_exprs n P e l)) /\
  (forall e name args, StopPrefix (eval_call n P e name args)) /\
  (forall e s, StopPrefix (exec_stmt n P e s)) /\
  (forall e l, StopPrefix (exec_stmts n P e l)) /\
  (forall e l, StopPrefix (exec_block n P e l)) /\
  (forall e c body, StopPrefix (exec_cond n P e c body)) /\
  (forall e c body, StopPrefix (exec_while n P e c body)) /\
  (forall e var rg body, StopPrefix (exec_for n P e var rg body)).
Proof. exact stop_is_prefix. Qed.
Print Assumptions C14_stop_is_prefix.

(* the definition of StopPrefix, spelled out for one of them *)
Theorem C14_stop_is_prefix_stmt : forall n P e x k s0,
  st_stopped s0 = false -> st_check_after_yield s0 = true ->
  forall rI sI, exec_stmt n P e x (set_stop None s0) = (rI, sI) ->
  forall rk sk, exec_stmt n P e x (set_stop (Some k) s0) = (rk, sk) ->
    (~ (st_yields s0 <= k < st_yields sI) /\
     rk = rI /\ sk = set_stop (Some k) sI /\ st_stopped sk = false)
    \/
    (st_yields s0 <= k < st_yields sI /\
     rk = Er EStopped /\ st_yields sk = S k /\ st_stopped sk = true /\
     prefix (rev (st_trace s0)) (rev (st_trace sk)) /\
     prefix (rev (st_trace sk)) (rev (st_trace sI))).
Proof. intros n P e x. exact (built_stop_prefix _ _ (built_exec_stmt n P e x)). Qed.
Print Assumptions C14_stop_is_prefix_stmt.

(* whole program: the effects of the stopped run are a prefix of the effects of the
   uninterrupted run followed by at most the test summary, and the outcome is "stopped"
   exactly when the uninterrupted run reaches yield k *)
Theorem C14_stop_is_prefix_program : forall fuel P k s0,
  st_stopped s0 = false -> st_check_after_yield s0 = true ->
  forall oI sI, run_program fuel P (set_stop None s0) = (oI, sI) ->
  forall ok sk, run_program fuel P (set_stop (Some k) s0) = (ok, sk) ->
    (~ (st_yields s0 <= k < st_yields sI) /\ ok = oI /\ sk = set_stop (Some k) sI)
    \/
    (st_yields s0 <= k < st_yields sI /\ ok = OErr EStopped /\ st_yields sk = S k /\
     exists pre tail, rev (st_trace sk) = pre ++ tail /\
                      prefix (rev (st_trace s0)) pre /\ prefix pre (rev (st_trace sI)) /\
                      summary_tail tail /\ (st_total sk = 0 -> tail = [])).
Proof. exact run_program_stop_prefix. Qed.
Print Assumptions C14_stop_is_prefix_program.

Theorem C14_stop_is_prefix_event : forall fuel P name args k s0,
  st_stopped s0 = false -> st_check_after_yield s0 = true ->
  forall oI sI, handle_event fuel P name args (set_stop None s0) = (oI, sI) ->
  forall ok sk, handle_event fuel P name args (set_stop (Some k) s0) = (ok, sk) ->
    (~ (st_yields s0 <= k < st_yields sI) /\ ok = oI /\ sk = set_stop (Some k) sI)
    \/
    (st_yields s0 <= k < st_yields sI /\ ok = OErr EStopped /\ st_yields sk = S k /\ st_stopped sk = true /\
     prefix (rev (st_trace s0)) (rev (st_trace sk)) /\ prefix (rev (st_trace sk)) (rev (st_trace sI))).
Proof. exact handle_event_stop_prefix. Qed.
Print Assumptions C14_stop_is_prefix_event.

(* nothing at all runs once the flag is up: the three functions that model
   Evaluator.eval return at once with the state untouched ... *)
Theorem C14_nothing_runs_once_stopped : forall n P e s, st_stopped s = true ->
  (forall x, eval_expr n P e x s = (Er (stopped_err n), s)) /\
  (forall x, exec_stmt n P e x s = (Er (stopped_err n), s)) /\
  (forall l, exec_block n P e l s = (Er (stopped_err n), s)).
Proof.
  intros n P e s H.
  exact (conj (fun x => frozen_eval_expr n P e x s H)
          (conj (fun x => frozen_exec_stmt n P e x s H) (fun l => frozen_exec_block n P e l s H))).
Qed.
Print Assumptions C14_nothing_runs_once_stopped.

(* ... and the helpers that do not tick themselves fail in whatever they evaluate
   first (empty lists evaluate to empty lists), state untouched *)
Theorem C14_nothing_runs_once_stopped_helpers : forall n P e s, st_stopped s = true ->
  (forall l, exists r, eval_exprs n P e l s = (r, s) /\ (forall v, r = Ok v -> l = [] /\ v = [])) /\
  (forall l, exists r, exec_stmts n P e l s = (r, s) /\ (forall v, r = Ok v -> l = [])) /\
  (forall c b, exists err, exec_cond n P e c b s = (Er err, s)) /\
  (forall c b, exists err, exec_while n P e c b s = (Er err, s)) /\
  (forall name x t, exists err, eval_call n P e name (x :: t) s = (Er err, s)).
Proof.
  intros n P e s H.
  exact (conj (fun l => frozen_eval_exprs n P e l s H)
        (conj (fun l => frozen_exec_stmts n P e l s H)
        (conj (fun c b => frozen_exec_cond n P e c b s H)
        (conj (fun c b => frozen_exec_while n P e c b s H)
              (fun name x t => frozen_eval_call n P e name x t s H))))).
Qed.
Print Assumptions C14_nothing_runs_once_stopped_helpers.

(* exec_for (its ranger may allocate the next element before the body block refuses)
   and eval_call on an empty argument list: like every Built computation, no yield *)
Theorem C14_no_yield_once_stopped : forall A (m : M A) s r s',
  Built m -> st_stopped s = true -> m s = (r, s') -> st_stopped s' = true /\ st_yields s' = st_yields s.
Proof. exact frozen_built. Qed.
Print Assumptions C14_no_yield_once_stopped.

(* ================= 2. nothing_after_stop ================= *)

(* (a) on final states, a single run with the flag raised at yield k: when the flag is
   up at the end the result is "stopped" and yield k was the last yield *)
Theorem C14_stop_is_immediate : forall A (m : M A), Built m ->
  forall k s r s', st_stopped s = false -> st_check_after_yield s = true -> st_stop_at s = Some k ->
  m s = (r, s') ->
  (st_stopped s' = false /\ ~ (st_yields s <= k < st_yields s'))
  \/ (st_stopped s' = true /\ r = Er EStopped /\ st_yields s' = S k /\ st_yields s <= k).
Proof. exact stop_is_immediate. Qed.
Print Assumptions C14_stop_is_immediate.

(* (b) the node entered while the flag goes up does nothing: final state = entry state
   + yield count + flag; in particular the trace at the raise is the final trace *)
Theorem C14_raise_at_entry_freezes : forall n P e s,
  raise_now s -> st_check_after_yield s = true ->
  let s' := upd_yield (S (st_yields s)) true s in
  (forall x, eval_expr (S n) P e x s = (Er EStopped, s')) /\
  (forall x, exec_stmt (S n) P e x s = (Er EStopped, s')) /\
  (forall l, exec_block (S n) P e l s = (Er EStopped, s')) /\
  run_program n P s = (OErr EStopped, test_report s').
Proof. exact raise_at_entry_freezes. Qed.
Print Assumptions C14_raise_at_entry_freezes.

(* (c) on the interleaved platform log (Yielder calls, raise marker, effects): every run
   of an evaluator function has a log [l] that is faithful (its effects are exactly the
   events appended, its yields exactly the yields counted) and in which the raise, if
   any, is the LAST entry: no effect and no yield follows it *)
Theorem C14_nothing_after_stop : forall A (m : M A), Built m ->
  forall s r s', st_check_after_yield s = true -> st_stopped s = false -> m s = (r, s') ->
  exists l, Run m s r s' l /\
    st_trace s' = rev (effects l) ++ st_trace s /\
    yields_of l = seq (st_yields s) (st_yields s' - st_yields s) /\
    ((st_stopped s' = false /\ ~ In IRaise l)
     \/ (st_stopped s' = true /\ r = Er EStopped /\ exists l0, l = l0 ++ [IRaise] /\ ~ In IRaise l0)).
Proof. exact nothing_after_stop_log. Qed.
Print Assumptions C14_nothing_after_stop.

(* ... and that holds of EVERY log of the run, not just of one *)
Theorem C14_nothing_after_stop_every_log : forall A (m : M A) s r s' l, Run m s r s' l ->
  st_check_after_yield s = true -> st_stopped s = false ->
  (st_stopped s' = false /\ ~ In IRaise l)
  \/ (st_stopped s' = true /\ r = Er EStopped /\ exists l0, l = l0 ++ [IRaise] /\ ~ In IRaise l0).
Proof. exact run_nothing_after_raise. Qed.
Print Assumptions C14_nothing_after_stop_every_log.

(* the whole program: the platform log of the evaluation [l] (nothing after the raise),
   then at most the summary of the tests run so far [tail] *)
Theorem C14_nothing_after_stop_program : forall fuel P s o s2,
  st_check_after_yield s = true -> st_stopped s = false -> run_program fuel P s = (o, s2) ->
  exists r s1 l tail,
    Run (program_m fuel P) s r s1 l /\
    st_trace s2 = tail ++ rev (effects l) ++ st_trace s /\ summary_tail tail /\
    yields_of l = seq (st_yields s) (st_yields s2 - st_yields s) /\
    ((st_stopped s2 = false /\ ~ In IRaise l)
     \/ (st_stopped s2 = true /\ o = OErr EStopped /\ exists l0, l = l0 ++ [IRaise] /\ ~ In IRaise l0)).
Proof. exact run_program_nothing_after_stop. Qed.
Print Assumptions C14_nothing_after_stop_program.

(* the OLD order of the stop test (flag tested only before the yield) *)
Theorem C14_raise_at_entry_freezes_refuted_old :
  exists n P e x s, raise_now s /\ st_check_after_yield s = false /\
    exists r s', exec_stmt (S n) P e x s = (r, s') /\ st_trace s' = EvCls :: st_trace s.
Proof. exact raise_at_entry_freezes_refuted_old. Qed.
Print Assumptions C14_raise_at_entry_freezes_refuted_old.

Theorem C14_stop_one_more_effect_refuted_old :
  exists fuel P k,
    let s_old := snd (run_program fuel P (init_state (Some k) [] false false)) in
    let s_new := snd (run_program fuel P (init_state (Some k) [] false true)) in
    st_stopped s_old = true /\ st_yields s_old = S k /\
    st_stopped s_new = true /\ st_yields s_new = S k /\
    st_trace s_new = [] /\
    st_trace s_old = [EvPrint [PStr (s_ "1"); PStr [10%N]]].
Proof. exact stop_one_more_effect_refuted_old. Qed.
Print Assumptions C14_stop_one_more_effect_refuted_old.

Theorem C14_stopped_result_refuted_old :
  exists fuel P k s, run_program fuel P (init_state (Some k) [] false false) = (ODone, s) /\
                     st_stopped s = true /\ st_yields s = S k.
Proof. exact stopped_result_refuted_old. Qed.
Print Assumptions C14_stopped_result_refuted_old.

(* ================= 3. yield_every_iteration_and_call ================= *)

(* a block yields before its first statement (any plan, either order) *)
Theorem C14_block_yields_first : forall f P e body s,
  exec_block (S f) P e body s =
  if st_stopped s then (Er EStopped, s)
  else
    let raised := match st_stop_at s with Some k => Nat.eqb k (st_yields s) | None => false end in
    let s1 := upd_yield (S (st_yields s)) raised s in
    if raised && st_check_after_yield s then (Er EStopped, s1) else exec_stmts f P e body s1.
Proof. exact exec_block_yields_first. Qed.
Print Assumptions C14_block_yields_first.

(* every completed expression, statement, block yielded at least once *)
Theorem C14_completed_node_yields : forall n P e s,
  (forall x a s', eval_expr n P e x s = (Ok a, s') -> S (st_yields s) <= st_yields s') /\
  (forall x a s', exec_stmt n P e x s = (Ok a, s') -> S (st_yields s) <= st_yields s') /\
  (forall body a s', exec_block n P e body s = (Ok a, s') -> S (st_yields s) <= st_yields s').
Proof.
  intros n P e s.
  exact (conj (fun x a s' => eval_expr_yields n P e x s a s')
        (conj (fun x a s' => exec_stmt_yields n P e x s a s')
              (fun b a s' => exec_block_yields n P e b s a s'))).
Qed.
Print Assumptions C14_completed_node_yields.

(* one more iteration of a while loop costs at least two yields *)
Theorem C14_while_iteration_yields : forall f P e c body s e1 s1,
  exec_cond f P e c body s = (Ok (Some SigNone, e1), s1) ->
  exec_while (S f) P e c body s = exec_while f P e1 c body s1 /\ st_yields s + 2 <= st_yields s1.
Proof. exact while_iteration_yields. Qed.
Print Assumptions C14_while_iteration_yields.

(* one more iteration of a for loop costs at least one yield *)
Theorem C14_for_iteration_yields : forall f P e var rg body s l rg' s1 e1 s2 e2 s3,
  ranger_next rg s = (Ok (Some (l, rg')), s1) ->
  update_var var l e s1 = (Ok e1, s2) ->
  exec_block f P ([] :: e1) body s2 = (Ok (SigNone, e2), s3) ->
  exec_for (S f) P e var rg body s = exec_for f P (tl e2) var rg' body s3 /\ S (st_yields s) <= st_yields s3.
Proof. exact for_iteration_yields. Qed.
Print Assumptions C14_for_iteration_yields.

(* [ranger_next] is the model's ranger.next: exec_for is literally this loop over it *)
Theorem C14_for_unfold : forall f P e var rg body,
  exec_for (S f) P e var rg body =
  (let* nx := ranger_next rg in
   match nx with
   | None => ret (SigNone, e)
   | Some (l, rg') =>
       let* e1 := update_var var l e in
       let* (sig, e2') := exec_block f P ([] :: e1) body in
       let e2 := tl e2' in
       match sig with
       | SigBreak => ret (SigNone, e2)
       | SigReturn v => ret (SigReturn v, e2)
       | SigNone => exec_for f P e2 var rg' body
       end
   end).
Proof. exact exec_for_unfold. Qed.
Print Assumptions C14_for_unfold.

(* a completed call of a user-defined function costs at least one yield *)
Theorem C14_call_yields : forall n P e name args s r s',
  str_eqb name n_test = false -> (forall vals, builtin name e vals = None) ->
  eval_call n P e name args s = (Ok r, s') -> S (st_yields s) <= st_yields s'.
Proof. exact call_yields. Qed.
Print Assumptions C14_call_yields.

(* a completed event handler costs at least one yield *)
Theorem C14_handle_event_yields : forall fuel P name args s s',
  handle_event fuel P name args s = (ODone, s') -> S (st_yields s) <= st_yields s'.
Proof. exact handle_event_yields. Qed.
Print Assumptions C14_handle_event_yields.

(* the endless loop `while true` (empty body): with fuel n it performs exactly
   2*(n-2) yields before the model's fuel is exhausted; the whole program 2*n-6 *)
Theorem C14_endless_while_yields : forall n P e s, machinery_off s ->
  exists s', exec_while n P e (EBool true) [] s = (Er EOutOfFuel, s') /\
             st_yields s' = st_yields s + 2 * (n - 2).
Proof. exact endless_while_yields. Qed.
Print Assumptions C14_endless_while_yields.

Theorem C14_endless_run_yields : forall n s, machinery_off s -> 4 <= n ->
  exists s', run_program n endless_program s = (OErr EOutOfFuel, s') /\
             st_yields s' = st_yields s + 2 * n - 6.
Proof. exact endless_run_yields. Qed.
Print Assumptions C14_endless_run_yields.

(* ... so the endless program can be stopped at any yield whatsoever *)
Theorem C14_endless_is_interruptible : forall k n ff,
  k + 7 <= 2 * n ->
  exists s, run_program n endless_program (init_state (Some k) [] ff true) = (OErr EStopped, s) /\
            st_yields s = S k.
Proof. exact endless_is_interruptible. Qed.
Print Assumptions C14_endless_is_interruptible.

(* ================= Examples ================= *)
(* the program [demo] (defined in SemStop.v):
   func f n:num { print n }
   for i := range 2 { for j := range 2 { f i+j } }
   print "done" *)

(* the hypotheses of stop_is_prefix hold of the initial state, and set_stop gives the two runs *)
Example C14_ex_hyps : forall k,
  st_stopped (init_state k [] false true) = false /\
  st_check_after_yield (init_state k [] false true) = true /\
  set_stop None (init_state k [] false true) = init_state None [] false true /\
  set_stop (Some 20) (init_state k [] false true) = init_state (Some 20) [] false true.
Proof. intro k. repeat split. Qed.

(* the uninterrupted run: 49 yields, five prints *)
Example C14_ex_uninterrupted :
  fst (demo_run None) = ODone /\ st_yields (snd (demo_run None)) = 49 /\
  List.length (st_trace (snd (demo_run None))) = 5.
Proof. vm_compute. repeat split. Qed.

(* second branch: flag raised at yield 20, in the middle of the nested loops *)
Example C14_ex_raised :
  fst (demo_run (Some 20)) = OErr EStopped /\
  st_yields (snd (demo_run (Some 20))) = 21 /\
  rev (st_trace (snd (demo_run (Some 20)))) = firstn 1 (rev (st_trace (snd (demo_run None)))) /\
  rev (st_trace (snd (demo_run (Some 20)))) = [EvPrint [PStr (s_ "0"); PStr [10%N]]].
Proof. vm_compute. repeat split. Qed.

(* first branch: the run has only 49 yields, so yield 60 never happens: identical runs *)
Example C14_ex_never_raised :
  demo_run (Some 60) = (fst (demo_run None), set_stop (Some 60) (snd (demo_run None))).
Proof. vm_compute. reflexivity. Qed.

(* all 49 stop points at once (exhaustive for this program): stopped at yield k, exactly
   k+1 yields, and the stopped trace is the corresponding prefix of the full one *)
Example C14_ex_every_k :
  Forall (fun k =>
            let sk := snd (demo_run (Some k)) in
            let sI := snd (demo_run None) in
            fst (demo_run (Some k)) = OErr EStopped /\ st_yields sk = S k /\
            rev (st_trace sk) = firstn (List.length (st_trace sk)) (rev (st_trace sI)))
         (seq 0 49).
Proof.
  cbv [seq]. repeat (apply Forall_cons; [vm_compute; repeat split; reflexivity|]). apply Forall_nil.
Qed.

(* the summary of the tests run so far may follow the prefix:  test true / print 1,
   stopped at the last yield: the prefix is empty, the tail is the summary *)
Example C14_ex_summary_tail :
  let sI := snd (run_program 100 tests_prog (init_state None [] false true)) in
  let sk := snd (run_program 100 tests_prog (init_state (Some 5) [] false true)) in
  st_yields sI = 6 /\ List.length (st_trace sI) = 2 /\
  fst (run_program 100 tests_prog (init_state (Some 5) [] false true)) = OErr EStopped /\
  exists txt, st_trace sk = [EvPrint [PStr txt]] /\ st_trace sI = [EvPrint [PStr txt]; EvPrint [PStr (s_ "1"); PStr [10%N]]].
Proof. vm_compute. repeat split. eexists. split; reflexivity. Qed.

(* an event handler, stopped at its third yield *)
Example C14_ex_event :
  let run k := handle_event 20 ev_prog (s_ "key") [PvStr (s_ "a")] (init_state k [] false true) in
  fst (run None) = ODone /\ st_yields (snd (run None)) = 3 /\ List.length (st_trace (snd (run None))) = 1 /\
  fst (run (Some 2)) = OErr EStopped /\ st_trace (snd (run (Some 2))) = [].
Proof. vm_compute. repeat split. Qed.

(* hypotheses of the iteration / call theorems are satisfiable *)
Example C14_ex_while_iteration :
  exists s1, exec_cond 5 demo [] (EBool true) [] (init_state None [] false true) = (Ok (Some SigNone, []), s1).
Proof. eexists. vm_compute. reflexivity. Qed.

Example C14_ex_for_iteration :
  let s := init_state None [] false true in
  exists l rg' s1 s3,
    ranger_next ex_ranger s = (Ok (Some (l, rg')), s1) /\
    update_var underscore l [] s1 = (Ok [], s1) /\
    exec_block 3 demo [[]] [] s1 = (Ok (SigNone, [[]]), s3).
Proof. do 4 eexists. split; [vm_compute; reflexivity|]. split; vm_compute; reflexivity. Qed.

Example C14_ex_call :
  str_eqb (s_ "f") n_test = false /\ (forall e vals, builtin (s_ "f") e vals = None) /\
  exists r s', eval_call 20 demo [] (s_ "f") [ex_seven] (init_state None [] false true) = (Ok r, s') /\
               st_yields s' = 4.
Proof.
  split; [reflexivity|]. split; [intros; reflexivity|].
  do 2 eexists. split; vm_compute; reflexivity.
Qed.

Example C14_ex_raise_now : raise_now (init_state (Some 0) [] false true).
Proof. split; reflexivity. Qed.

Example C14_ex_endless :
  machinery_off (init_state None [] false true) /\
  exists s, run_program 10 endless_program (init_state None [] false true) = (OErr EOutOfFuel, s) /\
            st_yields s = 14.
Proof. split; [split; reflexivity|]. eexists. split; vm_compute; reflexivity. Qed.

(* eval_call alone is not an eval node (documented exception of "nothing runs once stopped") *)
Example C14_ex_eval_call_alone :
  exists s r s', st_stopped s = true /\
    eval_call 2 empty_program [] (s_ "cls") [] s = (r, s') /\ st_trace s' = EvCls :: st_trace s.
Proof. exact eval_call_alone_not_frozen. Qed.
