(* C01 (evaluation-order part) — expressions evaluate as the language
   definition prescribes: short-circuit and/or, left-to-right evaluation of
   operands / list elements / call arguments, the binary-operator table of
   docs/spec.md, and the laws of deep equality.
   Property theorems only; every proof is [exact <lemma of SemOrder>]. *)
From Coq Require Import ZArith NArith List String Bool Floats FMapPositive Permutation.
From EvyV Require Import Base Num Ast Omap Sem SemOrder.
Import ListNotations.
Open Scope Z_scope.

(* ====================================================================== *)
(* B1. short-circuit                                                      *)
(* ====================================================================== *)
(* s -tick-> s1 -left operand-> s2.  Left operand false: the whole `and` node
   is one allocation of false in s2 — the right operand r is never run. *)
Theorem C01_short_circuit_and : forall n P e t l r s s1 la s2,
  tick s = (Ok tt, s1) ->
  eval_expr n P e l s1 = (Ok la, s2) ->
  hget (st_heap s2) la = Some (HBool false) ->
  eval_expr (S n) P e (EBin BAnd t l r) s =
    (Ok (hnext (st_heap s2)), upd_heap (snd (halloc (st_heap s2) (HBool false))) s2)
  /\ st_trace (snd (eval_expr (S n) P e (EBin BAnd t l r) s)) = st_trace s2.
Proof. exact short_circuit_and_state. Qed.
Print Assumptions C01_short_circuit_and.

Theorem C01_short_circuit_or : forall n P e t l r s s1 la s2,
  tick s = (Ok tt, s1) ->
  eval_expr n P e l s1 = (Ok la, s2) ->
  hget (st_heap s2) la = Some (HBool true) ->
  eval_expr (S n) P e (EBin BOr t l r) s =
    (Ok (hnext (st_heap s2)), upd_heap (snd (halloc (st_heap s2) (HBool true))) s2)
  /\ st_trace (snd (eval_expr (S n) P e (EBin BOr t l r) s)) = st_trace s2.
Proof. exact short_circuit_or_state. Qed.
Print Assumptions C01_short_circuit_or.

(* otherwise the right operand IS evaluated next, from the state the left one
   reached, and then the operator is applied (bin_dispatch, SemOrder: read the
   left cell again, dispatch on its kind) *)
Theorem C01_no_short_circuit_and : forall n P e t l r s s1 la s2,
  tick s = (Ok tt, s1) ->
  eval_expr n P e l s1 = (Ok la, s2) ->
  hget (st_heap s2) la = Some (HBool true) ->
  eval_expr (S n) P e (EBin BAnd t l r) s =
    (let* lb := eval_expr n P e r in bin_dispatch BAnd la lb) s2.
Proof. exact no_short_circuit_and. Qed.
Print Assumptions C01_no_short_circuit_and.

Theorem C01_no_short_circuit_or : forall n P e t l r s s1 la s2,
  tick s = (Ok tt, s1) ->
  eval_expr n P e l s1 = (Ok la, s2) ->
  hget (st_heap s2) la = Some (HBool false) ->
  eval_expr (S n) P e (EBin BOr t l r) s =
    (let* lb := eval_expr n P e r in bin_dispatch BOr la lb) s2.
Proof. exact no_short_circuit_or. Qed.
Print Assumptions C01_no_short_circuit_or.

(* x: content of the left cell after the right operand ran; y: right value *)
Theorem C01_no_short_circuit_and_result : forall n P e t l r s s1 la s2 lb s3 x y,
  tick s = (Ok tt, s1) ->
  eval_expr n P e l s1 = (Ok la, s2) ->
  hget (st_heap s2) la = Some (HBool true) ->
  eval_expr n P e r s2 = (Ok lb, s3) ->
  hget (st_heap s3) la = Some (HBool x) ->
  hget (st_heap s3) lb = Some (HBool y) ->
  eval_expr (S n) P e (EBin BAnd t l r) s = alloc (HBool (x && y)) s3.
Proof. exact no_short_circuit_and_full. Qed.
Print Assumptions C01_no_short_circuit_and_result.

Theorem C01_no_short_circuit_or_result : forall n P e t l r s s1 la s2 lb s3 x y,
  tick s = (Ok tt, s1) ->
  eval_expr n P e l s1 = (Ok la, s2) ->
  hget (st_heap s2) la = Some (HBool false) ->
  eval_expr n P e r s2 = (Ok lb, s3) ->
  hget (st_heap s3) la = Some (HBool x) ->
  hget (st_heap s3) lb = Some (HBool y) ->
  eval_expr (S n) P e (EBin BOr t l r) s = alloc (HBool (x || y)) s3.
Proof. exact no_short_circuit_or_full. Qed.
Print Assumptions C01_no_short_circuit_or_result.

(* an error / stop in the left operand is the result: nothing else runs *)
Theorem C01_binary_left_error : forall n P e op t l r s s1 er s2,
  tick s = (Ok tt, s1) ->
  eval_expr n P e l s1 = (Er er, s2) ->
  eval_expr (S n) P e (EBin op t l r) s = (Er er, s2).
Proof. exact ebin_left_error. Qed.
Print Assumptions C01_binary_left_error.

(* ====================================================================== *)
(* B2. left to right: unfolding equations                                 *)
(* ====================================================================== *)
Theorem C01_exprlist_order : forall n P e x t,
  eval_exprs (S n) P e (x :: t) =
    (let* v := eval_expr n P e x in
     let* d := depth_fuel in
     let* c := copy_or_ref d v in
     let* r := eval_exprs n P e t in
     ret (c :: r)).
Proof. exact eval_exprs_cons. Qed.
Print Assumptions C01_exprlist_order.

Theorem C01_binary_order : forall n P e op t a b,
  eval_expr (S n) P e (EBin op t a b) =
    (let* _ := tick in
     let* la := eval_expr n P e a in
     let* va0 := load la in
     let short := match op, va0 with
                  | BAnd, HBool false => true
                  | BOr, HBool true => true
                  | _, _ => false
                  end in
     let* lb := if short then ret la else eval_expr n P e b in
     match op with
     | BEq => let* d := depth_fuel in let* r := equals d la lb in alloc (HBool r)
     | BNotEq => let* d := depth_fuel in let* r := equals d la lb in alloc (HBool (negb r))
     | _ =>
         let* va := load la in
         match va with
         | HNum y => let* z := load_num lb in bin_num op y z
         | HStr y => let* z := load_str lb in bin_str op y z
         | HBool y => let* z := load_bool lb in bin_bool op y z
         | HArr xs => bin_arr op xs lb
         | _ => internal "unknown operation (binary)"
         end
     end).
Proof. exact eval_bin_order. Qed.
Print Assumptions C01_binary_order.

Theorem C01_index_order : forall n P e t a i,
  eval_expr (S n) P e (EIndex t a i) =
    (let* _ := tick in
     let* la := eval_expr n P e a in
     let* li := eval_expr n P e i in
     let* va := load la in
     match va with
     | HArr els =>
         let* fi := load_num li in
         let* k := lift (normalize_index fi (List.length els) false) in
         match nth_error els k with Some l => ret l | None => crash "index out of range" end
     | HStr s =>
         let* fi := load_num li in
         let* k := lift (normalize_index fi (List.length s) false) in
         match nth_error s k with Some c => alloc (HStr [c]) | None => crash "index out of range" end
     | HMap om =>
         let* vi := load li in
         match vi with
         | HStr k => match oget k om with Some l => ret l | None => fail (EPanic PkMapKey) end
         | _ => internal "expected string for map index"
         end
     | _ => internal "expected array, string or map with index"
     end).
Proof. exact eval_index_order. Qed.
Print Assumptions C01_index_order.

Theorem C01_slice_order : forall n P e t a lo hi,
  eval_expr (S n) P e (ESlice t a lo hi) =
    (let* _ := tick in
     let* la := eval_expr n P e a in
     let* llo := match lo with Some y => let* l := eval_expr n P e y in ret (Some l) | None => ret None end in
     let* lhi := match hi with Some y => let* l := eval_expr n P e y in ret (Some l) | None => ret None end in
     let* va := load la in
     match va with
     | HArr els =>
         let* (s0, e0) := slice_bounds llo lhi (List.length els) in
         let* d := depth_fuel in
         let* els' := mapM (copy_or_ref d) (firstn (e0 - s0) (skipn s0 els)) in
         alloc (HArr els')
     | HStr s =>
         let* (s0, e0) := slice_bounds llo lhi (List.length s) in
         alloc (HStr (firstn (e0 - s0) (skipn s0 s)))
     | _ => internal "expected string or array before ["
     end).
Proof. exact eval_slice_order. Qed.
Print Assumptions C01_slice_order.

Theorem C01_array_literal_order : forall n P e t es,
  eval_expr (S n) P e (EArr t es) =
    (let* _ := tick in let* els := eval_exprs n P e es in alloc (HArr els)).
Proof. exact eval_arr_order. Qed.
Print Assumptions C01_array_literal_order.

(* eval_map_pairs (SemOrder): value of the first pair, copyOrRef, then the rest *)
Theorem C01_map_literal_order : forall n P e t ps,
  eval_expr (S n) P e (EMap t ps) =
    (let* _ := tick in
     let* d := depth_fuel in
     let* vals := eval_map_pairs n P e d ps in
     alloc (HMap {| pairs := vals; order := map fst ps |})).
Proof. exact eval_map_order. Qed.
Print Assumptions C01_map_literal_order.

Theorem C01_assign_order : forall n P e target x,
  exec_stmt (S n) P e (SAssign target x) =
    (let* _ := tick in
     let* v0 := eval_expr n P e x in
     let* d := depth_fuel in
     let* v := copy_or_ref d v0 in
     match target with
     | EVar name _ => let* e' := update_var name v e in ret (SigNone, e')
     | EIndex _ a i =>
         let* la := eval_expr n P e a in
         let* li := eval_expr n P e i in
         let* va := load la in
         match va with
         | HArr els =>
             let* fi := load_num li in
             let* k := lift (normalize_index fi (List.length els) false) in
             let* _ := store la (HArr (list_set els k v)) in
             ret (SigNone, e)
         | HMap _ =>
             let* k := load_str li in
             let* _ := map_set_key la k v in
             ret (SigNone, e)
         | _ => internal "expected array or map assignment target with index"
         end
     | EDot _ a key =>
         let* la := eval_expr n P e a in
         let* va := load la in
         match va with
         | HMap _ => let* _ := map_set_key la key v in ret (SigNone, e)
         | _ => internal "expected map before ."
         end
     | _ => internal "bad assignment target"
     end).
Proof. exact exec_assign_order. Qed.
Print Assumptions C01_assign_order.

(* arguments (through evalExprList, hence left to right) before the callee *)
Theorem C01_call_order : forall n P e name args,
  eval_call (S n) P e name args =
    (let* vals := eval_exprs n P e args in
     if str_eqb name n_test then let* _ := run_test vals in ret None
     else
     match builtin name e vals with
     | Some m => m
     | None =>
         if existsb (str_eqb name) unmodelled_builtins then fail (EUnsupported name)
         else
         match find_func name (p_funcs P) with
         | None => crash "nil FuncDef"
         | Some fd =>
             let* (fr, rest) := bind_params (fn_params fd) vals [] in
             let* fr' := match fn_variadic fd with
                         | Some (vn, _) => let* a := alloc (HArr vals) in
                                           ret (if str_eqb vn underscore then fr else frame_set vn a fr)
                         | None => ret fr
                         end in
             let* (sig, _) := exec_block n P [fr'] (fn_body fd) in
             match sig with
             | SigReturn v => ret v
             | _ => let* l := alloc HNone in ret (Some l)
             end
         end
     end).
Proof. exact eval_call_order. Qed.
Print Assumptions C01_call_order.

(* ---------- semantic corollaries ---------- *)
(* every function of the evaluator only extends the trace *)
Theorem C01_trace_extends : forall n,
  (forall P e x s r s', eval_expr n P e x s = (r, s') -> extends s s') /\
  (forall P e l s r s', eval_exprs n P e l s = (r, s') -> extends s s') /\
  (forall P e name args s r s', eval_call n P e name args s = (r, s') -> extends s s') /\
  (forall P e st s r s', exec_stmt n P e st s = (r, s') -> extends s s') /\
  (forall P e l s r s', exec_stmts n P e l s = (r, s') -> extends s s') /\
  (forall P e l s r s', exec_block n P e l s = (r, s') -> extends s s') /\
  (forall P e c b s r s', exec_cond n P e c b s = (r, s') -> extends s s') /\
  (forall P e c b s r s', exec_while n P e c b s = (r, s') -> extends s s') /\
  (forall P e v rg b s r s', exec_for n P e v rg b s = (r, s') -> extends s s').
Proof. exact trace_extends. Qed.
Print Assumptions C01_trace_extends.

(* a run that does not end in "out of fuel" is reproduced by every larger fuel *)
Theorem C01_fuel_monotone : forall n m, (n <= m)%nat ->
  (forall P e x s r s', eval_expr n P e x s = (r, s') -> r <> Er EOutOfFuel -> eval_expr m P e x s = (r, s')) /\
  (forall P e l s r s', eval_exprs n P e l s = (r, s') -> r <> Er EOutOfFuel -> eval_exprs m P e l s = (r, s')) /\
  (forall P e name args s r s', eval_call n P e name args s = (r, s') -> r <> Er EOutOfFuel ->
                                eval_call m P e name args s = (r, s')) /\
  (forall P e st s r s', exec_stmt n P e st s = (r, s') -> r <> Er EOutOfFuel -> exec_stmt m P e st s = (r, s')) /\
  (forall P e l s r s', exec_stmts n P e l s = (r, s') -> r <> Er EOutOfFuel -> exec_stmts m P e l s = (r, s')) /\
  (forall P e l s r s', exec_block n P e l s = (r, s') -> r <> Er EOutOfFuel -> exec_block m P e l s = (r, s')) /\
  (forall P e c b s r s', exec_cond n P e c b s = (r, s') -> r <> Er EOutOfFuel -> exec_cond m P e c b s = (r, s')) /\
  (forall P e c b s r s', exec_while n P e c b s = (r, s') -> r <> Er EOutOfFuel -> exec_while m P e c b s = (r, s')) /\
  (forall P e v rg b s r s', exec_for n P e v rg b s = (r, s') -> r <> Er EOutOfFuel ->
                             exec_for m P e v rg b s = (r, s')).
Proof. exact fuel_mono. Qed.
Print Assumptions C01_fuel_monotone.

(* exact-fuel decomposition of a list evaluation *)
Theorem C01_exprlist_app : forall P e xs ys k s,
  eval_exprs (List.length xs + S k) P e (xs ++ ys) s =
    (let* vs := eval_exprs (List.length xs + S k) P e xs in
     let* ws := eval_exprs (S k) P e ys in
     ret (vs ++ ws)) s.
Proof. exact eval_exprs_app. Qed.
Print Assumptions C01_exprlist_app.

(* trace_concat: the list xs ++ ys is xs then ys — values, final state, and
   events (rev (emitted a b) = the events between a and b, oldest first) *)
Theorem C01_trace_concat : forall n m P e xs ys s vs s1 ws s2,
  eval_exprs n P e xs s = (Ok vs, s1) ->
  eval_exprs m P e ys s1 = (Ok ws, s2) ->
  forall k, (List.length xs + S (Nat.max n m) <= k)%nat ->
  eval_exprs k P e (xs ++ ys) s = (Ok (vs ++ ws), s2) /\
  rev (emitted s s2) = rev (emitted s s1) ++ rev (emitted s1 s2).
Proof. exact trace_concat_general. Qed.
Print Assumptions C01_trace_concat.

(* the left operand's events precede the right operand's *)
Theorem C01_trace_concat_operands : forall n m P e l r s la s1 rb s2,
  eval_expr n P e l s = (Ok la, s1) ->
  eval_expr m P e r s1 = (rb, s2) ->
  rev (emitted s s2) = rev (emitted s s1) ++ rev (emitted s1 s2).
Proof. exact trace_concat_exprs. Qed.
Print Assumptions C01_trace_concat_operands.

(* ====================================================================== *)
(* B3a. the operator table                                                 *)
(* ====================================================================== *)
(* op_table (SemOrder) is the table of docs/spec.md "Operators and
   Expressions" without its last row (== != on all types: these are sent to
   [equals] before any dispatch on the operand kind, see C01_binary_order
   and C01_eq_dispatch). *)
Theorem C01_op_table : op_table =
  [ (KNum, BPlus); (KNum, BMinus); (KNum, BAsterisk); (KNum, BSlash); (KNum, BPercent);
    (KStr, BPlus);
    (KArr, BPlus);
    (KArr, BAsterisk);
    (KBool, BAnd); (KBool, BOr);
    (KNum, BLt); (KNum, BLtEq); (KNum, BGt); (KNum, BGtEq);
    (KStr, BLt); (KStr, BLtEq); (KStr, BGt); (KStr, BGtEq) ]
  /\ forall k op, in_table k op = true <-> In (k, op) op_table.
Proof. exact (conj eq_refl in_table_In). Qed.
Print Assumptions C01_op_table.

(* num operands: listed operators allocate a new cell holding the IEEE-754
   result / comparison, unlisted ones are an internal error; for ALL values *)
Theorem C01_binop_num : forall op x y s,
  match
    match op with
    | BPlus => Some (HNum (x + y)%float)
    | BMinus => Some (HNum (x - y)%float)
    | BAsterisk => Some (HNum (x * y)%float)
    | BSlash => Some (HNum (x / y)%float)
    | BPercent => Some (HNum (fmod x y))
    | BLt => Some (HBool (x <? y)%float)
    | BLtEq => Some (HBool (x <=? y)%float)
    | BGt => Some (HBool (y <? x)%float)
    | BGtEq => Some (HBool (y <=? x)%float)
    | BAnd | BOr | BEq | BNotEq => None
    end
  with
  | Some v => in_table KNum op = true /\ allocates v s (bin_num op x y s)
  | None => in_table KNum op = false /\ exists why, bin_num op x y s = (Er (EInternal why), s)
  end.
Proof. exact bin_num_table. Qed.
Print Assumptions C01_binop_num.

Theorem C01_binop_str : forall op x y s,
  match
    match op with
    | BPlus => Some (HStr (x ++ y))
    | BLt => Some (HBool (str_ltb x y))
    | BLtEq => Some (HBool (negb (str_ltb y x)))
    | BGt => Some (HBool (str_ltb y x))
    | BGtEq => Some (HBool (negb (str_ltb x y)))
    | _ => None
    end
  with
  | Some v => in_table KStr op = true /\ allocates v s (bin_str op x y s)
  | None => in_table KStr op = false /\ exists why, bin_str op x y s = (Er (EInternal why), s)
  end.
Proof. exact bin_str_table. Qed.
Print Assumptions C01_binop_str.

Theorem C01_binop_bool : forall op x y s,
  match
    match op with
    | BAnd => Some (HBool (x && y))
    | BOr => Some (HBool (x || y))
    | _ => None
    end
  with
  | Some v => in_table KBool op = true /\ allocates v s (bin_bool op x y s)
  | None => in_table KBool op = false /\ exists why, bin_bool op x y s = (Er (EInternal why), s)
  end.
Proof. exact bin_bool_table. Qed.
Print Assumptions C01_binop_bool.

Theorem C01_binop_arr_unlisted : forall op xs r s,
  in_table KArr op = false -> exists why, bin_arr op xs r s = (Er (EInternal why), s).
Proof. exact bin_arr_table_unlisted. Qed.
Print Assumptions C01_binop_arr_unlisted.

Theorem C01_binop_arr_concat : forall xs r ys s,
  hget (st_heap s) r = Some (HArr ys) ->
  in_table KArr BPlus = true /\
  bin_arr BPlus xs r s =
    (let* d := depth_fuel in
     let* xs' := mapM (copy_or_ref d) xs in
     let* ys' := mapM (copy_or_ref d) ys in
     alloc (HArr (xs' ++ ys'))) s.
Proof. exact bin_arr_concat. Qed.
Print Assumptions C01_binop_arr_concat.

Theorem C01_binop_arr_repeat : forall xs r f n s,
  hget (st_heap s) r = Some (HNum f) ->
  go_int_exact f = Some n -> 0 <= n -> Z.of_nat (List.length xs) * n <= max_alloc ->
  in_table KArr BAsterisk = true /\
  bin_arr BAsterisk xs r s =
    (let* d := depth_fuel in
     let* parts := mapM (fun _ => mapM (deep_copy d) xs) (repeat tt (Z.to_nat n)) in
     alloc (HArr (List.concat parts))) s.
Proof. exact bin_arr_repeat. Qed.
Print Assumptions C01_binop_arr_repeat.

Theorem C01_binop_arr_repeat_bad : forall xs r f s,
  hget (st_heap s) r = Some (HNum f) ->
  (go_int_exact f = None \/ exists n, go_int_exact f = Some n /\ n < 0) ->
  bin_arr BAsterisk xs r s = (Er (EPanic PkBadRepetition), s).
Proof. exact bin_arr_repeat_bad. Qed.
Print Assumptions C01_binop_arr_repeat_bad.

(* the dispatch of a binary node on the kind of its LEFT operand.  The left
   cell is read when the left operand returns (s2, short-circuit test) and
   again after the right operand (s3); the operator is applied to the value
   read at s3, so an in-place update of the left cell by the right operand is
   visible (as in evalBinaryExpr, which reads l.V after e.eval(expr.Right)) *)
Theorem C01_dispatch : forall n P e op t l r s s1 la s2 v0 lb s3,
  op <> BEq /\ op <> BNotEq ->
  tick s = (Ok tt, s1) ->
  eval_expr n P e l s1 = (Ok la, s2) -> hget (st_heap s2) la = Some v0 -> short_of op v0 = false ->
  eval_expr n P e r s2 = (Ok lb, s3) ->
  eval_expr (S n) P e (EBin op t l r) s = bin_dispatch op la lb s3.
Proof. exact ebin_general. Qed.
Print Assumptions C01_dispatch.

Theorem C01_num_dispatch : forall n P e op t l r s s1 la s2 x0 lb s3 x y,
  op <> BEq /\ op <> BNotEq ->
  tick s = (Ok tt, s1) ->
  eval_expr n P e l s1 = (Ok la, s2) -> hget (st_heap s2) la = Some (HNum x0) ->
  eval_expr n P e r s2 = (Ok lb, s3) ->
  hget (st_heap s3) la = Some (HNum x) -> hget (st_heap s3) lb = Some (HNum y) ->
  eval_expr (S n) P e (EBin op t l r) s = bin_num op x y s3.
Proof. exact ebin_num. Qed.
Print Assumptions C01_num_dispatch.

Theorem C01_str_dispatch : forall n P e op t l r s s1 la s2 x0 lb s3 x y,
  op <> BEq /\ op <> BNotEq ->
  tick s = (Ok tt, s1) ->
  eval_expr n P e l s1 = (Ok la, s2) -> hget (st_heap s2) la = Some (HStr x0) ->
  eval_expr n P e r s2 = (Ok lb, s3) ->
  hget (st_heap s3) la = Some (HStr x) -> hget (st_heap s3) lb = Some (HStr y) ->
  eval_expr (S n) P e (EBin op t l r) s = bin_str op x y s3.
Proof. exact ebin_str. Qed.
Print Assumptions C01_str_dispatch.

Theorem C01_arr_dispatch : forall n P e op t l r s s1 la s2 xs0 lb s3 xs,
  op <> BEq /\ op <> BNotEq ->
  tick s = (Ok tt, s1) ->
  eval_expr n P e l s1 = (Ok la, s2) -> hget (st_heap s2) la = Some (HArr xs0) ->
  eval_expr n P e r s2 = (Ok lb, s3) ->
  hget (st_heap s3) la = Some (HArr xs) ->
  eval_expr (S n) P e (EBin op t l r) s = bin_arr op xs lb s3.
Proof. exact ebin_arr. Qed.
Print Assumptions C01_arr_dispatch.

Theorem C01_eq_dispatch : forall n P e t l r s s1 la s2 lb s3,
  tick s = (Ok tt, s1) ->
  eval_expr n P e l s1 = (Ok la, s2) -> (exists v, hget (st_heap s2) la = Some v) ->
  eval_expr n P e r s2 = (Ok lb, s3) ->
  eval_expr (S n) P e (EBin BEq t l r) s =
    (let* b := equals value_depth la lb in alloc (HBool b)) s3 /\
  eval_expr (S n) P e (EBin BNotEq t l r) s =
    (let* b := equals value_depth la lb in alloc (HBool (negb b))) s3.
Proof. exact ebin_eq. Qed.
Print Assumptions C01_eq_dispatch.

(* ====================================================================== *)
(* B3b. deep equality                                                      *)
(* ====================================================================== *)
(* equals is a pure function of the heap (eqh, SemOrder) *)
Theorem C01_equals_pure : forall fuel a b s,
  equals fuel a b s = (eqh (st_heap s) fuel a b, s).
Proof. exact equals_eqh. Qed.
Print Assumptions C01_equals_pure.

(* reflexive on NaN-free, acyclic (within the fuel), duplicate-free values *)
Theorem C01_equals_reflexive : forall fuel l s,
  good (st_heap s) fuel l -> equals fuel l l s = (Ok true, s).
Proof. exact equals_refl. Qed.
Print Assumptions C01_equals_reflexive.

Theorem C01_equals_reflexive_needs_nanfree :
  exists s l, hget (st_heap s) l = Some (HNum nan) /\ equals 1 l l s = (Ok false, s).
Proof. exact equals_refl_needs_nanfree. Qed.
Print Assumptions C01_equals_reflexive_needs_nanfree.

(* symmetric for the verdict "equal"; verdicts of the two directions never
   disagree (maps_nodup: every map cell has a duplicate-free key list, as a
   Go hash map has).  Uses eqb_spec of Coq.Floats (the specification of PrimFloat.eqb) for eqb x y = eqb y x. *)
Theorem C01_equals_symmetric : forall fuel a b s,
  maps_nodup (st_heap s) ->
  equals fuel a b s = (Ok true, s) -> equals fuel b a s = (Ok true, s).
Proof. exact equals_sym_true. Qed.
Print Assumptions C01_equals_symmetric.

Theorem C01_equals_symmetric_verdicts_agree : forall fuel a b s r r' s1 s2,
  maps_nodup (st_heap s) ->
  equals fuel a b s = (Ok r, s1) -> equals fuel b a s = (Ok r', s2) -> r = r'.
Proof. exact equals_sym_agree. Qed.
Print Assumptions C01_equals_symmetric_verdicts_agree.

(* unrestricted symmetry is false of the model *)
Theorem C01_equals_symmetric_refuted_none :
  exists fuel a b s e,
    equals fuel a b s = (Ok false, s) /\ equals fuel b a s = (Er (EHostCrash e), s).
Proof. exact equals_symmetric_refuted_none. Qed.
Print Assumptions C01_equals_symmetric_refuted_none.

Theorem C01_equals_symmetric_refuted_dupkeys :
  exists fuel a b s,
    equals fuel a b s = (Ok true, s) /\ equals fuel b a s = (Ok false, s).
Proof. exact equals_symmetric_refuted_dupkeys. Qed.
Print Assumptions C01_equals_symmetric_refuted_dupkeys.

Theorem C01_equals_symmetric_refuted_illtyped :
  exists fuel a b s e,
    maps_nodup (st_heap s) /\
    equals fuel a b s = (Ok false, s) /\ equals fuel b a s = (Er (EHostCrash e), s).
Proof. exact equals_symmetric_refuted_illtyped. Qed.
Print Assumptions C01_equals_symmetric_refuted_illtyped.

(* the Order slice is never consulted: result (verdict or error) unchanged *)
Theorem C01_equals_ignores_order : forall fuel a b s s',
  same_upto_order (st_heap s) (st_heap s') ->
  fst (equals fuel a b s) = fst (equals fuel a b s').
Proof. exact equals_order_insensitive. Qed.
Print Assumptions C01_equals_ignores_order.

(* nor the position of the entries in Pairs *)
Theorem C01_equals_ignores_pairs_position : forall fuel a b s s',
  perm_heap (st_heap s) (st_heap s') ->
  (fst (equals fuel a b s) = Ok true <-> fst (equals fuel a b s') = Ok true) /\
  (forall r r', fst (equals fuel a b s) = Ok r -> fst (equals fuel a b s') = Ok r' -> r = r').
Proof. exact equals_pairs_permutation. Qed.
Print Assumptions C01_equals_ignores_pairs_position.

(* on operands of the same shape (compat, SemOrder: wherever the comparison
   descends, both cells hold the same kind of value — what the type checker
   guarantees for ==) equals never crashes and is symmetric for both verdicts *)
Theorem C01_equals_symmetric_same_shape : forall fuel a b s,
  maps_nodup (st_heap s) -> compat (st_heap s) fuel a b ->
  exists r, equals fuel a b s = (Ok r, s) /\ equals fuel b a s = (Ok r, s).
Proof. exact equals_sym_full. Qed.
Print Assumptions C01_equals_symmetric_same_shape.

(* the events of a binary expression: those of the left operand, then (unless
   short-circuited / failed) those of the right operand; the operator adds none *)
Theorem C01_binary_trace : forall n P e op t l r s s1 la s2 res s4,
  tick s = (Ok tt, s1) ->
  eval_expr n P e l s1 = (Ok la, s2) ->
  eval_expr (S n) P e (EBin op t l r) s = (res, s4) ->
  st_trace s4 = st_trace s2 \/
  exists rb s3, eval_expr n P e r s2 = (rb, s3) /\ st_trace s4 = st_trace s3 /\
                rev (emitted s1 s4) = rev (emitted s1 s2) ++ rev (emitted s2 s3).
Proof. exact ebin_trace. Qed.
Print Assumptions C01_binary_trace.

(* ====================================================================== *)
(* non-vacuity: concrete instances (vm_compute)                           *)
(* ====================================================================== *)
Definition ex_s0 : state := init_state None [] false false.

(*  func f:bool        func p:num s:string
        print "x"          print s
        return true        return 1
    end                end                                   *)
Definition ex_P : program :=
  {| p_funcs :=
       [ {| fn_name := s_ "f"; fn_params := []; fn_variadic := None; fn_ret := TBool;
            fn_body := [SCallStmt (s_ "print") [EStr (s_ "x")]; SReturn (Some (EBool true))] |};
         {| fn_name := s_ "p"; fn_params := [(s_ "s", TStr)]; fn_variadic := None; fn_ret := TNum;
            fn_body := [SCallStmt (s_ "print") [EVar (s_ "s") TStr]; SReturn (Some (ENum 1%float))] |} ];
     p_handlers := []; p_stmts := [] |}.
Definition ex_f : expr := EGroup (ECall (s_ "f") TBool []).
Definition ex_p (x : string) : expr := EGroup (ECall (s_ "p") TNum [EStr (s_ x)]).
Definition ex_line (x : string) : event := EvPrint [PStr (s_ x); PStr [10%N]].
Definition ex_run (x : expr) : res loc * state := eval_expr 50 ex_P [] x ex_s0.
Definition ex_val (r : res loc * state) : option hval :=
  match fst r with Ok l => hget (st_heap (snd r)) l | Er _ => None end.

(* `false and (f)`: f is not called — nothing printed, value false;
   `true and (f)`: f is called *)
Example C01_ex_and_short_circuits :
  st_trace (snd (ex_run (EBin BAnd TBool (EBool false) ex_f))) = [] /\
  ex_val (ex_run (EBin BAnd TBool (EBool false) ex_f)) = Some (HBool false) /\
  st_trace (snd (ex_run (EBin BAnd TBool (EBool true) ex_f))) = [ex_line "x"] /\
  ex_val (ex_run (EBin BAnd TBool (EBool true) ex_f)) = Some (HBool true).
Proof. vm_compute. repeat split; reflexivity. Qed.

Example C01_ex_or_short_circuits :
  st_trace (snd (ex_run (EBin BOr TBool (EBool true) ex_f))) = [] /\
  ex_val (ex_run (EBin BOr TBool (EBool true) ex_f)) = Some (HBool true) /\
  st_trace (snd (ex_run (EBin BOr TBool (EBool false) ex_f))) = [ex_line "x"] /\
  ex_val (ex_run (EBin BOr TBool (EBool false) ex_f)) = Some (HBool true).
Proof. vm_compute. repeat split; reflexivity. Qed.

(* the hypotheses of C01_short_circuit_and hold for that run *)
Example C01_ex_short_circuit_hyps :
  exists s1 la s2,
    tick ex_s0 = (Ok tt, s1) /\
    eval_expr 49 ex_P [] (EBool false) s1 = (Ok la, s2) /\
    hget (st_heap s2) la = Some (HBool false).
Proof.
  do 3 eexists. split; [vm_compute; reflexivity|]. split; vm_compute; reflexivity.
Qed.

(* operands, list elements, call arguments, index/slice parts: left to right *)
Example C01_ex_left_to_right :
  (* (p "a") + (p "b") *)
  rev (st_trace (snd (ex_run (EBin BPlus TNum (ex_p "a") (ex_p "b"))))) = [ex_line "a"; ex_line "b"] /\
  ex_val (ex_run (EBin BPlus TNum (ex_p "a") (ex_p "b"))) = Some (HNum 2%float) /\
  (* [(p "a") (p "b") (p "c")] *)
  rev (st_trace (snd (ex_run (EArr (TArr TNum) [ex_p "a"; ex_p "b"; ex_p "c"])))) =
    [ex_line "a"; ex_line "b"; ex_line "c"] /\
  (* {k:(p "a") l:(p "b")} *)
  rev (st_trace (snd (ex_run (EMap (TMap TNum) [(s_ "k", ex_p "a"); (s_ "l", ex_p "b")])))) =
    [ex_line "a"; ex_line "b"] /\
  (* [(p "a")][(p "b") - 1] : indexed value before index *)
  rev (st_trace (snd (ex_run (EIndex TNum (EArr (TArr TNum) [ex_p "a"])
                                     (EBin BMinus TNum (ex_p "b") (ENum 1%float)))))) =
    [ex_line "a"; ex_line "b"] /\
  (* "xyz"[(p "a"):(p "b") + 1] *)
  rev (st_trace (snd (ex_run (ESlice TStr (EStr (s_ "xyz")) (Some (ex_p "a"))
                                     (Some (EBin BPlus TNum (ex_p "b") (ENum 1%float))))))) =
    [ex_line "a"; ex_line "b"] /\
  ex_val (ex_run (ESlice TStr (EStr (s_ "xyz")) (Some (ex_p "a"))
                         (Some (EBin BPlus TNum (ex_p "b") (ENum 1%float))))) = Some (HStr (s_ "y")).
Proof. vm_compute. repeat split; reflexivity. Qed.

(* assignment: right-hand side before the target's index expression *)
Example C01_ex_assign_order :
  let prog := {| p_funcs := p_funcs ex_P; p_handlers := [];
                 p_stmts := [ SDecl (s_ "a") (TArr TNum) (EArr (TArr TNum) [ENum 0%float; ENum 0%float]);
                              SAssign (EIndex TNum (EVar (s_ "a") (TArr TNum)) (ex_p "index"))
                                      (ex_p "value");
                              SCallStmt (s_ "print") [EVar (s_ "a") (TArr TNum)] ] |} in
  let r := run_program 100 prog ex_s0 in
  fst r = ODone /\ rev (st_trace (snd r)) = [ex_line "value"; ex_line "index";
     EvPrint [PStr (s_ "["); PStr (s_ "0"); PStr (s_ " "); PStr (s_ "1"); PStr (s_ "]"); PStr [10%N]]].
Proof. vm_compute. split; reflexivity. Qed.

(* trace_concat: an instance of the hypotheses and of the conclusion *)
Example C01_ex_trace_concat :
  let xs := [ex_p "a"; ex_p "b"] in let ys := [ex_p "c"] in
  exists vs s1 ws s2,
    eval_exprs 12 ex_P [] xs ex_s0 = (Ok vs, s1) /\
    eval_exprs 30 ex_P [] ys s1 = (Ok ws, s2) /\
    eval_exprs 40 ex_P [] (xs ++ ys) ex_s0 = (Ok (vs ++ ws), s2) /\
    rev (emitted ex_s0 s1) = [ex_line "a"; ex_line "b"] /\
    rev (emitted s1 s2) = [ex_line "c"] /\
    rev (emitted ex_s0 s2) = [ex_line "a"; ex_line "b"; ex_line "c"].
Proof.
  cbv zeta. do 4 eexists.
  split; [vm_compute; reflexivity|]. split; [vm_compute; reflexivity|].
  split; [vm_compute; reflexivity|]. split; [vm_compute; reflexivity|].
  split; vm_compute; reflexivity.
Qed.

(* fuel monotonicity has content: too little fuel is "out of fuel", enough
   fuel gives the verdict that every larger fuel repeats *)
Example C01_ex_fuel :
  fst (eval_expr 3 ex_P [] (ex_p "a") ex_s0) = Er EOutOfFuel /\
  fst (eval_expr 9 ex_P [] (ex_p "a") ex_s0) = Ok 8%positive /\
  eval_expr 9 ex_P [] (ex_p "a") ex_s0 = eval_expr 200 ex_P [] (ex_p "a") ex_s0.
Proof. vm_compute. repeat split; reflexivity. Qed.

(* operator table on values *)
Example C01_ex_binops :
  ex_val (bin_num BPlus 1%float 2%float ex_s0) = Some (HNum 3%float) /\
  ex_val (bin_num BPercent 10%float 3%float ex_s0) = Some (HNum 1%float) /\
  ex_val (bin_num BLtEq 2%float 2%float ex_s0) = Some (HBool true) /\
  ex_val (bin_num BGt nan 2%float ex_s0) = Some (HBool false) /\
  fst (bin_num BAnd 1%float 2%float ex_s0) = Er (EInternal (s_ "unknown operation (num)")) /\
  ex_val (bin_str BPlus (s_ "fire") (s_ "engine") ex_s0) = Some (HStr (s_ "fireengine")) /\
  ex_val (bin_str BLt (s_ "abc") (s_ "abd") ex_s0) = Some (HBool true) /\
  ex_val (bin_str BGtEq (s_ "ab") (s_ "abc") ex_s0) = Some (HBool false) /\
  fst (bin_str BMinus (s_ "a") (s_ "b") ex_s0) = Er (EInternal (s_ "unknown operation (string)")) /\
  ex_val (bin_bool BOr false true ex_s0) = Some (HBool true) /\
  fst (bin_bool BPlus false true ex_s0) = Er (EInternal (s_ "unknown operation (bool)")).
Proof. vm_compute. repeat split; reflexivity. Qed.

(* [1] + [2] and [7] * 2 as expressions *)
Example C01_ex_array_ops :
  let show_of x := let r := ex_run x in
                   match fst r with Ok l => fst (show 10 false l (snd r)) | Er e => Er e end in
  show_of (EBin BPlus (TArr TNum) (EArr (TArr TNum) [ENum 1%float]) (EArr (TArr TNum) [ENum 2%float]))
    = Ok [PStr (s_ "["); PStr (s_ "1"); PStr (s_ " "); PStr (s_ "2"); PStr (s_ "]")] /\
  show_of (EBin BAsterisk (TArr TNum) (EArr (TArr TNum) [ENum 7%float]) (ENum 2%float))
    = Ok [PStr (s_ "["); PStr (s_ "7"); PStr (s_ " "); PStr (s_ "7"); PStr (s_ "]")] /\
  fst (ex_run (EBin BAsterisk (TArr TNum) (EArr (TArr TNum) [ENum 7%float]) (ENum (-1)%float)))
    = Er (EPanic PkBadRepetition) /\
  (exists w, fst (ex_run (EBin BMinus (TArr TNum) (EArr (TArr TNum) []) (EArr (TArr TNum) []))) = Er (EInternal w)).
Proof. vm_compute. repeat split; try reflexivity. eexists; reflexivity. Qed.

(* deep equality: cells 4.. of [st_of vs] hold vs.
   4:1  5:"x"  6:[4 5]  7:{a:4 b:6}(order a b)  8:{b:6 a:4}(order b a)  9:1  10:[9 5]  *)
Definition ex_heap : state :=
  st_of [ HNum 1%float; HStr (s_ "x"); HArr [4%positive; 5%positive];
          HMap {| pairs := [(s_ "a", 4%positive); (s_ "b", 6%positive)]; order := [s_ "a"; s_ "b"] |};
          HMap {| pairs := [(s_ "b", 6%positive); (s_ "a", 4%positive)]; order := [s_ "b"; s_ "a"] |};
          HNum 1%float; HArr [9%positive; 5%positive] ].

Example C01_ex_equals :
  good (st_heap ex_heap) 3 7%positive /\
  fst (equals 3 7%positive 7%positive ex_heap) = Ok true /\
  (* maps with different order / different Pairs position are equal, both ways *)
  fst (equals 3 7%positive 8%positive ex_heap) = Ok true /\
  fst (equals 3 8%positive 7%positive ex_heap) = Ok true /\
  (* structurally equal arrays in different cells *)
  fst (equals 3 6%positive 10%positive ex_heap) = Ok true /\
  fst (equals 3 4%positive 5%positive ex_heap) = Er (EHostCrash (s_ "Equals called with mismatched value kinds")).
Proof.
  split; [|vm_compute; repeat split; reflexivity].
  cbn. split.
  - repeat (apply NoDup_cons; [cbn; intuition discriminate|]); apply NoDup_nil.
  - repeat constructor.
Qed.

(* a heap that differs from ex_heap only in Order fields / Pairs positions *)
Definition ex_heap' : state :=
  st_of [ HNum 1%float; HStr (s_ "x"); HArr [4%positive; 5%positive];
          HMap {| pairs := [(s_ "b", 6%positive); (s_ "a", 4%positive)]; order := [] |};
          HMap {| pairs := [(s_ "b", 6%positive); (s_ "a", 4%positive)]; order := [s_ "a"] |};
          HNum 1%float; HArr [9%positive; 5%positive] ].

Example C01_ex_perm_heap : perm_heap (st_heap ex_heap) (st_heap ex_heap').
Proof.
  intro l. unfold hget.
  destruct (PositiveMap.find l (hcells (st_heap ex_heap))) as [v|] eqn:E.
  - apply PositiveMap.elements_correct in E. vm_compute in E.
    repeat (destruct E as [E|E]; [inversion E; subst; vm_compute;
      first [ apply pv_same
            | apply pv_map; cbn;
              [ first [apply Permutation_refl | apply perm_swap]
              | repeat (apply NoDup_cons; [cbn; intuition discriminate|]); apply NoDup_nil ] ] |]).
    contradiction.
  - destruct (PositiveMap.find l (hcells (st_heap ex_heap'))) as [v'|] eqn:E'; [|exact Logic.I].
    apply PositiveMap.elements_correct in E'. vm_compute in E'.
    repeat (destruct E' as [E'|E']; [inversion E'; subst; vm_compute in E; discriminate E|]).
    contradiction.
Qed.

(* FINDING CANDIDATE (C01 / C09): the CONTENT of the left operand is read
   after the right operand has run.  For the cells that are updated in place
   (err / errmsg by a failing str2num / str2bool; array elements by an
   indexed assignment) the left operand of a binary operator therefore shows
   the side effect of the right operand, although it is "evaluated first":
       func g:string                       a := [1]
           x := str2num "zz"               func f:[]num
           return "!"                          a[0] = 2
       end                                     return []
       print (errmsg + (g))                end
                                           print (a + (f))
   print  str2num: cannot parse "zz"!   and   [2]
   (the real evaluator prints the same: evalBinaryExpr reads l.V / *l.Elements
   after e.eval(expr.Right)). *)
Example C01_ex_left_operand_read_after_right :
  let prog1 :=
    {| p_funcs := [ {| fn_name := s_ "g"; fn_params := []; fn_variadic := None; fn_ret := TStr;
                       fn_body := [ SDecl (s_ "x") TNum (ECall (s_ "str2num") TNum [EStr (s_ "zz")]);
                                    SReturn (Some (EStr (s_ "!"))) ] |} ];
       p_handlers := [];
       p_stmts := [ SCallStmt (s_ "print")
                      [EBin BPlus TStr (EVar (s_ "errmsg") TStr) (EGroup (ECall (s_ "g") TStr []))] ] |} in
  let prog2 :=
    {| p_funcs := [ {| fn_name := s_ "f"; fn_params := []; fn_variadic := None; fn_ret := TArr TNum;
                       fn_body := [ SAssign (EIndex TNum (EVar (s_ "a") (TArr TNum)) (ENum 0%float)) (ENum 2%float);
                                    SReturn (Some (EArr (TArr TNum) [])) ] |} ];
       p_handlers := [];
       p_stmts := [ SDecl (s_ "a") (TArr TNum) (EArr (TArr TNum) [ENum 1%float]);
                    SCallStmt (s_ "print")
                      [EBin BPlus (TArr TNum) (EVar (s_ "a") (TArr TNum))
                            (EGroup (ECall (s_ "f") (TArr TNum) []))] ] |} in
  let r1 := run_program 100 prog1 ex_s0 in
  let r2 := run_program 100 prog2 ex_s0 in
  fst r1 = ODone /\ st_trace (snd r1) = [ex_line "str2num: cannot parse ""zz""!"] /\
  fst r2 = ODone /\ st_trace (snd r2) = [EvPrint [PStr (s_ "["); PStr (s_ "2"); PStr (s_ "]"); PStr [10%N]]].
Proof. vm_compute. repeat split; reflexivity. Qed.

(* cells 7 and 8 of ex_heap (two maps of arrays) have the same shape, and
   every map cell has distinct keys: the hypotheses of the symmetry theorems *)
Example C01_ex_sym_hyps :
  maps_nodup (st_heap ex_heap) /\ compat (st_heap ex_heap) 3 7%positive 8%positive /\
  fst (equals 3 6%positive 7%positive ex_heap) = Er (EHostCrash (s_ "Equals called with mismatched value kinds")).
Proof.
  split; [|split; [|vm_compute; reflexivity]].
  - intros l m H. unfold hget in H. apply PositiveMap.elements_correct in H. vm_compute in H.
    repeat (destruct H as [H|H];
            [inversion H; subst; cbn;
             repeat (apply NoDup_cons; [cbn; intuition discriminate|]); apply NoDup_nil|]).
    contradiction.
  - assert (B : forall a b, (a, b) = (4%positive, 4%positive) \/ (a, b) = (5%positive, 5%positive) ->
                compat (st_heap ex_heap) 1 a b).
    { intros a b [E|E]; inversion E; subst; exact Logic.I. }
    assert (A6 : compat (st_heap ex_heap) 2 6%positive 6%positive).
    { cbn. intros _. repeat constructor; apply B; auto. }
    cbn [compat]. change (hget (st_heap ex_heap) 7%positive) with
      (Some (HMap {| pairs := [(s_ "a", 4%positive); (s_ "b", 6%positive)]; order := [s_ "a"; s_ "b"] |})).
    change (hget (st_heap ex_heap) 8%positive) with
      (Some (HMap {| pairs := [(s_ "b", 6%positive); (s_ "a", 4%positive)]; order := [s_ "b"; s_ "a"] |})).
    cbn [pairs].
    split; intros k i j Hin Hl; cbn in Hin;
      (destruct Hin as [Hin|[Hin|[]]]; inversion Hin; subst; vm_compute in Hl; inversion Hl; subst;
       first [exact A6 | exact Logic.I]).
Qed.
