(* C10 — Lexical scoping and structured control flow.
   Property theorems only; every proof is [exact <lemma of SemScope>].
   All theorems quantify over every program P, every fuel n / f, every
   environment and every state. *)
From Coq Require Import ZArith NArith List String Bool.
From EvyV Require Import Base Num Ast Omap OmapProofs Sem SemScope SemScopeEx.
Import ListNotations.

(* ====================================================================== *)
(* 1. Blocks restore the scope                                             *)
(* ====================================================================== *)

(* all six statement-level functions at once (induction on the fuel) *)
Theorem C10_scope_invariant : forall n, scope_inv n.
Proof. exact scope_inv_all. Qed.
Print Assumptions C10_scope_invariant.

Theorem C10_block_restores_scope : forall n P e s st sig e' st',
  exec_stmt n P e s st = (Ok (sig, e'), st') ->
  List.length e' = List.length e /\
  shape (tl e') = shape (tl e) /\
  (exists added, names (hd [] e') = added ++ names (hd [] e)) /\
  (is_decl s = false -> shape e' = shape e) /\
  (is_decl s = true -> tl e' = tl e).
Proof. exact block_restores_scope. Qed.
Print Assumptions C10_block_restores_scope.

Theorem C10_block_pop_restores : forall n P e body st sig e2 st',
  exec_block n P ([] :: e) body st = (Ok (sig, e2), st') ->
  shape (tl e2) = shape e /\ List.length e2 = S (List.length e).
Proof. exact block_pop_restores. Qed.
Print Assumptions C10_block_pop_restores.

Theorem C10_cond_restores_scope : forall n P e c body st r e' st',
  exec_cond n P e c body st = (Ok (r, e'), st') -> shape e' = shape e.
Proof. exact cond_restores_scope. Qed.
Print Assumptions C10_cond_restores_scope.

Theorem C10_while_restores_scope : forall n P e c body st sig e' st',
  exec_while n P e c body st = (Ok (sig, e'), st') -> shape e' = shape e.
Proof. exact while_restores_scope. Qed.
Print Assumptions C10_while_restores_scope.

(* every iteration of a for loop runs its body in a scope of its own, pushed
   over the loop's frame (which holds the loop variable) and popped afterwards:
   the loop restores the shape exactly like while *)
Theorem C10_for_restores_scope : forall n P e var rg body st sig e' st',
  exec_for n P e var rg body st = (Ok (sig, e'), st') -> shape e' = shape e.
Proof. exact for_restores_scope. Qed.
Print Assumptions C10_for_restores_scope.

(* a variable declared in a for body does not exist in the next iteration nor
   after the loop: every iteration's body starts in an empty frame over an
   environment of the shape the loop had at entry *)
Theorem C10_for_trace_fresh_scope : forall P var body rg e st tr en e' st',
  for_trace P var body rg e st tr en e' st' ->
  Forall (fun v => shape (v_env v) = [] :: shape e) tr /\ shape e' = shape e.
Proof. exact for_trace_fresh_scope. Qed.
Print Assumptions C10_for_trace_fresh_scope.

(* top level: there is no local frame, declarations go to the globals *)
Theorem C10_toplevel_env_stays_empty : forall n P l st sig e' st',
  exec_stmts n P [] l st = (Ok (sig, e'), st') -> e' = [].
Proof. exact toplevel_env_stays_empty. Qed.
Print Assumptions C10_toplevel_env_stays_empty.

(* shadowing restores the outer variable: a block without an assignment
   [x = ...] leaves x bound to the same cell in every enclosing frame *)
Theorem C10_shadowing_restores_outer : forall x n P e body st sig e2 st',
  exec_block n P ([] :: e) body st = (Ok (sig, e2), st') ->
  existsb (assigns x) body = false ->
  bindings x (tl e2) = bindings x e.
Proof. exact shadowing_restores_outer. Qed.
Print Assumptions C10_shadowing_restores_outer.

Theorem C10_compound_keeps_bindings : forall x n P e s st sig e' st',
  exec_stmt n P e s st = (Ok (sig, e'), st') ->
  assigns x s = false ->
  bindings x (tl e') = bindings x (tl e) /\ (is_decl s = false -> bindings x e' = bindings x e).
Proof. exact compound_keeps_bindings. Qed.
Print Assumptions C10_compound_keeps_bindings.

(* ====================================================================== *)
(* 2. Calls and handlers see parameters, own locals and globals only       *)
(* ====================================================================== *)

Theorem C10_eval_call_user : forall f P e name args fd st,
  resolves_to P name fd ->
  eval_call (S f) P e name args st =
  (let* vals := eval_exprs f P e args in call_user f P fd vals) st.
Proof. exact eval_call_user. Qed.
Print Assumptions C10_eval_call_user.

Theorem C10_call_sees_only_params_locals_globals : forall f P name args fd e1 e2 st,
  resolves_to P name fd ->
  eval_exprs f P e1 args st = eval_exprs f P e2 args st ->
  eval_call (S f) P e1 name args st = eval_call (S f) P e2 name args st.
Proof. exact call_sees_only_params_locals_globals. Qed.
Print Assumptions C10_call_sees_only_params_locals_globals.

Theorem C10_call_frame_names : forall fd vals st fr st',
  call_frame fd vals st = (Ok fr, st') -> incl (names fr) (param_names fd).
Proof. exact call_frame_names. Qed.
Print Assumptions C10_call_frame_names.

Theorem C10_call_stmt_keeps_env : forall n P e name args st sig e' st',
  exec_stmt n P e (SCallStmt name args) st = (Ok (sig, e'), st') -> sig = SigNone /\ e' = e.
Proof. exact call_stmt_keeps_env. Qed.
Print Assumptions C10_call_stmt_keeps_env.

Theorem C10_builtin_none_indep : forall name e vals e' vals',
  builtin name e vals = None -> builtin name e' vals' = None.
Proof. exact builtin_none_indep. Qed.
Print Assumptions C10_builtin_none_indep.

Theorem C10_handle_event_unfold : forall fuel P name args s0,
  handle_event fuel P name args s0 =
  match find_handler name (p_handlers P) with
  | None => (OErr (EHostCrash (s_ "no event handler")), s0)
  | Some h => match handler_run fuel P h args s0 with
              | (Er e, s1) => (OErr e, s1)
              | (Ok _, s1) => (ODone, s1)
              end
  end.
Proof. exact handle_event_unfold. Qed.
Print Assumptions C10_handle_event_unfold.

Theorem C10_handler_frame_names : forall h args st fr st',
  bind_payload (h_params h) args [] st = (Ok fr, st') -> incl (names fr) (map fst (h_params h)).
Proof. exact handler_frame_names. Qed.
Print Assumptions C10_handler_frame_names.

(* ====================================================================== *)
(* 3. break / return                                                       *)
(* ====================================================================== *)

Theorem C10_signal_invariant : forall n, signal_inv n.
Proof. exact signal_inv_all. Qed.
Print Assumptions C10_signal_invariant.

Theorem C10_stmts_stop_at_first_signal : forall n P e l st sig e' st',
  exec_stmts n P e l st = (Ok (sig, e'), st') -> stmts_run P e st l sig e' st'.
Proof. exact stmts_stop_at_first_signal. Qed.
Print Assumptions C10_stmts_stop_at_first_signal.

Theorem C10_stmts_after_signal_irrelevant : forall f P e s t t' st sig e1 st1,
  exec_stmt f P e s st = (Ok (sig, e1), st1) -> is_ctl sig = true ->
  exec_stmts (S f) P e (s :: t) st = exec_stmts (S f) P e (s :: t') st.
Proof. exact stmts_after_signal_irrelevant. Qed.
Print Assumptions C10_stmts_after_signal_irrelevant.

Theorem C10_break_leaves_innermost_loop :
  (forall f P e c body st e1 st1,
     exec_cond f P e c body st = (Ok (Some SigBreak, e1), st1) ->
     exec_while (S f) P e c body st = (Ok (SigNone, e1), st1)) /\
  (forall f P e var rg body st l rg' st1 e1 st2 e2 st3,
     for_next rg st = (Ok (Some (l, rg')), st1) -> update_var var l e st1 = (Ok e1, st2) ->
     exec_block f P ([] :: e1) body st2 = (Ok (SigBreak, e2), st3) ->
     exec_for (S f) P e var rg body st = (Ok (SigNone, tl e2), st3)) /\
  (forall n P e c body st sig e' st',
     exec_while n P e c body st = (Ok (sig, e'), st') -> sig <> SigBreak) /\
  (forall n P e var rg body st sig e' st',
     exec_for n P e var rg body st = (Ok (sig, e'), st') -> sig <> SigBreak) /\
  (forall n P e s st e' st',
     exec_stmt n P e s st = (Ok (SigBreak, e'), st') -> break_reachable s = true) /\
  (forall f P e s t st sig e1 st1,
     exec_stmt f P e s st = (Ok (sig, e1), st1) -> is_ctl sig = true ->
     exec_stmts (S f) P e (s :: t) st = (Ok (sig, e1), st1)) /\
  (forall n P e conds els st sig e' st',
     exec_stmt n P e (SIf conds els) st = (Ok (sig, e'), st') ->
     (sig = SigNone /\ e' = e) \/
     exists body k st0 e2, In body (if_bodies conds els) /\
       exec_block k P ([] :: e) body st0 = (Ok (sig, e2), st') /\ e' = tl e2).
Proof. exact break_leaves_innermost_loop. Qed.
Print Assumptions C10_break_leaves_innermost_loop.

Theorem C10_loop_stmt_never_breaks : forall n P e s st sig e' st',
  (exists c b, s = SWhile c b) \/ (exists v t r b, s = SFor v t r b) ->
  exec_stmt n P e s st = (Ok (sig, e'), st') -> sig <> SigBreak.
Proof. exact loop_stmt_never_breaks. Qed.
Print Assumptions C10_loop_stmt_never_breaks.

Theorem C10_return_leaves_call :
  (forall f P e s t st v e1 st1,
     exec_stmt f P e s st = (Ok (SigReturn v, e1), st1) ->
     exec_stmts (S f) P e (s :: t) st = (Ok (SigReturn v, e1), st1)) /\
  (forall f P e l st st0 sig e' st',
     tick st = (Ok tt, st0) -> exec_stmts f P e l st0 = (Ok (sig, e'), st') ->
     exec_block (S f) P e l st = (Ok (sig, e'), st')) /\
  (forall f P e c body st l st1 st2 sig e2 st',
     eval_expr f P ([] :: e) c st = (Ok l, st1) -> load l st1 = (Ok (HBool true), st2) ->
     exec_block f P ([] :: e) body st2 = (Ok (sig, e2), st') ->
     exec_cond (S f) P e c body st = (Ok (Some sig, tl e2), st')) /\
  (forall f P els c body t e st sig e1 st1,
     exec_cond f P e c body st = (Ok (Some sig, e1), st1) ->
     if_go f P els ((c, body) :: t) e st = (Ok (sig, e1), st1)) /\
  (forall f P e c body st v e1 st1,
     exec_cond f P e c body st = (Ok (Some (SigReturn v), e1), st1) ->
     exec_while (S f) P e c body st = (Ok (SigReturn v, e1), st1)) /\
  (forall f P e var rg body st l rg' st1 e1 st2 v e2 st3,
     for_next rg st = (Ok (Some (l, rg')), st1) -> update_var var l e st1 = (Ok e1, st2) ->
     exec_block f P ([] :: e1) body st2 = (Ok (SigReturn v, e2), st3) ->
     exec_for (S f) P e var rg body st = (Ok (SigReturn v, tl e2), st3)) /\
  (forall f P fd vals st fr st1 v e2 st2,
     call_frame fd vals st = (Ok fr, st1) ->
     exec_block f P [fr] (fn_body fd) st1 = (Ok (SigReturn v, e2), st2) ->
     call_user f P fd vals st = (Ok v, st2)) /\
  (forall f P fd vals st fr st1 sig e2 st2,
     call_frame fd vals st = (Ok fr, st1) ->
     exec_block f P [fr] (fn_body fd) st1 = (Ok (sig, e2), st2) ->
     (forall v, sig <> SigReturn v) ->
     call_user f P fd vals st = (let* l := alloc HNone in ret (Some l)) st2) /\
  (forall n P e s st v e' st',
     exec_stmt n P e s st = (Ok (SigReturn v, e'), st') -> return_reachable s = true).
Proof. exact return_leaves_call. Qed.
Print Assumptions C10_return_leaves_call.

(* the if statement of Sem.v is [tick; if_go] *)
Theorem C10_exec_stmt_if : forall f P e conds els,
  exec_stmt (S f) P e (SIf conds els) = (let* _ := tick in if_go f P els conds e).
Proof. exact exec_stmt_if. Qed.
Print Assumptions C10_exec_stmt_if.

(* ====================================================================== *)
(* 4. while tests its condition before every iteration                     *)
(* ====================================================================== *)

Theorem C10_while_unfold : forall f P e c body,
  exec_while (S f) P e c body =
  (let* (r, e1) := exec_cond f P e c body in
   match r with
   | None => ret (SigNone, e1)
   | Some SigBreak => ret (SigNone, e1)
   | Some (SigReturn v) => ret (SigReturn v, e1)
   | Some SigNone => exec_while f P e1 c body
   end).
Proof. exact while_unfold. Qed.
Print Assumptions C10_while_unfold.

Theorem C10_exec_cond_unfold : forall f P e c body,
  exec_cond (S f) P e c body =
  (let* l := eval_expr f P ([] :: e) c in
   let* v := load l in
   match v with
   | HBool true => let* (sig, e2) := exec_block f P ([] :: e) body in ret (Some sig, tl e2)
   | HBool false => ret (None, e)
   | _ => internal "conditional not a bool"
   end).
Proof. exact exec_cond_unfold. Qed.
Print Assumptions C10_exec_cond_unfold.

(* a false condition ends the loop without looking at the body *)
Theorem C10_while_false_no_body : forall f P e c body body' st l st1 st2,
  eval_expr f P ([] :: e) c st = (Ok l, st1) -> load l st1 = (Ok (HBool false), st2) ->
  exec_while (S (S f)) P e c body st = (Ok (SigNone, e), st2) /\
  exec_while (S (S f)) P e c body' st = (Ok (SigNone, e), st2).
Proof. exact while_false_no_body. Qed.
Print Assumptions C10_while_false_no_body.

Theorem C10_while_iterates : forall f P e c body st e1 st1,
  exec_cond f P e c body st = (Ok (Some SigNone, e1), st1) ->
  exec_while (S f) P e c body st = exec_while f P e1 c body st1.
Proof. exact while_iterates. Qed.
Print Assumptions C10_while_iterates.

(* ====================================================================== *)
(* 5. for ... range                                                        *)
(* ====================================================================== *)

(* the range expressions occur in [for_init] only: evaluated once, at loop entry *)
Theorem C10_exec_stmt_for : forall f P e var vt r body,
  exec_stmt (S f) P e (SFor var vt r body) =
  (let* _ := tick in
   let* (rg, e2) := for_init f P ([] :: e) var vt r in
   let* (sig, e3) := exec_for f P e2 (loopvar_name var) rg body in
   ret (sig, tl e3)).
Proof. exact exec_stmt_for. Qed.
Print Assumptions C10_exec_stmt_for.

Theorem C10_exec_for_unfold : forall f P e var rg body,
  exec_for (S f) P e var rg body = (let* nx := for_next rg in for_iter f P e var body nx).
Proof. exact exec_for_unfold. Qed.
Print Assumptions C10_exec_for_unfold.

Theorem C10_for_init_step_inv : forall f P e1 var vt start stop step st rg e2 st',
  for_init f P e1 var vt (RStep start stop step) st = (Ok (rg, e2), st') ->
  exists a st1 b st2 c st3,
    range_num f P e1 start f_zero st = (Ok a, st1) /\
    range_num f P e1 (Some stop) f_zero st1 = (Ok b, st2) /\
    range_num f P e1 step f_one st2 = (Ok c, st3) /\
    PrimFloat.eqb c f_zero = false /\ rg = RgStep a b c.
Proof. exact for_init_step_inv. Qed.
Print Assumptions C10_for_init_step_inv.

Theorem C10_for_init_expr_inv : forall f P e1 var vt y st rg e2 st',
  for_init f P e1 var vt (RExpr y) st = (Ok (rg, e2), st') ->
  exists l st1, eval_expr f P e1 y st = (Ok l, st1) /\
    match hget (st_heap st1) l with
    | Some (HArr _) => rg = RgArr l 0
    | Some (HStr s) => rg = RgStr s 0
    | Some (HMap om) => rg = RgMap l (order om)
    | _ => False
    end.
Proof. exact for_init_expr_inv. Qed.
Print Assumptions C10_for_init_expr_inv.

Theorem C10_for_zero_step_panics : forall f P e var vt start stop step body st st0 a st1 b st2 c st3,
  tick st = (Ok tt, st0) ->
  range_num f P ([] :: e) start f_zero st0 = (Ok a, st1) ->
  range_num f P ([] :: e) (Some stop) f_zero st1 = (Ok b, st2) ->
  range_num f P ([] :: e) step f_one st2 = (Ok c, st3) ->
  PrimFloat.eqb c f_zero = true ->
  exec_stmt (S f) P e (SFor var vt (RStep start stop step) body) st = (Er (EPanic PkRangeValue), st3).
Proof. exact for_zero_step_panics. Qed.
Print Assumptions C10_for_zero_step_panics.

(* instrumented iteration *)
Theorem C10_exec_for_trace : forall n P e var rg body st sig e' st',
  exec_for n P e var rg body st = (Ok (sig, e'), st') ->
  exists tr en, for_trace P var body rg e st tr en e' st' /\ sig = for_end_signal en.
Proof. exact exec_for_trace. Qed.
Print Assumptions C10_exec_for_trace.

Theorem C10_for_stmt_trace : forall n P e var vt r body st sig e' st',
  exec_stmt n P e (SFor var vt r body) st = (Ok (sig, e'), st') ->
  exists f st0 rg e2 st1 tr en e3,
    for_init f P ([] :: e) var vt r st0 = (Ok (rg, e2), st1) /\
    tl e2 = e /\ var_in_top (loopvar_name var) e2 /\
    for_trace P (loopvar_name var) body rg e2 st1 tr en e3 st' /\
    sig = for_end_signal en /\ e' = tl e3.
Proof. exact for_stmt_trace. Qed.
Print Assumptions C10_for_stmt_trace.

Theorem C10_for_trace_binds_var : forall P var body rg e st tr en e' st',
  for_trace P var body rg e st tr en e' st' ->
  str_eqb var underscore = false -> In var (names (hd [] e)) ->
  Forall (fun v => env_get var (v_env v) = Some (v_loc v)) tr.
Proof. exact for_trace_binds_var. Qed.
Print Assumptions C10_for_trace_binds_var.

(* numeric: the values are cur, cur+step, ... up to Go's stop test *)
Theorem C10_for_num_spec : forall P var body a b c e st tr en e' st',
  for_trace P var body (RgStep a b c) e st tr en e' st' ->
  map visit_val tr = map (fun x => Some (HNum x)) (go_steps (List.length tr) a b c) /\
  (en = FeDone -> go_steps (S (List.length tr)) a b c = go_steps (List.length tr) a b c).
Proof. exact for_num_spec. Qed.
Print Assumptions C10_for_num_spec.

(* with the sequence of the property text, whenever no NaN is involved *)
Theorem C10_for_num_spec_partial : forall P var body a b c e st tr en e' st',
  for_trace P var body (RgStep a b c) e st tr en e' st' ->
  is_nan b = false -> is_nan c = false -> PrimFloat.eqb c f_zero = false ->
  (forall j, (j <= List.length tr)%nat -> is_nan (iter_add j a c) = false) ->
  map visit_val tr = map (fun x => Some (HNum x)) (steps (List.length tr) a b c) /\
  (en = FeDone -> steps (S (List.length tr)) a b c = steps (List.length tr) a b c).
Proof. exact for_num_spec_steps. Qed.
Print Assumptions C10_for_num_spec_partial.

(* the same without the NaN side conditions is false of the model (and of ranger.go) *)
Theorem C10_for_num_spec_full_refuted : ~ for_num_spec_full.
Proof. exact for_num_spec_full_refuted. Qed.
Print Assumptions C10_for_num_spec_full_refuted.

Theorem C10_for_num_spec_nan_refuted :
  exists a b c, PrimFloat.eqb c f_zero = false /\ steps 5 a b c = [] /\
    go_steps 5 a b c = [a; a; a; a; a] /\
    forall n P e st r st', exec_for n P e underscore (RgStep a b c) [] st <> (Ok r, st').
Proof. exact for_num_spec_nan_refuted. Qed.
Print Assumptions C10_for_num_spec_nan_refuted.

Theorem C10_for_array_spec : forall P var body a i0 e st tr en e' st',
  for_trace P var body (RgArr a i0) e st tr en e' st' ->
  Forall2 (arr_visit a) (seq i0 (List.length tr)) tr /\
  (en = FeDone -> exists els, hget (st_heap st') a = Some (HArr els) /\
                              (List.length els <= i0 + List.length tr)%nat).
Proof. exact for_array_spec. Qed.
Print Assumptions C10_for_array_spec.

Theorem C10_for_string_spec : forall P var body s i0 e st tr en e' st',
  for_trace P var body (RgStr s i0) e st tr en e' st' ->
  map visit_val tr = map (fun c => Some (HStr [c])) (firstn (List.length tr) (skipn i0 s)) /\
  (en = FeDone -> (List.length s <= i0 + List.length tr)%nat).
Proof. exact for_string_spec. Qed.
Print Assumptions C10_for_string_spec.

Theorem C10_for_string_complete : forall P var body s e st tr e' st',
  for_trace P var body (RgStr s 0) e st tr FeDone e' st' ->
  map visit_val tr = map (fun c => Some (HStr [c])) s.
Proof. exact for_string_complete. Qed.
Print Assumptions C10_for_string_complete.

Theorem C10_for_map_spec : forall P var body m todo e st tr en e' st',
  for_trace P var body (RgMap m todo) e st tr en e' st' -> map_walk m todo tr en st'.
Proof. exact for_map_spec. Qed.
Print Assumptions C10_for_map_spec.

Theorem C10_map_walk_subseq : forall m todo tr en stf,
  map_walk m todo tr en stf ->
  exists ks, map visit_val tr = map (fun k => Some (HStr k)) ks /\ subseq ks todo.
Proof. exact map_walk_subseq. Qed.
Print Assumptions C10_map_walk_subseq.

(* ====================================================================== *)
(* Examples (programs of SemScopeEx.v, evaluated by vm_compute)            *)
(* ====================================================================== *)
Local Open Scope string_scope.
Ltac vmc := unfold resolves_to; repeat (apply conj); vm_compute; reflexivity.

(* if inside for inside while inside a function; shadowing at three depths;
   break leaves only the for; return leaves the call from the innermost if;
   recursion keeps one x per activation; the global x is untouched *)
Example ex_nested_program :
  outcome_of (run_program 300 prog st0) = ODone /\
  printed_of (run_program 300 prog st0) = lines ["0"; "1"; "1"; "100"; "0"; "1"; "10"; "5"].
Proof. vmc. Qed.

(* hypotheses of C10_block_restores_scope / C10_while_restores_scope /
   C10_compound_keeps_bindings: the while statement of f run in a two-frame
   environment ends normally, with the shape and the bindings of x it started with *)
Example ex_while_keeps_scope :
  signal_of (exec_stmt 100 prog e_in the_while st_in) = Some SigNone /\
  shape_of (exec_stmt 100 prog e_in the_while st_in) = Some (shape e_in) /\
  assigns nx the_while = false /\
  bindings_of nx (exec_stmt 100 prog e_in the_while st_in) = Some (bindings nx e_in).
Proof. vmc. Qed.

(* the function body gains the name x in its own frame and signals the return *)
Example ex_body_extends_frame :
  shape_of (exec_block 100 prog [[(nn, 4%positive)]] (fn_body f_def) st_in) = Some [[nx; nn]] /\
  signal_of (exec_block 100 prog [[(nn, 4%positive)]] (fn_body f_def) st_in) = Some (SigReturn (Some 7%positive)).
Proof. vmc. Qed.

(* hypotheses of C10_shadowing_restores_outer, and why the hypothesis is there:
   a block that declares x leaves the outer x alone, a block that assigns x rebinds it,
   a block that declares x first and then assigns assigns its own x *)
Example ex_shadowing :
  existsb (assigns nx) blk_shadow = false /\
  bindings_of nx (exec_block 100 prog ([] :: e_in) blk_shadow st_in)
    = Some [Some 7%positive; Some 5%positive; None] /\   (* block frame :: e_in *)
  bindings nx e_in = [Some 5%positive; None] /\
  bindings_of nx (exec_block 100 prog ([] :: e_in) blk_assign st_in)
    = Some [None; Some 7%positive; None] /\
  bindings_of nx (exec_block 100 prog ([] :: e_in) blk_decl_assign st_in)
    = Some [Some 9%positive; Some 5%positive; None].
Proof. vmc. Qed.

(* hypotheses of C10_eval_call_user / C10_call_sees_only_params_locals_globals *)
Example ex_resolves : resolves_to prog nf f_def /\ resolves_to prog nsum sum_def.
Proof. vmc. Qed.

(* the same call from two different caller environments *)
Example ex_call_env_independent :
  eval_exprs 99 prog e_in call_f9 st_in = eval_exprs 99 prog [] call_f9 st_in /\
  eval_call 100 prog e_in nf call_f9 st_in = eval_call 100 prog [] nf call_f9 st_in /\
  is_ok (eval_call 100 prog e_in nf call_f9 st_in) = true.
Proof. vmc. Qed.

(* numeric ranges: default start/step, negative fractional step, empty range, zero step *)
Example ex_ranges :
  printed_of (run_program 300 range_up st0) = lines ["0"; "1"; "2"; "3"] /\
  steps_up = expect_up /\
  printed_of (run_program 300 range_down_frac st0) = lines ["1"; "0.75"; "0.5"; "0.25"] /\
  steps_down_frac = expect_down_frac /\
  printed_of (run_program 300 range_empty st0) = [] /\
  steps_empty = [] /\
  outcome_of (run_program 300 range_zero_step st0) = OErr (EPanic PkRangeValue) /\
  printed_of (run_program 300 range_zero_step st0) = [].
Proof. vmc. Qed.

(* array (live, re-read), string (entry value), map (entry keys still present) *)
Example ex_collections :
  outcome_of (run_program 300 coll_prog st0) = ODone /\
  printed_of (run_program 300 coll_prog st0) =
    map (fun x => Some (x ++ [10%N])%list)
        [ s_ "1"; s_ "2"; s_ "30"; [104%N]; [233%N]; [121%N]; s_ "a"; s_ "c" ].
Proof. vmc. Qed.

(* a declaration in a for body lives for one iteration only: the next iteration
   and the code after the loop see the outer x again; hypotheses of
   C10_for_restores_scope on the for loop of f (left by break) *)
Example ex_for_body_scope :
  outcome_of (run_program 300 forscope_prog st0) = ODone /\
  printed_of (run_program 300 forscope_prog st0) = lines ["2 0"; "2 1"; "1"] /\
  signal_of (exec_stmt 100 prog e_in inner_for st_in) = Some SigNone /\
  shape_of (exec_stmt 100 prog e_in inner_for st_in) = Some (shape e_in).
Proof. vmc. Qed.

(* while: condition first, every iteration; a false condition runs nothing *)
Example ex_while :
  outcome_of (run_program 300 while_prog st0) = ODone /\
  printed_of (run_program 300 while_prog st0) = lines ["0"; "1"; "2"].
Proof. vmc. Qed.

(* hypotheses of C10_exec_for_trace and the range specifications: a concrete
   loop that ends normally, so a trace exists for it *)
Example ex_for_trace_exists :
  exists tr en e' st', for_trace prog ni [] (RgStep f_zero f_one f_one) [[(ni, 4%positive)]] st_in tr en e' st'.
Proof.
  assert (H : exists r st', exec_for 50 prog [[(ni, 4%positive)]] ni (RgStep f_zero f_one f_one) [] st_in = (Ok r, st')).
  { destruct (exec_for 50 prog [[(ni, 4%positive)]] ni (RgStep f_zero f_one f_one) [] st_in) as [[r|x] st'] eqn:E.
    - exists r, st'. reflexivity.
    - exfalso. apply (f_equal is_ok) in E. vm_compute in E. discriminate. }
  destruct H as ([sig e'] & st' & H). apply exec_for_trace in H as (tr & en & H & _).
  exists tr, en, e', st'. exact H.
Qed.
