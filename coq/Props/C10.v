(* C10 — Lexical scoping and structured control flow (first instalment; the
   scope-shape and range theorems are in SemScope.v when present). *)
From Coq Require Import List.
From EvyV Require Import Base Ast Sem SemBasics.
Import ListNotations.

(* a statement list runs its statements in order and stops at the first one that
   signals break or return, handing the signal to the enclosing construct *)
Theorem C10_statement_list_stops_at_signal : forall n P e x t s,
  exec_stmts (S n) P e (x :: t) s =
  match exec_stmt n P e x s with
  | (Ok (sig, e1), s1) => if is_ctl sig then (Ok (sig, e1), s1) else exec_stmts n P e1 t s1
  | (Er er, s1) => (Er er, s1)
  end.
Proof. exact exec_stmts_cons. Qed.
Print Assumptions C10_statement_list_stops_at_signal.

(* while tests its condition (in a fresh frame) before every iteration; break
   ends exactly this loop, return is passed on *)
Theorem C10_while_unfold : forall n P e c body,
  exec_while (S n) P e c body =
  (let* (r, e1) := exec_cond n P e c body in
   match r with
   | None => ret (SigNone, e1)
   | Some SigBreak => ret (SigNone, e1)
   | Some (SigReturn v) => ret (SigReturn v, e1)
   | Some SigNone => exec_while n P e1 c body
   end).
Proof. exact exec_while_unfold. Qed.
Print Assumptions C10_while_unfold.
