(* C05 (part) — the parser model with a CONCRETE typing oracle (coq/ParserTyped.v).
   Property theorems only; every proof is [exact <lemma of ParserTypedProofs>].

   Parser.v abstracts typing by an oracle; C03_parse / C05_parse / C05_scope quantify over every
   oracle, and the correspondence runs C03parse / C05rules instantiate it with the typing errors the
   REAL checker reported.  ParserTyped.v instantiates it with a Gallina type checker instead:
     - tc_tree: the node (and type) parseExpr builds for a tree, computed with the functions of
       Types.v from the types of the variables in scope and the function signatures;
     - oracle3: what each typing site of Pratt.v / Parser.v asks, answered from tc_tree;
     - tparse: the typed run (simple statements are Parser.parse_statement_body with the oracle
       closed over the typing environment of that point; compound statements thread the
       environment), which yields the typing errors as (site, blamed token);
     - typed_parse: Parser.parse with the oracle "the typed run reported a typing error here";
       typed_answer gives its verdict on the wire only when it coincides with the typed run's own
       error list, `unsupported` otherwise.
   The correspondence stream C05typed (harness/c05typed.go) compares typed_answer with parser.Parse
   (verdict and ordered errors, typing errors included) with nothing borrowed from the real checker. *)
From Coq Require Import List NArith ZArith Bool Arith String.
From EvyV Require Import Base Pratt Parser ParserProofs ParserRules ParserScope ParserTyped ParserTypedProofs.
From EvyV Require TypesSyntax Types TypesSpec TypesProofs.
From EvyV.Gen Require Import Prec TypeNames.
Import ListNotations.
Local Open Scope nat_scope.

(* (a) The theorems of Parser.v hold for EVERY oracle, hence for the concrete one: for every token list
   and all typed builtin tables, Parser.parse with the concrete oracle returns a program or a non-empty
   list of error positions (never a panic site, never out of fuel) ... *)
Theorem C05_typed_parse_total : forall Bs globals bsigs raw eof,
  (exists prog, typed_parse Bs globals bsigs raw eof = Accept prog) \/
  (exists e es, typed_parse Bs globals bsigs raw eof = Reject (e :: es)).
Proof. exact typed_parse_total. Qed.
Print Assumptions C05_typed_parse_total.

(* ... every reported position (typing errors included) is the position of a token of the input, except
   the wrong-argument-count marker (0, 0) ... *)
Theorem C05_typed_errors_located : forall Bs globals bsigs raw eof es,
  typed_parse Bs globals bsigs raw eof = Reject es -> forall p, In p es -> In p (eof :: map snd raw) \/ p = (0, 0).
Proof. exact typed_parse_errors_located. Qed.
Print Assumptions C05_typed_errors_located.

(* ... and an accepted program satisfies the structural rules of C05_parse_accept_structure *)
Theorem C05_typed_accept_structure : forall Bs globals bsigs raw eof p,
  typed_parse Bs globals bsigs raw eof = Accept p -> structure_ok p = true.
Proof. exact typed_accept_structure. Qed.
Print Assumptions C05_typed_accept_structure.

(* the answer compared with parser.Parse by the harness IS the verdict of that run: an `accept` answer is an
   accepting run, a `reject` answer lists as many errors as the run reports positions (the answer only adds,
   per error, whether it is a located error or an assertArgTypes marker) *)
Theorem C05_typed_answer_accept : forall Bs globals bsigs raw eof,
  typed_answer Bs globals bsigs raw eof = A_accept -> exists p, typed_parse Bs globals bsigs raw eof = Accept p.
Proof. exact typed_answer_accept. Qed.
Print Assumptions C05_typed_answer_accept.

Theorem C05_typed_answer_reject : forall Bs globals bsigs raw eof es,
  typed_answer Bs globals bsigs raw eof = A_reject es ->
  exists ps, typed_parse Bs globals bsigs raw eof = Reject ps /\ List.length ps = List.length es.
Proof. exact typed_answer_reject. Qed.
Print Assumptions C05_typed_answer_reject.

(* (b) Soundness of the concrete oracle w.r.t. Types.v / TypesSpec.v.
   The typing function of the oracle is the implementation model of C04: on every tree that stands for an
   expression of TypesSyntax (erase_tree: variables and calls replaced by their source types; defined
   whenever these types are images of source types) tc_tree IS Types.tc — the function C04 compares with
   the exported Go functions and proves against TypesSpec. *)
Theorem C05_typed_tc_is_types_tc : forall G t e, erase_tree G t = Some e -> tc_tree G t = Types.tc e.
Proof. exact tc_tree_erase. Qed.
Print Assumptions C05_typed_tc_is_types_tc.

(* operator tables.  Where the oracle does not object at a binary node, both operands have types, the
   operator table of Types.v (validate_binary) accepts them, and for spec-level operand types the
   operands are related by the specification's table TypesSpec.OpType; the node exists (parseBinaryExpr
   does not return nil). *)
Theorem C05_typed_binary_sound : forall G rho op l r,
  oracle3 G rho TS_binary (TBin op l r) = Some false ->
  exists o lt rt, binop_of op = Some o /\ ty_of G l = Some lt /\ ty_of G r = Some rt /\
    Types.validate_binary o lt rt = true /\
    (TypesProofs.spec_ty lt = true -> TypesProofs.spec_ty rt = true ->
       exists res, TypesSpec.OpType o (TypesProofs.erase lt) (TypesProofs.erase rt) res).
Proof. exact oracle_binary_sound. Qed.
Print Assumptions C05_typed_binary_sound.

(* ... and conversely the oracle's answer at a binary node is exactly the negation of validate_binary *)
Theorem C05_typed_binary_complete : forall G rho op l r o lt rt,
  binop_of op = Some o -> ty_of G l = Some lt -> ty_of G r = Some rt ->
  oracle3 G rho TS_binary (TBin op l r) = Some (negb (Types.validate_binary o lt rt)).
Proof. exact oracle_binary_complete. Qed.
Print Assumptions C05_typed_binary_complete.

Theorem C05_typed_binary_node : forall G rho op l r,
  oracle3 G rho TS_binary (TBin op l r) = Some false -> exists n e, tc_tree G (TBin op l r) = Types.ONode n e.
Proof. exact oracle_binary_node. Qed.
Print Assumptions C05_typed_binary_node.

Theorem C05_typed_unary_sound : forall G rho op r,
  oracle3 G rho TS_unary (TUn op r) = Some false ->
  exists o rt, unop_of op = Some o /\ ty_of G r = Some rt /\ Types.validate_unary o rt = true /\
    (TypesProofs.spec_ty rt = true -> TypesSpec.UnOpType o (TypesProofs.erase rt) (TypesProofs.erase rt)).
Proof. exact oracle_unary_sound. Qed.
Print Assumptions C05_typed_unary_sound.

(* The typed run, one simple statement (declaration, assignment, call statement, return, break, empty line):
   if it is parsed without error from a state with a non-empty scope chain and an empty read log, then the
   statement satisfies the static rules of C05_scope_accept_static (stmt_sok) W.R.T. THE CONCRETE ORACLE closed
   over the typing environment [ti] of that point of the program: every call names a function with a
   matching argument count, and the concrete type checker was silent at every typing site of every
   expression of the statement and at its statement-level site.
   _partial: one statement of the typed run; compound statements (for / while / if / func / on) are
   re-stated in ParserTyped.v to thread the typing environment and have no such theorem — that they and
   Parser.v agree is checked per input (typed_answer answers `unsupported` otherwise), not proved.  The full
   statement would be: typed_parse ... = Accept p -> every node of p is well typed in its environment. *)
Theorem C05_typed_simple_stmt_sound_partial : forall Bs dflt sigs tps fuel s ti st ti' s',
  tparse_statement_body Bs dflt sigs tps fuel s ti = Ok (Some st, ti') s' ->
  ct s <> T_FOR -> ct s <> T_WHILE -> ct s <> T_IF ->
  serrs s' = [] -> scs s <> [] -> sused s = [] ->
  stmt_sok (BT Bs dflt sigs ti) (fns s) st.
Proof. exact typed_simple_stmt_sound. Qed.
Print Assumptions C05_typed_simple_stmt_sound_partial.

(* ... and silence of the concrete oracle (undefined counted as an objection) at a binary node means the
   judgement of Types.v *)
Theorem C05_typed_silent_binary : forall Bs sigs ti op l r,
  silent (BT Bs true sigs ti) TS_binary (TBin op l r) ->
  exists o lt rt, binop_of op = Some o /\ ty_of (env_of_ti sigs ti) l = Some lt /\ ty_of (env_of_ti sigs ti) r = Some rt /\
    Types.validate_binary o lt rt = true.
Proof. exact typed_silent_binary. Qed.
Print Assumptions C05_typed_silent_binary.

(* ---------- non-vacuity: concrete runs ---------- *)
Definition tk (t : toktype) (s : string) (l c : nat) : token * position := ({| ttype := t; tlit := s_ s |}, (l, c)).
Definition Bs0 : benv :=
  {| b_funcs := [(s_ "print", false); (s_ "len", false)]; b_arity := [(s_ "print", None); (s_ "len", Some 1)]; b_globals := [s_ "err"];
     b_events := [(s_ "key", [TyStr])]; b_tyerr := fun _ _ _ => false |}.
Definition globals0 : list (str * vty) := [(s_ "err", Types.TBool)].
Definition bsigs0 : list (str * fsig) :=
  [(s_ "print", {| fs_params := []; fs_variadic := Some Types.TAny; fs_ret := Types.TNone |});
   (s_ "len", {| fs_params := [Types.TAny]; fs_variadic := None; fs_ret := Types.TNum |})].

(* x := 1 NL print x + 2 NL  is accepted *)
Example C05_typed_ex_accept :
  typed_answer Bs0 globals0 bsigs0
    [tk T_IDENT "x" 1 1; tk T_WS "" 1 2; tk T_DECLARE "" 1 3; tk T_WS "" 1 5; tk T_NUM_LIT "1" 1 6; tk T_NL "" 1 7;
     tk T_IDENT "print" 2 1; tk T_WS "" 2 6; tk T_IDENT "x" 2 7; tk T_PLUS "" 2 8; tk T_NUM_LIT "2" 2 9; tk T_NL "" 2 10] (3, 1)
  = A_accept.
Proof. vm_compute. reflexivity. Qed.

(* x := 1 NL print x+"a" NL : mismatched operand types, found by the Gallina checker, reported at the operator;
   x := 1 NL x = "a" NL print x NL : "x" accepts values of type num, reported at the assignment target *)
Example C05_typed_ex_type_errors :
  typed_answer Bs0 globals0 bsigs0
    [tk T_IDENT "x" 1 1; tk T_WS "" 1 2; tk T_DECLARE "" 1 3; tk T_WS "" 1 5; tk T_NUM_LIT "1" 1 6; tk T_NL "" 1 7;
     tk T_IDENT "print" 2 1; tk T_WS "" 2 6; tk T_IDENT "x" 2 7; tk T_PLUS "" 2 8; tk T_STRING_LIT "a" 2 9; tk T_NL "" 2 12] (3, 1)
  = A_reject [L_at (2, 8)] /\
  typed_answer Bs0 globals0 bsigs0
    [tk T_IDENT "x" 1 1; tk T_WS "" 1 2; tk T_DECLARE "" 1 3; tk T_WS "" 1 5; tk T_NUM_LIT "1" 1 6; tk T_NL "" 1 7;
     tk T_IDENT "x" 2 1; tk T_WS "" 2 2; tk T_ASSIGN "" 2 3; tk T_WS "" 2 4; tk T_STRING_LIT "a" 2 5; tk T_NL "" 2 8;
     tk T_IDENT "print" 3 1; tk T_WS "" 3 6; tk T_IDENT "x" 3 7; tk T_NL "" 3 8] (4, 1)
  = A_reject [L_at (2, 1)].
Proof. vm_compute. split; reflexivity. Qed.

(* the scope chain is consulted: the inner x is a string, the outer one a num.
   x := 1 NL if true NL x := "a" NL print x+1 NL end NL print x+1 NL : one error, in the block *)
Example C05_typed_ex_scopes :
  typed_answer Bs0 globals0 bsigs0
    [tk T_IDENT "x" 1 1; tk T_WS "" 1 2; tk T_DECLARE "" 1 3; tk T_WS "" 1 5; tk T_NUM_LIT "1" 1 6; tk T_NL "" 1 7;
     tk T_IF "" 2 1; tk T_WS "" 2 3; tk T_TRUE "" 2 4; tk T_NL "" 2 8;
     tk T_IDENT "x" 3 1; tk T_WS "" 3 2; tk T_DECLARE "" 3 3; tk T_WS "" 3 5; tk T_STRING_LIT "a" 3 6; tk T_NL "" 3 9;
     tk T_IDENT "print" 4 1; tk T_WS "" 4 6; tk T_IDENT "x" 4 7; tk T_PLUS "" 4 8; tk T_NUM_LIT "1" 4 9; tk T_NL "" 4 10;
     tk T_END "" 5 1; tk T_NL "" 5 4;
     tk T_IDENT "print" 6 1; tk T_WS "" 6 6; tk T_IDENT "x" 6 7; tk T_PLUS "" 6 8; tk T_NUM_LIT "1" 6 9; tk T_NL "" 6 10] (7, 1)
  = A_reject [L_at (4, 8)].
Proof. vm_compute. reflexivity. Qed.

(* the hypotheses of the soundness theorems are satisfiable *)
Definition G0 : tenv := {| te_vars := [[(s_ "x", Types.TNum); (s_ "a", Types.TArr true Types.TNum)]]; te_sigs := bsigs0 |}.

Example C05_typed_ex_erase :
  erase_tree G0 (TBin T_PLUS (TIndex (TVar (s_ "a")) (TVar (s_ "x"))) (TCall (s_ "len") [TStr (s_ "s")]))
  = Some (TypesSyntax.EBin TypesSyntax.OpPlus
            (TypesSyntax.EIndex (TypesSyntax.EVar (TypesSyntax.SArr TypesSyntax.SNum)) (TypesSyntax.EVar TypesSyntax.SNum))
            (TypesSyntax.ECall TypesSyntax.SNum)).
Proof. vm_compute. reflexivity. Qed.

Example C05_typed_ex_oracle :
  oracle3 G0 None TS_binary (TBin T_PLUS (TVar (s_ "x")) (TNum (s_ "1"))) = Some false /\
  oracle3 G0 None TS_binary (TBin T_PLUS (TVar (s_ "x")) (TStr (s_ "1"))) = Some true /\
  oracle3 G0 None TS_binary (TBin T_PLUS (TVar (s_ "a")) (TArr [])) = Some false /\
  oracle3 G0 None TS_unary (TUn T_MINUS (TVar (s_ "x"))) = Some false /\
  oracle3 G0 None TS_unary (TUn T_BANG (TVar (s_ "x"))) = Some true /\
  oracle3 G0 None TS_binary (TBin T_PLUS (TVar (s_ "nosuch")) (TNum (s_ "1"))) = None.
Proof. vm_compute. repeat split; reflexivity. Qed.

(* a simple statement of the typed run that meets the hypotheses of C05_typed_simple_stmt_sound_partial:  y := x + 1 NL  *)
Example C05_typed_ex_simple_stmt :
  let s := {| cs := state_at tEOF [fst (tk T_IDENT "y" 1 1); fst (tk T_WS "" 1 2); fst (tk T_DECLARE "" 1 3); fst (tk T_WS "" 1 5);
                                   fst (tk T_IDENT "x" 1 6); fst (tk T_PLUS "" 1 7); fst (tk T_NUM_LIT "1" 1 8); fst (tk T_NL "" 1 9)] [];
              scs := [{| sc_vars := [{| v_name := s_ "x"; v_used := false; v_pos := 20 |}]; sc_ret := false; sc_retval := false; sc_loop := false |}];
              fns := []; bodies := []; hds := [] |} in
  let ti := {| ti_vars := [[(s_ "x", Types.TNum)]]; ti_ret := None; ti_step := [] |} in
  match tparse_statement_body Bs0 true bsigs0 (fun _ _ => Oof) 5 s ti with
  | Ok (Some (SInferredDecl _ _), ti') s' =>
      serrs s' = [] /\ sused s = [] /\ ct s <> T_FOR /\ tlookup (s_ "y") (ti_vars ti') = Some Types.TNum
  | _ => False
  end.
Proof. vm_compute. repeat split; try reflexivity; discriminate. Qed.
