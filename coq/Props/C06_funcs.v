(* C06, round trip of `func` declarations and `on` handlers at parseProgram's loop (FormatParseFuncProofs.v), against
   Parser.parse_func / parse_event_handler / program_loop = parser.go parseFunc, parseEventHandler,
   parseProgram.  Property theorems only.

   The tree of the re-parse is [prog_trees nl 0 false p], nl = nlAfter of p: p's own statement trees
   (stmt_tree, comments dropped, positions dropped), runs of blank statements squeezed into one empty
   statement as the formatter squeezes them, and ONE EMPTY STATEMENT after every index of nlAfter - the
   blank line formatProgram inserts between a func / on declaration and a directly adjacent statement
   or declaration (where the source already has a blank line nlAfter has no index:
   C07_blank_line_logic_idempotent).

   Hypotheses of the func theorems, all boolean / checkable on the exported tree and all guaranteed by
   an ACCEPTED first parse:
     ident_text n, param_okb, rt_okb   names lex as identifiers, parameter / return types are printable
                                       (parseFuncDefSignature reports anything else);
     sig_ok n rt ps v fi               the entry of p.funcs for n (written by the signature pre-pass for
                                       THIS declaration) has the declaration's return flag and parameter names;
     mem_str n bd = false              no earlier func of the program has this name (parseFunc: "redeclaration");
     declare_all ... = Some G1         the parameters are distinct and are not builtin / function names
                                       (addParamsToScope -> validateVarDecl);
     boks (fn_fr ret) G1 body          the body is in the statement fragment of C06_block.v, in a scope
                                       that allows return (with a value iff ret);
     ret -> the body always terminates (parseFunc: "missing return");
     scope_stmt ... = Some G'          the declarative scope checker passes the declaration (every
                                       parameter and local is used), C05_scope_accept_scoped. *)
From Coq Require Import List String NArith ZArith Bool Arith.
From EvyV Require Import Base FmtAst Format Pratt Parser ParserRules ParserScope ParserCursor FormatParse FormatParseListProofs
  FormatParseStmtProofs FormatParseBlockProofs FormatParseFuncProofs.
From EvyV.Gen Require Import Prec.
Import ListNotations.
Local Open Scope nat_scope.

(* parseStatement and everything below it never touches the set of defined function bodies nor the set
   of registered event handlers: they change at top level only *)
Theorem C06_statements_keep_func_and_handler_tables :
  forall (B : benv) (fuel : nat) (s : pst) (r : option stmt) (s' : pst),
  parse_statement B fuel s = Ok r s' -> bodies s' = bodies s /\ hds s' = hds s.
Proof. exact stmt_keeps_tables. Qed.
Print Assumptions C06_statements_keep_func_and_handler_tables.

(* one func declaration at top level: name, optional return type, parameters, optional variadic parameter, body *)
Theorem C06_roundtrip_func_decl_partial :
  forall (B : benv), (forall s t n, b_tyerr B s t n = false) ->
  forall (fx : fixes) (F : list (str * finfo)) (f : nat) (s : pst) (n : str) (rt : option fty) (ps : list (str * fty))
         (v : option (str * fty)) (body : list fstmt) (r : list token) (G : ctx) (fi : finfo) (G1 : ctx),
  ident_text n = true -> opt_okb rt_okb rt = true -> forallb param_okb ps = true -> opt_okb param_okb v = true ->
  sig_ok F n rt ps v fi -> mem_str n (bodies s) = false ->
  declare_all (tabs_of B F) (map fst (fi_params fi)) ([] :: G) = Some G1 ->
  boks B F (fn_fr (fi_ret fi)) G1 false false body -> body_trees false body <> [] ->
  (fi_ret fi = true -> existsb always_terms (body_trees false body) = true) ->
  S (szb false body) <= f ->
  ST F s (toks_of_pieces (fmt_stmt fx 0 (FmtAst.SFunc n rt ps v [] body [])) ++ mk T_NL :: r) G top_fr ->
  is_ws (look0 (skip1 r)) = false ->
  exists s', parse_func B f s = Ok (Some (stmt_tree (FmtAst.SFunc n rt ps v [] body []))) s' /\
             at_toks s' (skip1 r) [] /\ peek_ok s' (skip1 r) /\ kb s' = (n :: bodies s, hds s).
Proof. exact func_rt. Qed.
Print Assumptions C06_roundtrip_func_decl_partial.

(* one event handler at top level: on name [param:type ...], body.  Hypotheses (all reported as errors by
   parseEventHandler / addEventParamsToScope otherwise): the event exists, no handler for it yet, the
   parameters are none or exactly the event's, with the event's types *)
Theorem C06_roundtrip_on_handler_partial :
  forall (B : benv), (forall s t n, b_tyerr B s t n = false) ->
  forall (fx : fixes) (F : list (str * finfo)) (f : nat) (s : pst) (n : str) (ps : list (str * fty))
         (body : list fstmt) (r : list token) (G : ctx) (ex : list ty) (G1 : ctx),
  ident_text n = true -> forallb param_okb ps = true ->
  lookup_ev n (b_events B) = Some ex -> (ps = [] \/ map param_ty ps = map Some ex) -> mem_str n (hds s) = false ->
  declare_all (tabs_of B F) (map fst ps) ([] :: G) = Some G1 ->
  boks B F hd_fr G1 false false body -> body_trees false body <> [] ->
  S (szb false body) <= f ->
  ST F s (toks_of_pieces (fmt_stmt fx 0 (FmtAst.SOn n ps [] body [])) ++ mk T_NL :: r) G top_fr ->
  is_ws (look0 (skip1 r)) = false ->
  exists s', parse_event_handler B f s = Ok (Some (stmt_tree (FmtAst.SOn n ps [] body []))) s' /\
             at_toks s' (skip1 r) [] /\ peek_ok s' (skip1 r) /\ kb s' = (bodies s, n :: hds s).
Proof. exact on_rt. Qed.
Print Assumptions C06_roundtrip_on_handler_partial.

(* where the formatter inserts no blank line (nlAfter empty: an already formatted program,
   C07_blank_line_logic_stable) the tree is the squeezed tree of C06_program.v *)
Theorem C06_no_blank_line_inserted_same_tree :
  forall (l : list fstmt) (i : nat) (e : bool), prog_trees [] i e l = body_trees e l.
Proof. exact prog_trees_plain. Qed.
Print Assumptions C06_no_blank_line_inserted_same_tree.

(* parseProgram's loop over a program of statements, func declarations and event handlers - every
   statement form, comment-free - for ANY function table F
   (the table is fixed before the loop starts) and any set nl of indices after which the formatter
   writes a blank line *)
Theorem C06_roundtrip_program_loop_funcs_partial :
  forall (B : benv), (forall s t n, b_tyerr B s t n = false) ->
  forall (fx : fixes) (F : list (str * finfo)) (nl : list nat) (i : nat) (bd hs : list str) (G : ctx) (e : bool)
         (body : list fstmt) (Gout : ctx),
  fpoks B F nl i bd hs G e body Gout ->
  forall (fuel : nat) (acc : list stmt) (s : pst),
  psz nl i e body < fuel -> ST F s (ptoks fx nl i e body) G top_fr -> kb s = (bd, hs) ->
  exists s', program_loop B fuel acc false s = Ok (rev acc ++ prog_trees nl i e body) s' /\ ST F s' [] Gout top_fr.
Proof. exact program_loop_funcs. Qed.
Print Assumptions C06_roundtrip_program_loop_funcs_partial.

(* non-vacuity: the model runs on a program with a typed func with parameters, a variadic procedure with a
   bare return, an event handler with parameters and one without.
       x := 1
       func add:num a:num b:num
           return a + b
       end
       func say words:string...
           if x == 1
               return
           end
           print words
       end
       on down x:num y:num
           print x y
       end
       on up
           say "a"
       end
       print (add x 2)                                                                       *)
Definition C06_funcs_B : benv :=
  {| b_funcs := [(s_ "print"%string, false)]; b_arity := []; b_globals := [];
     b_events := [(s_ "down"%string, [TyNum; TyNum]); (s_ "up"%string, [])]; b_tyerr := fun _ _ _ => false |}.
Definition C06_funcs_prog : list fstmt :=
  let v := fun n : string => FVar (s_ n) in
  let num := fun n : string => FNum 0%Z (s_ n) in
  let tnum := FTy TNnum None in
  [FmtAst.SInferredDecl (s_ "x"%string) (num "1"%string) [];
   FmtAst.SFunc (s_ "add"%string) (Some tnum) [(s_ "a"%string, tnum); (s_ "b"%string, tnum)] None []
     [FmtAst.SReturn (Some (FBin OpPlus false (v "a"%string) (v "b"%string))) []] [];
   FmtAst.SFunc (s_ "say"%string) None [] (Some (s_ "words"%string, FTy TNstring None)) []
     [FmtAst.SIf (CBlock (FBin OpEq false (v "x"%string) (num "1"%string)) [] [FmtAst.SReturn None []]) [] None [];
      FmtAst.SCall (s_ "print"%string) [v "words"%string] []] [];
   FmtAst.SOn (s_ "down"%string) [(s_ "x"%string, tnum); (s_ "y"%string, tnum)] []
     [FmtAst.SCall (s_ "print"%string) [v "x"%string; v "y"%string] []] [];
   FmtAst.SOn (s_ "up"%string) [] [] [FmtAst.SCall (s_ "say"%string) [FStr [] (s_ """a"""%string)] []] [];
   FmtAst.SCall (s_ "print"%string) [FGroup (FCall (s_ "add"%string) [v "x"%string; num "2"%string])] []].

Example C06_funcs_program_example :
  let p := C06_funcs_prog in
  let nl := nl_after (fix_nl current_fixes) (map stmt_kind p) in
  let toks := toks_of_pieces (fmt_prog current_fixes p) in
  nl = [0; 1; 2; 3; 4] /\
  parse C06_funcs_B (combine toks (map (fun _ => (0, 0)) toks)) (0, 0) = Accept (prog_trees nl 0 false p).
Proof. vm_compute. split; reflexivity. Qed.
