(* C09 (and the basis of C15_iso) — the evaluator is invariant under a renaming of heap
   locations and under garbage.  Property theorems only; proofs are [exact <lemma>] of
   SemIso / SemIsoApps.
   Vocabulary (SemIsoBase): [lmap] = loc -> option loc, a partial injection from the cells of
   the first state to those of the second; [ext f f'] = f' extends f; [iso f s1 s2] = both heaps
   are well formed, f is injective, f-related cells hold f-related values (num/string/bool equal,
   any/array/map componentwise), the global frames are related name by name, traces, input,
   test counters and stop flags are equal, the yield counters are equal unless no stop request
   can come; cells outside the domain / range of f are unconstrained (garbage).
   [sim f R m1 m2] = from f-isomorphic states, m1 and m2 end in f'-isomorphic states for some
   extension f' of f, with equal errors or R f'-related results. *)
From Coq Require Import ZArith NArith PArith List String Bool Floats FMapPositive Lia.
From EvyV Require Import Base Num Ast Omap Sem SemOrder SemStoreBase SemIsoBase SemIsoLib SemIso SemEvents SemIsoApps.
Import ListNotations.
Local Open Scope positive_scope.

Theorem C09_evaluator_iso : forall P n,
  (forall f e1 e2 x, envrel f e1 e2 -> sim f lrel (eval_expr n P e1 x) (eval_expr n P e2 x)) /\
  (forall f e1 e2 l, envrel f e1 e2 -> sim f lrels (eval_exprs n P e1 l) (eval_exprs n P e2 l)) /\
  (forall f e1 e2 nm args, envrel f e1 e2 ->
      sim f (optrel lrel) (eval_call n P e1 nm args) (eval_call n P e2 nm args)) /\
  (forall f e1 e2 st, envrel f e1 e2 -> sim f serel (exec_stmt n P e1 st) (exec_stmt n P e2 st)) /\
  (forall f e1 e2 l, envrel f e1 e2 -> sim f serel (exec_stmts n P e1 l) (exec_stmts n P e2 l)) /\
  (forall f e1 e2 l, envrel f e1 e2 -> sim f serel (exec_block n P e1 l) (exec_block n P e2 l)) /\
  (forall f e1 e2 c b, envrel f e1 e2 -> sim f oserel (exec_cond n P e1 c b) (exec_cond n P e2 c b)) /\
  (forall f e1 e2 c b, envrel f e1 e2 -> sim f serel (exec_while n P e1 c b) (exec_while n P e2 c b)) /\
  (forall f e1 e2 var r1 r2 b, envrel f e1 e2 -> rngrel f r1 r2 ->
      sim f serel (exec_for n P e1 var r1 b) (exec_for n P e2 var r2 b)).
Proof. exact evaluator_iso. Qed.
Print Assumptions C09_evaluator_iso.

(* every modelled built-in, one lemma over the whole [if name_is ...] chain *)
Theorem C09_builtin_iso : forall name f e1 e2 a1 a2,
  envrel f e1 e2 -> lrels f a1 a2 ->
  match builtin name e1 a1, builtin name e2 a2 with
  | Some m1, Some m2 => sim f (optrel lrel) m1 m2
  | None, None => True
  | _, _ => False
  end.
Proof. exact sim_builtin. Qed.
Print Assumptions C09_builtin_iso.

Theorem C09_run_program_iso : forall fuel P f s1 s2,
  iso f s1 s2 -> run_iso f (run_program fuel P s1) (run_program fuel P s2).
Proof. exact run_program_iso. Qed.
Print Assumptions C09_run_program_iso.

Theorem C09_handle_event_iso : forall fuel P name args f s1 s2,
  iso f s1 s2 -> run_iso f (handle_event fuel P name args s1) (handle_event fuel P name args s2).
Proof. exact handle_event_iso. Qed.
Print Assumptions C09_handle_event_iso.

(* the structural dump of the globals (values and sharing) does not see the renaming *)
Theorem C09_dump_globals_iso : forall f s1 s2, iso f s1 s2 -> dump_globals s1 = dump_globals s2.
Proof. exact dump_globals_iso. Qed.
Print Assumptions C09_dump_globals_iso.

Theorem C09_iso_same_observables : forall f s1 s2, iso f s1 s2 -> same_observables s1 s2.
Proof. exact iso_same_observables. Qed.
Print Assumptions C09_iso_same_observables.

(* two states that agree on a reference-closed set of cells containing the global roots are
   isomorphic by the partial identity on that set *)
Theorem C09_agree_iso : forall D s1 s2, agree D s1 s2 -> iso (pid D) s1 s2.
Proof. exact agree_iso. Qed.
Print Assumptions C09_agree_iso.

(* full non-interference of garbage: runs, events and statement lists from states that differ
   only outside such a set give the same outcome and the same observables *)
Theorem C09_garbage_noninterference_run : forall D fuel P s1 s2,
  agree D s1 s2 ->
  fst (run_program fuel P s1) = fst (run_program fuel P s2) /\
  same_observables (snd (run_program fuel P s1)) (snd (run_program fuel P s2)) /\
  exists f', ext (pid D) f' /\ iso f' (snd (run_program fuel P s1)) (snd (run_program fuel P s2)).
Proof. exact garbage_noninterference_run. Qed.
Print Assumptions C09_garbage_noninterference_run.

Theorem C09_garbage_noninterference_event : forall D fuel P name args s1 s2,
  agree D s1 s2 ->
  fst (handle_event fuel P name args s1) = fst (handle_event fuel P name args s2) /\
  same_observables (snd (handle_event fuel P name args s1)) (snd (handle_event fuel P name args s2)) /\
  exists f', ext (pid D) f' /\
             iso f' (snd (handle_event fuel P name args s1)) (snd (handle_event fuel P name args s2)).
Proof. exact garbage_noninterference_event. Qed.
Print Assumptions C09_garbage_noninterference_event.

Theorem C09_garbage_noninterference_stmts : forall D n P (e : env) l s1 s2,
  agree D s1 s2 -> Forall (Forall (fun nl => D (snd nl) = true)) e ->
  exists f', ext (pid D) f' /\
    iso f' (snd (exec_stmts n P e l s1)) (snd (exec_stmts n P e l s2)) /\
    rrel (serel f') (fst (exec_stmts n P e l s1)) (fst (exec_stmts n P e l s2)).
Proof. exact garbage_noninterference_stmts. Qed.
Print Assumptions C09_garbage_noninterference_stmts.

(* ---------- Examples ---------- *)
(* the initial state, and the initial state with two extra garbage cells (an array pointing at
   the err cell, and a number), agree on the three initial cells *)
Definition D3 (l : loc) : bool := Pos.ltb l 4.
Definition s_a : state := init_state None [] false false.
Definition s_b : state :=
  upd_heap (snd (halloc (snd (halloc (st_heap s_a) (HArr [1; 1]))) (HNum 7%float))) s_a.

Example ex_agree : agree D3 s_a s_b.
Proof.
  constructor; try reflexivity.
  - apply SemStore.wf_init.
  - unfold s_b, wf; fields. do 2 apply fresh_ok_halloc. apply SemStore.wf_init.
  - intros l Hl. unfold D3 in Hl. apply Pos.ltb_lt in Hl.
    assert (C : l = 1 \/ l = 2 \/ l = 3) by lia.
    destruct C as [-> | [-> | ->]]; eexists; (split; [vm_compute; reflexivity|]);
      (split; [vm_compute; reflexivity | constructor]).
  - repeat constructor.
Qed.

(* a program that allocates, aliases an array, mutates through the alias and prints: from the
   two states it ends with the same outcome and the same trace and dump, although every cell it
   allocates has a different address in the two runs *)
Definition prog_ni : program :=
  {| p_funcs := []; p_handlers := [];
     p_stmts := [ SDecl (s_ "a") (TArr TNum) (EArr (TArr TNum) [ENum 1%float; ENum 2%float]);
                  SDecl (s_ "b") (TArr TNum) (EVar (s_ "a") (TArr TNum));
                  SAssign (EIndex TNum (EVar (s_ "b") (TArr TNum)) (ENum 0%float)) (ENum 5%float);
                  SCallStmt (s_ "print") [EVar (s_ "a") (TArr TNum)] ] |}.
Example ex_noninterference :
  fst (run_program 50 prog_ni s_a) = ODone /\
  fst (run_program 50 prog_ni s_b) = ODone /\
  st_trace (snd (run_program 50 prog_ni s_a)) = st_trace (snd (run_program 50 prog_ni s_b)) /\
  dump_globals (snd (run_program 50 prog_ni s_a)) = dump_globals (snd (run_program 50 prog_ni s_b)) /\
  frame_get (s_ "a") (st_globals (snd (run_program 50 prog_ni s_a))) <>
  frame_get (s_ "a") (st_globals (snd (run_program 50 prog_ni s_b))).
Proof. vm_compute. repeat split; auto. discriminate. Qed.
