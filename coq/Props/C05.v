(* C05 — Invalid programs are rejected and nothing of them runs.
   Property theorems only; every proof is [exact <lemma of RunModelProofs>].

   This file holds the part of C05 that is a property of Evaluator.Run and of
   `evy run` (RunModel.v: parse, then evaluate only if parsing succeeded; the
   CLI reports any non-exit error on stderr with status 1), for EVERY parser,
   evaluator, source text and error list (section variables: no assumption is
   made about them).  It is small on purpose.

   The other half of C05 — "a program that breaks a static rule is rejected by
   parser.Parse with located errors" — is a property of the parser (parser.go,
   scope.go, expression.go).  There is no Coq model of the parser in this
   round (route A, DESIGN 5.0/6-C05: accept_implies_static_ok is staged); it is
   decided on the implementation by harness/c05.go: one rule-breaking edit per
   static rule at applicable positions of accepted programs, with the three
   oracles (Parse rejects with located errors; a recording Platform sees zero
   calls from Evaluator.Run; the `evy run` binary prints nothing on stdout,
   something on stderr, exits non-zero).  (Stray text after `end` was accepted until
   /repo 47e7cf4; the harness reports key end-garbage-accepted should it return.) *)
From Coq Require Import List ZArith.
From EvyV Require Import RunModel RunModelProofs.
Import ListNotations.

Theorem C05_rejected_runs_nothing :
  forall (Src Prog PErr Eff : Type) (parse : Src -> Prog + list PErr)
         (eval : Prog -> list Eff * eval_err) (s : Src) (errs : list PErr),
  parse s = inr errs ->
  evaluator_run parse eval s = ([], RParse errs).
Proof. exact rejected_runs_nothing_lib. Qed.
Print Assumptions C05_rejected_runs_nothing.

Theorem C05_rejected_never_reaches_the_evaluator :
  forall (Src Prog PErr Eff : Type) (parse : Src -> Prog + list PErr)
         (eval1 eval2 : Prog -> list Eff * eval_err) (s : Src) (errs : list PErr),
  parse s = inr errs ->
  evaluator_run parse eval1 s = evaluator_run parse eval2 s.
Proof. exact rejected_never_evaluates. Qed.
Print Assumptions C05_rejected_never_reaches_the_evaluator.

Theorem C05_rejected_cli_reports_and_fails :
  forall (Src Prog PErr Eff : Type) (parse : Src -> Prog + list PErr)
         (eval : Prog -> list Eff * eval_err) (s : Src) (errs : list PErr),
  parse s = inr errs ->
  let o := cli_run parse eval s in
  platform_calls o = [] /\ stderr_message o = true /\ exit_status o = 1%Z.
Proof. exact rejected_runs_nothing_cli. Qed.
Print Assumptions C05_rejected_cli_reports_and_fails.

Theorem C05_accepted_is_evaluated :
  forall (Src Prog PErr Eff : Type) (parse : Src -> Prog + list PErr)
         (eval : Prog -> list Eff * eval_err) (s : Src) (p : Prog),
  parse s = inl p ->
  fst (evaluator_run parse eval s) = fst (eval p).
Proof. exact accepted_is_evaluated. Qed.
Print Assumptions C05_accepted_is_evaluated.

(* ---------- non-vacuity: a parser that rejects odd numbers, an evaluator that prints ---------- *)
Example C05_example :
  let parse := fun n : nat => if Nat.even n then inl n else inr [n] in
  let eval := fun n : nat => ([n; n], EvOk) in
  evaluator_run parse eval 3 = ([], RParse [3]) /\
  evaluator_run parse eval 4 = ([4; 4], REval EvOk) /\
  exit_status (cli_run parse eval 3) = 1%Z /\ exit_status (cli_run parse eval 4) = 0%Z.
Proof. vm_compute. repeat split; reflexivity. Qed.
