(* C11 — Index and slice laws for arrays and strings.
   Property theorems only; every proof is [exact <lemma of IndexProofs>].

   Vocabulary.  [float_to_Z f = Some i] (Base.v) says: the binary64 number f
   is finite and denotes the integer i (decoded from Prim2SF; -0 denotes 0).
   It is [None] for NaN, ±Inf and every non-integer.  This is a total case
   split over all floats.  [zlen s] is the length of s as a Z; the hypothesis
   [zlen s < 2^63] is Go's invariant len(s) <= maxInt.
   The model (Index.v) computes  i := int(f); f != float64(i)  with Go's
   amd64 conversion written out; [rt f] is the statement that this round trip
   accepts exactly the integers that fit in int64 ([C11_roundtrip], proved for
   every float below). *)
From Coq Require Import ZArith List.
From Coq Require Floats.
Notation float := PrimFloat.float.
From EvyV Require Import Base Index IndexProofs.
Import ListNotations.
Open Scope Z_scope.

(* ---- the conversion link, for EVERY float ----
   Go's test  index.V == float64(int(index.V))  (amd64 conversion written out
   in Index.go_int / go_float64) succeeds exactly when f denotes an integer
   that fits in int64, and then int(f) is that integer. *)
Theorem C11_roundtrip_exact : forall f : float,
  go_index_int f = float_int f.
Proof. exact rt_all. Qed.
Print Assumptions C11_roundtrip_exact.

(* ---- s[i] ---- *)
(* success iff i is an integer with -n <= i < n; the result is element i mod n,
   i.e. negative indices count from the end *)
Theorem C11_index_spec : forall (A : Type) (s : list A) (f : float) (x : A),
  zlen s < 2 ^ 63 ->
  (arr_index s f = Ok x <->
   exists i, float_to_Z f = Some i /\ - zlen s <= i < zlen s /\
             nth_error s (Z.to_nat (i mod zlen s)) = Some x).
Proof. exact (fun A s f x H => index_spec s f H (rt_all f) x). Qed.
Print Assumptions C11_index_spec.

(* every other read is an evy panic of the documented kind: IndexValue iff f is
   not an integer Go's int can hold, Bounds iff it is such an integer outside
   [-n, n) — and never the Slice kind or a host crash *)
Theorem C11_index_error_kind : forall (A : Type) (s : list A) (f : float) (e : perr),
  arr_index s f = Panic e <->
  (e = EIndexValue /\ float_int f = None) \/
  (e = EBounds /\ exists i, float_int f = Some i /\ ~ (- zlen s <= i < zlen s)).
Proof. exact (fun A s f e => index_panic s f (rt_all f) e). Qed.
Print Assumptions C11_index_error_kind.

Theorem C11_float_int_none : forall f : float,
  float_int f = None <->
  float_to_Z f = None \/ exists i, float_to_Z f = Some i /\ ~ (- 2 ^ 63 <= i < 2 ^ 63).
Proof. exact float_int_none. Qed.
Print Assumptions C11_float_int_none.

(* documented behaviour, not hidden: integers beyond the int64 range are
   reported as IndexValue ("not an integer"), not as Bounds *)
Theorem C11_index_kind_huge : forall (A : Type) (s : list A) (f : float) (i : Z),
  zlen s < 2 ^ 63 -> float_to_Z f = Some i -> ~ (- 2 ^ 63 <= i < 2 ^ 63) ->
  arr_index s f = Panic EIndexValue.
Proof. exact @index_kind_huge. Qed.
Print Assumptions C11_index_kind_huge.

Theorem C11_index_no_hostcrash : forall (A : Type) (s : list A) (f : float),
  arr_index s f <> HostCrash.
Proof. exact (fun A s f => index_no_crash s f (rt_all f)). Qed.
Print Assumptions C11_index_no_hostcrash.

(* ---- a[i] = v ---- *)
(* success iff the same condition; then exactly position i mod n changes *)
Theorem C11_set_index_spec : forall (A : Type) (s : list A) (f : float) (v : A) (s' : list A),
  zlen s < 2 ^ 63 ->
  (arr_set_index s f v = Ok s' <->
   exists i, float_to_Z f = Some i /\ - zlen s <= i < zlen s /\
             List.length s' = List.length s /\
             nth_error s' (Z.to_nat (i mod zlen s)) = Some v /\
             (forall k, k <> Z.to_nat (i mod zlen s) -> nth_error s' k = nth_error s k)).
Proof. exact (fun A s f v s' H => set_index_spec s f H (rt_all f) v s'). Qed.
Print Assumptions C11_set_index_spec.

(* same domain and same error kind as the read; a failing store returns no
   array (SetIndex returns before writing), so nothing has been written *)
Theorem C11_set_index_same_domain : forall (A : Type) (s : list A) (f : float) (v : A),
  ((exists s', arr_set_index s f v = Ok s') <-> (exists x, arr_index s f = Ok x)) /\
  (forall e, arr_set_index s f v = Panic e <-> arr_index s f = Panic e) /\
  arr_set_index s f v <> HostCrash.
Proof.
  exact (fun A s f v => conj (set_index_ok_iff s f (rt_all f) v)
                        (conj (set_index_panic s f (rt_all f) v) (set_index_no_crash s f (rt_all f) v))).
Qed.
Print Assumptions C11_set_index_same_domain.

(* ---- s[a:b] ---- *)
(* success iff, after adding n to negative bounds (a missing bound being 0 / n),
   0 <= a <= b <= n; the result is copyOrRef of exactly the elements a .. b-1 *)
Theorem C11_slice_spec : forall (A : Type) (copy : A -> A) (s : list A) (st en : option float) (r : list A),
  zlen s < 2 ^ 63 ->
  (arr_slice copy s st en = Ok r <->
   exists a b, bound_ok (zlen s) st 0 a /\ bound_ok (zlen s) en (zlen s) b /\ a <= b /\
               r = map copy (sub s a b)).
Proof. exact (fun A copy s st en r H => slice_spec copy s st en H (ort_all st) (ort_all en) r). Qed.
Print Assumptions C11_slice_spec.

Theorem C11_bound_ok_range : forall n o dflt v, 0 <= dflt <= n -> bound_ok n o dflt v -> 0 <= v <= n.
Proof. exact bound_ok_range. Qed.
Print Assumptions C11_bound_ok_range.

(* [sub s a b] has b - a elements and element k is element a + k of s *)
Theorem C11_slice_elements : forall (A : Type) (s : list A) (a b : Z),
  0 <= a <= b -> b <= zlen s ->
  List.length (sub s a b) = Z.to_nat (b - a) /\
  forall k, (k < Z.to_nat (b - a))%nat -> nth_error (sub s a b) k = nth_error s (Z.to_nat a + k).
Proof. exact @slice_elements. Qed.
Print Assumptions C11_slice_elements.

(* error kinds of a slice, in evaluation order: the start bound's own error,
   else the end bound's, else Slice iff the normalised bounds cross *)
Theorem C11_slice_error_kind : forall (A : Type) (copy : A -> A) (s : list A) (st en : option float) (e : perr),
  zlen s < 2 ^ 63 ->
  (arr_slice copy s st en = Panic e <->
   bound_ref (zlen s) st 0 = Panic e \/
   (exists a, bound_ref (zlen s) st 0 = Ok a /\ bound_ref (zlen s) en (zlen s) = Panic e) \/
   (e = ESlice /\ exists a b, bound_ok (zlen s) st 0 a /\ bound_ok (zlen s) en (zlen s) b /\ b < a)).
Proof. exact (fun A copy s st en e H => slice_panic copy s st en H (ort_all st) (ort_all en) e). Qed.
Print Assumptions C11_slice_error_kind.

(* a single bound's error: IndexValue iff not an int64 integer, Bounds iff outside [-n, n] *)
Theorem C11_bound_error_kind : forall n limit f e,
  idx_ref n limit f = Panic e <->
  (e = EIndexValue /\ float_int f = None) \/
  (e = EBounds /\ exists i, float_int f = Some i /\ ~ (- n <= i <= limit)).
Proof. exact idx_ref_panic. Qed.
Print Assumptions C11_bound_error_kind.

Theorem C11_slice_no_hostcrash : forall (A : Type) (copy : A -> A) (s : list A) (st en : option float),
  zlen s < 2 ^ 63 -> arr_slice copy s st en <> HostCrash.
Proof. exact (fun A copy s st en H => slice_no_crash copy s st en H (ort_all st) (ort_all en)). Qed.
Print Assumptions C11_slice_no_hostcrash.

(* ---- strings: the same laws on code points ---- *)
Theorem C11_str_index_spec : forall (s : str) (f : float) (r : str),
  zlen s < 2 ^ 63 ->
  (str_index s f = Ok r <->
   exists i c, float_to_Z f = Some i /\ - zlen s <= i < zlen s /\
               nth_error s (Z.to_nat (i mod zlen s)) = Some c /\ r = [c]).
Proof. exact str_index_spec. Qed.
Print Assumptions C11_str_index_spec.

Theorem C11_str_index_errors : forall (s : str) (f : float),
  zlen s < 2 ^ 63 ->
  (forall e, str_index s f = Panic e <-> arr_index s f = Panic e) /\ str_index s f <> HostCrash.
Proof. exact (fun s f H => conj (str_index_panic s f) (str_index_no_crash s f H)). Qed.
Print Assumptions C11_str_index_errors.

Theorem C11_str_slice_is_slice : forall (s : str) (st en : option float),
  zlen s < 2 ^ 63 -> str_slice s st en = arr_slice (fun c => c) s st en.
Proof. exact (fun s st en H => str_slice_arr s H st en (ort_all st) (ort_all en)). Qed.
Print Assumptions C11_str_slice_is_slice.

(* ---- freshness ---- *)
(* the slice is a new array object; every existing object is unchanged *)
Theorem C11_slice_fresh : forall h a st en h' b,
  h_slice h a st en = Ok (h', b) ->
  b = List.length h /\ h_get h b = None /\
  (forall a', (a' < List.length h)%nat -> h_get h' a' = h_get h a') /\
  exists s r, h_get h a = Some s /\ arr_slice copy_or_ref s st en = Ok r /\ h_get h' b = Some r.
Proof. exact h_slice_fresh. Qed.
Print Assumptions C11_slice_fresh.

(* its elements are the same values — for inner arrays the same addresses — as
   positions a .. b-1 of the original (inner arrays are shared, as copyOrRef does) *)
Theorem C11_slice_contents : forall h a st en h' b s,
  h_get h a = Some s -> zlen s < 2 ^ 63 ->
  h_slice h a st en = Ok (h', b) ->
  exists x y, bound_ok (zlen s) st 0 x /\ bound_ok (zlen s) en (zlen s) y /\ x <= y /\
              h_get h' b = Some (sub s x y) /\ h_get h' a = Some s.
Proof. exact h_slice_contents. Qed.
Print Assumptions C11_slice_contents.

(* a store changes exactly one array object, at exactly the addressed position *)
Theorem C11_store_frame : forall h a f v h',
  h_set_index h a f v = Ok h' ->
  List.length h' = List.length h /\
  (forall a', a' <> a -> h_get h' a' = h_get h a') /\
  exists s s', h_get h a = Some s /\ h_get h' a = Some s' /\ arr_set_index s f v = Ok s'.
Proof. exact h_set_index_frame. Qed.
Print Assumptions C11_store_frame.

(* mutating the slice leaves the original (and every older array) unchanged,
   mutating any older array leaves the slice unchanged *)
Theorem C11_slice_then_store_independent : forall h a st en h1 b,
  h_slice h a st en = Ok (h1, b) ->
  (forall f v h2, h_set_index h1 b f v = Ok h2 ->
     forall a', (a' < List.length h)%nat -> h_get h2 a' = h_get h a') /\
  (forall a0 f v h2, (a0 < List.length h)%nat -> h_set_index h1 a0 f v = Ok h2 ->
     h_get h2 b = h_get h1 b).
Proof. exact slice_then_store_independent. Qed.
Print Assumptions C11_slice_then_store_independent.

(* ---------- non-vacuity and boundary witnesses (closed by vm_compute) ---------- *)
(* float constants without importing Floats (so that axiom names are printed qualified) *)
Definition F (z : Z) : float := float_of_Z z.
Definition half : float := PrimFloat.div (F 1) (F 2).
Definition negzero : float := PrimFloat.opp (F 0).
Definition tiny : float := float_of_bits 1.            (* 5e-324 *)
Definition ex3 : list Z := [10; 20; 30].

Example C11_ex_len : zlen ex3 < 2 ^ 63.
Proof. vm_compute. reflexivity. Qed.

Example C11_ex_index :
  map (arr_index ex3) [F 0; F 2; F (-1); F (-3); negzero] =
  [Ok 10; Ok 30; Ok 30; Ok 10; Ok 10] /\
  map (arr_index ex3) [F 3; F (-4); F (- 2 ^ 63)] = [Panic EBounds; Panic EBounds; Panic EBounds] /\
  map (arr_index ex3) [half; PrimFloat.nan; PrimFloat.infinity; PrimFloat.neg_infinity; F (2 ^ 63); F (2 ^ 1000); tiny] =
  [Panic EIndexValue; Panic EIndexValue; Panic EIndexValue; Panic EIndexValue; Panic EIndexValue; Panic EIndexValue; Panic EIndexValue].
Proof. vm_compute. repeat split. Qed.

Example C11_ex_float_to_Z :
  float_to_Z (F (-1)) = Some (-1) /\ float_to_Z (F (2 ^ 63)) = Some (2 ^ 63) /\
  float_to_Z half = None /\ float_to_Z PrimFloat.nan = None /\ float_to_Z negzero = Some 0.
Proof. vm_compute. repeat split. Qed.

Example C11_ex_slice :
  arr_slice (fun x => x) ex3 (Some (F 1)) None = Ok [20; 30] /\
  arr_slice (fun x => x) ex3 None (Some (F (-1))) = Ok [10; 20] /\
  arr_slice (fun x => x) ex3 (Some (F 3)) (Some (F 3)) = Ok [] /\
  arr_slice (fun x => x) ex3 (Some (F (-3))) (Some negzero) = Ok [] /\
  arr_slice (fun x => x) ex3 (Some (F 2)) (Some (F 1)) = Panic ESlice /\
  arr_slice (fun x => x) ex3 (Some (F 4)) (Some half) = Panic EBounds /\
  arr_slice (fun x => x) ex3 (Some half) (Some (F 9)) = Panic EIndexValue /\
  str_slice [97%N; 228%N; 26085%N] (Some (F 1)) (Some (F (-1))) = Ok [228%N].
Proof. vm_compute. repeat split. Qed.

Example C11_ex_set_index :
  arr_set_index ex3 (F (-1)) 7 = Ok [10; 20; 7] /\ arr_set_index ex3 (F 3) 7 = Panic EBounds /\
  arr_set_index ex3 half 7 = Panic EIndexValue.
Proof. vm_compute. repeat split. Qed.

(* aa := [[1] [2]]; bb := aa[1:]; bb[0][0] = 8 is seen through aa (shared inner
   array), bb[0] = [7] is not (fresh outer array) *)
Example C11_ex_sharing :
  let h0 : heap := [[VNum (F 1)]; [VNum (F 2)]; [VArr 0; VArr 1]] in
  exists h1 h2 h3,
    h_slice h0 2 (Some (F 1)) None = Ok (h1, 3%nat) /\ h_get h1 3 = Some [VArr 1] /\
    h_set_index h1 1 (F 0) (VNum (F 8)) = Ok h2 /\ h_get h2 1 = Some [VNum (F 8)] /\ h_get h2 2 = Some [VArr 0; VArr 1] /\
    h_set_index (h2 ++ [[VNum (F 7)]]) 3 (F 0) (VArr 4) = Ok h3 /\
    h_get h3 3 = Some [VArr 4] /\ h_get h3 2 = Some [VArr 0; VArr 1].
Proof. vm_compute. do 3 eexists. repeat split. Qed.
