(* C11 — Index and slice laws for arrays and strings.
   Property theorems only; every proof is [exact <lemma of IndexProofs>].

   Vocabulary.  [float_to_Z f = Some i] (Base.v) says: the binary64 number f
   is finite and denotes the integer i (decoded from Prim2SF; -0 denotes 0).
   It is [None] for NaN, ±Inf and every non-integer.  This is a total case
   split over all floats.  [zlen s] is the length of s as a Z; the hypothesis
   [zlen s < 2^63] is Go's invariant len(s) <= maxInt.
   The model (Index.v) computes  i := int(f); f != float64(i)  with Go's
   amd64 conversion written out; [rt f] is the statement that this round trip
   accepts exactly the integers that fit in int64 ([C11_roundtrip], proved for
   every float below). *)
From Coq Require Import ZArith List Floats.
From EvyV Require Import Base Index IndexProofs.
Import ListNotations.
Open Scope Z_scope.
