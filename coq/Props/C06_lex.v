(* C06, the link between the formatter's TEXT and the token view of the round trip theorems
   (FormatLex.v, FormatLexProofs.v, against Lexer.v = lexer.go).

   C06_lexer_reads_formatter_text_partial: for any list of pieces ps (what Format.fmt_prog /
   fmt_stmt / fmt_expr return) such that every piece, in front of the text that follows it, is
   read by Lexer.Next as one token of the piece's type spanning exactly the piece ([pieces_ok]),
   the lexer model applied to the rendered text returns the token view, token by token, then EOF:
       lex (render ps) = toks_of_pieces ps ++ [EOF]
   (token types through the name bijection tt_conv of the two generated enumerations; literals
   for identifiers, numbers, comments; a string token carries the unquoted text on one side and the
   quoted text on the other, so only its type is compared).
   _partial: [pieces_ok] is a hypothesis.  It is local (one piece and the first runes after it),
   decidable, stated with the lexer model's own next_token, and evaluated by the harness on the
   formatter model's pieces of every formatted input together with the conclusion; it is proved
   here for the layout pieces (newline, blank, indentation), the operator / bracket pieces and -
   relative to the unicode.IsLetter / IsDigit oracles - identifier and keyword pieces.  For numbers,
   strings (strconv.Unquote of the quoted text) and comments it is not proved. *)
From Coq Require Import List String NArith Bool.
From EvyV Require Import Base Format Pratt Lexer FormatParse FormatLex FormatLexProofs.
From EvyV.Gen Require Prec TokenTypes.
Import ListNotations.

Theorem C06_lexer_reads_formatter_text_partial :
  forall (is_letter is_digit : N -> bool) (ps : list piece),
  pieces_ok is_letter is_digit ps = true ->
  map lview (lex is_letter is_digit (render ps)) = map pview (toks_of_pieces ps) ++ [(TokenTypes.T_EOF, [])].
Proof. exact lex_reads_pieces. Qed.
Print Assumptions C06_lexer_reads_formatter_text_partial.

(* the local condition for the layout pieces: in front of anything but a blank *)
Theorem C06_layout_pieces_lex :
  forall (is_letter is_digit : N -> bool) (z : str),
  piece_ok is_letter is_digit NL z = true /\
  (not_blank z = true -> piece_ok is_letter is_digit Sp z = true) /\
  (not_blank z = true -> forall n, piece_ok is_letter is_digit (Ind n) z = true).
Proof.
  intros l d z. split; [apply piece_ok_nl|]. split; [apply piece_ok_sp|]. intros H n. apply piece_ok_ind, H.
Qed.
Print Assumptions C06_layout_pieces_lex.

(* ... and for brackets and operators (one-rune operators that start a two-rune one: in front of
   anything but "=") *)
Theorem C06_operator_pieces_lex :
  forall (is_letter is_digit : N -> bool) (z : str) (t : str),
  (In t [k_lbr; k_rbr; k_lcu; k_rcu; k_lpa; k_rpa; s_ "+"%string; s_ "-"%string; s_ "*"%string; s_ "%"%string;
         k_declare; s_ "=="%string; s_ "!="%string; s_ "<="%string; s_ ">="%string] ->
   piece_ok is_letter is_digit (T t) z = true) /\
  (In t [k_assign; k_colon; s_ "<"%string; s_ ">"%string; s_ "!"%string] ->
   (match z with c :: _ => negb (N.eqb c 61) | [] => true end) = true ->
   piece_ok is_letter is_digit (T t) z = true).
Proof.
  intros l d z t. split.
  - intro H. cbn [In] in H.
    repeat (destruct H as [<-|H]; [first [apply piece_ok_bracket; cbn [In]; tauto | apply piece_ok_two; cbn [In]; tauto]|]).
    contradiction.
  - apply piece_ok_eq_prefix.
Qed.
Print Assumptions C06_operator_pieces_lex.

(* ... and for identifier and keyword pieces: a text that is a word for the oracles (a letter or "_"
   that is none of the runes Lexer.Next tests first, then letters / digits / "_"), in front of
   anything that does not continue a word.  The lexer's keyword table (Gen.Keywords, from token.go's
   `keywords`) and the token view's (FormatParse.keyword_table, from Token.AsIdent) are shown to agree. *)
Theorem C06_word_pieces_lex :
  forall (is_letter is_digit : N -> bool) (s z : str),
  word is_letter is_digit s = true -> ends_word is_letter is_digit z = true ->
  (ident_text s = true -> piece_ok is_letter is_digit (T s) z = true) /\
  (forall t, assoc_tt s punct_table = None -> assoc_tt s keyword_table = Some t -> piece_ok is_letter is_digit (T s) z = true).
Proof.
  intros l d s z Hw Hz. split; [intro Hi; apply piece_ok_ident; assumption | intros t Hp Hk; eapply piece_ok_keyword; eassumption].
Qed.
Print Assumptions C06_word_pieces_lex.

(* instance: with the ASCII letters and digits as oracles, every keyword the formatter writes and, e.g.,
   the identifier  total_2  are read back as one token in front of a blank, a newline or the end *)
Example C06_word_pieces_ascii :
  let letter := fun c : N => (((97 <=? c) && (c <=? 122)) || ((65 <=? c) && (c <=? 90)))%N in
  let digit := fun c : N => ((48 <=? c) && (c <=? 57))%N in
  forall z, ends_word letter digit z = true ->
  Forall (fun s => piece_ok letter digit (T s) z = true)
         [k_if; k_else; k_end; k_while; k_for; k_range; k_func; k_on; k_return; k_break; s_ "total_2"%string].
Proof.
  intros letter digit z Hz.
  repeat (apply Forall_cons; [first [ eapply piece_ok_keyword; [reflexivity | reflexivity | vm_compute; reflexivity | exact Hz]
                                     | apply piece_ok_ident; [vm_compute; reflexivity | vm_compute; reflexivity | exact Hz] ]|]).
  constructor.
Qed.

(* non-vacuity: the pieces of   x := [1 2]   with the ASCII letters and digits *)
Example C06_lex_example :
  let letter := fun c : N => ((97 <=? c) && (c <=? 122))%N in
  let digit := fun c : N => ((48 <=? c) && (c <=? 57))%N in
  let ps := [T (s_ "x"%string); Sp; T k_declare; Sp; T k_lbr; T (s_ "1"%string); Sp; T (s_ "2"%string); T k_rbr; NL] in
  pieces_ok letter digit ps = true /\
  map lview (lex letter digit (render ps))
  = [(TokenTypes.T_IDENT, s_ "x"%string); (TokenTypes.T_WS, []); (TokenTypes.T_DECLARE, []); (TokenTypes.T_WS, []);
     (TokenTypes.T_LBRACKET, []); (TokenTypes.T_NUM_LIT, s_ "1"%string); (TokenTypes.T_WS, []);
     (TokenTypes.T_NUM_LIT, s_ "2"%string); (TokenTypes.T_RBRACKET, []); (TokenTypes.T_NL, []); (TokenTypes.T_EOF, [])].
Proof. vm_compute. split; reflexivity. Qed.
