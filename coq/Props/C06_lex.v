(* C06, the link between the formatter's TEXT and the token view of the round trip theorems
   (FormatLex.v, FormatLexProofs.v, against Lexer.v = lexer.go).

   C06_lexer_reads_formatter_text_partial: for any list of pieces ps (what Format.fmt_prog /
   fmt_stmt / fmt_expr return) such that every piece, in front of the text that follows it, is
   read by Lexer.Next as one token of the piece's type spanning exactly the piece ([pieces_ok]),
   the lexer model applied to the rendered text returns the token view, token by token, then EOF:
       lex (render ps) = toks_of_pieces ps ++ [EOF]
   (token types through the name bijection tt_conv of the two generated enumerations; literals
   for identifiers, numbers, comments; a string token carries the unquoted text on one side and the
   quoted text on the other, so only its type is compared).
   _partial: [pieces_ok] is a hypothesis.  It is local (one piece and the first runes after it),
   decidable, stated with the lexer model's own next_token, and evaluated by the harness on the
   formatter model's pieces of every formatted input together with the conclusion; it is proved
   here only for the layout pieces (newline, blank, indentation) and the operator / bracket
   pieces.  For identifiers, keywords, numbers, strings and comments it depends on the
   unicode.IsLetter / IsDigit oracles and on strconv.Unquote of the quoted text and is not proved. *)
From Coq Require Import List String NArith Bool.
From EvyV Require Import Base Format Pratt Lexer FormatParse FormatLex FormatLexProofs.
From EvyV.Gen Require Prec TokenTypes.
Import ListNotations.

Theorem C06_lexer_reads_formatter_text_partial :
  forall (is_letter is_digit : N -> bool) (ps : list piece),
  pieces_ok is_letter is_digit ps = true ->
  map lview (lex is_letter is_digit (render ps)) = map pview (toks_of_pieces ps) ++ [(TokenTypes.T_EOF, [])].
Proof. exact lex_reads_pieces. Qed.
Print Assumptions C06_lexer_reads_formatter_text_partial.

(* the local condition for the layout pieces: in front of anything but a blank *)
Theorem C06_layout_pieces_lex :
  forall (is_letter is_digit : N -> bool) (z : str),
  piece_ok is_letter is_digit NL z = true /\
  (not_blank z = true -> piece_ok is_letter is_digit Sp z = true) /\
  (not_blank z = true -> forall n, piece_ok is_letter is_digit (Ind n) z = true).
Proof.
  intros l d z. split; [apply piece_ok_nl|]. split; [apply piece_ok_sp|]. intros H n. apply piece_ok_ind, H.
Qed.
Print Assumptions C06_layout_pieces_lex.

(* ... and for brackets and operators (one-rune operators that start a two-rune one: in front of
   anything but "=") *)
Theorem C06_operator_pieces_lex :
  forall (is_letter is_digit : N -> bool) (z : str) (t : str),
  (In t [k_lbr; k_rbr; k_lcu; k_rcu; k_lpa; k_rpa; s_ "+"%string; s_ "-"%string; s_ "*"%string; s_ "%"%string;
         k_declare; s_ "=="%string; s_ "!="%string; s_ "<="%string; s_ ">="%string] ->
   piece_ok is_letter is_digit (T t) z = true) /\
  (In t [k_assign; k_colon; s_ "<"%string; s_ ">"%string; s_ "!"%string] ->
   (match z with c :: _ => negb (N.eqb c 61) | [] => true end) = true ->
   piece_ok is_letter is_digit (T t) z = true).
Proof.
  intros l d z t. split.
  - intro H. cbn [In] in H.
    repeat (destruct H as [<-|H]; [first [apply piece_ok_bracket; cbn [In]; tauto | apply piece_ok_two; cbn [In]; tauto]|]).
    contradiction.
  - apply piece_ok_eq_prefix.
Qed.
Print Assumptions C06_operator_pieces_lex.

(* non-vacuity: the pieces of   x := [1 2]   with the ASCII letters and digits *)
Example C06_lex_example :
  let letter := fun c : N => ((97 <=? c) && (c <=? 122))%N in
  let digit := fun c : N => ((48 <=? c) && (c <=? 57))%N in
  let ps := [T (s_ "x"%string); Sp; T k_declare; Sp; T k_lbr; T (s_ "1"%string); Sp; T (s_ "2"%string); T k_rbr; NL] in
  pieces_ok letter digit ps = true /\
  map lview (lex letter digit (render ps))
  = [(TokenTypes.T_IDENT, s_ "x"%string); (TokenTypes.T_WS, []); (TokenTypes.T_DECLARE, []); (TokenTypes.T_WS, []);
     (TokenTypes.T_LBRACKET, []); (TokenTypes.T_NUM_LIT, s_ "1"%string); (TokenTypes.T_WS, []);
     (TokenTypes.T_NUM_LIT, s_ "2"%string); (TokenTypes.T_RBRACKET, []); (TokenTypes.T_NL, []); (TokenTypes.T_EOF, [])].
Proof. vm_compute. split; reflexivity. Qed.
