(* C06 — "the result is accepted again and has the same syntax tree", expression level.
   Property theorems only; every proof is [exact <lemma of FormatParseProofs>].

   Models composed here:  Format.fmt_expr (format.go)  ->  FormatParse.toks_of_pieces (token view
   of the formatter's writes; a direct translation, not the lexer model — see FormatParse.v)  ->
   Pratt.parse_expr / parse_toplevel (expression.go with the whitespace-sensitivity stack,
   binding powers regenerated from /repo).  The parser theorem used is b-pratt's
   PrattProofs.pratt_layered_fixed (the Pratt parser returns the tree of the derivation in the
   layered left-associative grammar).

   _partial: the fragment [frag] of the first two theorems has no array / map literal and no
   function call (the layered grammar of PrattProofs.v has no such productions); literals and
   calls AS WHOLE EXPRESSIONS / LIST ITEMS are covered by the list-level theorems further down;
   the extracted models format and re-parse every expression on every run (harness/c06_roundtrip.go);
   and a dot key that is a keyword (m.for) is outside it too (the LDot production renders an IDENT).

   Hypotheses, all evaluated by the harness on every expression of every tree the real parser
   produces (they never fail there):
     prec_ok   the tree is parser-shaped: operands sit at the level the grammar requires and
               grouping is explicit.  The formatter writes the tree AS IT IS and never adds
               parentheses; a tree outside prec_ok does not survive
               (C06_unparenthesised_tree_does_not_roundtrip) — the parser only builds prec_ok trees;
     tight     in a whitespace-sensitive list every binary operator outside brackets carries
               formatting.wss (so it is written without blanks);
     lex_ok    names / numbers lex as IDENT / NUM_LIT, asserted types are printable and not any.
   Environment: the typing oracle of the Pratt model is silent ([no_tyerr]: types are not
   modelled; the re-parse sees the same types as the first parse), parseSlice is the one in
   force (16971a1, [e_fix_slice]), the variables of e are in scope and are not function names.
   Normalisation: e' = [fexpr_tree e] is e without token positions and without parser.Any
   wrappers (which belong to typing); GroupExpression nodes are KEPT (the parser keeps them);
   a string literal is represented by its quoted text (strconv.Quote is injective). *)
From Coq Require Import List String NArith ZArith Bool Arith.
From EvyV Require Import Base FmtAst Format Pratt PrattProofs FormatParse FormatParseProofs FormatParseListProofs.
From EvyV.Gen Require Import Prec.
Import ListNotations.
Local Open Scope nat_scope.

Theorem C06_roundtrip_expr_partial :
  forall (E : env) (fixed : fixes) (lvl : nat) (e : fexpr) (st : pstate) (rest0 : list token) (fuel : nat),
  frag e = true -> prec_ok e = true -> lex_ok e = true ->
  no_tyerr E -> e_fix_slice E = true -> Forall (var_in_scope E) (vars_of e) ->
  rest st = toks_of_pieces (fmt_expr fixed lvl e) ++ rest0 ->
  (is_wss st = true -> tight e = true) ->
  (is_wss st = false -> is_ws (look0 rest0) = false) ->
  stop_tok (is_wss st) lowestPrec (look0 rest0) ->
  2 * List.length (toks_of_pieces (fmt_expr fixed lvl e)) <= fuel ->
  exists st', parse_expr E fuel lowestPrec st = Some (Some (fexpr_tree e), st')
              /\ rest st' = rest0 /\ wss st' = wss st /\ errs st' = errs st.
Proof. exact format_parse_roundtrip. Qed.
Print Assumptions C06_roundtrip_expr_partial.

Theorem C06_roundtrip_toplevel_expr_partial :
  forall (E : env) (fixed : fixes) (lvl : nat) (e : fexpr) (st : pstate) (rest0 : list token) (fuel : nat),
  frag e = true -> prec_ok e = true -> lex_ok e = true ->
  no_tyerr E -> e_fix_slice E = true -> Forall (var_in_scope E) (vars_of e) ->
  rest st = toks_of_pieces (fmt_expr fixed lvl e) ++ rest0 ->
  (is_wss st = true -> tight e = true) ->
  (is_wss st = false -> is_ws (look0 rest0) = false) ->
  stop_tok (is_wss st) lowestPrec (look0 rest0) ->
  2 * List.length (toks_of_pieces (fmt_expr fixed lvl e)) <= fuel ->
  exists st', parse_toplevel E (parse_expr E fuel) fuel st = Some (Some (fexpr_tree e), st')
              /\ rest st' = rest0 /\ wss st' = wss st /\ errs st' = errs st.
Proof. exact format_parse_roundtrip_toplevel. Qed.
Print Assumptions C06_roundtrip_toplevel_expr_partial.

(* the formatter's tokens are the rendering of a derivation of the layered grammar whose tree is e *)
Theorem C06_formatter_writes_a_layered_derivation :
  forall (fixed : fixes) (e : fexpr) (lvl : nat),
  frag e = true -> prec_ok e = true -> lex_ok e = true ->
  toks_of_pieces (fmt_expr fixed lvl e) = render (to_lexp false e) /\
  Lay 0 (to_lexp false e) /\ layout_ok (to_lexp false e) = true /\
  tree_of (to_lexp false e) = fexpr_tree e /\
  (tight e = true -> tight_ok (to_lexp false e) = true).
Proof.
  intros fixed e lvl Hf Hp Hl. repeat split.
  - rewrite (render_to_lexp fixed e false lvl Hf Hp Hl). symmetry. apply app_nil_r.
  - eapply Lay_le; [|exact (lay_to_lexp e false Hf Hp Hl)]. apply Nat.le_0_l.
  - exact (layout_to_lexp e false Hf Hp Hl).
  - exact (tree_to_lexp e false Hf Hp Hl).
  - exact (tight_to_lexp e Hf Hp Hl).
Qed.
Print Assumptions C06_formatter_writes_a_layered_derivation.

(* ---------- list level: array / map literals (single- and multi-line, with the comments,
   blank lines and indentation the formatter re-emits between items), parenthesised calls and
   bare niladic calls, proved directly against Pratt.parse_array_literal / parse_map_literal /
   parse_expr_list / parse_func_call / parse_grouped (FormatParseListProofs.v).
   [item_ok E w e]: e is, as a whole, an expression of the layered fragment (with its side
   conditions, [base_ok]), or an array / map literal whose items are item_ok, or (f a b ...)
   with item_ok arguments (f has parameters, the argument count is right), or the bare name of
   a function without parameters.  Still _partial: a literal or a call may not be an OPERAND
   (of an operator, index, dot, ...) — the layered grammar has no production for them; the
   multiline items are not part of the Pratt model's trees (it does not record them), so the
   statement is about the element / value / argument trees. ---------- *)
Theorem C06_roundtrip_literals_and_calls_partial :
  forall (E : env) (fixed : fixes) (w : bool) (lvl : nat) (e : fexpr),
  no_tyerr E -> e_fix_slice E = true -> item_ok E w e ->
  forall (st : pstate) (rest0 : list token) (fuel : nat),
  is_wss st = w ->
  rest st = toks_of_pieces (fmt_expr fixed lvl e) ++ rest0 ->
  (w = false -> is_ws (look0 rest0) = false) ->
  stop_tok w lowestPrec (look0 rest0) ->
  2 * List.length (toks_of_pieces (fmt_expr fixed lvl e)) <= fuel ->
  exists st', parse_expr E fuel lowestPrec st = Some (Some (fexpr_tree e), st')
              /\ rest st' = rest0 /\ wss st' = wss st /\ errs st' = errs st.
Proof. intros E fixed w lvl e NT Hfix Hok. exact (proj1 (item_rt E NT Hfix fixed w lvl e Hok)). Qed.
Print Assumptions C06_roundtrip_literals_and_calls_partial.

(* a call with arguments where parseTopLevelExpr is used (value of a declaration / assignment,
   condition, return value):  f a b ...  up to the end of the line *)
Theorem C06_roundtrip_toplevel_call_partial :
  forall (E : env) (fixed : fixes) (lvl : nat) (n : str) (args : list fexpr)
         (st : pstate) (rest0 : list token) (fuel : nat) (outer : list bool),
  no_tyerr E -> e_fix_slice E = true ->
  ident_text n = true -> func_of E n = Some false -> arity_wrong E n (List.length args) = false ->
  Forall (item_ok E true) args ->
  rest st = toks_of_pieces (fmt_expr fixed lvl (FCall n args)) ++ rest0 ->
  wss st = false :: outer -> list_end (look0 rest0) ->
  2 * List.length (toks_of_pieces (fmt_expr fixed lvl (FCall n args))) <= fuel ->
  exists st', parse_toplevel E (parse_expr E fuel) fuel st = Some (Some (fexpr_tree (FCall n args)), st')
              /\ rest st' = rest0 /\ wss st' = wss st /\ errs st' = errs st.
Proof. intros E fixed lvl n args st rest0 fuel outer NT Hfix. exact (toplevel_call_rt E NT Hfix fixed lvl n args st rest0 fuel outer). Qed.
Print Assumptions C06_roundtrip_toplevel_call_partial.

(* prec_ok is needed: the formatter adds no parentheses *)
Theorem C06_unparenthesised_tree_does_not_roundtrip :
  let v := fun n : string => FVar (s_ n) in
  let e := FBin OpAsterisk false (FBin OpPlus false (v "a"%string) (v "b"%string)) (v "c"%string) in
  let E := {| e_funcs := []; e_vars := [s_ "a"%string; s_ "b"%string; s_ "c"%string]; e_arity := []; e_tyerr := fun _ _ _ => false; e_fix_slice := true |} in
  let toks := toks_of_pieces (fmt_expr no_fixes 0 e) ++ [mk T_NL] in
  prec_ok e = false /\
  exists t st', parse_expr E 40 lowestPrec (init_state toks) = Some (Some t, st') /\ t <> fexpr_tree e.
Proof. exact unparenthesised_tree_does_not_roundtrip. Qed.
Print Assumptions C06_unparenthesised_tree_does_not_roundtrip.

(* ---------- non-vacuity ---------- *)
(*   -a[i + 1].k * (b - c) <= m.x.(num) and !ok   as a call argument (tight) and as a declaration value *)
Definition C06_rt_example (w : bool) : fexpr :=
  let v := fun n : string => FVar (s_ n) in
  FBin OpAnd w
    (FBin OpLtEq w
       (FBin OpAsterisk w
          (FUn OpMinus (FDot (FIdx (v "a"%string) (FBin OpPlus false (v "i"%string) (FNum 0 (s_ "1"%string)))) (s_ "k"%string)))
          (FGroup (FBin OpMinus false (v "b"%string) (v "c"%string))))
       (FAssert (FAny (FDot (v "m"%string) (s_ "x"%string))) (FTy TNnum None)))
    (FUn OpBang (v "ok"%string)).

Example C06_rt_example_hyps :
  frag (C06_rt_example true) = true /\ prec_ok (C06_rt_example true) = true /\ lex_ok (C06_rt_example true) = true /\
  tight (C06_rt_example true) = true /\ tight (C06_rt_example false) = false /\
  Format.render (fmt_expr current_fixes 0 (C06_rt_example true)) = s_ "-a[i + 1].k*(b - c)<=m.x.(num)and!ok"%string /\
  Format.render (fmt_expr current_fixes 0 (C06_rt_example false)) = s_ "-a[i + 1].k * (b - c) <= m.x.(num) and !ok"%string.
Proof. vm_compute. repeat split; try reflexivity; repeat constructor. Qed.

(*  [1 // one
        x+1

        (len a)]     as a list item, and   {a:[1 2] if:f}  *)
Example C06_rt_list_example :
  let v := fun n : string => FVar (s_ n) in
  let E := {| e_funcs := [(s_ "len"%string, false); (s_ "f"%string, true)]; e_vars := [s_ "x"%string; s_ "a"%string];
              e_arity := [(s_ "len"%string, Some 1)]; e_tyerr := fun _ _ _ => false; e_fix_slice := true |} in
  let arr := FArr [k_el; (s_ "// one" ++ k_nl)%list; k_el; k_nl; k_nl; k_el]
                  [FNum 0 (s_ "1"%string); FBin OpPlus true (v "x"%string) (FNum 0 (s_ "1"%string));
                   FGroup (FCall (s_ "len"%string) [v "a"%string])] in
  let m := FMap [s_ "a"%string; s_ "if"%string] [s_ "a"%string; s_ "if"%string]
                [FArr [k_el; k_el] [FNum 0 (s_ "1"%string); FNum 0 (s_ "2"%string)]; FCall (s_ "f"%string) []] in
  covered (e_funcs E) true arr = true /\ covered (e_funcs E) false m = true /\ item_ok E true arr /\
  Format.render (fmt_expr current_fixes 1 arr) =
    (s_ "[1 // one" ++ k_nl ++ s_ "        x+1" ++ k_nl ++ k_nl ++ s_ "        (len a)]")%list.
Proof. vm_compute. repeat split; try reflexivity; repeat constructor. Qed.
