(* C06 — "the result is accepted again and has the same syntax tree", expression level.
   Property theorems only; every proof is [exact <lemma of FormatParseProofs>].

   Models composed here:  Format.fmt_expr (format.go)  ->  FormatParse.toks_of_pieces (token view
   of the formatter's writes; a direct translation, not the lexer model — see FormatParse.v)  ->
   Pratt.parse_expr / parse_toplevel (expression.go with the whitespace-sensitivity stack,
   binding powers regenerated from /repo).  The parser theorem used is b-pratt's
   PrattProofs.pratt_layered_fixed (the Pratt parser returns the tree of the derivation in the
   layered left-associative grammar).

   _partial: the fragment [frag] has no array / map literal and no function call (the layered
   grammar of PrattProofs.v has no such productions; the extracted models still format and
   re-parse them on every run, harness/c06.go "roundtrip" — only the theorem stops there);
   and a dot key that is a keyword (m.for) is outside it too (the LDot production renders an IDENT).

   Hypotheses, all evaluated by the harness on every expression of every tree the real parser
   produces (they never fail there):
     prec_ok   the tree is parser-shaped: operands sit at the level the grammar requires and
               grouping is explicit.  The formatter writes the tree AS IT IS and never adds
               parentheses; a tree outside prec_ok does not survive
               (C06_unparenthesised_tree_does_not_roundtrip) — the parser only builds prec_ok trees;
     tight     in a whitespace-sensitive list every binary operator outside brackets carries
               formatting.wss (so it is written without blanks);
     lex_ok    names / numbers lex as IDENT / NUM_LIT, asserted types are printable and not any.
   Environment: the typing oracle of the Pratt model is silent ([no_tyerr]: types are not
   modelled; the re-parse sees the same types as the first parse), parseSlice is the one in
   force (16971a1, [e_fix_slice]), the variables of e are in scope and are not function names.
   Normalisation: e' = [fexpr_tree e] is e without token positions and without parser.Any
   wrappers (which belong to typing); GroupExpression nodes are KEPT (the parser keeps them);
   a string literal is represented by its quoted text (strconv.Quote is injective). *)
From Coq Require Import List String NArith ZArith Bool Arith.
From EvyV Require Import Base FmtAst Format Pratt PrattProofs FormatParse FormatParseProofs.
From EvyV.Gen Require Import Prec.
Import ListNotations.
Local Open Scope nat_scope.

Theorem C06_roundtrip_expr_partial :
  forall (E : env) (fixed : fixes) (lvl : nat) (e : fexpr) (st : pstate) (rest0 : list token) (fuel : nat),
  frag e = true -> prec_ok e = true -> lex_ok e = true ->
  no_tyerr E -> e_fix_slice E = true -> Forall (var_in_scope E) (vars_of e) ->
  rest st = toks_of_pieces (fmt_expr fixed lvl e) ++ rest0 ->
  (is_wss st = true -> tight e = true) ->
  (is_wss st = false -> is_ws (look0 rest0) = false) ->
  stop_tok (is_wss st) lowestPrec (look0 rest0) ->
  2 * List.length (toks_of_pieces (fmt_expr fixed lvl e)) <= fuel ->
  exists st', parse_expr E fuel lowestPrec st = Some (Some (fexpr_tree e), st')
              /\ rest st' = rest0 /\ wss st' = wss st /\ errs st' = errs st.
Proof. exact format_parse_roundtrip. Qed.
Print Assumptions C06_roundtrip_expr_partial.

Theorem C06_roundtrip_toplevel_expr_partial :
  forall (E : env) (fixed : fixes) (lvl : nat) (e : fexpr) (st : pstate) (rest0 : list token) (fuel : nat),
  frag e = true -> prec_ok e = true -> lex_ok e = true ->
  no_tyerr E -> e_fix_slice E = true -> Forall (var_in_scope E) (vars_of e) ->
  rest st = toks_of_pieces (fmt_expr fixed lvl e) ++ rest0 ->
  (is_wss st = true -> tight e = true) ->
  (is_wss st = false -> is_ws (look0 rest0) = false) ->
  stop_tok (is_wss st) lowestPrec (look0 rest0) ->
  2 * List.length (toks_of_pieces (fmt_expr fixed lvl e)) <= fuel ->
  exists st', parse_toplevel E (parse_expr E fuel) fuel st = Some (Some (fexpr_tree e), st')
              /\ rest st' = rest0 /\ wss st' = wss st /\ errs st' = errs st.
Proof. exact format_parse_roundtrip_toplevel. Qed.
Print Assumptions C06_roundtrip_toplevel_expr_partial.

(* the formatter's tokens are the rendering of a derivation of the layered grammar whose tree is e *)
Theorem C06_formatter_writes_a_layered_derivation :
  forall (fixed : fixes) (e : fexpr) (lvl : nat),
  frag e = true -> prec_ok e = true -> lex_ok e = true ->
  toks_of_pieces (fmt_expr fixed lvl e) = render (to_lexp false e) /\
  Lay 0 (to_lexp false e) /\ layout_ok (to_lexp false e) = true /\
  tree_of (to_lexp false e) = fexpr_tree e /\
  (tight e = true -> tight_ok (to_lexp false e) = true).
Proof.
  intros fixed e lvl Hf Hp Hl. repeat split.
  - rewrite (render_to_lexp fixed e false lvl Hf Hp Hl). symmetry. apply app_nil_r.
  - eapply Lay_le; [|exact (lay_to_lexp e false Hf Hp Hl)]. apply Nat.le_0_l.
  - exact (layout_to_lexp e false Hf Hp Hl).
  - exact (tree_to_lexp e false Hf Hp Hl).
  - exact (tight_to_lexp e Hf Hp Hl).
Qed.
Print Assumptions C06_formatter_writes_a_layered_derivation.

(* prec_ok is needed: the formatter adds no parentheses *)
Theorem C06_unparenthesised_tree_does_not_roundtrip :
  let v := fun n : string => FVar (s_ n) in
  let e := FBin OpAsterisk false (FBin OpPlus false (v "a"%string) (v "b"%string)) (v "c"%string) in
  let E := {| e_funcs := []; e_vars := [s_ "a"%string; s_ "b"%string; s_ "c"%string]; e_arity := []; e_tyerr := fun _ _ _ => false; e_fix_slice := true |} in
  let toks := toks_of_pieces (fmt_expr no_fixes 0 e) ++ [mk T_NL] in
  prec_ok e = false /\
  exists t st', parse_expr E 40 lowestPrec (init_state toks) = Some (Some t, st') /\ t <> fexpr_tree e.
Proof. exact unparenthesised_tree_does_not_roundtrip. Qed.
Print Assumptions C06_unparenthesised_tree_does_not_roundtrip.

(* ---------- non-vacuity ---------- *)
(*   -a[i + 1].k * (b - c) <= m.x.(num) and !ok   as a call argument (tight) and as a declaration value *)
Definition C06_rt_example (w : bool) : fexpr :=
  let v := fun n : string => FVar (s_ n) in
  FBin OpAnd w
    (FBin OpLtEq w
       (FBin OpAsterisk w
          (FUn OpMinus (FDot (FIdx (v "a"%string) (FBin OpPlus false (v "i"%string) (FNum 0 (s_ "1"%string)))) (s_ "k"%string)))
          (FGroup (FBin OpMinus false (v "b"%string) (v "c"%string))))
       (FAssert (FAny (FDot (v "m"%string) (s_ "x"%string))) (FTy TNnum None)))
    (FUn OpBang (v "ok"%string)).

Example C06_rt_example_hyps :
  frag (C06_rt_example true) = true /\ prec_ok (C06_rt_example true) = true /\ lex_ok (C06_rt_example true) = true /\
  tight (C06_rt_example true) = true /\ tight (C06_rt_example false) = false /\
  Format.render (fmt_expr current_fixes 0 (C06_rt_example true)) = s_ "-a[i + 1].k*(b - c)<=m.x.(num)and!ok"%string /\
  Format.render (fmt_expr current_fixes 0 (C06_rt_example false)) = s_ "-a[i + 1].k * (b - c) <= m.x.(num) and !ok"%string.
Proof. vm_compute. repeat split; reflexivity. Qed.
