(* C12 — Maps are insertion-ordered dictionaries.
   Property theorems only; every proof is [exact <lemma of OmapProofs>]. *)
From Coq Require Import ZArith List String.
From EvyV Require Import Base Omap OmapProofs.
Import ListNotations.

(* Over EVERY history (literal construction followed by any finite sequence of
   insert / overwrite / delete / lookup / has / len / print / equality /
   nested loops that mutate the map they iterate over): the model of the Go
   representation (hash map + order slice) keeps its representation invariant
   and prints exactly what the insertion-ordered association-list dictionary
   prints, ending in the same status (ok / missing-key panic). *)
Theorem C12_history_refinement : forall (lit : list (str * Z)) (l : list op),
  let c := run_history omap_dict lit l in
  let a := run_history alist_dict lit l in
  Inv (dmap c) /\ dmap a = abs (dmap c) /\ outs c = outs a /\ stat c = stat a.
Proof. exact history_refinement. Qed.
Print Assumptions C12_history_refinement.

(* printing / deep copy never dereferences a key that has no entry *)
Theorem C12_no_hostcrash : forall (lit : list (str * Z)) (l : list op),
  stat (run_history omap_dict lit l) <> HostCrash.
Proof. exact history_no_hostcrash. Qed.
Print Assumptions C12_no_hostcrash.

(* laws of the dictionary the histories are refined to *)
Theorem C12_overwrite_keeps_position : forall (l : alist Z) k v,
  aget k l <> None -> map fst (aset k v l) = map fst l.
Proof. exact overwrite_keeps_position. Qed.
Print Assumptions C12_overwrite_keeps_position.

Theorem C12_delete_reinsert_moves_to_end : forall (l : alist Z) k v,
  aset k v (adel k l) = adel k l ++ [(k, v)].
Proof. exact delete_reinsert_moves_to_end. Qed.
Print Assumptions C12_delete_reinsert_moves_to_end.

Theorem C12_read_your_write : forall (l : alist Z) k v k',
  aget k' (aset k v l) = if str_eqb k k' then Some v else aget k' l.
Proof. exact aget_aset. Qed.
Print Assumptions C12_read_your_write.

Theorem C12_delete_removes_only_that_key : forall (l : alist Z) k,
  aget k (adel k l) = None /\ (forall k', k <> k' -> aget k' (adel k l) = aget k' l) /\
  map fst (adel k l) = filter (fun x => negb (str_eqb x k)) (map fst l).
Proof.
  intros l k. exact (conj (aget_adel_same l k) (conj (aget_adel_other l k) (adel_keys_subseq l k))).
Qed.
Print Assumptions C12_delete_removes_only_that_key.

(* iteration: visited keys are a subsequence of the entry snapshot (so keys
   inserted by the body are never visited, order is insertion order) and each
   was present when its turn came (so deleted keys are skipped, safely) —
   for every loop body whatsoever *)
Theorem C12_range_snapshot : forall D (I : dict Z D) bodyf ks (x : st D),
  subseq (map fst (loop_visits I bodyf ks x)) ks /\
  Forall (fun kx => d_has I (fst kx) (dmap (snd kx)) = true /\ running (snd kx) = true)
         (loop_visits I bodyf ks x).
Proof. exact @range_snapshot. Qed.
Print Assumptions C12_range_snapshot.

(* equality ignores order *)
Theorem C12_equals_order_insensitive : forall (a b : alist Z),
  NoDup (map fst a) -> NoDup (map fst b) ->
  (aequals Z.eqb a b = true <-> forall k, aget k a = aget k b).
Proof. exact aequals_spec. Qed.
Print Assumptions C12_equals_order_insensitive.

(* ---------- non-vacuity ---------- *)
Example C12_ex_delete_all_while_iterating :
  let r := run_history omap_dict [(s_ "a", 1%Z); (s_ "b", 2%Z); (s_ "c", 3%Z)]
             [OLoop [ODel (KLit (s_ "a")); ODel (KLit (s_ "b")); ODel (KLit (s_ "c"))]; OPrint] in
  outs r = [s_ "a"; s_ "{}"] /\ stat r = Running.
Proof. vm_compute. split; reflexivity. Qed.

Example C12_ex_insert_while_iterating :
  let r := run_history omap_dict [(s_ "a", 1%Z)]
             [OLoop [OSet (KLit (s_ "z")) 9%Z]; OPrint] in
  outs r = [s_ "a"; s_ "{a:1 z:9}"] /\ stat r = Running.
Proof. vm_compute. split; reflexivity. Qed.

Example C12_ex_missing_key_panics :
  stat (run_history omap_dict [(s_ "a", 1%Z)] [ODel (KLit (s_ "a")); OGet (KLit (s_ "a"))]) = PanicMapKey.
Proof. vm_compute. reflexivity. Qed.
