(* C06 — "the result is accepted again and has the same syntax tree", statement level, for the
   one-line statements.  Property theorems only; proofs are [exact <lemma of FormatParseStmtProofs>].

   Models composed: Format.fmt_stmt (format.go) -> FormatParse.toks_of_pieces -> Parser.v
   (parser.go: parseInferredDeclStatement, parseFunCallStatement, parseReturnStatement,
   parseBreakStatement, with assertEOL / advancePastNL, the scope bookkeeping and the collected
   read marks), which calls Pratt.v for the expressions.

   _partial, exactly:
   - comment-free statements: Parser.v's statement trees carry no comments (as Pratt.v's trees
     carry no multiline items), so a statement with a trailing comment is outside;
   - the statement kinds below; the block statements (Props/C06_block.v)
     (if / while / for / func / on) are not done;
   - the value / arguments satisfy [top_ok] / [item_ok] (C06_roundtrip.v: the layered fragment,
     array and map literals, parenthesised and niladic calls as whole expressions, and a call
     with arguments as the whole value);
   - the state before the statement: [at_toks s toks e] — the cursor is at the statement's first
     token, the whitespace-sensitivity stack is [false], the errors so far are e; the typing
     oracle of the models is silent; the scoping facts the first parse established are
     hypotheses ([decl_ok], [in_loop], [has_ret], p.funcs knows the callee with the right arity).
   Conclusion each time: the statement parser returns exactly the statement's tree
   ([fexpr_tree] of its expressions), reports no new error, and the cursor is at the first
   token of the next line ([skip1]: advancePastNL also skips that line's indentation). *)
From Coq Require Import List String NArith ZArith Bool Arith.
From EvyV Require Import Base FmtAst Format Pratt PrattProofs Parser FormatParse FormatParseProofs FormatParseListProofs FormatParseStmtProofs FormatParseTargetProofs.
From EvyV.Gen Require Import Prec.
Import ListNotations.
Local Open Scope nat_scope.

Theorem C06_roundtrip_inferred_decl_partial :
  forall (B : benv), (forall s t n, b_tyerr B s t n = false) ->
  forall (fixed : fixes) (lvl : nat) (s : pst) (x : str) (v : fexpr) (r : list token) (e : list (perr * nat)),
  ident_text x = true -> decl_ok B x s -> top_ok (env_of B s) v ->
  at_toks s (toks_of_pieces (fmt_stmt fixed lvl (FmtAst.SInferredDecl x v [])) ++ mk T_NL :: r) e ->
  is_ws (look0 (skip1 r)) = false ->
  exists s', parse_inferred_decl_stmt B s = Ok (Some (Parser.SInferredDecl x (fexpr_tree v))) s' /\ at_toks s' (skip1 r) e /\ peek_ok s' (skip1 r).
Proof. exact inferred_decl_roundtrip. Qed.
Print Assumptions C06_roundtrip_inferred_decl_partial.

Theorem C06_roundtrip_call_stmt_partial :
  forall (B : benv), (forall s t n, b_tyerr B s t n = false) ->
  forall (fixed : fixes) (lvl : nat) (s : pst) (n : str) (args : list fexpr) (fi : finfo) (r : list token) (e : list (perr * nat)),
  ident_text n = true -> lookup_fn n (fns s) = Some fi ->
  arity_wrong (env_of B s) n (List.length args) = false ->
  Forall (item_ok (env_of B s) true) args ->
  at_toks s (toks_of_pieces (fmt_stmt fixed lvl (FmtAst.SCall n args [])) ++ mk T_NL :: r) e ->
  is_ws (look0 (skip1 r)) = false ->
  exists s', parse_call_stmt B s = Ok (Some (Parser.SCallStmt (TCall n (map fexpr_tree args)))) s' /\ at_toks s' (skip1 r) e /\ peek_ok s' (skip1 r).
Proof. exact call_stmt_roundtrip. Qed.
Print Assumptions C06_roundtrip_call_stmt_partial.

Theorem C06_roundtrip_return_value_partial :
  forall (B : benv), (forall s t n, b_tyerr B s t n = false) ->
  forall (fixed : fixes) (lvl : nat) (s : pst) (v : fexpr) (r : list token) (e : list (perr * nat)),
  has_ret s = true -> top_ok (env_of B s) v ->
  at_toks s (toks_of_pieces (fmt_stmt fixed lvl (FmtAst.SReturn (Some v) [])) ++ mk T_NL :: r) e ->
  is_ws (look0 (skip1 r)) = false ->
  exists s', parse_return_stmt B s = Ok (Some (Parser.SReturn (Some (fexpr_tree v)))) s' /\ at_toks s' (skip1 r) e /\ peek_ok s' (skip1 r).
Proof. exact return_value_roundtrip. Qed.
Print Assumptions C06_roundtrip_return_value_partial.

Theorem C06_roundtrip_bare_return_partial :
  forall (B : benv) (fixed : fixes) (lvl : nat) (s : pst) (r : list token) (e : list (perr * nat)),
  has_ret s = true -> ret_value s = false ->
  at_toks s (toks_of_pieces (fmt_stmt fixed lvl (FmtAst.SReturn None [])) ++ mk T_NL :: r) e ->
  is_ws (look0 (skip1 r)) = false ->
  exists s', parse_return_stmt B s = Ok (Some (Parser.SReturn None)) s' /\ at_toks s' (skip1 r) e /\ peek_ok s' (skip1 r).
Proof. exact return_bare_roundtrip. Qed.
Print Assumptions C06_roundtrip_bare_return_partial.

Theorem C06_roundtrip_break_partial :
  forall (fixed : fixes) (lvl : nat) (s : pst) (r : list token) (e : list (perr * nat)),
  in_loop s = true ->
  at_toks s (toks_of_pieces (fmt_stmt fixed lvl (FmtAst.SBreak [])) ++ mk T_NL :: r) e ->
  is_ws (look0 (skip1 r)) = false ->
  exists s', parse_break_stmt s = Ok (Some Parser.SBreak) s' /\ at_toks s' (skip1 r) e /\ peek_ok s' (skip1 r).
Proof. exact break_roundtrip. Qed.
Print Assumptions C06_roundtrip_break_partial.

Theorem C06_roundtrip_typed_decl_partial :
  forall (B : benv) (fixed : fixes) (lvl : nat) (s : pst) (x : str) (t : fty) (ty : Pratt.ty) (r : list token) (e : list (perr * nat)),
  ident_text x = true -> fty_ty t = Some ty -> decl_ok B x s ->
  at_toks s (toks_of_pieces (fmt_stmt fixed lvl (FmtAst.STypedDecl x t [])) ++ mk T_NL :: r) e ->
  is_ws (look0 (skip1 r)) = false ->
  exists s', parse_typed_decl_stmt B s = Ok (Some (Parser.STypedDecl x (Some ty))) s' /\ at_toks s' (skip1 r) e /\ peek_ok s' (skip1 r).
Proof. exact typed_decl_roundtrip. Qed.
Print Assumptions C06_roundtrip_typed_decl_partial.

(* x = v with a variable as target (a[i] = v and m.k = v are not covered) *)
Theorem C06_roundtrip_assign_var_partial :
  forall (B : benv), (forall s t n, b_tyerr B s t n = false) ->
  forall (fixed : fixes) (lvl : nat) (s : pst) (x : str) (v : fexpr) (r : list token) (e : list (perr * nat)),
  ident_text x = true -> Parser.is_func x s = false -> scope_get x s = true -> top_ok (env_of B s) v ->
  at_toks s (toks_of_pieces (fmt_stmt fixed lvl (FmtAst.SAssign (FVar x) v [])) ++ mk T_NL :: r) e ->
  is_ws (look0 (skip1 r)) = false ->
  exists s', parse_assign_stmt B s = Ok (Some (Parser.SAssign (TVar x) (fexpr_tree v))) s' /\ at_toks s' (skip1 r) e /\ peek_ok s' (skip1 r).
Proof. exact assign_var_roundtrip. Qed.
Print Assumptions C06_roundtrip_assign_var_partial.

(* t = v  with t a variable followed by any chain of  [i]  and  .k  (parseAssignmentTarget's loop) *)
Theorem C06_roundtrip_assign_target_partial :
  forall (B : benv), (forall s t n, b_tyerr B s t n = false) ->
  forall (fixed : fixes) (lvl : nat) (s : pst) (t : fexpr) (x : str) (steps : list tstep) (v : fexpr) (r : list token) (e : list (perr * nat)),
  tgt_split t = Some (x, steps) -> ident_text x = true -> Parser.is_func x s = false -> scope_get x s = true ->
  Forall (step_ok (env_of B s)) steps -> top_ok (env_of B s) v ->
  at_toks s (toks_of_pieces (fmt_stmt fixed lvl (FmtAst.SAssign t v [])) ++ mk T_NL :: r) e ->
  is_ws (look0 (skip1 r)) = false ->
  exists s', parse_assign_stmt B s = Ok (Some (Parser.SAssign (fexpr_tree t) (fexpr_tree v))) s' /\ at_toks s' (skip1 r) e /\ peek_ok s' (skip1 r).
Proof. exact assign_target_roundtrip. Qed.
Print Assumptions C06_roundtrip_assign_target_partial.

(* ---------- non-vacuity: the hypotheses are satisfiable and the models run ---------- *)
(*   x := a[i + 1] * 2     and     print x [1 2] (len a)     in a scope that declares a and i *)
Definition C06_stmt_B : benv :=
  {| b_funcs := []; b_arity := []; b_globals := []; b_events := []; b_tyerr := fun _ _ _ => false |}.
Definition C06_stmt_state (toks : list token) : pst :=
  let v := fun n : string => {| v_name := s_ n; v_used := false; v_pos := 0 |} in
  {| cs := init_state toks;
     scs := [{| sc_vars := [v "a"%string; v "i"%string]; sc_ret := false; sc_retval := false; sc_loop := false |}];
     fns := [(s_ "print"%string, {| fi_nil := false; fi_ret := false; fi_arity := None; fi_params := [] |});
             (s_ "len"%string, {| fi_nil := false; fi_ret := true; fi_arity := Some 1; fi_params := [] |})];
     bodies := []; hds := [] |}.

Example C06_stmt_example :
  let v := fun n : string => FVar (s_ n) in
  let decl := FmtAst.SInferredDecl (s_ "x"%string)
                (FBin OpAsterisk false (FIdx (v "a"%string) (FBin OpPlus false (v "i"%string) (FNum 0 (s_ "1"%string)))) (FNum 0 (s_ "2"%string))) [] in
  let call := FmtAst.SCall (s_ "print"%string)
                [v "a"%string; FArr [k_el; k_el] [FNum 0 (s_ "1"%string); FNum 0 (s_ "2"%string)];
                 FGroup (FCall (s_ "len"%string) [v "a"%string])] [] in
  let t1 := toks_of_pieces (fmt_stmt current_fixes 0 decl) ++ [mk T_NL] in
  let t2 := toks_of_pieces (fmt_stmt current_fixes 0 call) ++ [mk T_NL] in
  (exists s', parse_inferred_decl_stmt C06_stmt_B (C06_stmt_state t1)
     = Ok (Some (Parser.SInferredDecl (s_ "x"%string)
                   (TBin T_ASTERISK (TIndex (TVar (s_ "a"%string)) (TBin T_PLUS (TVar (s_ "i"%string)) (TNum (s_ "1"%string)))) (TNum (s_ "2"%string))))) s'
     /\ rest (cs s') = [] /\ errs (cs s') = []) /\
  (exists s', parse_call_stmt C06_stmt_B (C06_stmt_state t2)
     = Ok (Some (Parser.SCallStmt (TCall (s_ "print"%string)
                   [TVar (s_ "a"%string); TArr [TNum (s_ "1"%string); TNum (s_ "2"%string)];
                    TGroup (TCall (s_ "len"%string) [TVar (s_ "a"%string)])]))) s'
     /\ rest (cs s') = [] /\ errs (cs s') = []).
Proof. vm_compute. split; eexists; repeat split; reflexivity. Qed.
