(* C01 — Expressions evaluate as the language definition prescribes (first
   instalment: evaluation order; precedence theorems are in Props/C01_prec.v,
   operator and short-circuit theorems in Props/C01_eval.v when present). *)
From Coq Require Import List.
From EvyV Require Import Base Ast Sem SemBasics.
Import ListNotations.

(* call arguments and array elements are evaluated left to right, each copied
   (basic) or shared (composite) right after its evaluation *)
Theorem C01_arguments_left_to_right : forall n P e x t,
  eval_exprs (S n) P e (x :: t) =
  (let* v := eval_expr n P e x in let* d := depth_fuel in let* c := copy_or_ref d v in
   let* r := eval_exprs n P e t in ret (c :: r)).
Proof. exact eval_exprs_cons. Qed.
Print Assumptions C01_arguments_left_to_right.
