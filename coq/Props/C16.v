(* C16 — Compiled bytecode behaves like the tree-walking evaluator.
   Property theorems only; proofs are [exact <lemma of CompileProofs>]. *)
From Coq Require Import ZArith NArith List String.
From EvyV Require Import Base Bytecode SymTab Vm VmProofs Compile CompileSem CompileProofs CompileWfProofs CompileStmtProofs CompileJumpProofs CompileHoleProofs CompileCtlProofs CompileSemProofs CompileSymProofs CompileLocProofs CompileCoverProofs.
Import ListNotations.
Open Scope list_scope.

(* The full statement (not proved): for every supported program, under the
   agreement guard excluding the recorded VM divergence classes, the VM run on
   the compiled code ends with every global equal to the evaluator's.  What is
   proved below: the compiler-side half for unsupported nodes, and the
   simulation for the expression fragment.  The rest of the tie is the
   implementation-level oracle of the harness (VM vs evaluator on every
   generated program). *)

(* ---------- unsupported nodes ---------- *)
(* The model in force mirrors /repo at HEAD (after e02ff38: a default case in
   Compile's switch, errors for unknown unary operators and untranslated
   assignment targets).  For EVERY program: if the compiler succeeds, every
   node of the program has a translation — nothing is silently left out. *)
Theorem C16_compile_rejects_unsupported : forall (p : slist) (st : cstate),
  compile p = COk st -> supported_slist p = true.
Proof. exact compile_rejects_unsupported. Qed.
Print Assumptions C16_compile_rejects_unsupported.

(* Regression lemmas: the compiler as it was before e02ff38 accepted programs
   it did not translate.  `print 1` (a FuncCallStmt) compiled to the EMPTY
   program without an error … *)
Theorem C16_compile_rejects_unsupported_before_fix :
  exists (p : slist) (st : cstate),
    compile_before_fix p = COk st /\ supported_slist p = false /\ ccode st = [] /\
    compile p = CErr ErrUnsupportedNode.
Proof.
  exists (SCons (SUnsupported (s_ "*parser.FuncCallStmt")) SNil). eexists.
  split; [vm_compute; reflexivity|]. split; [reflexivity|]. split; reflexivity.
Qed.
Print Assumptions C16_compile_rejects_unsupported_before_fix.

(* … and `m.a = 2` pushed the value and never consumed it (unbalanced stack). *)
Theorem C16_compile_dot_assign_unbalanced_before_fix :
  exists (p : slist) (st : cstate),
    compile_before_fix p = COk st /\ supported_slist p = false /\
    wf_check {| bcode := ccode st; nconsts := N.of_nat (List.length (cconsts st));
                gcount := st_global_count (csym st); lcount := st_local_count (csym st) |} = false /\
    compile p = CErr ErrUnsupportedNode.
Proof.
  exists (SCons (SAssign (EUnsupported (s_ "*parser.DotExpression")) (ENum PrimFloat.two)) SNil). eexists.
  split; [vm_compute; reflexivity|]. split; [reflexivity|]. split; vm_compute; reflexivity.
Qed.
Print Assumptions C16_compile_dot_assign_unbalanced_before_fix.

(* ---------- the expression fragment is compiled correctly ---------- *)
(* For every expression built from number/bool/string literals, array
   literals `[e1 e2 …]` (nested), map literals `{k1:e1 k2:e2 …}` (no key twice:
   len(Pairs) = len(Order); the value is the list of pairs in source order, as
   OpMap rebuilds it), global variables, unary - and !, the binary
   operators on numbers and strings, array concatenation `a + b` and
   repetition `a * n` (a bad count is an error: undefined), ==/!= as
   value.Equals (arrays and maps structurally), slices `x[a:b]` of strings
   and arrays (missing bounds are OpNone) and index reads `a[i]` on strings
   (by code point), arrays (negative indices count from the end) and maps
   (`m[k]` with a string key; an index error or a missing key leaves eval_expr
   undefined)  (efrag), compiled from any compiler state: wherever the emitted
   segment is placed in a program whose constant table starts with the
   compiler's constants, running the VM model from the segment's first
   instruction executes exactly the segment and leaves the stack as it was
   plus ONE value: the value of the direct big-step semantics eval_expr
   (IEEE binary64 as Coq primitive floats).  Guard (explicit): the VM stack
   has room for the expression's depth.  No size guard is needed any more: an
   index that does not fit 16 bits makes the compiler fail (e351c68). *)
Theorem C16_compile_correct_partial : forall e : expr, efrag e = true ->
  forall env st st' v,
    compile_expr true e st = COk st' -> eval_expr env e = Some v -> sym_static (csym st) ->
    csym st' = csym st /\
    exists seg newc,
      ccode st' = ccode st ++ seg /\ cconsts st' = cconsts st ++ newc /\
      forall p s more pre post,
        pcode p = pre ++ seg ++ post ->
        pconsts p = map const_value (cconsts st') ++ more ->
        ip s = N.of_nat (List.length pre) ->
        globals_hold env (csym st) (globals s) ->
        (N.of_nat (List.length (locals s)) + N.of_nat (List.length (ostack s)) + edepth e <= Gen.Opcodes.StackSize)%N ->
        exists n, vm_steps n p s =
                  Running {| ip := (ip s + N.of_nat (List.length seg))%N; ostack := v :: ostack s;
                             locals := locals s; globals := globals s |}.
Proof. exact compile_expr_correct. Qed.
Print Assumptions C16_compile_correct_partial.

(* ---------- straight-line programs are compiled correctly ---------- *)
(* For every top-level program of declarations `x := e` and assignments
   `x = e` of global variables with e in the expression fragment: if the
   compiler succeeds and the direct big-step semantics exec_slist of the
   statements is defined (no division by zero, no dynamic type contradicting
   the static annotation), then the VM model started by NewVM on the compiled
   program runs to the end of the code, halts there with an empty operand
   stack, and every global slot the compiler assigned to a variable holds the
   value the semantics gives that variable.  Guard: the deepest expression
   fits the VM stack. *)
Theorem C16_compile_correct_straightline : forall (p : slist) (st : cstate) (env' : genv),
  sfrag p = true -> compile p = COk st -> exec_slist (fun _ => None) p = Some env' ->
  (prog_depth p <= Gen.Opcodes.StackSize)%N ->
  let prog := program_of (bytecode_of st) in
  exists s, reaches prog (vm_init prog) s /\
            vm_step prog s = Halted s /\ ostack s = [] /\
            forall n y v, st_resolve n (csym st) = Some y -> env' n = Some v ->
                          nth_error (globals s) (N.to_nat (sidx y)) = Some v.
Proof. exact compile_correct_straightline. Qed.
Print Assumptions C16_compile_correct_straightline.

(* ---------- statements with control flow are compiled correctly ---------- *)
(* Fragment psfrag: a top-level sequence of declarations `x := e` and of
   statements built from assignments `x = e` to globals, `if c … {else if c …}
   [else …] end` chains, `while c … end`, `for range [start] stop [step] … end`
   (step ranges without a loop variable anywhere, and — at TOP LEVEL only —
   `for i := range …` WITH a loop variable, which the compiler makes a global:
   the semantics assigns none to i, then the index in every round; a zero step
   is a run-time error, so the semantics is undefined there; likewise
   `for x := range iterable` — and `for range iterable` without loop variable,
   anywhere — over the elements of an array, the characters of a string or the
   keys of a map, counted like the VM with a number starting at 0) and `break` (inside a loop only: nb_stmt), arbitrarily nested, all expressions in efrag
   (_partial: no loop variables inside blocks, no block-local declarations, no element stores `a[i] = e` / `m[k] = e`).  The boolean of a result of exec_l says that a break is
   under way; the innermost loop ends it.  The VM keeps the state of a range
   loop (index, step, stop) on the operand stack: the simulation carries the
   stack `base` below the statement, and OpDrop removes the state at the exit
   and after a break.  The semantics exec_l is a
   fuel-indexed big-step semantics defined in CompileSemProofs.v on top of
   eval_expr (IEEE primitive floats); a while loop consumes fuel per iteration.
   For every such program: if the compiler succeeds and the semantics is
   defined for SOME fuel (the program terminates without a run-time error),
   the VM model started by NewVM on the compiled program runs to the end of
   the code, halts there with an empty operand stack, and every global slot
   holds the value the semantics gives that variable.  Proof: the compiler's
   byte-level back-patching is shown to produce the layout LAY (lay_all; for a
   chain: the code with pending end jumps, LAYC false, is turned into the
   final one by the patching of compileIfStatement, layc_patch), and the
   simulation sim_all goes by induction on the fuel, re-entering a loop at
   its start pc after the back jump, leaving a chain through the end jump
   of the block that ran, and following a break jump to the end of its loop
   (lay_brk_patch: compileWhileStatement's patching of c.breaks gives every
   pending break jump of the body that target and changes nothing else). *)
Theorem C16_compile_correct_ctl_partial : forall (p : slist) (st : cstate) (fuel : nat) (env' : genv),
  psfrag p = true -> compile p = COk st -> exec_l fuel p (fun _ => None) = Some (env', false) ->
  (ldepth p <= Gen.Opcodes.StackSize)%N ->
  let prog := program_of (bytecode_of st) in
  exists s, reaches prog (vm_init prog) s /\
            vm_step prog s = Halted s /\ ostack s = [] /\
            forall n y v, st_resolve n (csym st) = Some y -> env' n = Some v ->
                          nth_error (globals s) (N.to_nat (sidx y)) = Some v.
Proof. exact compile_correct_ctl. Qed.
Print Assumptions C16_compile_correct_ctl_partial.

(* ---------- … with block-local variables ---------- *)
(* Fragment lpfrag: like psfrag, but declarations `x := e` and for loops WITH a
   loop variable may stand anywhere — at top level (the compiler makes the
   variable a global) and inside the blocks of if / else-if / else, while and
   for (the compiler makes it a LOCAL of the block's scope and gives it a slot
   of the VM's locals area; slots are reused once a block is closed) —, and
   assignments `x = e` go to whatever the name resolves to.  Expressions are
   in efrag and read globals and locals (_partial: no element
   stores `a[i] = e` / `m[k] = e` — Vm.v has value semantics for arrays and
   maps, its OpSetIndex only checks —, no function calls, hence no call frames).  The semantics lx_l
   (CompileSem.v) is the fuel-indexed big-step semantics of before over an
   environment WITH BLOCK SCOPES: a list of frames, innermost first, the last
   one the globals; a block pushes an empty frame and pops it at its end (also
   when a break leaves it); `x := e` binds in the innermost frame, `x = e`
   updates the innermost frame that has x, a loop variable lives in the frame
   of the block around the loop's body (declared once, before the first
   round, set in every round — like the compiler, which defines it in a scope
   of its own around the body's).  For every such program: if the compiler
   succeeds and the semantics is defined for SOME fuel, the VM model started
   by NewVM runs to the end of the code, halts there with an empty operand
   stack, and every global holds the value the semantics gives it.
   Proof (CompileLocProofs.v): the simulation relation RELs maps every frame
   of the environment to one scope of the compiler's symbol table (the
   compile-time scope stack, replayed by the layout judgment LY) and says that
   each VISIBLE name's slot — a global slot or a slot of the locals area —
   holds the frame's value.  A store to one name keeps the relation for all
   others because slots of simultaneously visible names are distinct
   (NOSHARE, from SymTabProofs.Inv: visible_no_sharing of C17); a slot reused
   by a later block is dead in the environment by then.  The stack guard
   counts the locals area: LocalCount + the deepest statement fit the stack. *)
Theorem C16_compile_correct_locals_partial : forall (p : slist) (st : cstate) (fuel : nat) (env' : senv),
  lpfrag p = true -> compile p = COk st -> lx_l fuel p [[]] = Some (env', false) ->
  (st_local_count (csym st) + ldepth p <= Gen.Opcodes.StackSize)%N ->
  let prog := program_of (bytecode_of st) in
  exists s, reaches prog (vm_init prog) s /\
            vm_step prog s = Halted s /\ ostack s = [] /\
            forall n y v, st_resolve n (csym st) = Some y -> slook n env' = Some v ->
                          nth_error (globals s) (N.to_nat (sidx y)) = Some v.
Proof. exact compile_correct_locals. Qed.
Print Assumptions C16_compile_correct_locals_partial.

(* ---------- how much of the compiler's input the fragment is ---------- *)
(* EVERY program the compiler accepts lies in the fragment lfrag, unless it has
   an element store `a[i] = e` / `m[k] = e`.  [plain_slist] (CompileSem.v)
   says: no assignment whose target is an index expression — and two shapes
   the parser never produces: a map literal with a key twice (len(Pairs) <>
   len(Order); "duplicated map key" is a parse error) and a block as a
   statement of its own.  (Function calls, typed declarations, `m.k`, and / or
   … have no translation at HEAD: C16_compile_rejects_unsupported.) *)
Theorem C16_compile_covered : forall (p : slist) (st : cstate),
  compile p = COk st -> plain_slist p = true -> lfrag_slist p = true.
Proof. exact compile_covered. Qed.
Print Assumptions C16_compile_covered.

(* … hence compile_correct_locals for every accepted program without element
   stores (_partial: element stores — Vm.v has value semantics for arrays and
   maps, its OpSetIndex only checks —; nb_slist: no break outside a loop, a
   parse error; termination without run-time error and the stack guard as
   before). *)
Theorem C16_compile_correct_plain_partial : forall (p : slist) (st : cstate) (fuel : nat) (env' : senv),
  compile p = COk st -> plain_slist p = true -> nb_slist p = true ->
  lx_l fuel p [[]] = Some (env', false) ->
  (st_local_count (csym st) + ldepth p <= Gen.Opcodes.StackSize)%N ->
  let prog := program_of (bytecode_of st) in
  exists s, reaches prog (vm_init prog) s /\
            vm_step prog s = Halted s /\ ostack s = [] /\
            forall n y v, st_resolve n (csym st) = Some y -> slook n env' = Some v ->
                          nth_error (globals s) (N.to_nat (sidx y)) = Some v.
Proof. exact compile_correct_plain. Qed.
Print Assumptions C16_compile_correct_plain_partial.

(* ---------- the compiler's output is well formed (straight-line fragment) ---------- *)
(* For every top-level program made of declarations `x := e` and assignments
   `x = e` with e in the expression fragment: IF THE COMPILER SUCCEEDS, what it
   emits satisfies the judgment WF of C17.  No size guard: operands beyond 16
   bits are compile errors at HEAD.  (_partial: programs with jumps —
   if/while/for and their back-patching — are not covered by this theorem;
   they are covered per emitted program by the verified validator wf_check of
   C17, which the C17 harness runs on the real compiler's output and Example
   C16_ex_program_wf below runs on the model.) *)
Theorem C16_compile_wf_partial : forall (p : slist) (st : cstate),
  sfrag p = true -> compile p = COk st ->
  WF {| bcode := out_code (bytecode_of st); nconsts := N.of_nat (List.length (out_consts (bytecode_of st)));
        gcount := out_gcount (bytecode_of st); lcount := out_lcount (bytecode_of st) |}.
Proof. exact compile_wf_partial. Qed.
Print Assumptions C16_compile_wf_partial.

(* Regression lemma: before e351c68, from a compiler state that already held
   65536 constants the literal 1 was compiled to `OpConstant 0` (Make
   truncated); the model in force rejects the same input. *)
Theorem C16_compile_wf_large_before_fix :
  exists st : cstate,
    N.of_nat (List.length (cconsts st)) = 65536%N /\
    match compile_expr false (ENum PrimFloat.one) st with
    | COk st' =>
        N.of_nat (List.length (cconsts st')) = 65537%N /\
        match decode1 (ccode st') with
        | Some (i, rest) => iop i = Gen.Opcodes.OpConstant /\ arg0 i = 0%N /\ rest = []
        | None => False
        end
    | CErr _ => False
    end /\
    compile_expr true (ENum PrimFloat.one) st = CErr ErrOperandRange.
Proof.
  exists {| ccode := []; cconsts := repeat (KNum PrimFloat.zero) (N.to_nat 65536); csym := new_symtab; cbreaks := [] |}.
  vm_compute. repeat split; reflexivity.
Qed.
Print Assumptions C16_compile_wf_large_before_fix.

(* ---------- the compiler's output is well formed: code with jumps ---------- *)
(* Fragment pfrag2 (= cfrag on every top-level statement): declarations
   `x := e` and `for x := range …` loops WITH a loop variable (step ranges and
   iterables) — at top level the compiler makes x a global, inside a block a
   LOCAL of the block's scope —, assignments `x = e` to globals and locals,
   if / else-if / else chains, while, break, `for range …` without a loop
   variable — arbitrarily nested, with all expressions in the expression
   fragment efrag (reads of globals and locals, array and map literals, index reads, slices;
   element stores `a[i] = e` / `m[k] = e` are in this fragment: for WF they are
   three expressions and OpSetIndex; by C17_compile_wf_all the fragment is
   every program the compiler accepts).  For every such program: if the compiler
   succeeds and leaves no pending break (a break outside a loop, which the
   parser rejects), its output satisfies WF with LocalCount = the
   nestedMaxIndex of the compiler's root table:
   - every jump operand the compiler back-patches (condition exits, end-of-if
     jumps, loop-back jumps, breaks) lands on an instruction boundary inside
     the program, and the stack states agree at every join (incl. the OpDrop
     of the range loops), counted ABOVE the LocalCount slots the VM reserves
     (WFg_shift: the transfer function does not depend on that base);
   - every OpGetLocal / OpSetLocal operand is below LocalCount: the symbol the
     compiler resolved or defined is live in the table at that moment
     (SymTabProofs.live_below_bound) and SymTabProofs.bound only grows along
     the compilation (bound_step; the relation SX of CompileSymProofs.v is
     what a compiled statement may do to the table).
   No size guard: out-of-range operands and jump targets are compile errors
   at HEAD (e351c68). *)
Theorem C16_compile_wf_ctl_partial : forall (p : slist) (st : cstate),
  pfrag2 p = true -> compile p = COk st -> cbreaks st = [] ->
  WF {| bcode := out_code (bytecode_of st); nconsts := N.of_nat (List.length (out_consts (bytecode_of st)));
        gcount := out_gcount (bytecode_of st); lcount := out_lcount (bytecode_of st) |}.
Proof. exact compile_wf_ctl2. Qed.
Print Assumptions C16_compile_wf_ctl_partial.

(* … hence C17's VM-safety theorem applies to everything the compiler
   produces for the fragment: no stack underflow, no out-of-range operand, no
   fetch off an instruction boundary, sp = LocalCount at the end. *)
Theorem C16_compile_vm_safe_ctl_partial : forall (p : slist) (st : cstate),
  pfrag2 p = true -> compile p = COk st -> cbreaks st = [] ->
  let prog := program_of (bytecode_of st) in
  forall s, reachable prog s ->
    (plcount prog <= sp_of s)%N /\
    match vm_step prog s with
    | Running _ | Failed _ => True
    | Halted s' => ip s' = N.of_nat (List.length (pcode prog)) /\ sp_of s' = plcount prog
    | Crashed c => c = CType
    end.
Proof.
  intros p st HF HC HB prog. apply wf_vm_safe_partial.
  unfold prog, info_of, program_of. cbn [pcode pconsts pgcount plcount]. rewrite map_length.
  apply (compile_wf_ctl2 p st HF HC HB).
Qed.
Print Assumptions C16_compile_vm_safe_ctl_partial.

(* ---------- regression lemmas for the repaired VM divergences ---------- *)
(* 8c3c11e: `a[1.5] = 9` used to store at index 1 (int() truncation); it is ErrIndexValue now *)
Theorem C16_vm_fractional_index_write_before_fix :
  let args := [VNum (PrimFloat.div (float_of_Z 3) (float_of_Z 2)); VArr [VNum (float_of_Z 1); VNum (float_of_Z 2); VNum (float_of_Z 3)]; VNum (float_of_Z 9)] in
  set_index_check_before_fix args = None /\ set_index_check args = Some (PErr EIndexValue).
Proof. vm_compute. split; reflexivity. Qed.
Print Assumptions C16_vm_fractional_index_write_before_fix.

(* 6a7e6f1: `"äb"[0]` used to be the byte "\xc3"; it is the character "ä" now *)
Theorem C16_vm_byte_strings_before_fix :
  index_value_before_fix (VStr [195; 164; 98]%N) (VNum (float_of_Z 0)) = POk (VStr [195]%N) /\
  index_value (VStr [195; 164; 98]%N) (VNum (float_of_Z 0)) = POk (VStr [195; 164]%N) /\
  utf8_decode [195; 164; 98]%N = [228; 98]%N.
Proof. vm_compute. repeat split; reflexivity. Qed.
Print Assumptions C16_vm_byte_strings_before_fix.

(* fc6a6b3: a step range with step 0 used to run zero times (OpStepRange pushed
   `false`); OpStepRange returns ErrRangeValue now *)
Theorem C16_vm_zero_step_before_fix :
  let stk := [VNum (float_of_Z 1); VNum (float_of_Z 0); VNum (float_of_Z 5)] in
  (exists rest, step_range 0 stk = Some (VBool false :: rest)) /\
  forall p, exec p {| ip := 0%N; ostack := stk; locals := []; globals := [] |} StepRange 0%N 3%N = Failed ERangeValue.
Proof. split; [eexists; vm_compute; reflexivity|intro p; vm_compute; reflexivity]. Qed.
Print Assumptions C16_vm_zero_step_before_fix.
(* (66b6227, repetition deep copy: this model has value semantics for arrays, the
   old sharing cannot be expressed in it; the class is guarded by the harness) *)

(* ---------- non-vacuity ---------- *)
Definition ex_ctl : slist :=
  SCons (SDecl (s_ "x") (ENum (float_of_Z 0)))
 (SCons (SDecl (s_ "s") (EStr (s_ "ab")))
 (SCons (SWhile (EBool true)
          (SCons (SAssign (EVar (s_ "x")) (EBin BPlus TNum TNum (EVar (s_ "x")) (ENum (float_of_Z 1))))
          (SCons (SIf (EBin BGt TNum TNum (EVar (s_ "x")) (ENum (float_of_Z 3))) (SCons SBreak SNil)
                      (CCons (EBin BEq TNum TNum (EVar (s_ "x")) (ENum (float_of_Z 2)))
                             (SCons (SForIter None TStr (EVar (s_ "s"))
                                       (SCons (SIf (EBool false) (SCons SBreak SNil) CNil NoElse) SNil)) SNil) CNil)
                      (Else (SCons (SForStep None ONoneE (ENum (float_of_Z 2)) ONoneE
                                      (SCons (SAssign (EVar (s_ "x")) (EBin BPlus TNum TNum (EVar (s_ "x")) (ENum (float_of_Z 0)))) SNil)) SNil))) SNil)))
 (SCons (SForStep (Some (s_ "i")) ONoneE (ENum (float_of_Z 3)) ONoneE
          (SCons (SIf (EBin BEq TNum TNum (EVar (s_ "i")) (ENum (float_of_Z 2))) (SCons SBreak SNil) CNil NoElse)
          (SCons (SAssign (EVar (s_ "x")) (EBin BPlus TNum TNum (EVar (s_ "x")) (EVar (s_ "i")))) SNil))) SNil))).

(* x := 0; s := 0; while x < 5: x = x + 1; if x % 2 == 1: s = s + x else s = s - 1 end end *)
Definition ex_sem : slist :=
  SCons (SDecl (s_ "x") (ENum (float_of_Z 0)))
 (SCons (SDecl (s_ "t") (ENum (float_of_Z 0)))
 (SCons (SWhile (EBin BLt TNum TNum (EVar (s_ "x")) (ENum (float_of_Z 5)))
          (SCons (SAssign (EVar (s_ "x")) (EBin BPlus TNum TNum (EVar (s_ "x")) (ENum (float_of_Z 1))))
          (SCons (SIf (EBin BEq TNum TNum (EBin BPercent TNum TNum (EVar (s_ "x")) (ENum (float_of_Z 2))) (ENum (float_of_Z 1)))
                      (SCons (SAssign (EVar (s_ "t")) (EBin BPlus TNum TNum (EVar (s_ "t")) (EVar (s_ "x")))) SNil)
                      CNil
                      (Else (SCons (SAssign (EVar (s_ "t")) (EBin BMinus TNum TNum (EVar (s_ "t")) (ENum (float_of_Z 1)))) SNil))) SNil))) SNil)).

Example C16_ex_sem_defined :
  psfrag ex_sem = true /\ (ldepth ex_sem <= Gen.Opcodes.StackSize)%N /\
  match exec_l 40 ex_sem (fun _ => None) with
  | Some (env, false) => env (s_ "x") = Some (VNum (float_of_Z 5)) /\ env (s_ "t") = Some (VNum (float_of_Z 7))
  | _ => False
  end /\
  match compile ex_sem with
  | COk st => match vm_run 2000 (program_of (bytecode_of st)) (vm_init (program_of (bytecode_of st))) with
              | FHalted s => nth_error (globals s) 1 = Some (VNum (float_of_Z 7))
              | _ => False
              end
  | CErr _ => False
  end.
Proof. vm_compute. repeat split; try reflexivity. discriminate. Qed.

(* x := 0; t := 0; while x < 6: x = x + 1
     if x == 1: t = t + 10 else if x == 2: t = t + 100 else if x == 3: t = t + 1000 else t = t + 1 end end *)
Definition ex_elif : slist :=
  let xeq k := EBin BEq TNum TNum (EVar (s_ "x")) (ENum (float_of_Z k)) in
  let tadd k := SCons (SAssign (EVar (s_ "t")) (EBin BPlus TNum TNum (EVar (s_ "t")) (ENum (float_of_Z k)))) SNil in
  SCons (SDecl (s_ "x") (ENum (float_of_Z 0)))
 (SCons (SDecl (s_ "t") (ENum (float_of_Z 0)))
 (SCons (SWhile (EBin BLt TNum TNum (EVar (s_ "x")) (ENum (float_of_Z 6)))
          (SCons (SAssign (EVar (s_ "x")) (EBin BPlus TNum TNum (EVar (s_ "x")) (ENum (float_of_Z 1))))
          (SCons (SIf (xeq 1%Z) (tadd 10%Z)
                      (CCons (xeq 2%Z) (tadd 100%Z) (CCons (xeq 3%Z) (tadd 1000%Z) CNil))
                      (Else (tadd 1%Z))) SNil))) SNil)).

Example C16_ex_elif_defined :
  psfrag ex_elif = true /\ (ldepth ex_elif <= Gen.Opcodes.StackSize)%N /\
  match exec_l 40 ex_elif (fun _ => None) with
  | Some (env, false) => env (s_ "x") = Some (VNum (float_of_Z 6)) /\ env (s_ "t") = Some (VNum (float_of_Z 1113))
  | _ => False
  end /\
  match compile ex_elif with
  | COk st => match vm_run 2000 (program_of (bytecode_of st)) (vm_init (program_of (bytecode_of st))) with
              | FHalted s => nth_error (globals s) 1 = Some (VNum (float_of_Z 1113))
              | _ => False
              end
  | CErr _ => False
  end.
Proof. vm_compute. repeat split; try reflexivity. discriminate. Qed.

(* x := 0; t := 0
   while true: x = x + 1
     if x == 2: t = t + 100 else if x == 4: break else t = t + 1 end
     t = t + 10
   end        -- x = 4, t = 1 + 10 + 100 + 10 + 1 + 10 = 132 *)
Definition ex_break : slist :=
  let xeq k := EBin BEq TNum TNum (EVar (s_ "x")) (ENum (float_of_Z k)) in
  let tadd k := SAssign (EVar (s_ "t")) (EBin BPlus TNum TNum (EVar (s_ "t")) (ENum (float_of_Z k))) in
  SCons (SDecl (s_ "x") (ENum (float_of_Z 0)))
 (SCons (SDecl (s_ "t") (ENum (float_of_Z 0)))
 (SCons (SWhile (EBool true)
          (SCons (SAssign (EVar (s_ "x")) (EBin BPlus TNum TNum (EVar (s_ "x")) (ENum (float_of_Z 1))))
          (SCons (SIf (xeq 2%Z) (SCons (tadd 100%Z) SNil)
                      (CCons (xeq 4%Z) (SCons SBreak SNil) CNil)
                      (Else (SCons (tadd 1%Z) SNil)))
          (SCons (tadd 10%Z) SNil)))) SNil)).

Example C16_ex_break_defined :
  psfrag ex_break = true /\ (ldepth ex_break <= Gen.Opcodes.StackSize)%N /\
  match exec_l 40 ex_break (fun _ => None) with
  | Some (env, false) => env (s_ "x") = Some (VNum (float_of_Z 4)) /\ env (s_ "t") = Some (VNum (float_of_Z 132))
  | _ => False
  end /\
  match compile ex_break with
  | COk st => match vm_run 2000 (program_of (bytecode_of st)) (vm_init (program_of (bytecode_of st))) with
              | FHalted s => nth_error (globals s) 1 = Some (VNum (float_of_Z 132))
              | _ => False
              end
  | CErr _ => False
  end.
Proof. vm_compute. repeat split; try reflexivity. discriminate. Qed.

(* x := 0; t := 0
   for range 5: x = x + 1
     for range 10 0 -4: t = t + x          // 10, 6, 2: three rounds
       if t > 12: break end end end        -- x = 5, t = 24 *)
Definition ex_for : slist :=
  let num k := ENum (float_of_Z k) in
  let add v e := SAssign (EVar (s_ v)) (EBin BPlus TNum TNum (EVar (s_ v)) e) in
  SCons (SDecl (s_ "x") (num 0%Z))
 (SCons (SDecl (s_ "t") (num 0%Z))
 (SCons (SForStep None ONoneE (num 5%Z) ONoneE
          (SCons (add "x" (num 1%Z))
          (SCons (SForStep None (OSome (num 10%Z)) (num 0%Z) (OSome (num (-4)%Z))
                    (SCons (add "t" (EVar (s_ "x")))
                    (SCons (SIf (EBin BGt TNum TNum (EVar (s_ "t")) (num 12%Z)) (SCons SBreak SNil) CNil NoElse) SNil))) SNil))) SNil)).

Example C16_ex_for_defined :
  psfrag ex_for = true /\ (ldepth ex_for <= Gen.Opcodes.StackSize)%N /\
  match exec_l 60 ex_for (fun _ => None) with
  | Some (env, false) => env (s_ "x") = Some (VNum (float_of_Z 5)) /\ env (s_ "t") = Some (VNum (float_of_Z 24))
  | _ => False
  end /\
  match compile ex_for with
  | COk st => match vm_run 4000 (program_of (bytecode_of st)) (vm_init (program_of (bytecode_of st))) with
              | FHalted s => nth_error (globals s) 1 = Some (VNum (float_of_Z 24)) /\ ostack s = []
              | _ => False
              end
  | CErr _ => False
  end.
Proof. vm_compute. repeat split; try reflexivity. discriminate. Qed.

(* t := 0
   for i := range 1 6: t = t + i
     if i == 4: break end end              -- t = 10, i = 4 (a global) *)
Definition ex_forlv : slist :=
  let num k := ENum (float_of_Z k) in
  SCons (SDecl (s_ "t") (num 0%Z))
 (SCons (SForStep (Some (s_ "i")) (OSome (num 1%Z)) (num 6%Z) ONoneE
          (SCons (SAssign (EVar (s_ "t")) (EBin BPlus TNum TNum (EVar (s_ "t")) (EVar (s_ "i"))))
          (SCons (SIf (EBin BEq TNum TNum (EVar (s_ "i")) (num 4%Z)) (SCons SBreak SNil) CNil NoElse) SNil))) SNil).

Example C16_ex_forlv_defined :
  psfrag ex_forlv = true /\ (ldepth ex_forlv <= Gen.Opcodes.StackSize)%N /\
  match exec_l 60 ex_forlv (fun _ => None) with
  | Some (env, false) => env (s_ "t") = Some (VNum (float_of_Z 10)) /\ env (s_ "i") = Some (VNum (float_of_Z 4))
  | _ => False
  end /\
  match compile ex_forlv with
  | COk st => match vm_run 4000 (program_of (bytecode_of st)) (vm_init (program_of (bytecode_of st))) with
              | FHalted s => globals s = [VNum (float_of_Z 10); VNum (float_of_Z 4)] /\ ostack s = []
              | _ => False
              end
  | CErr _ => False
  end.
Proof. vm_compute. repeat split; try reflexivity. discriminate. Qed.

(* a := [10 20 30]; x := a[1] + a[-1]; s := "hello"; c := s[1]; b := [[1 2] [3]]; y := b[0][1]
   -- x = 50, c = "e", y = 2 (array literals and index reads are in efrag) *)
Definition ex_arr : slist :=
  let num k := ENum (float_of_Z k) in
  let arr3 a b c := EArr (ECons a (ECons b (ECons c ENil))) in
  SCons (SDecl (s_ "a") (arr3 (num 10%Z) (num 20%Z) (num 30%Z)))
 (SCons (SDecl (s_ "x") (EBin BPlus TNum TNum (EIndex (EVar (s_ "a")) (num 1%Z)) (EIndex (EVar (s_ "a")) (num (-1)%Z))))
 (SCons (SDecl (s_ "s") (EStr (s_ "hello")))
 (SCons (SDecl (s_ "c") (EIndex (EVar (s_ "s")) (num 1%Z)))
 (SCons (SDecl (s_ "b") (EArr (ECons (EArr (ECons (num 1%Z) (ECons (num 2%Z) ENil))) (ECons (EArr (ECons (num 3%Z) ENil)) ENil))))
 (SCons (SDecl (s_ "y") (EIndex (EIndex (EVar (s_ "b")) (num 0%Z)) (num 1%Z))) SNil))))).

Example C16_ex_arr_defined :
  psfrag ex_arr = true /\ (ldepth ex_arr <= Gen.Opcodes.StackSize)%N /\
  match exec_l 20 ex_arr (fun _ => None) with
  | Some (env, false) => env (s_ "x") = Some (VNum (float_of_Z 50)) /\ env (s_ "c") = Some (VStr [101%N]) /\
                         env (s_ "y") = Some (VNum (float_of_Z 2))
  | _ => False
  end /\
  match compile ex_arr with
  | COk st => match vm_run 4000 (program_of (bytecode_of st)) (vm_init (program_of (bytecode_of st))) with
              | FHalted s => nth_error (globals s) 1 = Some (VNum (float_of_Z 50)) /\ nth_error (globals s) 3 = Some (VStr [101%N]) /\
                             nth_error (globals s) 5 = Some (VNum (float_of_Z 2))
              | _ => False
              end
  | CErr _ => False
  end.
Proof. vm_compute. repeat split; try reflexivity. discriminate. Qed.

(* t := 0; w := ""
   for x := range [3 4 5]: t = t + x end
   for c := range "ab": w = c + w end        -- t = 12, w = "ba", x = 5, c = "b" *)
Definition ex_foriter : slist :=
  let num k := ENum (float_of_Z k) in
  SCons (SDecl (s_ "t") (num 0%Z))
 (SCons (SDecl (s_ "w") (EStr (s_ "")))
 (SCons (SForIter (Some (s_ "x")) TArr (EArr (ECons (num 3%Z) (ECons (num 4%Z) (ECons (num 5%Z) ENil))))
          (SCons (SAssign (EVar (s_ "t")) (EBin BPlus TNum TNum (EVar (s_ "t")) (EVar (s_ "x")))) SNil))
 (SCons (SForIter (Some (s_ "c")) TStr (EStr (s_ "ab"))
          (SCons (SAssign (EVar (s_ "w")) (EBin BPlus TStr TStr (EVar (s_ "c")) (EVar (s_ "w")))) SNil)) SNil))).

Example C16_ex_foriter_defined :
  psfrag ex_foriter = true /\ (ldepth ex_foriter <= Gen.Opcodes.StackSize)%N /\
  match exec_l 60 ex_foriter (fun _ => None) with
  | Some (env, false) => env (s_ "t") = Some (VNum (float_of_Z 12)) /\ env (s_ "w") = Some (VStr [98%N; 97%N]) /\
                         env (s_ "x") = Some (VNum (float_of_Z 5))
  | _ => False
  end /\
  match compile ex_foriter with
  | COk st => match vm_run 4000 (program_of (bytecode_of st)) (vm_init (program_of (bytecode_of st))) with
              | FHalted s => globals s = [VNum (float_of_Z 12); VStr [98%N; 97%N]; VNum (float_of_Z 5); VStr [98%N]] /\ ostack s = []
              | _ => False
              end
  | CErr _ => False
  end.
Proof. vm_compute. repeat split; try reflexivity. discriminate. Qed.

(* n := 0; for range [7 8 9]: for range "ab": n = n + 1 end end   -- n = 6 *)
Definition ex_foriter0 : slist :=
  let num k := ENum (float_of_Z k) in
  SCons (SDecl (s_ "n") (num 0%Z))
 (SCons (SForIter None TArr (EArr (ECons (num 7%Z) (ECons (num 8%Z) (ECons (num 9%Z) ENil))))
          (SCons (SForIter None TStr (EStr (s_ "ab"))
                    (SCons (SAssign (EVar (s_ "n")) (EBin BPlus TNum TNum (EVar (s_ "n")) (num 1%Z))) SNil)) SNil)) SNil).

Example C16_ex_foriter0_defined :
  psfrag ex_foriter0 = true /\ (ldepth ex_foriter0 <= Gen.Opcodes.StackSize)%N /\
  match exec_l 60 ex_foriter0 (fun _ => None) with
  | Some (env, false) => env (s_ "n") = Some (VNum (float_of_Z 6))
  | _ => False
  end /\
  match compile ex_foriter0 with
  | COk st => match vm_run 4000 (program_of (bytecode_of st)) (vm_init (program_of (bytecode_of st))) with
              | FHalted s => globals s = [VNum (float_of_Z 6)] /\ ostack s = []
              | _ => False
              end
  | CErr _ => False
  end.
Proof. vm_compute. repeat split; try reflexivity. discriminate. Qed.

(* m := {a:1 b:2}; x := m["b"] + {c:5}["c"]; t := ""; for k := range m: t = t + k end
   -- x = 7, t = "ab" (map literals are in efrag; m[k] goes through index_value) *)
Definition ex_map : slist :=
  let num k := ENum (float_of_Z k) in
  SCons (SDecl (s_ "m") (EMap (PCons (s_ "a") (num 1%Z) (PCons (s_ "b") (num 2%Z) PNil)) 2%Z))
 (SCons (SDecl (s_ "x") (EBin BPlus TNum TNum (EIndex (EVar (s_ "m")) (EStr (s_ "b")))
                                             (EIndex (EMap (PCons (s_ "c") (num 5%Z) PNil) 1%Z) (EStr (s_ "c")))))
 (SCons (SDecl (s_ "t") (EStr (s_ "")))
 (SCons (SForIter (Some (s_ "k")) TMap (EVar (s_ "m"))
          (SCons (SAssign (EVar (s_ "t")) (EBin BPlus TStr TStr (EVar (s_ "t")) (EVar (s_ "k")))) SNil)) SNil))).

Example C16_ex_map_defined :
  psfrag ex_map = true /\ lpfrag ex_map = true /\ (ldepth ex_map <= Gen.Opcodes.StackSize)%N /\
  match exec_l 40 ex_map (fun _ => None) with
  | Some (env, false) => env (s_ "x") = Some (VNum (float_of_Z 7)) /\ env (s_ "t") = Some (VStr [97%N; 98%N]) /\
                         env (s_ "m") = Some (VMap [([97%N], VNum (float_of_Z 1)); ([98%N], VNum (float_of_Z 2))])
  | _ => False
  end /\
  match compile ex_map with
  | COk st => match vm_run 4000 (program_of (bytecode_of st)) (vm_init (program_of (bytecode_of st))) with
              | FHalted s => nth_error (globals s) 1 = Some (VNum (float_of_Z 7)) /\ nth_error (globals s) 2 = Some (VStr [97%N; 98%N]) /\ ostack s = []
              | _ => False
              end
  | CErr _ => False
  end.
Proof. vm_compute. repeat split; try reflexivity. discriminate. Qed.

(* a := [1 2 3]; b := a[1:] + [9] * 2; s := "hello"[1:3]; q := a[:2] == [1 2]; r := {x:a} == {x:[1 2 3]}
   -- b = [2 3 9 9], s = "el", q = true, r = true (slices, concatenation, repetition, structural ==) *)
Definition ex_slice : slist :=
  let num k := ENum (float_of_Z k) in
  let arr3 a b c := EArr (ECons a (ECons b (ECons c ENil))) in
  SCons (SDecl (s_ "a") (arr3 (num 1%Z) (num 2%Z) (num 3%Z)))
 (SCons (SDecl (s_ "b") (EBin BPlus TArr TArr (ESlice (EVar (s_ "a")) (OSome (num 1%Z)) ONoneE)
                                             (EBin BStar TArr TNum (EArr (ECons (num 9%Z) ENil)) (num 2%Z))))
 (SCons (SDecl (s_ "s") (ESlice (EStr (s_ "hello")) (OSome (num 1%Z)) (OSome (num 3%Z))))
 (SCons (SDecl (s_ "q") (EBin BEq TArr TArr (ESlice (EVar (s_ "a")) ONoneE (OSome (num 2%Z))) (EArr (ECons (num 1%Z) (ECons (num 2%Z) ENil)))))
 (SCons (SDecl (s_ "r") (EBin BEq TMap TMap (EMap (PCons (s_ "x") (EVar (s_ "a")) PNil) 1%Z)
                                           (EMap (PCons (s_ "x") (arr3 (num 1%Z) (num 2%Z) (num 3%Z)) PNil) 1%Z))) SNil)))).

Example C16_ex_slice_defined :
  psfrag ex_slice = true /\ lpfrag ex_slice = true /\ (ldepth ex_slice <= Gen.Opcodes.StackSize)%N /\
  match exec_l 40 ex_slice (fun _ => None) with
  | Some (env, false) => env (s_ "b") = Some (VArr [VNum (float_of_Z 2); VNum (float_of_Z 3); VNum (float_of_Z 9); VNum (float_of_Z 9)]) /\
                         env (s_ "s") = Some (VStr [101%N; 108%N]) /\ env (s_ "q") = Some (VBool true) /\ env (s_ "r") = Some (VBool true)
  | _ => False
  end /\
  match compile ex_slice with
  | COk st => match vm_run 4000 (program_of (bytecode_of st)) (vm_init (program_of (bytecode_of st))) with
              | FHalted s => nth_error (globals s) 2 = Some (VStr [101%N; 108%N]) /\ nth_error (globals s) 3 = Some (VBool true) /\
                             nth_error (globals s) 4 = Some (VBool true) /\ ostack s = []
              | _ => False
              end
  | CErr _ => False
  end.
Proof. vm_compute. repeat split; try reflexivity. discriminate. Qed.

(* a break outside a loop is outside the fragment *)
Example C16_ex_break_outside : psfrag (SCons SBreak SNil) = false.
Proof. reflexivity. Qed.

Example C16_ex_ctl_fragment :
  pfrag2 ex_ctl = true /\
  match compile ex_ctl with
  | COk st => cbreaks st = [] /\
      (let bc := bytecode_of st in
       wf_check {| bcode := out_code bc; nconsts := N.of_nat (List.length (out_consts bc));
                   gcount := out_gcount bc; lcount := out_lcount bc |} = true) /\
      match vm_run 2000 (program_of (bytecode_of st)) (vm_init (program_of (bytecode_of st))) with
      | FHalted s => nth_error (globals s) 0 = Some (VNum (float_of_Z 5))
      | _ => False
      end
  | CErr _ => False
  end.
Proof. vm_compute. repeat split; reflexivity. Qed.

(* x := 0
   while x < 3
     y := x + 1                         // local slot 0
     if y == 2: z := y * 2  x = x + z   // local slot 1
     else:      w := 1      x = x + w   // local slot 1 again (z is dead)
     end
     for i := range 2: x = x + i end    // loop variable: local slot 1
   end          // x = 4; LocalCount = 4 (Pop adds nestedMaxIndex and index) *)
Definition ex_locals : slist :=
  let num k := ENum (float_of_Z k) in
  let xadd e := SAssign (EVar (s_ "x")) (EBin BPlus TNum TNum (EVar (s_ "x")) e) in
  SCons (SDecl (s_ "x") (num 0%Z))
 (SCons (SWhile (EBin BLt TNum TNum (EVar (s_ "x")) (num 3%Z))
          (SCons (SDecl (s_ "y") (EBin BPlus TNum TNum (EVar (s_ "x")) (num 1%Z)))
          (SCons (SIf (EBin BEq TNum TNum (EVar (s_ "y")) (num 2%Z))
                      (SCons (SDecl (s_ "z") (EBin BStar TNum TNum (EVar (s_ "y")) (num 2%Z))) (SCons (xadd (EVar (s_ "z"))) SNil))
                      CNil
                      (Else (SCons (SDecl (s_ "w") (num 1%Z)) (SCons (xadd (EVar (s_ "w"))) SNil))))
          (SCons (SForStep (Some (s_ "i")) ONoneE (num 2%Z) ONoneE (SCons (xadd (EVar (s_ "i"))) SNil)) SNil)))) SNil).

Example C16_ex_locals_fragment :
  pfrag2 ex_locals = true /\
  match compile ex_locals with
  | COk st => cbreaks st = [] /\ out_lcount (bytecode_of st) = 4%N /\
      (let bc := bytecode_of st in
       wf_check {| bcode := out_code bc; nconsts := N.of_nat (List.length (out_consts bc));
                   gcount := out_gcount bc; lcount := out_lcount bc |} = true) /\
      match vm_run 2000 (program_of (bytecode_of st)) (vm_init (program_of (bytecode_of st))) with
      | FHalted s => nth_error (globals s) 0 = Some (VNum (float_of_Z 4))
      | _ => False
      end
  | CErr _ => False
  end.
Proof. vm_compute. repeat split; reflexivity. Qed.

(* the scoped semantics on ex_locals (block-local y, z / w sharing a slot, loop
   variable i inside the while body), and a loop variable nested in a for body
   with a shadowing declaration and a break:
   t := 0
   for i := range 3
     x := i * 10                      // local of the body
     for j := range [1 2 3]           // loop variable: local
       if j == 3: break end
       x := x + j                     // a NEW x in the inner body (shadows), dies with it
       t = t + x
     end
     t = t + x                        // the outer x, untouched
   end                                // t = (1+2) + 0 + (11+12) + 10 + (21+22) + 20 = 99 *)
Definition ex_nested : slist :=
  let num k := ENum (float_of_Z k) in
  let tadd e := SAssign (EVar (s_ "t")) (EBin BPlus TNum TNum (EVar (s_ "t")) e) in
  SCons (SDecl (s_ "t") (num 0%Z))
 (SCons (SForStep (Some (s_ "i")) ONoneE (num 3%Z) ONoneE
          (SCons (SDecl (s_ "x") (EBin BStar TNum TNum (EVar (s_ "i")) (num 10%Z)))
          (SCons (SForIter (Some (s_ "j")) TArr (EArr (ECons (num 1%Z) (ECons (num 2%Z) (ECons (num 3%Z) ENil))))
                    (SCons (SIf (EBin BEq TNum TNum (EVar (s_ "j")) (num 3%Z)) (SCons SBreak SNil) CNil NoElse)
                    (SCons (SDecl (s_ "x") (EBin BPlus TNum TNum (EVar (s_ "x")) (EVar (s_ "j"))))
                    (SCons (tadd (EVar (s_ "x"))) SNil))))
          (SCons (tadd (EVar (s_ "x"))) SNil)))) SNil).

Example C16_ex_locals_defined :
  lpfrag ex_locals = true /\
  match compile ex_locals with
  | COk st => (st_local_count (csym st) + ldepth ex_locals <= Gen.Opcodes.StackSize)%N /\
      match vm_run 2000 (program_of (bytecode_of st)) (vm_init (program_of (bytecode_of st))) with
      | FHalted s => globals s = [VNum (float_of_Z 4)] /\ ostack s = []
      | _ => False
      end
  | CErr _ => False
  end /\
  match lx_l 60 ex_locals [[]] with
  | Some (env, false) => slook (s_ "x") env = Some (VNum (float_of_Z 4)) /\ slook (s_ "y") env = None /\ List.length env = 1%nat
  | _ => False
  end.
Proof. vm_compute. repeat split; try reflexivity; discriminate. Qed.

Example C16_ex_nested_defined :
  lpfrag ex_nested = true /\
  match compile ex_nested with
  | COk st => (st_local_count (csym st) + ldepth ex_nested <= Gen.Opcodes.StackSize)%N /\
      match vm_run 4000 (program_of (bytecode_of st)) (vm_init (program_of (bytecode_of st))) with
      | FHalted s => nth_error (globals s) 0 = Some (VNum (float_of_Z 99)) /\ ostack s = []
      | _ => False
      end
  | CErr _ => False
  end /\
  match lx_l 80 ex_nested [[]] with
  | Some (env, false) => slook (s_ "t") env = Some (VNum (float_of_Z 99)) /\ slook (s_ "i") env = Some (VNum (float_of_Z 2)) /\
                         slook (s_ "x") env = None
  | _ => False
  end.
Proof. vm_compute. repeat split; try reflexivity; discriminate. Qed.

Example C16_ex_straightline_semantics :
  let p := SCons (SDecl (s_ "x") (ENum (float_of_Z 7)))
          (SCons (SDecl (s_ "b") (EBin BLt TNum TNum (EBin BPlus TNum TNum (EVar (s_ "x")) (ENum (float_of_Z 2))) (ENum (float_of_Z 30))))
          (SCons (SAssign (EVar (s_ "x")) (EUn UMinus (EVar (s_ "x")))) SNil)) in
  match exec_slist (fun _ => None) p with
  | Some env => env (s_ "x") = Some (VNum (float_of_Z (-7))) /\ env (s_ "b") = Some (VBool true)
  | None => False
  end /\ (prog_depth p <= Gen.Opcodes.StackSize)%N.
Proof. vm_compute. repeat split; try reflexivity. discriminate. Qed.

(* an element store is what plain excludes: a := [1 2]; a[0] = 5 compiles, and is not plain *)
Example C16_ex_store_not_plain :
  let p := SCons (SDecl (s_ "a") (EArr (ECons (ENum (float_of_Z 1)) (ECons (ENum (float_of_Z 2)) ENil))))
          (SCons (SAssign (EIndex (EVar (s_ "a")) (ENum (float_of_Z 0))) (ENum (float_of_Z 5))) SNil) in
  (match compile p with COk _ => True | CErr _ => False end) /\ plain_slist p = false /\ lfrag_slist p = false /\
  plain_slist ex_nested = true /\ plain_slist ex_slice = true /\ plain_slist ex_map = true.
Proof. vm_compute. repeat split; reflexivity. Qed.

Example C16_ex_wf_fragment :
  let p := SCons (SDecl (s_ "x") (ENum (float_of_Z 7)))
          (SCons (SDecl (s_ "b") (EBin BLt TNum TNum (EBin BPlus TNum TNum (EVar (s_ "x")) (ENum (float_of_Z 2))) (ENum (float_of_Z 30))))
          (SCons (SAssign (EVar (s_ "x")) (EUn UMinus (EVar (s_ "x")))) SNil)) in
  sfrag p = true /\ match compile p with COk st => List.length (ccode st) = 27%nat | CErr _ => False end.
Proof. vm_compute. split; reflexivity. Qed.

(* x := 7 already compiled; then (x + 2) * 3 < 30 and "ab" + "c" == "abc" *)
Definition ex_st : cstate :=
  match compile_stmt true (SDecl (s_ "x") (ENum (float_of_Z 7))) cinit with COk st => st | CErr _ => cinit end.
Definition ex_e : expr :=
  EBin BLt TNum TNum
       (EBin BStar TNum TNum (EGroup (EBin BPlus TNum TNum (EVar (s_ "x")) (ENum (float_of_Z 2)))) (ENum (float_of_Z 3)))
       (EUn UMinus (EUn UMinus (ENum (float_of_Z 30)))).
Definition ex_env : genv := fun n => if str_eqb n (s_ "x") then Some (VNum (float_of_Z 7)) else None.

Example C16_ex_fragment : efrag ex_e = true /\ eval_expr ex_env ex_e = Some (VBool true).
Proof. vm_compute. split; reflexivity. Qed.

Example C16_ex_runs :
  match compile_expr true ex_e ex_st with
  | COk st' =>
      let p := program_of (bytecode_of st') in
      match vm_run 100 p (vm_init p) with
      | FHalted s => ostack s = [VBool true] /\ nth_error (globals s) 0 = Some (VNum (float_of_Z 7))
      | _ => False
      end
  | CErr _ => False
  end.
Proof. vm_compute. split; reflexivity. Qed.

(* a whole program through the model: while/if/break/for with patched jumps
   is accepted by the verified validator of C17 *)
Definition ex_prog : slist :=
  SCons (SDecl (s_ "x") (ENum (float_of_Z 0)))
 (SCons (SWhile (EBool true)
          (SCons (SAssign (EVar (s_ "x")) (EBin BPlus TNum TNum (EVar (s_ "x")) (ENum (float_of_Z 1))))
          (SCons (SIf (EBin BGt TNum TNum (EVar (s_ "x")) (ENum (float_of_Z 3))) (SCons SBreak SNil) CNil NoElse) SNil)))
 (SCons (SForStep (Some (s_ "i")) ONoneE (ENum (float_of_Z 3)) ONoneE
          (SCons (SDecl (s_ "y") (EVar (s_ "i")))
          (SCons (SAssign (EVar (s_ "x")) (EBin BPlus TNum TNum (EVar (s_ "x")) (EVar (s_ "y")))) SNil))) SNil)).

Example C16_ex_program_wf :
  match compile ex_prog with
  | COk st =>
      let bc := bytecode_of st in
      wf_check {| bcode := out_code bc; nconsts := N.of_nat (List.length (out_consts bc));
                  gcount := out_gcount bc; lcount := out_lcount bc |} = true /\
      match vm_run 1000 (program_of bc) (vm_init (program_of bc)) with
      | FHalted s => nth_error (globals s) 0 = Some (VNum (float_of_Z 7))
      | _ => False
      end
  | CErr _ => False
  end.
Proof. vm_compute. split; reflexivity. Qed.
