(* C16 — Compiled bytecode behaves like the tree-walking evaluator. *)
From Coq Require Import ZArith NArith List String.
From EvyV Require Import Base Bytecode SymTab Vm Compile.
Import ListNotations.

(* The compiler accepts programs it does not translate: `print 1` (a
   FuncCallStmt) compiles to the empty program without an error. *)
Theorem C16_compile_rejects_unsupported_refuted :
  exists (p : slist) (st : cstate),
    compile p = COk st /\ supported_slist p = false /\ ccode st = [].
Proof.
  exists (SCons (SUnsupported (s_ "*parser.FuncCallStmt")) SNil). eexists.
  split; [vm_compute; reflexivity|]. split; reflexivity.
Qed.
Print Assumptions C16_compile_rejects_unsupported_refuted.
