(* C09 — Basic values are copied, composites are shared.
   Property theorems only; every proof is [exact <lemma>] of SemFresh / SemStore / SemPrivacy.
   Vocabulary (SemStoreBase): [wf s] = the heap holds nothing at or above hnext;
   [err_loc g l] = l is the cell bound to err or to errmsg in the global frame g;
   [basic_cells_stable s s'] = every cell that held a num/string/bool in s, other than those
   two, holds the same value in s'; [copy_rel N h' l c] = c is the copyOrRef of l (N = hnext
   before, h' = heap after); [no_err_decl P] = P declares no variable, parameter or loop
   variable named err / errmsg (the parser rejects such programs). *)
From Coq Require Import ZArith NArith PArith List String Bool Floats FMapPositive.
From EvyV Require Import Base Num Ast Omap Sem SemStoreBase SemFresh SemStore SemPrivacy.
Import ListNotations.
Local Open Scope positive_scope.

(* ====================================================================== *)
(* A1 — copyOrRef                                                          *)
(* ====================================================================== *)
Theorem C09_composite_shared : forall fuel l s v,
  hget (st_heap s) l = Some v -> is_composite v = true ->
  copy_or_ref (S fuel) l s = (Ok l, s).
Proof. exact composite_shared. Qed.
Print Assumptions C09_composite_shared.

Theorem C09_basic_copied : forall fuel l s v,
  hget (st_heap s) l = Some v -> is_basic v = true ->
  copy_or_ref (S fuel) l s = (Ok (hnext (st_heap s)), upd_heap (snd (halloc (st_heap s) v)) s).
Proof. exact basic_copied. Qed.
Print Assumptions C09_basic_copied.

Theorem C09_copy_or_ref_fresh : forall fuel l s c s',
  wf s -> copy_or_ref fuel l s = (Ok c, s') ->
  wf s' /\ heap_extends (st_heap s) (st_heap s') /\ s' = upd_heap (st_heap s') s /\
  copy_rel (hnext (st_heap s)) (st_heap s') l c /\
  match hget (st_heap s) l with
  | Some (HNum _ as v) | Some (HStr _ as v) | Some (HBool _ as v) =>
      hnext (st_heap s) <= c /\ hget (st_heap s) c = None /\ hget (st_heap s') c = Some v
  | Some (HArr _) | Some (HMap _) => c = l /\ s' = s
  | Some (HAny t i) =>
      hnext (st_heap s) <= c /\ hget (st_heap s) c = None /\
      exists i', hget (st_heap s') c = Some (HAny t i') /\ copy_rel (hnext (st_heap s)) (st_heap s') i i'
  | _ => False
  end.
Proof. exact copy_or_ref_fresh. Qed.
Print Assumptions C09_copy_or_ref_fresh.

(* ====================================================================== *)
(* A2 — globalErr is the only in-place mutation of a basic cell            *)
(* ====================================================================== *)
Theorem C09_in_place_only_err : forall P n,
  forallb func_ok (p_funcs P) = true ->
  (forall e x s r s', good_env e -> wf s -> eval_expr n P e x s = (r, s') -> basic_cells_stable s s') /\
  (forall e l s r s', good_env e -> wf s -> eval_exprs n P e l s = (r, s') -> basic_cells_stable s s') /\
  (forall e nm args s r s', good_env e -> wf s -> eval_call n P e nm args s = (r, s') -> basic_cells_stable s s') /\
  (forall e st s r s', good_env e -> stmt_ok st = true -> wf s ->
                       exec_stmt n P e st s = (r, s') -> basic_cells_stable s s') /\
  (forall e l s r s', good_env e -> stmts_ok l = true -> wf s ->
                      exec_stmts n P e l s = (r, s') -> basic_cells_stable s s') /\
  (forall e l s r s', good_env e -> stmts_ok l = true -> wf s ->
                      exec_block n P e l s = (r, s') -> basic_cells_stable s s') /\
  (forall e c b s r s', good_env e -> stmts_ok b = true -> wf s ->
                        exec_cond n P e c b s = (r, s') -> basic_cells_stable s s') /\
  (forall e c b s r s', good_env e -> stmts_ok b = true -> wf s ->
                        exec_while n P e c b s = (r, s') -> basic_cells_stable s s') /\
  (forall e var rg b s r s', good_env e -> name_ok var = true -> stmts_ok b = true -> wf s ->
                             exec_for n P e var rg b s = (r, s') -> basic_cells_stable s s').
Proof. exact in_place_only_err. Qed.
Print Assumptions C09_in_place_only_err.

Theorem C09_in_place_only_err_run : forall fuel P s0 o s1,
  no_err_decl P = true -> wf s0 -> run_program fuel P s0 = (o, s1) ->
  wf s1 /\ basic_cells_stable s0 s1.
Proof. exact in_place_only_err_run. Qed.
Print Assumptions C09_in_place_only_err_run.

Theorem C09_in_place_only_err_event : forall fuel P name args s0 o s1,
  no_err_decl P = true -> wf s0 -> handle_event fuel P name args s0 = (o, s1) ->
  wf s1 /\ basic_cells_stable s0 s1.
Proof. exact in_place_only_err_event. Qed.
Print Assumptions C09_in_place_only_err_event.

Theorem C09_basic_noninterference_partial : forall P n e target x s r s',
  forallb func_ok (p_funcs P) = true -> good_env e -> wf s ->
  exec_stmt n P e (SAssign target x) s = (r, s') ->
  forall l v, hget (st_heap s) l = Some v -> is_basic v = true -> ~ err_loc (st_globals s) l ->
              hget (st_heap s') l = Some v.
Proof. exact basic_noninterference_partial. Qed.
Print Assumptions C09_basic_noninterference_partial.

Theorem C09_wf_init : forall stop input ff ay, wf (init_state stop input ff ay).
Proof. exact wf_init. Qed.
Print Assumptions C09_wf_init.

(* ====================================================================== *)
(* A3 — privacy of the err cells (partial: see SemPrivacy.v)               *)
(* ====================================================================== *)
Theorem C09_old_assignment_aliases_err_refuted :
  exists (s1 s2 : state),
    s1 = after (exec_assign_nocopy 10 P0 [] nx (EVar n_err TBool)) (after (exec_stmt 10 P0 [] st_decl_x) s_init) /\
    s2 = after (exec_stmt 10 P0 [] st_fail) s1 /\
    frame_get nx (st_globals s1) = frame_get n_err (st_globals s1) /\
    read_global nx s1 = Some (HBool false) /\
    read_global nx s2 = Some (HBool true).
Proof. exact old_assignment_aliases_err_refuted. Qed.
Print Assumptions C09_old_assignment_aliases_err_refuted.

Theorem C09_priv_init : forall stop input ff ay, priv (init_state stop input ff ay).
Proof. exact priv_init. Qed.
Print Assumptions C09_priv_init.

Theorem C09_priv_reach : forall s, priv s ->
  forall l x, ~ bad s l -> reach (st_heap s) l x -> ~ err_cell s x.
Proof. exact priv_reach. Qed.
Print Assumptions C09_priv_reach.

Theorem C09_copy_or_ref_clean : forall fuel l s c s',
  priv s -> copy_or_ref fuel l s = (Ok c, s') ->
  priv s' /\ kinds_stable s s' /\ same_err s s' /\ clean s' c /\
  (forall v, hget (st_heap s) l = Some v -> not_box v ->
             exists v', hget (st_heap s') c = Some v' /\ not_box v').
Proof. exact copy_or_ref_clean. Qed.
Print Assumptions C09_copy_or_ref_clean.

Theorem C09_decl_binding_priv : forall d v n e s1 c s2 r s3,
  priv s1 -> env_clean s1 e -> name_ok n = true ->
  copy_or_ref d v s1 = (Ok c, s2) -> set_var n c e s2 = (r, s3) ->
  priv s3 /\ forall e', r = Ok e' -> env_clean s3 e'.
Proof. exact decl_binding_priv. Qed.
Print Assumptions C09_decl_binding_priv.

Theorem C09_assign_elem_priv : forall d v s1 c s2 la els k,
  priv s1 -> copy_or_ref d v s1 = (Ok c, s2) -> hget (st_heap s2) la = Some (HArr els) ->
  priv (upd_heap (hset (st_heap s2) la (HArr (list_set els k c))) s2).
Proof. exact assign_elem_priv. Qed.
Print Assumptions C09_assign_elem_priv.

Theorem C09_assign_key_priv : forall d v s1 c s2 la om k,
  priv s1 -> copy_or_ref d v s1 = (Ok c, s2) -> hget (st_heap s2) la = Some (HMap om) ->
  priv (upd_heap (hset (st_heap s2) la (HMap (oset k c om))) s2).
Proof. exact assign_key_priv. Qed.
Print Assumptions C09_assign_key_priv.

Theorem C09_store_err_priv : forall s l v0 v,
  priv s -> hget (st_heap s) l = Some v0 -> is_basic v0 = true -> same_kind v0 v ->
  priv (upd_heap (hset (st_heap s) l v) s).
Proof. exact store_err_priv. Qed.
Print Assumptions C09_store_err_priv.

Theorem C09_exprs_of_clean : forall (ev : expr -> M loc),
  (forall x s l s', priv s -> ev x s = (Ok l, s') -> priv s' /\ kinds_stable s s' /\ same_err s s') ->
  forall d l s cs s', priv s -> exprs_of ev d l s = (Ok cs, s') ->
  priv s' /\ kinds_stable s s' /\ same_err s s' /\ Forall (clean s') cs.
Proof. exact exprs_of_clean. Qed.
Print Assumptions C09_exprs_of_clean.

(* the whole-run invariant, stated, not proved *)
Definition C09_err_cells_private_full : Prop := err_cells_private_full.

(* ====================================================================== *)
(* A4 — fresh containers                                                   *)
(* ====================================================================== *)
Theorem C09_eindex_shares : forall n P e t a i s s0 s1 s2 la li els fi k l,
  tick s = (Ok tt, s0) ->
  eval_expr n P e a s0 = (Ok la, s1) ->
  eval_expr n P e i s1 = (Ok li, s2) ->
  hget (st_heap s2) la = Some (HArr els) ->
  hget (st_heap s2) li = Some (HNum fi) ->
  normalize_index fi (List.length els) false = Ok k ->
  nth_error els k = Some l ->
  eval_expr (S n) P e (EIndex t a i) s = (Ok l, s2).
Proof. exact eindex_shares. Qed.
Print Assumptions C09_eindex_shares.

Theorem C09_edot_shares : forall n P e t a key s s0 s1 la om l,
  tick s = (Ok tt, s0) ->
  eval_expr n P e a s0 = (Ok la, s1) ->
  hget (st_heap s1) la = Some (HMap om) ->
  oget key om = Some l ->
  eval_expr (S n) P e (EDot t a key) s = (Ok l, s1).
Proof. exact edot_shares. Qed.
Print Assumptions C09_edot_shares.

Theorem C09_eslice_unfold : forall n P e t a lo hi,
  eval_expr (S n) P e (ESlice t a lo hi) =
  (let* _ := tick in
   let* la := eval_expr n P e a in
   let* llo := match lo with Some y => let* l := eval_expr n P e y in ret (Some l) | None => ret None end in
   let* lhi := match hi with Some y => let* l := eval_expr n P e y in ret (Some l) | None => ret None end in
   let* va := load la in
   match va with
   | HArr els => slice_arr els llo lhi
   | HStr s =>
       let* (s0, e0) := slice_bounds llo lhi (List.length s) in
       alloc (HStr (firstn (e0 - s0) (skipn s0 s)))
   | _ => internal "expected string or array before ["
   end).
Proof. exact eslice_unfold. Qed.
Print Assumptions C09_eslice_unfold.

Theorem C09_slice_fresh : forall els llo lhi s c s',
  wf s -> slice_arr els llo lhi s = (Ok c, s') ->
  exists lo hi els',
    slice_bounds llo lhi (List.length els) s = (Ok (lo, hi), s) /\
    heap_extends (st_heap s) (st_heap s') /\ s' = upd_heap (st_heap s') s /\
    hnext (st_heap s) <= c /\ hget (st_heap s) c = None /\
    hget (st_heap s') c = Some (HArr els') /\
    Forall2 (copy_rel (hnext (st_heap s)) (st_heap s')) (firstn (hi - lo) (skipn lo els)) els'.
Proof. exact slice_fresh. Qed.
Print Assumptions C09_slice_fresh.

Theorem C09_concat_fresh : forall xs r ys s c s',
  wf s -> hget (st_heap s) r = Some (HArr ys) -> bin_arr BPlus xs r s = (Ok c, s') ->
  exists xs' ys',
    heap_extends (st_heap s) (st_heap s') /\ s' = upd_heap (st_heap s') s /\
    hnext (st_heap s) <= c /\ hget (st_heap s) c = None /\
    hget (st_heap s') c = Some (HArr (xs' ++ ys')) /\
    Forall2 (copy_rel (hnext (st_heap s)) (st_heap s')) xs xs' /\
    Forall2 (copy_rel (hnext (st_heap s)) (st_heap s')) ys ys'.
Proof. exact concat_fresh. Qed.
Print Assumptions C09_concat_fresh.

Theorem C09_repeat_fresh : forall xs r s c s',
  wf s -> bin_arr BAsterisk xs r s = (Ok c, s') ->
  heap_extends (st_heap s) (st_heap s') /\ s' = upd_heap (st_heap s') s /\
  (exists els', hget (st_heap s') c = Some (HArr els')) /\
  forall x, reach (st_heap s') c x -> hnext (st_heap s) <= x /\ hget (st_heap s) x = None.
Proof. exact repeat_fresh. Qed.
Print Assumptions C09_repeat_fresh.

(* ====================================================================== *)
(* Examples (vm_compute on concrete programs)                              *)
(* ====================================================================== *)
Definition v_ (n : string) (t : ty) : expr := EVar (s_ n) t.
Definition run_stmts (l : list stmt) : outcome * state :=
  run_program 100 {| p_funcs := []; p_handlers := []; p_stmts := l |} s_init.
Definition cell_of (n : string) (s : state) : option loc := frame_get (s_ n) (st_globals s).
Definition elems_of (n : string) (s : state) : option (list loc) :=
  match cell_of n s with
  | Some l => match hget (st_heap s) l with Some (HArr els) => Some els | _ => None end
  | None => None
  end.

(* x := 1; y := x; n := str2num "hi"; x = 2  — y still reads 1, err reads true: the hypotheses of
   C09_in_place_only_err_run hold (no_err_decl, wf_init) and so does its conclusion *)
Definition prog_alias : list stmt :=
  [ SDecl (s_ "x") TNum (ENum 1%float);
    SDecl (s_ "y") TNum (v_ "x" TNum);
    st_fail;
    SAssign (v_ "x" TNum) (ENum 2%float) ].
Example ex_alias_run :
  no_err_decl {| p_funcs := []; p_handlers := []; p_stmts := prog_alias |} = true /\
  fst (run_stmts prog_alias) = ODone /\
  read_global (s_ "y") (snd (run_stmts prog_alias)) = Some (HNum 1%float) /\
  read_global (s_ "x") (snd (run_stmts prog_alias)) = Some (HNum 2%float) /\
  read_global n_err (snd (run_stmts prog_alias)) = Some (HBool true) /\
  cell_of "x" (snd (run_stmts prog_alias)) <> cell_of "y" (snd (run_stmts prog_alias)).
Proof. vm_compute. repeat split; auto; discriminate. Qed.

(* the hypothesis of A2 is needed at the level of single statements: with a LOCAL variable named
   err (here the frame binds err to the cell of the global x), globalErr writes into that cell *)
Example ex_local_err_is_mutated :
  let s1 := after (exec_stmt 10 P0 [] st_decl_x) s_init in
  let lx := match frame_get nx (st_globals s1) with Some l => l | None => 1 end in
  let s2 := after (exec_stmt 10 P0 [[(n_err, lx)]] st_fail) s1 in
  read_global nx s1 = Some (HBool false) /\ read_global nx s2 = Some (HBool true) /\
  read_global n_err s2 = Some (HBool false).
Proof. vm_compute. auto. Qed.

(* a := [[1] 2]; b := a[0:2]; c := a + a; d := a * 2; e := a[0]
   - b, c, d are new array cells;
   - b[0] and c[0] ARE a[0] (inner array shared), b[1] and c[1] are new cells (num copied);
   - d[0] is a NEW inner array (deep copy);
   - e is bound to the cell of a[0] itself (arrays are shared by declaration) *)
Definition arr_a : expr :=
  EArr (TArr TAny) [EAny (EArr (TArr TNum) [ENum 1%float]) (TArr TNum); EAny (ENum 2%float) TNum].
Definition prog_arr : list stmt :=
  [ SDecl (s_ "a") (TArr (TArr TNum)) (EArr (TArr (TArr TNum)) [EArr (TArr TNum) [ENum 1%float]; EArr (TArr TNum) [ENum 2%float]]);
    SDecl (s_ "u") (TArr TNum) (EArr (TArr TNum) [ENum 5%float; ENum 6%float]);
    SDecl (s_ "b") (TArr (TArr TNum)) (ESlice (TArr (TArr TNum)) (v_ "a" (TArr (TArr TNum))) (Some (ENum 0%float)) (Some (ENum 2%float)));
    SDecl (s_ "c") (TArr (TArr TNum)) (EBin BPlus (TArr (TArr TNum)) (v_ "a" (TArr (TArr TNum))) (v_ "a" (TArr (TArr TNum))));
    SDecl (s_ "d") (TArr (TArr TNum)) (EBin BAsterisk (TArr (TArr TNum)) (v_ "a" (TArr (TArr TNum))) (ENum 2%float));
    SDecl (s_ "e") (TArr TNum) (EIndex (TArr TNum) (v_ "a" (TArr (TArr TNum))) (ENum 0%float));
    SDecl (s_ "w") (TArr TNum) (ESlice (TArr TNum) (v_ "u" (TArr TNum)) None None) ].
Definition s_arr : state := snd (run_stmts prog_arr).
Example ex_containers :
  fst (run_stmts prog_arr) = ODone /\
  (* b, c, d are distinct new cells *)
  cell_of "b" s_arr <> cell_of "a" s_arr /\ cell_of "c" s_arr <> cell_of "a" s_arr /\
  cell_of "d" s_arr <> cell_of "a" s_arr /\
  (* slicing and + share the inner arrays *)
  option_map (fun l => nth_error l 0) (elems_of "b" s_arr) = option_map (fun l => nth_error l 0) (elems_of "a" s_arr) /\
  option_map (fun l => nth_error l 0) (elems_of "c" s_arr) = option_map (fun l => nth_error l 0) (elems_of "a" s_arr) /\
  (* repetition does not *)
  option_map (fun l => nth_error l 0) (elems_of "d" s_arr) <> option_map (fun l => nth_error l 0) (elems_of "a" s_arr) /\
  (* e IS a[0] *)
  option_map Some (cell_of "e" s_arr) = option_map (fun l => nth_error l 0) (elems_of "a" s_arr) /\
  (* a slice of a num array has new element cells *)
  option_map (fun l => nth_error l 0) (elems_of "w" s_arr) <> option_map (fun l => nth_error l 0) (elems_of "u" s_arr).
Proof. vm_compute. repeat split; auto; discriminate. Qed.

(* copy_or_ref on concrete cells of that state: the array cell of a is returned as is, the num
   cell u[0] is copied to hnext *)
Example ex_copy_or_ref :
  wf s_arr /\
  (exists la, cell_of "a" s_arr = Some la /\ copy_or_ref 5 la s_arr = (Ok la, s_arr)) /\
  (exists l0, option_map (fun l => nth_error l 0) (elems_of "u" s_arr) = Some (Some l0) /\
              fst (copy_or_ref 5 l0 s_arr) = Ok (hnext (st_heap s_arr))).
Proof.
  split; [|split].
  - unfold s_arr, run_stmts.
    destruct (run_program 100 {| p_funcs := []; p_handlers := []; p_stmts := prog_arr |} s_init) as [o s1] eqn:E.
    refine (proj1 (in_place_only_err_run 100 {| p_funcs := []; p_handlers := []; p_stmts := prog_arr |}
                     s_init o s1 _ (wf_init _ _ _ _) E)).
    vm_compute. reflexivity.
  - eexists. split; vm_compute; reflexivity.
  - eexists. split; vm_compute; reflexivity.
Qed.

(* the privacy invariant on a concrete reachable state: after `x := err` (copying declaration)
   x is not an err cell *)
Example ex_decl_of_err_is_copy :
  let s1 := after (exec_stmt 10 P0 [] (SDecl nx TBool (EVar n_err TBool))) s_init in
  frame_get nx (st_globals s1) <> frame_get n_err (st_globals s1) /\
  read_global nx s1 = Some (HBool false).
Proof. vm_compute. split; auto; discriminate. Qed.
