(* C09 — Basic values are copied, composites are shared (first instalment; the
   store invariants are in SemStore.v when present). *)
From Coq Require Import ZArith List FMapPositive.
From EvyV Require Import Base Ast Sem SemBasics.

Theorem C09_copy_or_ref_copies_basic : forall n l s v,
  hget (st_heap s) l = Some v ->
  (match v with HNum _ | HStr _ | HBool _ => True | _ => False end) ->
  copy_or_ref (S n) l s = (Ok (hnext (st_heap s)), upd_heap (snd (halloc (st_heap s) v)) s).
Proof. exact copy_or_ref_basic. Qed.
Print Assumptions C09_copy_or_ref_copies_basic.

Theorem C09_copy_or_ref_shares_composite : forall n l s v,
  hget (st_heap s) l = Some v ->
  (match v with HArr _ | HMap _ => True | _ => False end) ->
  copy_or_ref (S n) l s = (Ok l, s).
Proof. exact copy_or_ref_composite. Qed.
Print Assumptions C09_copy_or_ref_shares_composite.

Theorem C09_allocation_is_fresh : forall h v l,
  hget h l <> None -> (forall k, hget h k <> None -> Pos.lt k (hnext h)) ->
  l <> fst (halloc h v) /\ hget (snd (halloc h v)) l = hget h l.
Proof. exact halloc_fresh. Qed.
Print Assumptions C09_allocation_is_fresh.
