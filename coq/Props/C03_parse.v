(* C03 (part) — parsing is total and every diagnostic is located: the parser.
   Property theorems only; every proof is [exact <lemma of ParserProofs>].

   Model: Parser.v (pkg/parser/parser.go, function by function) on top of Pratt.v
   (expression.go).  Abstracted: TYPING — at every site where the Go code consults the
   type of a node an arbitrary oracle (benv.b_tyerr : site -> tree -> position -> bool)
   decides whether a type error is reported; the model then does what the Go code does in
   that case (append the error; return nil where Go returns nil).  The theorems hold for
   EVERY oracle, hence for the real type checker, whatever it answers.  Modelled Go panic
   sites (nil FuncDefStmt in parseFuncCall, the type assertion in parseFunCallStatement,
   the default case of parseEmptyStmt) are the outcome CrashOut. *)
From Coq Require Import List NArith ZArith Bool Arith String.
From EvyV Require Import Base Pratt Parser ParserProofs.
From EvyV.Gen Require Import Prec.
Import ListNotations.
Local Open Scope nat_scope.

(* For EVERY list of tokens with positions (whether produced by the lexer or not), EVERY
   builtin table and EVERY typing oracle, the parser with the fuel of its entry point
   (2 x tokens + 10) returns a program, or a NON-EMPTY list of error positions:
   never a panic site (CrashOut), never OutOfFuel.  The argument is progress: every
   iteration of the statement loop, the block loop, the else-if loop, the parameter loops,
   the argument / element / pair loops and every recursive descent consumes a token. *)
Theorem C03_parse_total : forall B raw eof,
  (exists prog, parse B raw eof = Accept prog) \/
  (exists e es, parse B raw eof = Reject (e :: es)).
Proof. exact parse_total. Qed.
Print Assumptions C03_parse_total.

(* every reported position is the position of a token of the input (EOF included); the one exception is
   the wrong-argument-count error, whose blamed token (arg.Token()) the model does not mirror: (0, 0) *)
Theorem C03_parse_errors_located : forall B raw eof es,
  parse B raw eof = Reject es -> forall p, In p es -> In p (eof :: map snd raw) \/ p = (0, 0).
Proof. exact errors_located. Qed.
Print Assumptions C03_parse_errors_located.

(* the expression parser alone: with the fuel the statement parser hands it, it is total on
   every state and a returned tree means at least one token was consumed (no loop of the
   callers can spin) *)
Theorem C03_parse_expr_total : forall E c p c1,
  here c1 <= here c ->
  exists a c', parse_expr E (efuel c) p c1 = Some (a, c') /\ here c' <= here c1 /\ (a <> None -> here c' < here c1).
Proof. intros E c p c1 H. exact (expr_fuel_suffices E c p c1 H). Qed.
Print Assumptions C03_parse_expr_total.

(* a statement always consumes at least one token (error recovery included), for every
   nesting depth the fuel allows *)
Theorem C03_parse_statement_progress : forall B fuel s,
  2 * pos s + 1 <= fuel -> ct s <> T_EOF ->
  exists a s', parse_statement B fuel s = Ok a s' /\ pos s' < pos s.
Proof. exact stmt_total. Qed.
Print Assumptions C03_parse_statement_progress.

(* ---------- non-vacuity: concrete runs of the model ---------- *)
Definition tk (t : toktype) (s : string) (l c : nat) : token * position := ({| ttype := t; tlit := s_ s |}, (l, c)).
Definition B0 : benv :=
  {| b_funcs := [(s_ "print", false); (s_ "len", false)]; b_arity := [(s_ "print", None); (s_ "len", Some 1)]; b_globals := [s_ "err"];
     b_events := [(s_ "key", [TyStr])]; b_tyerr := fun _ _ _ => false |}.

(* x := 1 NL print x NL  is accepted *)
Example C03_parse_ex_accept :
  exists p, parse B0 [tk T_IDENT "x" 1 1; tk T_WS "" 1 2; tk T_DECLARE "" 1 3; tk T_WS "" 1 5; tk T_NUM_LIT "1" 1 6; tk T_NL "" 1 7;
                      tk T_IDENT "print" 2 1; tk T_WS "" 2 6; tk T_IDENT "x" 2 7; tk T_NL "" 2 8] (3, 1) = Accept p.
Proof. vm_compute. eexists. reflexivity. Qed.

(* x := 1 NL  : "x" declared but not used, reported at the declaration *)
Example C03_parse_ex_unused :
  parse B0 [tk T_IDENT "x" 1 1; tk T_WS "" 1 2; tk T_DECLARE "" 1 3; tk T_WS "" 1 5; tk T_NUM_LIT "1" 1 6; tk T_NL "" 1 7] (2, 1)
  = Reject [(1, 1)].
Proof. vm_compute. reflexivity. Qed.

(* if true NL <eof> : the block is empty and "end" is missing: both reported at EOF; an
   ILLEGAL token is reported first and dropped *)
Example C03_parse_ex_recovery :
  parse B0 [tk T_IF "" 1 1; tk T_WS "" 1 3; tk T_TRUE "" 1 4; tk T_NL "" 1 8] (2, 1) = Reject [(2, 1); (2, 1)] /\
  parse B0 [tk T_ILLEGAL "$" 1 1; tk T_NL "" 1 2] (2, 1) = Reject [(1, 1)].
Proof. vm_compute. split; reflexivity. Qed.

(* an oracle that objects everywhere still yields a located, non-empty rejection *)
Example C03_parse_ex_all_type_errors :
  parse {| b_funcs := b_funcs B0; b_arity := b_arity B0; b_globals := b_globals B0; b_events := b_events B0; b_tyerr := fun _ _ _ => true |}
        [tk T_IDENT "print" 1 1; tk T_WS "" 1 6; tk T_MINUS "" 1 7; tk T_NUM_LIT "1" 1 8; tk T_NL "" 1 9] (2, 1)
  = Reject [(1, 7); (1, 9)].
Proof. vm_compute. reflexivity. Qed.
