(* C06, round trip at block level (FormatParseBlockProofs.v), against Parser.v's parseStatement.
   (also: if / else if / else, for)

   C06_roundtrip_statement_partial: for every statement st that satisfies [sok fr G st], in every
   parser state s that stands on the tokens the formatter writes for st at any indentation level
   (followed by the end of the line and by any further input r), whose scope chain is G and whose
   frames are fr,
       parseStatement  returns exactly [stmt_tree st],  reports no error,  and leaves the cursor on
       the first token of the next line.
   C06_roundtrip_block_partial: the same for the statement list of a block (parseBlockWithEndTokens'
   loop), with the scope context threaded from statement to statement.

   _partial — the fragment is exactly the inductive definition [sok] / [boks]:
   - one-line statements: typed and inferred declarations, assignment to a variable or to  a[i]  m.k
     a[i][j].k ... (any chain of index and dot steps on a variable), call statements,
     return (with and without value), break; values / arguments / conditions in the expression
     fragment of C06_roundtrip.v ([top_ok], [item_ok]);
   - while statements, for statements (with and without loop variable, range with one, two or three
     expressions) and if / else if ... / else statements whose blocks are again such lists of
     statements (any nesting depth), blank lines between statements included (the formatter squeezes
     a run of blank statements into one line, and the tree compared is squeezed likewise:
     [body_trees]);
   - NOT covered: func, on, comments (Parser.v's trees do not carry
     them), whole programs (parse_program with the signature pre-pass).
   The scoping side conditions are no longer stated on parser states: they are the conditions of the
   declarative scope checker of ParserScope.v on the checker's context G (declare / cvisible /
   use_vars / the scope of a block is closed with every variable used), chained by scope_stmt /
   scope_block on the tree; b-pratt's simulation theorem stmt_sim is what transports them along the parser's run.
   Remaining semantic hypothesis: the typing oracle is silent (types are not modelled).  (That a call
   statement's first argument does not start with  = . : :=  is proved: rt_head_not_assign.) *)
From Coq Require Import List String NArith ZArith Bool Arith.
From EvyV Require Import Base FmtAst Format Pratt Parser ParserRules ParserScope FormatParse FormatParseListProofs
  FormatParseStmtProofs FormatParseTargetProofs FormatParseBlockProofs.
From EvyV.Gen Require Import Prec.
Import ListNotations.
Local Open Scope nat_scope.

Theorem C06_roundtrip_statement_partial :
  forall (B : benv), (forall s t n, b_tyerr B s t n = false) ->
  forall (fixed : fixes) (F : list (str * finfo)) (fr : frs) (G : ctx) (st : fstmt),
  sok B F fr G st ->
  forall (lvl fuel : nat) (s : pst) (r : list token),
  sz st <= fuel ->
  ST F s (toks_of_pieces (fmt_stmt fixed lvl st) ++ mk T_NL :: r) G fr ->
  is_ws (look0 (skip1 r)) = false ->
  exists s', parse_statement B fuel s = Ok (Some (stmt_tree st)) s' /\ at_toks s' (skip1 r) [] /\ peek_ok s' (skip1 r).
Proof. exact stmt_roundtrip. Qed.
Print Assumptions C06_roundtrip_statement_partial.

Theorem C06_roundtrip_block_partial :
  forall (B : benv), (forall s t n, b_tyerr B s t n = false) ->
  forall (fixed : fixes) (F : list (str * finfo)) (fr : frs) (G : ctx) (terms blank : bool) (body : list fstmt),
  boks B F fr G terms blank body ->
  forall (lvl f fuel : nat) (els : bool) (acc : list stmt) (s : pst) (endq : list token) (tk : token) (r' : list token),
  szb blank body <= f -> szb blank body < fuel ->
  skip1 endq = tk :: r' -> at_end els (ttype tk) = true ->
  ST F s (skip1 (body_toks fixed (S lvl) blank body ++ endq)) G fr ->
  exists s' G', block_loop (parse_statement B f) fuel els acc terms s
                = Ok (Block (rev acc ++ body_trees blank body) (terms || existsb always_terms (body_trees blank body))) s'
                /\ ST F s' (tk :: r') G' fr /\ frame_used G'.
Proof. exact body_roundtrip. Qed.
Print Assumptions C06_roundtrip_block_partial.

(* the else-if chain of an if statement (parseIfStatement's loop) *)
Theorem C06_roundtrip_else_if_partial :
  forall (B : benv), (forall s t n, b_tyerr B s t n = false) ->
  forall (fixed : fixes) (F : list (str * finfo)) (fr : frs) (G : ctx) (cbs : list cblock) (Gout : ctx),
  coks B F fr G cbs Gout ->
  forall (lvl f fuel : nat) (acc : list (option tree * block)) (s : pst) (endq : list token) (tk : token) (r' : list token),
  S (szc cbs) <= f -> List.length cbs < fuel ->
  skip1 endq = tk :: r' -> at_end true (ttype tk) = true ->
  (ttype tk = T_ELSE -> ttype (peek_of (tk :: r')) <> T_IF) ->
  ST F s (skip1 (elif_toks fixed lvl cbs ++ endq)) G fr ->
  exists s', else_if_loop B (parse_statement B f) fuel f acc s = Ok (rev acc ++ map cb_tree cbs) s' /\ ST F s' (tk :: r') Gout fr.
Proof. exact branches_roundtrip. Qed.
Print Assumptions C06_roundtrip_else_if_partial.

(* ---------- non-vacuity ---------- *)
(* the side conditions are satisfiable:   while true / break / end   in a scope without variables *)
Example C06_block_sok_example :
  forall B, sok B [] [(false, false, false)] [[]] (FmtAst.SWhile (FBool true) [] [FmtAst.SBreak []] []).
Proof.
  intros B. eapply sok_while with (G1 := [[]; []]).
  - left. vm_compute. repeat split; constructor.
  - discriminate.
  - reflexivity.
  - eapply boks_cons with (G' := [[]; []]); [reflexivity | apply sok_break; reflexivity | reflexivity |].
    apply boks_nil. reflexivity.
Qed.

(* and the models run:  the tokens of
       while i < 3
           i = i + 1

           if i == 1
               break
           else if i == 2
               i = 0
           else
               while true
                   break
               end
           end
       end
   parse back to the statement's tree *)
Definition C06_block_B : benv :=
  {| b_funcs := []; b_arity := []; b_globals := []; b_events := []; b_tyerr := fun _ _ _ => false |}.
Definition C06_block_state (toks : list token) : pst :=
  {| cs := Nat.iter 1 (fun c => c) (advance (init_state (mk T_NL :: toks)));
     scs := [{| sc_vars := [{| v_name := s_ "i"%string; v_used := false; v_pos := 0 |}]; sc_ret := false; sc_retval := false; sc_loop := false |}];
     fns := []; bodies := []; hds := [] |}.

Example C06_block_example :
  let i := FVar (s_ "i"%string) in
  let num := fun n : string => FNum 0%Z (s_ n) in
  let w := FmtAst.SWhile (FBin OpLt false i (num "3"%string)) []
             [FmtAst.SAssign i (FBin OpPlus false i (num "1"%string)) [];
              FmtAst.SEmpty []; FmtAst.SEmpty [];
              FmtAst.SIf (CBlock (FBin OpEq false i (num "1"%string)) [] [FmtAst.SBreak []])
                         [CBlock (FBin OpEq false i (num "2"%string)) [] [FmtAst.SAssign i (num "0"%string) []]]
                         (Some ([], [FmtAst.SWhile (FBool true) [] [FmtAst.SBreak []] []])) []] [] in
  exists s', parse_statement C06_block_B 20 (C06_block_state (toks_of_pieces (fmt_stmt current_fixes 0 w) ++ [mk T_NL]))
             = Ok (Some (stmt_tree w)) s' /\ rest (cs s') = [] /\ errs (cs s') = [].
Proof. vm_compute. eexists; repeat split; reflexivity. Qed.
