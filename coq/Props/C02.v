(* C02 — Accepted programs never go wrong (type soundness).
   Property theorems only; every proof is [exact <lemma of SemSound>].

   wt_program (Static.v) is the certificate checker run on the tree exported
   from parser.Parse: it re-checks the parser's type annotations and Any
   wrappers.  "Going wrong" = the run ends in OErr (EInternal _) (an
   ErrInternal-wrapped error) or OErr (EHostCrash _) (a Go panic).

   STATUS.  Two fragments of the language are proved, both for every program,
   every fuel and every well-typed start state:
   - [s1_program] (strict): everything of [s2_program] with `any` never inside
     a composite type ([]any, {}any, [][]any ... do not occur; `any` variables,
     any-wrapped arguments and type assertions do).  C02_soundness_partial: NO
     run ends in an internal error or a host crash.
   - [s2_program]: literals, variables, unary/binary operators, arrays and maps
     of every value type (literals, index, slice, dot, concatenation,
     repetition, ==), any-wrapping and type assertion, declarations, assignment
     to variables / array elements / map entries (index and dot targets),
     calls of the built-ins Sem.v models (print printf sprint sprintf read cls sleep
     len has del typeof str2num str2bool exit panic join split upper lower index trim
     replace startswith endswith min max abs sqrt floor ceil round pow log sin cos atan2
     rand rand1 hsl, the graphics calls circle width move line rect color colour stroke
     fill linecap text, and test) and of the program's own functions
     (fixed and variadic parameters, return with and without value, recursion,
     reads and assignments of globals), if / else, while, for over step
     ranges, arrays, strings and maps, break.  C02_soundness_modulo_overflow_partial:
     no run ends in an internal error, and the only host crash is the stack
     overflow of String/Equals/deepCopy on a value that contains itself.
   Event handlers (C02_handlers_partial, C02_handlers_modulo_overflow_partial): an event
   delivered in the state a normally ended run (or an earlier event) leaves is handled
   without going wrong.  Outside both fragments: calls of the eight built-ins Sem.v does not model
   (repr clear grid gridn poly ellipse dash font; C02_builtins_outside_fragment computes the list
   from the signature table).  The model answers ENeedOracle where the implementation consults
   something the model does not compute (number formatting, fmt.Sprintf on numbers or non-printable
   strings, libm, the PRNG, unicode case mapping, NaN / signed-zero min/max, huge allocations),
   EOutOfFuel when the fuel is used up: such a run is NOT going wrong in the theorems, which
   therefore say nothing about what the implementation does from that point on.
   The full statement [soundness_full] is REFUTED
   on the model (and on the implementation): C02_soundness_full_refuted. *)
From Coq Require Import ZArith NArith List String Bool.
From EvyV Require Import Base Num Ast Omap Sem Static SemSound.
Import ListNotations.
Open Scope Z_scope.

(* ---------- the full statements (NOT proved; the first one is false) ---------- *)
Definition soundness_full : Prop :=
  forall P, wt_program P = true ->
  forall fuel s0, start_ok true P s0 -> ~ goes_wrong (fst (run_program fuel P s0)).

(* what remains plausible for the whole language: no internal error, and the
   only host crash is the exhaustion of the host stack by a value that
   contains itself (SemSound.overflow_reason).  Proved below for s2_program. *)
Definition soundness_modulo_overflow_full (wt' : program -> bool) : Prop :=
  forall P, wt' P = true ->
  forall fuel s0, start_ok false P s0 -> ~ goes_wrong_badly (fst (run_program fuel P s0)).

(* ---------- proved: soundness on the strict fragment ---------- *)
Theorem C02_soundness_partial : forall P,
  wt_program P = true -> s1_program P = true ->
  forall fuel s0, start_ok true P s0 -> ~ goes_wrong (fst (run_program fuel P s0)).
Proof. exact soundness_stage1. Qed.
Print Assumptions C02_soundness_partial.

(* ---------- proved: soundness modulo stack overflow on the wide fragment ---------- *)
Theorem C02_soundness_modulo_overflow_partial : forall P,
  wt_program P = true -> s2_program P = true ->
  forall fuel s0, start_ok false P s0 -> ~ goes_wrong_badly (fst (run_program fuel P s0)).
Proof. exact soundness_stage2. Qed.
Print Assumptions C02_soundness_modulo_overflow_partial.

(* ---------- proved: event handlers ---------- *)
(* the state a normally ended run leaves is again a well-typed start state ... *)
Theorem C02_run_leaves_start_state : forall strict P,
  wt_program P = true -> frag strict P = true ->
  forall fuel s0, start_ok strict P s0 ->
    (forall e, fst (run_program fuel P s0) <> OErr e) -> start_ok strict P (snd (run_program fuel P s0)).
Proof. exact run_leaves_start_ok. Qed.
Print Assumptions C02_run_leaves_start_state.

(* ... and an event delivered in such a state to a handler of the program, with at least as many
   payload values as the handler has parameters, is handled without going wrong and leaves such a
   state again (Evaluator.HandleEvent; frag true = s1_program, frag false = s2_program) *)
Theorem C02_handlers_partial : forall P,
  wt_program P = true -> s1_program P = true ->
  forall fuel name args s0 h, start_ok true P s0 ->
    find_handler name (p_handlers P) = Some h -> (List.length (h_params h) <= List.length args)%nat ->
    ~ goes_wrong (fst (handle_event fuel P name args s0)) /\
    ((forall e, fst (handle_event fuel P name args s0) <> OErr e) ->
     start_ok true P (snd (handle_event fuel P name args s0))).
Proof. exact handlers_stage1. Qed.
Print Assumptions C02_handlers_partial.

Theorem C02_handlers_modulo_overflow_partial : forall P,
  wt_program P = true -> s2_program P = true ->
  forall fuel name args s0 h, start_ok false P s0 ->
    find_handler name (p_handlers P) = Some h -> (List.length (h_params h) <= List.length args)%nat ->
    ~ goes_wrong_badly (fst (handle_event fuel P name args s0)) /\
    ((forall e, fst (handle_event fuel P name args s0) <> OErr e) ->
     start_ok false P (snd (handle_event fuel P name args s0))).
Proof. exact handlers_stage2. Qed.
Print Assumptions C02_handlers_modulo_overflow_partial.

(* the start states of Evaluator.Eval are well typed (for both fragments), whatever
   the stop point, the input, and the two flags *)
Theorem C02_init_state_ok : forall strict P stop input failfast after_yield,
  wt_program P = true -> start_ok strict P (init_state stop input failfast after_yield).
Proof. exact init_state_start_ok. Qed.
Print Assumptions C02_init_state_ok.

(* ---------- proved: preservation (both fragments: strict = true / false) ---------- *)
(* under a store typing S (cell ↦ dynamic type) that types the heap and the
   environment, an expression of static type t evaluates — if it returns — to a
   cell of dynamic type t under an extension of S that still types heap and
   environment; an error is never internal and is a host crash only for
   strict = false and a stack overflow on a cyclic value *)
Theorem C02_preservation_partial : forall strict Gg,
  (forall n t, sget n global_frame0 = Some t -> sget n Gg = Some t) ->   (* Gg: the program's global frame *)
  forall n P e x G t S s,
  ety (p_funcs P) G x = Some t -> s1_expr strict x = true -> genv_ok strict Gg P G -> inv strict Gg S G e s ->
  match eval_expr n P e x s with
  | (Ok l, s') => exists S', ext S S' /\ inv strict Gg S' G e s' /\ sfind S' l = Some t
  | (Er er, _) => safe_err strict er
  end.
Proof. exact preservation_generic. Qed.
Print Assumptions C02_preservation_partial.

(* the signature lemma of the built-ins of the fragment (Static.s1_builtins; strict = true / false):
   called with argument cells of the argument types the checker accepted for its signature, a
   built-in returns a cell of the signature's result type (none: a none cell) under an extension of
   the store typing that still types heap and environment, or ends with an error that is not
   internal and is a host crash only for strict = false and a stack overflow on a cyclic value
   (String() of a composite printf / sprintf / print / join operand).  Evy panics ("bad arguments"
   of printf / sprintf without a string format, of hsl, rand, len), exit, and ENeedOracle are such
   errors. *)
Theorem C02_builtin_signature_partial : forall strict Gg P S G e s name vals m sg ts,
  builtin name e vals = Some m -> mem_str name s1_builtins = true -> builtin_sig name = Some sg ->
  sig_args_ok sg ts = true -> Forall2 (fun l t => sfind S l = Some t) vals ts ->
  genv_ok strict Gg P G -> inv strict Gg S G e s ->
  match m s with
  | (Ok r, s') => exists S' l, r = Some l /\ ext S S' /\ inv strict Gg S' G e s' /\ sfind S' l = Some (fs_ret sg)
  | (Er er, _) => safe_err strict er
  end.
Proof. exact builtin_sound. Qed.
Print Assumptions C02_builtin_signature_partial.

(* a value stored in an any carries a concrete non-any type, and its content
   has exactly that dynamic type; any-cells occur only at type any *)
Theorem C02_any_cells_concrete : forall strict S h l,
  heap_ok strict S h -> sfind S l = Some TAny ->
  exists u i v, hget h l = Some (HAny u i) /\ u <> TAny /\ sfind S i = Some u /\
                hget h i = Some v /\ cell_ok S v u.
Proof. exact any_cells_concrete. Qed.
Print Assumptions C02_any_cells_concrete.

Theorem C02_any_cells_only_at_any : forall strict S h l u i,
  heap_ok strict S h -> hget h l = Some (HAny u i) -> forall t, sfind S l = Some t -> t = TAny.
Proof. exact any_cells_only_at_any. Qed.
Print Assumptions C02_any_cells_only_at_any.

(* typeof: the Any node tags its cell with its annotation (which wt forces to
   be the static type of the wrapped expression, whose value has that dynamic
   type by preservation); copying the argument keeps the tag; typeof returns
   the text of the tag.  These three hold for all programs. *)
Theorem C02_any_node_tags_with_annotation : forall n P e a t s l s',
  eval_expr n P e (EAny a t) s = (Ok l, s') -> exists i, hget (st_heap s') l = Some (HAny t i).
Proof. exact eany_tag. Qed.
Print Assumptions C02_any_node_tags_with_annotation.

Theorem C02_argument_copy_keeps_tag : forall d l s l' s' u i,
  copy_or_ref d l s = (Ok l', s') -> hget (st_heap s) l = Some (HAny u i) ->
  exists i', hget (st_heap s') l' = Some (HAny u i').
Proof. exact copy_or_ref_tag. Qed.
Print Assumptions C02_argument_copy_keeps_tag.

Theorem C02_typeof_prints_tag : forall e l u i s,
  hget (st_heap s) l = Some (HAny u i) ->
  exists m r s', builtin (s_ "typeof") e [l] = Some m /\ m s = (Ok (Some r), s') /\
                 hget (st_heap s') r = Some (HStr (ty_str u)).
Proof. exact typeof_any_tag. Qed.
Print Assumptions C02_typeof_prints_tag.

(* ---------- example programs (as the Go harness exports them) ---------- *)
Definition v_ (n : string) (t : ty) : expr := EVar (s_ n) t.
(* number literals travel as their IEEE bit patterns, as in the export *)
Definition n0 : expr := ENum (float_of_bits 0).
Definition n1 : expr := ENum (float_of_bits 4607182418800017408).
Definition n2 : expr := ENum (float_of_bits 4611686018427387904).
Definition s0_ : state := init_state None [] false false.

(*  x := 1 / a := [1 2] / for i := range 2 / a[i] = a[i] + x / end / print a (len a)  *)
Definition ex_ok : program :=
  {| p_funcs := []; p_handlers := [];
     p_stmts :=
       [SDecl (s_ "x") TNum n1;
        SDecl (s_ "a") (TArr TNum) (EArr (TArr TNum) [n1; n2]);
        SFor (Some (s_ "i")) TNum (RStep None n2 None)
          [SAssign (EIndex TNum (v_ "a" (TArr TNum)) (v_ "i" TNum))
                   (EBin BPlus TNum (EIndex TNum (v_ "a" (TArr TNum)) (v_ "i" TNum)) (v_ "x" TNum))];
        SCallStmt (s_ "print")
          [EAny (v_ "a" (TArr TNum)) (TArr TNum);
           EAny (EGroup (ECall (s_ "len") TNum [EAny (v_ "a" (TArr TNum)) (TArr TNum)])) TNum]] |}.

(* non-vacuity of C02_soundness_partial: a program with a loop, an element
   assignment, arithmetic, any-wrapped arguments and two built-ins satisfies
   both hypotheses, and its run (finished, not cut by the fuel) prints [2 3] 2 *)
Example C02_ex_ok_hyps : wt_program ex_ok = true /\ s1_program ex_ok = true.
Proof. vm_compute. split; reflexivity. Qed.

Example C02_ex_ok_run :
  let '(o, s) := run_program 200 ex_ok s0_ in
  o = ODone /\
  match st_trace s with [EvPrint p] => pieces_str p = Some (s_ "[2 3] 2" ++ [10%N]) | _ => False end.
Proof. vm_compute. split; reflexivity. Qed.

(*  m := {a:1 b:2} / m.c = 3 / for k := range m / print k m[k] / end / del m "a" / print (has m "a") (len m)  *)
Definition n3 : expr := ENum (float_of_bits 4613937818241073152).
Definition ex_map : program :=
  {| p_funcs := []; p_handlers := [];
     p_stmts :=
       [SDecl (s_ "m") (TMap TNum) (EMap (TMap TNum) [(s_ "a", n1); (s_ "b", n2)]);
        SAssign (EDot TNum (v_ "m" (TMap TNum)) (s_ "c")) n3;
        SFor (Some (s_ "k")) TStr (RExpr (v_ "m" (TMap TNum)))
          [SCallStmt (s_ "print")
             [EAny (v_ "k" TStr) TStr; EAny (EIndex TNum (v_ "m" (TMap TNum)) (v_ "k" TStr)) TNum]];
        SCallStmt (s_ "del") [v_ "m" (TMap TNum); EStr (s_ "a")];
        SCallStmt (s_ "print")
          [EAny (EGroup (ECall (s_ "has") TBool [v_ "m" (TMap TNum); EStr (s_ "a")])) TBool;
           EAny (EGroup (ECall (s_ "len") TNum [EAny (v_ "m" (TMap TNum)) (TMap TNum)])) TNum]] |}.

Example C02_ex_map_hyps : wt_program ex_map = true /\ s1_program ex_map = true.
Proof. vm_compute. split; reflexivity. Qed.

Example C02_ex_map_run :
  let '(o, s) := run_program 300 ex_map s0_ in
  o = ODone /\
  match st_trace s with
  | EvPrint p :: _ => pieces_str p = Some (s_ "false 2" ++ [10%N])
  | _ => False end.
Proof. vm_compute. split; reflexivity. Qed.

(*  func fact:num n:num / if n <= 1 / return 1 / end / return n * (fact n-1) / end
    func sum:num nums:num... / t := 0 / for x := range nums / t = t + x / end / return t / end
    print (fact 5) (sum 1 2 3)  *)
Definition n5 : expr := ENum (float_of_bits 4617315517961601024).
Definition ex_funcs : program :=
  {| p_funcs :=
       [{| fn_name := s_ "fact"; fn_params := [(s_ "n", TNum)]; fn_variadic := None; fn_ret := TNum;
           fn_body :=
             [SIf [(EBin BLtEq TBool (v_ "n" TNum) n1, [SReturn (Some n1)])] None;
              SReturn (Some (EBin BAsterisk TNum (v_ "n" TNum)
                               (EGroup (ECall (s_ "fact") TNum [EBin BMinus TNum (v_ "n" TNum) n1]))))] |};
        {| fn_name := s_ "sum"; fn_params := []; fn_variadic := Some (s_ "nums", TNum); fn_ret := TNum;
           fn_body :=
             [SDecl (s_ "t") TNum n0;
              SFor (Some (s_ "x")) TNum (RExpr (v_ "nums" (TArr TNum)))
                [SAssign (v_ "t" TNum) (EBin BPlus TNum (v_ "t" TNum) (v_ "x" TNum))];
              SReturn (Some (v_ "t" TNum))] |}];
     p_handlers := [];
     p_stmts :=
       [SNop; SNop;
        SCallStmt (s_ "print")
          [EAny (EGroup (ECall (s_ "fact") TNum [n5])) TNum;
           EAny (EGroup (ECall (s_ "sum") TNum [n1; n2; n3])) TNum]] |}.

Example C02_ex_funcs_hyps : wt_program ex_funcs = true /\ s1_program ex_funcs = true.
Proof. vm_compute. split; reflexivity. Qed.

Example C02_ex_funcs_run :
  let '(o, s) := run_program 300 ex_funcs s0_ in
  o = ODone /\
  match st_trace s with
  | EvPrint p :: _ => pieces_str p = Some (s_ "120 6" ++ [10%N])
  | _ => False end.
Proof. vm_compute. split; reflexivity. Qed.

(*  x := 0 / on key k:string / x = x + 1 / print k x / end  *)
Definition ex_handler : program :=
  {| p_funcs := [];
     p_handlers :=
       [{| h_name := s_ "key"; h_params := [(s_ "k", TStr)];
           h_body := [SAssign (v_ "x" TNum) (EBin BPlus TNum (v_ "x" TNum) n1);
                      SCallStmt (s_ "print") [EAny (v_ "k" TStr) TStr; EAny (v_ "x" TNum) TNum]] |}];
     p_stmts := [SDecl (s_ "x") TNum n0; SNop] |}.

Example C02_ex_handler_hyps : wt_program ex_handler = true /\ s1_program ex_handler = true.
Proof. vm_compute. split; reflexivity. Qed.

Example C02_ex_handler_run :
  let s1 := snd (run_program 100 ex_handler s0_) in
  let '(o, s2) := handle_event 100 ex_handler (s_ "key") [PvStr (s_ "a")] s1 in
  o = ODone /\
  match st_trace s2 with
  | EvPrint p :: _ => pieces_str p = Some (s_ "a 1" ++ [10%N])
  | _ => False end.
Proof. vm_compute. split; reflexivity. Qed.

(* the built-ins of the signature table that a program of the fragment may not call: exactly the
   eight Sem.v does not model *)
Example C02_builtins_outside_fragment :
  map fst (filter (fun p => negb (call_frag (fst p))) builtin_sigs)
  = map s_ ["clear"; "dash"; "ellipse"; "font"; "grid"; "gridn"; "poly"; "repr"]%string.
Proof. vm_compute. reflexivity. Qed.

(*  w := split "a,b" ","  /  s := sprintf "%s-%v|%5s" w[0] true (upper w[1])  /  printf "%s %v\n" s w  /
    print (sprintf 1)
    string built-ins, sprintf and printf (a composite operand is printed by String()); the last call has
    no string format: the evy panic "bad arguments", not going wrong *)
Definition ex_fmt : program :=
  {| p_funcs := []; p_handlers := [];
     p_stmts :=
       [SDecl (s_ "w") (TArr TStr) (ECall (s_ "split") (TArr TStr) [EStr (s_ "a,b"); EStr (s_ ",")]);
        SDecl (s_ "s") TStr
          (ECall (s_ "sprintf") TStr
             [EAny (EStr (s_ "%s-%v|%5s")) TStr;
              EAny (EIndex TStr (v_ "w" (TArr TStr)) n0) TStr;
              EAny (EBool true) TBool;
              EAny (EGroup (ECall (s_ "upper") TStr [EIndex TStr (v_ "w" (TArr TStr)) n1])) TStr]);
        SCallStmt (s_ "printf")
          [EAny (EStr (s_ "%s %v" ++ [10%N])) TStr; EAny (v_ "s" TStr) TStr; EAny (v_ "w" (TArr TStr)) (TArr TStr)];
        SCallStmt (s_ "print") [EAny (EGroup (ECall (s_ "sprintf") TStr [EAny n1 TNum])) TStr]] |}.

Example C02_ex_fmt_hyps : wt_program ex_fmt = true /\ s1_program ex_fmt = true.
Proof. vm_compute. split; reflexivity. Qed.

Example C02_ex_fmt_run :
  let '(o, s) := run_program 300 ex_fmt s0_ in
  o = OErr (EPanic PkBadArguments) /\
  match st_trace s with
  | EvPrint p :: _ => pieces_str p = Some (s_ "a-true|    B [a b]" ++ [10%N])
  | _ => False end.
Proof. vm_compute. split; reflexivity. Qed.

(* ---------- the full statement is false ---------- *)
(*  a:[]any / a = [1] / a[0] = a / print a  : accepted by the Go parser and by
    wt; String() recurses for ever on the value that contains itself (the Go
    runtime aborts with "stack overflow"; confirmed on the implementation) *)
Definition ex_cyclic : program :=
  {| p_funcs := []; p_handlers := [];
     p_stmts :=
       [SDecl (s_ "a") (TArr TAny) (EArr (TArr TAny) []);
        SAssign (v_ "a" (TArr TAny)) (EArr (TArr TAny) [EAny n1 TNum]);
        SAssign (EIndex TAny (v_ "a" (TArr TAny)) n0) (EAny (v_ "a" (TArr TAny)) (TArr TAny));
        SCallStmt (s_ "print") [EAny (v_ "a" (TArr TAny)) (TArr TAny)]] |}.

(*  f / x := 1 / print x / func f / x = 2 / end  : the body of f assigns a
    global that does not exist yet when f is called; scope.update panics
    ("internal error: bad assignment target"; confirmed on the implementation) *)
Definition ex_early_call : program :=
  {| p_funcs := [{| fn_name := s_ "f"; fn_params := []; fn_variadic := None; fn_ret := TNone;
                    fn_body := [SAssign (v_ "x" TNum) n2] |}];
     p_handlers := [];
     p_stmts :=
       [SCallStmt (s_ "f") [];
        SDecl (s_ "x") TNum n1;
        SCallStmt (s_ "print") [EAny (v_ "x" TNum) TNum];
        SNop] |}.

Theorem C02_soundness_full_refuted :
  exists P fuel, wt_program P = true /\ goes_wrong (fst (run_program fuel P s0_)).
Proof. exists ex_cyclic, 100%nat. vm_compute. split; [reflexivity|exact I]. Qed.
Print Assumptions C02_soundness_full_refuted.

(* it lies in the wide fragment: its crash is exactly the exception C02_soundness_modulo_overflow_partial makes *)
Example C02_cyclic_in_s2 : s2_program ex_cyclic = true /\ s1_program ex_cyclic = false.
Proof. vm_compute. split; reflexivity. Qed.

Example C02_cyclic_outcome :
  fst (run_program 100 ex_cyclic s0_) = OErr (EHostCrash (s_ "stack overflow in String")).
Proof. vm_compute. reflexivity. Qed.

(* Since /repo 9183517 a function that assigns a global before its declaration has run ends with the
   documented "variable has not been set yet" panic (before: a host panic in scope.update). *)
Theorem C02_early_call_is_an_evy_panic :
  wt_program ex_early_call = true /\
  fst (run_program 100 ex_early_call s0_) = OErr (EPanic PkVarNotSet).
Proof. vm_compute. split; reflexivity. Qed.
Print Assumptions C02_early_call_is_an_evy_panic.

Theorem C02_not_soundness_full : ~ soundness_full.
Proof.
  intros H. destruct C02_soundness_full_refuted as (P & fuel & Hwt & Hbad).
  exact (H P Hwt fuel s0_ (init_state_start_ok true P _ _ _ _ Hwt) Hbad).
Qed.
Print Assumptions C02_not_soundness_full.

(* ---------- programs the Go parser accepts, wt rejects, and that go wrong ---------- *)
(* each is the exported tree of a source the real parser.Parse accepts and the
   real Evaluator.Eval crashes on (Go panic); the model crashes the same way *)

(*  x := 1 / for i := range 2 / print x+1 i / x := "a" / print x / end
    REGRESSION.  When evalFor kept ONE scope for all iterations, in the second
    iteration `x` resolved to the string declared in the first one although the
    parser had typed `x+1` with the outer num: Go panic "interface conversion:
    value is *numVal, not *stringVal" (model: EHostCrash "value is not a
    *stringVal"; wt then had to forbid shadowing in a for frame).  Since every
    iteration runs its body in a scope of its own (exec_for pushes a frame
    around the block), a for body is an ordinary block: wt accepts the program,
    it lies in the proved fragment, and the run completes. *)
Definition ex_for_shadow : program :=
  {| p_funcs := []; p_handlers := [];
     p_stmts :=
       [SDecl (s_ "x") TNum n1;
        SFor (Some (s_ "i")) TNum (RStep None n2 None)
          [SCallStmt (s_ "print") [EAny (EBin BPlus TNum (v_ "x" TNum) n1) TNum; EAny (v_ "i" TNum) TNum];
           SDecl (s_ "x") TStr (EStr (s_ "a"));
           SCallStmt (s_ "print") [EAny (v_ "x" TStr) TStr]]] |}.

Example C02_for_body_is_a_block :
  wt_program ex_for_shadow = true /\ s1_program ex_for_shadow = true /\
  fst (run_program 200 ex_for_shadow s0_) = ODone.
Proof. vm_compute. repeat split; reflexivity. Qed.

(*  y := ([[]] + [[1]])[1] + ["a"] / print y[0]+"b"
    `[[]] + [[1]]` is given the type of its LEFT operand, [][] : its element
    [1] is then an untyped [] for the checker and concatenates with ["a"] *)
Definition ex_concat_left : program :=
  {| p_funcs := []; p_handlers := [];
     p_stmts :=
       [SDecl (s_ "y") (TArr TStr)
          (EBin BPlus (TArr TStr)
             (EIndex TEmptyArr
                (EGroup (EBin BPlus (TArr TEmptyArr)
                           (EArr (TArr TEmptyArr) [EArr TEmptyArr []])
                           (EArr (TArr (TArr TNum)) [EArr (TArr TNum) [n1]])))
                n1)
             (EArr (TArr TStr) [EStr (s_ "a")]));
        SCallStmt (s_ "print")
          [EAny (EBin BPlus TStr (EIndex TStr (v_ "y" (TArr TStr)) n0) (EStr (s_ "b"))) TStr]] |}.

Example C02_hole_concat_left :
  wt_program ex_concat_left = false /\
  fst (run_program 200 ex_concat_left s0_) = OErr (EHostCrash (s_ "value is not a *numVal")).
Proof. vm_compute. split; reflexivity. Qed.

(*  x := [(cls)] / print x   : a call without result as an array element *)
Definition ex_none_element : program :=
  {| p_funcs := []; p_handlers := [];
     p_stmts :=
       [SDecl (s_ "x") (TArr TNone) (EArr (TArr TNone) [EGroup (ECall (s_ "cls") TNone [])]);
        SCallStmt (s_ "print") [EAny (v_ "x" (TArr TNone)) (TArr TNone)]] |}.

Example C02_hole_none_element :
  wt_program ex_none_element = false /\
  fst (run_program 200 ex_none_element s0_) = OErr (EHostCrash (s_ "copyOrRef called with invalid value")).
Proof. vm_compute. split; reflexivity. Qed.
