(* C02 — Accepted programs never go wrong (first instalment; the soundness
   theorem over the certificate checker is in SemSound.v when present). *)
From Coq Require Import List Floats.
From EvyV Require Import Base Ast Sem SemBasics.
Import ListNotations.

(* the arithmetic and comparison rows of the operator table never produce an internal error *)
Theorem C02_num_operators_total : forall op x y s,
  In op [BPlus; BMinus; BAsterisk; BSlash; BPercent; BGt; BLt; BGtEq; BLtEq] ->
  exists l s', bin_num op x y s = (Ok l, s').
Proof. exact bin_num_no_internal. Qed.
Print Assumptions C02_num_operators_total.
