(* C15 — events as calls, the full statement, from the invariance of the evaluator under heap
   isomorphism and garbage (Props/C09_iso.v, SemIso.v).  Property theorems only. *)
From Coq Require Import ZArith NArith PArith List String Bool Floats FMapPositive Lia.
From EvyV Require Import Base Num Ast Omap Sem SemOrder SemStoreBase SemIsoBase SemIsoLib SemIso SemEvents SemIsoApps.
Import ListNotations.
Local Open Scope positive_scope.

(* one event against one call of the twin procedure on argument cells that merely HOLD the
   payload values (the cells are pairwise distinct and not yet related to a cell of the event
   side — true of the copies evalExprList makes): equal outcomes, isomorphic final states *)
Theorem C15_event_as_call : forall fuel P name args h fd vals f sE sC,
  find_handler name (p_handlers P) = Some h ->
  fn_params fd = h_params h -> fn_variadic fd = None -> fn_body fd = h_body h ->
  iso f sE sC ->
  Forall2 (holds_in sC) vals (firstn (List.length (h_params h)) args) ->
  NoDup vals -> (forall v a, In v vals -> f a <> Some v) ->
  (forall e s', bind_payload (h_params h) args [] sE <> (Er e, s')) ->
  fst (handle_event fuel P name args sE) = outcome_of_call (fst (call_user fuel P fd vals sC)) /\
  exists f', ext f f' /\ iso f' (snd (handle_event fuel P name args sE)) (snd (call_user fuel P fd vals sC)).
Proof. exact event_as_call. Qed.
Print Assumptions C15_event_as_call.

(* ... and against the call statement with the payload prefix as literal arguments *)
Theorem C15_event_as_literal_call : forall fuel P pn (e : ev) h f sE sC,
  procs_mirror_handlers P pn ->
  find_handler (fst e) (p_handlers P) = Some h ->
  (forall er s', bind_payload (h_params h) (snd e) [] sE <> (Er er, s')) ->
  (List.length (h_params h) < fuel)%nat ->
  iso f sE sC -> tick_ok sC ->
  fst (handle_event fuel P (fst e) (snd e) sE) = fst (call_event fuel P pn e sC) /\
  tick_ok (snd (call_event fuel P pn e sC)) /\
  exists f', ext f f' /\ iso f' (snd (handle_event fuel P (fst e) (snd e) sE)) (snd (call_event fuel P pn e sC)).
Proof. exact event_as_literal_call. Qed.
Print Assumptions C15_event_as_literal_call.

(* whole histories, from isomorphic states *)
Theorem C15_events_as_calls : forall fuel P pn (es : list ev) f sE sC,
  procs_mirror_handlers P pn ->
  iso f sE sC -> tick_ok sC ->
  (forall e, In e es -> exists h vs,
       find_handler (fst e) (p_handlers P) = Some h /\
       payload_vals (h_params h) (snd e) = PvOk vs /\ (List.length (h_params h) < fuel)%nat) ->
  fst (handle_events fuel P es sE) = fst (call_events fuel P pn es sC) /\
  exists f', ext f f' /\ iso f' (snd (handle_events fuel P es sE)) (snd (call_events fuel P pn es sC)).
Proof. exact events_as_calls. Qed.
Print Assumptions C15_events_as_calls.

(* the statement SemEvents.events_as_calls_full, with a fuel bound per event in place of the
   exclusion of EOutOfFuel outcomes and with the closedness of the start state made explicit
   ([agree D s s]: D contains the global roots, is closed under references, all its cells are
   allocated): same outcomes, same trace / input / test counters / structural dump of globals *)
Theorem C15_events_as_calls_observables : forall D fuel P pn (es : list ev) s,
  procs_mirror_handlers P pn -> agree D s s ->
  st_stop_at s = None -> st_stopped s = false ->
  (forall e, In e es -> exists h vs,
       find_handler (fst e) (p_handlers P) = Some h /\
       payload_vals (h_params h) (snd e) = PvOk vs /\ (List.length (h_params h) < fuel)%nat) ->
  fst (handle_events fuel P es s) = fst (call_events fuel P pn es s) /\
  same_observables (snd (handle_events fuel P es s)) (snd (call_events fuel P pn es s)).
Proof. exact events_as_calls_observables. Qed.
Print Assumptions C15_events_as_calls_observables.

(* no stop request pending or possible is kept by the evaluator (used for the call side) *)
Theorem C15_eval_call_keeps_tick_ok : forall n P e nm args s r s',
  eval_call n P e nm args s = (r, s') -> tick_ok s -> tick_ok s'.
Proof. exact eval_call_keeps_ok. Qed.
Print Assumptions C15_eval_call_keeps_tick_ok.

(* ---------- Example: the hypotheses hold on the twin program of SemEvents ---------- *)
Definition D_twin (l : loc) : bool := Pos.ltb l (hnext (st_heap (ex_after ex_twin))).

Example C15_ex_iso_hyps :
  let es := [(s_ "down", [PvNum 3%float; PvStr (s_ "a")]);
             (s_ "down", [PvNum 5%float; PvStr (s_ "b"); PvBool true])] in
  agree D_twin (ex_after ex_twin) (ex_after ex_twin) /\
  st_stop_at (ex_after ex_twin) = None /\ st_stopped (ex_after ex_twin) = false /\
  procs_mirror_handlers ex_twin (fun n : str => n ++ s_ "_") /\
  (forall e, In e es -> exists h vs,
       find_handler (fst e) (p_handlers ex_twin) = Some h /\
       payload_vals (h_params h) (snd e) = PvOk vs /\ (List.length (h_params h) < 100)%nat).
Proof.
  assert (W : wf (ex_after ex_twin)).
  { unfold ex_after, ex_s0.
    destruct (run_program 100 ex_twin (init_state None [] false false)) as [o s1] eqn:E.
    refine (proj1 (SemStore.in_place_only_err_run 100 ex_twin _ o s1 _ (SemStore.wf_init _ _ _ _) E)).
    vm_compute. reflexivity. }
  split; [|split; [reflexivity|split; [reflexivity|split]]].
  - constructor; try reflexivity; auto.
    + intros l Hl. unfold D_twin in Hl. apply Pos.ltb_lt in Hl.
      change (hnext (st_heap (ex_after ex_twin))) with 6 in Hl.
      assert (C : l = 1 \/ l = 2 \/ l = 3 \/ l = 4 \/ l = 5) by lia.
      destruct C as [-> | [-> | [-> | [-> | ->]]]]; eexists; (split; [vm_compute; reflexivity|]);
        (split; [vm_compute; reflexivity | constructor]).
    + vm_compute. repeat constructor.
  - intros h [<-|[]]. split; [vm_compute; repeat split|].
    exists ex_twin_fd. repeat split; reflexivity.
  - intros e [<-|[<-|[]]]; do 2 eexists; (split; [reflexivity|]); (split; [reflexivity|]); vm_compute; lia.
Qed.
