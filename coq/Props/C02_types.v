(* C02_types — the certificate checker of C02 (Static.v) against the typing SPECIFICATION of C04
   (TypesSpec.v, the executable form of the rules of docs/spec.md; TypesSyntax.v is its syntax).
   Property theorems only; every proof is [exact <lemma of StaticTypes>].

   The two developments describe the same Go type checker from two sides: TypesSpec/Types type a
   SOURCE expression (no annotations; a variable is its declared type, a call its result type),
   Static re-checks the ANNOTATED tree parser.Parse exports (every node carries the type the parser
   gave it, conversions appear as retyped literals and Any wrappers).  The translation
   [StaticTypes.erase G] forgets annotations and wrappers and reads variables from the environment;
   [ty_of]/[sty_of] translate types.

   What is proved (each for all environments, all trees):
   - operator / index / slice / dot / assertion / range tables of the two models coincide, with the
     exact guards where they do not ([shallow], [range_guard]);
   - forward: a Static-typed tree of the coercion-free fragment [plain] erases to an expression
     the specification types, with the same type;
   - converse: a tree that carries the specification's types ([ann_ok]) is Static-typed with that
     type; arguments may be any-wrapped or meet the generic built-in parameters;
   - statements: every context condition of [swt_stmt] (declaration, assignment incl. index / dot
     target chains, call arguments, return, condition, range operand) is a case
     TypesSpec.spec_check accepts, and [swt_program P = true -> wt_program P = true];
   - corollary: such a program does not go wrong (through the C02_soundness theorems).
   Fragment of the corollary ([swt_program]): the structural checks are Static's own; every
   expression is typed by the specification and annotated with that type; a value meets a slot of
   exactly its own type, or of type any (wrapped); a literal whose elements have different types is
   []any / {}any with every element wrapped; the empty literal [] / {} may be the value of a
   declaration, assignment, return or argument, or an element of a literal ([[1] []]); and a value slot of a declaration, assignment, return
   or call statement may hold a CONVERTED constant ([conv]: y:[]any ; y = [1 2 3] ,  x := [[1] ["a"]] ,
   a := [1] + [] ): the specification accepts the source expression in the slot (checked:
   [spec_slot]) and the tree is its elementwise conversion, the shape wrapAny builds.  Outside:
   conversions nested inside other expression positions (the operand of an index, a range operand,
   arguments of calls inside expressions).  Measured on the C02 run: 1785 of 1818 parser-accepted
   programs inside. *)
From Coq Require Import List Bool String.
From EvyV Require Import Base Ast Sem Static SemSound StaticTypes StaticImpl.
From EvyV Require TypesSyntax TypesSpec Types TypesProofs TypesWhole.
From EvyV.Props Require C02.
Import ListNotations.

(* ---------- the full statements (NOT proved) ---------- *)
(* forward without the restriction to coercion-free trees: FALSE (C02_types_forward_full_refuted) *)
Definition forward_full : Prop :=
  forall F G A t, ety F G A = Some t ->
  exists e k s, erase G A = Some e /\ Sp.spec_tc e = Some (k, s) /\ t = ty_of s.

(* soundness from the specification's rules for every program [swt_program] accepts, without the
   restriction to the modelled built-ins; open (it is C02.soundness_modulo_overflow_full at
   swt_program) *)
Definition spec_soundness_full : Prop := C02.soundness_modulo_overflow_full swt_program.

(* the other partial theorems without their guards; each is refuted below by the guard's witness *)
Definition binop_spec_to_static_full : Prop :=
  forall op a b s, Sp.op_type (binop_of op) a b = Some s -> bin_ok op (ty_of a) (ty_of b) (ty_of s) = true.
Definition range_table_full : Prop :=
  forall a, a <> S.SNum ->
  option_map ty_of
    (match Sp.spec_check S.CRange (S.EVar a) with Sp.SAccept st _ => Some st | Sp.SReject => None end)
  = range_var_ty (ty_of a).
Definition converse_full : Prop :=
  forall F G A e k s, erase G A = Some e -> Sp.spec_tc e = Some (k, s) -> ety F G A = Some (ty_of s).
Definition impl_spec_agree_full : Prop :=
  forall e n, T.tc e = T.ONode n false -> exists k, Sp.spec_tc e = Some (k, TP.erase (T.node_type n)).

(* ---------- the rule tables ---------- *)
Theorem C02_types_binop_static_to_spec : forall op a b t,
  bin_ty op (ty_of a) (ty_of b) = Some t ->
  exists s, Sp.op_type (binop_of op) a b = Some s /\ t = ty_of s.
Proof. exact bin_ty_spec. Qed.
Print Assumptions C02_types_binop_static_to_spec.

(* [shallow]: a concatenation whose operands are arrays of different types unifies them only when
   one of them is the untyped [] itself *)
Theorem C02_types_binop_spec_to_static_partial : forall op a b s,
  Sp.op_type (binop_of op) a b = Some s -> shallow op a b ->
  bin_ok op (ty_of a) (ty_of b) (ty_of s) = true.
Proof. exact op_type_static. Qed.
Print Assumptions C02_types_binop_spec_to_static_partial.

(* the guard is needed:  [[1]] + [[]]  is typed [][]num by the specification (and by the parser),
   Static rejects it *)
Theorem C02_types_binop_guard_needed :
  let a := S.SArr (S.SArr S.SNum) in
  let b := S.SArr S.SEmptyArr in
  Sp.op_type S.OpPlus a b = Some a /\ bin_ok BPlus (ty_of a) (ty_of b) (ty_of a) = false.
Proof. exact bin_guard_needed. Qed.
Print Assumptions C02_types_binop_guard_needed.

Theorem C02_types_binop_spec_to_static_full_refuted : ~ binop_spec_to_static_full.
Proof.
  intros H. destruct bin_guard_needed as [H1 H2]. rewrite (H BPlus _ _ _ H1) in H2. discriminate.
Qed.
Print Assumptions C02_types_binop_spec_to_static_full_refuted.

Theorem C02_types_equality_operands : forall a b,
  ty_compat (ty_of a) (ty_of b) = true <-> Sp.unify a b <> None.
Proof. exact compat_unify. Qed.
Print Assumptions C02_types_equality_operands.

Theorem C02_types_index_table : forall a b,
  static_index (ty_of a) (ty_of b) = option_map ty_of (Sp.index_type_s a b).
Proof. exact index_spec. Qed.
Print Assumptions C02_types_index_table.

Theorem C02_types_slice_table : forall a, static_slice (ty_of a) = option_map ty_of (Sp.slice_type_s a).
Proof. exact slice_spec. Qed.
Print Assumptions C02_types_slice_table.

Theorem C02_types_dot_table : forall a, static_dot (ty_of a) = option_map ty_of (Sp.dot_type_s a).
Proof. exact dot_spec. Qed.
Print Assumptions C02_types_dot_table.

(* type assertion: Static's side condition is the specification's AssertOk plus the depth bound *)
Theorem C02_types_assert_table : forall t,
  negb (is_any (ty_of t)) && ty_decl (ty_of t) =
  negb (S.sty_eqb t S.SAny) && S.closed t && ty_small (ty_of t).
Proof. exact assert_spec. Qed.
Print Assumptions C02_types_assert_table.

(* the loop variable of  for x := range e *)
Theorem C02_types_range_table_partial : forall a,
  match a with S.SNum => False | S.SArr u => S.closed u = true | _ => True end ->
  option_map ty_of
    (match Sp.spec_check S.CRange (S.EVar a) with Sp.SAccept st _ => Some st | Sp.SReject => None end)
  = range_var_ty (ty_of a).
Proof. exact range_spec. Qed.
Print Assumptions C02_types_range_table_partial.

(* the guard is needed:  for x := range [[]]  — the specification (and the parser) give x the
   DEFAULTED element type []any, Static the element type itself *)
Theorem C02_types_range_guard_needed :
  Sp.spec_check S.CRange (S.EVar (S.SArr S.SEmptyArr)) = Sp.SAccept (S.SArr S.SAny) (S.SArr S.SAny) /\
  range_var_ty (ty_of (S.SArr S.SEmptyArr)) = Some TEmptyArr.
Proof. exact range_guard_needed. Qed.
Print Assumptions C02_types_range_guard_needed.

Theorem C02_types_range_table_full_refuted : ~ range_table_full.
Proof.
  intros H. specialize (H (S.SArr S.SEmptyArr) ltac:(discriminate)). vm_compute in H. discriminate.
Qed.
Print Assumptions C02_types_range_table_full_refuted.

(* ---------- expressions ---------- *)
(* forward, on coercion-free trees *)
Theorem C02_types_forward_partial : forall F G A t,
  ety F G A = Some t -> plain F G A = true ->
  exists e k s, erase G A = Some e /\ Sp.spec_tc e = Some (k, s) /\ t = ty_of s.
Proof. exact static_to_spec. Qed.
Print Assumptions C02_types_forward_partial.

(* without [plain] it is false: the value node of  x:[]num  is an empty literal RETYPED []num; the
   specification types the source expression [] (before the context converts it) as the untyped [] *)
Theorem C02_types_forward_full_refuted : ~ forward_full.
Proof.
  intros H. destruct (H [] [[]] (EArr (TArr TNum) []) (TArr TNum) eq_refl) as (e & k & s & He & Hs & Ht).
  vm_compute in He. inversion He; subst e. vm_compute in Hs. inversion Hs; subst. discriminate Ht.
Qed.
Print Assumptions C02_types_forward_full_refuted.

(* converse, on trees carrying the specification's types *)
Theorem C02_types_converse_partial : forall F G A,
  ann_ok F G A = true ->
  forall e k s, erase G A = Some e -> Sp.spec_tc e = Some (k, s) -> ety F G A = Some (ty_of s).
Proof. exact (fun F G A => proj1 (spec_to_static F G A)). Qed.
Print Assumptions C02_types_converse_partial.

(* without [ann_ok] it is false, trivially: a tree with a wrong annotation ( 1 + 1  annotated string) *)
Theorem C02_types_converse_full_refuted : ~ converse_full.
Proof.
  intros H.
  specialize (H [] [[]] (EBin BPlus TStr C02.n1 C02.n1) _ _ _ eq_refl eq_refl). vm_compute in H. discriminate.
Qed.
Print Assumptions C02_types_converse_full_refuted.

(* an argument against a parameter: exact type, any (wrapped), generic array / map *)
Theorem C02_types_argument_partial : forall F G p a,
  arg_ann (ann_ok F G) G p a = true ->
  exists ta, ety F G a = Some ta /\ arg_ok p ta = true.
Proof. exact (fun F G p a => arg_conv F G p a (spec_to_static F G a)). Qed.
Print Assumptions C02_types_argument_partial.

(* ---------- statement contexts: each condition is a case the specification accepts ---------- *)
Theorem C02_types_ctx_value : forall F G t e st,
  sval F G t e = true -> sty_of t = Some st -> S.closed st = true ->
  exists e', erase G e = Some e' /\
    exists shown, Sp.spec_check (S.CAssign st) e' = Sp.SAccept st shown.
Proof. exact sval_spec_accepts. Qed.
Print Assumptions C02_types_ctx_value.

Theorem C02_types_ctx_decl : forall F G t e, sis F G e t = true -> ty_decl t = true ->
  exists e' st, erase G e = Some e' /\ ty_of st = t /\ Sp.spec_check S.CDecl e' = Sp.SAccept st st.
Proof. exact decl_spec_accepts. Qed.
Print Assumptions C02_types_ctx_decl.

Theorem C02_types_ctx_cond : forall F G c, sis F G c TBool = true ->
  exists e', erase G c = Some e' /\ Sp.spec_check S.CCond e' = Sp.SAccept S.SBool S.SBool.
Proof. exact cond_spec_accepts. Qed.
Print Assumptions C02_types_ctx_cond.

Theorem C02_types_ctx_range : forall G y st t, spec_ty_of G y = Some st -> srange st = Some t ->
  exists e' st', erase G y = Some e' /\ ty_of st' = t /\ Sp.spec_check S.CRange e' = Sp.SAccept st' st'.
Proof. exact range_spec_accepts. Qed.
Print Assumptions C02_types_ctx_range.

(* the written target  v[i].k…  is the specification's context CAssignTo root steps *)
Theorem C02_types_ctx_assign_to : forall F G tg st e,
  target_sty G tg = Some st -> S.closed st = true -> sval F G (ty_of st) e = true ->
  exists root steps e', target_of G tg = Some (root, steps) /\ erase G e = Some e' /\
    exists shown, Sp.spec_check (S.CAssignTo root steps) e' = Sp.SAccept st shown.
Proof. exact assign_to_spec_accepts. Qed.
Print Assumptions C02_types_ctx_assign_to.

(* the empty literal retyped to the slot's type ( x = []  with x:[]num ): the source expression is
   [] / {} , which the specification converts *)
Theorem C02_types_ctx_zero : forall G t e st, zero_lit t e = true -> sty_of t = Some st ->
  exists e', erase G e = Some e' /\
    (exists shown, Sp.spec_check (S.CAssign st) e' = Sp.SAccept st shown) /\
    (exists shown, Sp.spec_check (S.CAssign S.SAny) e' = Sp.SAccept S.SAny shown).
Proof. exact zero_spec_accepts. Qed.
Print Assumptions C02_types_ctx_zero.

(* an assignment to a target chain is judged like an assignment to a variable of the chain's type *)
Theorem C02_types_ctx_assign_to_as_assign : forall G tg st root steps e',
  target_of G tg = Some (root, steps) -> target_sty G tg = Some st ->
  Sp.spec_check (S.CAssignTo root steps) e' = Sp.spec_check (S.CAssign st) e'.
Proof. exact assign_to_as_assign. Qed.
Print Assumptions C02_types_ctx_assign_to_as_assign.

(* ... and such a target is typed the same by the expression rules, its last step being an array or
   map step (what Static asks of a target) *)
Theorem C02_types_target_chain : forall G tg st, target_sty G tg = Some st ->
  spec_ty_of G tg = Some st /\
  match tg with
  | EVar _ _ | EDot _ _ _ => True
  | EIndex _ a _ => exists u, spec_ty_of G a = Some (S.SArr u) \/ spec_ty_of G a = Some (S.SMap u)
  | _ => False
  end.
Proof. exact target_sty_spec. Qed.
Print Assumptions C02_types_target_chain.

Theorem C02_types_ctx_generic_array : forall F G a, arg_ann (ann_ok F G) G TGenArr a = true ->
  exists e' st, erase G a = Some e' /\ Sp.spec_check S.CGenericArr e' = Sp.SAccept st st.
Proof. exact generic_arr_spec_accepts. Qed.
Print Assumptions C02_types_ctx_generic_array.

Theorem C02_types_ctx_generic_map : forall F G a, arg_ann (ann_ok F G) G TGenMap a = true ->
  exists e' st, erase G a = Some e' /\ Sp.spec_check S.CGenericMap e' = Sp.SAccept st st.
Proof. exact generic_map_spec_accepts. Qed.
Print Assumptions C02_types_ctx_generic_map.

(* a converted constant: the tree wrapAny builds is Static-typed with the slot's type ... *)
Theorem C02_types_converted_static : forall F G A t, conv F G t A = true -> ety F G A = Some t.
Proof. exact conv_ety. Qed.
Print Assumptions C02_types_converted_static.

(* ... and [cval] asks the specification to accept the source expression in that slot *)
Theorem C02_types_ctx_converted : forall F G t A, cval F G t A = true ->
  exists e st, erase G A = Some e /\ sty_of t = Some st /\
    exists shown, Sp.spec_check (S.CAssign st) e = Sp.SAccept st shown.
Proof. exact cval_spec_accepts. Qed.
Print Assumptions C02_types_ctx_converted.

(* arguments of a call statement: [arg_ann] or a converted value *)
Theorem C02_types_call_statement : forall F G name sg args,
  lookup_sig F name = Some sg -> sig_cv F G sg args = true -> call_ty F G name args = Some (fs_ret sg).
Proof. exact sig_cv_call. Qed.
Print Assumptions C02_types_call_statement.

(* ---------- statements and programs ---------- *)
Theorem C02_types_stmt_partial : forall F s ret il G G',
  swt_stmt F ret il G s = Some G' -> wt_stmt F ret il G s = Some G'.
Proof. exact swt_stmt_wt. Qed.
Print Assumptions C02_types_stmt_partial.

Theorem C02_types_program_partial : forall P, swt_program P = true -> wt_program P = true.
Proof. exact swt_program_wt. Qed.
Print Assumptions C02_types_program_partial.

(* ---------- corollary: soundness from the specification's typing rules ---------- *)
Theorem C02_spec_soundness_partial : forall P,
  swt_program P = true -> s1_program P = true ->
  forall fuel s0, start_ok true P s0 -> ~ goes_wrong (fst (run_program fuel P s0)).
Proof. exact (fun P H => C02.C02_soundness_partial P (swt_program_wt P H)). Qed.
Print Assumptions C02_spec_soundness_partial.

Theorem C02_spec_soundness_modulo_overflow_partial : forall P,
  swt_program P = true -> s2_program P = true ->
  forall fuel s0, start_ok false P s0 -> ~ goes_wrong_badly (fst (run_program fuel P s0)).
Proof. exact (fun P H => C02.C02_soundness_modulo_overflow_partial P (swt_program_wt P H)). Qed.
Print Assumptions C02_spec_soundness_modulo_overflow_partial.

Theorem C02_spec_handlers_partial : forall P,
  swt_program P = true -> s1_program P = true ->
  forall fuel name args s0 h, start_ok true P s0 ->
    find_handler name (p_handlers P) = Some h -> (List.length (h_params h) <= List.length args)%nat ->
    ~ goes_wrong (fst (handle_event fuel P name args s0)) /\
    ((forall e, fst (handle_event fuel P name args s0) <> OErr e) ->
     start_ok true P (snd (handle_event fuel P name args s0))).
Proof. exact (fun P H => C02.C02_handlers_partial P (swt_program_wt P H)). Qed.
Print Assumptions C02_spec_handlers_partial.

(* ====================================================================== *)
(* the IMPLEMENTATION model of the type checker (Types.tc / Types.check)   *)
(* ====================================================================== *)
(* C04 compares Types.v with the specification rule by rule; TypesWhole.v composes the rules over a
   whole expression of the UNIFORM fragment [TW.uniform]: literals whose elements all have the same
   type, variables / call results / asserted types closed, the left operand of a binary operator
   without untyped empty leaf (or [] itself), index / field results closed and not taken from the
   untyped [] / {} itself. *)
Theorem C02_types_impl_spec_agree_partial : forall e, TW.uniform e = true ->
  (forall k s, Sp.spec_tc e = Some (k, s) ->
     exists n, T.tc e = T.ONode n false /\ TP.erase (T.node_type n) = s) /\
  (forall n, T.tc e = T.ONode n false -> exists k, Sp.spec_tc e = Some (k, TP.erase (T.node_type n))).
Proof.
  exact (fun e Hu => conj
    (fun k s Hs => match TW.tc_uniform e Hu k s Hs with
                   | ex_intro _ n (conj Hn (conj _ (conj G2 _))) => ex_intro _ n (conj Hn G2) end)
    (TW.tc_spec_agree e Hu)).
Qed.
Print Assumptions C02_types_impl_spec_agree_partial.

(* the guard on index / field access is needed:  [][0]  is typed none by the implementation without an
   error (the expression itself is accepted; only the context it is used in reports an error), the
   specification gives  [][0]  no type.  Until /repo c2a6828 the
   witness was  [][0] == [][0]  (typed bool); that comparison is now a type error on both sides. *)
Theorem C02_types_impl_guard_needed :
  let e := S.EIndex (S.EArr []) S.ELitNum in
  (exists n, T.tc e = T.ONode n false /\ T.node_type n = T.TNone) /\ Sp.spec_tc e = None.
Proof. exact TW.not_empty_base_needed. Qed.
Print Assumptions C02_types_impl_guard_needed.

Theorem C02_types_impl_spec_agree_full_refuted : ~ impl_spec_agree_full.
Proof.
  intros H. destruct TW.not_empty_base_needed as [[n [Hn _]] Hs].
  destruct (H _ n Hn) as (k & Hk). rewrite Hs in Hk. discriminate.
Qed.
Print Assumptions C02_types_impl_spec_agree_full_refuted.

(* forward: Static-typed, coercion-free, uniform erasure => the implementation model types the
   erased expression without error, with the same type *)
Theorem C02_types_impl_forward_partial : forall F G A t e,
  ety F G A = Some t -> plain F G A = true -> erase G A = Some e -> TW.uniform e = true ->
  exists n, T.tc e = T.ONode n false /\ ty_of (TP.erase (T.node_type n)) = t.
Proof. exact static_to_impl. Qed.
Print Assumptions C02_types_impl_forward_partial.

(* converse: the implementation model types the erasure without error => Static types the tree that
   carries the specification's types, with the same type *)
Theorem C02_types_impl_converse_partial : forall F G A e n,
  ann_ok F G A = true -> erase G A = Some e -> TW.uniform e = true -> T.tc e = T.ONode n false ->
  ety F G A = Some (ty_of (TP.erase (T.node_type n))).
Proof. exact impl_to_static. Qed.
Print Assumptions C02_types_impl_converse_partial.

(* the statement contexts of [swt_stmt] are accepted by Types.check *)
Theorem C02_types_impl_ctx_cond : forall F G c e,
  sis F G c TBool = true -> erase G c = Some e -> TW.uniform e = true ->
  T.check S.CCond e = T.Accept T.TBool T.TBool.
Proof. exact impl_ctx_cond. Qed.
Print Assumptions C02_types_impl_ctx_cond.

Theorem C02_types_impl_ctx_decl : forall F G t a e,
  sis F G a t = true -> ty_decl t = true -> erase G a = Some e -> TW.uniform e = true ->
  exists T0 shown, T.check S.CDecl e = T.Accept T0 shown /\ ty_of (TP.erase T0) = t.
Proof. exact impl_ctx_decl. Qed.
Print Assumptions C02_types_impl_ctx_decl.

Theorem C02_types_impl_ctx_value : forall F G t a e st,
  ann_ok F G a = true -> sty_is G a t = true -> sty_of t = Some st -> erase G a = Some e -> TW.uniform e = true ->
  exists shown,
    T.check (S.CAssign st) e = T.Accept (T.fixed_type (T.embed st)) shown /\
    T.check (S.CParam st) e = T.Accept (T.fixed_type (T.embed st)) shown /\
    T.check (S.CVariadic st) e = T.Accept (T.fixed_type (T.embed st)) shown /\
    T.check (S.CReturn st) e = T.Accept (T.embed st) shown.
Proof. exact impl_ctx_value. Qed.
Print Assumptions C02_types_impl_ctx_value.

Theorem C02_types_impl_ctx_value_any : forall F G a' t' e,
  arg_ann (ann_ok F G) G TAny (EAny a' t') = true -> erase G a' = Some e -> TW.uniform e = true ->
  exists shown, T.check (S.CAssign S.SAny) e = T.Accept T.TAny shown.
Proof. exact impl_ctx_value_any. Qed.
Print Assumptions C02_types_impl_ctx_value_any.

Theorem C02_types_impl_ctx_range : forall G y st t e,
  spec_ty_of G y = Some st -> srange st = Some t -> erase G y = Some e -> TW.uniform e = true ->
  exists T0, T.check S.CRange e = T.Accept T0 T0 /\ ty_of (TP.erase T0) = t.
Proof. exact impl_ctx_range. Qed.
Print Assumptions C02_types_impl_ctx_range.

Theorem C02_types_impl_ctx_assign_to : forall F G tg st a e root steps,
  target_of G tg = Some (root, steps) -> target_sty G tg = Some st -> S.closed root = true ->
  TW.uniform_steps steps = true ->
  ann_ok F G a = true -> sty_is G a (ty_of st) = true -> erase G a = Some e -> TW.uniform e = true ->
  exists T0 shown, T.check (S.CAssignTo root steps) e = T.Accept T0 shown /\ TP.erase T0 = st.
Proof. exact impl_ctx_assign_to. Qed.
Print Assumptions C02_types_impl_ctx_assign_to.

Theorem C02_types_impl_ctx_zero : forall t e st G, zero_lit t e = true -> sty_of t = Some st ->
  exists e' shown, erase G e = Some e' /\
    T.check (S.CAssign st) e' = T.Accept (T.fixed_type (T.embed st)) shown.
Proof. exact impl_ctx_zero. Qed.
Print Assumptions C02_types_impl_ctx_zero.

(* ---------- non-vacuity ---------- *)
Local Open Scope string_scope.
(* the example programs of C02 (loop, element assignment, any-wrapped arguments, generic built-in
   parameters, map with dot target and range, recursive and variadic functions, an event handler)
   satisfy the hypotheses of the corollary *)
Example C02_types_ex_programs :
  swt_program C02.ex_ok = true /\ swt_program C02.ex_map = true /\
  swt_program C02.ex_funcs = true /\ swt_program C02.ex_handler = true /\
  s1_program C02.ex_ok = true /\ s1_program C02.ex_funcs = true.
Proof. vm_compute. repeat split; reflexivity. Qed.

(*  a:[]num  /  a = []  /  print []  /  a = [1] + a[0:1]  /  print [1 "x" a]  /  m:{}[]num  /  m.k = a  /  m["k"][0] = 2  /  x:any  /  x = a
    if (len a) > 0 and m.k == a / print a[0] m / end  *)
Definition ex_ctx : program :=
  let a := EVar (s_ "a") (TArr TNum) in
  let m := EVar (s_ "m") (TMap (TArr TNum)) in
  {| p_funcs := []; p_handlers := [];
     p_stmts :=
       [SDecl (s_ "a") (TArr TNum) (EArr (TArr TNum) []);
        SAssign a (EArr (TArr TNum) []);
        SCallStmt (s_ "print") [EAny (EArr (TArr TAny) []) (TArr TAny)];
        SCallStmt (s_ "print") [EAny (EArr (TArr TAny) [EAny C02.n1 TNum; EAny (EStr (s_ "x")) TStr; EAny a (TArr TNum)]) (TArr TAny)];
        SAssign a (EBin BPlus (TArr TNum) (EArr (TArr TNum) [C02.n1]) (ESlice (TArr TNum) a (Some C02.n0) (Some C02.n1)));
        SDecl (s_ "m") (TMap (TArr TNum)) (EMap (TMap (TArr TNum)) []);
        SAssign (EDot (TArr TNum) m (s_ "k")) a;
        SAssign (EIndex TNum (EIndex (TArr TNum) m (EStr (s_ "k"))) C02.n0) C02.n2;
        SDecl (s_ "x") TAny (EAny (EBool false) TBool);
        SAssign (EVar (s_ "x") TAny) (EAny a (TArr TNum));
        SIf [(EBin BAnd TBool
                (EBin BGt TBool (EGroup (ECall (s_ "len") TNum [EAny a (TArr TNum)])) C02.n0)
                (EBin BEq TBool (EDot (TArr TNum) m (s_ "k")) a),
              [SCallStmt (s_ "print") [EAny (EIndex TNum a C02.n0) TNum; EAny m (TMap (TArr TNum))]])] None] |}.

Example C02_types_ex_ctx : swt_program ex_ctx = true /\ s2_program ex_ctx = true.
Proof. vm_compute. split; reflexivity. Qed.

(* the expression theorems on a tree:  [1 2][0] + (-1)  *)
Example C02_types_ex_expr :
  let A := EBin BPlus TNum (EIndex TNum (EArr (TArr TNum) [C02.n1; C02.n2]) C02.n0)
                           (EGroup (EUn UMinus C02.n1)) in
  ety [] [[]] A = Some TNum /\ plain [] [[]] A = true /\ ann_ok [] [[]] A = true /\
  option_map Sp.spec_tc (erase [[]] A) = Some (Some (Sp.KConst, S.SNum)).
Proof. vm_compute. repeat split; reflexivity. Qed.

(* the implementation-model theorems on trees:  [1 2][0] + (-1)  as a condition operand
   ([1 2][0] + (-1)) > 0 ,  and the target  m["k"][0]  of ex_ctx with its value  2  *)
Example C02_types_ex_impl :
  let A := EBin BGt TBool
             (EGroup (EBin BPlus TNum (EIndex TNum (EArr (TArr TNum) [C02.n1; C02.n2]) C02.n0)
                                      (EGroup (EUn UMinus C02.n1)))) C02.n0 in
  let G := [[(s_ "m", TMap (TArr TNum))]] in
  let tg := EIndex TNum (EIndex (TArr TNum) (EVar (s_ "m") (TMap (TArr TNum))) (EStr (s_ "k"))) C02.n0 in
  sis [] [[]] A TBool = true /\
  option_map TW.uniform (erase [[]] A) = Some true /\
  option_map (T.check S.CCond) (erase [[]] A) = Some (T.Accept T.TBool T.TBool) /\
  target_sty G tg = Some S.SNum /\
  match target_of G tg with
  | Some (root, steps) => TW.uniform_steps steps = true /\
      T.check (S.CAssignTo root steps) S.ELitNum = T.Accept T.TNum T.TNum
  | None => False
  end.
Proof. vm_compute. repeat split; reflexivity. Qed.

(*  y:[]any  /  y = [1 2 3]  /  x := [[1] ["a"]]  /  a := [1] + []  /  m := {k:[4] e:[]}  /  print [[1] []] y x a m  *)
Definition ex_conv : program :=
  let lit t es := EArr t es in
  let n := fun e => EAny e TNum in
  {| p_funcs := []; p_handlers := [];
     p_stmts :=
       [SDecl (s_ "y") (TArr TAny) (EArr (TArr TAny) []);
        SAssign (EVar (s_ "y") (TArr TAny)) (lit (TArr TAny) [n C02.n1; n C02.n2; n C02.n3]);
        SDecl (s_ "x") (TArr (TArr TAny))
          (lit (TArr (TArr TAny)) [lit (TArr TAny) [n C02.n1]; lit (TArr TAny) [EAny (EStr (s_ "a")) TStr]]);
        SDecl (s_ "a") (TArr TNum) (EBin BPlus (TArr TNum) (lit (TArr TNum) [C02.n1]) (lit (TArr TNum) []));
        SDecl (s_ "m") (TMap (TArr TNum))
          (EMap (TMap (TArr TNum)) [(s_ "k", lit (TArr TNum) [C02.n3]); (s_ "e", lit (TArr TNum) [])]);
        SCallStmt (s_ "print")
          [EAny (lit (TArr (TArr TNum)) [lit (TArr TNum) [C02.n1]; lit (TArr TNum) []]) (TArr (TArr TNum));
           EAny (EVar (s_ "y") (TArr TAny)) (TArr TAny);
           EAny (EVar (s_ "x") (TArr (TArr TAny))) (TArr (TArr TAny));
           EAny (EVar (s_ "a") (TArr TNum)) (TArr TNum);
           EAny (EVar (s_ "m") (TMap (TArr TNum))) (TMap (TArr TNum))]] |}.

Example C02_types_ex_conv : swt_program ex_conv = true /\ s2_program ex_conv = true.
Proof. vm_compute. split; reflexivity. Qed.
