(* C06 — Formatting changes nothing but whitespace.
   Property theorems only; every proof is [exact <lemma of FormatProofs>].

   Model: Format.v (format.go + multiline.go, function by function) over the
   formatter's view of the tree, FmtAst.v (nodes + the comments / wss /
   multiline side tables).  [format no_fixes] is the code as it is, [format all_fixes]
   the code with the repairs proposed for C07; both satisfy C06.

   What is proved here is the formatter half of the property, for ALL trees and
   side tables satisfying [wf_prog] (token texts are lexically atomic, comments
   start with "//" and hold no newline, string literals are well delimited, the
   multiline items of a literal list exactly its elements / keys): the output
   text, with white space outside string literals and comments removed, is the
   concatenation of the tree's tokens in source order.  [wf_prog] is evaluated
   by the harness on every tree the real parser produces (it never fails there).
   The parser half ("every token the parser consumed is in the tree") needs a
   parser model (route A, DESIGN 5.0) and is checked on the implementation by
   the token-sequence oracle of harness/c06.go (`end garbage` was accepted
   and dropped until /repo 47e7cf4; the oracle reports it again should it return). *)
From Coq Require Import ZArith NArith List Bool.
From Coq Require Import String.
From EvyV Require Import Base FmtAst Format FormatProofs.
Import ListNotations.
Open Scope N_scope.

Theorem C06_format_emits_tree_tokens : forall (fixed : fixes) (p : fprog),
  wf_prog p = true ->
  strip_ws (format fixed p) = List.concat (tokens_of_ast p).
Proof. exact format_emits_tree_tokens. Qed.
Print Assumptions C06_format_emits_tree_tokens.

(* without any hypothesis: the token-carrying pieces written by the formatter
   are, one by one and in order, the tokens of the tree (comments included) *)
Theorem C06_written_tokens_are_the_tree_tokens : forall (fixed : fixes) (p : fprog),
  toks (fmt_prog fixed p) = tokens_of_ast p.
Proof. exact fmt_prog_toks. Qed.
Print Assumptions C06_written_tokens_are_the_tree_tokens.

(* every expression / statement separately, at every indentation level *)
Theorem C06_expr_tokens : forall (fixed : fixes) (e : fexpr) (lvl : nat),
  toks (fmt_expr fixed lvl e) = expr_tokens e.
Proof. exact toks_expr. Qed.
Print Assumptions C06_expr_tokens.

Theorem C06_stmt_tokens : forall (fixed : fixes) (s : fstmt) (lvl : nat),
  toks (fmt_stmt fixed lvl s) = stmt_tokens s.
Proof. exact toks_stmt. Qed.
Print Assumptions C06_stmt_tokens.

(* formatMultiline drops newline items only: no element, key or comment of a
   multi-line literal is lost by the blank-run squeezing *)
Theorem C06_multiline_squeeze_keeps_tokens : forall (els : list (list str)) (items : list str),
  arr_item_tokens (format_multiline items) els = arr_item_tokens items els.
Proof. intros els items. exact (arr_item_tokens_fm els items 0). Qed.
Print Assumptions C06_multiline_squeeze_keeps_tokens.

(* ---------- non-vacuity ---------- *)

(*  x := [1 // one
         2
    ] // c
    if x[0] > 0 // c1
        print "a b" 6/2
    end                                              *)
Definition C06_example : fprog :=
  [ SInferredDecl (s_ "x"%string)
      (FArr [k_el; s_ "// one"%string ++ k_nl; k_el; k_nl] [FNum 0 (s_ "1"%string); FNum 0 (s_ "2"%string)]) (s_ "// c  "%string);
    SIf (CBlock (FBin OpGt false (FIdx (FVar (s_ "x"%string)) (FNum 0 (s_ "0"%string))) (FNum 0 (s_ "0"%string))) (s_ "// c1"%string)
           [SCall (s_ "print"%string) [FStr (s_ "a b"%string) (s_ """a b"""%string); FBin OpSlash true (FNum 0 (s_ "6"%string)) (FNum 0 (s_ "2"%string))] []])
        [] None [] ].

Example C06_example_wf : wf_prog C06_example = true.
Proof. vm_compute. reflexivity. Qed.

Example C06_example_text :
  format no_fixes C06_example =
  s_ "x := [1 // one"%string ++ k_nl ++ s_ "    2"%string ++ k_nl ++ s_ "] // c"%string ++ k_nl ++
  s_ "if x[0] > 0 // c1"%string ++ k_nl ++ s_ "    print ""a b"" 6/2"%string ++ k_nl ++ s_ "end"%string ++ k_nl.
Proof. vm_compute. reflexivity. Qed.

Example C06_example_stripped :
  strip_ws (format no_fixes C06_example) = s_ "x:=[1// one2]// cifx[0]>0// c1print""a b""6/2end"%string.
Proof. vm_compute. reflexivity. Qed.

(* the hypothesis is not idle: a "name" holding a blank is not a token *)
Example C06_wf_needed :
  let p := [SInferredDecl (s_ "x"%string) (FVar (s_ "a b"%string)) []] in
  wf_prog p = false /\ strip_ws (format no_fixes p) <> List.concat (tokens_of_ast p).
Proof. vm_compute. split; [reflexivity | discriminate]. Qed.
