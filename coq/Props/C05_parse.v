(* C05 (part) — a program that breaks a static rule is rejected: the parser model.
   Property theorems only; proofs are [exact <lemma of ParserRules>].

   Contrapositive form, for EVERY token list, builtin table and typing oracle:
     parse B raw eof = Accept p  ->  the accepted tree p satisfies the rule.
   The rules are declarative, structurally recursive predicates on the tree
   (ParserRules.v, written from the property text and docs/spec.md); they do not look at
   the parser's bookkeeping. *)
From Coq Require Import List NArith ZArith Bool Arith String.
From EvyV Require Import Base Pratt Parser ParserProofs ParserRules.
From EvyV.Gen Require Import Prec.
Import ListNotations.
Local Open Scope nat_scope.

(* STRUCTURE.  An accepted program satisfies, at every nesting depth:
   (a) every break is inside a while / for body of the same function or handler (or of the
       top level),
   (b) the body of a func with a return type returns on every path (block_returns: some
       statement of the block is a return, or an if / else-if / else all of whose branches
       return),
   (c) no statement other than blank lines / comments follows a terminating statement
       (return, break, if-else all of whose branches terminate) in a block,
   (d) return occurs only inside a func or an on handler, and never without a value in a func
       with a return type (a value after return in a procedure / handler is a typing matter:
       the type checker accepts exactly values of type none, cf. the typing oracle),
   and func / on definitions occur at top level only. *)
Theorem C05_parse_accept_structure : forall B raw eof p,
  parse B raw eof = Accept p -> structure_ok p = true.
Proof. exact accept_structure. Qed.
Print Assumptions C05_parse_accept_structure.

(* (i, part) the statement loop of an accepted (or rejected) run stops at the end of the input
   only: every token has been consumed by some statement *)
Theorem C05_parse_consumes_all : forall B fuel acc terms s p s',
  program_loop B fuel acc terms s = Ok p s' -> ct s' = T_EOF.
Proof. exact program_loop_ends. Qed.
Print Assumptions C05_parse_consumes_all.

(* EXPRESSIONS (rule (e), rule (f) as far as a single expression goes, type mismatch).
   For every environment (function table with arities, visible variables, typing oracle), every
   state and every fuel: an expression tree returned by the expression parser on a run that
   recorded no error satisfies tree_ok:
     - every call names a function of the table, with as many arguments as the function has
       parameters unless it is variadic (a niladic function read as a value takes none);
     - every variable read is visible in the environment (lookupVar found it);
     - at every node for which the Go code consults the type checker (unary / binary operand
       types, indexable / index type, sliceable / slice bounds, field access on a map, type
       assertion on any, argument types) the typing oracle did not object.
   _partial: this is the expression level only.  The lift to whole programs (every expression
   of an accepted program is tree_ok for the function table fixed by the signature pre-pass) and
   the scoping rules (f) (g) (h) are in Props/C05_scope.v. *)
Theorem C05_parse_expr_rules_partial : forall E fuel p c t c',
  parse_expr E fuel p c = Some (Some t, c') -> errs c' = [] -> tree_ok E t.
Proof. intros E fuel. exact (proj1 (expr_rules E fuel)). Qed.
Print Assumptions C05_parse_expr_rules_partial.

(* errors are never removed: a run that ends without error never recorded one *)
Theorem C05_parse_errors_monotone : forall E fuel p c a c',
  parse_expr E fuel p c = Some (a, c') -> errs c' = [] -> errs c = [].
Proof. intros E fuel. exact (proj1 (expr_ne E fuel)). Qed.
Print Assumptions C05_parse_errors_monotone.

(* ---------- non-vacuity ---------- *)
(* tokens of one line, columns 1, 2, 3, ... (whitespace tokens are optional for the parser) *)
Fixpoint line_from (l c : nat) (ts : list (toktype * string)) : list (token * position) :=
  match ts with
  | [] => []
  | (t, s) :: r => ({| ttype := t; tlit := s_ s |}, (l, c)) :: line_from l (S c) r
  end.
Fixpoint lines_from (l : nat) (ls : list (list (toktype * string))) : list (token * position) :=
  match ls with
  | [] => []
  | x :: r => line_from l 1 (x ++ [(T_NL, ""%string)]) ++ lines_from (S l) r
  end.
Definition prog (ls : list (list (toktype * string))) : list (token * position) := lines_from 1 ls.
Definition i_ (s : string) := (T_IDENT, s).
Definition n_ (s : string) := (T_NUM_LIT, s).
Definition k_ (t : toktype) := (t, ""%string).

Definition B1 : benv :=
  {| b_funcs := [(s_ "print", false); (s_ "len", false)]; b_arity := [(s_ "print", None); (s_ "len", Some 1)]; b_globals := [s_ "err"];
     b_events := [(s_ "key", [TyStr])]; b_tyerr := fun _ _ _ => false |}.
Definition run (ls : list (list (toktype * string))) : outcome := parse B1 (prog ls) (List.length ls + 1, 1).
Definition rejected (o : outcome) : bool := match o with Reject (_ :: _) => true | _ => false end.

(* func f:num n:num / while true / if n > 0 / break / end / return 1 / end / return 2 / end
   on key k:string / print k / return / end
   for i := range 3 / print (f i) / end *)
Definition ex_ok : list (list (toktype * string)) :=
  [ [k_ T_FUNC; i_ "f"; k_ T_COLON; k_ T_NUM; i_ "n"; k_ T_COLON; k_ T_NUM];
    [k_ T_WHILE; k_ T_TRUE];
    [k_ T_IF; i_ "n"; k_ T_GT; n_ "0"];
    [k_ T_BREAK];
    [k_ T_END];
    [k_ T_RETURN; n_ "1"];
    [k_ T_END];
    [k_ T_RETURN; n_ "2"];
    [k_ T_END];
    [k_ T_ON; i_ "key"; i_ "k"; k_ T_COLON; k_ T_STRING];
    [i_ "print"; i_ "k"];
    [k_ T_RETURN];
    [k_ T_END];
    [k_ T_FOR; i_ "i"; k_ T_DECLARE; k_ T_RANGE; n_ "3"];
    [i_ "print"; k_ T_LPAREN; i_ "f"; i_ "i"; k_ T_RPAREN];
    [k_ T_END] ].

Example C05_parse_ex_accepted :
  exists p, run ex_ok = Accept p /\ structure_ok p = true /\ List.length p = 3.
Proof. vm_compute. eexists. repeat split. Qed.

(* one rejected witness per rule *)
Example C05_parse_ex_break_outside_loop : rejected (run [[k_ T_BREAK]]) = true.
Proof. vm_compute. reflexivity. Qed.
Example C05_parse_ex_break_in_func_in_loop_position :
  (* a break inside a function body that is not inside a loop OF THAT FUNCTION *)
  rejected (run [[k_ T_FUNC; i_ "g"]; [k_ T_BREAK]; [k_ T_END]]) = true.
Proof. vm_compute. reflexivity. Qed.
Example C05_parse_ex_missing_return :
  rejected (run [[k_ T_FUNC; i_ "f"; k_ T_COLON; k_ T_NUM]; [k_ T_IF; k_ T_TRUE]; [k_ T_RETURN; n_ "1"]; [k_ T_END]; [k_ T_END]]) = true.
Proof. vm_compute. reflexivity. Qed.
Example C05_parse_ex_unreachable :
  rejected (run [[k_ T_WHILE; k_ T_TRUE]; [k_ T_BREAK]; [i_ "print"; n_ "1"]; [k_ T_END]]) = true.
Proof. vm_compute. reflexivity. Qed.
Example C05_parse_ex_return_at_top_level : rejected (run [[k_ T_RETURN]]) = true.
Proof. vm_compute. reflexivity. Qed.
Example C05_parse_ex_bare_return_in_func_with_type :
  rejected (run [[k_ T_FUNC; i_ "f"; k_ T_COLON; k_ T_NUM]; [k_ T_RETURN]; [k_ T_END]]) = true.
Proof. vm_compute. reflexivity. Qed.
Example C05_parse_ex_func_not_at_top_level :
  rejected (run [[k_ T_IF; k_ T_TRUE]; [k_ T_FUNC; i_ "g"]; [i_ "print"; n_ "1"]; [k_ T_END]; [k_ T_END]]) = true.
Proof. vm_compute. reflexivity. Qed.
Example C05_parse_ex_stray_text :
  rejected (run [[i_ "print"; n_ "1"; k_ T_RPAREN]]) = true /\
  rejected (run [[k_ T_IF; k_ T_TRUE]; [i_ "print"; n_ "1"]; [k_ T_END; i_ "garbage"]]) = true.
Proof. vm_compute. split; reflexivity. Qed.

(* the remaining rules: rejected witnesses (theorems: Props/C05_scope.v) *)
Example C05_parse_ex_undeclared_variable : rejected (run [[i_ "print"; i_ "x"]]) = true.
Proof. vm_compute. reflexivity. Qed.
Example C05_parse_ex_unused_variable : rejected (run [[i_ "x"; k_ T_DECLARE; n_ "1"]]) = true.
Proof. vm_compute. reflexivity. Qed.
Example C05_parse_ex_unused_parameter_and_loop_variable :
  rejected (run [[k_ T_FUNC; i_ "g"; i_ "q"; k_ T_COLON; k_ T_NUM]; [i_ "print"; n_ "1"]; [k_ T_END]]) = true /\
  rejected (run [[k_ T_FOR; i_ "i"; k_ T_DECLARE; k_ T_RANGE; n_ "3"]; [i_ "print"; n_ "1"]; [k_ T_END]]) = true.
Proof. vm_compute. split; reflexivity. Qed.
Example C05_parse_ex_redeclaration :
  rejected (run [[i_ "x"; k_ T_DECLARE; n_ "1"]; [i_ "x"; k_ T_DECLARE; n_ "2"]; [i_ "print"; i_ "x"]]) = true.
Proof. vm_compute. reflexivity. Qed.
Example C05_parse_ex_unknown_function : rejected (run [[i_ "foo"; n_ "1"]]) = true.
Proof. vm_compute. reflexivity. Qed.
Example C05_parse_ex_wrong_argument_count :
  rejected (run [[i_ "print"; k_ T_LPAREN; i_ "len"; n_ "1"; n_ "2"; k_ T_RPAREN]]) = true /\
  rejected (run [[i_ "print"; k_ T_LPAREN; i_ "len"; k_ T_RPAREN]]) = true.
Proof. vm_compute. split; reflexivity. Qed.
(* type mismatch: whenever the typing oracle objects, the program is rejected *)
Example C05_parse_ex_type_mismatch :
  rejected (parse {| b_funcs := b_funcs B1; b_arity := b_arity B1; b_globals := b_globals B1; b_events := b_events B1;
                     b_tyerr := fun s _ _ => match s with TS_binary => true | _ => false end |}
                  (prog [[i_ "print"; n_ "1"; k_ T_PLUS; (T_STRING_LIT, "a"%string)]]) (2, 1)) = true.
Proof. vm_compute. reflexivity. Qed.
Example C05_parse_ex_value_returned_from_procedure :
  (* `return 1` in a procedure: a typing matter (the oracle stands for returnType.accepts) *)
  rejected (parse {| b_funcs := b_funcs B1; b_arity := b_arity B1; b_globals := b_globals B1; b_events := b_events B1;
                     b_tyerr := fun s _ _ => match s with TS_return_type => true | _ => false end |}
                  (prog [[k_ T_FUNC; i_ "g"]; [k_ T_RETURN; n_ "1"]; [k_ T_END]]) (4, 1)) = true.
Proof. vm_compute. reflexivity. Qed.
