(* C16 — the VM model with the store (VmHeap.v): what OpSetIndex does.
   Property theorems only; proofs are [exact <lemma of VmHeapProofs>].

   VmHeap.v is the model that is compared with the real VM on programs WITH
   element stores and aliasing (harness/c16ast.go, keys vm-heap-model-differs).
   These theorems state the reference semantics of its store for ALL heaps:
   a store through one reference is read back through every other reference to
   the same cell, and changes nothing else.  (compile_correct for element
   stores — the simulation against a source semantics with references — is not
   proved: exec_l / lx_l have value semantics.) *)
From Coq Require Import ZArith NArith PArith List String.
From EvyV Require Import Base Bytecode Vm VmHeap VmHeapProofs Compile.
Import ListNotations.
Open Scope list_scope.

(* a[i] = v through the reference [HArr l]: reading index i through ANY value
   referring to cell l gives v; the other elements, the length, every other
   cell and the allocation pointer are unchanged *)
Theorem C16_store_array_visible : forall h l f v h',
  hset_index h [HNum f; HArr l; v] = SOk h' ->
  hindex h' (HArr l) (HNum f) = ROk v h' /\
  (exists i, normalize_index f (List.length (arr_at h l)) false = IOk i /\
             arr_at h' l = set_nth i v (arr_at h l) /\
             forall j, j <> i -> nth_error (arr_at h' l) j = nth_error (arr_at h l) j) /\
  List.length (arr_at h' l) = List.length (arr_at h l) /\
  (forall l', l' <> l -> arr_at h' l' = arr_at h l' /\ map_at h' l' = map_at h l') /\
  hnext h' = hnext h.
Proof. exact store_array_visible. Qed.
Print Assumptions C16_store_array_visible.

(* m[k] = v through one map value: reading key k through ANY map value on the
   same cell, whatever `order` it carries, gives v — also for a new key — and
   no `order` anywhere changes (hset_index returns a heap only; `order` lives
   in the values): the recorded divergence vm-map-insert-lost, as on the real VM *)
Theorem C16_store_map_visible : forall h order l k v h',
  hset_index h [HStr k; HMap order l; v] = SOk h' ->
  (forall order', hindex h' (HMap order' l) (HStr k) = ROk v h') /\
  (forall k2, str_eqb k2 k = false -> hlookup k2 (map_at h' l) = hlookup k2 (map_at h l)) /\
  (forall l', l' <> l -> arr_at h' l' = arr_at h l' /\ map_at h' l' = map_at h l') /\
  hnext h' = hnext h.
Proof. exact store_map_visible. Qed.
Print Assumptions C16_store_map_visible.

(* Every instruction other than OpSetIndex only ALLOCATES: a step of the store
   VM that does not fetch an OpSetIndex leaves every existing cell as it is
   (heap_extends: the allocation pointer does not decrease and every cell below
   the old pointer is unchanged).  So on bytecode without OpSetIndex no array
   or map is ever mutated — the reason why Vm.v's value semantics is adequate
   there (the agreement VmHeap ~ Vm on such bytecode itself is not proved; both
   models are compared with the real VM on those programs). *)
Theorem C16_step_allocates_only : forall p s s',
  hvm_step p s = HRunning s' -> ~ fetches_setindex p s -> heap_extends (hheap s) (hheap s').
Proof. exact hvm_step_allocates_only. Qed.
Print Assumptions C16_step_allocates_only.

(* the hypotheses are satisfiable, on a run: after `a := [1 2 3]`, `b := a` the
   store `b[-1] = 9` (negative index: normalizeIndex) succeeds on the cell both globals refer to *)
Example C16_ex_store_visible :
  let num z := ENum (float_of_Z z) in
  match compile (SCons (SDecl (s_ "a") (EArr (ECons (num 1%Z) (ECons (num 2%Z) (ECons (num 3%Z) ENil)))))
                (SCons (SDecl (s_ "b") (EVar (s_ "a"))) SNil)) with
  | COk st =>
      let p := program_of (bytecode_of st) in
      match hvm_run 100 p (hvm_init p) with
      | HFHalted s =>
          match hglobals s with
          | [HArr la; HArr lb] =>
              la = lb /\
              match hset_index (hheap s) [HNum (float_of_Z (-1)); HArr lb; HNum (float_of_Z 9)] with
              | SOk h' => resolve 5 h' (HArr la) = VArr (map (fun z => VNum (float_of_Z z)) [1; 2; 9]%Z)
              | _ => False
              end
          | _ => False
          end
      | _ => False
      end
  | CErr _ => False
  end.
Proof. vm_compute. split; reflexivity. Qed.
